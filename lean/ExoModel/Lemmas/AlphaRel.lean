/-
  The state relation behind the alpha comparison `Rw.blockEq'` and the invariance of the
  evaluation functions under it.

  `RenRel ρc ρv σ σ'`: same heap and configuration; a control variable `a` of `σ` and `b` of `σ'`
  that the comparison identifies under `ρc` have the same binding (or are both unbound), likewise
  buffers under `ρv`.
-/
import ExoModel.AlphaEq
import ExoModel.Equiv

set_option linter.unusedSectionVars false
namespace Exo.Rw
open Exo
variable {V : Type}

/-! ### `symEq` -/

theorem symEq_nil (a b : Sym) : symEq [] a b = (a == b) := by simp [symEq]

theorem symEq_cons (x y : Sym) (ρ : Ren) (a b : Sym) :
    symEq ((x, y) :: ρ) a b
      = if (x == a || y == b) = true then (x == a && y == b) else symEq ρ a b := by
  unfold symEq
  rw [List.find?_cons]
  cases h : (x == a || y == b)
  · simp
  · simp

/-- pushing the same value under a compared pair of names keeps lookups in agreement -/
theorem lookup_ext {α} (x y a b : Sym) (v : α) (E E' : List (Sym × α)) (ρ : Ren)
    (h : symEq ((x, y) :: ρ) a b = true)
    (ih : symEq ρ a b = true → lookupSym a E = lookupSym b E') :
    lookupSym a ((x, v) :: E) = lookupSym b ((y, v) :: E') := by
  rw [symEq_cons] at h
  simp only [lookupSym]
  by_cases h1 : x = a
  · subst h1
    simp at h
    subst h
    simp
  · by_cases h2 : y = b
    · subst h2
      simp [h1] at h
    · simp [h1, h2] at h
      rw [if_neg (fun e => h1 e.symm), if_neg (fun e => h2 e.symm)]
      exact ih h

/-! ### the state relation -/

structure RenRel (ρc ρv : Ren) (σ σ' : State V) : Prop where
  heap : σ.heap = σ'.heap
  cfg : σ.cfg = σ'.cfg
  env : ∀ a b, symEq ρc a b = true → lookupSym a σ.env = lookupSym b σ'.env
  views : ∀ a b, symEq ρv a b = true → lookupSym a σ.views = lookupSym b σ'.views

theorem RenRel.refl (σ : State V) : RenRel [] [] σ σ :=
  ⟨rfl, rfl, fun a b h => by simp [symEq_nil] at h; rw [h],
    fun a b h => by simp [symEq_nil] at h; rw [h]⟩

theorem RenRel.bind {ρc ρv : Ren} {σ σ' : State V} (h : RenRel ρc ρv σ σ') (i i' : Sym) (v : Int) :
    RenRel ((i, i') :: ρc) ρv (σ.bind i v) (σ'.bind i' v) :=
  ⟨h.heap, h.cfg, fun a b hab => lookup_ext i i' a b v _ _ ρc hab (h.env a b), h.views⟩

theorem RenRel.bindView {ρc ρv : Ren} {σ σ' : State V} (h : RenRel ρc ρv σ σ') (x y : Sym)
    (v : View) : RenRel ρc ((x, y) :: ρv) (σ.bindView x v) (σ'.bindView y v) :=
  ⟨h.heap, h.cfg, h.env, fun a b hab => lookup_ext x y a b v _ _ ρv hab (h.views a b)⟩

theorem RenRel.leave {ρc ρv : Ren} {σ σ' o o' : State V} (h : RenRel ρc ρv σ σ')
    (hh : o.heap = o'.heap) (hc : o.cfg = o'.cfg) :
    RenRel ρc ρv (State.leave σ o) (State.leave σ' o') :=
  ⟨by simp [State.leave, hh, h.heap], by simp [State.leave, hc], h.env, h.views⟩

/-- same error, or two successes related by `R` -/
def ExRel {α : Type} (R : α → α → Prop) : Except Err α → Except Err α → Prop
  | .ok s, .ok s' => R s s'
  | .error e, .error e' => e = e'
  | _, _ => False

theorem ExRel.mono {α} {R R' : α → α → Prop} (h : ∀ a b, R a b → R' a b) {r r' : Except Err α}
    (hr : ExRel R r r') : ExRel R' r r' := by
  cases r <;> cases r' <;> simp_all [ExRel]

theorem ExRel.of_eq {α} {R : α → α → Prop} {r r' : Except Err α} (h : r = r')
    (hR : ∀ a, r = .ok a → R a a) : ExRel R r r' := by
  subst h
  cases r with
  | error e => rfl
  | ok a => exact hR a rfl

theorem ExRel.bind {α β} {R : α → α → Prop} {S : β → β → Prop} {r r' : Except Err α}
    {f g : α → Except Err β} (h : ExRel R r r') (hf : ∀ a b, R a b → ExRel S (f a) (g b)) :
    ExRel S (r >>= f) (r' >>= g) := by
  cases r with
  | error e =>
    cases r' with
    | error e' => exact h
    | ok b => exact h.elim
  | ok a =>
    cases r' with
    | error e' => exact h.elim
    | ok b => exact hf a b h

theorem ExRel.map {α β} {R : α → α → Prop} {S : β → β → Prop} {r r' : Except Err α}
    {f g : α → β} (h : ExRel R r r') (hf : ∀ a b, R a b → S (f a) (g b)) :
    ExRel S (r.map f) (r'.map g) := by
  cases r <;> cases r' <;> simp_all [ExRel, Except.map]

/-- the heap and the configuration agree -/
def SameHC (s s' : State V) : Prop := s.heap = s'.heap ∧ s.cfg = s'.cfg

theorem RenRel.sameHC {ρc ρv : Ren} {σ σ' : State V} (h : RenRel ρc ρv σ σ') : SameHC σ σ' :=
  ⟨h.heap, h.cfg⟩

theorem iterate_rel (R : State V → State V → Prop) (f f' : Int → State V → Except Err (State V))
    (hf : ∀ v s s', R s s' → ExRel R (f v s) (f' v s')) :
    ∀ (n : Nat) (lo : Int) (s s' : State V), R s s' → ExRel R (iterate f n lo s) (iterate f' n lo s')
  | 0, _, _, _, h => h
  | n + 1, lo, s, s', h => by
    simp only [iterate]
    exact ExRel.bind (hf lo s s' h) (fun a b hab => iterate_rel R f f' hf n (lo + 1) a b hab)

/-! ### evaluation -/

section
variable {ρc ρv : Ren} {σ σ' : State V} (hr : RenRel ρc ρv σ σ')
include hr

theorem evalC_alpha : ∀ (e e' : Expr), exprEq' true ρc ρv e e' = true → evalC σ e = evalC σ' e'
  | .read x i, e', h => by
    cases e' with
    | read y j =>
      simp only [exprEq', if_true, Bool.and_eq_true] at h
      cases i with
      | nil =>
        cases j with
        | nil => simp only [evalC, hr.env x y h.1]
        | cons _ _ => simp [exprsEq'] at h
      | cons _ _ =>
        cases j with
        | nil => simp [exprsEq'] at h
        | cons _ _ => simp [evalC]
    | _ => simp [exprEq'] at h
  | .lit a, e', h => by
    cases e' with
    | lit b =>
      simp only [exprEq', beq_iff_eq] at h
      subst h
      cases a <;> simp [evalC]
    | _ => simp [exprEq'] at h
  | .usub a, e', h => by
    cases e' with
    | usub b =>
      simp only [exprEq'] at h
      simp only [evalC, evalC_alpha a b h]
    | _ => simp [exprEq'] at h
  | .binop o a b, e', h => by
    cases e' with
    | binop o' a' b' =>
      simp only [exprEq', Bool.and_eq_true, beq_iff_eq] at h
      simp only [evalC, evalC_alpha a a' h.1.2, evalC_alpha b b' h.2, h.1.1]
    | _ => simp [exprEq'] at h
  | .extern f a, e', h => by
    cases e' with
    | extern g b => simp [evalC]
    | _ => simp [exprEq'] at h
  | .win x a, e', h => by
    cases e' with
    | win y b => simp [evalC]
    | _ => simp [exprEq'] at h
  | .stride x d, e', h => by
    cases e' with
    | stride y d' =>
      simp only [exprEq', Bool.and_eq_true, beq_iff_eq] at h
      simp only [evalC, hr.views x y h.1, h.2]
    | _ => simp [exprEq'] at h
  | .readcfg c f, e', h => by
    cases e' with
    | readcfg c' f' =>
      simp only [exprEq', Bool.and_eq_true, beq_iff_eq] at h
      simp only [evalC, hr.cfg, h.1, h.2]
    | _ => simp [exprEq'] at h

theorem evalCs_alpha : ∀ (es es' : List Expr), exprsEq' true ρc ρv es es' = true →
    evalCs σ es = evalCs σ' es'
  | [], [], _ => rfl
  | [], _ :: _, h => by simp [exprsEq'] at h
  | _ :: _, [], h => by simp [exprsEq'] at h
  | a :: r, b :: r', h => by
    simp only [exprsEq', Bool.and_eq_true] at h
    simp only [evalCs, evalC_alpha hr a b h.1, evalCs_alpha r r' h.2]

end

section
variable [DataAlg V] (ext : String → List V → V)
variable {ρc ρv : Ren} {σ σ' : State V} (hr : RenRel ρc ρv σ σ')
include hr

mutual
theorem evalD_alpha : ∀ (e e' : Expr), exprEq' false ρc ρv e e' = true →
    evalD ext σ e = evalD ext σ' e'
  | .read x i, e', h => by
    cases e' with
    | read y j =>
      simp only [exprEq', Bool.false_eq_true, if_false, Bool.and_eq_true] at h
      simp only [evalD, hr.views x y h.1, evalCs_alpha hr i j h.2, hr.heap]
    | _ => simp [exprEq'] at h
  | .lit a, e', h => by
    cases e' with
    | lit b =>
      simp only [exprEq', beq_iff_eq] at h
      subst h
      cases a <;> simp [evalD]
    | _ => simp [exprEq'] at h
  | .usub a, e', h => by
    cases e' with
    | usub b =>
      simp only [exprEq'] at h
      simp only [evalD, evalD_alpha a b h]
    | _ => simp [exprEq'] at h
  | .binop o a b, e', h => by
    cases e' with
    | binop o' a' b' =>
      simp only [exprEq', Bool.and_eq_true, beq_iff_eq] at h
      simp only [evalD, evalD_alpha a a' h.1.2, evalD_alpha b b' h.2, h.1.1]
    | _ => simp [exprEq'] at h
  | .extern f a, e', h => by
    cases e' with
    | extern g b =>
      simp only [exprEq', Bool.and_eq_true, beq_iff_eq] at h
      simp only [evalD, evalDs_alpha a b h.2, h.1]
    | _ => simp [exprEq'] at h
  | .win x a, e', h => by
    cases e' with
    | win y b => simp [evalD]
    | _ => simp [exprEq'] at h
  | .stride x d, e', h => by
    cases e' with
    | stride y d' => simp [evalD]
    | _ => simp [exprEq'] at h
  | .readcfg c f, e', h => by
    cases e' with
    | readcfg c' f' =>
      simp only [exprEq', Bool.and_eq_true, beq_iff_eq] at h
      simp only [evalD, hr.cfg, h.1, h.2]
    | _ => simp [exprEq'] at h
theorem evalDs_alpha : ∀ (es es' : List Expr), exprsEq' false ρc ρv es es' = true →
    evalDs ext σ es = evalDs ext σ' es'
  | [], [], _ => rfl
  | [], _ :: _, h => by simp [exprsEq'] at h
  | _ :: _, [], h => by simp [exprsEq'] at h
  | a :: r, b :: r', h => by
    simp only [exprsEq', Bool.and_eq_true] at h
    simp only [evalDs, evalD_alpha a b h.1, evalDs_alpha r r' h.2]
end

end

section
variable {ρc ρv : Ren} {σ σ' : State V} (hr : RenRel ρc ρv σ σ')
include hr

theorem applyAcc_alpha : ∀ (as as' : List WAcc), waccsEq' ρc ρv as as' = true →
    ∀ (ds : List (Int × Int)) (off : Int), applyAcc σ as ds off = applyAcc σ' as' ds off
  | [], [], _, ds, off => by cases ds <;> simp [applyAcc]
  | [], _ :: _, h, _, _ => by simp [waccsEq'] at h
  | _ :: _, [], h, _, _ => by simp [waccsEq'] at h
  | .point a :: r, w :: r', h, ds, off => by
    simp only [waccsEq', Bool.and_eq_true] at h
    cases w with
    | interval _ _ => simp [waccEq'] at h
    | point b =>
      simp only [waccEq'] at h
      cases ds with
      | nil => simp [applyAcc]
      | cons d ds =>
        obtain ⟨ext, st⟩ := d
        simp only [applyAcc, evalC_alpha hr a b h.1]
        cases evalC σ' b with
        | error e => rfl
        | ok i =>
          simp only [bind, Except.bind]
          split
          · exact applyAcc_alpha r r' h.2 ds _
          · rfl
  | .interval lo hi :: r, w :: r', h, ds, off => by
    simp only [waccsEq', Bool.and_eq_true] at h
    cases w with
    | point _ => simp [waccEq'] at h
    | interval lo' hi' =>
      simp only [waccEq', Bool.and_eq_true] at h
      cases ds with
      | nil => simp [applyAcc]
      | cons d ds =>
        obtain ⟨ext, st⟩ := d
        simp only [applyAcc, evalC_alpha hr lo lo' h.1.1, evalC_alpha hr hi hi' h.1.2]
        cases evalC σ' lo' with
        | error e => rfl
        | ok l =>
          cases evalC σ' hi' with
          | error e => rfl
          | ok hv =>
            simp only [bind, Except.bind]
            split
            · rw [applyAcc_alpha r r' h.2 ds _]
            · rfl

theorem evalView_alpha : ∀ (e e' : Expr), exprEq' false ρc ρv e e' = true →
    evalView σ e = evalView σ' e'
  | .read x i, e', h => by
    cases e' with
    | read y j =>
      simp only [exprEq', Bool.false_eq_true, if_false, Bool.and_eq_true] at h
      cases i with
      | nil =>
        cases j with
        | nil => simp only [evalView, hr.views x y h.1]
        | cons _ _ => simp [exprsEq'] at h
      | cons a r =>
        cases j with
        | nil => simp [exprsEq'] at h
        | cons b r' => simp only [evalView, hr.views x y h.1, evalCs_alpha hr _ _ h.2]
    | _ => simp [exprEq'] at h
  | .win x a, e', h => by
    cases e' with
    | win y b =>
      simp only [exprEq', Bool.and_eq_true] at h
      simp only [evalView, hr.views x y h.1]
      cases lookupSym y σ'.views with
      | none => rfl
      | some v => simp only [applyAcc_alpha hr a b h.2]
    | _ => simp [exprEq'] at h
  | .lit a, e', h => by
    cases e' with
    | lit b => simp [evalView]
    | _ => simp [exprEq'] at h
  | .usub a, e', h => by
    cases e' with
    | usub b => simp [evalView]
    | _ => simp [exprEq'] at h
  | .binop o a b, e', h => by
    cases e' with
    | binop o' a' b' => simp [evalView]
    | _ => simp [exprEq'] at h
  | .extern f a, e', h => by
    cases e' with
    | extern g b => simp [evalView]
    | _ => simp [exprEq'] at h
  | .stride x d, e', h => by
    cases e' with
    | stride y d' => simp [evalView]
    | _ => simp [exprEq'] at h
  | .readcfg c f, e', h => by
    cases e' with
    | readcfg c' f' => simp [evalView]
    | _ => simp [exprEq'] at h

theorem writeCell_alpha (x y : Sym) (idx idx' : List Expr) (f : Option V → Option V)
    (hx : symEq ρv x y = true) (hi : exprsEq' true ρc ρv idx idx' = true) :
    ExRel (RenRel ρc ρv) (writeCell σ x idx f) (writeCell σ' y idx' f) := by
  simp only [writeCell, hr.views x y hx, evalCs_alpha hr idx idx' hi, hr.heap]
  cases lookupSym y σ'.views with
  | none => rfl
  | some v =>
    simp only []
    cases evalCs σ' idx' with
    | error e => rfl
    | ok is =>
      simp only [bind, Except.bind]
      cases cellOf σ'.heap v is with
      | error e => rfl
      | ok c =>
        simp only [pure, Except.pure, ExRel]
        exact ⟨by simp, hr.cfg, hr.env, hr.views⟩

/-- related actuals bound to the same formals give the same callee environment -/
theorem bindArgs_alpha : ∀ (fs fs' : List FnArg) (as as' : List Expr),
    fnArgsEq' fs fs' = true → argsEq' ρc ρv fs as as' = true →
    ∀ (ce : List (Sym × Int)) (cv : List (Sym × View)),
      bindArgs σ fs as ce cv = bindArgs σ' fs' as' ce cv
  | [], [], [], [], _, _, _, _ => rfl
  | [], _ :: _, _, _, h, _, _, _ => by simp [fnArgsEq'] at h
  | _ :: _, [], _, _, h, _, _, _ => by simp [fnArgsEq'] at h
  | [], [], [], _ :: _, _, h, _, _ => by simp [argsEq'] at h
  | [], [], _ :: _, [], _, h, _, _ => by simp [argsEq'] at h
  | [], [], _ :: _, _ :: _, _, _, _, _ => by simp [bindArgs]
  | ⟨_, t⟩ :: _, ⟨_, t'⟩ :: _, [], [], _, _, _, _ => by cases t <;> cases t' <;> simp [bindArgs]
  | ⟨_, t⟩ :: _, _ :: _, [], _ :: _, _, h, _, _ => by cases t <;> simp [argsEq'] at h
  | ⟨_, t⟩ :: _, _ :: _, _ :: _, [], _, h, _, _ => by cases t <;> simp [argsEq'] at h
  | ⟨x, t⟩ :: fs, ⟨y, t'⟩ :: fs', a :: as, b :: bs, hf, h, ce, cv => by
    simp only [fnArgsEq', Bool.and_eq_true, beq_iff_eq] at hf
    obtain ⟨⟨hxy, ht⟩, hfs⟩ := hf
    subst hxy
    cases t with
    | ctrl k =>
      cases t' with
      | ctrl k' =>
        simp only [argTyEq', beq_iff_eq] at ht
        subst ht
        simp only [argsEq', Bool.and_eq_true] at h
        simp only [bindArgs, evalC_alpha hr a b h.1]
        cases evalC σ' b with
        | error e => rfl
        | ok v =>
          simp only [bind, Except.bind]
          split
          · rfl
          · exact bindArgs_alpha fs fs' as bs hfs h.2 _ _
      | _ => simp [argTyEq'] at ht
    | scalar =>
      cases t' with
      | scalar =>
        simp only [argsEq', Bool.and_eq_true] at h
        simp only [bindArgs, evalView_alpha hr a b h.1]
        cases evalView σ' b with
        | error e => rfl
        | ok v =>
          simp only [bind, Except.bind]
          exact bindArgs_alpha fs fs' as bs hfs h.2 _ _
      | _ => simp [argTyEq'] at ht
    | tensor s w =>
      cases t' with
      | tensor s' w' =>
        simp only [argsEq', Bool.and_eq_true] at h
        simp only [bindArgs, evalView_alpha hr a b h.1]
        cases evalView σ' b with
        | error e => rfl
        | ok v =>
          simp only [bind, Except.bind]
          exact bindArgs_alpha fs fs' as bs hfs h.2 _ _
      | _ => simp [argTyEq'] at ht

end

/-- alpha-equal formal lists impose the same shape checks on a callee state -/
theorem checkShapes_alpha (σc : State V) : ∀ (fs fs' : List FnArg), fnArgsEq' fs fs' = true →
    checkShapes σc fs = checkShapes σc fs'
  | [], [], _ => rfl
  | [], _ :: _, h => by simp [fnArgsEq'] at h
  | _ :: _, [], h => by simp [fnArgsEq'] at h
  | ⟨x, t⟩ :: fs, ⟨y, t'⟩ :: fs', hf => by
    simp only [fnArgsEq', Bool.and_eq_true, beq_iff_eq] at hf
    obtain ⟨⟨hxy, ht⟩, hfs⟩ := hf
    subst hxy
    have ih := checkShapes_alpha σc fs fs' hfs
    cases t with
    | ctrl k =>
      cases t' with
      | ctrl k' => simp only [checkShapes, ih]
      | _ => simp [argTyEq'] at ht
    | scalar =>
      cases t' with
      | scalar => simp only [checkShapes, ih]
      | _ => simp [argTyEq'] at ht
    | tensor s w =>
      cases t' with
      | tensor s' w' =>
        simp only [argTyEq', Bool.and_eq_true] at ht
        simp only [checkShapes, ih, evalCs_alpha (RenRel.refl σc) s s' ht.1]
      | _ => simp [argTyEq'] at ht

theorem checkPreds_alpha (σc : State V) : ∀ (ps ps' : List Expr),
    exprsEq' true [] [] ps ps' = true → checkPreds σc ps = checkPreds σc ps'
  | [], [], _ => rfl
  | [], _ :: _, h => by simp [exprsEq'] at h
  | _ :: _, [], h => by simp [exprsEq'] at h
  | a :: r, b :: r', h => by
    simp only [exprsEq', Bool.and_eq_true] at h
    simp only [checkPreds, evalC_alpha (RenRel.refl σc) a b h.1, checkPreds_alpha σc r r' h.2]

end Exo.Rw
