/-
  expand_dim, part 3 (second version: windows into the expanded buffer).

  Generalisation of the state relation of part 1: a name outside `P` may now be bound to a view INTO
  buffer `N` — then the right-hand view is the left-hand one with its offset shifted by `δ`
  (`ViewRel`), and the left-hand view is *contained* in the original buffer (`Cont`: every in-range
  index tuple has an offset in `[0, m)`), so that the bounds checks of the two sides agree.

  `execS_idW / execL_idW / execP_idW`: a statement that mentions no name of `P` runs in lock step from
  `ExpW`-related states (callee bodies that receive windows of the expanded buffer).
-/
import ExoModel.Lemmas.StorageExpand2

set_option linter.unusedSectionVars false
set_option linter.unusedVariables false
namespace Exo
variable {V : Type}

/-! ### windows: shifted start, and offsets of a window are offsets of its parent -/

theorem applyAcc_shift (σ : State V) : ∀ (acc : List WAcc) (ds : List (Int × Int)) (off c : Int),
    applyAcc σ acc ds (off + c) = (applyAcc σ acc ds off).map (fun p => (p.1 + c, p.2))
  | [], [], _, _ => rfl
  | [], _ :: _, _, _ => rfl
  | .point e :: as, [], off, _ => rfl
  | .interval lo hi :: as, [], off, _ => rfl
  | .point e :: as, (ext, st) :: ds, off, c => by
    simp only [applyAcc]
    cases evalC σ e with
    | error err => rfl
    | ok i =>
      rw [ok_bind, ok_bind]
      split
      · have e1 : off + c + i * st = (off + i * st) + c := by omega
        rw [e1]; exact applyAcc_shift σ as ds _ c
      · rfl
  | .interval lo hi :: as, (ext, st) :: ds, off, c => by
    simp only [applyAcc]
    cases evalC σ lo with
    | error err => rfl
    | ok l =>
      rw [ok_bind, ok_bind]
      cases evalC σ hi with
      | error err => rfl
      | ok hh =>
        rw [ok_bind, ok_bind]
        split
        · have e1 : off + c + l * st = (off + l * st) + c := by omega
          rw [e1, applyAcc_shift σ as ds _ c]
          cases applyAcc σ as ds (off + l * st) with
          | error err => rfl
          | ok p => rfl
        · rfl

theorem viewOffset_map_ok {ds : List (Int × Int)} {is : List Int} {acc c r : Int}
    (h : viewOffset ds is (acc + c) = .ok r) : ∃ r1, viewOffset ds is acc = .ok r1 ∧ r = r1 + c := by
  rw [viewOffset_shift] at h
  cases h1 : viewOffset ds is acc with
  | error err => rw [h1] at h; cases h
  | ok r1 =>
    rw [h1] at h
    simp only [Except.map, Except.ok.injEq] at h
    exact ⟨r1, rfl, h.symm⟩

/-- every offset reachable through a window is reachable through the windowed view -/
theorem applyAcc_cont (σ : State V) : ∀ (acc : List WAcc) (ds : List (Int × Int)) (off : Int)
    (o' : Int) (ds' : List (Int × Int)), applyAcc σ acc ds off = .ok (o', ds') →
    ∀ (is' : List Int) (r : Int), viewOffset ds' is' o' = .ok r →
      ∃ is, viewOffset ds is off = .ok r
  | [], [], off, o', ds', h, is', r, hr => by
    simp only [applyAcc, pure, Except.pure, Except.ok.injEq, Prod.mk.injEq] at h
    obtain ⟨rfl, rfl⟩ := h
    exact ⟨is', hr⟩
  | [], _ :: _, _, _, _, h, _, _, _ => by simp [applyAcc] at h
  | .point e :: as, [], _, _, _, h, _, _, _ => by simp [applyAcc] at h
  | .interval lo hi :: as, [], _, _, _, h, _, _, _ => by simp [applyAcc] at h
  | .point e :: as, (ext, st) :: ds, off, o', ds', h, is', r, hr => by
    simp only [applyAcc] at h
    obtain ⟨i, _, h⟩ := except_bind_ok_inv h
    split at h
    · rename_i hi
      obtain ⟨is, his⟩ := applyAcc_cont σ as ds _ o' ds' h is' r hr
      refine ⟨i :: is, ?_⟩
      simp only [viewOffset]
      rw [if_pos hi]; exact his
    · cases h
  | .interval lo hi :: as, (ext, st) :: ds, off, o', ds', h, is', r, hr => by
    simp only [applyAcc] at h
    obtain ⟨l, _, h⟩ := except_bind_ok_inv h
    obtain ⟨hh, _, h⟩ := except_bind_ok_inv h
    split at h
    · rename_i hlh
      obtain ⟨p, hp, h⟩ := except_bind_ok_inv h
      obtain ⟨o1, r0⟩ := p
      simp only [pure, Except.pure, Except.ok.injEq, Prod.mk.injEq] at h
      obtain ⟨rfl, rfl⟩ := h
      cases is' with
      | nil => simp [viewOffset] at hr
      | cons j js =>
        simp only [viewOffset] at hr
        split at hr
        · rename_i hj
          obtain ⟨r1, hr1, rfl⟩ := viewOffset_map_ok hr
          obtain ⟨is, his⟩ := applyAcc_cont σ as ds _ o1 r0 hp js r1 hr1
          refine ⟨(l + j) :: is, ?_⟩
          simp only [viewOffset]
          rw [if_pos ⟨by omega, by omega⟩]
          have e1 : off + (l + j) * st = (off + l * st) + j * st := by
            rw [Int.add_mul]; omega
          rw [e1, viewOffset_shift, his]
          rfl
        · cases hr
    · cases h

/-! ### views -/

/-- every in-range index tuple of the view has its offset in `[0, m)` -/
def Cont (m : Nat) (v : View) : Prop :=
  ∀ is o, viewOffset v.dims is v.off = .ok o → 0 ≤ o ∧ o < (m : Int)

/-- the right-hand view is the left-hand one, moved by `δ` if it points into buffer `N` -/
def ViewRel (N m δ : Nat) (v v' : View) : Prop :=
  (v.buf ≠ N ∧ v' = v) ∨
    (v.buf = N ∧ v' = { buf := N, off := v.off + (δ : Int), dims := v.dims } ∧ Cont m v)

theorem ViewRel.buf {N m δ : Nat} {v v' : View} (h : ViewRel N m δ v v') : v'.buf = v.buf := by
  rcases h with ⟨_, rfl⟩ | ⟨h1, rfl, _⟩
  · rfl
  · exact h1.symm

theorem ViewRel.dims {N m δ : Nat} {v v' : View} (h : ViewRel N m δ v v') : v'.dims = v.dims := by
  rcases h with ⟨_, rfl⟩ | ⟨_, rfl, _⟩ <;> rfl

def LookRel (N m δ : Nat) : Option View → Option View → Prop
  | none, none => True
  | some v, some v' => ViewRel N m δ v v'
  | _, _ => False

/-- corresponding cells -/
def CellRel2 (N m δ : Nat) (c c' : Nat × Nat) : Prop :=
  (c.1 ≠ N ∧ c' = c) ∨ ∃ k, k < m ∧ c = (N, k) ∧ c' = (N, δ + k)

section HeapRel2
variable {N m δ : Nat} {h h' : List (List (Option V))}

theorem HeapRel.get_rel (H : HeapRel N m δ h h') {c c' : Nat × Nat} (hc : CellRel2 N m δ c c') :
    heapGet h' c' = heapGet h c := by
  rcases hc with ⟨h1, rfl⟩ | ⟨k, hk, rfl, rfl⟩
  · exact H.get_other _ h1
  · exact H.get_big k hk

theorem HeapRel.set_rel (H : HeapRel N m δ h h') {c c' : Nat × Nat} (hc : CellRel2 N m δ c c')
    (v : Option V) : HeapRel N m δ (heapSet h c v) (heapSet h' c' v) := by
  rcases hc with ⟨h1, rfl⟩ | ⟨k, hk, rfl, rfl⟩
  · exact H.setOther _ h1 v
  · exact H.setBig k hk v

/-- **the access lemma**: an access through related views fails on both sides or denotes
    corresponding cells -/
theorem cellOf_rel (H : HeapRel N m δ h h') {v v' : View} (hv : ViewRel N m δ v v')
    (is : List Int) : Lock (CellRel2 N m δ) (cellOf h v is) (cellOf h' v' is) := by
  rcases hv with ⟨h1, e⟩ | ⟨h1, e, hc⟩ <;> rw [e]
  · rw [H.cellOf_other v h1 is]
    cases hcl : cellOf h v is with
    | error err => exact trivial
    | ok c => exact Or.inl ⟨by rw [cellOf_buf hcl]; exact h1, rfl⟩
  · obtain ⟨bo, be, e1, e2, e3, e4, e5⟩ := H.big
    cases hvo : viewOffset v.dims is v.off with
    | error err =>
      simp only [cellOf, viewOffset_shift, hvo, Except.map, bind, Except.bind]
      exact trivial
    | ok o =>
      obtain ⟨ho0, ho1⟩ := hc is o hvo
      have hL : cellOf h v is = .ok (N, o.toNat) := by
        simp only [cellOf, hvo, h1, e1, bind, Except.bind]
        rw [if_pos ⟨ho0, by omega⟩]; rfl
      have hR : cellOf h' { buf := N, off := v.off + (δ : Int), dims := v.dims } is
          = .ok (N, (o + (δ : Int)).toNat) := by
        simp only [cellOf, viewOffset_shift, hvo, Except.map, e2, bind, Except.bind]
        rw [if_pos ⟨by omega, by omega⟩]; rfl
      rw [hL, hR]
      refine Or.inr ⟨o.toNat, by omega, rfl, ?_⟩
      have : (o + (δ : Int)).toNat = δ + o.toNat := by omega
      rw [this]

end HeapRel2

/-! ### the state relation -/

structure ExpW (P : Sym → Prop) (N m δ : Nat) (vx vx' : View) (s s' : State V) : Prop where
  env : s'.env = s.env
  cfg : s'.cfg = s.cfg
  heap : HeapRel N m δ s.heap s'.heap
  rel : ∀ y, ¬ P y → LookRel N m δ (lookupSym y s.views) (lookupSym y s'.views)
  px : ∀ y, P y → lookupSym y s.views = some vx ∧ lookupSym y s'.views = some vx'

section ExpWLemmas
variable {P : Sym → Prop} {N m δ : Nat} {vx vx' : View} {s s' : State V}

/-- the two lookups of a name outside `P` -/
theorem ExpW.look (h : ExpW P N m δ vx vx' s s') (y : Sym) (hy : ¬ P y) :
    (lookupSym y s.views = none ∧ lookupSym y s'.views = none) ∨
      ∃ v v', lookupSym y s.views = some v ∧ lookupSym y s'.views = some v' ∧
        ViewRel N m δ v v' := by
  have := h.rel y hy
  cases h1 : lookupSym y s.views with
  | none =>
    cases h2 : lookupSym y s'.views with
    | none => exact Or.inl ⟨rfl, rfl⟩
    | some v' => rw [h1, h2] at this; exact this.elim
  | some v =>
    cases h2 : lookupSym y s'.views with
    | none => rw [h1, h2] at this; exact this.elim
    | some v' => rw [h1, h2] at this; exact Or.inr ⟨v, v', rfl, rfl, this⟩

theorem ExpW.bind (h : ExpW P N m δ vx vx' s s') (i : Sym) (v : Int) :
    ExpW P N m δ vx vx' (s.bind i v) (s'.bind i v) :=
  ⟨by simp [State.bind, h.env], h.cfg, h.heap, h.rel, h.px⟩

theorem ExpW.heapWrite (h : ExpW P N m δ vx vx' s s') {hp hp' : List (List (Option V))}
    (H : HeapRel N m δ hp hp') :
    ExpW P N m δ vx vx' { s with heap := hp } { s' with heap := hp' } :=
  ⟨h.env, h.cfg, H, h.rel, h.px⟩

theorem ExpW.cfgWrite (h : ExpW P N m δ vx vx' s s') (key : String × String) (v : CfgVal V) :
    ExpW P N m δ vx vx' { s with cfg := setCfg key v s.cfg }
      { s' with cfg := setCfg key v s'.cfg } :=
  ⟨h.env, by simp only [h.cfg], h.heap, h.rel, h.px⟩

theorem ExpW.pushView (h : ExpW P N m δ vx vx' s s') (y : Sym) (hy : ¬ P y) {v v' : View}
    (hv : ViewRel N m δ v v') :
    ExpW P N m δ vx vx' { s with views := (y, v) :: s.views }
      { s' with views := (y, v') :: s'.views } := by
  refine ⟨h.env, h.cfg, h.heap, ?_, ?_⟩
  · intro z hz
    simp only [lookupSym]
    split
    · exact hv
    · exact h.rel z hz
  · intro z hz
    have hzy : ¬ z = y := fun e => hy (e ▸ hz)
    simp only [lookupSym, if_neg hzy]
    exact h.px z hz

theorem ExpW.alloc (h : ExpW P N m δ vx vx' s s') (y : Sym) (hy : ¬ P y) (n : Nat)
    (ds : List (Int × Int)) :
    ExpW P N m δ vx vx'
      { s with heap := s.heap ++ [List.replicate n none],
               views := (y, { buf := s.heap.length, off := 0, dims := ds }) :: s.views }
      { s' with heap := s'.heap ++ [List.replicate n none],
                views := (y, { buf := s'.heap.length, off := 0, dims := ds }) :: s'.views } := by
  have hlt := h.heap.lt
  have h1 := (h.heapWrite (h.heap.append (List.replicate n none))).pushView y hy
    (v := { buf := s.heap.length, off := 0, dims := ds })
    (v' := { buf := s.heap.length, off := 0, dims := ds })
    (Or.inl ⟨by simp only []; omega, rfl⟩)
  rw [h.heap.len]
  exact h1

theorem ExpW.leave {Q : Sym → Prop} {σ σ' t t' : State V} (hin : ExpW P N m δ vx vx' σ σ')
    (hout : ExpW Q N m δ vx vx' t t') (hle : σ.heap.length ≤ t.heap.length) :
    ExpW P N m δ vx vx' (State.leave σ t) (State.leave σ' t') := by
  refine ⟨hin.env, hout.cfg, ?_, hin.rel, hin.px⟩
  show HeapRel N m δ (t.heap.take σ.heap.length) (t'.heap.take σ'.heap.length)
  rw [hin.heap.len]
  exact hout.heap.take _ hin.heap.lt

/-- after the scope of the buffer is left the two states are equal -/
theorem ExpW.leave_eq {t t' : State V} (h : ExpW P N m δ vx vx' t t') (σ : State V)
    (hN : σ.heap.length = N) : State.leave σ t' = State.leave σ t := by
  simp only [State.leave, h.cfg, State.mk.injEq, true_and, and_true]
  apply List.ext_getElem?
  intro b
  rw [List.getElem?_take, List.getElem?_take]
  split
  · exact h.heap.other b (by omega)
  · rfl

/-! ### evaluators -/

theorem evalC_expW (h : ExpW P N m δ vx vx' s s') : ∀ (c : Expr), (∀ y ∈ c.names, ¬ P y) →
    evalC s' c = evalC s c
  | .read x [], _ => by simp [evalC, h.env]
  | .read x (_ :: _), _ => by simp [evalC]
  | .lit (.int n), _ => by simp [evalC]
  | .lit (.bool n), _ => by simp [evalC]
  | .lit (.data _ _), _ => by simp [evalC]
  | .usub e, hn => by
    simp only [evalC]
    rw [evalC_expW h e (fun y hy => hn y (by simpa [Expr.names] using hy))]
  | .binop op a b, hn => by
    simp only [evalC]
    rw [evalC_expW h a (fun y hy => hn y (by simp [Expr.names, hy])),
        evalC_expW h b (fun y hy => hn y (by simp [Expr.names, hy]))]
  | .stride x d, hn => by
    simp only [evalC]
    rcases h.look x (hn x (by simp [Expr.names])) with ⟨h1, h2⟩ | ⟨v, v', h1, h2, hv⟩
    · rw [h1, h2]
    · rw [h1, h2]
      simp only [hv.dims]
  | .readcfg c f, _ => by
    simp only [evalC, h.cfg]
  | .extern _ _, _ => by simp [evalC]
  | .win _ _, _ => by simp [evalC]

theorem evalCs_expW (h : ExpW P N m δ vx vx' s s') : ∀ (es : List Expr),
    (∀ y ∈ namesEs es, ¬ P y) → evalCs s' es = evalCs s es
  | [], _ => rfl
  | e :: r, hn => by
    simp only [evalCs]
    rw [evalC_expW h e (fun y hy => hn y (by simp [namesEs, hy])),
        evalCs_expW h r (fun y hy => hn y (by simp [namesEs, hy]))]

theorem applyAcc_expW (h : ExpW P N m δ vx vx' s s') : ∀ (acc : List WAcc) (ds : List (Int × Int))
    (off : Int), (∀ y ∈ namesWs acc, ¬ P y) → applyAcc s' acc ds off = applyAcc s acc ds off
  | [], [], _, _ => rfl
  | [], _ :: _, _, _ => rfl
  | .point e :: as, [], off, _ => rfl
  | .interval lo hi :: as, [], off, _ => rfl
  | .point e :: as, (ext, st) :: ds, off, hn => by
    simp only [applyAcc]
    rw [evalC_expW h e (fun y hy => hn y (by simp [namesWs, WAcc.names, hy]))]
    refine bind_congr (fun i => ?_)
    split
    · exact applyAcc_expW h as ds _ (fun y hy => hn y (by simp [namesWs, hy]))
    · rfl
  | .interval lo hi :: as, (ext, st) :: ds, off, hn => by
    simp only [applyAcc]
    rw [evalC_expW h lo (fun y hy => hn y (by simp [namesWs, WAcc.names, hy])),
        evalC_expW h hi (fun y hy => hn y (by simp [namesWs, WAcc.names, hy]))]
    refine bind_congr (fun l => bind_congr (fun hh => ?_))
    split
    · rw [applyAcc_expW h as ds _ (fun y hy => hn y (by simp [namesWs, hy]))]
    · rfl

/-- a point access `v[is]` as a view, on both sides -/
theorem pointView_rel {v v' : View} (hv : ViewRel N m δ v v') (is : List Int) :
    Lock (ViewRel N m δ)
      (viewOffset v.dims is v.off >>= fun o => pure ({ buf := v.buf, off := o, dims := [] } : View))
      (viewOffset v'.dims is v'.off >>= fun o =>
        pure ({ buf := v'.buf, off := o, dims := [] } : View)) := by
  rcases hv with ⟨h1, e⟩ | ⟨h1, e, hc⟩ <;> rw [e]
  · refine Lock.bind_eq (fun o _ => Lock.ofPure (Or.inl ⟨h1, rfl⟩))
  · simp only [viewOffset_shift]
    cases hvo : viewOffset v.dims is v.off with
    | error err => exact trivial
    | ok o =>
      refine Or.inr ⟨h1, ?_, ?_⟩
      · rfl
      · intro is' r hr
        cases is' with
        | nil =>
          simp only [viewOffset, pure, Except.pure, Except.ok.injEq] at hr
          subst hr
          exact hc is _ hvo
        | cons j js => simp [viewOffset] at hr

/-- a window `v[acc]` as a view, on both sides -/
theorem winView_rel (σ : State V) {v v' : View} (hv : ViewRel N m δ v v') (acc : List WAcc) :
    Lock (ViewRel N m δ)
      (applyAcc σ acc v.dims v.off >>= fun p =>
        pure ({ buf := v.buf, off := p.1, dims := p.2 } : View))
      (applyAcc σ acc v'.dims v'.off >>= fun p =>
        pure ({ buf := v'.buf, off := p.1, dims := p.2 } : View)) := by
  rcases hv with ⟨h1, e⟩ | ⟨h1, e, hc⟩ <;> rw [e]
  · refine Lock.bind_eq (fun p _ => Lock.ofPure (Or.inl ⟨h1, rfl⟩))
  · simp only [applyAcc_shift]
    cases hap : applyAcc σ acc v.dims v.off with
    | error err => exact trivial
    | ok p =>
      obtain ⟨o, ds'⟩ := p
      refine Or.inr ⟨h1, ?_, ?_⟩
      · rfl
      · intro is' r hr
        obtain ⟨is, his⟩ := applyAcc_cont σ acc v.dims v.off o ds' hap is' r hr
        exact hc is r his

theorem evalView_expW (h : ExpW P N m δ vx vx' s s') : ∀ (a : Expr), (∀ y ∈ a.names, ¬ P y) →
    Lock (ViewRel N m δ) (evalView s a) (evalView s' a)
  | .read x [], hn => by
    simp only [evalView]
    rcases h.look x (hn x (by simp [Expr.names])) with ⟨h1, h2⟩ | ⟨v, v', h1, h2, hv⟩
    · rw [h1, h2]; exact Lock.ofThrow
    · rw [h1, h2]; exact Lock.ofPure hv
  | .read x (i :: r), hn => by
    simp only [evalView]
    rw [evalCs_expW h (i :: r) (fun y hy => hn y (by simp [Expr.names, hy]))]
    rcases h.look x (hn x (by simp [Expr.names])) with ⟨h1, h2⟩ | ⟨v, v', h1, h2, hv⟩
    · rw [h1, h2]; exact Lock.ofThrow
    · rw [h1, h2]
      simp only []
      exact Lock.bind_eq (fun is _ => pointView_rel hv is)
  | .win x acc, hn => by
    simp only [evalView]
    rcases h.look x (hn x (by simp [Expr.names])) with ⟨h1, h2⟩ | ⟨v, v', h1, h2, hv⟩
    · rw [h1, h2]; exact Lock.ofThrow
    · rw [h1, h2]
      simp only []
      rw [applyAcc_expW h acc _ _ (fun y hy => hn y (by simp [Expr.names, hy]))]
      exact winView_rel s hv acc
  | .lit _, _ => Lock.ofThrow
  | .usub _, _ => Lock.ofThrow
  | .binop _ _ _, _ => Lock.ofThrow
  | .extern _ _, _ => Lock.ofThrow
  | .stride _ _, _ => Lock.ofThrow
  | .readcfg _ _, _ => Lock.ofThrow

/-- related lists of bound views (same names) -/
abbrev VsRel (N m δ : Nat) (cv cv' : List (Sym × View)) : Prop :=
  Forall₂ (fun a b => b.1 = a.1 ∧ ViewRel N m δ a.2 b.2) cv cv'

/-- results of `bindArgs` on the two sides -/
def ArgRel (N m δ : Nat) (p p' : List (Sym × Int) × List (Sym × View)) : Prop :=
  p'.1 = p.1 ∧ VsRel N m δ p.2 p'.2

theorem noAlias_rel {cv cv' : List (Sym × View)} (h : VsRel N m δ cv cv') :
    noAlias cv' = noAlias cv := by
  induction h with
  | nil => rfl
  | @cons a b l l' hab hl ih =>
    obtain ⟨y, v⟩ := a
    obtain ⟨y', v'⟩ := b
    simp only [noAlias]
    rw [ih, hab.2.buf]
    congr 1
    clear ih
    induction hl with
    | nil => rfl
    | @cons c d r r' hcd _ ih2 =>
      simp only [List.all_cons, ih2, hcd.2.buf]

theorem lookRel_of_vsRel {cv cv' : List (Sym × View)} (h : VsRel N m δ cv cv') (y : Sym) :
    LookRel N m δ (lookupSym y cv) (lookupSym y cv') := by
  induction h with
  | nil => exact trivial
  | @cons a b l l' hab _ ih =>
    obtain ⟨z, v⟩ := a
    obtain ⟨z', v'⟩ := b
    obtain ⟨hz, hv⟩ := hab
    simp only at hz hv
    subst hz
    simp only [lookupSym]
    split
    · exact hv
    · exact ih

theorem bindArgs_expW (h : ExpW P N m δ vx vx' s s') : ∀ (fs : List FnArg) (as : List Expr)
    (ce : List (Sym × Int)) (cv cv' : List (Sym × View)), (∀ y ∈ namesEs as, ¬ P y) →
    VsRel N m δ cv cv' →
    Lock (ArgRel N m δ) (bindArgs s fs as ce cv) (bindArgs s' fs as ce cv')
  | [], [], _, _, _, _, hcv => Lock.ofPure ⟨rfl, hcv⟩
  | [], _ :: _, _, _, _, _, _ => Lock.ofThrow
  | ⟨_, .ctrl _⟩ :: _, [], _, _, _, _, _ => Lock.ofThrow
  | ⟨_, .scalar⟩ :: _, [], _, _, _, _, _ => Lock.ofThrow
  | ⟨_, .tensor _ _⟩ :: _, [], _, _, _, _, _ => Lock.ofThrow
  | ⟨x, .ctrl kd⟩ :: fs, a :: as, ce, cv, cv', hn, hcv => by
    simp only [bindArgs]
    rw [evalC_expW h a (fun y hy => hn y (by simp [namesEs, hy]))]
    refine Lock.bind_eq (fun v _ => ?_)
    split
    · exact Lock.ofThrowBind
    · exact bindArgs_expW h fs as _ cv cv' (fun y hy => hn y (by simp [namesEs, hy])) hcv
  | ⟨x, .scalar⟩ :: fs, a :: as, ce, cv, cv', hn, hcv => by
    simp only [bindArgs]
    exact Lock.bind (evalView_expW h a (fun y hy => hn y (by simp [namesEs, hy])))
      (fun v v' _ _ hv => bindArgs_expW h fs as ce ((x, v) :: cv) ((x, v') :: cv')
        (fun y hy => hn y (by simp [namesEs, hy])) (.cons ⟨rfl, hv⟩ hcv))
  | ⟨x, .tensor _ _⟩ :: fs, a :: as, ce, cv, cv', hn, hcv => by
    simp only [bindArgs]
    exact Lock.bind (evalView_expW h a (fun y hy => hn y (by simp [namesEs, hy])))
      (fun v v' _ _ hv => bindArgs_expW h fs as ce ((x, v) :: cv) ((x, v') :: cv')
        (fun y hy => hn y (by simp [namesEs, hy])) (.cons ⟨rfl, hv⟩ hcv))

theorem checkShapes_expW (h : ExpW (fun _ => False) N m δ vx vx' s s') : ∀ (fs : List FnArg),
    checkShapes s' fs = checkShapes s fs
  | [] => rfl
  | ⟨x, .tensor shape _⟩ :: fs => by
    simp only [checkShapes]
    rw [evalCs_expW h shape (fun _ _ hx => hx), checkShapes_expW h fs]
    rcases h.look x (fun hx => hx) with ⟨h1, h2⟩ | ⟨v, v', h1, h2, hv⟩
    · rw [h1, h2]
    · rw [h1, h2]; simp only [hv.dims]
  | ⟨x, .scalar⟩ :: fs => by
    simp only [checkShapes]
    rw [checkShapes_expW h fs]
    rcases h.look x (fun hx => hx) with ⟨h1, h2⟩ | ⟨v, v', h1, h2, hv⟩
    · rw [h1, h2]
    · rw [h1, h2]; simp only [hv.dims]
  | ⟨x, .ctrl _⟩ :: fs => by
    simp only [checkShapes]
    exact checkShapes_expW h fs

theorem checkPreds_expW (h : ExpW (fun _ => False) N m δ vx vx' s s') : ∀ (ps : List Expr),
    checkPreds s' ps = checkPreds s ps
  | [] => rfl
  | p :: ps => by
    simp only [checkPreds]
    rw [evalC_expW h p (fun _ _ hx => hx), checkPreds_expW h ps]

section
variable [DataAlg V] (ext : String → List V → V)

mutual
theorem evalD_expW (h : ExpW P N m δ vx vx' s s') : ∀ (a : Expr), (∀ y ∈ a.names, ¬ P y) →
    Lock Eq (evalD ext s a) (evalD ext s' a)
  | .read x idx, hn => by
    simp only [evalD]
    rw [evalCs_expW h idx (fun y hy => hn y (by simp [Expr.names, hy]))]
    rcases h.look x (hn x (by simp [Expr.names])) with ⟨h1, h2⟩ | ⟨v, v', h1, h2, hv⟩
    · rw [h1, h2]; exact Lock.ofThrow
    · rw [h1, h2]
      simp only []
      exact Lock.bind_eq (fun is _ => Lock.bind (cellOf_rel h.heap hv is)
        (fun c c' _ _ hc => Lock.ofPure (h.heap.get_rel hc).symm))
  | .lit c, _ => by
    cases c <;> (simp only [evalD]; exact Lock.refl_eq _)
  | .usub e, hn => by
    simp only [evalD]
    exact Lock.bind (evalD_expW h e (fun y hy => hn y (by simpa [Expr.names] using hy)))
      (fun v v' _ _ hv => by subst hv; exact Lock.refl_eq _)
  | .binop op a b, hn => by
    simp only [evalD]
    exact Lock.bind (evalD_expW h a (fun y hy => hn y (by simp [Expr.names, hy])))
      (fun v v' _ _ hv => Lock.bind (evalD_expW h b (fun y hy => hn y (by simp [Expr.names, hy])))
        (fun w w' _ _ hw => by subst hv; subst hw; exact Lock.refl_eq _))
  | .extern f args, hn => by
    simp only [evalD]
    exact Lock.bind (evalDs_expW h args (fun y hy => hn y (by simpa [Expr.names] using hy)))
      (fun vs vs' _ _ hvs => by subst hvs; exact Lock.refl_eq _)
  | .readcfg c f, _ => by
    simp only [evalD, h.cfg]
    exact Lock.refl_eq _
  | .win _ _, _ => by simp only [evalD]; exact Lock.ofThrow
  | .stride _ _, _ => by simp only [evalD]; exact Lock.ofThrow
theorem evalDs_expW (h : ExpW P N m δ vx vx' s s') : ∀ (es : List Expr),
    (∀ y ∈ namesEs es, ¬ P y) → Lock Eq (evalDs ext s es) (evalDs ext s' es)
  | [], _ => by simp only [evalDs]; exact Lock.refl_eq _
  | e :: r, hn => by
    simp only [evalDs]
    exact Lock.bind (evalD_expW h e (fun y hy => hn y (by simp [namesEs, hy])))
      (fun v v' _ _ hv => Lock.bind (evalDs_expW h r (fun y hy => hn y (by simp [namesEs, hy])))
        (fun w w' _ _ hw => by subst hv; subst hw; exact Lock.refl_eq _))
end

end

theorem writeCell_expW (h : ExpW P N m δ vx vx' s s') (y : Sym) (idx : List Expr)
    (hy : ¬ P y) (hidx : ∀ z ∈ namesEs idx, ¬ P z) (f : Option V → Option V) :
    Lock (ExpW P N m δ vx vx') (writeCell s y idx f) (writeCell s' y idx f) := by
  simp only [writeCell]
  rw [evalCs_expW h idx hidx]
  rcases h.look y hy with ⟨h1, h2⟩ | ⟨v, v', h1, h2, hv⟩
  · rw [h1, h2]; exact Lock.ofThrow
  · rw [h1, h2]
    simp only []
    refine Lock.bind_eq (fun is _ => Lock.bind (cellOf_rel h.heap hv is) (fun c c' _ _ hc => ?_))
    rw [h.heap.get_rel hc]
    exact Lock.ofPure (h.heapWrite (h.heap.set_rel hc _))

end ExpWLemmas

/-! ### the lock-step theorem for statements that do not mention a name of `P` -/

section
variable [DataAlg V] (ext : String → List V → V)

mutual
theorem execS_idW (N m δ : Nat) (vx vx' : View) : ∀ (a : Stmt) (P : Sym → Prop) (s s' : State V),
    (∀ y ∈ a.names, ¬ P y) → ExpW P N m δ vx vx' s s' →
    Lock (ExpW P N m δ vx vx') (execS ext a s) (execS ext a s')
  | .assign x idx rhs, P, s, s', hn, h => by
    simp only [execS]
    exact Lock.bind (evalD_expW ext h rhs (fun y hy => hn y (by simp [Stmt.names, hy])))
      (fun v v' _ _ hv => by
        subst hv
        exact writeCell_expW h x idx (hn x (by simp [Stmt.names]))
          (fun y hy => hn y (by simp [Stmt.names, hy])) _)
  | .reduce x idx rhs, P, s, s', hn, h => by
    simp only [execS]
    exact Lock.bind (evalD_expW ext h rhs (fun y hy => hn y (by simp [Stmt.names, hy])))
      (fun v v' _ _ hv => by
        subst hv
        exact writeCell_expW h x idx (hn x (by simp [Stmt.names]))
          (fun y hy => hn y (by simp [Stmt.names, hy])) _)
  | .writecfg c f rhs true, P, s, s', hn, h => by
    simp only [execS, ↓reduceIte]
    exact Lock.bind (evalD_expW ext h rhs (fun y hy => hn y (by simpa [Stmt.names] using hy)))
      (fun v v' _ _ hv => by subst hv; exact Lock.ofPure (h.cfgWrite (c, f) (.data v)))
  | .writecfg c f rhs false, P, s, s', hn, h => by
    simp only [execS, Bool.false_eq_true, ↓reduceIte]
    rw [evalC_expW h rhs (fun y hy => hn y (by simpa [Stmt.names] using hy))]
    exact Lock.bind_eq (fun v _ => Lock.ofPure (h.cfgWrite (c, f) (.ctrl v)))
  | .pass, P, s, s', _, h => by
    simp only [execS]; exact Lock.ofPure h
  | .free _, P, s, s', _, h => by
    simp only [execS]; exact Lock.ofPure h
  | .ite c t e, P, s, s', hn, h => by
    simp only [execS]
    rw [evalC_expW h c (fun y hy => hn y (by simp [Stmt.names, hy]))]
    refine Lock.bind_eq (fun b _ => Lock.ite (fun _ => ?_) (fun _ => ?_))
    · exact Lock.map
        (execL_idW N m δ vx vx' t P s s' (fun y hy => hn y (by simp [Stmt.names, hy])) h)
        (fun a b ha _ hab => h.leave hab (execL_scope ext t s a ha).2.1)
    · exact Lock.map
        (execL_idW N m δ vx vx' e P s s' (fun y hy => hn y (by simp [Stmt.names, hy])) h)
        (fun a b ha _ hab => h.leave hab (execL_scope ext e s a ha).2.1)
  | .loop i lo hi body par, P, s, s', hn, h => by
    simp only [execS]
    rw [evalC_expW h lo (fun y hy => hn y (by simp [Stmt.names, hy])),
        evalC_expW h hi (fun y hy => hn y (by simp [Stmt.names, hy]))]
    refine Lock.bind_eq (fun l _ => Lock.bind_eq (fun hh _ =>
      Lock.ite (fun _ => Lock.ofThrowBind) (fun _ => ?_)))
    exact iterate_lock (ExpW P N m δ vx vx') _ _
      (fun v a b hab => Lock.map
        (execL_idW N m δ vx vx' body P _ _ (fun y hy => hn y (by simp [Stmt.names, hy]))
          (hab.bind i v))
        (fun a1 b1 ha1 _ h1 => hab.leave h1 (execL_scope ext body _ a1 ha1).2.1))
      _ _ s s' h
  | .alloc x shape, P, s, s', hn, h => by
    simp only [execS]
    rw [evalCs_expW h shape (fun y hy => hn y (by simp [Stmt.names, hy]))]
    exact Lock.bind_eq (fun sh _ => Lock.bind_eq (fun _ _ =>
      Lock.ofPure (h.alloc x (hn x (by simp [Stmt.names])) _ _)))
  | .call f args, P, s, s', hn, h => by
    simp only [execS]
    exact execP_idW N m δ vx vx' f args args P s s' h
      (bindArgs_expW h f.args args [] [] []
        (fun y hy => hn y (by simpa [Stmt.names] using hy)) .nil)
  | .window x rhs, P, s, s', hn, h => by
    simp only [execS]
    exact Lock.bind (evalView_expW h rhs (fun y hy => hn y (by simp [Stmt.names, hy])))
      (fun v v' _ _ hv => Lock.ofPure (h.pushView x (hn x (by simp [Stmt.names])) hv))
theorem execL_idW (N m δ : Nat) (vx vx' : View) : ∀ (ss : List Stmt) (P : Sym → Prop)
    (s s' : State V), (∀ y ∈ namesL ss, ¬ P y) → ExpW P N m δ vx vx' s s' →
    Lock (ExpW P N m δ vx vx') (execL ext ss s) (execL ext ss s')
  | [], P, s, s', _, h => by
    simp only [execL]; exact Lock.ofPure h
  | a :: r, P, s, s', hn, h => by
    simp only [execL]
    exact Lock.bind (execS_idW N m δ vx vx' a P s s' (fun y hy => hn y (by simp [namesL, hy])) h)
      (fun s1 s1' _ _ h1 =>
        execL_idW N m δ vx vx' r P s1 s1' (fun y hy => hn y (by simp [namesL, hy])) h1)
/-- a call with (possibly different) argument lists whose bound values are related -/
theorem execP_idW (N m δ : Nat) (vx vx' : View) : ∀ (p : Proc) (args args' : List Expr)
    (P : Sym → Prop) (s s' : State V), ExpW P N m δ vx vx' s s' →
    Lock (ArgRel N m δ) (bindArgs s p.args args [] []) (bindArgs s' p.args args' [] []) →
    Lock (ExpW P N m δ vx vx') (execP ext p args s) (execP ext p args' s')
  | .mk nm fargs preds body, args, args', P, s, s', h, hb => by
    simp only [execP]
    refine Lock.bind hb (fun p p' _ _ hpp => ?_)
    obtain ⟨ce, cv⟩ := p
    obtain ⟨ce', cv'⟩ := p'
    obtain ⟨h1, h2⟩ := hpp
    simp only at h1 h2
    subst h1
    simp only [noAlias_rel h2]
    refine Lock.ite (fun _ => Lock.ofThrowBind) (fun _ => ?_)
    have hc : ExpW (fun _ => False) N m δ vx vx'
        { env := ce', views := cv, heap := s.heap, cfg := s.cfg }
        { env := ce', views := cv', heap := s'.heap, cfg := s'.cfg } :=
      ⟨rfl, h.cfg, h.heap, fun y _ => lookRel_of_vsRel h2 y, fun _ hf => hf.elim⟩
    rw [checkShapes_expW hc fargs, checkPreds_expW hc preds]
    exact Lock.bind_eq (fun _ _ => Lock.bind_eq (fun _ _ =>
      Lock.bind (execL_idW N m δ vx vx' body (fun _ => False) _ _ (fun _ _ hx => hx) hc)
        (fun t t' ht _ htt => Lock.ofPure (h.leave htt (execL_scope ext body _ t ht).2.1))))
end

end

end Exo
