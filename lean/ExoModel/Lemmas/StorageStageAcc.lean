/-
  stage_mem, ACCUMULATING variant (`accum = True`; `load = store = true`):

      B ++ rest   ⟶   xs : T[stageShape w] ; (xs[i…] = 0.0) ; stageL x xs w B ; (x[i…+lo] += xs[i…]) ; rest

  when the block only REDUCES into `x` (`Check_BufferReduceOnly`; here the syntactic guard
  `accOkS`: `x` occurs in `B` only as the target of `reduce` statements — not in any right-hand
  side, index, control expression, window, call argument, never assigned or re-bound).

  Middle relation `StageAcc.AcR` (same scheme as `Stage.StR`, StorageStage2.lean), joint predicate
  `AcQ C rm0` on the three special buffers (`rm0` = contents of the buffer of `x` at block entry):

    * `left.M[c] = rm0[c] + right.N[c']`  for `C c = some c'`  (`lift2 DataAlg.add`; poison on either
                                                                 side is poison on both)
    * `right.M[c] = left.M[c]`            for `C c = none`
    * `right.M = rm0`                                           (the right run never writes `M`)

  A reduce `x[c] += v` on the left against `xs[c'] += v` on the right preserves the relation by
  ASSOCIATIVITY of the data addition (`DataLaws.add_assoc`).  The zero fill establishes it by
  `a + 0 = a`, which is NOT a law of `DataLaws`: it is the explicit hypothesis
  `hzero : ∀ a, DataAlg.add a (DataAlg.ofRat 0 1) = a` (the literal `0.0` is `.lit (.data 0 1)`, which
  `evalD` evaluates to `some (DataAlg.ofRat 0 1)`), used only by the instances of `ZeroOK`.

  `execS_acc / execL_acc` : the stage mode for reduce-only blocks (one-directional, `Fwd`).
  `ZeroOK`, `AccStoreOK`  : the two nests as semantic hypotheses (as `LoadOK`, `StoreOK`).
  `stage_mem_accum_fwd_partial`, `stage_accum_refWL_partial`, `stage_mem_accum_refWL_partial` : the
  block theorems; `BlockRefWL` = `BlockRefW` over the lawful algebras with a right zero.
  The one-dimensional discharge of `ZeroOK` / `AccStoreOK` is in StorageStageAcc1.lean.
-/
import ExoModel.Lemmas.StorageStage3
import ExoModel.DataLaws

set_option linter.unusedSectionVars false
set_option linter.unusedVariables false

namespace Exo.Stg
open Exo

mutual
/-- `x` occurs only as the target of `reduce` statements; loop variables do not occur in `los` -/
def accOkS (x : Sym) (los : List Expr) : Stmt → Bool
  | .assign y idx rhs => Rw.notIn x (y :: (namesEs idx ++ rhs.names))
  | .reduce _ idx rhs => Rw.notIn x (namesEs idx) && Rw.notIn x rhs.names
  | .writecfg _ _ rhs _ => Rw.notIn x rhs.names
  | .pass => true
  | .ite c t el => Rw.notIn x c.names && accOkL x los t && accOkL x los el
  | .loop i lo hi b _ => Rw.notIn x lo.names && Rw.notIn x hi.names && !occCs i los && accOkL x los b
  | .alloc y sh => Rw.notIn x (y :: namesEs sh)
  | .free _ => true
  | .call _ args => Rw.notIn x (namesEs args)
  | .window y rhs => Rw.notIn x (y :: rhs.names)
def accOkL (x : Sym) (los : List Expr) : List Stmt → Bool
  | [] => true
  | s :: r => accOkS x los s && accOkL x los r
end

/-- executable syntactic side condition of the accumulating `stage_mem` on the staged block `B` -/
def accGuard (x xs : Sym) (w : List WAcc) (B : List Stmt) : Bool :=
  accOkL x (Rw.stageLos w) B && Rw.notIn xs (namesL B) && (Rw.stageLos w).all Expr.envOnly &&
    x != xs

end Exo.Stg

namespace Exo.Stg
open Exo
variable {V : Type}

namespace StageAcc
open Stage

/-! ### poison-propagating addition -/

theorem lift2_add_assoc [DataAlg V] [DataLaws V] (a b c : Option V) :
    lift2 DataAlg.add (lift2 DataAlg.add a b) c = lift2 DataAlg.add a (lift2 DataAlg.add b c) := by
  cases a <;> cases b <;> cases c <;> simp [lift2, DataLaws.add_assoc]

theorem lift2_add_zero [DataAlg V] (hzero : ∀ a : V, DataAlg.add a (DataAlg.ofRat 0 1) = a)
    (a : Option V) : lift2 DataAlg.add a (some (DataAlg.ofRat 0 1)) = a := by
  cases a <;> simp [lift2, hzero]

/-! ### the rewrite does nothing to statements that do not mention `x` -/

mutual
theorem stageS_id (x xs : Sym) (w : List WAcc) : ∀ (a : Stmt), (∀ y ∈ a.names, y ≠ x) →
    Rw.stageS x xs w a = a
  | .assign y idx rhs, hn => by
    have hy : (y == x) = false := by simpa using hn y (by simp [Stmt.names])
    simp only [Rw.stageS, hy, Bool.false_eq_true, ↓reduceIte]
    rw [stageEs_id x xs w idx (fun z hz => hn z (by simp [Stmt.names, hz])),
        stageE_id x xs w rhs (fun z hz => hn z (by simp [Stmt.names, hz]))]
  | .reduce y idx rhs, hn => by
    have hy : (y == x) = false := by simpa using hn y (by simp [Stmt.names])
    simp only [Rw.stageS, hy, Bool.false_eq_true, ↓reduceIte]
    rw [stageEs_id x xs w idx (fun z hz => hn z (by simp [Stmt.names, hz])),
        stageE_id x xs w rhs (fun z hz => hn z (by simp [Stmt.names, hz]))]
  | .writecfg c f rhs d, hn => by
    simp only [Rw.stageS]
    rw [stageE_id x xs w rhs (fun z hz => hn z (by simpa [Stmt.names] using hz))]
  | .pass, _ => by simp only [Rw.stageS]
  | .ite c t el, hn => by
    simp only [Rw.stageS]
    rw [stageE_id x xs w c (fun z hz => hn z (by simp [Stmt.names, hz])),
        stageL_id x xs w t (fun z hz => hn z (by simp [Stmt.names, hz])),
        stageL_id x xs w el (fun z hz => hn z (by simp [Stmt.names, hz]))]
  | .loop i lo hi b par, hn => by
    simp only [Rw.stageS]
    rw [stageE_id x xs w lo (fun z hz => hn z (by simp [Stmt.names, hz])),
        stageE_id x xs w hi (fun z hz => hn z (by simp [Stmt.names, hz])),
        stageL_id x xs w b (fun z hz => hn z (by simp [Stmt.names, hz]))]
  | .alloc y sh, _ => by simp only [Rw.stageS]
  | .free y, _ => by simp only [Rw.stageS]
  | .call f args, hn => by
    simp only [Rw.stageS]
    rw [stageEs_id x xs w args (fun z hz => hn z (by simpa [Stmt.names] using hz))]
  | .window y rhs, hn => by
    simp only [Rw.stageS]
    rw [stageE_id x xs w rhs (fun z hz => hn z (by simp [Stmt.names, hz]))]
theorem stageL_id (x xs : Sym) (w : List WAcc) : ∀ (ss : List Stmt), (∀ y ∈ namesL ss, y ≠ x) →
    Rw.stageL x xs w ss = ss
  | [], _ => by simp only [Rw.stageL]
  | a :: r, hn => by
    simp only [Rw.stageL]
    rw [stageS_id x xs w a (fun z hz => hn z (by simp [namesL, hz])),
        stageL_id x xs w r (fun z hz => hn z (by simp [namesL, hz]))]
end

/-! ### the joint predicate on the special buffers -/

section
variable [DataAlg V]

def AcQ (C : Nat → Option Nat) (rm0 : List (Option V)) (lm rm rn : List (Option V)) : Prop :=
  rm = rm0 ∧ lm.length = rm0.length ∧ (∀ c, C c = none → rm[c]? = lm[c]?) ∧
  (∀ c c', C c = some c' → (c < lm.length → c' < rn.length) ∧
    (lm[c]?).join = lift2 DataAlg.add (rm0[c]?).join (rn[c']?).join)

/-- the middle relation of the accumulating variant -/
abbrev AcR (x xs : Sym) (M N : Nat) (C : Nat → Option Nat) (rm0 : List (Option V))
    (pv : Sym → View) : State V → State V → Prop :=
  SR (fun y => y = x ∨ y = xs) M N (AcQ C rm0) pv

variable {x xs : Sym} {w : List WAcc} {C : Nat → Option Nat} {M N : Nat} {pv : Sym → View}
  {los : List Expr} {lov : List Int} {rm0 : List (Option V)} {s s' : State V}

/-- a reduce into window cell `c` on the left, into its image in the staging buffer on the right -/
theorem red_pair [DataLaws V] (inj : ∀ a b c', C a = some c' → C b = some c' → a = b)
    {h h' : List (List (Option V))} (H : HR M N (AcQ C rm0) h h') {c c' : Nat}
    (hc : C c = some c') (hv : Fp.Valid h (M, c)) (v : Option V) :
    HR M N (AcQ C rm0) (heapSet h (M, c) (lift2 DataAlg.add (heapGet h (M, c)) v))
      (heapSet h' (N, c') (lift2 DataAlg.add (heapGet h' (N, c')) v)) := by
  obtain ⟨lm, rm, rn, h1, h2, h3, hq0, hql, hq1, hq2⟩ := H.big
  have hne := H.ne
  obtain ⟨b, hb, hlt⟩ := hv
  have eb : b = lm := Option.some.inj (hb.symm.trans h1)
  subst eb
  have hlt0 : c < b.length := hlt
  have hlt' : c' < rn.length := (hq2 c c' hc).1 hlt0
  have g1 : heapGet h (M, c) = (b[c]?).join := by simp only [heapGet, h1]
  have g2 : heapGet h' (N, c') = (rn[c']?).join := by simp only [heapGet, h3]
  rw [g1, g2]
  refine ⟨hne, by simp only [heapSet, List.length_modify]; exact H.len, ?_, ?_⟩
  · intro k hkM hkN
    have e1 : ¬ M = k := fun e => hkM e.symm
    have e2 : ¬ N = k := fun e => hkN e.symm
    rw [getElem?_heapSet, getElem?_heapSet, if_neg e1, if_neg e2]
    exact H.other k hkM hkN
  · refine ⟨b.set c (lift2 DataAlg.add (b[c]?).join v), rm,
      rn.set c' (lift2 DataAlg.add (rn[c']?).join v), ?_, ?_, ?_, hq0, ?_, ?_, ?_⟩
    · rw [getElem?_heapSet, if_pos rfl, h1]; rfl
    · rw [getElem?_heapSet, if_neg (fun e : N = M => hne e.symm)]; exact h2
    · rw [getElem?_heapSet, if_pos rfl, h3]; rfl
    · rw [List.length_set]; exact hql
    · intro d hd
      have hdc : ¬ c = d := fun e => by rw [e] at hc; rw [hc] at hd; cases hd
      rw [List.getElem?_set, if_neg hdc]
      exact hq1 d hd
    · intro d d' hd
      by_cases hdc : c = d
      · subst hdc
        have e : d' = c' := Option.some.inj (hd.symm.trans hc)
        subst e
        refine ⟨fun _ => by rw [List.length_set]; exact hlt', ?_⟩
        rw [List.getElem?_set, List.getElem?_set, if_pos rfl, if_pos rfl, if_pos hlt0, if_pos hlt']
        show lift2 DataAlg.add (b[c]?).join v
          = lift2 DataAlg.add (rm0[c]?).join (lift2 DataAlg.add (rn[d']?).join v)
        rw [(hq2 c d' hc).2, lift2_add_assoc]
      · have hdc' : ¬ c' = d' := fun e => hdc (inj c d c' hc (by rw [e]; exact hd))
        rw [List.length_set, List.length_set, List.getElem?_set, List.getElem?_set, if_neg hdc,
          if_neg hdc']
        exact hq2 d d' hd

variable (hM : (pv x).buf = M) (hN : (pv xs).buf = N)
  (G : StAcc V w (pv x) (pv xs) C los lov)
include hM hN G

/-- the access lemma (as `Stage.target_stage`, for the accumulating relation) -/
theorem target_acc (h : AcR x xs M N C rm0 pv s s') (hI : evalCs s los = .ok lov)
    (idx : List Expr) (c : Nat × Nat) (hc : Fp.target s x idx = .ok c)
    (hD : c.1 = M → (C c.2).isSome = true) :
    ∃ c', C c.2 = some c' ∧ c.1 = M ∧ Fp.target s' xs (Rw.stageIdx w idx) = .ok (N, c') := by
  unfold Fp.target at hc ⊢
  rw [h.px x (Or.inl rfl)] at hc
  rw [h.views, h.px xs (Or.inr rfl)]
  simp only [] at hc ⊢
  obtain ⟨is, his, hc⟩ := except_bind_ok_inv hc
  obtain ⟨o, b, ho, hb, ho0, ho1, rfl⟩ := cellOf_inv hc
  obtain ⟨c', hc'⟩ := Option.isSome_iff_exists.1 (hD hM)
  obtain ⟨js, hjs, hoff⟩ := G.acc s idx is o c' hI his ho ho0 hc'
  obtain ⟨lm, rm, rn, h1, h2, h3, hq0, hql, hq1, hq2⟩ := h.heap.big
  have eb : b = lm := by rw [hM] at hb; exact Option.some.inj (hb.symm.trans h1)
  subst eb
  have hlt : c' < rn.length := (hq2 _ _ hc').1 (by omega)
  refine ⟨c', hc', hM, ?_⟩
  rw [evalCs_sr h, hjs, ok_bind]
  have hcell := cellOf_intro (h := s'.heap) (v := pv xs) (by rw [hN]; exact h3) hoff
    (by omega) (by omega)
  rw [hcell, hN]
  have e : ((c' : Int)).toNat = c' := by omega
  rw [e]

/-- a reduce into `x[idx]` on the left, into `xs[stageIdx w idx]` on the right -/
theorem writeCell_acc [DataLaws V] (h : AcR x xs M N C rm0 pv s s')
    (hI : evalCs s los = .ok lov) (idx : List Expr) (v : Option V)
    (hacc : ∀ c, Fp.target s x idx = .ok c → c.1 = M → (C c.2).isSome = true) :
    Fwd (AcR x xs M N C rm0 pv) (writeCell s x idx (fun old => lift2 DataAlg.add old v))
      (writeCell s' xs (Rw.stageIdx w idx) (fun old => lift2 DataAlg.add old v)) := by
  rw [Fp.writeCell_eq, Fp.writeCell_eq]
  intro t ht
  cases hc : Fp.target s x idx with
  | error e => rw [hc] at ht; cases ht
  | ok c =>
    rw [hc] at ht
    obtain ⟨c', hc', hcM, ht'⟩ := target_acc hM hN G h hI idx c hc (hacc c hc)
    rw [ht']
    refine ⟨_, rfl, ?_⟩
    obtain rfl : { s with heap := heapSet s.heap c (lift2 DataAlg.add (heapGet s.heap c) v) } = t :=
      Except.ok.inj ht
    have hval := Fp.target_valid hc
    obtain ⟨cb, cc⟩ := c
    have hcM' : cb = M := hcM
    subst hcM'
    show SR _ _ _ _ _
      { s with heap := heapSet s.heap (cb, cc) (lift2 DataAlg.add (heapGet s.heap (cb, cc)) v) }
      { s' with heap := heapSet s'.heap (N, c') (lift2 DataAlg.add (heapGet s'.heap (N, c')) v) }
    exact h.heapWrite (red_pair G.inj h.heap hc' hval v)

end

/-! ### the stage mode for reduce-only blocks -/

section
variable {x xs : Sym} {w : List WAcc} {C : Nat → Option Nat} {M N : Nat} {pv : Sym → View}
  {los : List Expr} {lov : List Int} {rm0 : List (Option V)}
variable [DataAlg V] [DataLaws V] (ext : String → List V → V)

/-- a statement that does not mention `x` (nor `xs`): the rewrite is the identity, identity mode -/
theorem plain_acc (a : Stmt) (s s' : State V) (hx : ∀ y ∈ a.names, y ≠ x)
    (hxs : ∀ y ∈ a.names, y ≠ xs) (h : AcR x xs M N C rm0 pv s s') :
    Fwd (AcR x xs M N C rm0 pv) (execS ext a s) (execS ext (Rw.stageS x xs w a) s') := by
  rw [stageS_id x xs w a hx]
  exact Fwd.of_lock (Stage.execS_id ext M N _ pv a _ s s' (notP hx hxs) h)

variable (hM : (pv x).buf = M) (hN : (pv xs).buf = N)
  (G : StAcc V w (pv x) (pv xs) C los lov) (hlos : ∀ e ∈ los, e.envOnly = true)
include hM hN G hlos

mutual
/-- **stage mode, accumulating variant**: if `a` succeeds (reducing only into window cells of buffer
    `M`), `stageS x xs w a` succeeds in a related state -/
theorem execS_acc :
    ∀ (a : Stmt) (s s' : State V), accOkS x los a = true → (∀ y ∈ a.names, y ≠ xs) →
    AcR x xs M N C rm0 pv s s' → evalCs s los = .ok lov →
    AccIn M (DC C) (Fp.evS ext a s) →
    Fwd (AcR x xs M N C rm0 pv) (execS ext a s) (execS ext (Rw.stageS x xs w a) s')
  | .assign y idx rhs, s, s', hok, hxs, h, _, _ => by
    simp only [accOkS] at hok
    exact plain_acc ext _ s s' (Rw.notIn_iff.1 hok) hxs h
  | .reduce y idx rhs, s, s', hok, hxs, h, hI, hacc => by
    simp only [accOkS, Bool.and_eq_true] at hok
    have hidx := Rw.notIn_iff.1 hok.1
    have hrhs := Rw.notIn_iff.1 hok.2
    by_cases hyx : y = x
    · have hb : (y == x) = true := by simp [hyx]
      simp only [Fp.evS] at hacc
      rw [Reidx.accIn_append, Reidx.accIn_append] at hacc
      obtain ⟨_, ha3⟩ := hacc
      simp only [Rw.stageS, hb, ↓reduceIte, execS]
      rw [stageEs_id x xs w idx hidx, stageE_id x xs w rhs hrhs,
        evalD_sr ext h rhs (notP hrhs (fun z hz => hxs z (by simp [Stmt.names, hz])))]
      refine Fwd.bind_eq (fun v hv => ?_)
      rw [hv] at ha3
      rw [hyx] at ha3 ⊢
      exact writeCell_acc hM hN G h hI idx v (fun c hc hcM => by
        rw [hc] at ha3
        exact dc_nat (ha3 (.red c v) (by simp) hcM))
    · exact plain_acc ext _ s s' (names_cons_ne hyx (fun z hz => by
        rcases List.mem_append.1 hz with hz | hz
        · exact hidx z hz
        · exact hrhs z hz)) hxs h
  | .writecfg c fl rhs d, s, s', hok, hxs, h, _, _ => by
    simp only [accOkS] at hok
    exact plain_acc ext _ s s' (Rw.notIn_iff.1 hok) hxs h
  | .pass, s, s', _, _, h, _, _ => by
    simp only [Rw.stageS, execS]; exact Fwd.ofPure h
  | .free _, s, s', _, _, h, _, _ => by
    simp only [Rw.stageS, execS]; exact Fwd.ofPure h
  | .ite c t el, s, s', hok, hxs, h, hI, hacc => by
    simp only [accOkS, Bool.and_eq_true] at hok
    obtain ⟨⟨hc, ht⟩, hel⟩ := hok
    have hc' := Rw.notIn_iff.1 hc
    simp only [Fp.evS] at hacc
    have hacc2 := (Reidx.accIn_append.1 hacc).2
    simp only [Rw.stageS, execS]
    rw [stageE_id x xs w c hc', evalC_sr h c]
    refine Fwd.bind_eq (fun b hb => ?_)
    rw [hb] at hacc2
    simp only [Fp.onOk_ok] at hacc2
    refine Fwd.ite (fun hb0 => ?_) (fun hb0 => ?_)
    · rw [if_pos hb0] at hacc2
      exact Fwd.map (execL_acc t s s' ht (fun z hz => hxs z (by simp [Stmt.names, hz])) h hI hacc2)
        (fun a b ha _ hab => h.leave hab (execL_scope ext t s a ha).2.1)
    · rw [if_neg hb0] at hacc2
      exact Fwd.map (execL_acc el s s' hel (fun z hz => hxs z (by simp [Stmt.names, hz])) h hI hacc2)
        (fun a b ha _ hab => h.leave hab (execL_scope ext el s a ha).2.1)
  | .loop i lo hi body par, s, s', hok, hxs, h, hI, hacc => by
    simp only [accOkS, Bool.and_eq_true, Bool.not_eq_true'] at hok
    obtain ⟨⟨⟨hlo, hhi⟩, hie⟩, hb⟩ := hok
    have hlo' := Rw.notIn_iff.1 hlo
    have hhi' := Rw.notIn_iff.1 hhi
    simp only [Fp.evS] at hacc
    have hacc2 := (Reidx.accIn_append.1 hacc).2
    simp only [Rw.stageS, execS]
    rw [stageE_id x xs w lo hlo', stageE_id x xs w hi hhi', evalC_sr h lo, evalC_sr h hi]
    refine Fwd.bind_eq (fun l hl => Fwd.bind_eq (fun hh hhh => ?_))
    rw [hl, hhh] at hacc2
    simp only [Fp.onOk_ok] at hacc2
    refine Fwd.ite (fun _ => Fwd.ofThrowBind) (fun hlt => ?_)
    rw [if_neg hlt] at hacc2
    have hbx : ∀ z ∈ namesL body, z ≠ xs := fun z hz => hxs z (by simp [Stmt.names, hz])
    have key := Reidx.iterate_fwd_acc (N := M) (D := DC C)
      (fun a b => AcR x xs M N C rm0 pv a b ∧ evalCs a los = .ok lov) _ _
      (fun v s => Fp.evL ext body (s.bind i v))
      (fun v a b hab hac => by
        have hIb : evalCs (a.bind i v) los = .ok lov := by
          rw [← hab.2]
          refine evalCs_envOnly los hlos a (a.bind i v) (fun y hy => ?_)
          have hyi : ¬ y = i := fun hyi => by rw [hyi, hie] at hy; cases hy
          show lookupSym y ((i, v) :: a.env) = _
          rw [lookupSym_cons, if_neg hyi]
        exact Fwd.map (execL_acc body _ _ hb hbx (hab.1.bind i v) hIb hac)
          (fun a1 b1 ha1 _ h1 => ⟨hab.1.leave h1 (execL_scope ext body _ a1 ha1).2.1, by
            rw [← hab.2]
            exact evalCs_env_eq los hlos a (State.leave a a1) rfl⟩))
      _ _ s s' ⟨h, hI⟩ hacc2
    intro t ht
    obtain ⟨t', ht', hq⟩ := key t ht
    exact ⟨t', ht', hq.1⟩
  | .alloc y sh, s, s', hok, hxs, h, _, _ => by
    simp only [accOkS] at hok
    exact plain_acc ext _ s s' (Rw.notIn_iff.1 hok) hxs h
  | .call p args, s, s', hok, hxs, h, _, _ => by
    simp only [accOkS] at hok
    exact plain_acc ext _ s s' (Rw.notIn_iff.1 hok) hxs h
  | .window y rhs, s, s', hok, hxs, h, _, _ => by
    simp only [accOkS] at hok
    exact plain_acc ext _ s s' (Rw.notIn_iff.1 hok) hxs h
theorem execL_acc :
    ∀ (ss : List Stmt) (s s' : State V), accOkL x los ss = true →
    (∀ y ∈ namesL ss, y ≠ xs) →
    AcR x xs M N C rm0 pv s s' → evalCs s los = .ok lov →
    AccIn M (DC C) (Fp.evL ext ss s) →
    Fwd (AcR x xs M N C rm0 pv) (execL ext ss s) (execL ext (Rw.stageL x xs w ss) s')
  | [], s, s', _, _, h, _, _ => by
    simp only [Rw.stageL, execL]; exact Fwd.ofPure h
  | a :: r, s, s', hok, hxs, h, hI, hacc => by
    simp only [accOkL, Bool.and_eq_true] at hok
    simp only [Fp.evL] at hacc
    obtain ⟨h1, h2⟩ := Reidx.accIn_append.1 hacc
    simp only [Rw.stageL, execL]
    exact Fwd.bind (execS_acc a s s' hok.1 (fun z hz => hxs z (by simp [namesL, hz])) h hI h1)
      (fun s1 s1' hs1 _ hr => by
        rw [hs1] at h2
        exact execL_acc r s1 s1' hok.2 (fun z hz => hxs z (by simp [namesL, hz])) hr
          (by
            rw [← hI]
            exact evalCs_env_eq los hlos s s1 (execS_scope ext a s s1 hs1).1) h2)
end

end

end StageAcc

/-! ### the block theorem -/

section
variable [DataAlg V] (ext : String → List V → V)

/-- **zero fill, semantically**: from the state after the allocation (`rm0` = contents of buffer `M`),
    the zero-fill nest succeeds, changes only the heap, and establishes the accumulating middle heap
    relation with the unchanged left state -/
def ZeroOK (load : List Stmt) (M N : Nat) (C : Nat → Option Nat) (σ1 : State V) : Prop :=
  ∀ rm0, σ1.heap[M]? = some rm0 → ∃ s1', execL ext load σ1 = .ok s1' ∧ s1'.env = σ1.env ∧
    s1'.cfg = σ1.cfg ∧ s1'.views = σ1.views ∧ Stage.HR M N (StageAcc.AcQ C rm0) σ1.heap s1'.heap

/-- **accumulating copy-out, semantically**: from two states in the accumulating middle relation (the
    left one reached by the original block from the state after the allocation), the `+=` nest run
    on the right yields a state that agrees with the left one except on the staging buffer -/
def AccStoreOK (store B : List Stmt) (x xs : Sym) (M N : Nat) (C : Nat → Option Nat)
    (pv : Sym → View) (σ1 : State V) : Prop :=
  ∀ rm0 tB tB', σ1.heap[M]? = some rm0 → execL ext B σ1 = .ok tB →
    StageAcc.AcR x xs M N C rm0 pv tB tB' →
    ∃ tB'', execL ext store tB' = .ok tB'' ∧ ExceptN N tB tB''

/-- the per-state hypotheses of the accumulating `stage_mem` -/
structure AccHyp (x xs : Sym) (w : List WAcc) (B load : List Stmt) (σ : State V)
    (vx : View) (szs lov : List Int) (C : Nat → Option Nat) : Prop where
  hx : lookupSym x σ.views = some vx
  hid : ∀ y v, y ≠ x → lookupSym y σ.views = some v → v.buf ≠ vx.buf
  hsz : evalCs σ (Rw.stageShape w) = .ok szs
  hpos : checkSizes szs = .ok ()
  hlo : evalCs σ (Rw.stageLos w) = .ok lov
  geo : StAcc V w vx (vxsOf σ szs) C (Rw.stageLos w) lov
  /-- every reduce of the original block into the buffer of `x` hits a window cell -/
  acc : AccIn vx.buf (DC C) (Fp.evL ext B (allocSt σ xs szs))
  /-- the zero-fill nest -/
  load : ZeroOK ext load vx.buf σ.heap.length C (allocSt σ xs szs)

/-- **stage_mem, accumulating variant, state level, one-directional**, over a lawful data algebra.
    In a well-scoped state, under the guard `accGuard` and the hypotheses `AccHyp` / `AccStoreOK`:
    whenever `xs : T[sh] ; B ; rest` succeeds, `xs : T[sh] ; load ; stageL x xs w B ; store ; rest`
    succeeds with the SAME final state. -/
theorem stage_mem_accum_fwd_partial [DataLaws V] (x xs : Sym) (w : List WAcc)
    (B rest load store : List Stmt)
    (σ : State V) (hvo : ViewsOk σ) (hg : accGuard x xs w B = true)
    (hrest : ∀ y ∈ namesL rest, y ≠ xs) (vx : View) (szs lov : List Int) (C : Nat → Option Nat)
    (H : AccHyp ext x xs w B load σ vx szs lov C)
    (hstore : AccStoreOK ext store B x xs vx.buf σ.heap.length C (pvOf xs vx (vxsOf σ szs))
      (allocSt σ xs szs)) :
    Fwd Eq (execB ext (.alloc xs (Rw.stageShape w) :: (B ++ rest)) σ)
      (execB ext (.alloc xs (Rw.stageShape w) ::
        (load ++ (Rw.stageL x xs w B ++ (store ++ rest)))) σ) := by
  intro o ho
  obtain ⟨t1, ht1, rfl⟩ := execB_ok_inv ext ho
  simp only [execL] at ht1
  obtain ⟨σ1, hal, hrun⟩ := except_bind_ok_inv ht1
  have hal1 : execS ext (.alloc xs (Rw.stageShape w)) σ = .ok (allocSt σ xs szs) :=
    execS_alloc ext xs _ σ szs H.hsz H.hpos
  have e1 := Except.ok.inj (hal.symm.trans hal1)
  subst e1
  rw [execL_append] at hrun
  obtain ⟨tB, hB, hrest'⟩ := except_bind_ok_inv hrun
  simp only [accGuard, Bool.and_eq_true, bne_iff_ne, ne_eq] at hg
  obtain ⟨⟨⟨hokL, hxsB⟩, henv⟩, hxxs⟩ := hg
  have hxsB' := Rw.notIn_iff.1 hxsB
  have hlos : ∀ e ∈ Rw.stageLos w, e.envOnly = true := by
    intro e he
    exact List.all_eq_true.1 henv e he
  have hvxlt : vx.buf < σ.heap.length := hvo (x, vx) (lookupSym_mem H.hx)
  obtain ⟨rm0, hrm0⟩ := exists_getElem? σ.heap vx.buf hvxlt
  have hrm1 : (allocSt σ xs szs).heap[vx.buf]? = some rm0 := by
    show (σ.heap ++ _)[vx.buf]? = _
    rw [List.getElem?_append_left hvxlt]; exact hrm0
  obtain ⟨s1', hl, he, hc, hv, hH⟩ := H.load rm0 hrm1
  have hpx : pvOf xs vx (vxsOf σ szs) x = vx := by simp [pvOf, hxxs]
  have hpxs : pvOf xs vx (vxsOf σ szs) xs = vxsOf σ szs := by simp [pvOf]
  have hSR : StageAcc.AcR x xs vx.buf σ.heap.length C rm0 (pvOf xs vx (vxsOf σ szs))
      (allocSt σ xs szs) s1' := by
    refine ⟨he, hc, hv, hH, ?_, ?_⟩
    · intro y v hy hlk
      have hyx : ¬ y = x := fun e => hy (Or.inl e)
      have hyxs : ¬ y = xs := fun e => hy (Or.inr e)
      simp only [allocSt, lookupSym, if_neg hyxs] at hlk
      have h1 := H.hid y v hyx hlk
      have h2 := hvo (y, v) (lookupSym_mem hlk)
      simp only [] at h2
      exact ⟨h1, by omega⟩
    · intro y hy
      rcases hy with rfl | rfl
      · rw [hpx]
        simp only [allocSt, lookupSym, if_neg hxxs]
        exact H.hx
      · rw [hpxs]
        simp only [allocSt, lookupSym, if_true, vxsOf]
  have hM : (pvOf xs vx (vxsOf σ szs) x).buf = vx.buf := by rw [hpx]
  have hN : (pvOf xs vx (vxsOf σ szs) xs).buf = σ.heap.length := by rw [hpxs]; rfl
  have G' : StAcc V w (pvOf xs vx (vxsOf σ szs) x) (pvOf xs vx (vxsOf σ szs) xs) C
      (Rw.stageLos w) lov := by rw [hpx, hpxs]; exact H.geo
  have hI : evalCs (allocSt σ xs szs) (Rw.stageLos w) = .ok lov := by
    rw [← H.hlo]; exact Stage.evalCs_env_eq _ hlos σ _ rfl
  obtain ⟨tB', hB', hrel⟩ :=
    StageAcc.execL_acc ext hM hN G' hlos B _ _ hokL hxsB' hSR hI H.acc tB hB
  obtain ⟨tB'', hst, hex⟩ := hstore rm0 tB tB' hrm1 hB hrel
  obtain ⟨e1, e2, e3, e4, e5⟩ := hex
  have hNlt : σ.heap.length < tB.heap.length := hrel.heap.ltN
  obtain ⟨bo, hbo⟩ := exists_getElem? tB.heap σ.heap.length hNlt
  obtain ⟨be, hbe⟩ := exists_getElem? tB''.heap σ.heap.length (by omega)
  have hRel : Reidx.Rel (fun y => y = xs) σ.heap.length (fun _ _ => True) (vxsOf σ szs)
      (vxsOf σ szs) tB tB'' := by
    refine ⟨e1, e2, ⟨e4, e5, bo, be, hbo, hbe, trivial⟩, fun y _ => by rw [e3], ?_, ?_⟩
    · intro y v hy hlk
      by_cases hyx : y = x
      · subst hyx
        have := hrel.px y (Or.inl rfl)
        rw [hpx] at this
        have ev : v = vx := Option.some.inj (hlk.symm.trans this)
        rw [ev]; omega
      · exact (hrel.nb y v (fun hp => hp.elim hyx hy) hlk).2
    · intro y hy
      have hy' : y = xs := hy
      subst hy'
      have := hrel.px y (Or.inr rfl)
      rw [hpxs] at this
      exact ⟨this, by rw [e3]; exact this⟩
  obtain ⟨t1', ht1', hrel2⟩ :=
    (Reidx.execL_id ext σ.heap.length _ (vxsOf σ szs) (vxsOf σ szs) rest _ tB tB''
      (fun y hy => hrest y hy) hRel).ok_left hrest'
  refine ⟨State.leave σ t1', ?_, (hrel2.leave_eq σ rfl).symm⟩
  unfold execB
  have hright : execL ext (.alloc xs (Rw.stageShape w) ::
      (load ++ (Rw.stageL x xs w B ++ (store ++ rest)))) σ = .ok t1' := by
    rw [execL_cons_ok ext hal1, execL_append, hl, ok_bind, execL_append, hB', ok_bind,
      execL_append, hst, ok_bind, ht1']
  rw [hright]
  rfl

end

/-! ### refinement between well-scoped states, over lawful algebras -/

/-- the literal `0.0` is a right zero of the data addition (NOT a law of `DataLaws`) -/
def RightZero (V : Type) [DataAlg V] : Prop := ∀ a : V, DataAlg.add a (DataAlg.ofRat 0 1) = a

/-- `BlockRefW` over the data algebras that satisfy `DataLaws` and `RightZero` -/
def BlockRefWL (B B' : List Stmt) : Prop :=
  ∀ (V : Type) [DataAlg V] [DataLaws V] (ext : String → List V → V) (s s' t : State V),
    RightZero V → WRef s s' → execB ext B s = .ok t → ∃ t', execB ext B' s' = .ok t' ∧ WRef t t'

theorem BlockRefW.toLaws {B B' : List Stmt} (h : BlockRefW B B') : BlockRefWL B B' :=
  fun V _ _ ext s s' t _ hr ht => h V ext s s' t hr ht

/-- the semantic side condition of the accumulating `stage_mem`, required in every well-scoped state
    (over a lawful algebra with a right zero) in which the original block succeeds -/
def AccSem (x xs : Sym) (w : List WAcc) (B load store : List Stmt) (ss : List Stmt) : Prop :=
  ∀ (V : Type) [DataAlg V] [DataLaws V] (ext : String → List V → V) (σ o : State V),
    RightZero V → ViewsOk σ → execB ext ss σ = .ok o →
    ∃ (vx : View) (szs lov : List Int) (C : Nat → Option Nat),
      AccHyp ext x xs w B load σ vx szs lov C ∧
      AccStoreOK ext store B x xs vx.buf σ.heap.length C (pvOf xs vx (vxsOf σ szs))
        (allocSt σ xs szs)

/-- **the accumulating variant as a refinement between well-scoped states over lawful algebras**, for
    arbitrary nests that satisfy `ZeroOK` / `AccStoreOK` -/
theorem stage_accum_refWL_partial (x xs : Sym) (w : List WAcc) (B rest load store : List Stmt)
    (hg : accGuard x xs w B = true) (hrest : ∀ y ∈ namesL rest, y ≠ xs)
    (hsem : AccSem x xs w B load store (B ++ rest)) :
    BlockRefWL (B ++ rest)
      (.alloc xs (Rw.stageShape w) :: (load ++ (Rw.stageL x xs w B ++ (store ++ rest)))) := by
  intro V _ _ ext s s' t hz hr ht
  obtain ⟨t1, ht1, hr1⟩ := BlockRefW.refl (B ++ rest) V ext s s' t hr ht
  obtain ⟨vx, szs, lov, C, H, hstore⟩ := hsem V ext s' t1 hz hr.ok' ht1
  have hxsB : ∀ y ∈ namesL B, y ≠ xs := by
    simp only [accGuard, Bool.and_eq_true] at hg
    exact Rw.notIn_iff.1 hg.1.1.2
  have hxs : ∀ y ∈ namesL (B ++ rest), y ≠ xs := by
    intro y hy
    rw [namesL_append] at hy
    rcases List.mem_append.1 hy with hy | hy
    · exact hxsB y hy
    · exact hrest y hy
  have hl := dead_alloc_lock ext CellRel.refines xs (Rw.stageShape w) (B ++ rest) s' s'
    (WRef.refl hr.ok').ref.sim hr.ok' szs H.hsz H.hpos hxs
  obtain ⟨t2, ht2, h12⟩ := hl.ok_left ht1
  obtain ⟨t3, ht3, e3⟩ :=
    stage_mem_accum_fwd_partial ext x xs w B rest load store s' hr.ok' hg hrest vx szs lov C H hstore
      t2 ht2
  subst e3
  obtain ⟨u1, hu1, rfl⟩ := execB_ok_inv ext ht1
  have hok1 : ViewsOk (State.leave s' u1) := hr.ok'.leave (execL_scope ext _ s' u1 hu1).2.1
  exact ⟨t2, ht3, hr1.trans ⟨h12, hok1⟩⟩

/-- **the `Local` `Rw.stageMemAll` with `accum = true`** (zero fill and `+=` copy-out) -/
theorem stage_mem_accum_refWL_partial (x xs : Sym) (w : List WAcc) (n : Nat) (iters : List Sym)
    (gl gs : Option Expr) (ss r : List Stmt)
    (h : Rw.stageMemAll x xs w n iters true true true gl gs ss = some r)
    (hg : accGuard x xs w (ss.take n) = true) (hrest : ∀ y ∈ namesL (ss.drop n), y ≠ xs)
    (hsem : AccSem x xs w (ss.take n) (Rw.stageLoad x xs w iters true gl)
      (Rw.stageStore x xs w iters true gs) ss) :
    BlockRefWL ss r := by
  simp only [Rw.stageMemAll, ↓reduceIte, Option.some.injEq] at h
  subst h
  have e : ss = ss.take n ++ ss.drop n := (List.take_append_drop n ss).symm
  have h1 := stage_accum_refWL_partial x xs w (ss.take n) (ss.drop n) _ _ hg hrest
    (by rw [← e]; exact hsem)
  rw [← e] at h1
  simpa only [List.append_assoc] using h1

end Exo.Stg
