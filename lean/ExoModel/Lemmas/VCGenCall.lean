/-
  Call sites in the soundness proof of `Exo.VCGen.vcgen`: what valid call-site conditions say
  about `Exo.bindArgs`, `noAlias`, `checkShapes`, `checkPreds`, and the state the callee starts in.
-/
import ExoModel.Lemmas.VCGenInv

set_option linter.unusedSectionVars false
namespace Exo.VCGen
open Exo
variable {V : Type}

/-! ### the entry condition of a procedure -/

/-- what a procedure may assume about the state it starts in: its entry facts (sizes ≥ 1, its
    assertions, dense layout of non-window tensor arguments) are true, the views bound to its
    tensor arguments have the declared extents, no two names share a buffer, every view lies
    inside an existing buffer -/
structure EntryOk (p : Proc) (σ : State V) : Prop where
  facts : ∀ f ∈ entryFacts p.args p.preds, holds σ f
  shapes : checkShapes σ p.args = .ok ()
  noAlias : noAlias σ.views = true
  views : ∀ x v, lookupSym x σ.views = some v → v.buf < σ.heap.length ∧ InBuf σ.heap v

theorem evalCs_nil_ok {σ : State V} {vs : List Int} (h : evalCs σ [] = .ok vs) : vs = [] := by
  simp only [evalCs, pure, Except.pure, Except.ok.injEq] at h; exact h.symm

theorem checkShapes_lookup {σ : State V} {x : Sym} {t : BufTy} : ∀ (args : List FnArg),
    checkShapes σ args = .ok () → lookupSym x (argTys args) = some t →
    ∃ v, lookupSym x σ.views = some v ∧
      evalCs σ t.shape = .ok (v.dims.map (fun (p : Int × Int) => p.1)) ∧ t.root = x
  | [], _, h => by cases h
  | ⟨y, .ctrl k⟩ :: r, hc, h => by
    simp only [checkShapes] at hc
    simp only [argTys] at h
    exact checkShapes_lookup r hc h
  | ⟨y, .scalar⟩ :: r, hc, h => by
    simp only [checkShapes] at hc
    simp only [argTys, lookupSym] at h
    cases hy : lookupSym y σ.views with
    | none => rw [hy] at hc; cases hc
    | some v =>
      rw [hy] at hc
      simp only [] at hc
      split at hc
      · rename_i hd
        split at h
        · rename_i hxy
          cases h; subst hxy
          exact ⟨v, hy, by rw [hd]; rfl, rfl⟩
        · exact checkShapes_lookup r hc h
      · cases hc
  | ⟨y, .tensor shape w⟩ :: r, hc, h => by
    simp only [checkShapes, bind, Except.bind] at hc
    simp only [argTys, lookupSym] at h
    cases hs : evalCs σ shape with
    | error _ => rw [hs] at hc; cases hc
    | ok sh =>
      rw [hs] at hc
      simp only [] at hc
      cases hy : lookupSym y σ.views with
      | none => rw [hy] at hc; cases hc
      | some v =>
        rw [hy] at hc
        simp only [] at hc
        split at hc
        · rename_i hd
          split at h
          · rename_i hxy
            cases h; subst hxy
            exact ⟨v, hy, by rw [hs, hd], rfl⟩
          · exact checkShapes_lookup r hc h
        · cases hc

theorem noAlias_lookup : ∀ {l : List (Sym × View)} {x x' : Sym} {v v' : View},
    noAlias l = true → lookupSym x l = some v → lookupSym x' l = some v' → v.buf = v'.buf → x = x'
  | [], _, _, _, _, _, h, _, _ => by cases h
  | (y, w) :: r, x, x', v, v', hn, hx, hx', hb => by
    simp only [noAlias, Bool.and_eq_true, List.all_eq_true, decide_eq_true_eq] at hn
    by_cases h1 : x = y <;> by_cases h2 : x' = y
    · rw [h1, h2]
    · subst h1
      rw [lookupSym_cons_eq] at hx; cases hx
      rw [lookupSym_cons_ne h2] at hx'
      exact (hn.1 _ (lookupSym_mem hx') hb.symm).elim
    · subst h2
      rw [lookupSym_cons_eq] at hx'; cases hx'
      rw [lookupSym_cons_ne h1] at hx
      exact (hn.1 _ (lookupSym_mem hx) hb).elim
    · rw [lookupSym_cons_ne h1] at hx
      rw [lookupSym_cons_ne h2] at hx'
      exact noAlias_lookup hn.2 hx hx' hb

theorem argTys_cfgFree : ∀ (args : List FnArg), argShapesCfgFree args = true →
    ∀ e ∈ argTys args, shapeCfgFree e.2.shape = true
  | [], _, e, he => by cases he
  | ⟨y, .ctrl k⟩ :: r, h, e, he => by
    simp only [argShapesCfgFree] at h
    simp only [argTys] at he
    exact argTys_cfgFree r h e he
  | ⟨y, .scalar⟩ :: r, h, e, he => by
    simp only [argShapesCfgFree] at h
    simp only [argTys] at he
    cases he with
    | head => rfl
    | tail _ hm => exact argTys_cfgFree r h e hm
  | ⟨y, .tensor shape w⟩ :: r, h, e, he => by
    simp only [argShapesCfgFree, Bool.and_eq_true] at h
    simp only [argTys] at he
    cases he with
    | head => exact h.1
    | tail _ hm => exact argTys_cfgFree r h.2 e hm

/-- the invariant holds at the entry of a procedure -/
theorem EntryOk.inv {p : Proc} {σ : State V} (h : EntryOk p σ)
    (hc : argShapesCfgFree p.args = true) :
    Inv (argTys p.args) (addFacts [] (entryFacts p.args p.preds)) σ := by
  have h0 : Inv (argTys p.args) [] σ := by
    refine ⟨(fun f hf => by cases hf), (fun f hf => by cases hf), argTys_cfgFree p.args hc,
      (fun r => match lookupSym r σ.views with | some v => v.buf | none => 0), ?_, ?_⟩
    · intro x t x' t' hx hx' heq
      obtain ⟨v, hv, _, hr⟩ := checkShapes_lookup p.args h.shapes hx
      obtain ⟨v', hv', _, hr'⟩ := checkShapes_lookup p.args h.shapes hx'
      rw [hr, hr'] at heq ⊢
      simp only [hv, hv'] at heq
      exact noAlias_lookup h.noAlias hv hv' heq
    · intro x t hx
      obtain ⟨v, hv, hs, hr⟩ := checkShapes_lookup p.args h.shapes hx
      have := h.views x v hv
      exact ⟨v, hv, ⟨hs, this.1, this.2⟩, by rw [hr]; simp only [hv]⟩
  exact h0.addFacts (fun f hf _ => h.facts f hf)

/-! ### actual arguments -/

theorem evalCs_length {σ : State V} : ∀ {es : List Expr} {vs : List Int},
    evalCs σ es = .ok vs → vs.length = es.length
  | [], vs, h => by rw [evalCs_nil_ok h]; rfl
  | e :: r, vs, h => by
    obtain ⟨x, ys, _, hr, rfl⟩ := evalCs_cons_ok h
    simp [evalCs_length hr]

/-- the view `vw` bound to a numeric formal is what `info` says about the actual argument -/
structure ArgOk (Γ : TyEnv) (σ : State V) (ρ : Sym → Nat) (info : ArgInfo) (vw : View) : Prop where
  shape : evalCs σ info.ty.shape = .ok (vw.dims.map (fun (p : Int × Int) => p.1))
  buf : vw.buf < σ.heap.length
  inBuf : InBuf σ.heap vw
  root : vw.buf = ρ info.ty.root
  rootOf : ∃ t, lookupSym info.base Γ = some t ∧ info.ty.root = t.root
  strides : ∀ (d d' : Nat) (s : Int), info.dimMap[d]? = some d' →
    evalC σ (.stride info.base d') = .ok s → ∃ e, vw.dims[d]? = some (e, s)

theorem evalC_stride_ok {σ : State V} {x : Sym} {d : Nat} {s : Int}
    (h : evalC σ (.stride x d) = .ok s) :
    ∃ v e, lookupSym x σ.views = some v ∧ v.dims[d]? = some (e, s) := by
  simp only [evalC] at h
  cases hv : lookupSym x σ.views with
  | none => rw [hv] at h; cases h
  | some v =>
    rw [hv] at h
    simp only [] at h
    cases hd : v.dims[d]? with
    | none => rw [hd] at h; cases h
    | some p =>
      obtain ⟨e, s'⟩ := p
      rw [hd] at h
      simp only [pure, Except.pure, Except.ok.injEq] at h
      subst h
      exact ⟨v, e, rfl, hd⟩

/-- a checked actual argument evaluates to a view described by its `ArgInfo` -/
theorem argInfo_ok {Γ : TyEnv} {P : List Expr} {σ : State V} (h : Inv Γ P σ) {ρ : Sym → Nat}
    (hρ : BufsOk Γ σ ρ) {a : Expr} {info : ArgInfo} (hi : argInfo Γ P a = some info)
    (ho : ObsOk info.obs) : ∃ vw, evalView σ a = .ok vw ∧ ArgOk Γ σ ρ info vw := by
  cases a with
  | read x idx =>
    cases idx with
    | nil =>
      simp only [argInfo] at hi
      cases hx : lookupSym x Γ with
      | none => rw [hx] at hi; cases hi
      | some t =>
        rw [hx] at hi
        simp only [Option.some.injEq] at hi
        subst hi
        obtain ⟨v, hv, hty, hb⟩ := hρ.bound x t hx
        refine ⟨v, by simp only [evalView, hv]; rfl, hty.shape, hty.buf, hty.inBuf, hb,
          ⟨t, hx, rfl⟩, fun d d' s hd hs => ?_⟩
        obtain ⟨v', e, hv', hd'⟩ := evalC_stride_ok hs
        rw [hv] at hv'; cases hv'
        have hd : (List.range t.shape.length)[d]? = some d' := hd
        have : d = d' := by
          by_cases hlt : d < t.shape.length
          · rw [List.getElem?_range hlt] at hd; simpa using hd
          · rw [List.getElem?_eq_none (by simp; omega)] at hd; cases hd
        subst this
        exact ⟨e, hd'⟩
    | cons i is =>
      simp only [argInfo] at hi
      cases hx : lookupSym x Γ with
      | none => rw [hx] at hi; cases hi
      | some t =>
        rw [hx] at hi
        simp only [Option.some.injEq] at hi
        subst hi
        obtain ⟨v, hv, hty, hb⟩ := hρ.bound x t hx
        obtain ⟨js, o, hjs, hvo⟩ := bound_ok σ h.facts (i :: is) t.shape v.dims v.off ho hty.shape
        refine ⟨{ buf := v.buf, off := o, dims := [] }, ?_, rfl, hty.buf, ?_, hb,
          ⟨t, hx, rfl⟩, fun d d' s hd _ => by simp at hd⟩
        · simp only [evalView, hv, hjs, hvo, bind, Except.bind, pure, Except.pure]
        · intro is' o' ho'
          cases is' with
          | nil =>
            simp only [viewOffset, pure, Except.pure, Except.ok.injEq] at ho'
            subst ho'
            exact hty.inBuf js o hvo
          | cons _ _ => simp [viewOffset] at ho'
  | win x acc =>
    simp only [argInfo] at hi
    cases hx : lookupSym x Γ with
    | none => rw [hx] at hi; cases hi
    | some t =>
      rw [hx] at hi
      simp only [Option.some.injEq] at hi
      subst hi
      obtain ⟨vb, hvb, hty, hb⟩ := hρ.bound x t hx
      obtain ⟨w, hw, hwin⟩ := evalView_win h ho hvb hty
      refine ⟨w, hw, hwin.shape, by rw [hwin.buf]; exact hty.buf, hwin.inBuf,
        by rw [hwin.buf]; exact hb, ⟨t, hx, rfl⟩, fun d d' s hd hs => ?_⟩
      obtain ⟨e, e', s', h1, h2⟩ := hwin.strides d d' hd
      obtain ⟨v', e'', hv', hd'⟩ := evalC_stride_ok hs
      rw [hvb] at hv'; cases hv'
      rw [h2] at hd'
      simp only [Option.some.injEq, Prod.mk.injEq] at hd'
      exact ⟨e, by rw [h1, hd'.2]⟩
  | lit _ => simp [argInfo] at hi
  | usub _ => simp [argInfo] at hi
  | binop _ _ _ => simp [argInfo] at hi
  | extern _ _ => simp [argInfo] at hi
  | stride _ _ => simp [argInfo] at hi
  | readcfg _ _ => simp [argInfo] at hi

/-! ### the argument substitution and the callee environment -/

def CtrlRel (σ : State V) : List (Sym × Expr) → List (Sym × Int) → Prop
  | [], [] => True
  | (y, e) :: r, (y', v) :: r' => y = y' ∧ evalC σ e = .ok v ∧ CtrlRel σ r r'
  | _, _ => False

def ViewRel (Γ : TyEnv) (σ : State V) (ρ : Sym → Nat) :
    List (Sym × ArgInfo) → List (Sym × View) → Prop
  | [], [] => True
  | (y, i) :: r, (y', w) :: r' => y = y' ∧ ArgOk Γ σ ρ i w ∧ ViewRel Γ σ ρ r r'
  | _, _ => False

theorem CtrlRel.lookup {σ : State V} : ∀ {L : List (Sym × Expr)} {ce : List (Sym × Int)},
    CtrlRel σ L ce → ∀ y e, lookupSym y L = some e →
    ∃ v, evalC σ e = .ok v ∧ lookupSym y ce = some v
  | [], [], _, _, _, h => by cases h
  | [], _ :: _, h, _, _, _ => h.elim
  | _ :: _, [], h, _, _, _ => h.elim
  | (z, e') :: r, (z', v') :: r', h, y, e, hy => by
    obtain ⟨rfl, hev, hr⟩ := h
    by_cases hyz : y = z
    · subst hyz; rw [lookupSym_cons_eq] at hy ⊢; cases hy; exact ⟨v', hev, rfl⟩
    · rw [lookupSym_cons_ne hyz] at hy ⊢; exact CtrlRel.lookup hr y e hy

theorem ViewRel.lookup {Γ : TyEnv} {σ : State V} {ρ : Sym → Nat} :
    ∀ {L : List (Sym × ArgInfo)} {cv : List (Sym × View)},
    ViewRel Γ σ ρ L cv → ∀ y i, lookupSym y L = some i →
    ∃ w, lookupSym y cv = some w ∧ ArgOk Γ σ ρ i w
  | [], [], _, _, _, h => by cases h
  | [], _ :: _, h, _, _, _ => h.elim
  | _ :: _, [], h, _, _, _ => h.elim
  | (z, i') :: r, (z', w') :: r', h, y, i, hy => by
    obtain ⟨rfl, hok, hr⟩ := h
    by_cases hyz : y = z
    · subst hyz; rw [lookupSym_cons_eq] at hy ⊢; cases hy; exact ⟨w', rfl, hok⟩
    · rw [lookupSym_cons_ne hyz] at hy ⊢; exact ViewRel.lookup hr y i hy

theorem ViewRel.mem {Γ : TyEnv} {σ : State V} {ρ : Sym → Nat} :
    ∀ {L : List (Sym × ArgInfo)} {cv : List (Sym × View)},
    ViewRel Γ σ ρ L cv → ∀ p ∈ cv, ∃ i, (p.1, i) ∈ L ∧ ArgOk Γ σ ρ i p.2
  | [], [], _, _, h => by cases h
  | [], _ :: _, h, _, _ => h.elim
  | _ :: _, [], h, _, _ => h.elim
  | (z, i') :: r, (z', w') :: r', h, p, hp => by
    obtain ⟨rfl, hok, hr⟩ := h
    cases hp with
    | head => exact ⟨i', List.mem_cons_self .., hok⟩
    | tail _ hm =>
      obtain ⟨i, hi, hok'⟩ := ViewRel.mem hr p hm
      exact ⟨i, List.mem_cons_of_mem _ hi, hok'⟩

/-- the substitution lemma: a substituted callee expression has, in the caller's state, the value
    the original has in the callee's initial state -/
theorem substE_sound {Γ : TyEnv} {σ σc : State V} {ρ : Sym → Nat} {θ : Subst}
    (hc : CtrlRel σ θ.ctrl σc.env) (hv : ViewRel Γ σ ρ θ.views σc.views) (hcfg : σc.cfg = σ.cfg) :
    ∀ (e e' : Expr) (v : Int), substE θ e = some e' → evalC σ e' = .ok v → evalC σc e = .ok v
  | .read y [], e', v, hs, he => by
    simp only [substE] at hs
    obtain ⟨v', hv', hl⟩ := hc.lookup y e' hs
    rw [he] at hv'; cases hv'
    simp only [evalC, hl]; rfl
  | .read y (_ :: _), _, _, hs, _ => by simp [substE] at hs
  | .lit (.int n), e', v, hs, he => by
    simp only [substE, Option.some.injEq] at hs; subst hs; exact he
  | .lit (.bool n), e', v, hs, he => by
    simp only [substE, Option.some.injEq] at hs; subst hs; exact he
  | .lit (.data _ _), _, _, hs, _ => by simp [substE] at hs
  | .usub a, e', v, hs, he => by
    simp only [substE] at hs
    cases ha : substE θ a with
    | none => rw [ha] at hs; cases hs
    | some a' =>
      rw [ha] at hs
      simp only [Option.map, Option.some.injEq] at hs
      subst hs
      simp only [evalC, bind, Except.bind] at he ⊢
      cases hx : evalC σ a' with
      | error _ => rw [hx] at he; cases he
      | ok x =>
        rw [hx] at he
        rw [substE_sound hc hv hcfg a a' x ha hx]
        exact he
  | .binop op a b, e', v, hs, he => by
    simp only [substE] at hs
    cases ha : substE θ a with
    | none => rw [ha] at hs; cases hs
    | some a' =>
      cases hb : substE θ b with
      | none => rw [ha, hb] at hs; cases hs
      | some b' =>
        rw [ha, hb] at hs
        simp only [Option.some.injEq] at hs
        subst hs
        obtain ⟨x, y, hx, hy, hop⟩ := evalC_binop_ok he
        exact evalC_binop_of (substE_sound hc hv hcfg a a' x ha hx)
          (substE_sound hc hv hcfg b b' y hb hy) hop
  | .stride y d, e', v, hs, he => by
    simp only [substE] at hs
    cases hy : lookupSym y θ.views with
    | none => rw [hy] at hs; cases hs
    | some info =>
      rw [hy] at hs
      simp only [] at hs
      cases hd : info.dimMap[d]? with
      | none => rw [hd] at hs; cases hs
      | some d' =>
        rw [hd] at hs
        simp only [Option.some.injEq] at hs
        subst hs
        obtain ⟨w, hw, hok⟩ := hv.lookup y info hy
        obtain ⟨e, hwd⟩ := hok.strides d d' v hd he
        simp only [evalC, hw, hwd]; rfl
  | .readcfg c f, e', v, hs, he => by
    simp only [substE, Option.some.injEq] at hs; subst hs
    simp only [evalC, hcfg] at he ⊢; exact he
  | .extern _ _, _, _, hs, _ => by simp [substE] at hs
  | .win _ _, _, _, hs, _ => by simp [substE] at hs

theorem substE_holds {Γ : TyEnv} {σ σc : State V} {ρ : Sym → Nat} {θ : Subst}
    (hc : CtrlRel σ θ.ctrl σc.env) (hv : ViewRel Γ σ ρ θ.views σc.views) (hcfg : σc.cfg = σ.cfg)
    {e e' : Expr} (hs : substE θ e = some e') (h : holds σ e') : holds σc e := by
  obtain ⟨v, hv', hne⟩ := h
  exact ⟨v, substE_sound hc hv hcfg e e' v hs hv', hne⟩

theorem factObs_ok {k : String} {P : List Expr} {θ : Subst} (σ : State V)
    (hP : ∀ f ∈ P, holds σ f) : ∀ (fs : List Expr), ObsOk (factObs k P θ fs) →
    ∀ f ∈ fs, ∃ f', substE θ f = some f' ∧ holds σ f'
  | [], _, f, hf => by cases hf
  | g :: r, ho, f, hf => by
    simp only [factObs, List.map_cons] at ho
    obtain ⟨h1, ho⟩ := ho.cons
    cases hf with
    | head =>
      cases hg : substE θ g with
      | none => rw [hg] at h1; exact (not_ok_wf_false h1).elim
      | some f' => rw [hg] at h1; exact ⟨f', rfl, mkVC_use h1 σ hP⟩
    | tail _ hm => exact factObs_ok σ hP r ho f hm

/-! ### `bindArgs` -/

theorem callArgs_ctrl_lookup {Γ : TyEnv} {P : List Expr} {y : Sym} :
    ∀ (fs : List FnArg) (as : List Expr) (θ θ' : Subst) (obs : List Ob),
    callArgs Γ P fs as θ = some (obs, θ') → (argNames fs).contains y = false →
    lookupSym y θ'.ctrl = lookupSym y θ.ctrl
  | [], [], θ, θ', obs, h, _ => by
    simp only [callArgs, Option.some.injEq, Prod.mk.injEq] at h; rw [← h.2]
  | [], _ :: _, _, _, _, h, _ => by simp [callArgs] at h
  | ⟨z, .ctrl k⟩ :: fs, [], _, _, _, h, _ => by simp [callArgs] at h
  | ⟨z, .scalar⟩ :: fs, [], _, _, _, h, _ => by simp [callArgs] at h
  | ⟨z, .tensor _ _⟩ :: fs, [], _, _, _, h, _ => by simp [callArgs] at h
  | ⟨z, .ctrl k⟩ :: fs, a :: as, θ, θ', obs, h, hn => by
    simp only [callArgs] at h
    simp only [argNames, List.contains_cons, Bool.or_eq_false_iff, beq_eq_false_iff_ne] at hn
    rw [callArgs_ctrl_lookup fs as _ θ' obs h hn.2]
    exact lookupSym_cons_ne hn.1 _ _
  | ⟨z, .scalar⟩ :: fs, a :: as, θ, θ', obs, h, hn => by
    simp only [callArgs] at h
    simp only [argNames, List.contains_cons, Bool.or_eq_false_iff] at hn
    cases hi : argInfo Γ P a with
    | none => rw [hi] at h; cases h
    | some info =>
      rw [hi] at h
      simp only [] at h
      cases hr : callArgs Γ P fs as { θ with views := (z, info) :: θ.views } with
      | none => rw [hr] at h; cases h
      | some pr =>
        obtain ⟨obs2, θ2⟩ := pr
        rw [hr] at h
        simp only [Option.some.injEq, Prod.mk.injEq] at h
        rw [← h.2]
        have := callArgs_ctrl_lookup fs as _ θ2 obs2 hr hn.2
        exact this
  | ⟨z, .tensor _ _⟩ :: fs, a :: as, θ, θ', obs, h, hn => by
    simp only [callArgs] at h
    simp only [argNames, List.contains_cons, Bool.or_eq_false_iff] at hn
    cases hi : argInfo Γ P a with
    | none => rw [hi] at h; cases h
    | some info =>
      rw [hi] at h
      simp only [] at h
      cases hr : callArgs Γ P fs as { θ with views := (z, info) :: θ.views } with
      | none => rw [hr] at h; cases h
      | some pr =>
        obtain ⟨obs2, θ2⟩ := pr
        rw [hr] at h
        simp only [Option.some.injEq, Prod.mk.injEq] at h
        rw [← h.2]
        have := callArgs_ctrl_lookup fs as _ θ2 obs2 hr hn.2
        exact this

/-- the step of `bindArgs` for a numeric formal -/
theorem bindArgs_view (σ : State V) (z : Sym) (ty : ArgTy) (hty : ∀ k, ty ≠ .ctrl k)
    (fs : List FnArg) (a : Expr) (as : List Expr) (ce : List (Sym × Int)) (cv : List (Sym × View)) :
    bindArgs σ (⟨z, ty⟩ :: fs) (a :: as) ce cv =
      (evalView σ a >>= fun v => bindArgs σ fs as ce ((z, v) :: cv)) := by
  cases ty with
  | ctrl k => exact (hty k rfl).elim
  | scalar => simp only [bindArgs]
  | tensor _ _ => simp only [bindArgs]

section
variable {Γ : TyEnv} {P : List Expr} {σ : State V} {ρ : Sym → Nat}

/-- valid call-site conditions: `bindArgs` trips no monitor, and its result is related to the
    argument substitution -/
theorem bindArgs_ok (h : Inv Γ P σ) (hρ : BufsOk Γ σ ρ) (θ' : Subst) :
    ∀ (fs : List FnArg) (as : List Expr) (θ : Subst) (obs : List Ob)
      (ce : List (Sym × Int)) (cv : List (Sym × View)),
    callArgs Γ P fs as θ = some (obs, θ') → ObsOk obs → nodupB (argNames fs) = true →
    (∀ f ∈ sizeFacts fs, ∃ f', substE θ' f = some f' ∧ holds σ f') →
    CtrlRel σ θ.ctrl ce → ViewRel Γ σ ρ θ.views cv →
    NoBad (bindArgs σ fs as ce cv) ∧
    ∀ ce' cv', bindArgs σ fs as ce cv = .ok (ce', cv') →
      CtrlRel σ θ'.ctrl ce' ∧ ViewRel Γ σ ρ θ'.views cv'
  | [], [], θ, obs, ce, cv, hca, _, _, _, hc, hv => by
    simp only [callArgs, Option.some.injEq, Prod.mk.injEq] at hca
    obtain ⟨_, rfl⟩ := hca
    refine ⟨NoBad.ok _, fun ce' cv' hb => ?_⟩
    simp only [bindArgs, pure, Except.pure, Except.ok.injEq, Prod.mk.injEq] at hb
    obtain ⟨rfl, rfl⟩ := hb
    exact ⟨hc, hv⟩
  | [], _ :: _, _, _, _, _, hca, _, _, _, _, _ => by simp [callArgs] at hca
  | ⟨z, .ctrl k⟩ :: fs, [], _, _, _, _, hca, _, _, _, _, _ => by simp [callArgs] at hca
  | ⟨z, .scalar⟩ :: fs, [], _, _, _, _, hca, _, _, _, _, _ => by simp [callArgs] at hca
  | ⟨z, .tensor _ _⟩ :: fs, [], _, _, _, _, hca, _, _, _, _, _ => by simp [callArgs] at hca
  | ⟨z, .ctrl k⟩ :: fs, a :: as, θ, obs, ce, cv, hca, ho, hnd, hsz, hc, hv => by
    simp only [callArgs] at hca
    simp only [argNames, nodupB, Bool.and_eq_true, Bool.not_eq_true'] at hnd
    have hlook := callArgs_ctrl_lookup fs as _ θ' obs hca hnd.1
    rw [lookupSym_cons_eq] at hlook
    simp only [bindArgs]
    -- the actual evaluates or fails with a harmless error
    cases hev : evalC σ a with
    | error e =>
      refine ⟨fun e' he' => ?_, fun ce' cv' hb => ?_⟩
      · simp only [bind, Except.bind] at he'; cases he'; exact evalC_noBad σ a e hev
      · simp only [bind, Except.bind] at hb; cases hb
    | ok v =>
      have hpos : ¬ (k = .size ∧ v ≤ 0) := by
        rintro ⟨rfl, hle⟩
        obtain ⟨f', hf', hh⟩ := hsz _ (by simp only [sizeFacts]; exact List.mem_cons_self ..)
        simp only [eLt, eInt, eVar, substE, hlook, Option.some.injEq] at hf'
        subst hf'
        obtain ⟨y, hy, hy0⟩ := holds_zero_lt.1 hh
        rw [hev] at hy; cases hy
        omega
      have hsz' : ∀ f ∈ sizeFacts fs, ∃ f', substE θ' f = some f' ∧ holds σ f' := by
        intro f hf
        cases k <;> first
          | exact hsz f (by simp only [sizeFacts]; exact List.mem_cons_of_mem _ hf)
          | exact hsz f (by simpa only [sizeFacts] using hf)
      have ih := bindArgs_ok h hρ θ' fs as _ obs ((z, v) :: ce) cv hca ho hnd.2 hsz'
        ⟨rfl, hev, hc⟩ hv
      simp only [bind, Except.bind]
      rw [if_neg hpos]
      exact ih
  | ⟨z, .scalar⟩ :: fs, a :: as, θ, obs, ce, cv, hca, ho, hnd, hsz, hc, hv => by
    simp only [callArgs] at hca
    simp only [argNames, nodupB, Bool.and_eq_true, Bool.not_eq_true'] at hnd
    cases hi : argInfo Γ P a with
    | none => rw [hi] at hca; cases hca
    | some info =>
      rw [hi] at hca
      simp only [] at hca
      cases hr : callArgs Γ P fs as { θ with views := (z, info) :: θ.views } with
      | none => rw [hr] at hca; cases hca
      | some pr =>
        obtain ⟨obs2, θ2⟩ := pr
        rw [hr] at hca
        simp only [Option.some.injEq, Prod.mk.injEq] at hca
        obtain ⟨rfl, rfl⟩ := hca
        obtain ⟨vw, hvw, hok⟩ := argInfo_ok h hρ hi ho.append.1
        rw [bindArgs_view σ z .scalar (fun k hk => by cases hk)]
        simp only [hvw, bind, Except.bind]
        exact bindArgs_ok h hρ θ2 fs as _ obs2 ce ((z, vw) :: cv) hr ho.append.2 hnd.2
          (by simpa only [sizeFacts] using hsz) hc ⟨rfl, hok, hv⟩
  | ⟨z, .tensor sh w⟩ :: fs, a :: as, θ, obs, ce, cv, hca, ho, hnd, hsz, hc, hv => by
    simp only [callArgs] at hca
    simp only [argNames, nodupB, Bool.and_eq_true, Bool.not_eq_true'] at hnd
    cases hi : argInfo Γ P a with
    | none => rw [hi] at hca; cases hca
    | some info =>
      rw [hi] at hca
      simp only [] at hca
      cases hr : callArgs Γ P fs as { θ with views := (z, info) :: θ.views } with
      | none => rw [hr] at hca; cases hca
      | some pr =>
        obtain ⟨obs2, θ2⟩ := pr
        rw [hr] at hca
        simp only [Option.some.injEq, Prod.mk.injEq] at hca
        obtain ⟨rfl, rfl⟩ := hca
        obtain ⟨vw, hvw, hok⟩ := argInfo_ok h hρ hi ho.append.1
        rw [bindArgs_view σ z (.tensor sh w) (fun k hk => by cases hk)]
        simp only [hvw, bind, Except.bind]
        exact bindArgs_ok h hρ θ2 fs as _ obs2 ce ((z, vw) :: cv) hr ho.append.2 hnd.2
          (by simpa only [sizeFacts] using hsz) hc ⟨rfl, hok, hv⟩

end

/-! ### aliasing -/

theorem nodupB_cons {x : Sym} {r : List Sym} (h : nodupB (x :: r) = true) :
    (∀ y ∈ r, y ≠ x) ∧ nodupB r = true := by
  simp only [nodupB, Bool.and_eq_true, Bool.not_eq_true'] at h
  refine ⟨fun y hy hxy => ?_, h.2⟩
  subst hxy
  have := h.1
  simp only [List.contains_eq_mem, decide_eq_false_iff_not] at this
  exact this hy

theorem rootsOf_mem : ∀ {L : List (Sym × ArgInfo)} {z : Sym} {i : ArgInfo},
    (z, i) ∈ L → i.ty.root ∈ rootsOf L
  | [], _, _, h => by cases h
  | (z', i') :: r, z, i, h => by
    cases h with
    | head => exact List.mem_cons_self ..
    | tail _ hm => exact List.mem_cons_of_mem _ (rootsOf_mem hm)

theorem noAlias_of {Γ : TyEnv} {σ : State V} {ρ : Sym → Nat} (hρ : BufsOk Γ σ ρ) :
    ∀ {L : List (Sym × ArgInfo)} {cv : List (Sym × View)}, ViewRel Γ σ ρ L cv →
    nodupB (rootsOf L) = true → noAlias cv = true
  | [], [], _, _ => rfl
  | [], _ :: _, h, _ => h.elim
  | _ :: _, [], h, _ => h.elim
  | (z, i) :: r, (z', w) :: r', h, hn => by
    obtain ⟨rfl, hok, hr⟩ := h
    simp only [rootsOf] at hn
    obtain ⟨hne, hn'⟩ := nodupB_cons hn
    simp only [noAlias, Bool.and_eq_true, List.all_eq_true, decide_eq_true_eq]
    refine ⟨fun p hp hb => ?_, noAlias_of hρ hr hn'⟩
    obtain ⟨i', hi', hok'⟩ := ViewRel.mem hr p hp
    obtain ⟨t, ht, hrt⟩ := hok.rootOf
    obtain ⟨t', ht', hrt'⟩ := hok'.rootOf
    have : ρ t'.root = ρ t.root := by rw [← hrt, ← hrt', ← hok.root, ← hok'.root, hb]
    have := hρ.inj _ _ _ _ ht' ht this
    exact hne _ (rootsOf_mem hi') (by rw [hrt, hrt', this])

/-! ### shapes and assertions -/

theorem eqObs_ok {Γ : TyEnv} {σ σc : State V} {ρ : Sym → Nat} {θ : Subst} {P : List Expr}
    (hP : ∀ f ∈ P, holds σ f)
    (hc : CtrlRel σ θ.ctrl σc.env) (hv : ViewRel Γ σ ρ θ.views σc.views) (hcfg : σc.cfg = σ.cfg) :
    ∀ (as ss : List Expr) (vs : List Int), ObsOk (eqObs P θ as ss) → evalCs σ as = .ok vs →
      evalCs σc ss = .ok vs
  | [], [], vs, _, h => by rw [evalCs_nil_ok h]; rfl
  | [], _ :: _, _, ho, _ => (not_ok_wf_false (ho _ (List.mem_cons_self ..))).elim
  | _ :: _, [], _, ho, _ => (not_ok_wf_false (ho _ (List.mem_cons_self ..))).elim
  | a :: as, s :: ss, vs, ho, h => by
    simp only [eqObs] at ho
    obtain ⟨h1, ho⟩ := ho.cons
    obtain ⟨x, ys, ha, has, rfl⟩ := evalCs_cons_ok h
    cases hs : substE θ s with
    | none => rw [hs] at h1; exact (not_ok_wf_false h1).elim
    | some s' =>
      rw [hs] at h1
      obtain ⟨x', hx', hs'⟩ := holds_eq.1 (mkVC_use h1 σ hP)
      rw [ha] at hx'; cases hx'
      exact evalCs_cons_of (substE_sound hc hv hcfg s s' x hs hs')
        (eqObs_ok hP hc hv hcfg as ss ys ho has)

theorem checkShapes_ok {Γ : TyEnv} {σ σc : State V} {ρ : Sym → Nat} {θ : Subst} {P : List Expr}
    (hP : ∀ f ∈ P, holds σ f)
    (hc : CtrlRel σ θ.ctrl σc.env) (hv : ViewRel Γ σ ρ θ.views σc.views) (hcfg : σc.cfg = σ.cfg) :
    ∀ (fs : List FnArg), ObsOk (shapeObs P θ fs) → checkShapes σc fs = .ok ()
  | [], _ => rfl
  | ⟨x, .ctrl k⟩ :: fs, ho => by
    simp only [shapeObs] at ho
    simp only [checkShapes]
    exact checkShapes_ok hP hc hv hcfg fs ho
  | ⟨x, .scalar⟩ :: fs, ho => by
    simp only [shapeObs] at ho
    obtain ⟨h1, ho⟩ := ho.append
    simp only [checkShapes]
    cases hx : lookupSym x θ.views with
    | none => rw [hx] at h1; exact (not_ok_wf_false (h1 _ (List.mem_cons_self ..))).elim
    | some info =>
      rw [hx] at h1
      obtain ⟨w, hw, hok⟩ := hv.lookup x info hx
      have hemp : info.ty.shape.isEmpty = true := h1 _ (List.mem_cons_self ..)
      have hnil : info.ty.shape = [] := by simpa using hemp
      have := hok.shape
      rw [hnil] at this
      have hd := evalCs_nil_ok this
      have hd' : w.dims = [] := by simpa using hd
      rw [hw]
      simp only [hd', if_true]
      exact checkShapes_ok hP hc hv hcfg fs ho
  | ⟨x, .tensor shape iw⟩ :: fs, ho => by
    simp only [shapeObs] at ho
    obtain ⟨h1, ho⟩ := ho.append
    simp only [checkShapes]
    cases hx : lookupSym x θ.views with
    | none => rw [hx] at h1; exact (not_ok_wf_false (h1 _ (List.mem_cons_self ..))).elim
    | some info =>
      rw [hx] at h1
      obtain ⟨w, hw, hok⟩ := hv.lookup x info hx
      have := eqObs_ok hP hc hv hcfg info.ty.shape shape _ h1.append.1 hok.shape
      simp only [this, hw, bind, Except.bind, if_true]
      exact checkShapes_ok hP hc hv hcfg fs ho

theorem checkPreds_ok {σ : State V} : ∀ (ps : List Expr), (∀ p ∈ ps, holds σ p) →
    checkPreds σ ps = .ok ()
  | [], _ => rfl
  | p :: r, h => by
    obtain ⟨v, hv, hne⟩ := h p (List.mem_cons_self ..)
    simp only [checkPreds, hv, bind, Except.bind]
    rw [if_neg hne]
    exact checkPreds_ok r (fun q hq => h q (List.mem_cons_of_mem _ hq))

theorem holds_of_checkPreds {σ : State V} : ∀ (ps : List Expr), checkPreds σ ps = .ok () →
    ∀ p ∈ ps, holds σ p
  | [], _, _, hp => by cases hp
  | q :: r, h, p, hp => by
    simp only [checkPreds, bind, Except.bind] at h
    cases hq : evalC σ q with
    | error _ => rw [hq] at h; cases h
    | ok v =>
      rw [hq] at h
      simp only [] at h
      split at h
      · cases h
      · rename_i hne
        cases hp with
        | head => exact ⟨v, hq, hne⟩
        | tail _ hm => exact holds_of_checkPreds r h p hm

/-! ### the call -/

/-- the call-site conditions of `genS (.call f args)` without the callee's own conditions -/
def callSiteObs (Γ : TyEnv) (P : List Expr) (fargs : List FnArg) (preds : List Expr)
    (args : List Expr) : List Ob :=
  match callArgs Γ P fargs args ⟨[], []⟩ with
  | none => [.wf "call: arguments do not match the signature" false]
  | some (obs, θ) =>
      obs ++
      mkVC "call-alias" P (eBool (nodupB (rootsOf θ.views))) ::
      shapeObs P θ fargs ++
      factObs "call-size" P θ (sizeFacts fargs) ++
      factObs "call-assert" P θ preds ++
      factObs "call-dense" P θ (denseArgFacts fargs)

/-- valid call-site conditions: binding the arguments and the callee's entry checks trip no
    monitor, and the callee starts in a state satisfying its entry condition -/
theorem call_entry [DataAlg V] (ext : String → List V → V) {Γ : TyEnv} {P : List Expr}
    {σ : State V} (h : Inv Γ P σ) (nm : String) (fargs : List FnArg) (preds : List Expr)
    (body : List Stmt) (args : List Expr)
    (ho : ObsOk (callSiteObs Γ P fargs preds args)) (hnd : nodupB (argNames fargs) = true)
    (ih : ∀ σc : State V, EntryOk (.mk nm fargs preds body) σc → NoBad (execL ext body σc)) :
    NoBad (execP ext (.mk nm fargs preds body) args σ) := by
  unfold callSiteObs at ho
  cases hca : callArgs Γ P fargs args ⟨[], []⟩ with
  | none => rw [hca] at ho; exact (not_ok_wf_false (ho _ (List.mem_cons_self ..))).elim
  | some pr =>
    obtain ⟨obs, θ⟩ := pr
    rw [hca] at ho
    simp only [List.append_assoc, List.cons_append] at ho
    obtain ⟨hobs, ho⟩ := ho.append
    obtain ⟨halias, ho⟩ := ho.cons
    obtain ⟨hshape, ho⟩ := ho.append
    obtain ⟨hsize, ho⟩ := ho.append
    obtain ⟨hassert, hdense⟩ := ho.append
    obtain ⟨ρ, hρ⟩ := h.bufs
    have hsz := factObs_ok σ h.facts _ hsize
    obtain ⟨hnb, hres⟩ := bindArgs_ok h hρ θ fargs args ⟨[], []⟩ obs [] [] hca hobs hnd hsz
      trivial trivial
    simp only [execP]
    refine NoBad.bind hnb (fun pr hpr => ?_)
    obtain ⟨ce, cv⟩ := pr
    obtain ⟨hc, hv⟩ := hres ce cv hpr
    have hna : noAlias cv = true := noAlias_of hρ hv (holds_bool.1 (mkVC_use halias σ h.facts))
    simp only [hna, Bool.not_true, Bool.false_eq_true, if_false]
    let σc : State V := { env := ce, views := cv, heap := σ.heap, cfg := σ.cfg }
    have hc' : CtrlRel σ θ.ctrl σc.env := hc
    have hv' : ViewRel Γ σ ρ θ.views σc.views := hv
    have hcs : checkShapes σc fargs = .ok () := checkShapes_ok h.facts hc' hv' rfl fargs hshape
    have hfacts : ∀ (k : String) (fs : List Expr), ObsOk (factObs k P θ fs) →
        ∀ f ∈ fs, holds σc f := by
      intro k fs hk f hf
      obtain ⟨f', hf', hh⟩ := factObs_ok σ h.facts fs hk f hf
      exact substE_holds hc' hv' rfl hf' hh
    have hcp : checkPreds σc preds = .ok () := checkPreds_ok preds (hfacts _ _ hassert)
    have hentry : EntryOk (.mk nm fargs preds body) σc := by
      refine ⟨fun f hf => ?_, hcs, hna, fun x v hx => ?_⟩
      · simp only [Proc.args, Proc.preds, entryFacts, List.mem_append] at hf
        rcases hf with (hf | hf) | hf
        · exact hfacts _ _ hsize f hf
        · exact hfacts _ _ hassert f hf
        · exact hfacts _ _ hdense f hf
      · obtain ⟨i, _, hok⟩ := ViewRel.mem hv (x, v) (lookupSym_mem hx)
        exact ⟨hok.buf, hok.inBuf⟩
    show NoBad (checkShapes σc fargs >>= fun _ => checkPreds σc preds >>= fun _ =>
      execL ext body σc >>= fun σ' => pure (State.leave σ σ'))
    rw [hcs, hcp]
    exact NoBad.bind (NoBad.ok _) (fun _ _ => NoBad.bind (NoBad.ok _) (fun _ _ =>
      NoBad.bind (ih σc hentry) (fun _ _ => NoBad.ok _)))

end Exo.VCGen
