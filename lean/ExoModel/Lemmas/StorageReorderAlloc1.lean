/-
  `reorder_stmts` when one of the two statements is an allocation, part 1: the FRAME LEMMA used by
  StorageReorderAlloc.lean (moving an allocation DOWN over a statement).

  `Stg.execS_untouched / execL_untouched / execP_untouched` (full statement language, calls
  included): a statement that mentions no name of `X`, run in a state in which every view onto
  buffer `N` is bound to a name of `X` (`Stg.Hidden N X`), leaves buffer `N` exactly as it was and
  keeps the invariant.
  * `assign`/`reduce` write through a view looked up under a mentioned name (`Hidden.lookup`);
  * `window` / call arguments denote views whose buffer is that of a view bound to a mentioned name
    (`evalView_buf_names`, `bindArgs_hidden`); the callee body runs with `X := fun _ => False`;
  * `alloc` appends; leaving a scope is `take` with more than `N` buffers kept (`leave_kept`).
-/
import ExoModel.Lemmas.StorageAlloc3
import ExoModel.DataLaws

set_option linter.unusedSectionVars false
set_option linter.unusedVariables false
namespace Exo.Stg
open Exo
variable {V : Type}

/-! ### the frame lemma -/

/-- every view onto buffer `N` is bound to a name of `X` -/
def Hidden (N : Nat) (X : Sym → Prop) (s : State V) : Prop :=
  ∀ p ∈ s.views, p.2.buf = N → X p.1

theorem Hidden.lookup {N : Nat} {X : Sym → Prop} {s : State V} (h : Hidden N X s) {y : Sym}
    {v : View} (hl : lookupSym y s.views = some v) (hy : ¬ X y) : v.buf ≠ N :=
  fun e => hy (h (y, v) (lookupSym_mem hl) e)

theorem Hidden.of_views {N : Nat} {X : Sym → Prop} {s t : State V} (h : Hidden N X s)
    (hv : t.views = s.views) : Hidden N X t := by
  intro p hp
  rw [hv] at hp
  exact h p hp

theorem heapSet_other (h : List (List (Option V))) (c : Nat × Nat) (v : Option V) {N : Nat}
    (hc : c.1 ≠ N) : (heapSet h c v)[N]? = h[N]? := by
  simp [heapSet, hc]

theorem cellOf_fst {heap : List (List (Option V))} {v : View} {is : List Int} {c : Nat × Nat}
    (h : cellOf heap v is = .ok c) : c.1 = v.buf := by
  unfold cellOf at h
  simp only [bind, Except.bind] at h
  split at h
  · cases h
  · split at h
    · cases h
    · split at h
      · simp only [pure, Except.pure, Except.ok.injEq] at h
        subst h
        rfl
      · cases h

theorem writeCell_untouched {s t : State V} {x : Sym} {idx : List Expr} {f : Option V → Option V}
    {N : Nat} (h : writeCell s x idx f = .ok t)
    (hb : ∀ v, lookupSym x s.views = some v → v.buf ≠ N) :
    t.heap[N]? = s.heap[N]? ∧ t.views = s.views := by
  unfold writeCell at h
  split at h
  · rename_i v hl
    simp only [bind, Except.bind] at h
    split at h
    · cases h
    · split at h
      · cases h
      · rename_i c hc
        simp only [pure, Except.pure, Except.ok.injEq] at h
        subst h
        exact ⟨heapSet_other _ _ _ (by rw [cellOf_fst hc]; exact hb v hl), rfl⟩
  · cases h

/-- `evalView_buf` with the name: the buffer of the denoted view is the buffer of the view bound to
    a name that occurs in the expression -/
theorem evalView_buf_names {s : State V} {e : Expr} {v : View} (h : evalView s e = .ok v) :
    ∃ z w, z ∈ e.names ∧ lookupSym z s.views = some w ∧ v.buf = w.buf := by
  cases e with
  | read x idx =>
    cases idx with
    | nil =>
      simp only [evalView] at h
      cases hl : lookupSym x s.views with
      | none => rw [hl] at h; cases h
      | some w =>
        rw [hl] at h
        simp only [pure, Except.pure, Except.ok.injEq] at h
        subst h
        exact ⟨x, w, by simp [Expr.names], hl, rfl⟩
    | cons i r =>
      simp only [evalView] at h
      cases hl : lookupSym x s.views with
      | none => rw [hl] at h; cases h
      | some w =>
        rw [hl] at h
        simp only [bind, Except.bind] at h
        cases h1 : evalCs s (i :: r) with
        | error e => rw [h1] at h; cases h
        | ok is =>
          rw [h1] at h
          simp only [] at h
          cases h2 : viewOffset w.dims is w.off with
          | error e => rw [h2] at h; cases h
          | ok o =>
            rw [h2] at h
            simp only [pure, Except.pure, Except.ok.injEq] at h
            subst h
            exact ⟨x, w, by simp [Expr.names], hl, rfl⟩
  | win x acc =>
    simp only [evalView] at h
    cases hl : lookupSym x s.views with
    | none => rw [hl] at h; cases h
    | some w =>
      rw [hl] at h
      simp only [bind, Except.bind] at h
      cases h1 : applyAcc s acc w.dims w.off with
      | error e => rw [h1] at h; cases h
      | ok od =>
        rw [h1] at h
        simp only [pure, Except.pure, Except.ok.injEq] at h
        subst h
        exact ⟨x, w, by simp [Expr.names], hl, rfl⟩
  | lit _ => simp [evalView] at h
  | usub _ => simp [evalView] at h
  | binop _ _ _ => simp [evalView] at h
  | extern _ _ => simp [evalView] at h
  | stride _ _ => simp [evalView] at h
  | readcfg _ _ => simp [evalView] at h

theorem Hidden.evalView {N : Nat} {X : Sym → Prop} {s : State V} (hh : Hidden N X s) {e : Expr}
    {v : View} (h : evalView s e = .ok v) (hn : ∀ y ∈ e.names, ¬ X y) : v.buf ≠ N := by
  obtain ⟨z, w, hz, hl, hb⟩ := evalView_buf_names h
  rw [hb]
  exact hh.lookup hl (hn z hz)

/-- the views a call binds its tensor/scalar formals to do not point to buffer `N` -/
theorem bindArgs_hidden {N : Nat} {X : Sym → Prop} {s : State V} (hh : Hidden N X s) :
    ∀ (fs : List FnArg) (as : List Expr) (ce : List (Sym × Int)) (cv : List (Sym × View))
      (r : List (Sym × Int) × List (Sym × View)), (∀ y ∈ namesEs as, ¬ X y) →
      (∀ p ∈ cv, p.2.buf ≠ N) → bindArgs s fs as ce cv = .ok r → ∀ p ∈ r.2, p.2.buf ≠ N
  | [], [], _, _, r, _, hcv, h => by
    simp only [bindArgs, pure, Except.pure, Except.ok.injEq] at h
    subst h
    exact hcv
  | [], _ :: _, _, _, _, _, _, h => by simp [bindArgs, throw, throwThe, MonadExceptOf.throw] at h
  | ⟨_, .ctrl _⟩ :: _, [], _, _, _, _, _, h => by
    simp [bindArgs, throw, throwThe, MonadExceptOf.throw] at h
  | ⟨_, .scalar⟩ :: _, [], _, _, _, _, _, h => by
    simp [bindArgs, throw, throwThe, MonadExceptOf.throw] at h
  | ⟨_, .tensor _ _⟩ :: _, [], _, _, _, _, _, h => by
    simp [bindArgs, throw, throwThe, MonadExceptOf.throw] at h
  | ⟨x, .ctrl kd⟩ :: fs, a :: as, ce, cv, r, hn, hcv, h => by
    simp only [bindArgs, bind, Except.bind] at h
    split at h
    · cases h
    · split at h
      · cases h
      · exact bindArgs_hidden hh fs as _ cv r (fun y hy => hn y (by simp [namesEs, hy])) hcv h
  | ⟨x, .scalar⟩ :: fs, a :: as, ce, cv, r, hn, hcv, h => by
    simp only [bindArgs, bind, Except.bind] at h
    split at h
    · cases h
    · rename_i v hv
      refine bindArgs_hidden hh fs as ce ((x, v) :: cv) r
        (fun y hy => hn y (by simp [namesEs, hy])) (fun p hp => ?_) h
      rcases List.mem_cons.1 hp with rfl | hp
      · exact hh.evalView hv (fun y hy => hn y (by simp [namesEs, hy]))
      · exact hcv p hp
  | ⟨x, .tensor _ _⟩ :: fs, a :: as, ce, cv, r, hn, hcv, h => by
    simp only [bindArgs, bind, Except.bind] at h
    split at h
    · cases h
    · rename_i v hv
      refine bindArgs_hidden hh fs as ce ((x, v) :: cv) r
        (fun y hy => hn y (by simp [namesEs, hy])) (fun p hp => ?_) h
      rcases List.mem_cons.1 hp with rfl | hp
      · exact hh.evalView hv (fun y hy => hn y (by simp [namesEs, hy]))
      · exact hcv p hp

theorem iterate_inv (I : State V → Prop) (f : Int → State V → Except Err (State V))
    (hf : ∀ v s s', I s → f v s = .ok s' → I s') :
    ∀ (n : Nat) (lo : Int) (σ σ' : State V), I σ → iterate f n lo σ = .ok σ' → I σ'
  | 0, _, σ, σ', hi, h => by
    simp only [iterate, pure, Except.pure, Except.ok.injEq] at h
    subst h
    exact hi
  | n + 1, lo, σ, σ', hi, h => by
    simp only [iterate, bind, Except.bind] at h
    cases h1 : f lo σ with
    | error e => rw [h1] at h; cases h
    | ok s =>
      rw [h1] at h
      exact iterate_inv I f hf n (lo + 1) s σ' (hf _ _ _ hi h1) h

/-- leaving a scope entered in `s` (with buffer `N` already there) keeps buffer `N` -/
theorem leave_kept {N : Nat} {X : Sym → Prop} {s t2 : State V} {h0 : Option (List (Option V))}
    (hN : N < s.heap.length) (hh : Hidden N X s) (h2 : t2.heap[N]? = h0) :
    (State.leave s t2).heap[N]? = h0 ∧ Hidden N X (State.leave s t2) := by
  refine ⟨?_, hh⟩
  show (t2.heap.take s.heap.length)[N]? = h0
  rw [List.getElem?_take, if_pos hN]
  exact h2

section
variable [DataAlg V] (ext : String → List V → V)

mutual
/-- **frame lemma**: a statement that mentions no name of `X`, run in a state in which the views
    onto buffer `N` are all bound to names of `X`, leaves buffer `N` exactly as it was (and keeps
    the invariant).  Calls included: the callee sees only views built from mentioned names. -/
theorem execS_untouched : ∀ (a : Stmt) (N : Nat) (X : Sym → Prop) (s t : State V),
    (∀ y ∈ a.names, ¬ X y) → Hidden N X s → N < s.heap.length →
    execS ext a s = .ok t → t.heap[N]? = s.heap[N]? ∧ Hidden N X t
  | .assign x idx rhs, N, X, s, t, hn, hh, hN, h => by
    simp only [execS, bind, Except.bind] at h
    split at h
    · cases h
    · have := writeCell_untouched h (fun v hl => hh.lookup hl (hn x (by simp [Stmt.names])))
      exact ⟨this.1, hh.of_views this.2⟩
  | .reduce x idx rhs, N, X, s, t, hn, hh, hN, h => by
    simp only [execS, bind, Except.bind] at h
    split at h
    · cases h
    · have := writeCell_untouched h (fun v hl => hh.lookup hl (hn x (by simp [Stmt.names])))
      exact ⟨this.1, hh.of_views this.2⟩
  | .writecfg c f rhs isData, N, X, s, t, hn, hh, hN, h => by
    simp only [execS, bind, Except.bind] at h
    split at h
    · split at h
      · cases h
      · cases h; exact ⟨rfl, hh⟩
    · split at h
      · cases h
      · cases h; exact ⟨rfl, hh⟩
  | .pass, N, X, s, t, hn, hh, hN, h => by
    simp only [execS, pure, Except.pure, Except.ok.injEq] at h
    subst h
    exact ⟨rfl, hh⟩
  | .free _, N, X, s, t, hn, hh, hN, h => by
    simp only [execS, pure, Except.pure, Except.ok.injEq] at h
    subst h
    exact ⟨rfl, hh⟩
  | .ite c tb eb, N, X, s, t, hn, hh, hN, h => by
    simp only [execS, bind, Except.bind] at h
    split at h
    · cases h
    · split at h
      · obtain ⟨s2, h2, rfl⟩ := map_leave_ok h
        have k := execL_untouched tb N X s s2 (fun y hy => hn y (by simp [Stmt.names, hy])) hh hN h2
        exact leave_kept hN hh k.1
      · obtain ⟨s2, h2, rfl⟩ := map_leave_ok h
        have k := execL_untouched eb N X s s2 (fun y hy => hn y (by simp [Stmt.names, hy])) hh hN h2
        exact leave_kept hN hh k.1
  | .loop i lo hi body par, N, X, s, t, hn, hh, hN, h => by
    simp only [execS, bind, Except.bind] at h
    split at h
    · cases h
    · split at h
      · cases h
      · split at h
        · cases h
        · have := iterate_inv
            (fun a => a.heap[N]? = s.heap[N]? ∧ Hidden N X a ∧ N < a.heap.length) _
            (fun v a a' ha hs => by
              obtain ⟨s2, h2, rfl⟩ := map_leave_ok hs
              have k := execL_untouched body N X (a.bind i v) s2
                (fun y hy => hn y (by simp [Stmt.names, hy])) ha.2.1 ha.2.2 h2
              have l := leave_kept (X := X) ha.2.2 ha.2.1 (k.1.trans ha.1)
              refine ⟨l.1, l.2, ?_⟩
              rw [leave_heap_length a s2 (execL_scope ext body _ s2 h2).2.1]
              exact ha.2.2) _ _ _ _ ⟨rfl, hh, hN⟩ h
          exact ⟨this.1, this.2.1⟩
  | .alloc x shape, N, X, s, t, hn, hh, hN, h => by
    simp only [execS, bind, Except.bind] at h
    split at h
    · cases h
    · split at h
      · cases h
      · cases h
        refine ⟨List.getElem?_append_left hN, ?_⟩
        intro p hp hb
        rcases List.mem_cons.1 hp with rfl | hp
        · simp only at hb; omega
        · exact hh p hp hb
  | .call f args, N, X, s, t, hn, hh, hN, h => by
    simp only [execS] at h
    exact execP_untouched f args N X s t (fun y hy => hn y (by simpa [Stmt.names] using hy)) hh hN h
  | .window x rhs, N, X, s, t, hn, hh, hN, h => by
    simp only [execS, bind, Except.bind] at h
    split at h
    · cases h
    · rename_i v hv
      cases h
      refine ⟨rfl, ?_⟩
      intro p hp hb
      rcases List.mem_cons.1 hp with rfl | hp
      · exact absurd hb (hh.evalView hv (fun y hy => hn y (by simp [Stmt.names, hy])))
      · exact hh p hp hb
theorem execL_untouched : ∀ (ss : List Stmt) (N : Nat) (X : Sym → Prop) (s t : State V),
    (∀ y ∈ namesL ss, ¬ X y) → Hidden N X s → N < s.heap.length →
    execL ext ss s = .ok t → t.heap[N]? = s.heap[N]? ∧ Hidden N X t
  | [], N, X, s, t, hn, hh, hN, h => by
    simp only [execL, pure, Except.pure, Except.ok.injEq] at h
    subst h
    exact ⟨rfl, hh⟩
  | a :: r, N, X, s, t, hn, hh, hN, h => by
    simp only [execL, bind, Except.bind] at h
    cases h1 : execS ext a s with
    | error e => rw [h1] at h; cases h
    | ok s1 =>
      rw [h1] at h
      have k1 := execS_untouched a N X s s1 (fun y hy => hn y (by simp [namesL, hy])) hh hN h1
      have l1 := (execS_scope ext a s s1 h1).2.1
      have k2 := execL_untouched r N X s1 t (fun y hy => hn y (by simp [namesL, hy])) k1.2
        (by omega) h
      exact ⟨k2.1.trans k1.1, k2.2⟩
theorem execP_untouched : ∀ (p : Proc) (args : List Expr) (N : Nat) (X : Sym → Prop)
    (s t : State V), (∀ y ∈ namesEs args, ¬ X y) → Hidden N X s → N < s.heap.length →
    execP ext p args s = .ok t → t.heap[N]? = s.heap[N]? ∧ Hidden N X t
  | .mk nm fargs preds body, args, N, X, s, t, hn, hh, hN, h => by
    simp only [execP, bind, Except.bind] at h
    split at h
    · cases h
    · rename_i r hb
      split at h
      · cases h
      · split at h
        · cases h
        · split at h
          · cases h
          · split at h
            · cases h
            · rename_i s2 h2
              simp only [pure, Except.pure] at h
              cases h
              have k := execL_untouched body N (fun _ => False)
                { env := r.1, views := r.2, heap := s.heap, cfg := s.cfg } s2 (fun _ _ hx => hx)
                (fun p hp hb' => bindArgs_hidden hh fargs args [] [] r hn (by simp) hb p hp hb')
                hN h2
              exact leave_kept hN hh k.1
end

end

end Exo.Stg
