/-
  stage_mem, WRITE-ONLY variant (`load = false`, `store = true`, `accum = false`):

      B ++ rest    ⟶    xs : T[stageShape w] ; stageL x xs w B ; copy-out ; rest       (NO copy-in)

  (`DoStageMem` emits this shape when the first redirected access is a write — `WShadow`, point
  windows — or no read of the buffer is redirected.)  Sound when

    (i)  `B` never reads a window cell of `x` before writing it: no upward-exposed read of a window
         cell, `Fp.ExposedIn (fun c => c.1 ≠ bx ∨ C c.2 = none) …` on the footprint of the ORIGINAL run
    (ii) every window cell is written by `B`: `(bx, c) ∈ Fp.writes (Fp.evL ext B σ1)`

  so that the copy-out stores only values the block produced.  The failure of (ii) is the recorded
  finding `stage_mem:write-only-block:unwritten-window-cells-stored-back`
  (`StageEx.stage_writeonly_unsound`), the failure of (i) is `StageEx.stage_writeonly_exposed_unsound`
  below.

  PROOF (reduction to the stage mode of StorageStage2.lean by determinacy).  Let `σp` be the state
  after the allocation with the window cells of `x` set to poison.  `σp` (left) and the state `σ1`
  after the allocation (right) are in the middle relation `Stage.StR`: the staging buffer is poison,
  and so are the window cells on the left.  The stage mode `Stage.execL_stage` relates the run of `B`
  from `σp` with the run of `stageL x xs w B` from `σ1`.  By (i) and `Fp.detL_exposed` the run of `B`
  from `σp` has the same footprint as the run from `σ1` and ends in a state that agrees with the
  original one on every cell that is not a window cell or has been written — by (ii): on every cell;
  same configuration by `Fp.replayL`.  Hence the two final states are EQUAL, and the copy-out
  hypothesis `StoreOK` of the read+write theorem applies unchanged.
-/
import ExoModel.Lemmas.StorageStage3
import ExoModel.Lemmas.FootprintExposed

set_option linter.unusedSectionVars false
set_option linter.unusedVariables false

namespace Exo.Stg
open Exo
variable {V : Type}

namespace StageWO

/-! ### poisoning the window cells of one buffer -/

/-- the window cells (cells with an image under `C`) of a buffer set to poison -/
def poisonB (C : Nat → Option Nat) (b : List (Option V)) : List (Option V) :=
  b.mapIdx (fun i v => if (C i).isSome then none else v)

def poisonH (M : Nat) (C : Nat → Option Nat) (h : List (List (Option V))) :
    List (List (Option V)) :=
  h.modify M (poisonB C)

def poisonSt (M : Nat) (C : Nat → Option Nat) (s : State V) : State V :=
  { s with heap := poisonH M C s.heap }

theorem length_poisonB (C : Nat → Option Nat) (b : List (Option V)) :
    (poisonB C b).length = b.length := by
  simp [poisonB]

theorem getElem?_poisonB (C : Nat → Option Nat) (b : List (Option V)) (i : Nat) :
    (poisonB C b)[i]? = if (C i).isSome then (b[i]?).map (fun _ => none) else b[i]? := by
  unfold poisonB
  rw [List.getElem?_mapIdx]
  by_cases h : (C i).isSome = true
  · simp only [h, if_true]
  · simp only [h]
    cases b[i]? <;> rfl

theorem getElem?_poisonH (M : Nat) (C : Nat → Option Nat) (h : List (List (Option V))) (b : Nat) :
    (poisonH M C h)[b]? = if M = b then (h[b]?).map (poisonB C) else h[b]? := by
  simp only [poisonH, List.getElem?_modify]
  split
  · rfl
  · cases h[b]? <;> rfl

theorem shape_poisonH (M : Nat) (C : Nat → Option Nat) (h : List (List (Option V))) :
    (poisonH M C h).map List.length = h.map List.length := by
  apply List.ext_getElem?
  intro b
  rw [List.getElem?_map, List.getElem?_map, getElem?_poisonH]
  split
  · cases h[b]? with
    | none => rfl
    | some l => simp [length_poisonB]
  · rfl

theorem heapGet_poisonH (M : Nat) (C : Nat → Option Nat) (h : List (List (Option V)))
    (c : Nat × Nat) (hc : c.1 ≠ M ∨ C c.2 = none) :
    heapGet (poisonH M C h) c = heapGet h c := by
  unfold heapGet
  rw [getElem?_poisonH]
  by_cases hM : M = c.1
  · rw [if_pos hM]
    have hC : C c.2 = none := hc.resolve_left (fun hne => hne hM.symm)
    cases h[c.1]? with
    | none => rfl
    | some l =>
      simp only [Option.map_some]
      rw [getElem?_poisonB, hC]
      rfl
  · rw [if_neg hM]

/-- the original state and the poisoned one agree outside the window -/
theorem agree_poison (M : Nat) (C : Nat → Option Nat) (s : State V) :
    Fp.Agree (fun c => c.1 ≠ M ∨ C c.2 = none) (fun _ => True) s (poisonSt M C s) :=
  ⟨rfl, rfl, shape_poisonH M C s.heap, fun c hc => heapGet_poisonH M C s.heap c hc, fun _ _ => rfl⟩

/-! ### two heaps of the same shape with the same cells are equal -/

theorem heap_ext {h h' : List (List (Option V))} (hs : h'.map List.length = h.map List.length)
    (hc : ∀ c, heapGet h' c = heapGet h c) : h' = h := by
  apply List.ext_getElem?
  intro b
  have hb : (h'[b]?).map List.length = (h[b]?).map List.length := by
    have := congrArg (fun l => l[b]?) hs
    simpa [List.getElem?_map] using this
  cases h1 : h'[b]? with
  | none =>
    cases h2 : h[b]? with
    | none => rfl
    | some l => rw [h1, h2] at hb; cases hb
  | some l' =>
    cases h2 : h[b]? with
    | none => rw [h1, h2] at hb; cases hb
    | some l =>
      rw [h1, h2] at hb
      simp only [Option.map_some, Option.some.injEq] at hb
      congr 1
      apply List.ext_getElem?
      intro i
      have hi := hc (b, i)
      simp only [heapGet, h1, h2] at hi
      by_cases hlt : i < l.length
      · obtain ⟨u, hu⟩ := exists_getElem? l i hlt
        obtain ⟨u', hu'⟩ := exists_getElem? l' i (by omega)
        rw [hu, hu'] at hi ⊢
        have e : u' = u := hi
        rw [e]
      · rw [List.getElem?_eq_none_iff.2 (by omega), List.getElem?_eq_none_iff.2 (by omega)]

theorem state_ext {t t' : State V} (h1 : t'.env = t.env) (h2 : t'.views = t.views)
    (h3 : t'.heap = t.heap) (h4 : t'.cfg = t.cfg) : t' = t := by
  cases t; cases t'
  simp only [] at h1 h2 h3 h4
  subst h1; subst h2; subst h3; subst h4
  rfl

section
variable [DataAlg V] (ext : String → List V → V)

/-- **determinacy step**: under (i) and (ii) the block runs from the poisoned state exactly as from
    the original one — same footprint, SAME final state -/
theorem run_poison (B : List Stmt) (M : Nat) (C : Nat → Option Nat) (σ1 tB : State V)
    (hB : execL ext B σ1 = .ok tB)
    (hexp : Fp.ExposedIn (fun c => c.1 ≠ M ∨ C c.2 = none) (fun _ => True) (Fp.evL ext B σ1))
    (hfull : ∀ c, (C c).isSome = true → (M, c) ∈ Fp.writes (Fp.evL ext B σ1)) :
    Fp.evL ext B (poisonSt M C σ1) = Fp.evL ext B σ1 ∧ execL ext B (poisonSt M C σ1) = .ok tB := by
  obtain ⟨e1, l1⟩ := Fp.detL_exposed ext B _ _ σ1 (poisonSt M C σ1) (agree_poison M C σ1) hexp
  refine ⟨e1, ?_⟩
  rw [hB] at l1
  cases hp : execL ext B (poisonSt M C σ1) with
  | error e => rw [hp] at l1; unfold Fp.LockA at l1; exact l1.elim
  | ok tp =>
    rw [hp] at l1
    unfold Fp.LockA at l1
    have R1 := Fp.replayL ext B σ1 tB hB
    have R2 := Fp.replayL ext B _ tp hp
    congr 1
    refine state_ext l1.env l1.views (heap_ext l1.shape (fun c => l1.cells c ?_)) ?_
    · by_cases hM : c.1 = M
      · cases hC : C c.2 with
        | none => exact Or.inl (Or.inr hC)
        | some c' =>
          refine Or.inr ?_
          have := hfull c.2 (by rw [hC]; rfl)
          rw [← hM] at this
          exact this
      · exact Or.inl (Or.inl hM)
    · rw [R2.cfg, R1.cfg, e1]
      rfl

end

end StageWO

section
variable [DataAlg V] (ext : String → List V → V)

/-- the per-state hypotheses of the write-only variant: those of `StageHyp` without the copy-in nest,
    plus `fit` (a window cell exists in the buffer of `x` iff its image exists in the staging buffer —
    in `StageHyp` a consequence of `LoadOK`), (i) `noexp` and (ii) `full` -/
structure StageWOHyp (x xs : Sym) (w : List WAcc) (B : List Stmt) (σ : State V)
    (vx : View) (szs lov : List Int) (C : Nat → Option Nat) : Prop where
  hx : lookupSym x σ.views = some vx
  hid : ∀ y v, y ≠ x → lookupSym y σ.views = some v → v.buf ≠ vx.buf
  hsz : evalCs σ (Rw.stageShape w) = .ok szs
  hpos : checkSizes szs = .ok ()
  hlo : evalCs σ (Rw.stageLos w) = .ok lov
  geo : StAcc V w vx (vxsOf σ szs) C (Rw.stageLos w) lov
  acc : AccIn vx.buf (DC C) (Fp.evL ext B (allocSt σ xs szs))
  /-- the window and the staging buffer fit -/
  fit : ∀ rm0, σ.heap[vx.buf]? = some rm0 → ∀ c c', C c = some c' →
    (c' < (szs.foldl (· * ·) 1).toNat ↔ c < rm0.length)
  /-- (i) no upward-exposed read of a window cell -/
  noexp : Fp.ExposedIn (fun c => c.1 ≠ vx.buf ∨ C c.2 = none) (fun _ => True)
    (Fp.evL ext B (allocSt σ xs szs))
  /-- (ii) every window cell is written -/
  full : ∀ c, (C c).isSome = true → (vx.buf, c) ∈ Fp.writes (Fp.evL ext B (allocSt σ xs szs))

/-- **stage_mem, write-only variant, state level, one-directional.**  In a well-scoped state, under
    the guard and the hypotheses `StageWOHyp` / `StoreOK`: whenever `xs : T[sh] ; B ; rest` succeeds,
    `xs : T[sh] ; stageL x xs w B ; store ; rest` (no copy-in) succeeds with the SAME final state. -/
theorem stage_mem_writeonly_fwd_partial (x xs : Sym) (w : List WAcc) (B rest store : List Stmt)
    (σ : State V) (hvo : ViewsOk σ) (hg : Rw.stageGuard x xs w B = true)
    (hrest : ∀ y ∈ namesL rest, y ≠ xs) (vx : View) (szs lov : List Int) (C : Nat → Option Nat)
    (H : StageWOHyp ext x xs w B σ vx szs lov C)
    (hstore : StoreOK ext store B x xs vx.buf σ.heap.length C (pvOf xs vx (vxsOf σ szs))
      (allocSt σ xs szs)) :
    Fwd Eq (execB ext (.alloc xs (Rw.stageShape w) :: (B ++ rest)) σ)
      (execB ext (.alloc xs (Rw.stageShape w) :: (Rw.stageL x xs w B ++ (store ++ rest))) σ) := by
  intro o ho
  obtain ⟨t1, ht1, rfl⟩ := execB_ok_inv ext ho
  simp only [execL] at ht1
  obtain ⟨σ1, hal, hrun⟩ := except_bind_ok_inv ht1
  have hal1 : execS ext (.alloc xs (Rw.stageShape w)) σ = .ok (allocSt σ xs szs) :=
    execS_alloc ext xs _ σ szs H.hsz H.hpos
  have e1 := Except.ok.inj (hal.symm.trans hal1)
  subst e1
  rw [execL_append] at hrun
  obtain ⟨tB, hB, hrest'⟩ := except_bind_ok_inv hrun
  simp only [Rw.stageGuard, Bool.and_eq_true, bne_iff_ne, ne_eq] at hg
  obtain ⟨⟨⟨hokL, hxsB⟩, henv⟩, hxxs⟩ := hg
  have hxsB' := Rw.notIn_iff.1 hxsB
  have hlos : ∀ e ∈ Rw.stageLos w, e.envOnly = true := by
    intro e he
    exact List.all_eq_true.1 henv e he
  have hvxlt : vx.buf < σ.heap.length := hvo (x, vx) (lookupSym_mem H.hx)
  have hMN : vx.buf ≠ σ.heap.length := by omega
  obtain ⟨rm0, hrm0⟩ := exists_getElem? σ.heap vx.buf hvxlt
  have hrm1 : (allocSt σ xs szs).heap[vx.buf]? = some rm0 := by
    show (σ.heap ++ _)[vx.buf]? = _
    rw [List.getElem?_append_left hvxlt]; exact hrm0
  have hrn1 : (allocSt σ xs szs).heap[σ.heap.length]?
      = some (List.replicate (szs.foldl (· * ·) 1).toNat none) := getElem?_append_last _ _
  have hpx : pvOf xs vx (vxsOf σ szs) x = vx := by simp [pvOf, hxxs]
  have hpxs : pvOf xs vx (vxsOf σ szs) xs = vxsOf σ szs := by simp [pvOf]
  have hfit := H.fit rm0 hrm0
  -- the poisoned state (left) and the state after the allocation (right) are in the middle relation
  have hSR : Stage.StR x xs vx.buf σ.heap.length C rm0 (pvOf xs vx (vxsOf σ szs))
      (StageWO.poisonSt vx.buf C (allocSt σ xs szs)) (allocSt σ xs szs) := by
    refine ⟨rfl, rfl, rfl, ⟨hMN, ?_, ?_, ?_⟩, ?_, ?_⟩
    · have := congrArg List.length (StageWO.shape_poisonH vx.buf C (allocSt σ xs szs).heap)
      simpa [StageWO.poisonSt] using this.symm
    · intro b hbM hbN
      show _ = (StageWO.poisonH vx.buf C (allocSt σ xs szs).heap)[b]?
      rw [StageWO.getElem?_poisonH, if_neg (fun e => hbM e.symm)]
    · refine ⟨StageWO.poisonB C rm0, rm0, _, ?_, hrm1, hrn1, rfl, ?_, ?_⟩
      · show (StageWO.poisonH vx.buf C (allocSt σ xs szs).heap)[vx.buf]? = _
        rw [StageWO.getElem?_poisonH, if_pos rfl, hrm1]; rfl
      · intro c hc
        rw [StageWO.getElem?_poisonB, hc]; rfl
      · intro c c' hc
        rw [StageWO.getElem?_poisonB, hc]
        simp only [Option.isSome_some, if_true]
        have hiff := hfit c c' hc
        by_cases hlt : c < rm0.length
        · obtain ⟨u, hu⟩ := exists_getElem? rm0 c hlt
          rw [hu, List.getElem?_replicate, if_pos (hiff.2 hlt)]
          rfl
        · have e0 : rm0[c]? = none := List.getElem?_eq_none_iff.2 (by omega)
          rw [e0, List.getElem?_replicate, if_neg (fun h => hlt (hiff.1 h))]
          rfl
    · intro y v hy hlk
      have hyx : ¬ y = x := fun e => hy (Or.inl e)
      have hyxs : ¬ y = xs := fun e => hy (Or.inr e)
      simp only [StageWO.poisonSt, allocSt, lookupSym, if_neg hyxs] at hlk
      have h1 := H.hid y v hyx hlk
      have h2 := hvo (y, v) (lookupSym_mem hlk)
      simp only [] at h2
      exact ⟨h1, by omega⟩
    · intro y hy
      rcases hy with rfl | rfl
      · rw [hpx]
        simp only [StageWO.poisonSt, allocSt, lookupSym, if_neg hxxs]
        exact H.hx
      · rw [hpxs]
        simp only [StageWO.poisonSt, allocSt, lookupSym, if_true, vxsOf]
  have hM : (pvOf xs vx (vxsOf σ szs) x).buf = vx.buf := by rw [hpx]
  have hN : (pvOf xs vx (vxsOf σ szs) xs).buf = σ.heap.length := by rw [hpxs]; rfl
  have G' : StAcc V w (pvOf xs vx (vxsOf σ szs) x) (pvOf xs vx (vxsOf σ szs) xs) C
      (Rw.stageLos w) lov := by rw [hpx, hpxs]; exact H.geo
  have hI : evalCs (StageWO.poisonSt vx.buf C (allocSt σ xs szs)) (Rw.stageLos w) = .ok lov := by
    rw [← H.hlo]; exact Stage.evalCs_env_eq _ hlos σ _ rfl
  -- determinacy: the block runs from the poisoned state exactly as from the original one
  obtain ⟨hev, hBp⟩ := StageWO.run_poison ext B vx.buf C _ tB hB H.noexp H.full
  obtain ⟨tB', hB', hrel⟩ :=
    Stage.execL_stage ext hM hN G' hlos B _ _ hokL hxsB' hSR hI (by rw [hev]; exact H.acc) tB hBp
  obtain ⟨tB'', hst, hex⟩ := hstore rm0 tB tB' hrm1 hB hrel
  obtain ⟨e1, e2, e3, e4, e5⟩ := hex
  have hNlt : σ.heap.length < tB.heap.length := hrel.heap.ltN
  obtain ⟨bo, hbo⟩ := exists_getElem? tB.heap σ.heap.length hNlt
  obtain ⟨be, hbe⟩ := exists_getElem? tB''.heap σ.heap.length (by omega)
  have hRel : Reidx.Rel (fun y => y = xs) σ.heap.length (fun _ _ => True) (vxsOf σ szs)
      (vxsOf σ szs) tB tB'' := by
    refine ⟨e1, e2, ⟨e4, e5, bo, be, hbo, hbe, trivial⟩, fun y _ => by rw [e3], ?_, ?_⟩
    · intro y v hy hlk
      by_cases hyx : y = x
      · subst hyx
        have := hrel.px y (Or.inl rfl)
        rw [hpx] at this
        have ev : v = vx := Option.some.inj (hlk.symm.trans this)
        rw [ev]; omega
      · exact (hrel.nb y v (fun hp => hp.elim hyx hy) hlk).2
    · intro y hy
      have hy' : y = xs := hy
      subst hy'
      have := hrel.px y (Or.inr rfl)
      rw [hpxs] at this
      exact ⟨this, by rw [e3]; exact this⟩
  obtain ⟨t1', ht1', hrel2⟩ :=
    (Reidx.execL_id ext σ.heap.length _ (vxsOf σ szs) (vxsOf σ szs) rest _ tB tB''
      (fun y hy => hrest y hy) hRel).ok_left hrest'
  refine ⟨State.leave σ t1', ?_, (hrel2.leave_eq σ rfl).symm⟩
  unfold execB
  have hright : execL ext (.alloc xs (Rw.stageShape w) ::
      (Rw.stageL x xs w B ++ (store ++ rest))) σ = .ok t1' := by
    rw [execL_cons_ok ext hal1, execL_append, hB', ok_bind, execL_append, hst, ok_bind, ht1']
  rw [hright]
  rfl

end

/-! ### refinement between well-scoped states -/

/-- the semantic side condition of the write-only variant, required in every well-scoped state in
    which the original block succeeds -/
def StageWOSem (x xs : Sym) (w : List WAcc) (B store : List Stmt) (ss : List Stmt) : Prop :=
  ∀ (V : Type) [DataAlg V] (ext : String → List V → V) (σ o : State V), ViewsOk σ →
    execB ext ss σ = .ok o →
    ∃ (vx : View) (szs lov : List Int) (C : Nat → Option Nat),
      StageWOHyp ext x xs w B σ vx szs lov C ∧
      StoreOK ext store B x xs vx.buf σ.heap.length C (pvOf xs vx (vxsOf σ szs)) (allocSt σ xs szs)

/-- **the write-only variant as a refinement between well-scoped states**, for an arbitrary copy-out
    nest that satisfies `StoreOK` -/
theorem stage_writeonly_refW_partial (x xs : Sym) (w : List WAcc) (B rest store : List Stmt)
    (hg : Rw.stageGuard x xs w B = true) (hrest : ∀ y ∈ namesL rest, y ≠ xs)
    (hsem : StageWOSem x xs w B store (B ++ rest)) :
    BlockRefW (B ++ rest)
      (.alloc xs (Rw.stageShape w) :: (Rw.stageL x xs w B ++ (store ++ rest))) := by
  intro V _ ext s s' t hr ht
  obtain ⟨t1, ht1, hr1⟩ := BlockRefW.refl (B ++ rest) V ext s s' t hr ht
  obtain ⟨vx, szs, lov, C, H, hstore⟩ := hsem V ext s' t1 hr.ok' ht1
  have hxsB : ∀ y ∈ namesL B, y ≠ xs := by
    simp only [Rw.stageGuard, Bool.and_eq_true] at hg
    exact Rw.notIn_iff.1 hg.1.1.2
  have hxs : ∀ y ∈ namesL (B ++ rest), y ≠ xs := by
    intro y hy
    rw [namesL_append] at hy
    rcases List.mem_append.1 hy with hy | hy
    · exact hxsB y hy
    · exact hrest y hy
  have hl := dead_alloc_lock ext CellRel.refines xs (Rw.stageShape w) (B ++ rest) s' s'
    (WRef.refl hr.ok').ref.sim hr.ok' szs H.hsz H.hpos hxs
  obtain ⟨t2, ht2, h12⟩ := hl.ok_left ht1
  obtain ⟨t3, ht3, e3⟩ :=
    stage_mem_writeonly_fwd_partial ext x xs w B rest store s' hr.ok' hg hrest vx szs lov C H hstore
      t2 ht2
  subst e3
  obtain ⟨u1, hu1, rfl⟩ := execB_ok_inv ext ht1
  have hok1 : ViewsOk (State.leave s' u1) := hr.ok'.leave (execL_scope ext _ s' u1 hu1).2.1
  exact ⟨t2, ht3, hr1.trans ⟨h12, hok1⟩⟩

/-- **the `Local` `Rw.stageMemAll` with `load = false`, `store = true`, `accum = false`** -/
theorem stage_mem_writeonly_refW_partial (x xs : Sym) (w : List WAcc) (n : Nat) (iters : List Sym)
    (gl gs : Option Expr) (ss r : List Stmt)
    (h : Rw.stageMemAll x xs w n iters false false true gl gs ss = some r)
    (hg : Rw.stageGuard x xs w (ss.take n) = true) (hrest : ∀ y ∈ namesL (ss.drop n), y ≠ xs)
    (hsem : StageWOSem x xs w (ss.take n) (Rw.stageStore x xs w iters false gs) ss) :
    BlockRefW ss r := by
  simp only [Rw.stageMemAll, ↓reduceIte, Bool.false_eq_true, Option.some.injEq] at h
  subst h
  have e : ss = ss.take n ++ ss.drop n := (List.take_append_drop n ss).symm
  have h1 := stage_writeonly_refW_partial x xs w (ss.take n) (ss.drop n) _ hg hrest
    (by rw [← e]; exact hsem)
  rw [← e] at h1
  simpa only [List.append_assoc, List.nil_append] using h1

/-! ### executable checks of (i) and (ii) -/

/-- `ExposedIn`, executably: `W` = cells written so far -/
def exposedInB (p : Fp.Cell → Bool) : List Fp.Cell → List (Fp.Ev V) → Bool
  | _, [] => true
  | W, .rd c :: r => (p c || W.contains c) && exposedInB p W r
  | W, .wr c _ :: r => exposedInB p (c :: W) r
  | W, .red _ _ :: r => exposedInB p W r
  | W, .crd _ :: r => exposedInB p W r
  | W, .cwr _ _ :: r => exposedInB p W r

theorem exposedIn_of_exposedInB (p : Fp.Cell → Bool) : ∀ (t : List (Fp.Ev V)) (W : List Fp.Cell),
    exposedInB p W t = true → Fp.ExposedIn (fun c => p c = true ∨ c ∈ W) (fun _ => True) t
  | [], _, _ => by simp only [Fp.ExposedIn]
  | .rd c :: r, W, h => by
    simp only [exposedInB, Bool.and_eq_true, Bool.or_eq_true, List.contains_iff_mem] at h
    simp only [Fp.ExposedIn]
    exact ⟨h.1, exposedIn_of_exposedInB p r W h.2⟩
  | .wr c v :: r, W, h => by
    simp only [exposedInB] at h
    simp only [Fp.ExposedIn]
    refine Fp.exposedIn_mono r (fun c' hc' => ?_) (fun _ hk => hk)
      (exposedIn_of_exposedInB p r (c :: W) h)
    rcases hc' with hc' | hc'
    · exact Or.inl (Or.inl hc')
    · rcases List.mem_cons.1 hc' with e | hm
      · exact Or.inr e
      · exact Or.inl (Or.inr hm)
  | .red c v :: r, W, h => by
    simp only [exposedInB] at h
    simp only [Fp.ExposedIn]
    exact exposedIn_of_exposedInB p r W h
  | .crd k :: r, W, h => by
    simp only [exposedInB] at h
    simp only [Fp.ExposedIn]
    exact ⟨trivial, exposedIn_of_exposedInB p r W h⟩
  | .cwr k v :: r, W, h => by
    simp only [exposedInB] at h
    simp only [Fp.ExposedIn]
    exact Fp.exposedIn_mono r (fun _ hc => hc) (fun _ _ => Or.inl trivial)
      (exposedIn_of_exposedInB p r W h)

/-- (i), executably -/
theorem noexp_of_exposedInB {M : Nat} {C : Nat → Option Nat} {t : List (Fp.Ev V)}
    (h : exposedInB (fun c => c.1 != M || (C c.2).isNone) [] t = true) :
    Fp.ExposedIn (fun c => c.1 ≠ M ∨ C c.2 = none) (fun _ => True) t := by
  refine Fp.exposedIn_mono t (fun c hc => ?_) (fun _ hk => hk) (exposedIn_of_exposedInB _ t [] h)
  rcases hc with hc | hc
  · simp only [Bool.or_eq_true, bne_iff_ne, ne_eq, Option.isNone_iff_eq_none] at hc
    exact hc
  · cases hc

/-- cells `base … base+n-1` of buffer `M` are all written -/
def fullB (M base n : Nat) (t : List (Fp.Ev V)) : Bool :=
  (List.range n).all (fun j => (Fp.writes t).contains (M, base + j))

theorem full_of_fullB {M base n : Nat} {t : List (Fp.Ev V)} (h : fullB M base n t = true) :
    ∀ j, j < n → (M, base + j) ∈ Fp.writes t := by
  intro j hj
  have := List.all_eq_true.1 h j (List.mem_range.2 hj)
  simpa only [List.contains_iff_mem] using this

/-! ### the one-dimensional instance -/

section
variable [DataAlg V] (ext : String → List V → V)

/-- the semantic hypotheses of the one-dimensional write-only instance: those of `Stage1dHyp`, (i) no
    upward-exposed read of a cell `vx.off + j`, `lv ≤ j < hv`, and (ii) each of these cells is
    written -/
structure StageWO1dHyp (x xs : Sym) (lo hi : Expr) (B : List Stmt) (σ : State V) (vx : View)
    (n lv hv : Int) : Prop where
  base : Stage1dHyp ext x xs lo hi B σ vx n lv hv
  noexp : Fp.ExposedIn (fun c => c.1 ≠ vx.buf ∨ C1d vx.off lv hv c.2 = none) (fun _ => True)
    (Fp.evL ext B (allocSt σ xs [hv - lv]))
  full : ∀ j : Nat, j < (hv - lv).toNat →
    (vx.buf, (vx.off + lv).toNat + j) ∈ Fp.writes (Fp.evL ext B (allocSt σ xs [hv - lv]))

/-- all hypotheses of the general write-only theorem, for the one-dimensional geometry and the real
    copy-out nest -/
theorem stageWOHyp_1d (x xs i : Sym) (lo hi : Expr) (B : List Stmt) (σ : State V) (hvo : ViewsOk σ)
    (hxxs : x ≠ xs) (hlo : lo.envOnly = true) (hhi : hi.envOnly = true)
    (hilo : lo.occC i = false) (vx : View) (n lv hv : Int)
    (H : StageWO1dHyp ext x xs lo hi B σ vx n lv hv) :
    StageWOHyp ext x xs [.interval lo hi] B σ vx [hv - lv] [lv] (C1d vx.off lv hv) ∧
    StoreOK ext (Rw.stageStore x xs [.interval lo hi] [i] false none) B x xs vx.buf σ.heap.length
      (C1d vx.off lv hv) (pvOf xs vx (vxsOf σ [hv - lv])) (allocSt σ xs [hv - lv]) := by
  obtain ⟨h1, h2⟩ := stageHyp_1d ext x xs i lo hi B σ hvo hxxs hlo hhi hilo vx n lv hv H.base
  refine ⟨⟨h1.hx, h1.hid, h1.hsz, h1.hpos, h1.hlo, h1.geo, h1.acc, ?_, H.noexp, ?_⟩, h2⟩
  · intro rm0 hrm0 c c' hC
    have hfit := H.base.hfit rm0 hrm0
    have h2' := H.base.h2
    simp only [C1d] at hC
    split at hC
    · rename_i hw
      have ec := Option.some.inj hC
      have e : (([hv - lv] : List Int).foldl (· * ·) 1).toNat = (hv - lv).toNat := by
        show (1 * (hv - lv)).toNat = _
        rw [Int.one_mul]
      rw [e]
      constructor
      · intro _; omega
      · intro _; omega
    · cases hC
  · intro c hc
    have hoff := H.base.hoff
    have h0 := H.base.h0
    simp only [C1d] at hc
    split at hc
    · rename_i hw
      have := H.full ((c : Int) - vx.off - lv).toNat (by omega)
      have e : (vx.off + lv).toNat + ((c : Int) - vx.off - lv).toNat = c := by omega
      rw [e] at this
      exact this
    · cases hc

/-- **stage_mem, write-only, one-dimensional window, state level** -/
theorem stage_mem_writeonly_1d_fwd_partial (x xs i : Sym) (lo hi : Expr) (B rest : List Stmt)
    (σ : State V) (hvo : ViewsOk σ) (hg : Rw.stageGuard x xs [.interval lo hi] B = true)
    (hhi : hi.envOnly = true) (hilo : lo.occC i = false)
    (hrest : ∀ y ∈ namesL rest, y ≠ xs) (vx : View) (n lv hv : Int)
    (H : StageWO1dHyp ext x xs lo hi B σ vx n lv hv) :
    Fwd Eq (execB ext (.alloc xs (Rw.stageShape [.interval lo hi]) :: (B ++ rest)) σ)
      (execB ext (.alloc xs (Rw.stageShape [.interval lo hi]) ::
        (Rw.stageL x xs [.interval lo hi] B ++
          (Rw.stageStore x xs [.interval lo hi] [i] false none ++ rest))) σ) := by
  have hg' := hg
  simp only [Rw.stageGuard, Bool.and_eq_true, bne_iff_ne, ne_eq] at hg'
  have hlo : lo.envOnly = true := List.all_eq_true.1 hg'.1.2 lo (by simp [Rw.stageLos])
  obtain ⟨h1, h2⟩ := stageWOHyp_1d ext x xs i lo hi B σ hvo hg'.2 hlo hhi hilo vx n lv hv H
  exact stage_mem_writeonly_fwd_partial ext x xs _ B rest _ σ hvo hg hrest vx _ _ _ h1 h2

end

/-- the semantic side condition of the one-dimensional write-only instance, in every well-scoped
    state in which the original block succeeds -/
def StageWO1dSem (x xs : Sym) (lo hi : Expr) (B ss : List Stmt) : Prop :=
  ∀ (V : Type) [DataAlg V] (ext : String → List V → V) (σ o : State V), ViewsOk σ →
    execB ext ss σ = .ok o →
    ∃ (vx : View) (n lv hv : Int), StageWO1dHyp ext x xs lo hi B σ vx n lv hv

/-- **stage_mem, write-only, one-dimensional window, as a refinement between well-scoped states**:
    the `Local` `Rw.stageMemAll` with the copy-out nest only, no safety guard -/
theorem stage_mem_writeonly_1d_refW_partial (x xs i : Sym) (lo hi : Expr) (n : Nat)
    (ss r : List Stmt)
    (h : Rw.stageMemAll x xs [.interval lo hi] n [i] false false true none none ss = some r)
    (hg : Rw.stageGuard x xs [.interval lo hi] (ss.take n) = true)
    (hhi : hi.envOnly = true) (hilo : lo.occC i = false)
    (hrest : ∀ y ∈ namesL (ss.drop n), y ≠ xs)
    (hsem : StageWO1dSem x xs lo hi (ss.take n) ss) : BlockRefW ss r :=
  stage_mem_writeonly_refW_partial x xs _ n [i] none none ss r h hg hrest (fun V _ ext σ o hvo ho => by
    obtain ⟨vx, nn, lv, hv, H⟩ := hsem V ext σ o hvo ho
    have hg' := hg
    simp only [Rw.stageGuard, Bool.and_eq_true, bne_iff_ne, ne_eq] at hg'
    have hlo : lo.envOnly = true := List.all_eq_true.1 hg'.1.2 lo (by simp [Rw.stageLos])
    obtain ⟨h1, h2⟩ := stageWOHyp_1d ext x xs i lo hi _ σ hvo hg'.2 hlo hhi hilo vx nn lv hv H
    exact ⟨vx, [hv - lv], [lv], C1d vx.off lv hv, h1, h2⟩)

end Exo.Stg

/-! ### the example `for i in 0..4: x[i+1] = y[i] * 2` staged on `x[1:5]`, copy-out only; and the
    counter-example for hypothesis (i) -/
namespace Exo.Stg.StageEx
open Exo

def woxBefore : List Stmt :=
  [.loop sI (lit 0) (lit 4)
    [.assign sX [.binop .add (.read sI []) (lit 1)]
      (.binop .mul (.read sY [.read sI []]) (.lit (.data 2 1)))] false]
/-- `xs : R[5-1]; for i in 0..4: xs[i+1-1] = y[i] * 2; for j in 0..5-1: x[j+1] = xs[j]` -/
def woxAfter : List Stmt :=
  [.alloc sXs [.binop .sub (lit 5) (lit 1)],
   .loop sI (lit 0) (lit 4)
    [.assign sXs [.binop .sub (.binop .add (.read sI []) (lit 1)) (lit 1)]
      (.binop .mul (.read sY [.read sI []]) (.lit (.data 2 1)))] false,
   .loop sJ (lit 0) (.binop .sub (lit 5) (lit 1))
     [.assign sX [.binop .add (.read sJ []) (lit 1)] (.read sXs [.read sJ []])] false]
def σw : State Int :=
  { env := [], views := [(sX, ⟨0, 0, [(6, 1)]⟩), (sY, ⟨1, 0, [(4, 1)]⟩)],
    heap := [[some 1, some 2, some 3, some 4, some 5, some 6],
             [some 10, some 20, some 30, some 40]], cfg := [] }

theorem wox_rewrite :
    Rw.stageMemAll sX sXs win15 1 [sJ] false false true none none woxBefore = some woxAfter := by rfl

theorem wox_guard : Rw.stageGuard sX sXs win15 woxBefore = true := by decide

example : (execB ext0 woxBefore σw).toOption.map (·.heap)
    = some [[some 1, some 20, some 40, some 60, some 80, some 6],
            [some 10, some 20, some 30, some 40]] := by
  decide +kernel

example : (execB ext0 woxAfter σw).toOption.map (·.heap)
    = some [[some 1, some 20, some 40, some 60, some 80, some 6],
            [some 10, some 20, some 30, some 40]] := by
  decide +kernel

theorem wox_hyp :
    StageWO1dHyp ext0 sX sXs (lit 1) (lit 5) woxBefore σw ⟨0, 0, [(6, 1)]⟩ 6 1 5 := by
  refine ⟨⟨rfl, rfl, ?_, rfl, rfl, by decide, by decide, by decide, by decide, ?_, ?_⟩, ?_, ?_⟩
  · intro y v hy hl
    simp only [σw, lookupSym] at hl
    split at hl
    · rename_i e; exact absurd e hy
    · split at hl
      · cases hl; decide
      · cases hl
  · intro b hb
    have e : b = [some 1, some 2, some 3, some 4, some 5, some 6] := (Option.some.inj hb).symm
    subst e
    decide
  · exact accIn_of_accInB (by decide +kernel)
  · exact noexp_of_exposedInB (by decide +kernel)
  · exact full_of_fullB (M := 0) (base := 1) (n := 4) (by decide +kernel)

/-- the write-only block theorem instantiated at `σw` (every hypothesis discharged) -/
theorem wox_stage_fwd :
    Fwd Eq (execB ext0 (.alloc sXs (Rw.stageShape win15) :: (woxBefore ++ [])) σw)
      (execB ext0 (.alloc sXs (Rw.stageShape win15) ::
        (Rw.stageL sX sXs win15 woxBefore ++
          (Rw.stageStore sX sXs win15 [sJ] false none ++ []))) σw) :=
  stage_mem_writeonly_1d_fwd_partial ext0 sX sXs sJ (lit 1) (lit 5) woxBefore [] σw
    (by unfold ViewsOk; decide) wox_guard rfl rfl (fun _ h => by cases h) _ 6 1 5 wox_hyp

/-- (4) hypothesis (i) is necessary: `x[0] = x[0] + 1.0` staged on `x[0:1]` without copy-in writes
    the (only) window cell, but reads it first — the staged block reads the uninitialised staging
    buffer and the copy-out stores poison -/
def win01 : List WAcc := [.interval (lit 0) (lit 1)]
def woExpBefore : List Stmt :=
  [.assign sX [lit 0] (.binop .add (.read sX [lit 0]) (.lit (.data 1 1)))]
def woExpAfter : List Stmt :=
  (Rw.stageMemAll sX sXs win01 1 [sI] false false true none none woExpBefore).getD []

theorem stage_writeonly_exposed_unsound : ¬ BlockRefW woExpBefore woExpAfter :=
  not_refW_of_cell σa_ok
    (hp := [[some 6, some 6, some 7, some 8], [some 0]])
    (hp' := [[none, some 6, some 7, some 8], [some 0]])
    (by decide +kernel) (by decide +kernel) (0, 0) (by unfold CellRefines heapGet; decide)

end Exo.Stg.StageEx
