/-
  The shared tactic of the C14 theorems.  `c14_lane X` proves `InstrCorrect X.instr` for an
  instruction of Gen/X86Instrs whose body is a lane loop (`X.laneLoop`):
    1. the `Admissible` hypothesis becomes arithmetic facts (strides from the assertions, buffers
       distinct, windows inside their buffers)
    2. the body side is rewritten by the lane evaluator (`exec_laneLoop'`; the exported body is
       `X.laneLoop.toBody` by `rfl`)
    3. the C side is evaluated by `simp` through `execCInstr`
    4. both final heaps are `setLanes … [lane 0, …, lane n-1]`; the lanes are compared with the
       ring laws lifted to poisonable lanes
-/
import ExoModel.Gen.X86Instrs
import ExoModel.Lemmas.C14Facts

namespace Exo.X86
open Lean Exo.Lane

/-- a ≤ 16-bit mask `(1 << N) - 1` selects exactly the lanes below `N` -/
theorem bitOf_prefix : ∀ (N : Fin 31) (j : Fin 16),
    bitOf ((2 : Int) ^ N.val - 1) j.val = decide (j.val < N.val) := by decide

theorem bitOf_prefix' (n : Int) (j : Nat) (h0 : 0 ≤ n) (h1 : n < 31) (hj : j < 16) :
    bitOf ((2 : Int) ^ n.toNat - 1) j = decide ((j : Int) < n) := by
  have := bitOf_prefix ⟨n.toNat, by omega⟩ ⟨j, hj⟩
  simp only at this
  rw [this]
  congr 1
  apply propext
  constructor <;> intro h <;> omega

theorem wrapS32_small (n : Int) (h0 : -2147483648 ≤ n) (h1 : n < 2147483648) : wrapS 32 n = n := by
  unfold wrapS
  simp only [Nat.reduceSub, Int.reducePow]
  omega

theorem ite_neg1_lt_zero (c : Prop) [Decidable c] : ((if c then (-1 : Int) else 0) < 0) ↔ c := by
  by_cases h : c <;> simp [h]

syntax "c14_lane " ident : tactic
syntax "c14_mask " ident : tactic
syntax "c14_mask_when " ident : tactic
syntax "c14_init " ident : tactic
syntax "c14_acc " ident : tactic
syntax "c14_pass " ident : tactic

/-- step 1: the hypotheses as facts -/
def c14Facts (n : Ident) : MacroM (TSyntax `tactic) := do
  let I := mkIdent (n.getId ++ `instr)
  let P := mkIdent (n.getId ++ `proc)
  `(tactic| (
    obtain ⟨hsz, hsh, hpr, hna, hinb⟩ := hadm
    have hinb := allViewsInBounds_facts _ _ hinb
    simp [stateOf, $I:ident, $P:ident, Proc.args, Proc.preds, mkEnv, mkViews, shapeVal, evalC, pure, Except.pure,
      checkPreds_cons_ok, lookupSym, bind, Except.bind, ctrlOp, b2i_ne_zero, noAlias, sizesPositive] at hsz hpr hna
    simp [stateOf, $I:ident, $P:ident, Proc.args, mkEnv, mkViews, shapeVal, evalC, pure, Except.pure,
      lookupSym, inbFacts, inbFact, hpr] at hinb))

/-- step 2: the body side through the lane evaluator -/
def c14Body (n : Ident) : MacroM (TSyntax `tactic) := do
  let I := mkIdent (n.getId ++ `instr)
  let P := mkIdent (n.getId ++ `proc)
  let L := mkIdent (n.getId ++ `laneLoop)
  `(tactic| (
    have hbody : Proc.body (Instr.proc $I) = LaneLoop.toBody $L := rfl
    rw [hbody, exec_laneLoop' ext _ _ rfl (by
      simp [LaneLoop.placed, $L:ident, stateOf, $I:ident, $P:ident, Proc.args, mkEnv, mkViews, shapeVal, evalC,
        pure, Except.pure, lookupSym, LaneLoop.active, LExp.OK, vecOK_mk, exists_dims_mk, isArith,
        LaneLoop.guardOK, hpr, hna, hinb, hsz] <;> omega)]))

def c14BodyAcc (n : Ident) : MacroM (TSyntax `tactic) := do
  let I := mkIdent (n.getId ++ `instr)
  let P := mkIdent (n.getId ++ `proc)
  let L := mkIdent (n.getId ++ `laneLoop)
  `(tactic| (
    have hbody : Proc.body (Instr.proc $I) = LaneLoop.toBody $L := rfl
    rw [hbody, exec_accLoop' ext _ _ rfl rfl rfl (by
      simp [LaneLoop.accPlaced, $L:ident, stateOf, $I:ident, $P:ident, Proc.args, mkEnv, mkViews, shapeVal, evalC,
        pure, Except.pure, lookupSym, LExp.OK, vecOK_mk, exists_dims_mk, isArith,
        hpr, hna, hinb, hsz] <;> omega)]))

theorem cShl_one (n : Int) (h0 : 0 ≤ n) (h1 : n < 31) : cShl 1 n = .ok (2 ^ n.toNat) := by
  simp [cShl, h0, h1, pure, Except.pure]

/-- step 3: evaluate the C side (and unfold the lane evaluator's result) -/
def c14Eval (n : Ident) : MacroM (TSyntax `tactic) := do
  let I := mkIdent (n.getId ++ `instr)
  let P := mkIdent (n.getId ++ `proc)
  let L := mkIdent (n.getId ++ `laneLoop)
  let C := mkIdent (n.getId ++ `cinstr)
  let K := mkIdent (n.getId ++ `kinds)
  `(tactic|
      simp [LaneLoop.result, LaneLoop.accResult, LaneLoop.accAfter, $L:ident, stateOf, $I:ident, $P:ident,
        Proc.args, mkEnv, mkViews, shapeVal, evalC,
        pure, Except.pure, lookupSym, execCInstr, $C:ident, $K:ident, execCStmts, execCStmt, evalE, evalEs, kindOf,
        bind, Except.bind, loadContig, storeContig, intrinsic, storeIntrinsic, fma3, arith2, loadN, bcastMem, set1,
        asVec, asPtr, asFlt, asInt, allFlts, allInts, getLanes, hinb, hpr, hna, hsz, hini,
        range1, range2, range4, range8, range16, LaneLoop.newLane, guardAt,
        LExp.val, binVal, fmaLanes, lanes2, zeroLane, lanesOfTy, allSome, maxLane, add2, hext.relu, hext.select,
        lift2_add_comm, lift2_add_assoc, lift2_add_left_comm,
        lift2_mul_neg_one, lift2_one_mul, lift2_mul_one, allSome_one_map, lift2_some_right,
        LawfulDataAlg.mul_neg_one, LawfulDataAlg.mul_one, LawfulDataAlg.one_mul,
        blendv, cmpLt, cmpLtLanes, asSignMask, signMask, asIVec, blendLanes, kMask, loadMasked, storeMasked,
        maskInBounds, cSub, ite_neg1_lt_zero, ite_some_some])

macro_rules
  | `(tactic| c14_lane $n:ident) => do
    let f ← c14Facts n
    let b ← c14Body n
    let ev ← c14Eval n
    `(tactic| (
      intro V _ ext hext cv pl heap cfg hadm
      have hini : True := trivial
      $f:tactic; $b:tactic; $ev:tactic))
  | `(tactic| c14_acc $n:ident) => do
    let f ← c14Facts n
    let b ← c14BodyAcc n
    let ev ← c14Eval n
    `(tactic| (
      intro V _ ext hext cv pl heap cfg hadm
      have hini : True := trivial
      $f:tactic; $b:tactic; $ev:tactic))
  | `(tactic| c14_init $n:ident) => do
    let I := mkIdent (n.getId ++ `instr)
    let P := mkIdent (n.getId ++ `proc)
    let f ← c14Facts n
    let b ← c14Body n
    let ev ← c14Eval n
    `(tactic| (
      intro V _ ext hext cv pl heap cfg hadm hini
      $f:tactic
      have hini := allViewsInit_facts _ _ hini
      simp [stateOf, $I:ident, $P:ident, Proc.args, mkEnv, mkViews, shapeVal, evalC, pure, Except.pure,
        lookupSym, initFacts, initFact, hpr, hinb] at hini
      $b:tactic; $ev:tactic))
  | `(tactic| c14_mask $n:ident) => do
    let f ← c14Facts n
    let b ← c14Body n
    let ev ← c14Eval n
    `(tactic| (
      intro V _ ext hext cv pl heap cfg hadm
      have hini : True := trivial
      $f:tactic; $b:tactic; $ev:tactic
      all_goals try simp (disch := omega) only [cShl_one, wrapS32_small, bitOf_prefix', if_pos]
      all_goals try $ev:tactic
      all_goals try simp (disch := omega) only [cShl_one, wrapS32_small, bitOf_prefix', if_pos]
      all_goals try $ev:tactic
      all_goals try simp [hsz, hpr]))
  | `(tactic| c14_mask_when $n:ident) => do
    let f ← c14Facts n
    let b ← c14Body n
    let ev ← c14Eval n
    `(tactic| (
      intro V _ ext hext cv pl heap cfg hx hadm
      have hini : True := trivial
      $f:tactic; $b:tactic; $ev:tactic
      all_goals try simp (disch := omega) only [cShl_one, wrapS32_small, bitOf_prefix', if_pos]
      all_goals try $ev:tactic
      all_goals try simp (disch := omega) only [cShl_one, wrapS32_small, bitOf_prefix', if_pos]
      all_goals try $ev:tactic
      all_goals try simp [hsz, hpr]))
  | `(tactic| c14_pass $n:ident) => do
    let I := mkIdent (n.getId ++ `instr)
    let P := mkIdent (n.getId ++ `proc)
    let C := mkIdent (n.getId ++ `cinstr)
    let K := mkIdent (n.getId ++ `kinds)
    let f ← c14Facts n
    `(tactic| (
      intro V _ ext hext cv pl heap cfg hadm
      $f:tactic
      simp [execB, $I:ident, $P:ident, Proc.body, Proc.args, execL, execS, bind, Except.bind, pure, Except.pure,
        Except.map, State.leave, stateOf, mkEnv, mkViews, shapeVal, evalC, lookupSym,
        execCInstr, $C:ident, $K:ident, execCStmts, execCStmt, evalE, evalEs, kindOf, storeIntrinsic,
        asPtr, asInt, hinb, hpr, hna, hsz]))

/-! ### a concrete admissible state of every instruction (non-vacuity, counterexamples) -/

def cv0 : Sym → Int := fun _ => 1
def pl0 : Sym → Place := fun s => ⟨s.id, 0, 1⟩
/-- six buffers of sixteen cells; buffer k holds k+1 everywhere -/
def heap0 : Heap Int := (List.range 6).map fun (k : Nat) => List.replicate 16 (some ((k : Int) + 1))

def heapsOf (r : Except Err (State Int)) : Option (Heap Int) :=
  match r with
  | .ok s => some s.heap
  | .error _ => none

theorem viewInit_of (heap : Heap Int) (b : Nat) (o : Int) (dims : List (Int × Int)) (n : Nat)
    (hb : viewInBounds heap ⟨b, o, dims⟩)
    (hlen : bufLen heap b ≤ n) (h : ∀ k : Fin n, (heapGet heap (b, k.val)).isSome = true) :
    ∀ is r, viewOffset dims is o = .ok r → (heapGet heap (b, r.toNat)).isSome = true := by
  intro is r ho
  have := hb is r ho
  simp only at this
  exact h ⟨r.toNat, by omega⟩

syntax "c14_adm " ident : tactic
syntax "c14_init_adm " ident : tactic
syntax "c14_refute " ident : tactic

macro_rules
  | `(tactic| c14_adm $n:ident) => do
    let I := mkIdent (n.getId ++ `instr)
    let P := mkIdent (n.getId ++ `proc)
    `(tactic| (
      refine ⟨?_, rfl, rfl, rfl, ?_⟩
      · simp [sizesPositive, stateOf, $I:ident, $P:ident, Proc.args, mkEnv, lookupSym, cv0]
      · simp only [allViewsInBounds, stateOf, $I:ident, $P:ident, Proc.args, mkEnv, mkViews, shapeVal, evalC, pure,
          Except.pure, lookupSym, cv0, pl0, and_true]
        repeat' apply And.intro
        all_goals first
          | trivial
          | (apply viewInBounds_stride1 <;> decide)
          | (apply viewInBounds_scalar <;> decide)))
  | `(tactic| c14_init_adm $n:ident) => do
    let I := mkIdent (n.getId ++ `instr)
    let P := mkIdent (n.getId ++ `proc)
    `(tactic| (
      simp only [allViewsInit, stateOf, $I:ident, $P:ident, Proc.args, mkEnv, mkViews, shapeVal, evalC, pure,
        Except.pure, lookupSym, cv0, pl0, and_true]
      repeat' apply And.intro
      all_goals first
        | trivial
        | (refine viewInit_of _ _ _ _ 16 ?_ ?_ ?_
           · first
               | (apply viewInBounds_stride1 <;> decide)
               | (apply viewInBounds_scalar <;> decide)
           · decide
           · decide)))
  | `(tactic| c14_refute $n:ident) => do
    `(tactic| (
      intro h
      have h1 := @h Int _ extInt extInt_lawful cv0 pl0 heap0 [] (by c14_adm $n)
      exact absurd (congrArg heapsOf h1) (by decide +kernel)))

end Exo.X86
