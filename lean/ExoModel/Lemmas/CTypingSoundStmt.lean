/-
  Lemmas for C15(a) on the mini-C, part 2: statements, blocks, loops, calls — a well-typed
  statement list, run from a state that agrees with the typing environment, is never `stuck`.
-/
import ExoModel.Lemmas.CTypingSound

namespace Exo.CTyping
open Exo Exo.CIndex Exo.CSem

variable {V : Type}

theorem ns_bind {α : Type} {E : CTyEnv} {x : Except CErr α} {f : α → Except CErr (CState V)}
    (hx : x ≠ .error .stuck) (hf : ∀ a, x = .ok a → NoStuck E (f a)) : NoStuck E (x >>= f) := by
  cases x with
  | error e => exact fun h => hx (by rw [h])
  | ok a => exact hf a rfl

theorem isSomeB_some {α : Type} {o : Option α} (h : isSomeB o = true) : ∃ a, o = some a := by
  cases o with
  | none => cases h
  | some a => exact ⟨a, rfl⟩

theorem lookup_map_mem {x : Sym} {t : CTy} : ∀ {ps : List (Sym × PKind)},
    lookupSym x (ps.map (fun p => (p.1, kindTy p.2))) = some t →
    ∃ p ∈ ps, p.1 = x ∧ kindTy p.2 = t
  | [], h => by cases h
  | (y, k) :: r, h => by
      simp only [List.map_cons, lookupSym] at h
      split at h
      · rename_i e
        simp only [Option.some.injEq] at h
        exact ⟨(y, k), by simp, e.symm, h⟩
      · obtain ⟨p, hp, h1, h2⟩ := lookup_map_mem h
        exact ⟨p, by simp [hp], h1, h2⟩

/-- what binding the actuals yields -/
def BindNS (ps : List (Sym × PKind)) (cv : List (Sym × CVal)) :
    Except CErr (List (Sym × Int) × List (Sym × CVal)) → Prop
  | .ok r => (∀ p ∈ ps, KindVal (kindTy p.2) (lookupSym p.1 r.2)) ∧
      (∀ y, y ∉ ps.map (·.1) → lookupSym y r.2 = lookupSym y cv)
  | .error e => e ≠ .stuck

theorem bindC_ns {E : CTyEnv} {c : CState V} (hg : Good E c) :
    ∀ (ps : List (Sym × PKind)) (as : List CArg) (ci : List (Sym × Int)) (cv : List (Sym × CVal)),
    wtArgs E ps as = true → distinctParams ps = true → BindNS ps cv (bindC c ps as ci cv)
  | [], [], ci, cv, _, _ => by
      simp only [bindC, pure, Except.pure, BindNS]
      refine ⟨fun p hp => (by cases hp), ?_⟩
      first | trivial | (intros; first | trivial | rfl)
  | [], _ :: _, _, _, h, _ => by simp [wtArgs] at h
  | _ :: _, [], _, _, h, _ => by simp [wtArgs] at h
  | (x, k) :: ps, a :: as, ci, cv, h, hd => by
      simp only [wtArgs, Bool.and_eq_true] at h
      simp only [distinctParams, Bool.and_eq_true, Bool.not_eq_true', List.contains_eq_mem,
        decide_eq_false_iff_not] at hd
      have ha := evalArg_ns hg h.1
      simp only [bindC]
      cases hev : evalArg c a with
      | error e => rw [hev] at ha; exact ha
      | ok v =>
          rw [hev] at ha
          have step : ∀ (ci1 : List (Sym × Int)) (cv1 : List (Sym × CVal)),
              KindVal (kindTy k) (lookupSym x cv1) → (∀ y, y ≠ x → lookupSym y cv1 = lookupSym y cv) →
              BindNS ((x, k) :: ps) cv (bindC c ps as ci1 cv1) := by
            intro ci1 cv1 hk hrest
            have ih := bindC_ns hg ps as ci1 cv1 h.2 hd.2
            cases hb : bindC c ps as ci1 cv1 with
            | error e => rw [hb] at ih; exact ih
            | ok r =>
                rw [hb] at ih
                refine ⟨fun p hp => ?_, fun y hy => ?_⟩
                · simp only [List.mem_cons] at hp
                  rcases hp with rfl | hp
                  · rw [ih.2 _ hd.1]; exact hk
                  · exact ih.1 p hp
                · simp only [List.map_cons, List.mem_cons, not_or] at hy
                  rw [ih.2 y hy.2]; exact hrest y hy.1
          cases k <;> cases v <;> simp only [AKind, ArgNS] at ha
          · exact step _ _ trivial (fun _ _ => rfl)
          · rename_i cvv
            cases cvv with
            | win b o ss => simp [AKind] at ha
            | ptr b o =>
                exact step _ _ ⟨b, o, by simp [lookupSym]⟩ (fun y hy => by simp [lookupSym, hy])
          · rename_i r cvv
            cases cvv with
            | ptr b o => simp [AKind] at ha
            | win b o ss =>
                exact step _ _ ⟨b, o, ss, by simp [lookupSym]⟩
                  (fun y hy => by simp [lookupSym, hy])

theorem lookupCfg_setCfg_self {α : Type} (k : String × String) (v : α) :
    ∀ (l : List ((String × String) × α)), lookupCfg k (setCfg k v l) = some v
  | [] => by simp [setCfg, lookupCfg]
  | (k', v') :: r => by
      simp only [setCfg]
      split
      · simp [lookupCfg]
      · rename_i hne
        simp only [lookupCfg, hne, if_false]
        exact lookupCfg_setCfg_self k v r

theorem lookupCfg_setCfg_ne {α : Type} (k : String × String) (v : α) {k2 : String × String}
    (hne : k2 ≠ k) : ∀ (l : List ((String × String) × α)),
    lookupCfg k2 (setCfg k v l) = lookupCfg k2 l
  | [] => by simp [setCfg, lookupCfg, hne]
  | (k', v') :: r => by
      simp only [setCfg]
      split
      · rename_i e; subst e; simp [lookupCfg, hne]
      · simp only [lookupCfg]
        split
        · rfl
        · exact lookupCfg_setCfg_ne k v hne r

theorem declare_cfgT {E E' : CTyEnv} {x : Sym} {t : CTy} (h : E.declare x t = some E') :
    E'.cfgT = E.cfgT := by
  unfold CTyEnv.declare at h
  split at h
  · simp only [Option.some.injEq] at h; subst h; rfl
  · split at h
    · cases h
    · simp only [Option.some.injEq] at h; subst h; rfl

/-- the config table is never changed by the checker -/
theorem wtS_cfgT : ∀ (s : CStmt) {E E' : CTyEnv}, wtS E s = some E' → E'.cfgT = E.cfgT
  | .nop, _, _, h => by simp only [wtS, Option.some.injEq] at h; subst h; rfl
  | .store _ _, _, _, h => by simp only [wtS] at h; split at h <;> simp_all
  | .accum _ _, _, _, h => by simp only [wtS] at h; split at h <;> simp_all
  | .cfgWriteI _ _ _, _, _, h => by simp only [wtS] at h; split at h <;> simp_all
  | .cfgWriteD _ _ _, _, _, h => by simp only [wtS] at h; split at h <;> simp_all
  | .ite _ _ _, _, _, h => by simp only [wtS] at h; split at h <;> simp_all
  | .for_ _ _ _ _ _, _, _, h => by simp only [wtS] at h; split at h <;> simp_all
  | .free _, _, _, h => by simp only [wtS] at h; split at h <;> simp_all
  | .call (.mk _ _ _) _, _, _, h => by simp only [wtS] at h; split at h <;> simp_all
  | .malloc x _, E, _, h => by
      simp only [wtS] at h
      split at h
      · exact declare_cfgT h
      · cases h
  | .declScalar x, E, _, h => by simp only [wtS] at h; exact declare_cfgT h
  | .winInit _ _ _ _ _ _, E, _, h => by
      simp only [wtS] at h
      split at h
      · exact declare_cfgT h
      · cases h

theorem wtL_cfgT : ∀ (ss : List CStmt) {E E' : CTyEnv}, wtL E ss = some E' → E'.cfgT = E.cfgT
  | [], E, E', h => by simp only [wtL, Option.some.injEq] at h; subst h; rfl
  | s :: r, E, E', h => by
      simp only [wtL] at h
      split at h
      · rename_i E1 hE1
        exact (wtL_cfgT r h).trans (wtS_cfgT s hE1)
      · cases h

variable [DataAlg V]

theorem store_ns {E : CTyEnv} {c : CState V} (hg : Good E c) (mon : Bool) {lv : LVal} {e : CD}
    (h1 : wtLV E lv = true) (h2 : wtCD E e = true) (f : Option V → Option V → Option V) :
    NoStuck E (do let v ← evalCD mon c e; writeC mon c lv (f v)) := by
  refine ns_bind (evalCD_ns hg mon e h2) (fun v _ => ?_)
  simp only [writeC]
  exact ns_bind (lvalCell_ns hg.1 mon lv h1) (fun cell _ => hg)

mutual
theorem soundS (mon : Bool) : ∀ (s : CStmt) {E E' : CTyEnv} {c : CState V},
    wtS E s = some E' → Good E c → NoStuck E' (execCS mon s c)
  | .nop, E, E', c, h, hg => by
      simp only [wtS, Option.some.injEq] at h; subst h
      exact hg
  | .store lv e, E, E', c, h, hg => by
      simp only [wtS] at h
      split at h
      · rename_i hw
        simp only [Option.some.injEq] at h; subst h
        rw [Bool.and_eq_true] at hw
        exact store_ns hg mon hw.1 hw.2 (fun v _ => v)
      · cases h
  | .accum lv e, E, E', c, h, hg => by
      simp only [wtS] at h
      split at h
      · rename_i hw
        simp only [Option.some.injEq] at h; subst h
        rw [Bool.and_eq_true] at hw
        exact store_ns hg mon hw.1 hw.2 (fun v old => lift2 DataAlg.add old v)
      · cases h
  | .cfgWriteI k f e, E, E', c, h, hg => by
      simp only [wtS] at h
      split at h
      · rename_i hw
        simp only [Option.some.injEq] at h; subst h
        simp only [Bool.and_eq_true, beq_iff_eq] at hw
        simp only [execCS]
        refine ns_bind (evalCI_ns hg.2 e hw.1) (fun v _ => ⟨hg.1, ?_⟩)
        intro k' d hk'
        by_cases hkk : k' = (k, f)
        · subst hkk
          rw [hw.2] at hk'
          simp only [Option.some.injEq] at hk'; subst hk'
          exact ⟨fun hd => (by cases hd), fun _ => ⟨v, lookupCfg_setCfg_self _ _ _⟩⟩
        · rw [lookupCfg_setCfg_ne _ _ hkk _]; exact hg.2 k' d hk'
      · cases h
  | .cfgWriteD k f e, E, E', c, h, hg => by
      simp only [wtS] at h
      split at h
      · rename_i hw
        simp only [Option.some.injEq] at h; subst h
        simp only [Bool.and_eq_true, beq_iff_eq] at hw
        simp only [execCS]
        refine ns_bind (evalCD_ns hg mon e hw.1) (fun v _ => ⟨hg.1, ?_⟩)
        intro k' d hk'
        by_cases hkk : k' = (k, f)
        · subst hkk
          rw [hw.2] at hk'
          simp only [Option.some.injEq] at hk'; subst hk'
          exact ⟨fun _ => ⟨v, lookupCfg_setCfg_self _ _ _⟩, fun hd => (by cases hd)⟩
        · rw [lookupCfg_setCfg_ne _ _ hkk _]; exact hg.2 k' d hk'
      · cases h
  | .ite cnd t e, E, E', c, h, hg => by
      simp only [wtS] at h
      split at h
      · rename_i hw
        simp only [Option.some.injEq] at h; subst h
        simp only [Bool.and_eq_true] at hw
        obtain ⟨Et, hEt⟩ := isSomeB_some hw.1.2
        obtain ⟨Ee, hEe⟩ := isSomeB_some hw.2
        have hgp : Good E.push c := ⟨hg.1.push, hg.2⟩
        simp only [execCS]
        refine ns_bind (evalCI_ns hg.2 cnd hw.1.1) (fun b _ => ?_)
        split
        · exact (soundL mon t hEt hgp).bind (fun c1 h1 => leaveC_ns mon hg.1 (by
            have := h1.2; rw [wtL_cfgT t hEt] at this; exact this))
        · exact (soundL mon e hEe hgp).bind (fun c1 h1 => leaveC_ns mon hg.1 (by
            have := h1.2; rw [wtL_cfgT e hEe] at this; exact this))
      · cases h
  | .for_ i lo hi body par, E, E', c, h, hg => by
      simp only [wtS] at h
      split at h
      · rename_i hw
        simp only [Option.some.injEq] at h; subst h
        simp only [Bool.and_eq_true] at hw
        obtain ⟨Eb, hEb⟩ := isSomeB_some hw.2
        simp only [execCS]
        refine ns_bind (evalCI_ns hg.2 lo hw.1.1) (fun l _ => ?_)
        refine ns_bind (evalCI_ns hg.2 hi hw.1.2) (fun hv _ => ?_)
        refine iterC_ns (fun v s hs => ?_) _ _ c hg
        have hgb : Good ((E.push [(i, .int)]).push) ({ s with ints := (i, v) :: s.ints } : CState V) :=
          ⟨(hs.1.pushInt i).push, hs.2⟩
        exact (soundL mon body hEb hgb).bind (fun c1 h1 => leaveC_ns mon hs.1 (by
          have := h1.2; rw [wtL_cfgT body hEb] at this; exact this))
      · cases h
  | .malloc x dims, E, E', c, h, hg => by
      simp only [wtS] at h
      split at h
      · have d := declare_ok (cv := .ptr c.heap.length 0) h hg.1 ⟨_, _, rfl⟩
        simp only [execCS]
        exact ns_bind (evalIxs_ns c dims) (fun ns _ => ⟨d.1, by rw [d.2]; exact hg.2⟩)
      · cases h
  | .declScalar x, E, E', c, h, hg => by
      simp only [wtS] at h
      have d := declare_ok (cv := .ptr c.heap.length 0) h hg.1 ⟨_, _, rfl⟩
      exact ⟨d.1, by rw [d.2]; exact hg.2⟩
  | .free x, E, E', c, h, hg => by
      simp only [wtS] at h
      split at h
      · rename_i hw
        simp only [Option.some.injEq] at h; subst h
        simp only [beq_iff_eq] at hw
        obtain ⟨b, o, hl⟩ := hg.1 x _ hw
        simp only [execCS, freeC, hl]
        cases mon with
        | false => exact hg
        | true =>
            simp only [if_true]
            split
            · simp [NoStuck, throw, throwThe, MonadExceptOf.throw]
            · split <;> first | exact hg | simp [NoStuck, throw, throwThe, MonadExceptOf.throw]
      · cases h
  | .winInit w src isW los strs ivs, E, E', c, h, hg => by
      simp only [wtS] at h
      split at h
      · rename_i r hr
        have hns := evalWinLit_ns hg hr
        simp only [evalArg] at hns
        simp only [execCS]
        cases h1 : evalIxs c los with
        | error er =>
            have := evalIxs_ns c los; rw [h1] at this
            exact fun e => this (by rw [e])
        | ok ls =>
            cases h2 : evalIxs c strs with
            | error er =>
                have := evalIxs_ns c strs; rw [h2] at this
                exact fun e => this (by rw [e])
            | ok ss =>
                have hb : ∀ {α β : Type} (a : α) (f : α → Except CErr β), (Except.ok a >>= f) = f a :=
                  fun _ _ => rfl
                rw [h1, h2] at hns
                simp only [hb] at hns ⊢
                rcases wtWin_src hr with ⟨h3, h4⟩ | ⟨h3, r', h4⟩
                · obtain ⟨b, p, hl⟩ := hg.1 src _ h4
                  subst h3
                  simp only [hl]
                  have d := declare_ok (cv := .win b (cWindow ⟨p, ss⟩ (mkWA ls ivs)).off
                    (cWindow ⟨p, ss⟩ (mkWA ls ivs)).strides) h hg.1 ⟨_, _, _, rfl⟩
                  exact ⟨d.1, by rw [d.2]; exact hg.2⟩
                · obtain ⟨b, p, s3, hl⟩ := hg.1 src _ h4
                  subst h3
                  simp only [hl]
                  have d := declare_ok (cv := .win b (cWindow ⟨p, ss⟩ (mkWA ls ivs)).off
                    (cWindow ⟨p, ss⟩ (mkWA ls ivs)).strides) h hg.1 ⟨_, _, _, rfl⟩
                  exact ⟨d.1, by rw [d.2]; exact hg.2⟩
      · cases h
  | .call (.mk nm ps body) args, E, E', c, h, hg => by
      simp only [wtS] at h
      split at h
      · rename_i hw
        simp only [Option.some.injEq] at h; subst h
        simp only [Bool.and_eq_true] at hw
        obtain ⟨Ef, hEf⟩ := isSomeB_some hw.2
        simp only [execCS]
        have hb := bindC_ns hg ps args [] [] hw.1.1 hw.1.2
        cases hbc : bindC c ps args [] [] with
        | error e => rw [hbc] at hb; exact hb
        | ok r =>
            rw [hbc] at hb
            obtain ⟨ci, cv⟩ := r
            have hgf : Good { scopes := [ps.map (fun p => (p.1, kindTy p.2))], cfgT := E.cfgT }
                ({ c with ints := ci, vals := cv } : CState V) := by
              refine ⟨fun y t hy => ?_, hg.2⟩
              simp only [lookupSc] at hy
              cases hl : lookupSym y (ps.map (fun p => (p.1, kindTy p.2))) with
              | none => rw [hl] at hy; cases hy
              | some t' =>
                  rw [hl] at hy
                  simp only [Option.some.injEq] at hy; subst hy
                  obtain ⟨p, hp, h1, h2⟩ := lookup_map_mem hl
                  rw [← h1, ← h2]; exact hb.1 p hp
            show NoStuck E (execCL mon body _ >>= fun c' => leaveC mon c c')
            exact (soundL mon body hEf hgf).bind (fun c1 h1 => leaveC_ns mon hg.1 (by
              have := h1.2; rw [wtL_cfgT body hEf] at this; exact this))
      · cases h
theorem soundL (mon : Bool) : ∀ (ss : List CStmt) {E E' : CTyEnv} {c : CState V},
    wtL E ss = some E' → Good E c → NoStuck E' (execCL mon ss c)
  | [], E, E', c, h, hg => by
      simp only [wtL, Option.some.injEq] at h; subst h
      exact hg
  | s :: r, E, E', c, h, hg => by
      simp only [wtL] at h
      split at h
      · rename_i E1 hE1
        simp only [execCL]
        exact (soundS mon s hE1 hg).bind (fun c1 h1 => soundL mon r h h1)
      · cases h
end

end Exo.CTyping
