/-
  Lemmas for the statement-level round trip of `ExoModel.PrintStmt`, part 3: the procedure
  header `def name(args):`.
-/
import ExoModel.Lemmas.PrintStmtBlock

namespace Exo.PrintStmt
open Exo Exo.Print

/-- argument types whose printed form is read back: `bool`/`stride` only without a memory
    annotation (the real `_print_fnarg` always adds one — recorded finding); a window has a
    shape -/
def wfFnTy : FnTy → Bool
  | .size => true
  | .index => true
  | .ctrl _ mem => mem.isNone
  | .num _ shape isWin _ => wfL shape && (!isWin || !shape.isEmpty)

def wfFnArgs : List PFnArg → Bool
  | [] => true
  | a :: as => wfFnTy a.ty && wfFnArgs as

def wfProc (p : PProc) : Bool := wfFnArgs p.args && !p.body.isEmpty && wfS p.body

/-- after an argument: `,` or `)` -/
def ArgStop (ts : List STok) : Prop := ∃ r, ts = .t .comma :: r ∨ ts = .t .rp :: r

theorem ArgStop.stop {ts} (h : ArgStop ts) : StopOK ts := by
  obtain ⟨r, rfl | rfl⟩ := h <;> trivial

theorem parseMem_stop (mem : Option String) (ts : List STok) (h : ArgStop ts) :
    parseMem (ppMemT mem ++ ts) = some (mem, ts) := by
  cases mem with
  | some m => simp [ppMemT, parseMem]
  | none => obtain ⟨r, rfl | rfl⟩ := h <;> simp [ppMemT, parseMem]

/-- `parseFnTy` on a line that starts with an identifier -/
theorem parseFnTy_id (x : String) (r : List STok) :
    parseFnTy (.t (.id x) :: r) =
      match parseES (.t (.id x) :: r) with
      | some (.var nm shape, r) =>
        let noAt : Bool := match r with | .at :: _ => false | _ => true
        if nm == "size" && shape.isEmpty then (if noAt then some (.size, r) else none)
        else if nm == "index" && shape.isEmpty then (if noAt then some (.index, r) else none)
        else if nm == "bool" && shape.isEmpty then
          (if noAt then some (.ctrl .bool none, r) else none)
        else if nm == "stride" && shape.isEmpty then
          (if noAt then some (.ctrl .stride none, r) else none)
        else
          match Ty.ofName nm, parseMem r with
          | some ty, some (mem, r') => some (.num ty shape false mem, r')
          | _, _ => none
      | _ => none := by
  rw [parseFnTy]
  all_goals first | rfl | (intro nm r1 hh; simp at hh)

theorem noAt_stop (ts : List STok) (h : ArgStop ts) :
    (match ts with | .at :: _ => false | _ => true) = true := by
  obtain ⟨r, rfl | rfl⟩ := h <;> rfl

theorem parseES_name (x : String) (ts : List STok) (h : StopOK ts) :
    parseES (.t (.id x) :: ts) = some (.var x [], ts) := by
  have := parseES_rt (.var x []) (by simp [wf, wfL]) ts h
  simpa [ppT, norm, normL] using this

theorem tyName_ne (ty : Ty) : (ty.name == "size") = false ∧ (ty.name == "index") = false ∧
    (ty.name == "bool") = false ∧ (ty.name == "stride") = false := by
  cases ty <;> decide

theorem var_toks (x : String) (shape : List PExpr) :
    ∃ r, tt (ppT 0 (.var x shape)) = .t (.id x) :: r := by
  cases shape with
  | nil => exact ⟨[], by simp [ppT]⟩
  | cons i is => exact ⟨_, by simp only [ppT, tt_cons]; rfl⟩

theorem parseFnTy_rt (ty : FnTy) (h : wfFnTy ty = true) (ts : List STok) (hs : ArgStop ts) :
    parseFnTy (fnTyT ty ++ ts) = some (normFnTy ty, ts) := by
  cases ty with
  | size =>
    simp only [fnTyT, List.cons_append, List.nil_append]
    rw [parseFnTy_id, parseES_name _ ts hs.stop]
    obtain ⟨r, rfl | rfl⟩ := hs <;> simp [normFnTy]
  | index =>
    simp only [fnTyT, List.cons_append, List.nil_append]
    rw [parseFnTy_id, parseES_name _ ts hs.stop]
    have : ("index" == "size") = false := by decide
    obtain ⟨r, rfl | rfl⟩ := hs <;> simp [normFnTy, this]
  | ctrl k mem =>
    cases mem with
    | some m => simp [wfFnTy] at h
    | none =>
      simp only [fnTyT, ppMemT, List.cons_append, List.nil_append]
      rw [parseFnTy_id, parseES_name _ ts hs.stop]
      cases k with
      | bool =>
        have h1 : ("bool" == "size") = false := by decide
        have h2 : ("bool" == "index") = false := by decide
        obtain ⟨r, rfl | rfl⟩ := hs <;> simp [CtrlK.name, normFnTy, h1, h2]
      | stride =>
        have h1 : ("stride" == "size") = false := by decide
        have h2 : ("stride" == "index") = false := by decide
        have h3 : ("stride" == "bool") = false := by decide
        obtain ⟨r, rfl | rfl⟩ := hs <;> simp [CtrlK.name, normFnTy, h1, h2, h3]
  | num ty shape isWin mem =>
    simp only [wfFnTy, Bool.and_eq_true] at h
    have hstop : StopOK (ppMemT mem ++ ts) := stop_ppMem mem ts hs.stop
    have hl := parseES_rt (.var ty.name shape) (by rw [wf_var]; exact h.1) (ppMemT mem ++ ts) hstop
    obtain ⟨n1, n2, n3, n4⟩ := tyName_ne ty
    cases isWin with
    | false =>
      obtain ⟨r, hr⟩ := var_toks ty.name shape
      have e1 : fnTyT (.num ty shape false mem) ++ ts =
          tt (ppT 0 (.var ty.name shape)) ++ (ppMemT mem ++ ts) := by
        cases shape <;> simp [fnTyT]
      rw [e1, hr, List.cons_append, parseFnTy_id, ← List.cons_append, ← hr, hl]
      simp only [norm_var, n1, n2, n3, n4, Bool.false_and, ofName_name,
        parseMem_stop mem ts hs, normFnTy]
      simp
    | true =>
      cases shape with
      | nil => simp at h
      | cons i is =>
        have e1 : fnTyT (.num ty (i :: is) true mem) ++ ts =
            .t .lb :: .t (.id ty.name) :: .t .rb ::
              ((tt (ppT 0 (.var ty.name (i :: is)))).tail ++ (ppMemT mem ++ ts)) := by
          simp [fnTyT, ppT, tt_append]
        have e3 : STok.t (.id ty.name) ::
              ((tt (ppT 0 (.var ty.name (i :: is)))).tail ++ (ppMemT mem ++ ts)) =
            tt (ppT 0 (.var ty.name (i :: is))) ++ (ppMemT mem ++ ts) := by
          simp [ppT]
        rw [e1, parseFnTy]
        simp only [ofName_name, e3, hl, norm_var, normL, parseMem_stop mem ts hs, normFnTy]

/-- the recorded defect, in general: an argument type `bool @MEM` / `stride @MEM` is rejected -/
theorem parseFnTy_ctrl_mem (k : CtrlK) (m : String) (ts : List STok) :
    parseFnTy (fnTyT (.ctrl k (some m)) ++ ts) = none := by
  simp only [fnTyT, ppMemT, List.cons_append, List.nil_append]
  rw [parseFnTy_id, parseES_name _ _ (stop_at _)]
  cases k with
  | bool =>
    have h1 : ("bool" == "size") = false := by decide
    have h2 : ("bool" == "index") = false := by decide
    simp [CtrlK.name, h1, h2]
  | stride =>
    have h1 : ("stride" == "size") = false := by decide
    have h2 : ("stride" == "index") = false := by decide
    have h3 : ("stride" == "bool") = false := by decide
    simp [CtrlK.name, h1, h2, h3]

theorem parseFnArg_rt (a : PFnArg) (h : wfFnTy a.ty = true) (ts : List STok) (hs : ArgStop ts) :
    parseFnArg (fnArgT a ++ ts) = some (⟨a.name, normFnTy a.ty⟩, ts) := by
  simp only [fnArgT, List.cons_append, parseFnArg, parseFnTy_rt a.ty h ts hs]

theorem fnArgsTail_stop (as : List PFnArg) (r : List STok) :
    ArgStop (fnArgsTailT as ++ .t .rp :: r) := by
  cases as with
  | nil => exact ⟨r, .inr rfl⟩
  | cons a as => exact ⟨_, .inl rfl⟩

theorem parseFnArgsTail_rt : ∀ (as : List PFnArg), wfFnArgs as = true →
    ∀ (f : Nat) (r : List STok), as.length + 1 ≤ f →
    parseFnArgsTail f (fnArgsTailT as ++ .t .rp :: r) = some (normFnArgs as, .t .rp :: r)
  | [], _, f, r, hf => by
    obtain ⟨F, rfl⟩ : ∃ F, f = F + 1 := ⟨f - 1, by simp at hf; omega⟩
    simp [fnArgsTailT, parseFnArgsTail, normFnArgs]
  | a :: as, h, f, r, hf => by
    simp only [wfFnArgs, Bool.and_eq_true] at h
    simp only [List.length_cons] at hf
    obtain ⟨F, rfl⟩ : ∃ F, f = F + 1 := ⟨f - 1, by omega⟩
    have h1 := parseFnArg_rt a h.1 _ (fnArgsTail_stop as r)
    have h2 := parseFnArgsTail_rt as h.2 F r (by omega)
    simp only [fnArgsTailT, List.cons_append, List.append_assoc, parseFnArgsTail, h1, h2,
      normFnArgs]

theorem fnArgsTailT_length (as : List PFnArg) : as.length ≤ (fnArgsTailT as).length := by
  induction as with
  | nil => simp
  | cons a as ih => simp only [fnArgsTailT, List.length_cons, List.length_append]; omega

theorem parseDefHead_rt (name : String) (args : List PFnArg) (h : wfFnArgs args = true) :
    parseDefHead (defHeadT name args) = some (name, normFnArgs args) := by
  cases args with
  | nil => simp [defHeadT, fnArgsT, parseDefHead, normFnArgs]
  | cons a as =>
    simp only [wfFnArgs, Bool.and_eq_true] at h
    have h1 := parseFnArg_rt a h.1 (fnArgsTailT as ++ [.t .rp, .colon]) (fnArgsTail_stop as _)
    have hl := fnArgsTailT_length as
    have h2 := parseFnArgsTail_rt as h.2 ((fnArgsTailT as ++ [STok.t .rp, .colon]).length + 1)
      [.colon] (by simp only [List.length_append, List.length_cons, List.length_nil]; omega)
    have e : defHeadT name (a :: as) = .kwDef :: .t (.id name) :: .t .lp ::
        (.t (.id a.name) :: .colon :: (fnTyT a.ty ++ (fnArgsTailT as ++ [.t .rp, .colon]))) := by
      simp [defHeadT, fnArgsT, fnArgT]
    have e' : STok.t (.id a.name) :: .colon :: (fnTyT a.ty ++ (fnArgsTailT as ++ [.t .rp, .colon]))
        = fnArgT a ++ (fnArgsTailT as ++ [.t .rp, .colon]) := by simp [fnArgT]
    rw [e, parseDefHead]
    · simp only [e', h1, h2, normFnArgs]
    · intro hh; simp at hh

theorem parseProc_rt (w : Nat) (hw : 0 < w) (ind : Nat) (p : PProc) (h : wfProc p = true) :
    parseProc (ppProc w ind p) = some (normProc p) := by
  simp only [wfProc, Bool.and_eq_true] at h
  have hne := isEmpty_false_ne h.1.2
  have hb := needB_le w p.body (ind + w)
  have hbody := body_rt w hw p.body hne (blockRT_all w hw p.body h.2) ind
    (blockFuel (ppBlock w (ind + w) p.body)) [] (by simp only [blockFuel]; omega) trivial
  rw [List.append_nil] at hbody
  simp only [ppProc, parseProc, parseDefHead_rt p.name p.args h.1.1, hbody, normProc]

end Exo.PrintStmt
