/-
  Lemmas for the statement-level round trip of `ExoModel.PrintStmt`, part 3: the procedure
  header `def name(args):`.
-/
import ExoModel.Lemmas.PrintStmtBlock

namespace Exo.PrintStmt
open Exo Exo.Print

/-- argument types whose printed form is read back: `bool`/`stride` only without a memory
    annotation (the real `_print_fnarg` always adds one — recorded finding); a window has a
    shape -/
def wfFnTy : FnTy → Bool
  | .size => true
  | .index => true
  | .ctrl _ mem => mem.isNone
  | .num _ shape isWin _ => wfXL shape && (!isWin || !shape.isEmpty)

def wfFnArgs : List PFnArg → Bool
  | [] => true
  | a :: as => wfFnTy a.ty && wfFnArgs as

/-- the block after the header is not empty: at least one assertion or one statement -/
def wfProc (p : PProc) : Bool :=
  wfFnArgs p.args && wfXL p.preds && wfS p.body && (!p.preds.isEmpty || !p.body.isEmpty)

/-- after an argument: `,` or `)` -/
def ArgStop (ts : List STok) : Prop := ∃ r, ts = .t .comma :: r ∨ ts = .t .rp :: r

theorem ArgStop.stop {ts} (h : ArgStop ts) : StopOK ts := by
  obtain ⟨r, rfl | rfl⟩ := h <;> trivial

theorem parseMem_stop (mem : Option String) (ts : List STok) (h : ArgStop ts) :
    parseMem (ppMemT mem ++ ts) = some (mem, ts) := by
  cases mem with
  | some m => simp [ppMemT, parseMem]
  | none => obtain ⟨r, rfl | rfl⟩ := h <;> simp [ppMemT, parseMem]

/-- `parseFnTy` on a line that starts with an identifier -/
theorem parseFnTy_id (x : String) (r : List STok) :
    parseFnTy (.t (.id x) :: r) =
      match parseES (.t (.id x) :: r) with
      | some (.var nm shape, r) =>
        let noAt : Bool := match r with | .at :: _ => false | _ => true
        if nm == "size" && shape.isEmpty then (if noAt then some (.size, r) else none)
        else if nm == "index" && shape.isEmpty then (if noAt then some (.index, r) else none)
        else if nm == "bool" && shape.isEmpty then
          (if noAt then some (.ctrl .bool none, r) else none)
        else if nm == "stride" && shape.isEmpty then
          (if noAt then some (.ctrl .stride none, r) else none)
        else
          match Ty.ofName nm, parseMem r with
          | some ty, some (mem, r') => some (.num ty shape false mem, r')
          | _, _ => none
      | _ => none := by
  rw [parseFnTy]
  all_goals first | rfl | (intro nm r1 hh; simp at hh)

theorem noAt_stop (ts : List STok) (h : ArgStop ts) :
    (match ts with | .at :: _ => false | _ => true) = true := by
  obtain ⟨r, rfl | rfl⟩ := h <;> rfl

theorem parseES_name (x : String) (ts : List STok) (h : StopOK ts) :
    parseES (.t (.id x) :: ts) = some (.var x [], ts) := by
  have := parseES_rt (.var x []) (by simp [wfX, wfXL]) ts h
  simpa [ppX, normX, normXL] using this

theorem tyName_ne (ty : Ty) : (ty.name == "size") = false ∧ (ty.name == "index") = false ∧
    (ty.name == "bool") = false ∧ (ty.name == "stride") = false := by
  cases ty <;> decide

theorem parseFnTy_rt (ty : FnTy) (h : wfFnTy ty = true) (ts : List STok) (hs : ArgStop ts) :
    parseFnTy (fnTyT ty ++ ts) = some (normFnTy ty, ts) := by
  cases ty with
  | size =>
    simp only [fnTyT, List.cons_append, List.nil_append]
    rw [parseFnTy_id, parseES_name _ ts hs.stop]
    obtain ⟨r, rfl | rfl⟩ := hs <;> simp [normFnTy]
  | index =>
    simp only [fnTyT, List.cons_append, List.nil_append]
    rw [parseFnTy_id, parseES_name _ ts hs.stop]
    have : ("index" == "size") = false := by decide
    obtain ⟨r, rfl | rfl⟩ := hs <;> simp [normFnTy, this]
  | ctrl k mem =>
    cases mem with
    | some m => simp [wfFnTy] at h
    | none =>
      simp only [fnTyT, ppMemT, List.cons_append, List.nil_append]
      rw [parseFnTy_id, parseES_name _ ts hs.stop]
      cases k with
      | bool =>
        have h1 : ("bool" == "size") = false := by decide
        have h2 : ("bool" == "index") = false := by decide
        obtain ⟨r, rfl | rfl⟩ := hs <;> simp [CtrlK.name, normFnTy, h1, h2]
      | stride =>
        have h1 : ("stride" == "size") = false := by decide
        have h2 : ("stride" == "index") = false := by decide
        have h3 : ("stride" == "bool") = false := by decide
        obtain ⟨r, rfl | rfl⟩ := hs <;> simp [CtrlK.name, normFnTy, h1, h2, h3]
  | num ty shape isWin mem =>
    simp only [wfFnTy, Bool.and_eq_true] at h
    have hstop : StopOK (ppMemT mem ++ ts) := stop_ppMem mem ts hs.stop
    have hl := parseES_rt (.var ty.name shape) (by rw [wf_var]; exact h.1) (ppMemT mem ++ ts) hstop
    obtain ⟨n1, n2, n3, n4⟩ := tyName_ne ty
    cases isWin with
    | false =>
      obtain ⟨r, hr⟩ := ppX_var_head ty.name shape
      have e1 : fnTyT (.num ty shape false mem) ++ ts =
          (ppX 0 (.var ty.name shape)) ++ (ppMemT mem ++ ts) := by
        cases shape <;> simp [fnTyT]
      rw [e1, hr, List.cons_append, parseFnTy_id, ← List.cons_append, ← hr, hl]
      simp only [norm_var, n1, n2, n3, n4, Bool.false_and, ofName_name,
        parseMem_stop mem ts hs, normFnTy]
      simp
    | true =>
      cases shape with
      | nil => simp at h
      | cons i is =>
        have e1 : fnTyT (.num ty (i :: is) true mem) ++ ts =
            .t .lb :: .t (.id ty.name) :: .t .rb ::
              (((ppX 0 (.var ty.name (i :: is)))).tail ++ (ppMemT mem ++ ts)) := by
          simp [fnTyT, ppX]
        have e3 : STok.t (.id ty.name) ::
              (((ppX 0 (.var ty.name (i :: is)))).tail ++ (ppMemT mem ++ ts)) =
            (ppX 0 (.var ty.name (i :: is))) ++ (ppMemT mem ++ ts) := by
          simp [ppX]
        rw [e1, parseFnTy]
        simp only [ofName_name, e3, hl, norm_var, normXL, parseMem_stop mem ts hs, normFnTy]

/-- the recorded defect, in general: an argument type `bool @MEM` / `stride @MEM` is rejected -/
theorem parseFnTy_ctrl_mem (k : CtrlK) (m : String) (ts : List STok) :
    parseFnTy (fnTyT (.ctrl k (some m)) ++ ts) = none := by
  simp only [fnTyT, ppMemT, List.cons_append, List.nil_append]
  rw [parseFnTy_id, parseES_name _ _ (stop_at _)]
  cases k with
  | bool =>
    have h1 : ("bool" == "size") = false := by decide
    have h2 : ("bool" == "index") = false := by decide
    simp [CtrlK.name, h1, h2]
  | stride =>
    have h1 : ("stride" == "size") = false := by decide
    have h2 : ("stride" == "index") = false := by decide
    have h3 : ("stride" == "bool") = false := by decide
    simp [CtrlK.name, h1, h2, h3]

theorem parseFnArg_rt (a : PFnArg) (h : wfFnTy a.ty = true) (ts : List STok) (hs : ArgStop ts) :
    parseFnArg (fnArgT a ++ ts) = some (⟨a.name, normFnTy a.ty⟩, ts) := by
  simp only [fnArgT, List.cons_append, parseFnArg, parseFnTy_rt a.ty h ts hs]

theorem fnArgsTail_stop (as : List PFnArg) (r : List STok) :
    ArgStop (fnArgsTailT as ++ .t .rp :: r) := by
  cases as with
  | nil => exact ⟨r, .inr rfl⟩
  | cons a as => exact ⟨_, .inl rfl⟩

theorem parseFnArgsTail_rt : ∀ (as : List PFnArg), wfFnArgs as = true →
    ∀ (f : Nat) (r : List STok), as.length + 1 ≤ f →
    parseFnArgsTail f (fnArgsTailT as ++ .t .rp :: r) = some (normFnArgs as, .t .rp :: r)
  | [], _, f, r, hf => by
    obtain ⟨F, rfl⟩ : ∃ F, f = F + 1 := ⟨f - 1, by simp at hf; omega⟩
    simp [fnArgsTailT, parseFnArgsTail, normFnArgs]
  | a :: as, h, f, r, hf => by
    simp only [wfFnArgs, Bool.and_eq_true] at h
    simp only [List.length_cons] at hf
    obtain ⟨F, rfl⟩ : ∃ F, f = F + 1 := ⟨f - 1, by omega⟩
    have h1 := parseFnArg_rt a h.1 _ (fnArgsTail_stop as r)
    have h2 := parseFnArgsTail_rt as h.2 F r (by omega)
    simp only [fnArgsTailT, List.cons_append, List.append_assoc, parseFnArgsTail, h1, h2,
      normFnArgs]

theorem fnArgsTailT_length (as : List PFnArg) : as.length ≤ (fnArgsTailT as).length := by
  induction as with
  | nil => simp
  | cons a as ih => simp only [fnArgsTailT, List.length_cons, List.length_append]; omega

theorem parseDefHead_rt (name : String) (args : List PFnArg) (h : wfFnArgs args = true) :
    parseDefHead (defHeadT name args) = some (name, normFnArgs args) := by
  cases args with
  | nil => simp [defHeadT, fnArgsT, parseDefHead, normFnArgs]
  | cons a as =>
    simp only [wfFnArgs, Bool.and_eq_true] at h
    have h1 := parseFnArg_rt a h.1 (fnArgsTailT as ++ [.t .rp, .colon]) (fnArgsTail_stop as _)
    have hl := fnArgsTailT_length as
    have h2 := parseFnArgsTail_rt as h.2 ((fnArgsTailT as ++ [STok.t .rp, .colon]).length + 1)
      [.colon] (by simp only [List.length_append, List.length_cons, List.length_nil]; omega)
    have e : defHeadT name (a :: as) = .kwDef :: .t (.id name) :: .t .lp ::
        (.t (.id a.name) :: .colon :: (fnTyT a.ty ++ (fnArgsTailT as ++ [.t .rp, .colon]))) := by
      simp [defHeadT, fnArgsT, fnArgT]
    have e' : STok.t (.id a.name) :: .colon :: (fnTyT a.ty ++ (fnArgsTailT as ++ [.t .rp, .colon]))
        = fnArgT a ++ (fnArgsTailT as ++ [.t .rp, .colon]) := by simp [fnArgT]
    rw [e, parseDefHead]
    · simp only [e', h1, h2, normFnArgs]
    · intro hh; simp at hh

/-- what may follow the assertion lines: nothing, or a line that is not an `assert` at that
    column -/
def NoAssertHead (col : Nat) : List Line → Prop
  | [] => True
  | l :: _ => l.ind = col → ∀ r, l.toks ≠ .kwAssert :: r

theorem parseAsserts_rt (col : Nat) : ∀ (es : List XExpr), wfXL es = true →
    ∀ rest, NoAssertHead col rest →
    parseAsserts col (ppAsserts col es ++ rest) = some (normXL es, rest)
  | [], _, rest, hr => by
    cases rest with
    | nil => simp [ppAsserts, parseAsserts, normXL]
    | cons l ls =>
      simp only [ppAsserts, List.nil_append, parseAsserts, normXL]
      by_cases hc : l.ind = col
      · simp only [hc, beq_self_eq_true, if_true]
        split
        · next r heq => exact absurd heq (hr hc r)
        · rfl
      · simp [hc]
  | e :: es, h, rest, hr => by
    simp only [wfXL, Bool.and_eq_true] at h
    have ih := parseAsserts_rt col es h.2 rest hr
    simp only [ppAsserts, List.cons_append, parseAsserts, beq_self_eq_true, if_true,
      parseFull_rt e h.1, ih, normXL]

theorem noAssert_block (w col : Nat) (body : List PStmt) :
    NoAssertHead col (ppBlock w col body) := by
  cases body with
  | nil => trivial
  | cons s ss =>
    obtain ⟨a, r, hh, _, hna, _⟩ := simpleT_head s
    simp only [ppBlock, ppStmt_eq, List.cons_append, NoAssertHead]
    intro _ r' heq
    rw [hh] at heq
    simp only [List.cons.injEq] at heq
    exact hna heq.1

theorem parseProc_cons (l b : Line) (tl : List Line) :
    parseProc (l :: b :: tl) =
      match parseDefHead l.toks with
      | none => none
      | some (name, args) =>
        if l.ind < b.ind then
          match parseAsserts b.ind (b :: tl) with
          | none => none
          | some (preds, rest') =>
            match parseBlock (blockFuel rest') b.ind rest' with
            | some (body, []) => some ⟨name, args, preds, body⟩
            | _ => none
        else none := rfl

theorem parseProc_rt (w : Nat) (hw : 0 < w) (ind : Nat) (p : PProc) (h : wfProc p = true) :
    parseProc (ppProc w ind p) = some (normProc p) := by
  simp only [wfProc, Bool.and_eq_true, Bool.or_eq_true] at h
  obtain ⟨⟨⟨hargs, hpreds⟩, hbody⟩, hne⟩ := h
  have hA := parseAsserts_rt (ind + w) p.preds hpreds (ppBlock w (ind + w) p.body)
    (noAssert_block w (ind + w) p.body)
  have hb := needB_le w p.body (ind + w)
  have hB := blockRT_all w hw p.body hbody (ind + w) (blockFuel (ppBlock w (ind + w) p.body)) []
    (by simp only [blockFuel]; omega) trivial
  rw [List.append_nil] at hB
  -- the block after the header starts with a line at column `ind + w`
  have hR : ∃ b tl, ppAsserts (ind + w) p.preds ++ ppBlock w (ind + w) p.body = b :: tl ∧
      b.ind = ind + w := by
    cases hp : p.preds with
    | cons e es =>
      exact ⟨⟨ind + w, .kwAssert :: ppX 0 e⟩, ppAsserts (ind + w) es ++ ppBlock w (ind + w) p.body,
        by simp only [ppAsserts, List.cons_append], rfl⟩
    | nil =>
      cases hbd : p.body with
      | nil => simp [hp, hbd] at hne
      | cons s ss =>
        exact ⟨⟨ind + w, simpleT s⟩, tailLines w (ind + w) s ++ ppBlock w (ind + w) ss,
          by simp only [ppAsserts, List.nil_append, ppBlock, ppStmt_eq, List.cons_append], rfl⟩
  obtain ⟨b, tl, hR, hbi⟩ := hR
  rw [hR] at hA
  simp only [ppProc, hR]
  rw [parseProc_cons]
  simp only [parseDefHead_rt p.name p.args hargs, hbi, show ind < ind + w by omega, if_true, hA,
    hB, normProc]

end Exo.PrintStmt
