/-
  Instances of the re-indexing lemma (`reindexDim_wf`): expand_dim, divide_dim, mult_dim,
  resize_dim.
-/
import ExoModel.Lemmas.WfShapes8

namespace Exo.WfShapes
open Exo Exo.Wf Exo.Rw

theorem mem_of_get? {α} {l : List α} {i : Nat} {a : α} (h : l[i]? = some a) : a ∈ l :=
  List.mem_of_getElem? h

theorem of_ite_some {α} {c : Prop} [Decidable c] {a : Option α} {r : α}
    (h : (if c then a else none) = some r) : c ∧ a = some r := by
  split at h
  · exact ⟨‹c›, h⟩
  · cases h

theorem of_ite_none {α} {c : Prop} [Decidable c] {a : Option α} {r : α}
    (h : (if c then none else a) = some r) : ¬ c ∧ a = some r := by
  split at h
  · cases h
  · exact ⟨‹¬ c›, h⟩

/-! ### expand_dim -/

def rhoExpand (e : Expr) : Reidx := ⟨fun idx => e :: idx, fun acc => .point e :: acc, id⟩

mutual
theorem expandE_eq (x : Sym) (e : Expr) : ∀ (a : Expr), expandE x e a = reidxE x (rhoExpand e) a
  | .read y idx => by simp [expandE, reidxE, rhoExpand, expandEs_eq x e idx]
  | .lit _ => by simp [expandE, reidxE]
  | .usub a => by simp [expandE, reidxE, expandE_eq x e a]
  | .binop _ a b => by simp [expandE, reidxE, expandE_eq x e a, expandE_eq x e b]
  | .extern _ args => by simp [expandE, reidxE, expandEs_eq x e args]
  | .win y acc => by simp [expandE, reidxE, rhoExpand, expandWs_eq x e acc]
  | .stride y d => by simp [expandE, reidxE, rhoExpand]
  | .readcfg _ _ => by simp [expandE, reidxE]
theorem expandEs_eq (x : Sym) (e : Expr) : ∀ (as : List Expr),
    expandEs x e as = reidxEs x (rhoExpand e) as
  | [] => by simp [expandEs, reidxEs]
  | a :: r => by simp [expandEs, reidxEs, expandE_eq x e a, expandEs_eq x e r]
theorem expandW_eq (x : Sym) (e : Expr) : ∀ (w : WAcc), expandW x e w = reidxW x (rhoExpand e) w
  | .interval a b => by simp [expandW, reidxW, expandE_eq x e a, expandE_eq x e b]
  | .point a => by simp [expandW, reidxW, expandE_eq x e a]
theorem expandWs_eq (x : Sym) (e : Expr) : ∀ (ws : List WAcc),
    expandWs x e ws = reidxWs x (rhoExpand e) ws
  | [] => by simp [expandWs, reidxWs]
  | w :: r => by simp [expandWs, reidxWs, expandW_eq x e w, expandWs_eq x e r]
end

mutual
theorem expandS_eq (x : Sym) (e : Expr) : ∀ (s : Stmt), expandS x e s = reidxS x (rhoExpand e) s
  | .assign y idx rhs => by simp [expandS, reidxS, rhoExpand, expandEs_eq, expandE_eq]
  | .reduce y idx rhs => by simp [expandS, reidxS, rhoExpand, expandEs_eq, expandE_eq]
  | .writecfg _ _ rhs _ => by simp [expandS, reidxS, expandE_eq]
  | .pass => by simp [expandS, reidxS]
  | .ite c t el => by simp [expandS, reidxS, expandE_eq, expandL_eq x e t, expandL_eq x e el]
  | .loop _ lo hi b _ => by simp [expandS, reidxS, expandE_eq, expandL_eq x e b]
  | .alloc _ _ => by simp [expandS, reidxS]
  | .free _ => by simp [expandS, reidxS]
  | .call _ args => by simp [expandS, reidxS, expandEs_eq]
  | .window _ rhs => by simp [expandS, reidxS, expandE_eq]
theorem expandL_eq (x : Sym) (e : Expr) : ∀ (ss : List Stmt), expandL x e ss = reidxL x (rhoExpand e) ss
  | [] => by simp [expandL, reidxL]
  | s :: r => by simp [expandL, reidxL, expandS_eq x e s, expandL_eq x e r]
end

theorem reOk_expand (e : Expr) (k : Nat) (Γ' : Env) (he : wfC Γ' e = true) :
    ReOk (rhoExpand e) k (k + 1) false (fun _ => false) Γ' where
  idx := by
    intro es hl hw
    simp [rhoExpand, hl, wfCs, he, hw]
  win := by
    intro _ acc hl hw
    simp [rhoExpand, hl, wfAccs, wfAcc, he, hw, accRank]
  sdim := by intro d _ hd; simp [rhoExpand]; omega

theorem expandDim_local (n e : Expr) (Γ : Env) (ss r : List Stmt) (hr : expandDim n e ss = some r)
    (hok : expandDimOk Γ n e ss = true) (hw : (wfL Γ ss).isSome = true) :
    (wfL Γ r).isSome = true := by
  unfold expandDim at hr
  split at hr
  · rename_i x sh rest
    split at hr
    · cases hr
    · simp only [Option.some.injEq] at hr
      subst hr
      simp only [expandDimOk, Bool.and_eq_true] at hok
      obtain ⟨hf, hsh, _⟩ := alloc_inv hw
      have hx0 := (fresh_iff _ _).1 hf
      rw [expandL_eq]
      have := reindexDim_wf x sh (n :: sh) (rhoExpand e) false (fun _ => false)
        (fun Γ' => wfC Γ' e = true) (fun Γ' z v hg hz => wfC_weaken Γ' z v e hz hg)
        (fun Γ' hg => by simpa using reOk_expand e sh.length Γ' hg) Γ rest hw
        (by simp [wfCs, hok.1.1, hsh]) (wfC_weaken Γ x _ e hx0 hok.1.2) hok.2
      exact this
  · cases hr

/-! ### divide_dim -/

theorem wfC_litI (Γ : Env) (q : Int) : wfC Γ (litI q) = true := by simp [litI, wfC]

theorem wfC_divideExtent (Γ : Env) (e : Expr) (q : Int) (h : wfC Γ e = true) :
    wfC Γ (divideExtent e q) = true := by
  unfold divideExtent
  split
  · split
    · exact wfC_litI _ _
    · simp [wfC, wfC_litI]
  · simp [wfC, h, wfC_litI]

theorem divide_list {Γ : Env} {es : List Expr} {d : Nat} {e a b : Expr} (hd : es[d]? = some e)
    (hw : wfCs Γ es = true) (ha : wfC Γ a = true) (hb : wfC Γ b = true) :
    (es.take d ++ [a, b] ++ es.drop (d + 1)).length = es.length + 1 ∧
      wfCs Γ (es.take d ++ [a, b] ++ es.drop (d + 1)) = true := by
  have hlt : d < es.length := by
    rcases Nat.lt_or_ge d es.length with h | h
    · exact h
    · rw [List.getElem?_eq_none_iff.mpr h] at hd; cases hd
  constructor
  · simp only [List.length_append, List.length_take, List.length_drop, List.length_cons,
      List.length_nil]
    omega
  · rw [wfCs_iff] at hw ⊢
    intro c hc
    simp only [List.mem_append, List.mem_cons, List.not_mem_nil, or_false] at hc
    rcases hc with (hc | hc | hc) | hc
    · exact hw c (List.mem_of_mem_take hc)
    · rw [hc]; exact ha
    · rw [hc]; exact hb
    · exact hw c (List.mem_of_mem_drop hc)

theorem reOk_divide (d : Nat) (q : Int) (k : Nat) (hd : d < k) (Γ' : Env) :
    ReOk ⟨divideIdx d q, id, id⟩ k (k + 1) true (fun _ => false) Γ' where
  idx := by
    intro es hl hw
    have hlt : d < es.length := by omega
    have hg : es[d]? = some es[d] := List.getElem?_eq_getElem hlt
    have he : wfC Γ' es[d] = true := (wfCs_iff.1 hw) _ (mem_of_get? hg)
    simp only [divideIdx, hg]
    have := divide_list (a := .binop .div es[d] (litI q)) (b := .binop .mod es[d] (litI q)) hg hw
      (by simp [wfC, he, wfC_litI]) (by simp [wfC, he, wfC_litI])
    rw [hl] at this
    exact this
  win := by intro h; cases h
  sdim := by intro d' _ hd'; simp; omega

theorem divideDim_local (d : Nat) (q : Int) (Γ : Env) (ss r : List Stmt)
    (hr : divideDim d q ss = some r) (hok : divideDimOk ss = true)
    (hw : (wfL Γ ss).isSome = true) : (wfL Γ r).isSome = true := by
  unfold divideDim at hr
  split at hr
  · rename_i x sh rest
    obtain ⟨hc, hr⟩ := of_ite_some hr
    simp only [Bool.and_eq_true, decide_eq_true_eq] at hc
    simp only [] at hr
    obtain ⟨_, hr⟩ := of_ite_none hr
    obtain ⟨_, hr⟩ := of_ite_none hr
    simp only [reindexDim, Option.some.injEq] at hr
    subst hr
    simp only [divideDimOk] at hok
    obtain ⟨_, hsh, _⟩ := alloc_inv hw
    have hg : sh[d]? = some sh[d] := List.getElem?_eq_getElem hc.1
    have he : wfC Γ sh[d] = true := (wfCs_iff.1 hsh) _ (mem_of_get? hg)
    have hshape := divide_list (a := divideExtent sh[d] q) (b := litI q) hg hsh
      (wfC_divideExtent Γ _ q he) (wfC_litI Γ q)
    have hds : divideShape d q sh = sh.take d ++ [divideExtent sh[d] q, litI q] ++ sh.drop (d + 1) := by
      simp [divideShape, hg]
    rw [hds]
    exact reindexDim_wf x sh _ ⟨divideIdx d q, id, id⟩ true (fun _ => false)
      (fun _ => True) (fun _ _ _ _ _ => trivial)
      (fun Γ' _ => by rw [hshape.1]; exact reOk_divide d q sh.length hc.1 Γ') Γ rest hw
      hshape.2 trivial hok
  · cases hr

/-! ### mult_dim -/

theorem mult_list {Γ : Env} {es : List Expr} {hi lo : Nat} {X : Expr} (hlo : lo < es.length)
    (hw : wfCs Γ es = true) (hX : wfC Γ X = true) :
    ((es.set hi X).eraseIdx lo).length = es.length - 1 ∧
      wfCs Γ ((es.set hi X).eraseIdx lo) = true := by
  constructor
  · rw [List.length_eraseIdx]
    simp [hlo]
  · rw [wfCs_iff] at hw ⊢
    intro c hc
    have h1 := List.mem_of_mem_eraseIdx hc
    rcases List.mem_or_eq_of_mem_set h1 with h2 | h2
    · exact hw c h2
    · rw [h2]; exact hX

theorem reOk_mult (hi lo : Nat) (c : Int) (k : Nat) (hhi : hi < k) (hlo : lo < k) (Γ' : Env) :
    ReOk ⟨multIdx hi lo c, id, id⟩ k (k - 1) true (fun d => decide (k - 1 ≤ d)) Γ' where
  idx := by
    intro es hl hw
    have h1 : es[hi]? = some es[hi] := List.getElem?_eq_getElem (by omega)
    have h2 : es[lo]? = some es[lo] := List.getElem?_eq_getElem (by omega)
    have w1 : wfC Γ' es[hi] = true := (wfCs_iff.1 hw) _ (mem_of_get? h1)
    have w2 : wfC Γ' es[lo] = true := (wfCs_iff.1 hw) _ (mem_of_get? h2)
    simp only [multIdx, h1, h2]
    have := mult_list (hi := hi) (lo := lo)
      (X := .binop .add (.binop .mul (litI c) es[hi]) es[lo]) (by omega) hw
      (by simp [wfC, w1, w2, wfC_litI])
    exact ⟨this.1.trans (by rw [hl]), this.2⟩
  win := by intro h; cases h
  sdim := by
    intro d hp hd
    simp only [decide_eq_false_iff_not, Nat.not_le] at hp
    simpa using hp

theorem multDim_local (hi lo : Nat) (Γ : Env) (ss r : List Stmt)
    (hr : multDim hi lo ss = some r) (hok : multDimOk ss = true)
    (hw : (wfL Γ ss).isSome = true) : (wfL Γ r).isSome = true := by
  unfold multDim at hr
  split at hr
  · rename_i x sh rest
    obtain ⟨hc, hr⟩ := of_ite_some hr
    simp only [Bool.and_eq_true, decide_eq_true_eq, bne_iff_ne, ne_eq] at hc
    split at hr
    · rename_i c hcl
      obtain ⟨_, hr⟩ := of_ite_none hr
      simp only [reindexDim, Option.some.injEq] at hr
      subst hr
      simp only [multDimOk] at hok
      obtain ⟨_, hsh, _⟩ := alloc_inv hw
      have h1 : sh[hi]? = some sh[hi] := List.getElem?_eq_getElem hc.1.1
      have h2 : sh[lo]? = some sh[lo] := List.getElem?_eq_getElem hc.1.2
      have w1 : wfC Γ sh[hi] = true := (wfCs_iff.1 hsh) _ (mem_of_get? h1)
      have w2 : wfC Γ sh[lo] = true := (wfCs_iff.1 hsh) _ (mem_of_get? h2)
      have hshape := mult_list (hi := hi) (lo := lo) (X := .binop .mul sh[lo] sh[hi]) hc.1.2 hsh
        (by simp [wfC, w1, w2])
      have hms : multShape hi lo sh = (sh.set hi (.binop .mul sh[lo] sh[hi])).eraseIdx lo := by
        simp [multShape, h1, h2]
      rw [hms]
      exact reindexDim_wf x sh _ ⟨multIdx hi lo c, id, id⟩ true
        (fun d => decide (sh.length - 1 ≤ d)) (fun _ => True) (fun _ _ _ _ _ => trivial)
        (fun Γ' _ => by rw [hshape.1]; exact reOk_mult hi lo c sh.length hc.1.1 hc.1.2 Γ') Γ rest hw
        hshape.2 trivial hok
    · cases hr
  · cases hr

/-! ### resize_dim -/

theorem wfCs_set {Γ : Env} {es : List Expr} (d : Nat) {X : Expr} (hw : wfCs Γ es = true)
    (hX : wfC Γ X = true) : wfCs Γ (es.set d X) = true := by
  rw [wfCs_iff] at hw ⊢
  intro c hc
  rcases List.mem_or_eq_of_mem_set hc with h | h
  · exact hw c h
  · rw [h]; exact hX

theorem wfAccs_set {Γ : Env} {acc : List WAcc} (d : Nat) {X : WAcc} (hw : wfAccs Γ acc = true)
    (hX : wfAcc Γ X = true) : wfAccs Γ (acc.set d X) = true := by
  rw [wfAccs_iff] at hw ⊢
  intro c hc
  rcases List.mem_or_eq_of_mem_set hc with h | h
  · exact hw c h
  · rw [h]; exact hX

theorem accRank_set_point : ∀ (acc : List WAcc) (d : Nat) (e e' : Expr),
    acc[d]? = some (.point e) → accRank (acc.set d (.point e')) = accRank acc
  | [], _, _, _, h => by simp at h
  | w :: r, 0, e, e', h => by
    simp only [List.getElem?_cons_zero, Option.some.injEq] at h
    subst h; simp [accRank]
  | .point _ :: r, d + 1, e, e', h => by
    simp only [List.getElem?_cons_succ] at h
    simp [accRank, accRank_set_point r d e e' h]
  | .interval _ _ :: r, d + 1, e, e', h => by
    simp only [List.getElem?_cons_succ] at h
    simp [accRank, accRank_set_point r d e e' h]

theorem accRank_set_interval : ∀ (acc : List WAcc) (d : Nat) (a b a' b' : Expr),
    acc[d]? = some (.interval a b) → accRank (acc.set d (.interval a' b')) = accRank acc
  | [], _, _, _, _, _, h => by simp at h
  | w :: r, 0, a, b, a', b', h => by
    simp only [List.getElem?_cons_zero, Option.some.injEq] at h
    subst h; simp [accRank]
  | .point _ :: r, d + 1, a, b, a', b', h => by
    simp only [List.getElem?_cons_succ] at h
    simp [accRank, accRank_set_interval r d a b a' b' h]
  | .interval _ _ :: r, d + 1, a, b, a', b', h => by
    simp only [List.getElem?_cons_succ] at h
    simp [accRank, accRank_set_interval r d a b a' b' h]

theorem reOk_resize (d : Nat) (off : Expr) (k : Nat) (Γ' : Env) (ho : wfC Γ' off = true) :
    ReOk ⟨resizeIdx d off, resizeWin d off, id⟩ k k false (fun _ => false) Γ' where
  idx := by
    intro es hl hw
    show (resizeIdx d off es).length = k ∧ wfCs Γ' (resizeIdx d off es) = true
    unfold resizeIdx
    split
    · rename_i e he
      have we : wfC Γ' e = true := (wfCs_iff.1 hw) _ (mem_of_get? he)
      exact ⟨by simp [hl], wfCs_set d hw (by simp [wfC, we, ho])⟩
    · exact ⟨hl, hw⟩
  win := by
    intro _ acc hl hw
    show (resizeWin d off acc).length = k ∧ wfAccs Γ' (resizeWin d off acc) = true ∧
      accRank (resizeWin d off acc) = accRank acc
    unfold resizeWin
    split
    · rename_i e he
      have we : wfAcc Γ' (.point e) = true := (wfAccs_iff.1 hw) _ (mem_of_get? he)
      simp only [wfAcc] at we
      exact ⟨by simp [hl], wfAccs_set d hw (by simp [wfAcc, wfC, we, ho]),
        accRank_set_point acc d e _ he⟩
    · rename_i a b he
      have we : wfAcc Γ' (.interval a b) = true := (wfAccs_iff.1 hw) _ (mem_of_get? he)
      simp only [wfAcc, Bool.and_eq_true] at we
      exact ⟨by simp [hl], wfAccs_set d hw (by simp [wfAcc, wfC, we.1, we.2, ho]),
        accRank_set_interval acc d a b _ _ he⟩
    · exact ⟨hl, hw, rfl⟩
  sdim := by intro d' _ hd'; simpa using hd'

theorem resizeDim_local (d : Nat) (size off : Expr) (Γ : Env) (ss r : List Stmt)
    (hr : resizeDim d size off ss = some r) (hok : resizeDimOk Γ size off ss = true)
    (hw : (wfL Γ ss).isSome = true) : (wfL Γ r).isSome = true := by
  unfold resizeDim at hr
  split at hr
  · rename_i x sh rest
    obtain ⟨_, hr⟩ := of_ite_some hr
    obtain ⟨_, hr⟩ := of_ite_none hr
    simp only [reindexDim, Option.some.injEq] at hr
    subst hr
    simp only [resizeDimOk, Bool.and_eq_true] at hok
    obtain ⟨hf, hsh, _⟩ := alloc_inv hw
    have hx0 := (fresh_iff _ _).1 hf
    have hlen : (resizeShape d size sh).length = sh.length := by simp [resizeShape]
    exact reindexDim_wf x sh _ ⟨resizeIdx d off, resizeWin d off, id⟩ false (fun _ => false)
      (fun Γ' => wfC Γ' off = true) (fun Γ' z v hg hz => wfC_weaken Γ' z v off hz hg)
      (fun Γ' hg => by rw [hlen]; exact reOk_resize d off sh.length Γ' hg) Γ rest hw
      (by simpa [resizeShape] using wfCs_set d hsh hok.1.1) (wfC_weaken Γ x _ off hx0 hok.1.2) hok.2
  · cases hr

end Exo.WfShapes
