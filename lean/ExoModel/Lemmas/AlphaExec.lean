/-
  Soundness of the alpha comparison `Rw.blockEq'`: statements, blocks and callees that it accepts
  run in lock step from `RenRel`-related states (mutual induction over statement / block /
  procedure, as `execS`/`execL`/`execP`).
-/
import ExoModel.Lemmas.AlphaRel
import ExoModel.Lemmas.Exec

set_option linter.unusedSectionVars false
namespace Exo.Rw
open Exo
variable {V : Type} [DataAlg V] (ext : String → List V → V)

/-- leaving the scopes entered in related states, with outcomes that agree on heap and
    configuration, gives related states -/
theorem ExRel.leave {ρc ρv : Ren} {σ σ' : State V} (h : RenRel ρc ρv σ σ')
    {r r' : Except Err (State V)} (hr : ExRel SameHC r r') :
    ExRel (RenRel ρc ρv) (r.map (State.leave σ)) (r'.map (State.leave σ')) :=
  ExRel.map hr (fun _ _ hab => h.leave hab.1 hab.2)

theorem stmtEq'_some_iff {c : Bool} {r ρ' : Ren × Ren}
    (h : (if c = true then some r else none) = some ρ') : c = true ∧ r = ρ' := by
  cases c <;> simp_all

mutual
theorem execS_alpha : ∀ (s s' : Stmt) (ρc ρv : Ren) (ρ' : Ren × Ren) (σ σ' : State V),
    stmtEq' ρc ρv s s' = some ρ' → RenRel ρc ρv σ σ' →
    ExRel (RenRel ρ'.1 ρ'.2) (execS ext s σ) (execS ext s' σ')
  | .assign x i e, s', ρc, ρv, ρ', σ, σ', h, hr => by
    cases s' with
    | assign y j e' =>
      simp only [stmtEq'] at h
      obtain ⟨hc, rfl⟩ := stmtEq'_some_iff h
      simp only [Bool.and_eq_true] at hc
      simp only [execS, evalD_alpha ext hr e e' hc.2]
      cases evalD ext σ' e' with
      | error _ => rfl
      | ok v => exact writeCell_alpha hr x y i j (fun _ => v) hc.1.1 hc.1.2
    | _ => simp [stmtEq'] at h
  | .reduce x i e, s', ρc, ρv, ρ', σ, σ', h, hr => by
    cases s' with
    | reduce y j e' =>
      simp only [stmtEq'] at h
      obtain ⟨hc, rfl⟩ := stmtEq'_some_iff h
      simp only [Bool.and_eq_true] at hc
      simp only [execS, evalD_alpha ext hr e e' hc.2]
      cases evalD ext σ' e' with
      | error _ => rfl
      | ok v => exact writeCell_alpha hr x y i j (fun old => lift2 DataAlg.add old v) hc.1.1 hc.1.2
    | _ => simp [stmtEq'] at h
  | .writecfg c f e d, s', ρc, ρv, ρ', σ, σ', h, hr => by
    cases s' with
    | writecfg c' f' e' d' =>
      simp only [stmtEq'] at h
      obtain ⟨hc, rfl⟩ := stmtEq'_some_iff h
      simp only [Bool.and_eq_true, beq_iff_eq] at hc
      obtain ⟨⟨⟨rfl, rfl⟩, rfl⟩, he⟩ := hc
      cases d with
      | true =>
        simp only [execS, if_true, evalD_alpha ext hr e e' he]
        cases evalD ext σ' e' with
        | error _ => rfl
        | ok v => exact ⟨hr.heap, by simp [hr.cfg], hr.env, hr.views⟩
      | false =>
        simp only [execS, Bool.false_eq_true, if_false, evalC_alpha hr e e' he]
        cases evalC σ' e' with
        | error _ => rfl
        | ok v => exact ⟨hr.heap, by simp [hr.cfg], hr.env, hr.views⟩
    | _ => simp [stmtEq'] at h
  | .pass, s', ρc, ρv, ρ', σ, σ', h, hr => by
    cases s' with
    | pass =>
      simp only [stmtEq', Option.some.injEq] at h
      subst h
      exact hr
    | _ => simp [stmtEq'] at h
  | .ite c t e, s', ρc, ρv, ρ', σ, σ', h, hr => by
    cases s' with
    | ite c' t' e' =>
      simp only [stmtEq'] at h
      obtain ⟨hc, rfl⟩ := stmtEq'_some_iff h
      simp only [Bool.and_eq_true] at hc
      simp only [execS, evalC_alpha hr c c' hc.1.1]
      cases evalC σ' c' with
      | error _ => rfl
      | ok b =>
        simp only [bind, Except.bind]
        split
        · exact ExRel.leave hr (execL_alpha t t' ρc ρv σ σ' hc.1.2 hr)
        · exact ExRel.leave hr (execL_alpha e e' ρc ρv σ σ' hc.2 hr)
    | _ => simp [stmtEq'] at h
  | .loop i lo hi b par, s', ρc, ρv, ρ', σ, σ', h, hr => by
    cases s' with
    | loop i' lo' hi' b' par' =>
      simp only [stmtEq'] at h
      obtain ⟨hc, rfl⟩ := stmtEq'_some_iff h
      simp only [Bool.and_eq_true] at hc
      simp only [execS, evalC_alpha hr lo lo' hc.1.1.1, evalC_alpha hr hi hi' hc.1.1.2]
      cases evalC σ' lo' with
      | error _ => rfl
      | ok l =>
        cases evalC σ' hi' with
        | error _ => rfl
        | ok hv =>
          simp only [bind, Except.bind]
          split
          · rfl
          · exact iterate_rel (RenRel ρc ρv) _ _
              (fun v s s' hs => ExRel.leave hs
                (execL_alpha b b' ((i, i') :: ρc) ρv (s.bind i v) (s'.bind i' v) hc.2 (hs.bind i i' v)))
              _ _ σ σ' hr
    | _ => simp [stmtEq'] at h
  | .alloc x sh, s', ρc, ρv, ρ', σ, σ', h, hr => by
    cases s' with
    | alloc y sh' =>
      simp only [stmtEq'] at h
      obtain ⟨hc, rfl⟩ := stmtEq'_some_iff h
      simp only [execS, evalCs_alpha hr sh sh' hc]
      cases evalCs σ' sh' with
      | error _ => rfl
      | ok szs =>
        simp only [bind, Except.bind]
        cases checkSizes szs with
        | error _ => rfl
        | ok _ =>
          simp only [pure, Except.pure, ExRel]
          have hb := hr.bindView x y
            { buf := σ'.heap.length, off := 0, dims := denseDims szs }
          exact ⟨by simp [hr.heap], hr.cfg, hr.env, by simpa [hr.heap, State.bindView] using hb.views⟩
    | _ => simp [stmtEq'] at h
  | .free x, s', ρc, ρv, ρ', σ, σ', h, hr => by
    cases s' with
    | free y =>
      simp only [stmtEq'] at h
      obtain ⟨_, rfl⟩ := stmtEq'_some_iff h
      exact hr
    | _ => simp [stmtEq'] at h
  | .call f a, s', ρc, ρv, ρ', σ, σ', h, hr => by
    cases s' with
    | call g b =>
      simp only [stmtEq'] at h
      obtain ⟨hc, rfl⟩ := stmtEq'_some_iff h
      simp only [Bool.and_eq_true] at hc
      simp only [execS]
      exact execP_alpha f g hc.1 a b ρc ρv σ σ' hc.2 hr
    | _ => simp [stmtEq'] at h
  | .window x e, s', ρc, ρv, ρ', σ, σ', h, hr => by
    cases s' with
    | window y e' =>
      simp only [stmtEq'] at h
      obtain ⟨hc, rfl⟩ := stmtEq'_some_iff h
      simp only [execS, evalView_alpha hr e e' hc]
      cases evalView σ' e' with
      | error _ => rfl
      | ok v => exact hr.bindView x y v
    | _ => simp [stmtEq'] at h
/-- blocks: the outcomes agree on the error, or are states with the same heap and configuration
    (they are moreover `RenRel`-related under the renamings extended by the definitions of the
    block, see `execL_alpha_ren`) -/
theorem execL_alpha : ∀ (B B' : List Stmt) (ρc ρv : Ren) (σ σ' : State V),
    blockEq' ρc ρv B B' = true → RenRel ρc ρv σ σ' →
    ExRel SameHC (execL ext B σ) (execL ext B' σ')
  | [], [], _, _, _, _, _, hr => hr.sameHC
  | [], _ :: _, _, _, _, _, h, _ => by simp [blockEq'] at h
  | _ :: _, [], _, _, _, _, h, _ => by simp [blockEq'] at h
  | s :: r, s' :: r', ρc, ρv, σ, σ', h, hr => by
    simp only [blockEq'] at h
    cases h1 : stmtEq' ρc ρv s s' with
    | none => simp [h1] at h
    | some ρ' =>
      simp only [h1] at h
      simp only [execL]
      exact ExRel.bind (execS_alpha s s' ρc ρv ρ' σ σ' h1 hr)
        (fun a b hab => execL_alpha r r' ρ'.1 ρ'.2 a b h hab)
theorem execP_alpha : ∀ (f g : Proc), procEq' f g = true →
    ∀ (as bs : List Expr) (ρc ρv : Ren) (σ σ' : State V), argsEq' ρc ρv f.args as bs = true →
    RenRel ρc ρv σ σ' → ExRel (RenRel ρc ρv) (execP ext f as σ) (execP ext g bs σ')
  | .mk n fs ps b, .mk n' fs' ps' b', hp, as, bs, ρc, ρv, σ, σ', ha, hr => by
    simp only [procEq', Bool.and_eq_true] at hp
    obtain ⟨⟨⟨_, hfs⟩, hps⟩, hb⟩ := hp
    simp only [execP, bindArgs_alpha hr fs fs' as bs hfs ha [] []]
    cases bindArgs σ' fs' bs [] [] with
    | error _ => rfl
    | ok cecv =>
      obtain ⟨ce, cv⟩ := cecv
      simp only [bind, Except.bind]
      split
      · rfl
      · simp only [hr.heap, hr.cfg, checkShapes_alpha _ fs fs' hfs]
        cases checkShapes { env := ce, views := cv, heap := σ'.heap, cfg := σ'.cfg } fs' with
        | error _ => rfl
        | ok _ =>
          simp only [checkPreds_alpha _ ps ps' hps]
          cases checkPreds { env := ce, views := cv, heap := σ'.heap, cfg := σ'.cfg } ps' with
          | error _ => rfl
          | ok _ =>
            simp only []
            have hbody := execL_alpha b b' [] []
              { env := ce, views := cv, heap := σ'.heap, cfg := σ'.cfg }
              { env := ce, views := cv, heap := σ'.heap, cfg := σ'.cfg } hb (RenRel.refl _)
            have := ExRel.leave hr hbody
            cases h1 : execL ext b { env := ce, views := cv, heap := σ'.heap, cfg := σ'.cfg } <;>
              cases h2 : execL ext b' { env := ce, views := cv, heap := σ'.heap, cfg := σ'.cfg } <;>
              simp_all [ExRel, Except.map, pure, Except.pure]
end

/-- the outcomes of two accepted blocks are related under the renamings extended by the names
    the blocks define (existentially: the extension is what `stmtEq'` returns along the way) -/
theorem execL_alpha_ren : ∀ (B B' : List Stmt) (ρc ρv : Ren) (σ σ' : State V),
    blockEq' ρc ρv B B' = true → RenRel ρc ρv σ σ' →
    ∃ ρ' : Ren × Ren, ExRel (RenRel ρ'.1 ρ'.2) (execL ext B σ) (execL ext B' σ')
  | [], [], ρc, ρv, _, _, _, hr => ⟨(ρc, ρv), hr⟩
  | [], _ :: _, _, _, _, _, h, _ => by simp [blockEq'] at h
  | _ :: _, [], _, _, _, _, h, _ => by simp [blockEq'] at h
  | s :: r, s' :: r', ρc, ρv, σ, σ', h, hr => by
    simp only [blockEq'] at h
    cases h1 : stmtEq' ρc ρv s s' with
    | none => simp [h1] at h
    | some ρ1 =>
      simp only [h1] at h
      have hs := execS_alpha ext s s' ρc ρv ρ1 σ σ' h1 hr
      simp only [execL]
      cases h2 : execS ext s σ with
      | error e =>
        cases h3 : execS ext s' σ' with
        | error e' => rw [h2, h3] at hs; exact ⟨ρ1, hs⟩
        | ok b => rw [h2, h3] at hs; exact hs.elim
      | ok a =>
        cases h3 : execS ext s' σ' with
        | error e' => rw [h2, h3] at hs; exact hs.elim
        | ok b =>
          rw [h2, h3] at hs
          exact execL_alpha_ren r r' ρ1.1 ρ1.2 a b h hs

theorem ExRel.eq {α} {r r' : Except Err α} (h : ExRel Eq r r') : r = r' := by
  cases r <;> cases r' <;> simp_all [ExRel]

theorem leave_eq_of_sameHC (σ : State V) {a b : State V} (h : SameHC a b) :
    State.leave σ a = State.leave σ b := by
  simp [State.leave, h.1, h.2]

/-- run in a fresh scope from the SAME state, two accepted blocks give the same outcome -/
theorem execB_alpha {ρc ρv : Ren} {B B' : List Stmt} (h : blockEq' ρc ρv B B' = true)
    {σ σ' : State V} (hr : RenRel ρc ρv σ σ') (σ₀ : State V) :
    (execL ext B σ).map (State.leave σ₀) = (execL ext B' σ').map (State.leave σ₀) :=
  ExRel.eq (ExRel.map (execL_alpha ext B B' ρc ρv σ σ' h hr)
    (fun _ _ hab => leave_eq_of_sameHC σ₀ hab))

/-- a loop and a copy of it with a renamed iterator and an alpha-equal body are the same
    statement (what `cut_loop`, `fission`, the tail of `divide_loop` rely on when they give the
    copy a fresh iterator and `Alpha_Rename` its body) -/
theorem loop_alpha (i i' : Sym) (lo hi : Expr) (b b' : List Stmt) (par par' : Bool)
    (h : blockEq' [(i, i')] [] b b' = true) (σ : State V) :
    execS ext (.loop i lo hi b par) σ = execS ext (.loop i' lo hi b' par') σ := by
  simp only [execS]
  cases evalC σ lo with
  | error _ => rfl
  | ok l =>
    cases evalC σ hi with
    | error _ => rfl
    | ok hv =>
      simp only [bind, Except.bind]
      split
      · rfl
      · exact ExRel.eq (iterate_rel Eq _ _ (fun v s s' hs => by
          subst hs
          exact ExRel.of_eq
            (execB_alpha ext h ((RenRel.refl s).bind i i' v) s) (fun _ _ => rfl)) _ _ σ σ rfl)

end Exo.Rw
