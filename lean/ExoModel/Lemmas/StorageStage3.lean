/-
  stage_mem, part 3: a complete instance with a hypothesis-free geometry — a ONE-dimensional window
  `x[lo:hi]` of a buffer seen through a one-dimensional unit-stride view `vx` (`vx.dims = [(n, 1)]`,
  any offset): cell `vx.off + j` with `lv ≤ j < hv` ↦ cell `j - lv` of the staging buffer.

  * `stAcc_1d`      : the access hypothesis `StAcc` for this geometry
  * `copy_loop`     : a generic copy loop `for i in 0..L: y[ey] = z[ez]` (invariant by iteration count)
  * `loadOK_1d`, `storeOK_1d` : the copy nests `Rw.stageLoad` / `Rw.stageStore` (no safety guard)
  * `stage_mem_1d_fwd_partial`, `stage_mem_1d_refW_partial` : the instances of the block theorems
  * the example `for i in 0..4: y[i] = x[i+1] * 2` staged on `x[1:5]`, instantiated at `σe`
-/
import ExoModel.Lemmas.StorageStage

set_option linter.unusedSectionVars false
set_option linter.unusedVariables false

namespace Exo.Stg
open Exo
variable {V : Type}

/-- the cell map of a one-dimensional window `[lv, hv)` of a unit-stride view with offset `off` -/
def C1d (off lv hv : Int) : Nat → Option Nat := fun c =>
  if lv ≤ (c : Int) - off ∧ (c : Int) - off < hv then some ((c : Int) - off - lv).toNat else none

theorem c1d_img {off lv hv : Int} (hoff : 0 ≤ off) (h0 : 0 ≤ lv) (j : Nat)
    (hj : (j : Int) < hv - lv) : C1d off lv hv ((off + lv).toNat + j) = some j := by
  unfold C1d
  rw [if_pos (by omega)]
  congr 1
  omega

/-! ### small evaluation lemmas -/

theorem viewOffset_1d {n j off : Int} (h0 : 0 ≤ j) (h1 : j < n) :
    viewOffset [(n, 1)] [j] off = .ok (off + j) := by
  simp only [viewOffset, if_pos (And.intro h0 h1)]
  simp [pure, Except.pure]

theorem viewOffset_1d_inv {n off o : Int} {is : List Int}
    (h : viewOffset [(n, 1)] is off = .ok o) : ∃ j, is = [j] ∧ 0 ≤ j ∧ j < n ∧ o = off + j := by
  match is, h with
  | [], h => simp [viewOffset] at h
  | [j], h =>
    simp only [viewOffset] at h
    split at h
    · rename_i hi
      have e := Except.ok.inj h
      exact ⟨j, rfl, hi.1, hi.2, by omega⟩
    · cases h
  | j :: k :: r, h =>
    simp only [viewOffset] at h
    split at h <;> cases h

theorem evalCs_one {s : State V} {e : Expr} {v : Int} (h : evalC s e = .ok v) :
    evalCs s [e] = .ok [v] := by
  simp only [evalCs, h]; rfl

theorem evalCs_single_inv {s : State V} {idx : List Expr} {j : Int}
    (h : evalCs s idx = .ok [j]) : ∃ e, idx = [e] ∧ evalC s e = .ok j := by
  match idx, h with
  | [], h => cases (ReidxExamples.evalCs_nil_ok h)
  | [e], h =>
    obtain ⟨v, vs, hv, hvs, e1⟩ := ReidxExamples.evalCs_cons_ok h
    have := ReidxExamples.evalCs_nil_ok hvs
    subst this
    cases e1
    exact ⟨e, rfl, hv⟩
  | e :: e2 :: r, h =>
    obtain ⟨v, vs, hv, hvs, e1⟩ := ReidxExamples.evalCs_cons_ok h
    obtain ⟨v2, vs2, _, _, e2'⟩ := ReidxExamples.evalCs_cons_ok hvs
    subst e2'
    cases e1

theorem evalCs_single {s : State V} {e : Expr} {j : Int} (h : evalCs s [e] = .ok [j]) :
    evalC s e = .ok j := by
  obtain ⟨e', he', hj⟩ := evalCs_single_inv h
  cases he'
  exact hj

theorem evalC_add {s : State V} {a b : Expr} {x y : Int} (ha : evalC s a = .ok x)
    (hb : evalC s b = .ok y) : evalC s (.binop .add a b) = .ok (x + y) := by
  simp only [evalC, ha, hb]; rfl

theorem evalC_sub {s : State V} {a b : Expr} {x y : Int} (ha : evalC s a = .ok x)
    (hb : evalC s b = .ok y) : evalC s (.binop .sub a b) = .ok (x - y) := by
  simp only [evalC, ha, hb]; rfl

theorem evalC_bindvar (s : State V) (i : Sym) (k : Int) :
    evalC (s.bind i k) (.read i []) = .ok k := by
  simp [evalC, State.bind, lookupSym]
  rfl

theorem evalC_bind_envOnly {e : Expr} (he : e.envOnly = true) {i : Sym} (hi : e.occC i = false)
    {σ1 s : State V} (henv : s.env = σ1.env) (k : Int) : evalC (s.bind i k) e = evalC σ1 e := by
  refine evalC_envOnly e he σ1 (s.bind i k) (fun y hy => ?_)
  have hyi : ¬ y = i := fun hyi => by rw [hyi, hi] at hy; cases hy
  show lookupSym y ((i, k) :: s.env) = _
  rw [lookupSym_cons, if_neg hyi, henv]

theorem evalC_env_envOnly {e : Expr} (he : e.envOnly = true) {σ1 s : State V}
    (henv : s.env = σ1.env) : evalC s e = evalC σ1 e :=
  evalC_envOnly e he σ1 s (fun _ _ => by rw [henv])

theorem target_1d {s : State V} {y : Sym} {v : View} {idx : List Expr} {n j : Int}
    {b : List (Option V)} {c : Nat}
    (hl : lookupSym y s.views = some v) (hd : v.dims = [(n, 1)]) (hidx : evalCs s idx = .ok [j])
    (h0 : 0 ≤ j) (h1 : j < n) (hb : s.heap[v.buf]? = some b) (hc0 : 0 ≤ v.off + j)
    (hc1 : v.off + j < (b.length : Int)) (hc : (v.off + j).toNat = c) :
    Fp.target s y idx = .ok (v.buf, c) := by
  unfold Fp.target
  rw [hl]
  simp only []
  rw [hidx, ok_bind]
  have := Stage.cellOf_intro (h := s.heap) (v := v) hb (by rw [hd]; exact viewOffset_1d h0 h1) hc0 hc1
  rw [this, hc]

/-! ### the access geometry -/

theorem stAcc_1d (V : Type) (lo hi : Expr) (vx : View) (n lv hv : Int) (N : Nat)
    (hd : vx.dims = [(n, 1)]) :
    StAcc V [.interval lo hi] vx { buf := N, off := 0, dims := denseDims [hv - lv] }
      (C1d vx.off lv hv) (Rw.stageLos [.interval lo hi]) [lv] := by
  constructor
  · intro a b c' ha hb
    simp only [C1d] at ha hb
    split at ha
    · split at hb
      · have e1 := Option.some.inj ha
        have e2 := Option.some.inj hb
        omega
      · cases hb
    · cases ha
  · intro s idx is o c' hlos hidx hvo ho0 hC
    rw [hd] at hvo
    obtain ⟨j, rfl, hj0, hj1, rfl⟩ := viewOffset_1d_inv hvo
    obtain ⟨e, rfl, he⟩ := evalCs_single_inv hidx
    have hlo : evalC s lo = .ok lv := evalCs_single hlos
    simp only [C1d] at hC
    split at hC
    · rename_i hw
      have ec := Option.some.inj hC
      refine ⟨[j - lv], evalCs_one (evalC_sub he hlo), ?_⟩
      show viewOffset [(hv - lv, 1)] [j - lv] 0 = _
      rw [viewOffset_1d (by omega) (by omega)]
      congr 1
      omega
    · cases hC

/-! ### a generic copy loop -/

section
variable [DataAlg V] (ext : String → List V → V)

theorem exec_copy (s : State V) (y z : Sym) (idy idz : List Expr) (cy cz : Nat × Nat)
    (hty : Fp.target s y idy = .ok cy) (htz : Fp.target s z idz = .ok cz) :
    execL ext [.assign y idy (.read z idz)] s
      = .ok { s with heap := heapSet s.heap cy (heapGet s.heap cz) } := by
  have h1 : execS ext (.assign y idy (.read z idz)) s
      = .ok { s with heap := heapSet s.heap cy (heapGet s.heap cz) } := by
    simp only [execS]
    rw [Fp.evalD_read, htz]
    show writeCell s y idy (fun _ => heapGet s.heap cz) = _
    rw [Fp.writeCell_eq, hty]
    rfl
  rw [execL_cons_ok ext h1]
  rfl

theorem leave_heapWrite (s : State V) (i : Sym) (k : Int) (h' : List (List (Option V)))
    (hl : h'.length = s.heap.length) :
    State.leave s { (s.bind i k) with heap := h' } = { s with heap := h' } := by
  simp only [State.leave, State.bind]
  rw [← hl, List.take_length]

/-- loop invariant: everything but buffer `Bf` is as in `σ1`; cells `b0 … b0+k-1` of `Bf` hold cells
    `a0 … a0+k-1` of `ba`, the other cells of `Bf` are as in `bf` -/
def CInv (σ1 : State V) (Bf a0 b0 : Nat) (ba bf : List (Option V)) (k : Nat) (s : State V) : Prop :=
  s.env = σ1.env ∧ s.cfg = σ1.cfg ∧ s.views = σ1.views ∧ s.heap.length = σ1.heap.length ∧
  (∀ b, b ≠ Bf → s.heap[b]? = σ1.heap[b]?) ∧
  ∃ bf', s.heap[Bf]? = some bf' ∧ bf'.length = bf.length ∧
    (∀ j, j < k → bf'[b0 + j]? = ba[a0 + j]?) ∧ (∀ c, (c < b0 ∨ b0 + k ≤ c) → bf'[c]? = bf[c]?)

theorem copy_step (σ1 : State V) (A Bf a0 b0 L : Nat) (ba bf : List (Option V)) (hAB : A ≠ Bf)
    (hA : σ1.heap[A]? = some ba) (ha : ∀ j, j < L → a0 + j < ba.length) (hb : b0 + L ≤ bf.length)
    (k : Nat) (hk : k < L) (s : State V) (hinv : CInv σ1 Bf a0 b0 ba bf k s) :
    CInv σ1 Bf a0 b0 ba bf (k + 1)
      { s with heap := heapSet s.heap (Bf, b0 + k) (heapGet s.heap (A, a0 + k)) } := by
  obtain ⟨e1, e2, e3, e4, e5, bf', h1, h2, h3, h4⟩ := hinv
  have hsA : s.heap[A]? = some ba := by rw [e5 A hAB]; exact hA
  obtain ⟨u, hu⟩ := exists_getElem? ba (a0 + k) (ha k hk)
  have hv : heapGet s.heap (A, a0 + k) = u := by
    simp only [heapGet, hsA, hu]; rfl
  rw [hv]
  refine ⟨e1, e2, e3, ?_, ?_, bf'.set (b0 + k) u, ?_, ?_, ?_, ?_⟩
  · simp only [heapSet, List.length_modify]; exact e4
  · intro b hb'
    rw [getElem?_heapSet, if_neg (fun e => hb' e.symm)]
    exact e5 b hb'
  · rw [getElem?_heapSet, if_pos rfl, h1]; rfl
  · rw [List.length_set]; exact h2
  · intro j hj
    by_cases hjk : j = k
    · subst hjk
      rw [List.getElem?_set, if_pos rfl, if_pos (by omega), hu]
    · rw [List.getElem?_set, if_neg (by omega)]
      exact h3 j (by omega)
  · intro c hc
    rw [List.getElem?_set, if_neg (by omega)]
    exact h4 c (by omega)

theorem iterate_count (Inv : Nat → State V → Prop) (f : Int → State V → Except Err (State V))
    (n : Nat)
    (hstep : ∀ k s, k < n → Inv k s → ∃ s', f (k : Int) s = .ok s' ∧ Inv (k + 1) s') :
    ∀ (m k : Nat) (s : State V), k + m = n → Inv k s →
      ∃ s', iterate f m (k : Int) s = .ok s' ∧ Inv n s'
  | 0, k, s, hkm, h => by
    have e : k = n := by omega
    subst e
    exact ⟨s, rfl, h⟩
  | m + 1, k, s, hkm, h => by
    obtain ⟨s1, h1, hi1⟩ := hstep k s (by omega) h
    obtain ⟨s', h2, hi2⟩ := iterate_count Inv f n hstep m (k + 1) s1 (by omega) hi1
    refine ⟨s', ?_, hi2⟩
    show (f (k : Int) s >>= fun σ' => iterate f m ((k : Int) + 1) σ') = _
    rw [h1, ok_bind]
    have e : ((k : Int) + 1) = ((k + 1 : Nat) : Int) := by omega
    rw [e]; exact h2

/-- `for i in 0..L: y[ey] = z[ez]` where in iteration `k` the target is cell `b0 + k` of buffer `Bf`
    and the source cell `a0 + k` of buffer `A` -/
theorem copy_loop (σ1 : State V) (i y z : Sym) (ey ez : List Expr) (A Bf a0 b0 L : Nat)
    (ba bf : List (Option V)) (hAB : A ≠ Bf) (hA : σ1.heap[A]? = some ba)
    (hBf : σ1.heap[Bf]? = some bf) (ha : ∀ j, j < L → a0 + j < ba.length)
    (hb : b0 + L ≤ bf.length)
    (htgt : ∀ (s : State V) (k : Nat), k < L → s.env = σ1.env → s.cfg = σ1.cfg →
      s.views = σ1.views → s.heap[A]? = some ba →
      (∃ bf', s.heap[Bf]? = some bf' ∧ bf'.length = bf.length) →
      Fp.target (s.bind i k) y ey = .ok (Bf, b0 + k) ∧
      Fp.target (s.bind i k) z ez = .ok (A, a0 + k)) :
    ∃ s', iterate (fun v s => (execL ext [.assign y ey (.read z ez)] (s.bind i v)).map
        (State.leave s)) L 0 σ1 = .ok s' ∧ CInv σ1 Bf a0 b0 ba bf L s' := by
  have init : CInv σ1 Bf a0 b0 ba bf 0 σ1 :=
    ⟨rfl, rfl, rfl, rfl, fun _ _ => rfl, bf, hBf, rfl,
      fun j hj => absurd hj (Nat.not_lt_zero _), fun c _ => rfl⟩
  refine iterate_count (CInv σ1 Bf a0 b0 ba bf) _ L ?_ L 0 σ1 (by omega) init
  intro k s hk hinv
  have hinv' := hinv
  obtain ⟨e1, e2, e3, e4, e5, bf', h1, h2, h3, h4⟩ := hinv'
  have hsA : s.heap[A]? = some ba := by rw [e5 A hAB]; exact hA
  have ht := htgt s k hk e1 e2 e3 hsA ⟨bf', h1, h2⟩
  refine ⟨{ s with heap := heapSet s.heap (Bf, b0 + k) (heapGet s.heap (A, a0 + k)) }, ?_,
    copy_step σ1 A Bf a0 b0 L ba bf hAB hA ha hb k hk s hinv⟩
  show (execL ext [.assign y ey (.read z ez)] (s.bind i (k : Int))).map (State.leave s) = _
  rw [exec_copy ext (s.bind i k) y z ey ez _ _ ht.1 ht.2]
  exact congrArg Except.ok (leave_heapWrite s i k _ (by
    simp only [heapSet, List.length_modify]; rfl))

/-- a counting loop from `0` -/
theorem exec_loop0 (i : Sym) (cnt : Expr) (body : List Stmt) (σ1 s' : State V) (c : Int)
    (hc : evalC σ1 cnt = .ok c) (hc0 : 0 ≤ c)
    (h : iterate (fun v s => (execL ext body (s.bind i v)).map (State.leave s)) c.toNat 0 σ1
      = .ok s') :
    execL ext [.loop i (.lit (.int 0)) cnt body false] σ1 = .ok s' := by
  have hS : execS ext (.loop i (.lit (.int 0)) cnt body false) σ1 = .ok s' := by
    simp only [execS, evalC, hc, bind, Except.bind, pure, Except.pure]
    rw [if_neg (by omega)]
    simp only [Int.sub_zero]
    exact h
  rw [execL_cons_ok ext hS]
  rfl

end

/-! ### the copy nests of a one-dimensional staging buffer -/

theorem stageLoad_1d (x xs i : Sym) (lo hi : Expr) :
    Rw.stageLoad x xs [.interval lo hi] [i] false none =
      [.loop i (.lit (.int 0)) (.binop .sub hi lo)
        [.assign xs [.read i []] (.read x [.binop .add (.read i []) lo])] false] := rfl

theorem stageStore_1d (x xs i : Sym) (lo hi : Expr) :
    Rw.stageStore x xs [.interval lo hi] [i] false none =
      [.loop i (.lit (.int 0)) (.binop .sub hi lo)
        [.assign x [.binop .add (.read i []) lo] (.read xs [.read i []])] false] := rfl

section
variable [DataAlg V] (ext : String → List V → V)

/-- **copy-in, one-dimensional**: `for i in 0..hi-lo: xs[i] = x[i + lo]` -/
theorem loadOK_1d (x xs i : Sym) (lo hi : Expr) (σ1 : State V) (vx : View) (n lv hv : Int)
    (N : Nat) (hlo : lo.envOnly = true) (hhi : hi.envOnly = true) (hilo : lo.occC i = false)
    (hx : lookupSym x σ1.views = some vx)
    (hxs : lookupSym xs σ1.views = some { buf := N, off := 0, dims := denseDims [hv - lv] })
    (hd : vx.dims = [(n, 1)]) (hMN : vx.buf ≠ N)
    (hlv : evalC σ1 lo = .ok lv) (hhv : evalC σ1 hi = .ok hv)
    (h0 : 0 ≤ lv) (h1 : lv ≤ hv) (h2 : hv ≤ n) (hoff : 0 ≤ vx.off)
    (hfit : ∀ b, σ1.heap[vx.buf]? = some b → vx.off + n ≤ (b.length : Int))
    (hNbuf : ∃ rn, σ1.heap[N]? = some rn ∧ rn.length = (hv - lv).toNat) :
    LoadOK ext (Rw.stageLoad x xs [.interval lo hi] [i] false none) vx.buf N
      (C1d vx.off lv hv) σ1 := by
  intro rm0 hrm0
  obtain ⟨rn, hrn, hrnl⟩ := hNbuf
  have hfit' := hfit rm0 hrm0
  obtain ⟨s', hs', e1, e2, e3, e4, e5, rn', g1, g2, g3, g4⟩ :=
    copy_loop ext σ1 i xs x [.read i []] [.binop .add (.read i []) lo] vx.buf N
      (vx.off + lv).toNat 0 (hv - lv).toNat rm0 rn hMN hrm0 hrn
      (fun j hj => by omega) (by omega)
      (fun s k hk he hc hv' hsA hsB => by
        obtain ⟨bf', hsB, hbl⟩ := hsB
        have hik := evalC_bindvar s i (k : Int)
        have hlo' : evalC (s.bind i k) lo = .ok lv := by
          rw [evalC_bind_envOnly hlo hilo he]; exact hlv
        constructor
        · exact target_1d (s := s.bind i k) (y := xs)
            (v := { buf := N, off := 0, dims := denseDims [hv - lv] }) (n := hv - lv)
            (j := (k : Int)) (b := bf') (c := 0 + k)
            (by show lookupSym xs s.views = _; rw [hv']; exact hxs) rfl (evalCs_one hik)
            (by omega) (by omega) hsB (by show (0 : Int) ≤ 0 + (k : Int); omega)
            (by show (0 : Int) + (k : Int) < (bf'.length : Int); omega)
            (by show ((0 : Int) + (k : Int)).toNat = 0 + k; omega)
        · exact target_1d (s := s.bind i k) (y := x) (n := n) (j := (k : Int) + lv)
            (by show lookupSym x s.views = _; rw [hv']; exact hx) hd
            (evalCs_one (evalC_add hik hlo')) (by omega) (by omega) hsA (by omega) (by omega)
            (by omega))
  have hcnt : evalC σ1 (.binop .sub hi lo) = .ok (hv - lv) := evalC_sub hhv hlv
  refine ⟨s', ?_, e1, e2, e3, ?_⟩
  · rw [stageLoad_1d]
    exact exec_loop0 ext i _ _ σ1 s' (hv - lv) hcnt (by omega) hs'
  · refine ⟨hMN, e4, fun b hbM hbN => e5 b hbN, rm0, rm0, rn', hrm0,
      by rw [e5 _ hMN]; exact hrm0, g1, rfl, fun _ _ => rfl, ?_⟩
    intro c c' hC
    simp only [C1d] at hC
    split at hC
    · have ec := Option.some.inj hC
      have := g3 c' (by omega)
      have ea : (vx.off + lv).toNat + c' = c := by omega
      rw [Nat.zero_add, ea] at this
      exact this
    · cases hC

/-- **copy-out, one-dimensional**: `for i in 0..hi-lo: x[i + lo] = xs[i]` -/
theorem storeOK_1d (x xs i : Sym) (lo hi : Expr) (B : List Stmt) (σ1 : State V) (vx : View)
    (n lv hv : Int) (N : Nat) (pv : Sym → View) (hpx : pv x = vx)
    (hpxs : pv xs = { buf := N, off := 0, dims := denseDims [hv - lv] })
    (hlo : lo.envOnly = true) (hhi : hi.envOnly = true) (hilo : lo.occC i = false)
    (hd : vx.dims = [(n, 1)]) (hMN : vx.buf ≠ N) (hMlt : vx.buf < σ1.heap.length)
    (hlv : evalC σ1 lo = .ok lv) (hhv : evalC σ1 hi = .ok hv)
    (h0 : 0 ≤ lv) (h1 : lv ≤ hv) (h2 : hv ≤ n) (hoff : 0 ≤ vx.off)
    (hfit : ∀ b, σ1.heap[vx.buf]? = some b → vx.off + n ≤ (b.length : Int)) :
    StoreOK ext (Rw.stageStore x xs [.interval lo hi] [i] false none) B x xs vx.buf N
      (C1d vx.off lv hv) pv σ1 := by
  intro rm0 tB tB' hrm0 hB hrel
  have hfit' := hfit rm0 hrm0
  have henvB : tB.env = σ1.env := (execL_scope ext B σ1 tB hB).1
  have henv' : tB'.env = σ1.env := hrel.env.trans henvB
  obtain ⟨lm, rm, rn, k1, k2, k3, q0, q1, q2⟩ := hrel.heap.big
  subst q0
  have hlen : lm.length = rm.length := by
    have := (Fp.replayL ext B σ1 tB hB).shape vx.buf hMlt
    rw [k1, hrm0] at this
    simpa using this
  have hxv : lookupSym x tB'.views = some vx := by
    rw [hrel.views, hrel.px x (Or.inl rfl), hpx]
  have hxsv : lookupSym xs tB'.views
      = some { buf := N, off := 0, dims := denseDims [hv - lv] } := by
    rw [hrel.views, hrel.px xs (Or.inr rfl), hpxs]
  have hrnlt : ∀ j, j < (hv - lv).toNat → 0 + j < rn.length := by
    intro j hj
    have hc := c1d_img (hv := hv) hoff h0 j (by omega)
    have := Stage.lt_iff_of_getElem?_eq (q2 _ _ hc)
    rw [Nat.zero_add]
    exact this.2 (by omega)
  obtain ⟨s', hs', e1, e2, e3, e4, e5, rm', g1, g2, g3, g4⟩ :=
    copy_loop ext tB' i x xs [.binop .add (.read i []) lo] [.read i []] N vx.buf
      0 (vx.off + lv).toNat (hv - lv).toNat rn rm (fun e => hMN e.symm) k3 k2
      hrnlt (by omega)
      (fun s k hk he hc hv' hsA hsB => by
        obtain ⟨bf', hsB, hbl⟩ := hsB
        have hik := evalC_bindvar s i (k : Int)
        have hlo' : evalC (s.bind i k) lo = .ok lv := by
          rw [evalC_bind_envOnly hlo hilo (he.trans henv')]; exact hlv
        have hkr := hrnlt k hk
        constructor
        · exact target_1d (s := s.bind i k) (y := x) (n := n) (j := (k : Int) + lv)
            (by show lookupSym x s.views = _; rw [hv']; exact hxv) hd
            (evalCs_one (evalC_add hik hlo')) (by omega) (by omega) hsB (by omega) (by omega)
            (by omega)
        · exact target_1d (s := s.bind i k) (y := xs)
            (v := { buf := N, off := 0, dims := denseDims [hv - lv] }) (n := hv - lv)
            (j := (k : Int)) (b := rn) (c := 0 + k)
            (by show lookupSym xs s.views = _; rw [hv']; exact hxsv) rfl (evalCs_one hik)
            (by omega) (by omega) hsA (by show (0 : Int) ≤ 0 + (k : Int); omega)
            (by show (0 : Int) + (k : Int) < (rn.length : Int); omega)
            (by show ((0 : Int) + (k : Int)).toNat = 0 + k; omega))
  have hcnt : evalC tB' (.binop .sub hi lo) = .ok (hv - lv) :=
    evalC_sub (by rw [evalC_env_envOnly hhi henv']; exact hhv)
      (by rw [evalC_env_envOnly hlo henv']; exact hlv)
  refine ⟨s', ?_, e1.trans hrel.env, e2.trans hrel.cfg, e3.trans hrel.views,
    e4.trans hrel.heap.len, ?_⟩
  · rw [stageStore_1d]
    exact exec_loop0 ext i _ _ tB' s' (hv - lv) hcnt (by omega) hs'
  · intro b hbN
    by_cases hbM : b = vx.buf
    · subst hbM
      rw [g1, k1]
      congr 1
      apply List.ext_getElem?
      intro c
      cases hC : C1d vx.off lv hv c with
      | none =>
        have hout : c < (vx.off + lv).toNat ∨ (vx.off + lv).toNat + (hv - lv).toNat ≤ c := by
          simp only [C1d] at hC
          split at hC
          · cases hC
          · rename_i hw
            omega
        rw [g4 c hout]
        exact q1 c hC
      | some c' =>
        have hC' := hC
        simp only [C1d] at hC'
        split at hC'
        · have ec := Option.some.inj hC'
          have := g3 c' (by omega)
          have ea : (vx.off + lv).toNat + c' = c := by omega
          rw [ea, Nat.zero_add] at this
          rw [this]
          exact q2 c c' hC
        · cases hC'
    · rw [e5 b hbM]
      exact hrel.heap.other b hbM hbN

end

/-! ### the one-dimensional instance of the block theorems -/

section
variable [DataAlg V] (ext : String → List V → V)

/-- the semantic hypotheses of the one-dimensional instance in a state `σ`: `x` is bound to a
    unit-stride one-dimensional view `vx` of extent `n` that lies inside its buffer and is the only
    view into it; the window bounds have values `0 ≤ lv < hv ≤ n`; every access of the block to the
    buffer of `x` hits a cell `vx.off + j`, `lv ≤ j < hv` -/
structure Stage1dHyp (x xs : Sym) (lo hi : Expr) (B : List Stmt) (σ : State V) (vx : View)
    (n lv hv : Int) : Prop where
  hx : lookupSym x σ.views = some vx
  hd : vx.dims = [(n, 1)]
  hid : ∀ y v, y ≠ x → lookupSym y σ.views = some v → v.buf ≠ vx.buf
  hlv : evalC σ lo = .ok lv
  hhv : evalC σ hi = .ok hv
  h0 : 0 ≤ lv
  h1 : lv < hv
  h2 : hv ≤ n
  hoff : 0 ≤ vx.off
  hfit : ∀ b, σ.heap[vx.buf]? = some b → vx.off + n ≤ (b.length : Int)
  acc : AccIn vx.buf (DC (C1d vx.off lv hv)) (Fp.evL ext B (allocSt σ xs [hv - lv]))

/-- all hypotheses of the general theorem, for the one-dimensional geometry and the real copy nests -/
theorem stageHyp_1d (x xs i : Sym) (lo hi : Expr) (B : List Stmt) (σ : State V) (hvo : ViewsOk σ)
    (hxxs : x ≠ xs) (hlo : lo.envOnly = true) (hhi : hi.envOnly = true)
    (hilo : lo.occC i = false) (vx : View) (n lv hv : Int)
    (H : Stage1dHyp ext x xs lo hi B σ vx n lv hv) :
    StageHyp ext x xs [.interval lo hi] B (Rw.stageLoad x xs [.interval lo hi] [i] false none) σ vx
      [hv - lv] [lv] (C1d vx.off lv hv) ∧
    StoreOK ext (Rw.stageStore x xs [.interval lo hi] [i] false none) B x xs vx.buf σ.heap.length
      (C1d vx.off lv hv) (pvOf xs vx (vxsOf σ [hv - lv])) (allocSt σ xs [hv - lv]) := by
  have hlt : vx.buf < σ.heap.length := hvo (x, vx) (lookupSym_mem H.hx)
  have hMN : vx.buf ≠ σ.heap.length := by omega
  have h0 := H.h0
  have h1 := H.h1
  have hx' : lookupSym x (allocSt σ xs [hv - lv]).views = some vx := by
    simp only [allocSt, lookupSym, if_neg hxxs]; exact H.hx
  have hxs' : lookupSym xs (allocSt σ xs [hv - lv]).views
      = some { buf := σ.heap.length, off := 0, dims := denseDims [hv - lv] } := by
    simp [allocSt, lookupSym]
  have hlv' : evalC (allocSt σ xs [hv - lv]) lo = .ok lv :=
    (evalC_env_envOnly hlo (σ1 := σ) (s := allocSt σ xs [hv - lv]) rfl).trans H.hlv
  have hhv' : evalC (allocSt σ xs [hv - lv]) hi = .ok hv :=
    (evalC_env_envOnly hhi (σ1 := σ) (s := allocSt σ xs [hv - lv]) rfl).trans H.hhv
  have hfit' : ∀ b, (allocSt σ xs [hv - lv]).heap[vx.buf]? = some b →
      vx.off + n ≤ (b.length : Int) := by
    intro b hb
    have hb' : (σ.heap ++ [List.replicate (([hv - lv] : List Int).foldl (· * ·) 1).toNat none])[vx.buf]?
        = some b := hb
    rw [List.getElem?_append_left hlt] at hb'
    exact H.hfit b hb'
  constructor
  · refine ⟨H.hx, H.hid, ?_, ?_, ?_, ?_, H.acc, ?_⟩
    · show evalCs σ [.binop .sub hi lo] = _
      exact evalCs_one (evalC_sub H.hhv H.hlv)
    · have : ¬ hv - lv ≤ 0 := by omega
      simp only [checkSizes, if_neg this]
      rfl
    · show evalCs σ [lo] = _
      exact evalCs_one H.hlv
    · exact stAcc_1d V lo hi vx n lv hv σ.heap.length H.hd
    · exact loadOK_1d ext x xs i lo hi _ vx n lv hv σ.heap.length hlo hhi hilo hx' hxs' H.hd hMN
        hlv' hhv' h0 (by omega) H.h2 H.hoff hfit'
        ⟨List.replicate (1 * (hv - lv)).toNat none, getElem?_append_last _ _, by
          rw [List.length_replicate, Int.one_mul]⟩
  · exact storeOK_1d ext x xs i lo hi B _ vx n lv hv σ.heap.length _ (by simp [pvOf, hxxs])
      (by simp [pvOf, vxsOf]) hlo hhi hilo H.hd hMN
      (by simp only [allocSt, List.length_append, List.length_cons, List.length_nil]; omega)
      hlv' hhv' h0 (by omega) H.h2 H.hoff hfit'

/-- **stage_mem, one-dimensional window, state level**: only syntactic guards and `Stage1dHyp` -/
theorem stage_mem_1d_fwd_partial (x xs i : Sym) (lo hi : Expr) (B rest : List Stmt)
    (σ : State V) (hvo : ViewsOk σ) (hg : Rw.stageGuard x xs [.interval lo hi] B = true)
    (hhi : hi.envOnly = true) (hilo : lo.occC i = false)
    (hrest : ∀ y ∈ namesL rest, y ≠ xs) (vx : View) (n lv hv : Int)
    (H : Stage1dHyp ext x xs lo hi B σ vx n lv hv) :
    Fwd Eq (execB ext (.alloc xs (Rw.stageShape [.interval lo hi]) :: (B ++ rest)) σ)
      (execB ext (.alloc xs (Rw.stageShape [.interval lo hi]) ::
        (Rw.stageLoad x xs [.interval lo hi] [i] false none ++
          (Rw.stageL x xs [.interval lo hi] B ++
            (Rw.stageStore x xs [.interval lo hi] [i] false none ++ rest)))) σ) := by
  have hg' := hg
  simp only [Rw.stageGuard, Bool.and_eq_true, bne_iff_ne, ne_eq] at hg'
  have hlo : lo.envOnly = true := List.all_eq_true.1 hg'.1.2 lo (by simp [Rw.stageLos])
  obtain ⟨h1, h2⟩ := stageHyp_1d ext x xs i lo hi B σ hvo hg'.2 hlo hhi hilo vx n lv hv H
  exact stage_mem_fwd_partial ext x xs _ B rest _ _ σ hvo hg hrest vx _ _ _ h1 h2

end

/-- the semantic side condition of the one-dimensional instance, in every well-scoped state in which
    the original block succeeds -/
def Stage1dSem (x xs : Sym) (lo hi : Expr) (B ss : List Stmt) : Prop :=
  ∀ (V : Type) [DataAlg V] (ext : String → List V → V) (σ o : State V), ViewsOk σ →
    execB ext ss σ = .ok o → ∃ (vx : View) (n lv hv : Int), Stage1dHyp ext x xs lo hi B σ vx n lv hv

/-- **stage_mem, one-dimensional window, as a refinement between well-scoped states**: the `Local`
    `Rw.stageMemAll` with both copy nests, no safety guards -/
theorem stage_mem_1d_refW_partial (x xs i : Sym) (lo hi : Expr) (n : Nat) (ss r : List Stmt)
    (h : Rw.stageMemAll x xs [.interval lo hi] n [i] false true true none none ss = some r)
    (hg : Rw.stageGuard x xs [.interval lo hi] (ss.take n) = true)
    (hhi : hi.envOnly = true) (hilo : lo.occC i = false)
    (hrest : ∀ y ∈ namesL (ss.drop n), y ≠ xs)
    (hsem : Stage1dSem x xs lo hi (ss.take n) ss) : BlockRefW ss r :=
  stage_mem_refW_partial x xs _ n [i] none none ss r h hg hrest (fun V _ ext σ o hvo ho => by
    obtain ⟨vx, nn, lv, hv, H⟩ := hsem V ext σ o hvo ho
    have hg' := hg
    simp only [Rw.stageGuard, Bool.and_eq_true, bne_iff_ne, ne_eq] at hg'
    have hlo : lo.envOnly = true := List.all_eq_true.1 hg'.1.2 lo (by simp [Rw.stageLos])
    obtain ⟨h1, h2⟩ := stageHyp_1d ext x xs i lo hi _ σ hvo hg'.2 hlo hhi hilo vx nn lv hv H
    exact ⟨vx, [hv - lv], [lv], C1d vx.off lv hv, h1, h2⟩)

/-! ### an executable check of `AccIn` -/

def accInB (M : Nat) (p : Nat → Bool) (t : List (Fp.Ev V)) : Bool :=
  t.all (fun e => match e with
    | .rd c => c.1 != M || p c.2
    | .wr c _ => c.1 != M || p c.2
    | .red c _ => c.1 != M || p c.2
    | _ => true)

theorem accIn_of_accInB {M : Nat} {C : Nat → Option Nat} {t : List (Fp.Ev V)}
    (h : accInB M (fun c => (C c).isSome) t = true) : AccIn M (DC C) t := by
  intro e he
  have aux : ∀ c : Nat × Nat, (c.1 != M || (C c.2).isSome) = true → c.1 = M → DC C (c.2 : Int) := by
    intro c h1 hc
    simp only [hc, bne_self_eq_false, Bool.false_or] at h1
    unfold DC
    have e : ((c.2 : Nat) : Int).toNat = c.2 := by omega
    rw [e]; exact h1
  cases e with
  | rd c => exact aux c (List.all_eq_true.1 h (.rd c) he)
  | wr c v => exact aux c (List.all_eq_true.1 h (.wr c v) he)
  | red c v => exact aux c (List.all_eq_true.1 h (.red c v) he)
  | crd _ => trivial
  | cwr _ _ => trivial

end Exo.Stg

/-! ### the example `for i in 0..4: y[i] = x[i+1] * 2` staged on `x[1:5]`, both copy nests -/
namespace Exo.Stg.StageEx
open Exo

theorem ex_guard2 : Rw.stageGuard sX sXs win15 exBefore = true := by decide

theorem ex_hyp : Stage1dHyp ext0 sX sXs (lit 1) (lit 5) exBefore σe ⟨0, 0, [(6, 1)]⟩ 6 1 5 := by
  refine ⟨rfl, rfl, ?_, rfl, rfl, by decide, by decide, by decide, by decide, ?_, ?_⟩
  · intro y v hy hl
    simp only [σe, lookupSym] at hl
    split at hl
    · rename_i e; exact absurd e hy
    · split at hl
      · cases hl; decide
      · cases hl
  · intro b hb
    have e : b = [some 1, some 2, some 3, some 4, some 5, some 6] := (Option.some.inj hb).symm
    subst e
    decide
  · exact accIn_of_accInB (by decide +kernel)

/-- the block theorem instantiated at `σe` (every hypothesis discharged) -/
theorem ex_stage_fwd :
    Fwd Eq (execB ext0 (.alloc sXs (Rw.stageShape win15) :: (exBefore ++ [])) σe)
      (execB ext0 (.alloc sXs (Rw.stageShape win15) ::
        (Rw.stageLoad sX sXs win15 [sJ] false none ++
          (Rw.stageL sX sXs win15 exBefore ++
            (Rw.stageStore sX sXs win15 [sJ] false none ++ [])))) σe) :=
  stage_mem_1d_fwd_partial ext0 sX sXs sJ (lit 1) (lit 5) exBefore [] σe
    (by unfold ViewsOk; decide) ex_guard2 rfl rfl (fun _ h => by cases h) _ 6 1 5 ex_hyp

end Exo.Stg.StageEx
