/-
  Lemmas for C15(a) on the mini-C: type soundness in the weak form "a well-typed program does not
  get `stuck`" (`stuck` = the kind errors of `CSem`: unknown pointer variable, `.data` of a plain
  pointer, `*x` of a struct, a config field of the wrong kind, an actual of the wrong kind, a data
  operator that is not arithmetic).  Props: ExoModel/Props/C15Stmt.lean.
-/
import ExoModel.CTyping
import ExoModel.CompileS

namespace Exo.CTyping
open Exo Exo.CIndex Exo.CSem

variable {V : Type}

/-- the run-time value of an identifier has the kind its type promises -/
def KindVal (t : CTy) (o : Option CVal) : Prop :=
  match t with
  | .int => True
  | .ptr => ∃ b p, o = some (.ptr b p)
  | .data => ∃ b p, o = some (.ptr b p)
  | .win _ => ∃ b p ss, o = some (.win b p ss)

def VOK (sc : List Scope) (vals : List (Sym × CVal)) : Prop :=
  ∀ x t, lookupSc x sc = some t → KindVal t (lookupSym x vals)

def COK (T : List ((String × String) × Bool)) (cfg : List ((String × String) × CfgVal V)) : Prop :=
  ∀ k d, lookupCfg k T = some d →
    (d = true → ∃ v, lookupCfg k cfg = some (.data v)) ∧
    (d = false → ∃ n, lookupCfg k cfg = some (.ctrl n))

/-- the state agrees with the typing environment -/
def Good (E : CTyEnv) (c : CState V) : Prop := VOK E.scopes c.vals ∧ COK E.cfgT c.cfg

/-- not stuck; and if the run succeeds the final state agrees with the final environment -/
def NoStuck (E' : CTyEnv) (r : Except CErr (CState V)) : Prop :=
  match r with
  | .ok c' => Good E' c'
  | .error e => e ≠ .stuck

theorem bind_ns {α β : Type} {x : Except CErr α} {f : α → Except CErr β}
    (hx : x ≠ .error .stuck) (hf : ∀ a, x = .ok a → f a ≠ .error .stuck) :
    (x >>= f) ≠ .error .stuck := by
  cases x with
  | error e => intro h; change Except.error e = _ at h; exact hx (by cases h; rfl)
  | ok a => exact hf a rfl

theorem evalIx_ns (c : CState V) (e : CExpr) : evalIx c e ≠ .error .stuck := by
  unfold evalIx; split <;> simp

theorem evalIxs_ns (c : CState V) : ∀ (es : List CExpr), evalIxs c es ≠ .error .stuck
  | [] => by simp [evalIxs, pure, Except.pure]
  | e :: r => by
      simp only [evalIxs]
      refine bind_ns (evalIx_ns c e) (fun v _ => bind_ns (evalIxs_ns c r) (fun vs _ => ?_))
      simp [pure, Except.pure]

theorem cArith_ns (op : BinOp) (x y : Int) : cArith op x y ≠ .error .stuck := by
  cases op <;> simp only [cArith, pure, Except.pure] <;> (try split) <;>
    simp [throw, throwThe, MonadExceptOf.throw]

theorem evalCI_ns {E : CTyEnv} {c : CState V} (hc : COK E.cfgT c.cfg) : ∀ (e : CI),
    wtCI E e = true → evalCI c e ≠ .error .stuck
  | .ix e, _ => by simp only [evalCI]; exact evalIx_ns c e
  | .var _, _ => by simp [evalCI, pure, Except.pure]
  | .lit _, _ => by simp [evalCI, pure, Except.pure]
  | .blit _, _ => by simp [evalCI, pure, Except.pure]
  | .neg a, h => by
      simp only [wtCI] at h
      simp only [evalCI]
      exact bind_ns (evalCI_ns hc a h) (fun v _ => by simp [pure, Except.pure])
  | .floorDiv a b, h => by
      simp only [wtCI, Bool.and_eq_true] at h
      simp only [evalCI]
      refine bind_ns (evalCI_ns hc a h.1) (fun x _ => bind_ns (evalCI_ns hc b h.2) (fun y _ => ?_))
      split <;> simp [throw, throwThe, MonadExceptOf.throw, pure, Except.pure]
  | .cfg k f, h => by
      simp only [wtCI, beq_iff_eq] at h
      obtain ⟨n, hn⟩ := (hc (k, f) false h).2 rfl
      simp [evalCI, hn, pure, Except.pure]
  | .bin op a b, h => by
      simp only [wtCI, Bool.and_eq_true] at h
      have ha := evalCI_ns hc a h.1
      have hb := evalCI_ns hc b h.2
      cases op
      case and =>
        simp only [evalCI]
        refine bind_ns ha (fun x _ => ?_)
        split
        · simp [pure, Except.pure]
        · exact bind_ns hb (fun y _ => by simp [pure, Except.pure])
      case or =>
        simp only [evalCI]
        refine bind_ns ha (fun x _ => ?_)
        split
        · simp [pure, Except.pure]
        · exact bind_ns hb (fun y _ => by simp [pure, Except.pure])
      all_goals
        simp only [evalCI]
        exact bind_ns ha (fun x _ => bind_ns hb (fun y _ => cArith_ns _ x y))

theorem cellAt_ns (mon : Bool) (c : CState V) (b : Nat) (k : Int) :
    cellAt mon c b k ≠ .error .stuck := by
  unfold cellAt
  split
  · simp [throw, throwThe, MonadExceptOf.throw]
  · split
    · simp [throw, throwThe, MonadExceptOf.throw]
    · split <;> simp [throw, throwThe, MonadExceptOf.throw, pure, Except.pure]

theorem lvalCell_ns {E : CTyEnv} {c : CState V} (hv : VOK E.scopes c.vals) (mon : Bool) :
    ∀ (lv : LVal), wtLV E lv = true → lvalCell mon c lv ≠ .error .stuck
  | .idx x isWin off, h => by
      simp only [wtLV, Bool.and_eq_true] at h
      simp only [lvalCell]
      refine bind_ns (evalIx_ns c off) (fun o _ => ?_)
      have h2 := h.2
      cases hg : E.get x with
      | none => rw [hg] at h2; simp at h2
      | some t =>
          rw [hg] at h2
          have kv := hv x t hg
          cases t with
          | int => simp at h2
          | data => simp at h2
          | ptr =>
              cases isWin with
              | true => simp at h2
              | false =>
                  obtain ⟨b, p, hl⟩ := kv
                  simp only [hl]; exact cellAt_ns mon c b _
          | win r =>
              cases isWin with
              | false => simp at h2
              | true =>
                  obtain ⟨b, p, ss, hl⟩ := kv
                  simp only [hl]; exact cellAt_ns mon c b _
  | .scalar x byRef, h => by
      simp only [wtLV] at h
      simp only [lvalCell]
      cases hg : E.get x with
      | none => rw [hg] at h; simp at h
      | some t =>
          rw [hg] at h
          have kv := hv x t hg
          cases t with
          | int => simp at h
          | win r => simp at h
          | ptr =>
              obtain ⟨b, p, hl⟩ := kv
              simp only [hl]; exact cellAt_ns mon c b _
          | data =>
              obtain ⟨b, p, hl⟩ := kv
              simp only [hl]; exact cellAt_ns mon c b _

theorem evalCD_ns [DataAlg V] {E : CTyEnv} {c : CState V} (hg : Good E c) (mon : Bool) :
    ∀ (e : CD), wtCD E e = true → evalCD mon c e ≠ .error .stuck
  | .rd lv, h => by
      simp only [wtCD] at h
      simp only [evalCD]
      exact bind_ns (lvalCell_ns hg.1 mon lv h) (fun _ _ => by simp [pure, Except.pure])
  | .lit _ _, _ => by simp [evalCD, pure, Except.pure]
  | .neg a, h => by
      simp only [wtCD] at h
      simp only [evalCD]
      exact bind_ns (evalCD_ns hg mon a h) (fun _ _ => by simp [pure, Except.pure])
  | .bin op a b, h => by
      simp only [wtCD, Bool.and_eq_true] at h
      simp only [evalCD]
      refine bind_ns (evalCD_ns hg mon a h.1.2) (fun x _ => bind_ns (evalCD_ns hg mon b h.2)
        (fun y _ => ?_))
      cases op <;> simp [isArith] at h <;> simp [pure, Except.pure]
  | .cfg k f, h => by
      simp only [wtCD, beq_iff_eq] at h
      obtain ⟨v, hv⟩ := (hg.2 (k, f) true h).1 rfl
      simp [evalCD, hv, pure, Except.pure]

/-! ## scopes -/

theorem lookupSc_push_nil (x : Sym) (sc : List Scope) : lookupSc x ([] :: sc) = lookupSc x sc := by
  simp [lookupSc, lookupSym]

theorem VOK.push {sc : List Scope} {vals : List (Sym × CVal)} (h : VOK sc vals) :
    VOK ([] :: sc) vals := fun x t hx => h x t (by rwa [lookupSc_push_nil] at hx)

theorem VOK.pushInt {sc : List Scope} {vals : List (Sym × CVal)} (h : VOK sc vals) (i : Sym) :
    VOK ([(i, .int)] :: sc) vals := by
  intro x t hx
  simp only [lookupSc, lookupSym] at hx
  by_cases hxi : x = i
  · simp only [hxi, if_true, Option.some.injEq] at hx; subst hx; trivial
  · simp only [hxi, if_false] at hx; exact h x t hx

/-- a declaration: the new name gets a value of its kind -/
theorem declare_ok {E E' : CTyEnv} {x : Sym} {t : CTy} (hd : E.declare x t = some E')
    {vals : List (Sym × CVal)} (h : VOK E.scopes vals) {cv : CVal}
    (hk : KindVal t (some cv)) : VOK E'.scopes ((x, cv) :: vals) ∧ E'.cfgT = E.cfgT := by
  unfold CTyEnv.declare at hd
  have key : ∀ (s : Scope) (r : List Scope), (∀ y t', lookupSc y (s :: r) = some t' →
      KindVal t' (lookupSym y vals)) → ∀ y t', lookupSc y (((x, t) :: s) :: r) = some t' →
      KindVal t' (lookupSym y ((x, cv) :: vals)) := by
    intro s r hsr y t' hy
    simp only [lookupSc, lookupSym] at hy ⊢
    by_cases hyx : y = x
    · simp only [hyx, if_true] at hy ⊢
      simp only [Option.some.injEq] at hy; subst hy; exact hk
    · simp only [hyx, if_false] at hy ⊢
      exact hsr y t' (by simpa [lookupSc] using hy)
  split at hd
  · rename_i hs
    simp only [Option.some.injEq] at hd; subst hd
    refine ⟨?_, rfl⟩
    have := key [] [] (fun y t' hy => by simp [lookupSc, lookupSym] at hy)
    exact this
  · rename_i s r hs
    split at hd
    · cases hd
    · simp only [Option.some.injEq] at hd; subst hd
      exact ⟨key s r (by rw [← hs]; exact h), rfl⟩

/-! ## closing a block, loops -/

theorem leaveC_ns {E : CTyEnv} {cin cout : CState V} (mon : Bool) (hin : VOK E.scopes cin.vals)
    (hout : COK E.cfgT cout.cfg) : NoStuck E (leaveC mon cin cout) := by
  unfold leaveC
  split
  · simp [NoStuck, throw, throwThe, MonadExceptOf.throw]
  · exact ⟨hin, hout⟩

theorem NoStuck.bind {E1 E2 : CTyEnv} {r : Except CErr (CState V)}
    {f : CState V → Except CErr (CState V)} (h : NoStuck E1 r)
    (hf : ∀ c1, Good E1 c1 → NoStuck E2 (f c1)) : NoStuck E2 (r >>= f) := by
  cases r with
  | error e => exact h
  | ok c1 => exact hf c1 h

theorem iterC_ns {E : CTyEnv} {g : Int → CState V → Except CErr (CState V)}
    (step : ∀ v c, Good E c → NoStuck E (g v c)) :
    ∀ (n : Nat) (lo : Int) (c : CState V), Good E c → NoStuck E (iterC g n lo c)
  | 0, _, c, h => h
  | n + 1, lo, c, h => by
      simp only [iterC]
      exact (step lo c h).bind (fun c1 h1 => iterC_ns step n (lo + 1) c1 h1)

/-! ## arguments -/

def AKind : PKind → AVal → Prop
  | .int, .int _ => True
  | .ptr, .val (.ptr _ _) => True
  | .win _, .val (.win _ _ _) => True
  | _, _ => False

def ArgNS (k : PKind) : Except CErr AVal → Prop
  | .ok v => AKind k v
  | .error e => e ≠ .stuck

theorem wtWin_src {E : CTyEnv} {src : Sym} {isW : Bool} {los strs : List CExpr} {ivs : List Bool}
    {r : Nat} (h : wtWin E src isW los strs ivs = some r) :
    (isW = false ∧ E.get src = some .ptr) ∨ (isW = true ∧ ∃ r', E.get src = some (.win r')) := by
  unfold wtWin at h
  split at h
  · rename_i hok
    unfold wtWinOK at hok
    simp only [Bool.and_eq_true] at hok
    have hs := hok.2
    split at hs
    · exact Or.inl ⟨rfl, by assumption⟩
    · refine Or.inr ⟨rfl, ?_⟩
      exact ⟨_, by assumption⟩
    · cases hs
  · cases h

/-- evaluating a window initialiser whose source has the right kind does not get stuck and yields
    a struct -/
theorem evalWinLit_ns {E : CTyEnv} {c : CState V} (hg : Good E c) {src : Sym} {isW : Bool}
    {los strs : List CExpr} {ivs : List Bool} {r : Nat}
    (h : wtWin E src isW los strs ivs = some r) :
    ArgNS (.win r) (evalArg c (.win src isW los strs ivs)) := by
  simp only [evalArg]
  cases h1 : evalIxs c los with
  | error er =>
      have := evalIxs_ns c los; rw [h1] at this
      exact fun e => this (by rw [e])
  | ok ls =>
      cases h2 : evalIxs c strs with
      | error er =>
          have := evalIxs_ns c strs; rw [h2] at this
          exact fun e => this (by rw [e])
      | ok ss =>
          have hb : ∀ {α : Type} (a : α) (f : α → Except CErr AVal), (Except.ok a >>= f) = f a :=
            fun _ _ => rfl
          simp only [hb]
          rcases wtWin_src h with ⟨h3, h4⟩ | ⟨h3, r', h4⟩
          · obtain ⟨b, p, hl⟩ := hg.1 src _ h4
            subst h3; simp only [hl]; trivial
          · obtain ⟨b, p, s3, hl⟩ := hg.1 src _ h4
            subst h3; simp only [hl]; trivial

theorem evalArg_ns {E : CTyEnv} {c : CState V} (hg : Good E c) {k : PKind} {a : CArg}
    (h : wtArg E k a = true) : ArgNS k (evalArg c a) := by
  cases k <;> cases a <;> simp only [wtArg, Bool.false_eq_true] at h
  · -- int
    rename_i e
    simp only [evalArg]
    have := evalCI_ns hg.2 e h
    cases he : evalCI c e with
    | error er => rw [he] at this; exact fun e' => this (by rw [e'])
    | ok v => trivial
  · -- ptr
    rename_i x addr
    simp only [beq_iff_eq] at h
    have kv := hg.1 x _ h
    have : ∃ b p, lookupSym x c.vals = some (.ptr b p) := by
      cases addr <;> simpa [KindVal] using kv
    obtain ⟨b, p, hl⟩ := this
    simp only [evalArg, hl]; trivial
  · -- winVar
    rename_i r x
    simp only [beq_iff_eq] at h
    obtain ⟨b, p, ss, hl⟩ := hg.1 x _ h
    simp only [evalArg, hl]; trivial
  · -- window initialiser
    rename_i r src isW los strs ivs
    simp only [beq_iff_eq] at h
    exact evalWinLit_ns hg h

end Exo.CTyping
