/-
  Helpers for the `lift_scope` theorems of Props/C01Context.lean: an `if` is the scoped run of the
  branch its condition selects; leaving a scope twice; loops over an empty body.
-/
import ExoModel.Lemmas.ContextReach

set_option linter.unusedSectionVars false
namespace Exo
variable {V : Type} [DataAlg V] (ext : String → List V → V)

omit [DataAlg V] in
theorem leave_leave_ctx (σ o : State V) : State.leave σ (State.leave σ o) = State.leave σ o := by
  simp [State.leave, List.take_take]

theorem execB_map_leave (B : List Stmt) (σ : State V) :
    (execB ext B σ).map (State.leave σ) = execB ext B σ := by
  unfold execB
  cases execL ext B σ with
  | error e => rfl
  | ok s => simp [Except.map, leave_leave_ctx]

/-- an `if` whose condition has value `v` is the scoped run of the selected branch -/
theorem ite_eval (c : Expr) (t e : List Stmt) (σ : State V) (v : Int) (hc : evalC σ c = .ok v) :
    execS ext (.ite c t e) σ = if v ≠ 0 then execB ext t σ else execB ext e σ := by
  simp only [execS, hc, bind, Except.bind, execB]

/-- a block that consists of one `if` is already scoped -/
theorem execB_ite (c : Expr) (t e : List Stmt) (σ : State V) :
    execB ext [.ite c t e] σ = execS ext (.ite c t e) σ := by
  unfold execB
  rw [execL_singleton]
  cases hc : evalC σ c with
  | error err => simp [execS, hc, bind, Except.bind, Except.map]
  | ok v =>
    rw [ite_eval ext c t e σ v hc]
    split
    · exact execB_map_leave ext t σ
    · exact execB_map_leave ext e σ

omit [DataAlg V] in
theorem iterate_id_ctx (f : Int → State V → Except Err (State V)) (hf : ∀ v s, f v s = .ok s) :
    ∀ (n : Nat) (k : Int) (s : State V), iterate f n k s = .ok s
  | 0, _, _ => rfl
  | n + 1, k, s => by
    simp only [iterate, bind, Except.bind, hf]
    exact iterate_id_ctx f hf n (k + 1) s

/-- a loop over an empty body with ordered, evaluable bounds does nothing -/
theorem empty_loop (i : Sym) (lo hi : Expr) (par : Bool) (σ : State V) (l h : Int)
    (hl : evalC σ lo = .ok l) (hh : evalC σ hi = .ok h) (hle : l ≤ h) :
    execS ext (.loop i lo hi [] par) σ = .ok σ := by
  rw [execS_loop ext i lo hi [] par σ l h hl hh hle]
  exact iterate_id_ctx _ (fun v s => by
    simp [loopStep, execL, pure, Except.pure, Except.map, State.leave, State.bind]) _ _ _

theorem execB_empty_loop (i : Sym) (lo hi : Expr) (par : Bool) (σ : State V) (l h : Int)
    (hl : evalC σ lo = .ok l) (hh : evalC σ hi = .ok h) (hle : l ≤ h) :
    execB ext [.loop i lo hi [] par] σ = execB ext [] σ := by
  unfold execB
  rw [execL_singleton, empty_loop ext i lo hi par σ l h hl hh hle]
  rfl

end Exo
