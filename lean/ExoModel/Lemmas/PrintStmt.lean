/-
  Lemmas for the statement-level round trip of `ExoModel.PrintStmt`, part 1: expressions,
  window accesses, arguments and the one-line statements.
-/
import ExoModel.PrintStmt
import ExoModel.Lemmas.PrintExpr

namespace Exo.PrintStmt
open Exo Exo.Print

/-! ### well-formedness: what the round trip needs -/

def wfAcc : WAcc → Bool
  | .pt e => wf e
  | .iv lo hi => wf lo && wf hi

def wfAccs : List WAcc → Bool
  | [] => true
  | a :: as => wfAcc a && wfAccs as

/-- a window expression: well-formed accesses, at least one of them an interval (with points
    only, the text `x[i, j]` is an ordinary read) -/
def wfWin (accs : List WAcc) : Bool := wfAccs accs && accs.any isIv

def wfArg : PArg → Bool
  | .e e => wf e
  | .win _ accs => wfWin accs

def wfArgs : List PArg → Bool
  | [] => true
  | a :: as => wfArg a && wfArgs as

mutual
def wfStmt : PStmt → Bool
  | .pass => true
  | .assign _ idx rhs => wfL idx && wf rhs
  | .reduce _ idx rhs => wfL idx && wf rhs
  | .writeCfg _ _ rhs => wf rhs
  | .alloc _ _ shape _ => wfL shape
  | .window _ _ accs => wfWin accs
  | .loop _ _ lo hi body => wf lo && wf hi && !body.isEmpty && wfS body
  | .ite c body orelse => wf c && !body.isEmpty && wfS body && wfS orelse
  | .call _ args => wfArgs args
def wfS : List PStmt → Bool
  | [] => true
  | s :: ss => wfStmt s && wfS ss
end

/-! ### `tt` and `spanT` -/

@[simp] theorem tt_nil : tt [] = [] := rfl
@[simp] theorem tt_cons (a : Tok) (r : List Tok) : tt (a :: r) = .t a :: tt r := rfl
theorem tt_append (a b : List Tok) : tt (a ++ b) = tt a ++ tt b := by simp [tt]

theorem spanT_tt_append (a : List Tok) (ts : List STok) :
    spanT (tt a ++ ts) = (a ++ (spanT ts).1, (spanT ts).2) := by
  induction a with
  | nil => simp
  | cons x xs ih => simp [spanT, ih]

theorem span_eq : ∀ ts : List STok, tt (spanT ts).1 ++ (spanT ts).2 = ts
  | [] => by simp [spanT]
  | .t a :: r => by simp [spanT, span_eq r]
  | .colon :: r => by simp [spanT]
  | .assign :: r => by simp [spanT]
  | .pluseq :: r => by simp [spanT]
  | .at :: r => by simp [spanT]
  | .dot :: r => by simp [spanT]
  | .kwFor :: r => by simp [spanT]
  | .kwIn :: r => by simp [spanT]
  | .kwIf :: r => by simp [spanT]
  | .kwElse :: r => by simp [spanT]
  | .kwPass :: r => by simp [spanT]
  | .kwDef :: r => by simp [spanT]

/-- what may follow a printed expression: not `[` (it would be read as a subscript) and not an
    operator -/
def StopOK : List STok → Prop
  | .t .lb :: _ => False
  | .t (.op _) :: _ => False
  | _ => True

theorem stop_span : ∀ ts : List STok, StopOK ts →
    headPrec (spanT ts).1 = 0 ∧ Follow (spanT ts).1
  | [], _ => by simp [spanT, headPrec, Follow]
  | .t (.id _) :: r, _ => by simp [spanT, headPrec, Follow]
  | .t (.num _) :: r, _ => by simp [spanT, headPrec, Follow]
  | .t (.op _) :: r, h => by simp [StopOK] at h
  | .t .lp :: r, _ => by simp [spanT, headPrec, Follow]
  | .t .rp :: r, _ => by simp [spanT, headPrec, Follow]
  | .t .lb :: r, h => by simp [StopOK] at h
  | .t .rb :: r, _ => by simp [spanT, headPrec, Follow]
  | .t .comma :: r, _ => by simp [spanT, headPrec, Follow]
  | .colon :: r, _ => by simp [spanT, headPrec, Follow]
  | .assign :: r, _ => by simp [spanT, headPrec, Follow]
  | .pluseq :: r, _ => by simp [spanT, headPrec, Follow]
  | .at :: r, _ => by simp [spanT, headPrec, Follow]
  | .dot :: r, _ => by simp [spanT, headPrec, Follow]
  | .kwFor :: r, _ => by simp [spanT, headPrec, Follow]
  | .kwIn :: r, _ => by simp [spanT, headPrec, Follow]
  | .kwIf :: r, _ => by simp [spanT, headPrec, Follow]
  | .kwElse :: r, _ => by simp [spanT, headPrec, Follow]
  | .kwPass :: r, _ => by simp [spanT, headPrec, Follow]
  | .kwDef :: r, _ => by simp [spanT, headPrec, Follow]

/-! ### one expression at the front of a line -/

/-- the expression round trip inside a line: a printed well-formed expression followed by
    anything that is neither `[` nor an operator is read back, the rest is untouched -/
theorem parseES_rt (e : PExpr) (h : wf e = true) (ts : List STok) (hs : StopOK ts) :
    parseES (tt (ppT 0 e) ++ ts) = some (norm e, ts) := by
  obtain ⟨h0, hfo⟩ := stop_span ts hs
  have hb := need_le e 0
  have := rt_item e (rt_all e h) (spanT ts).1 (fuelFor (ppT 0 e ++ (spanT ts).1)) h0 hfo
    (by simp only [fuelFor, List.length_append]; omega)
  simp only [parseES, spanT_tt_append, this, span_eq]

theorem parseES_full (e : PExpr) (h : wf e = true) :
    parseES (tt (ppT 0 e)) = some (norm e, []) := by
  have := parseES_rt e h [] trivial
  simpa using this

theorem parseFull_rt (e : PExpr) (h : wf e = true) : parseFull (tt (ppT 0 e)) = some (norm e) := by
  simp [parseFull, parseES_full e h]

theorem stop_colon (r) : StopOK (.colon :: r) := trivial
theorem stop_assign (r) : StopOK (.assign :: r) := trivial
theorem stop_pluseq (r) : StopOK (.pluseq :: r) := trivial
theorem stop_at (r) : StopOK (.at :: r) := trivial
theorem stop_comma (r) : StopOK (.t .comma :: r) := trivial
theorem stop_rp (r) : StopOK (.t .rp :: r) := trivial
theorem stop_rb (r) : StopOK (.t .rb :: r) := trivial
theorem stop_nil : StopOK [] := trivial

/-! ### window accesses -/

/-- after an access: `,` or `]` -/
def AccStop (ts : List STok) : Prop := ∃ r, ts = .t .comma :: r ∨ ts = .t .rb :: r

theorem AccStop.stop {ts} (h : AccStop ts) : StopOK ts := by
  obtain ⟨r, rfl | rfl⟩ := h <;> trivial

theorem parseAcc_rt (a : WAcc) (h : wfAcc a = true) (ts : List STok) (hs : AccStop ts) :
    parseAcc (ppAccT a ++ ts) = some (normAcc a, ts) := by
  cases a with
  | pt e =>
    simp only [wfAcc] at h
    simp only [ppAccT, parseAcc, parseES_rt e h ts hs.stop, normAcc]
    obtain ⟨r, rfl | rfl⟩ := hs <;> rfl
  | iv lo hi =>
    simp only [wfAcc, Bool.and_eq_true] at h
    have h1 := parseES_rt lo h.1 (.colon :: (tt (ppT 0 hi) ++ ts)) (stop_colon _)
    have h2 := parseES_rt hi h.2 ts hs.stop
    simp only [ppAccT, List.append_assoc, List.cons_append, parseAcc, h1, h2, normAcc]

/-- `a, as… ]` -/
theorem parseAccs_rt : ∀ (as : List WAcc) (a : WAcc), wfAcc a = true → wfAccs as = true →
    ∀ (f : Nat) (r : List STok), as.length + 1 ≤ f →
    parseAccs f (ppAccT a ++ (ppAccsTailT as ++ .t .rb :: r)) = some (normAcc a :: normAccs as, r)
  | [], a, ha, _, f, r, hf => by
    obtain ⟨F, rfl⟩ : ∃ F, f = F + 1 := ⟨f - 1, by simp at hf; omega⟩
    have := parseAcc_rt a ha (.t .rb :: r) ⟨r, .inr rfl⟩
    simp only [ppAccsTailT, List.nil_append, parseAccs, this, normAccs]
  | b :: bs, a, ha, hbs, f, r, hf => by
    simp only [wfAccs, Bool.and_eq_true] at hbs
    simp only [List.length_cons] at hf
    obtain ⟨F, rfl⟩ : ∃ F, f = F + 1 := ⟨f - 1, by omega⟩
    have h1 := parseAcc_rt a ha (.t .comma :: (ppAccT b ++ (ppAccsTailT bs ++ .t .rb :: r)))
      ⟨_, .inl rfl⟩
    have h2 := parseAccs_rt bs b hbs.1 hbs.2 F r (by omega)
    simp only [ppAccsTailT, List.cons_append, List.append_assoc, parseAccs, h1, h2, normAccs]

theorem ppT_length_pos : ∀ (p : Nat) (e : PExpr), 1 ≤ (ppT p e).length
  | _, .var x [] => by simp [ppT]
  | _, .var x (i :: is) => by simp [ppT]
  | _, .const false m => by simp [ppT]
  | _, .const true m => by simp [ppT]
  | _, .neg e => by simp [ppT]
  | p, .bin o l r => by
    simp only [ppT]
    split <;> simp only [List.length_cons, List.length_append] <;> omega

theorem ppAccT_length_pos (a : WAcc) : 1 ≤ (ppAccT a).length := by
  cases a with
  | pt e => simpa [ppAccT, tt] using ppT_length_pos 0 e
  | iv lo hi => simp only [ppAccT, List.length_append, List.length_cons]; omega

theorem ppAccsTailT_length (as : List WAcc) : as.length ≤ (ppAccsTailT as).length := by
  induction as with
  | nil => simp
  | cons a as ih =>
    have := ppAccT_length_pos a
    simp only [ppAccsTailT, List.length_cons, List.length_append]; omega

theorem normAccs_any : ∀ as : List WAcc, (normAccs as).any isIv = as.any isIv
  | [] => rfl
  | a :: as => by
    cases a <;> simp [normAccs, normAcc, isIv, normAccs_any as]

theorem parseWin_rt (x : String) (accs : List WAcc) (h : wfWin accs = true) (r : List STok) :
    parseWin (ppWinT x accs ++ r) = some (.win x (normAccs accs), r) := by
  simp only [wfWin, Bool.and_eq_true] at h
  cases accs with
  | nil => simp at h
  | cons a as =>
    simp only [wfAccs, Bool.and_eq_true] at h
    have hl1 := ppAccsTailT_length as
    have hl2 := ppAccT_length_pos a
    have := parseAccs_rt as a h.1.1 h.1.2
      ((ppAccT a ++ (ppAccsTailT as ++ .t .rb :: r)).length + 1) r
      (by simp only [List.length_append, List.length_cons]; omega)
    have hany : (normAcc a :: normAccs as).any isIv = true := by
      have := normAccs_any (a :: as)
      simp only [normAccs] at this
      rw [this]; exact h.2
    simp only [ppWinT, ppAccsT, List.cons_append, List.append_assoc, List.nil_append, parseWin,
      this, hany, if_true, normAccs]

/-! ### a window expression is not read as an expression -/

/-- the expression tokens of a subscript list up to its first `:` -/
def preColon : List WAcc → List Tok
  | [] => []
  | .iv lo _ :: _ => ppT 0 lo
  | .pt e :: as => ppT 0 e ++ .comma :: preColon as

theorem span_preColon : ∀ (as : List WAcc) (a : WAcc) (ts : List STok),
    (a :: as).any isIv = true →
    (spanT (ppAccT a ++ (ppAccsTailT as ++ ts))).1 = preColon (a :: as)
  | as, .iv lo hi, ts, _ => by
    simp [ppAccT, preColon, spanT_tt_append, spanT]
  | [], .pt e, ts, h => by simp [isIv] at h
  | b :: bs, .pt e, ts, h => by
    have h' : (b :: bs).any isIv = true := by simpa [isIv] using h
    have ih := span_preColon bs b ts h'
    have hp : ppAccT (.pt e) = tt (ppT 0 e) := rfl
    rw [hp]
    simp only [ppAccsTailT, List.cons_append, List.append_assoc, spanT_tt_append, spanT,
      ih, preColon]

/-- fuel with which the failure below is reached -/
def needP : List WAcc → Nat
  | [] => 0
  | .iv lo _ :: _ => need lo + 2
  | .pt e :: as => need e + needP as + 2

theorem tail_eats : ∀ (as : List WAcc), wfAccs as = true → as.any isIv = true →
    ∀ F, needP as ≤ F → ∃ l, parseTail F (.comma :: preColon as) = some (l, [])
  | [], _, h, _, _ => by simp at h
  | .iv lo hi :: as, hw, _, F, hF => by
    simp only [wfAccs, wfAcc, Bool.and_eq_true] at hw
    simp only [needP] at hF
    obtain ⟨G, rfl⟩ : ∃ G, F = G + 2 := ⟨F - 2, by omega⟩
    have h1 := rt_item lo (rt_all lo hw.1.1) [] (G + 1) rfl trivial (by omega)
    simp only [List.append_nil] at h1
    exact ⟨[norm lo], by simp [preColon, parseTail, h1]⟩
  | .pt e :: as, hw, ha, F, hF => by
    simp only [wfAccs, wfAcc, Bool.and_eq_true] at hw
    simp only [needP] at hF
    have ha' : as.any isIv = true := by simpa [isIv] using ha
    obtain ⟨G, rfl⟩ : ∃ G, F = G + 1 := ⟨F - 1, by omega⟩
    have h1 := rt_item e (rt_all e hw.1) (.comma :: preColon as) G rfl trivial (by omega)
    obtain ⟨l, h2⟩ := tail_eats as hw.2 ha' G (by omega)
    exact ⟨norm e :: l, by simp [preColon, parseTail, h1, h2]⟩

theorem win_not_expr_big (x : String) : ∀ (as : List WAcc), wfAccs as = true →
    as.any isIv = true → ∀ F, needP as + 2 ≤ F →
    parseExpr F 0 (.id x :: .lb :: preColon as) = none
  | [], _, h, _, _ => by simp at h
  | .iv lo hi :: as, hw, _, F, hF => by
    simp only [wfAccs, wfAcc, Bool.and_eq_true] at hw
    simp only [needP] at hF
    obtain ⟨G, rfl⟩ : ∃ G, F = G + 2 := ⟨F - 2, by omega⟩
    have h1 := rt_item lo (rt_all lo hw.1.1) [] G rfl trivial (by omega)
    simp only [List.append_nil] at h1
    have ht : parseTail G [] = some ([], []) := by
      obtain ⟨G', rfl⟩ : ∃ G', G = G' + 1 := ⟨G - 1, by have := need_pos lo; omega⟩
      simp [parseTail]
    simp only [preColon, parseExpr, parseUnary, h1, ht]
  | .pt e :: as, hw, ha, F, hF => by
    simp only [wfAccs, wfAcc, Bool.and_eq_true] at hw
    simp only [needP] at hF
    have ha' : as.any isIv = true := by simpa [isIv] using ha
    obtain ⟨G, rfl⟩ : ∃ G, F = G + 2 := ⟨F - 2, by omega⟩
    have h1 := rt_item e (rt_all e hw.1) (.comma :: preColon as) G rfl trivial (by omega)
    obtain ⟨l, h2⟩ := tail_eats as hw.2 ha' G (by omega)
    simp only [preColon, parseExpr, parseUnary, h1, h2]

theorem win_not_expr (x : String) (as : List WAcc) (hw : wfAccs as = true)
    (ha : as.any isIv = true) (g : Nat) :
    parseExpr g 0 (.id x :: .lb :: preColon as) = none := by
  cases hg : parseExpr g 0 (.id x :: .lb :: preColon as) with
  | none => rfl
  | some r =>
    have hbig := win_not_expr_big x as hw ha (max g (needP as + 2)) (Nat.le_max_right _ _)
    have := parseExpr_mono hg (Nat.le_max_left g (needP as + 2))
    rw [hbig] at this
    exact absurd this (by simp)

theorem parseES_win_none (x : String) (accs : List WAcc) (h : wfWin accs = true)
    (r : List STok) : parseES (ppWinT x accs ++ r) = none := by
  simp only [wfWin, Bool.and_eq_true] at h
  cases accs with
  | nil => simp at h
  | cons a as =>
    have hs := span_preColon as a (.t .rb :: r) h.2
    have hsp : (spanT (ppWinT x (a :: as) ++ r)).1 = .id x :: .lb :: preColon (a :: as) := by
      simp only [ppWinT, ppAccsT, List.cons_append, List.append_assoc, List.nil_append, spanT, hs]
    simp only [parseES, hsp, win_not_expr x (a :: as) h.1 h.2]

/-! ### arguments -/

theorem parseArg_rt (a : PArg) (h : wfArg a = true) (ts : List STok) (hs : StopOK ts) :
    parseArg (ppArgT a ++ ts) = some (normArg a, ts) := by
  cases a with
  | e e =>
    simp only [wfArg] at h
    simp only [ppArgT, parseArg, parseES_rt e h ts hs, normArg]
  | win x accs =>
    simp only [wfArg] at h
    simp only [ppArgT, parseArg, parseES_win_none x accs h ts, parseWin_rt x accs h ts, normArg]

/-- `, a`* followed by `)` -/
theorem parseArgsTail_rt : ∀ (as : List PArg), wfArgs as = true →
    ∀ (f : Nat) (r : List STok), as.length + 1 ≤ f →
    parseArgsTail f (ppArgsTailT as ++ .t .rp :: r) = some (normArgs as, .t .rp :: r)
  | [], _, f, r, hf => by
    obtain ⟨F, rfl⟩ : ∃ F, f = F + 1 := ⟨f - 1, by simp at hf; omega⟩
    simp [ppArgsTailT, parseArgsTail, normArgs]
  | a :: as, h, f, r, hf => by
    simp only [wfArgs, Bool.and_eq_true] at h
    simp only [List.length_cons] at hf
    obtain ⟨F, rfl⟩ : ∃ F, f = F + 1 := ⟨f - 1, by omega⟩
    have hstop : StopOK (ppArgsTailT as ++ .t .rp :: r) := by
      cases as <;> simp [ppArgsTailT, StopOK]
    have h1 := parseArg_rt a h.1 (ppArgsTailT as ++ .t .rp :: r) hstop
    have h2 := parseArgsTail_rt as h.2 F r (by omega)
    simp only [ppArgsTailT, List.cons_append, List.append_assoc, parseArgsTail, h1, h2, normArgs]

theorem ppArgT_length_pos (a : PArg) : 1 ≤ (ppArgT a).length := by
  cases a with
  | e e => simpa [ppArgT, tt] using ppT_length_pos 0 e
  | win x accs => simp [ppArgT, ppWinT]

theorem ppArgsTailT_length (as : List PArg) : as.length ≤ (ppArgsTailT as).length := by
  induction as with
  | nil => simp
  | cons a as ih =>
    have := ppArgT_length_pos a
    simp only [ppArgsTailT, List.length_cons, List.length_append]; omega

/-- the first token of a printed expression is never `)` -/
theorem ppT_head_ne_rp : ∀ (p : Nat) (e : PExpr), (ppT p e).head? ≠ some .rp
  | _, .var x [] => by simp [ppT]
  | _, .var x (i :: is) => by simp [ppT]
  | _, .const false m => by simp [ppT]
  | _, .const true m => by simp [ppT]
  | _, .neg e => by simp [ppT]
  | p, .bin o l r => by
    have ih := ppT_head_ne_rp (prec o) l
    simp only [ppT]
    split
    · simp
    · cases hl : ppT (prec o) l with
      | nil => simp
      | cons a as => rw [hl] at ih; simpa using ih

theorem ppArgT_head_ne_rp (a : PArg) : (ppArgT a).head? ≠ some (.t .rp) := by
  cases a with
  | e e =>
    have := ppT_head_ne_rp 0 e
    cases h : ppT 0 e with
    | nil => simp [ppArgT, h]
    | cons b bs => rw [h] at this; simp [ppArgT, h]; simpa using this
  | win x accs => simp [ppArgT, ppWinT]

theorem parseCallArgs_ne (ts : List STok) (h : ts ≠ [.t .rp]) :
    parseCallArgs ts =
      match parseArg ts with
      | some (a, r) =>
        match parseArgsTail (r.length + 1) r with
        | some (as, [.t .rp]) => some (a :: as)
        | _ => none
      | none => none := by
  unfold parseCallArgs
  split
  · exact absurd rfl h
  · rfl

theorem parseCallArgs_rt (args : List PArg) (h : wfArgs args = true) :
    parseCallArgs (ppArgsT args ++ [.t .rp]) = some (normArgs args) := by
  cases args with
  | nil => simp [ppArgsT, parseCallArgs, normArgs]
  | cons a as =>
    simp only [wfArgs, Bool.and_eq_true] at h
    have hstop : StopOK (ppArgsTailT as ++ [.t .rp]) := by
      cases as <;> simp [ppArgsTailT, StopOK]
    have h1 := parseArg_rt a h.1 (ppArgsTailT as ++ [.t .rp]) hstop
    have hl := ppArgsTailT_length as
    have h2 := parseArgsTail_rt as h.2 ((ppArgsTailT as ++ [STok.t .rp]).length + 1) []
      (by simp only [List.length_append, List.length_cons, List.length_nil]; omega)
    have hne : ppArgT a ++ (ppArgsTailT as ++ [.t .rp]) ≠ [.t .rp] := by
      intro hh
      have h3 := ppArgT_head_ne_rp a
      have h4 := ppArgT_length_pos a
      cases hp : ppArgT a with
      | nil => simp [hp] at h4
      | cons b bs =>
        rw [hp] at h3 hh
        simp only [List.cons_append, List.cons.injEq, List.head?_cons, Option.some.injEq,
          ne_eq] at hh h3
        exact h3 hh.1
    simp only [ppArgsT, List.append_assoc]
    rw [parseCallArgs_ne _ hne]
    simp only [h1, h2, normArgs]

end Exo.PrintStmt
