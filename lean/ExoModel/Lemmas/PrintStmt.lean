/-
  Lemmas for the statement-level round trip of `ExoModel.PrintStmt`, part 1: expressions,
  window accesses, arguments and the one-line statements.
-/
import ExoModel.PrintStmt
import ExoModel.Lemmas.PrintExprX

namespace Exo.PrintStmt
open Exo Exo.Print

/-! ### well-formedness: what the round trip needs -/

def wfAcc : WAcc → Bool
  | .pt e => wfX e
  | .iv lo hi => wfX lo && wfX hi

def wfAccs : List WAcc → Bool
  | [] => true
  | a :: as => wfAcc a && wfAccs as

/-- a window expression: well-formed accesses, at least one of them an interval (with points
    only, the text `x[i, j]` is an ordinary read) -/
def wfWin (accs : List WAcc) : Bool := wfAccs accs && accs.any isIv

def wfArg : PArg → Bool
  | .e e => wfX e
  | .win _ accs => wfWin accs

def wfArgs : List PArg → Bool
  | [] => true
  | a :: as => wfArg a && wfArgs as

mutual
def wfStmt : PStmt → Bool
  | .pass => true
  | .assign _ idx rhs => wfXL idx && wfX rhs
  | .reduce _ idx rhs => wfXL idx && wfX rhs
  | .writeCfg _ _ rhs => wfX rhs
  | .alloc _ _ shape _ => wfXL shape
  | .window _ _ accs => wfWin accs
  | .loop _ _ lo hi body => wfX lo && wfX hi && !body.isEmpty && wfS body
  | .ite c body orelse => wfX c && !body.isEmpty && wfS body && wfS orelse
  | .call _ args => wfArgs args
def wfS : List PStmt → Bool
  | [] => true
  | s :: ss => wfStmt s && wfS ss
end

/-! ### one expression at the front of a line -/

/-- what may follow a printed expression: not `[`, `(`, `.` (they would continue an atom) and not
    an operator -/
def StopOK : List STok → Prop
  | .t .lb :: _ => False
  | .t .lp :: _ => False
  | .dot :: _ => False
  | .t (.op _) :: _ => False
  | _ => True

theorem stop_props : ∀ ts : List STok, StopOK ts → headPrecX ts = 0 ∧ FollowX ts
  | [], _ => ⟨rfl, trivial⟩
  | .t (.id _) :: r, _ => ⟨rfl, trivial⟩
  | .t (.num _) :: r, _ => ⟨rfl, trivial⟩
  | .t (.op _) :: r, h => by simp [StopOK] at h
  | .t .lp :: r, h => by simp [StopOK] at h
  | .t .rp :: r, _ => ⟨rfl, trivial⟩
  | .t .lb :: r, h => by simp [StopOK] at h
  | .t .rb :: r, _ => ⟨rfl, trivial⟩
  | .t .comma :: r, _ => ⟨rfl, trivial⟩
  | .colon :: r, _ => ⟨rfl, trivial⟩
  | .assign :: r, _ => ⟨rfl, trivial⟩
  | .pluseq :: r, _ => ⟨rfl, trivial⟩
  | .at :: r, _ => ⟨rfl, trivial⟩
  | .dot :: r, h => by simp [StopOK] at h
  | .kwFor :: r, _ => ⟨rfl, trivial⟩
  | .kwIn :: r, _ => ⟨rfl, trivial⟩
  | .kwIf :: r, _ => ⟨rfl, trivial⟩
  | .kwElse :: r, _ => ⟨rfl, trivial⟩
  | .kwPass :: r, _ => ⟨rfl, trivial⟩
  | .kwDef :: r, _ => ⟨rfl, trivial⟩
  | .kwAssert :: r, _ => ⟨rfl, trivial⟩

/-- the expression round trip inside a line: a printed well-formed expression followed by
    anything that cannot continue it is read back, the rest is untouched -/
theorem parseES_rt (e : XExpr) (h : wfX e = true) (ts : List STok) (hs : StopOK ts) :
    parseES (ppX 0 e ++ ts) = some (normX e, ts) := by
  obtain ⟨h0, hfo⟩ := stop_props ts hs
  have hb := needX_le e 0
  exact rtX_item e (rtX_all e h) ts (fuelX (ppX 0 e ++ ts)) h0 hfo
    (by simp only [fuelX, List.length_append]; omega)

theorem parseES_full (e : XExpr) (h : wfX e = true) :
    parseES (ppX 0 e) = some (normX e, []) := by
  have := parseES_rt e h [] trivial
  simpa using this

theorem parseFull_rt (e : XExpr) (h : wfX e = true) : parseFull ((ppX 0 e)) = some (normX e) := by
  simp [parseFull, parseES_full e h]

theorem stop_colon (r) : StopOK (.colon :: r) := trivial
theorem stop_assign (r) : StopOK (.assign :: r) := trivial
theorem stop_pluseq (r) : StopOK (.pluseq :: r) := trivial
theorem stop_at (r) : StopOK (.at :: r) := trivial
theorem stop_comma (r) : StopOK (.t .comma :: r) := trivial
theorem stop_rp (r) : StopOK (.t .rp :: r) := trivial
theorem stop_rb (r) : StopOK (.t .rb :: r) := trivial
theorem stop_nil : StopOK [] := trivial

/-! ### window accesses -/

/-- after an access: `,` or `]` -/
def AccStop (ts : List STok) : Prop := ∃ r, ts = .t .comma :: r ∨ ts = .t .rb :: r

theorem AccStop.stop {ts} (h : AccStop ts) : StopOK ts := by
  obtain ⟨r, rfl | rfl⟩ := h <;> trivial

theorem parseAcc_rt (a : WAcc) (h : wfAcc a = true) (ts : List STok) (hs : AccStop ts) :
    parseAcc (ppAccT a ++ ts) = some (normAcc a, ts) := by
  cases a with
  | pt e =>
    simp only [wfAcc] at h
    simp only [ppAccT, parseAcc, parseES_rt e h ts hs.stop, normAcc]
    obtain ⟨r, rfl | rfl⟩ := hs <;> rfl
  | iv lo hi =>
    simp only [wfAcc, Bool.and_eq_true] at h
    have h1 := parseES_rt lo h.1 (.colon :: ((ppX 0 hi) ++ ts)) (stop_colon _)
    have h2 := parseES_rt hi h.2 ts hs.stop
    simp only [ppAccT, List.append_assoc, List.cons_append, parseAcc, h1, h2, normAcc]

/-- `a, as… ]` -/
theorem parseAccs_rt : ∀ (as : List WAcc) (a : WAcc), wfAcc a = true → wfAccs as = true →
    ∀ (f : Nat) (r : List STok), as.length + 1 ≤ f →
    parseAccs f (ppAccT a ++ (ppAccsTailT as ++ .t .rb :: r)) = some (normAcc a :: normAccs as, r)
  | [], a, ha, _, f, r, hf => by
    obtain ⟨F, rfl⟩ : ∃ F, f = F + 1 := ⟨f - 1, by simp at hf; omega⟩
    have := parseAcc_rt a ha (.t .rb :: r) ⟨r, .inr rfl⟩
    simp only [ppAccsTailT, List.nil_append, parseAccs, this, normAccs]
  | b :: bs, a, ha, hbs, f, r, hf => by
    simp only [wfAccs, Bool.and_eq_true] at hbs
    simp only [List.length_cons] at hf
    obtain ⟨F, rfl⟩ : ∃ F, f = F + 1 := ⟨f - 1, by omega⟩
    have h1 := parseAcc_rt a ha (.t .comma :: (ppAccT b ++ (ppAccsTailT bs ++ .t .rb :: r)))
      ⟨_, .inl rfl⟩
    have h2 := parseAccs_rt bs b hbs.1 hbs.2 F r (by omega)
    simp only [ppAccsTailT, List.cons_append, List.append_assoc, parseAccs, h1, h2, normAccs]

theorem ppAccT_length_pos (a : WAcc) : 1 ≤ (ppAccT a).length := by
  cases a with
  | pt e => simpa [ppAccT] using ppX_length_pos 0 e
  | iv lo hi => simp only [ppAccT, List.length_append, List.length_cons]; omega

theorem ppAccsTailT_length (as : List WAcc) : as.length ≤ (ppAccsTailT as).length := by
  induction as with
  | nil => simp
  | cons a as ih =>
    have := ppAccT_length_pos a
    simp only [ppAccsTailT, List.length_cons, List.length_append]; omega

theorem normAccs_any : ∀ as : List WAcc, (normAccs as).any isIv = as.any isIv
  | [] => rfl
  | a :: as => by
    cases a <;> simp [normAccs, normAcc, isIv, normAccs_any as]

theorem parseWin_rt (x : String) (accs : List WAcc) (h : wfWin accs = true) (r : List STok) :
    parseWin (ppWinT x accs ++ r) = some (.win x (normAccs accs), r) := by
  simp only [wfWin, Bool.and_eq_true] at h
  cases accs with
  | nil => simp at h
  | cons a as =>
    simp only [wfAccs, Bool.and_eq_true] at h
    have hl1 := ppAccsTailT_length as
    have hl2 := ppAccT_length_pos a
    have := parseAccs_rt as a h.1.1 h.1.2
      ((ppAccT a ++ (ppAccsTailT as ++ .t .rb :: r)).length + 1) r
      (by simp only [List.length_append, List.length_cons]; omega)
    have hany : (normAcc a :: normAccs as).any isIv = true := by
      have := normAccs_any (a :: as)
      simp only [normAccs] at this
      rw [this]; exact h.2
    simp only [ppWinT, ppAccsT, List.cons_append, List.append_assoc, List.nil_append, parseWin,
      this, hany, if_true, normAccs]

/-! ### a window expression is not read as an expression -/

/-- fuel with which the failure below is reached -/
def needP : List WAcc → Nat
  | [] => 0
  | .iv lo _ :: _ => needX lo + 2
  | .pt e :: as => needX e + needP as + 2

theorem stop_accsTail (as : List WAcc) (h : as.any isIv = true) (r : List STok) :
    StopOK (ppAccsTailT as ++ r) := by
  cases as with
  | nil => simp at h
  | cons a as => simp [ppAccsTailT, StopOK]

theorem parseTailX_colon (G : Nat) (r : List STok) :
    parseTailX (G + 1) (.colon :: r) = some ([], .colon :: r) := by
  simp [parseTailX]

/-- the subscript loop runs into the first `:` -/
theorem tail_eats : ∀ (as : List WAcc), wfAccs as = true → as.any isIv = true →
    ∀ (r : List STok) (F : Nat), needP as ≤ F →
    ∃ l r', parseTailX F (ppAccsTailT as ++ r) = some (l, .colon :: r')
  | [], _, h, _, _, _ => by simp at h
  | .iv lo hi :: as, hw, _, r, F, hF => by
    simp only [wfAccs, wfAcc, Bool.and_eq_true] at hw
    simp only [needP] at hF
    obtain ⟨G, rfl⟩ : ∃ G, F = G + 2 := ⟨F - 2, by omega⟩
    have h1 := rtX_item lo (rtX_all lo hw.1.1) (.colon :: (ppX 0 hi ++ (ppAccsTailT as ++ r)))
      (G + 1) rfl trivial (by omega)
    refine ⟨[normX lo], ppX 0 hi ++ (ppAccsTailT as ++ r), ?_⟩
    simp only [ppAccsTailT, ppAccT, List.cons_append, List.append_assoc, parseTailX, h1]
  | .pt e :: as, hw, ha, r, F, hF => by
    simp only [wfAccs, wfAcc, Bool.and_eq_true] at hw
    simp only [needP] at hF
    have ha' : as.any isIv = true := by simpa [isIv] using ha
    obtain ⟨G, rfl⟩ : ∃ G, F = G + 1 := ⟨F - 1, by omega⟩
    obtain ⟨h0, hfo⟩ := stop_props _ (stop_accsTail as ha' r)
    have h1 := rtX_item e (rtX_all e hw.1) (ppAccsTailT as ++ r) G h0 hfo (by omega)
    obtain ⟨l, r', h2⟩ := tail_eats as hw.2 ha' r G (by omega)
    refine ⟨normX e :: l, r', ?_⟩
    simp only [ppAccsTailT, ppAccT, List.cons_append, List.append_assoc, parseTailX, h1, h2]

theorem win_not_expr_big (x : String) (a : WAcc) (as : List WAcc)
    (hw : wfAccs (a :: as) = true) (ha : (a :: as).any isIv = true) (r : List STok) (F : Nat)
    (hF : needP (a :: as) + 2 ≤ F) :
    parseExprX F 0 (.t (.id x) :: .t .lb :: (ppAccT a ++ (ppAccsTailT as ++ r))) = none := by
  simp only [wfAccs, Bool.and_eq_true] at hw
  cases a with
  | iv lo hi =>
    simp only [wfAcc, Bool.and_eq_true] at hw
    simp only [needP] at hF
    obtain ⟨G, rfl⟩ : ∃ G, F = G + 2 := ⟨F - 2, by omega⟩
    have h1 := rtX_item lo (rtX_all lo hw.1.1) (.colon :: (ppX 0 hi ++ (ppAccsTailT as ++ r)))
      G rfl trivial (by omega)
    have ht : parseTailX G (.colon :: (ppX 0 hi ++ (ppAccsTailT as ++ r)))
        = some ([], .colon :: (ppX 0 hi ++ (ppAccsTailT as ++ r))) := by
      obtain ⟨G', rfl⟩ : ∃ G', G = G' + 1 := ⟨G - 1, by have := needX_pos lo; omega⟩
      exact parseTailX_colon _ _
    simp only [ppAccT, List.cons_append, List.append_assoc, parseExprX, parseUnaryX, h1, ht]
  | pt e =>
    simp only [wfAcc] at hw
    simp only [needP] at hF
    have ha' : as.any isIv = true := by simpa [isIv] using ha
    obtain ⟨G, rfl⟩ : ∃ G, F = G + 2 := ⟨F - 2, by omega⟩
    obtain ⟨h0, hfo⟩ := stop_props _ (stop_accsTail as ha' r)
    have h1 := rtX_item e (rtX_all e hw.1) (ppAccsTailT as ++ r) G h0 hfo (by omega)
    obtain ⟨l, r', h2⟩ := tail_eats as hw.2 ha' r G (by omega)
    simp only [ppAccT, parseExprX, parseUnaryX, h1, h2]

theorem needP_le : ∀ (as : List WAcc) (a : WAcc), (a :: as).any isIv = true →
    needP (a :: as) ≤ 4 * (ppAccT a ++ ppAccsTailT as).length
  | as, .iv lo hi, _ => by
    have := needX_le lo 0
    simp only [needP, ppAccT, List.length_append, List.length_cons]; omega
  | [], .pt e, h => by simp [isIv] at h
  | b :: bs, .pt e, h => by
    have h' : (b :: bs).any isIv = true := by simpa [isIv] using h
    have ih := needP_le bs b h'
    have := needX_le e 0
    simp only [needP, ppAccT, ppAccsTailT, List.length_append, List.length_cons] at ih ⊢
    omega

theorem parseES_win_none (x : String) (accs : List WAcc) (h : wfWin accs = true)
    (r : List STok) : parseES (ppWinT x accs ++ r) = none := by
  simp only [wfWin, Bool.and_eq_true] at h
  cases accs with
  | nil => simp at h
  | cons a as =>
    have hb := needP_le as a h.2
    have := win_not_expr_big x a as h.1 h.2 (.t .rb :: r)
      (fuelX (ppWinT x (a :: as) ++ r))
      (by
        simp only [fuelX, ppWinT, ppAccsT, List.length_append, List.length_cons,
          List.length_nil] at hb ⊢
        omega)
    simpa only [parseES, ppWinT, ppAccsT, List.cons_append, List.append_assoc,
      List.nil_append] using this

/-! ### arguments -/

theorem parseArg_rt (a : PArg) (h : wfArg a = true) (ts : List STok) (hs : StopOK ts) :
    parseArg (ppArgT a ++ ts) = some (normArg a, ts) := by
  cases a with
  | e e =>
    simp only [wfArg] at h
    simp only [ppArgT, parseArg, parseES_rt e h ts hs, normArg]
  | win x accs =>
    simp only [wfArg] at h
    simp only [ppArgT, parseArg, parseES_win_none x accs h ts, parseWin_rt x accs h ts, normArg]

/-- `, a`* followed by `)` -/
theorem parseArgsTail_rt : ∀ (as : List PArg), wfArgs as = true →
    ∀ (f : Nat) (r : List STok), as.length + 1 ≤ f →
    parseArgsTail f (ppArgsTailT as ++ .t .rp :: r) = some (normArgs as, .t .rp :: r)
  | [], _, f, r, hf => by
    obtain ⟨F, rfl⟩ : ∃ F, f = F + 1 := ⟨f - 1, by simp at hf; omega⟩
    simp [ppArgsTailT, parseArgsTail, normArgs]
  | a :: as, h, f, r, hf => by
    simp only [wfArgs, Bool.and_eq_true] at h
    simp only [List.length_cons] at hf
    obtain ⟨F, rfl⟩ : ∃ F, f = F + 1 := ⟨f - 1, by omega⟩
    have hstop : StopOK (ppArgsTailT as ++ .t .rp :: r) := by
      cases as <;> simp [ppArgsTailT, StopOK]
    have h1 := parseArg_rt a h.1 (ppArgsTailT as ++ .t .rp :: r) hstop
    have h2 := parseArgsTail_rt as h.2 F r (by omega)
    simp only [ppArgsTailT, List.cons_append, List.append_assoc, parseArgsTail, h1, h2, normArgs]

theorem ppArgT_length_pos (a : PArg) : 1 ≤ (ppArgT a).length := by
  cases a with
  | e e => simpa [ppArgT] using ppX_length_pos 0 e
  | win x accs => simp [ppArgT, ppWinT]

theorem ppArgsTailT_length (as : List PArg) : as.length ≤ (ppArgsTailT as).length := by
  induction as with
  | nil => simp
  | cons a as ih =>
    have := ppArgT_length_pos a
    simp only [ppArgsTailT, List.length_cons, List.length_append]; omega

theorem ppArgT_head_ne_rp (a : PArg) : (ppArgT a).head? ≠ some (.t .rp) := by
  cases a with
  | e e => simpa [ppArgT] using ppX_head_ne_rp 0 e
  | win x accs => simp [ppArgT, ppWinT]

theorem parseCallArgs_ne (ts : List STok) (h : ts ≠ [.t .rp]) :
    parseCallArgs ts =
      match parseArg ts with
      | some (a, r) =>
        match parseArgsTail (r.length + 1) r with
        | some (as, [.t .rp]) => some (a :: as)
        | _ => none
      | none => none := by
  unfold parseCallArgs
  split
  · exact absurd rfl h
  · rfl

theorem parseCallArgs_rt (args : List PArg) (h : wfArgs args = true) :
    parseCallArgs (ppArgsT args ++ [.t .rp]) = some (normArgs args) := by
  cases args with
  | nil => simp [ppArgsT, parseCallArgs, normArgs]
  | cons a as =>
    simp only [wfArgs, Bool.and_eq_true] at h
    have hstop : StopOK (ppArgsTailT as ++ [.t .rp]) := by
      cases as <;> simp [ppArgsTailT, StopOK]
    have h1 := parseArg_rt a h.1 (ppArgsTailT as ++ [.t .rp]) hstop
    have hl := ppArgsTailT_length as
    have h2 := parseArgsTail_rt as h.2 ((ppArgsTailT as ++ [STok.t .rp]).length + 1) []
      (by simp only [List.length_append, List.length_cons, List.length_nil]; omega)
    have hne : ppArgT a ++ (ppArgsTailT as ++ [.t .rp]) ≠ [.t .rp] := by
      intro hh
      have h3 := ppArgT_head_ne_rp a
      have h4 := ppArgT_length_pos a
      cases hp : ppArgT a with
      | nil => simp [hp] at h4
      | cons b bs =>
        rw [hp] at h3 hh
        simp only [List.cons_append, List.cons.injEq, List.head?_cons, Option.some.injEq,
          ne_eq] at hh h3
        exact h3 hh.1
    simp only [ppArgsT, List.append_assoc]
    rw [parseCallArgs_ne _ hne]
    simp only [h1, h2, normArgs]

end Exo.PrintStmt
