/-
  Lemmas for C12, part 7: concrete programs and oracles used by `Props/C12.lean`
  (counter-witnesses for the three findings, and instances showing the theorems are not vacuous).
-/
import ExoModel.Lemmas.SimplifyStmt

namespace Exo.Simplify
open Exo (Sym)

def noEq : Expr → Expr → Bool := fun _ _ => false

theorem noEq_ok : ∀ a b, noEq a b = true → a = b := by intro a b h; cases h

/-! #### a decidable check of well-formedness, for concrete programs -/

def Expr.wfb : Expr → Bool
  | .usub e => e.wfb
  | .bin op l r =>
    l.wfb && r.wfb &&
      (if op = .div ∨ op = .mod then (match r with | .const d => decide (0 < d) | _ => false) else true)
  | _ => true

theorem Expr.wfb_sound : ∀ (e : Expr), e.wfb = true → e.WF
  | .var _, _ => trivial
  | .const _, _ => trivial
  | .bconst _, _ => trivial
  | .cfg _ _, _ => trivial
  | .usub e, h => Expr.wfb_sound e h
  | .bin op l r, h => by
    simp only [Expr.wfb, Bool.and_eq_true] at h
    refine ⟨Expr.wfb_sound l h.1.1, Expr.wfb_sound r h.1.2, ?_⟩
    intro hop
    have h3 := h.2
    simp only [hop, if_true] at h3
    split at h3
    · rename_i d; exact ⟨d, rfl, by simpa using h3⟩
    · cases h3

mutual
def Stmt.wfb : Stmt → Bool
  | .obs es => es.all Expr.wfb
  | .wcfg _ _ e => e.wfb
  | .ite c t e => c.wfb && t.wfb && e.wfb
  | .loop _ lo hi b => lo.wfb && hi.wfb && b.wfb
  | .pass => true
def Block.wfb : Block → Bool
  | .nil => true
  | .cons s b => s.wfb && b.wfb
end

mutual
theorem Stmt.wfb_sound : ∀ (s : Stmt), s.wfb = true → s.WF
  | .obs es, h => by
    simp only [Stmt.wfb, List.all_eq_true] at h
    exact fun e he => Expr.wfb_sound e (h e he)
  | .wcfg _ _ e, h => Expr.wfb_sound e h
  | .ite c t e, h => by
    simp only [Stmt.wfb, Bool.and_eq_true] at h
    exact ⟨Expr.wfb_sound c h.1.1, Block.wfb_sound t h.1.2, Block.wfb_sound e h.2⟩
  | .loop _ lo hi b, h => by
    simp only [Stmt.wfb, Bool.and_eq_true] at h
    exact ⟨Expr.wfb_sound lo h.1.1, Expr.wfb_sound hi h.1.2, Block.wfb_sound b h.2⟩
  | .pass, _ => trivial
theorem Block.wfb_sound : ∀ (b : Block), b.wfb = true → b.WF
  | .nil, _ => trivial
  | .cons s b, h => by
    simp only [Block.wfb, Bool.and_eq_true] at h
    exact ⟨Stmt.wfb_sound s h.1, Block.wfb_sound b h.2⟩
end

def wi : Sym := ⟨"i", 1⟩
def wi2 : Sym := ⟨"i", 2⟩
def wn : Sym := ⟨"n", 3⟩

/-- the scope inside `for i in seq(0, 4)` -/
def wScope : Scope := [(wi, .const 0, .const 4)]

/-- a valuation reachable inside `for i in seq(a, b)` with literal bounds has `a ≤ i < b` -/
theorem reach_const_loop (P : Val → Prop) (sc : Scope) (ρ : Val) (h : Reach P sc ρ) :
    ∀ (i : Sym) (a b : Int) (sc' : Scope), sc = (i, .const a, .const b) :: sc' → a ≤ ρ.sym i ∧ ρ.sym i < b := by
  induction h with
  | base _ => intro i a b sc' e; cases e
  | cfg σ' _ ih => intro i a b sc' e; exact ih i a b sc' e
  | bind j lo hi v _ h1 h2 _ =>
    intro i a b sc' e
    simp only [List.cons.injEq, Prod.mk.injEq] at e
    obtain ⟨⟨rfl, rfl, rfl⟩, _⟩ := e
    simp only [eval] at h1 h2
    simp [setSym, h1, h2]

/-! #### the PRE-FIX `modulo_simplification` (before commit d86c98ae, finding F2): why `0 <= e` must be asked -/

/-- `modulo_simplification` as it was before the fix: asks the range analysis only for `new_lhs < m` -/
def modSimpPreFix (O : Oracle) (lhs : Expr) (m : Int) : Option Expr :=
  match getNormalized lhs with
  | none => none
  | some (c, nl) =>
    let nl' := nl.filter (fun t => t.1 % m ≠ 0)
    if nl'.isEmpty then some (.const (c % m))
    else
      let c' := if c % m = 0 then 0 else c
      let newLhs := gen c' nl'
      if O newLhs .lt m then some newLhs else some (.bin .mod newLhs (.const m))

/-- `-3 + 1 * i`, the numerator `modulo_simplification` asks about for `(i - 3) % 8` -/
def wTarget : Expr := .bin .add (.const (-3)) (.bin .mul (.const 1) (.var wi))

/-- an oracle that answers exactly one query, truthfully: in `for i in seq(0,4)`, `-3 + i < 8` -/
def wOracle : OracleS := fun sc e op c =>
  decide (sc = wScope) && decide (e = wTarget) && decide (op = Cmp.lt) && decide (c = 8)

theorem wOracle_sound : ∀ sc, (wOracle sc).Sound (Reach (fun _ => True) sc) := by
  intro sc e op c h ρ hR
  simp only [wOracle, Bool.and_eq_true, decide_eq_true_eq] at h
  obtain ⟨⟨⟨rfl, rfl⟩, rfl⟩, rfl⟩ := h
  have := reach_const_loop _ _ _ hR wi 0 4 [] rfl
  simp only [Cmp.holds, wTarget, eval, evalOp]
  omega

/-- `for i in seq(0, 4): x[(i - 3) % 8]` — the old F2 witness; the fixed code leaves the `%` in place -/
def wProgF2 : Block :=
  .cons (.loop wi (.const 0) (.const 4)
    (.cons (.obs [.bin .mod (.bin .sub (.var wi) (.const 3)) (.const 8)]) .nil)) .nil

theorem wProgF2_WF : wProgF2.WF := Block.wfb_sound _ (by decide)

theorem wProgF2_scoped : wProgF2.Scoped [] false := by
  simp [wProgF2, Block.Scoped, Stmt.Scoped, Over, Expr.syms]

/-! #### F14: a shadowing iterator under a fact about the outer one -/

def noOracle : OracleS := fun _ _ _ _ => false

theorem noOracle_sound (P : Val → Prop) : ∀ sc, (noOracle sc).Sound (Reach P sc) := by
  intro sc e op c h; cases h

/-- `for i in seq(0,4): if i == 0: for i' in seq(0,8): x[i']`  (both iterators are named `i`) -/
def wProgF14 : Block :=
  .cons (.loop wi (.const 0) (.const 4)
    (.cons (.ite (.bin .eq (.var wi) (.const 0))
      (.cons (.loop wi2 (.const 0) (.const 8) (.cons (.obs [.var wi2]) .nil)) .nil)
      .nil) .nil)) .nil

theorem wProgF14_WF : wProgF14.WF := Block.wfb_sound _ (by decide)

/-! #### a config write under a fact about the config -/

/-- `if Cfg.a == 3: Cfg.a = 4; x[Cfg.a]` -/
def wProgCfg : Block :=
  .cons (.ite (.bin .eq (.cfg "Cfg" "a") (.const 3))
    (.cons (.wcfg "Cfg" "a" (.const 4)) (.cons (.obs [.cfg "Cfg" "a"]) .nil))
    .nil) .nil

theorem wProgCfg_WF : wProgCfg.WF := Block.wfb_sound _ (by decide)

/-! #### a positive instance: `(i + 8) % 8` and a guarded use of `n`, rewritten and value-preserving -/

def xTarget : Expr := .bin .add (.const 0) (.bin .mul (.const 1) (.var wi))

/-- answers `0 + 1*i < 8` and `0 <= 0 + 1*i` inside `for i in seq(0,4)` -/
def xOracle : OracleS := fun sc e op c =>
  decide (sc = wScope) && decide (e = xTarget) &&
    ((decide (op = Cmp.lt) && decide (c = 8)) || (decide (op = Cmp.ge) && decide (c = 0)))

theorem xOracle_sound : ∀ sc, (xOracle sc).Sound (Reach (fun ρ => 1 ≤ ρ.sym wn) sc) := by
  intro sc e op c h ρ hR
  simp only [xOracle, Bool.and_eq_true, Bool.or_eq_true, decide_eq_true_eq] at h
  obtain ⟨⟨rfl, rfl⟩, h⟩ := h
  have := reach_const_loop _ _ _ hR wi 0 4 [] rfl
  cases h with
  | inl h => obtain ⟨rfl, rfl⟩ := h; simp only [Cmp.holds, xTarget, eval, evalOp]; omega
  | inr h => obtain ⟨rfl, rfl⟩ := h; simp only [Cmp.holds, xTarget, eval, evalOp]; omega

/-- `for i in seq(0,4): x[(i + 8) % 8, (8*i + n - n) / 8]; if n == 4: x[n / 4 + n % 4] else: for j in seq(2,2): x[i]` -/
def xProg : Block :=
  .cons (.loop wi (.const 0) (.const 4)
    (.cons (.obs [.bin .mod (.bin .add (.var wi) (.const 8)) (.const 8),
                  .bin .div (.bin .sub (.bin .add (.bin .mul (.const 8) (.var wi)) (.var wn)) (.var wn)) (.const 8)])
    (.cons (.ite (.bin .eq (.var wn) (.const 4))
      (.cons (.obs [.bin .add (.bin .div (.var wn) (.const 4)) (.bin .mod (.var wn) (.const 4))]) .nil)
      (.cons (.loop ⟨"j", 4⟩ (.const 2) (.const 2) (.cons (.obs [.var wi]) .nil)) .nil)) .nil))) .nil

theorem xProg_WF : xProg.WF := Block.wfb_sound _ (by decide)

theorem xProg_scoped : xProg.Scoped [wn] false := by
  simp [xProg, Block.Scoped, Stmt.Scoped, Over, Expr.syms, wn, wi]

theorem noClash_wn : NoClash [wn] := by
  intro a ha b hb _
  simp only [List.mem_singleton] at ha hb
  rw [ha, hb]

end Exo.Simplify
