/-
  Lemmas for C02 wave 2 / C08, part 10: the static `free` discipline (`CompileS.fsS/fsL/fsBlock`)
  is sound — on C code that satisfies it, a run that succeeds with the allocation-status monitors
  off succeeds identically with them on: no `useAfterFree`, `doubleFree`, `badFree`, no `leak`
  at any closing brace.  Part A: the invariant and its maintenance by the primitive steps.
-/
import ExoModel.Lemmas.CSimMon

namespace Exo.CompileS
open Exo Exo.CIndex Exo.CSem

variable {V : Type}

/-- what the checker's state `fs` says about a C state; `base` = heap length at the entry of the
    current block -/
structure Inv (fs : FS) (base : Nat) (c : CState V) : Prop where
  len : c.stat.length = c.heap.length
  base_le : base ≤ c.heap.length
  keys : ∀ y, (lookupSym y c.vals).isSome = true → y ∈ fs.vis
  bufs : ∀ y cv, lookupSym y c.vals = some cv → cv.buf < c.heap.length
  alk : ∀ p ∈ fs.al, p.1 ∈ fs.vis
  deadk : ∀ d ∈ fs.dead, d ∈ fs.vis
  dead : ∀ y cv, lookupSym y c.vals = some cv → c.stat[cv.buf]? = some .freed →
    aliasRoot fs.al y ∈ fs.dead
  mine : ∀ x ∈ fs.mine, ∃ b, lookupSym x c.vals = some (.ptr b 0) ∧ base ≤ b ∧
    (x ∉ fs.dead → c.stat[b]? = some .live)
  uniq : ∀ x ∈ fs.mine, ∀ b, lookupSym x c.vals = some (.ptr b 0) →
    ∀ r cr, lookupSym r c.vals = some cr → cr.buf = b → aliasRoot fs.al r = x
  live : ∀ b, base ≤ b → c.stat[b]? = some .live →
    ∃ x ∈ fs.mine, lookupSym x c.vals = some (.ptr b 0) ∧ x ∉ fs.dead

theorem Inv.congr {fs : FS} {base : Nat} {c c' : CState V} (h : Inv fs base c)
    (hv : c'.vals = c.vals) (hs : c'.stat = c.stat) (hl : c'.heap.length = c.heap.length) :
    Inv fs base c' := by
  refine ⟨by rw [hs, hl]; exact h.len, by rw [hl]; exact h.base_le, ?_, ?_, h.alk, h.deadk, ?_, ?_,
    ?_, ?_⟩
  · rw [hv]; exact h.keys
  · rw [hv, hl]; exact h.bufs
  · rw [hv, hs]; exact h.dead
  · rw [hv, hs]; exact h.mine
  · rw [hv]; exact h.uniq
  · rw [hv, hs]; exact h.live

/-- entering a nested block -/
theorem Inv.enter {fs : FS} {base : Nat} {c : CState V} (h : Inv fs base c) :
    Inv { fs with mine := [] } c.heap.length c := by
  refine ⟨h.len, Nat.le_refl _, h.keys, h.bufs, h.alk, h.deadk, h.dead, ?_, ?_, ?_⟩
  · intro x hx; cases hx
  · intro x hx; cases hx
  · intro b hb hl
    have : c.stat[b]? = none := by
      rw [List.getElem?_eq_none_iff]; rw [h.len]; exact hb
    rw [this] at hl; cases hl

theorem idx_lt {α : Type} {l : List α} {i : Nat} {a : α} (h : l[i]? = some a) : i < l.length := by
  rcases Nat.lt_or_ge i l.length with h1 | h1
  · exact h1
  · rw [List.getElem?_eq_none_iff.2 h1] at h; cases h

theorem aliasRoot_not_key : ∀ {al : List (Sym × Sym)} {x : Sym}, (∀ p ∈ al, p.1 ≠ x) →
    aliasRoot al x = x
  | [], _, _ => rfl
  | (w, s) :: r, x, h => by
      have hw : ¬ x = w := fun e => h (w, s) (by simp) e.symm
      simp only [aliasRoot, hw, if_false]
      exact aliasRoot_not_key (fun p hp => h p (by simp [hp]))

theorem okUse_iff {fs : FS} {y : Sym} : fs.okUse y = true ↔ aliasRoot fs.al y ∉ fs.dead := by
  simp [FS.okUse]

/-! ## reads and writes do not look at freed blocks -/

theorem cellAt_live {c : CState V} {b : Nat} (h : c.stat[b]? ≠ some Status.freed) (k : Int) :
    cellAt true c b k = cellAt false c b k := by
  unfold cellAt
  cases hb : c.heap[b]? with
  | none => rfl
  | some blk =>
      have : (c.stat[b]? == some Status.freed) = false := by
        cases hs : c.stat[b]? with
        | none => rfl
        | some s =>
            cases s with
            | freed => exact absurd hs h
            | live => rfl
            | stack => rfl
      simp [this]

theorem Inv.notFreed {fs : FS} {base : Nat} {c : CState V} (h : Inv fs base c) {y : Sym}
    (hy : fs.okUse y = true) {cv : CVal} (hc : lookupSym y c.vals = some cv) :
    c.stat[cv.buf]? ≠ some Status.freed :=
  fun hf => okUse_iff.1 hy (h.dead y cv hc hf)

theorem lvalCell_free {fs : FS} {base : Nat} {c : CState V} (h : Inv fs base c) (lv : LVal)
    (hy : fs.okUse (lvSym lv) = true) : lvalCell true c lv = lvalCell false c lv := by
  cases lv with
  | idx x isWin off =>
      simp only [lvalCell]
      cases evalIx c off with
      | error e => rfl
      | ok o =>
          simp only [ok_bind]
          cases hl : lookupSym x c.vals with
          | none => rfl
          | some cv =>
              have nf := h.notFreed hy hl
              cases cv with
              | ptr b p => cases isWin <;> simp [cellAt_live (show c.stat[b]? ≠ _ from nf)]
              | win b p ss => cases isWin <;> simp [cellAt_live (show c.stat[b]? ≠ _ from nf)]
  | scalar x byRef =>
      simp only [lvalCell]
      cases hl : lookupSym x c.vals with
      | none => rfl
      | some cv =>
          have nf := h.notFreed hy hl
          cases cv with
          | ptr b p => simp [cellAt_live (show c.stat[b]? ≠ _ from nf)]
          | win b p ss => rfl

theorem evalCD_free [DataAlg V] {fs : FS} {base : Nat} {c : CState V} (h : Inv fs base c) :
    ∀ (e : CD), (cdSyms e).all fs.okUse = true → evalCD true c e = evalCD false c e
  | .rd lv, hy => by
      simp only [cdSyms, List.all_cons, List.all_nil, Bool.and_true] at hy
      simp only [evalCD, lvalCell_free h lv hy]
  | .lit _ _, _ => rfl
  | .neg a, hy => by simp only [evalCD, evalCD_free h a hy]
  | .bin op a b, hy => by
      simp only [cdSyms, List.all_append, Bool.and_eq_true] at hy
      simp only [evalCD, evalCD_free h a hy.1, evalCD_free h b hy.2]
  | .cfg _ _, _ => rfl

theorem writeC_shape [DataAlg V] {mon : Bool} {c c' : CState V} {lv : LVal}
    {f : Option V → Option V} (h : writeC mon c lv f = .ok c') :
    c'.vals = c.vals ∧ c'.stat = c.stat ∧ c'.heap.length = c.heap.length := by
  simp only [writeC] at h
  obtain ⟨cell, _, h⟩ := bind_ok h
  simp only [pure, Except.pure, Except.ok.injEq] at h; subst h
  exact ⟨rfl, rfl, by simp [heapSet]⟩

/-! ## the result of one step -/

/-- the monitored step agrees, the invariant holds for the checker's next state, the heap only
    grows and the statuses of blocks below `base` are untouched -/
def Step (fs' : FS) (base : Nat) (c c' : CState V) (r : Except CErr (CState V)) : Prop :=
  r = .ok c' ∧ Inv fs' base c' ∧ c.heap.length ≤ c'.heap.length ∧
    ∀ b, b < base → c'.stat[b]? = c.stat[b]?

theorem Step.same {fs : FS} {base : Nat} {c c' : CState V} {r : Except CErr (CState V)}
    (hr : r = .ok c') (h : Inv fs base c) (hv : c'.vals = c.vals) (hs : c'.stat = c.stat)
    (hl : c'.heap.length = c.heap.length) : Step fs base c c' r :=
  ⟨hr, h.congr hv hs hl, by rw [hl]; exact Nat.le_refl _, fun b _ => by rw [hs]⟩

/-! ## `malloc`, `T x;`, `free`, window initialisation -/

theorem lookup_cons_ne {α : Type} {x y : Sym} {a : α} {l : List (Sym × α)} (h : y ≠ x) :
    lookupSym y ((x, a) :: l) = lookupSym y l := by
  simp [lookupSym, h]

theorem lookup_cons_self {α : Type} {x : Sym} {a : α} {l : List (Sym × α)} :
    lookupSym x ((x, a) :: l) = some a := by
  simp [lookupSym]

/-- a fresh block is appended and a fresh name bound to it -/
theorem Inv.push {fs : FS} {base : Nat} {c : CState V} (h : Inv fs base c) {x : Sym}
    (hx : x ∉ fs.vis) (blk : List (Option V)) (st : Status) (hst : st ≠ .freed)
    (isM : Bool) (hM : isM = true → st = .live) (hM' : isM = false → st ≠ .live) :
    Inv { fs with mine := if isM then x :: fs.mine else fs.mine, vis := x :: fs.vis } base
      { c with heap := c.heap ++ [blk], stat := c.stat ++ [st],
               vals := (x, .ptr c.heap.length 0) :: c.vals } := by
  have hxk : lookupSym x c.vals = none := by
    cases hl : lookupSym x c.vals with
    | none => rfl
    | some cv => exact absurd (h.keys x (by simp [hl])) hx
  have hold : ∀ y cv, y ≠ x → lookupSym y c.vals = some cv →
      (c.stat ++ [st])[cv.buf]? = c.stat[cv.buf]? := by
    intro y cv _ hl
    have := h.bufs y cv hl
    rw [List.getElem?_append_left (by rw [h.len]; exact this)]
  have hnew : (c.stat ++ [st])[c.heap.length]? = some st := by
    rw [← h.len]; simp
  refine ⟨by simp [h.len], by simp; have := h.base_le; omega, ?_, ?_, ?_, ?_, ?_, ?_, ?_, ?_⟩
  · intro y hy
    by_cases hyx : y = x
    · simp [hyx]
    · rw [lookup_cons_ne hyx] at hy
      exact List.mem_cons_of_mem _ (h.keys y hy)
  · intro y cv hy
    by_cases hyx : y = x
    · subst hyx
      rw [lookup_cons_self] at hy
      simp only [Option.some.injEq] at hy; subst hy
      simp [CVal.buf]
    · rw [lookup_cons_ne hyx] at hy
      have := h.bufs y cv hy
      simp; omega
  · intro p hp; exact List.mem_cons_of_mem _ (h.alk p hp)
  · intro d hd; exact List.mem_cons_of_mem _ (h.deadk d hd)
  · intro y cv hy hf
    by_cases hyx : y = x
    · subst hyx
      rw [lookup_cons_self] at hy
      simp only [Option.some.injEq] at hy; subst hy
      simp only [CVal.buf] at hf
      rw [hnew] at hf
      simp only [Option.some.injEq] at hf
      exact absurd hf hst
    · rw [lookup_cons_ne hyx] at hy
      rw [hold y cv hyx hy] at hf
      exact h.dead y cv hy hf
  · intro x' hx'
    have hx'' : x' = x ∧ isM = true ∨ x' ∈ fs.mine := by
      cases isM <;> simp_all
    rcases hx'' with ⟨rfl, hm⟩ | hx''
    · exact ⟨c.heap.length, lookup_cons_self, h.base_le, fun _ => by rw [hnew, hM hm]⟩
    · obtain ⟨b, hb, hbase, hlive⟩ := h.mine x' hx''
      have hne : x' ≠ x := fun e => by rw [e, hxk] at hb; cases hb
      refine ⟨b, by rw [lookup_cons_ne hne]; exact hb, hbase, fun hd => ?_⟩
      have := hold x' _ hne hb
      simp only [CVal.buf] at this
      rw [this]; exact hlive hd
  · intro x' hx' b hb r cr hr hrb
    have hx'' : x' = x ∧ isM = true ∨ x' ∈ fs.mine := by
      cases isM <;> simp_all
    rcases hx'' with ⟨rfl, _⟩ | hx''
    · rw [lookup_cons_self] at hb
      simp only [Option.some.injEq, CVal.ptr.injEq] at hb
      by_cases hrx : r = x'
      · subst hrx
        exact aliasRoot_not_key (fun p hp e => hx (e ▸ h.alk p hp))
      · rw [lookup_cons_ne hrx] at hr
        have := h.bufs r cr hr
        omega
    · have hne : x' ≠ x := fun e => by
        obtain ⟨b', hb', _⟩ := h.mine x' hx''
        rw [e, hxk] at hb'; cases hb'
      rw [lookup_cons_ne hne] at hb
      by_cases hrx : r = x
      · subst hrx
        rw [lookup_cons_self] at hr
        simp only [Option.some.injEq] at hr; subst hr
        have := h.bufs x' _ hb
        simp only [CVal.buf] at this hrb
        omega
      · rw [lookup_cons_ne hrx] at hr
        exact h.uniq x' hx'' b hb r cr hr hrb
  · intro b hb hl
    by_cases hbl : b = c.heap.length
    · subst hbl
      rw [hnew] at hl
      simp only [Option.some.injEq] at hl
      cases isM with
      | false => exact absurd hl (hM' rfl)
      | true =>
          exact ⟨x, by simp, lookup_cons_self, fun hd => hx (h.deadk x hd)⟩
    · have hlt : b < c.stat.length := by
        have : b < (c.stat ++ [st]).length := idx_lt hl
        simp only [List.length_append, List.length_cons, List.length_nil] at this
        have := h.len
        omega
      rw [List.getElem?_append_left hlt] at hl
      obtain ⟨x', hx', hb', hd'⟩ := h.live b hb hl
      have hne : x' ≠ x := fun e => by rw [e, hxk] at hb'; cases hb'
      refine ⟨x', ?_, by rw [lookup_cons_ne hne]; exact hb', hd'⟩
      cases isM <;> simp [hx']

/-- `free(x)` of a live block `malloc`ed in this block -/
theorem Inv.free {fs : FS} {base : Nat} {c : CState V} (h : Inv fs base c) {x : Sym}
    (hm : x ∈ fs.mine) (hd : x ∉ fs.dead) :
    ∃ b, lookupSym x c.vals = some (.ptr b 0) ∧ c.stat[b]? = some .live ∧ base ≤ b ∧
      Inv { fs with dead := x :: fs.dead } base { c with stat := c.stat.set b .freed } := by
  obtain ⟨b, hb, hbase, hlive⟩ := h.mine x hm
  have hl := hlive hd
  have hblt : b < c.stat.length := idx_lt hl
  have hset : ∀ j, j ≠ b → (c.stat.set b Status.freed)[j]? = c.stat[j]? := by
    intro j hj; rw [List.getElem?_set_ne (Ne.symm hj)]
  have hsetb : (c.stat.set b Status.freed)[b]? = some Status.freed := by
    simp [hblt]
  refine ⟨b, hb, hl, hbase, by simp [h.len], h.base_le, h.keys, h.bufs, h.alk, ?_, ?_, ?_, ?_, ?_⟩
  · intro d hd'
    simp only [List.mem_cons] at hd'
    rcases hd' with rfl | hd'
    · exact h.keys d (by simp [hb])
    · exact h.deadk d hd'
  · intro y cv hy hf
    by_cases hyb : cv.buf = b
    · exact List.mem_cons.2 (Or.inl (h.uniq x hm b hb y cv hy hyb))
    · rw [hset _ hyb] at hf
      exact List.mem_cons_of_mem _ (h.dead y cv hy hf)
  · intro x' hx'
    obtain ⟨b', hb', hbase', hlive'⟩ := h.mine x' hx'
    refine ⟨b', hb', hbase', fun hnd => ?_⟩
    simp only [List.mem_cons, not_or] at hnd
    have hne : b' ≠ b := by
      intro e
      subst e
      have h1 := h.uniq x hm b' hb x' _ hb' rfl
      have h2 := h.uniq x' hx' b' hb' x' _ hb' rfl
      exact hnd.1 (h2.symm.trans h1)
    rw [hset _ hne]; exact hlive' hnd.2
  · exact h.uniq
  · intro b' hb' hl'
    have hne : b' ≠ b := by
      intro e; subst e; rw [hsetb] at hl'; cases hl'
    rw [hset _ hne] at hl'
    obtain ⟨x', hx', hbx', hdx'⟩ := h.live b' hb' hl'
    refine ⟨x', hx', hbx', fun hd' => ?_⟩
    simp only [List.mem_cons] at hd'
    rcases hd' with rfl | hd'
    · rw [hb] at hbx'
      simp only [Option.some.injEq, CVal.ptr.injEq] at hbx'
      exact hne hbx'.1.symm
    · exact hdx' hd'

/-- `struct exo_win w = { &src[..], .. }`: a new alias of `src`'s block -/
theorem Inv.window {fs : FS} {base : Nat} {c : CState V} (h : Inv fs base c) {w src : Sym}
    (hw : w ∉ fs.vis) {cvs : CVal} (hs : lookupSym src c.vals = some cvs) (o : Int)
    (ss : List Int) :
    Inv { fs with al := (w, src) :: fs.al, vis := w :: fs.vis } base
      { c with vals := (w, .win cvs.buf o ss) :: c.vals } := by
  have hwk : lookupSym w c.vals = none := by
    cases hl : lookupSym w c.vals with
    | none => rfl
    | some cv => exact absurd (h.keys w (by simp [hl])) hw
  have hroot : ∀ y, y ≠ w → aliasRoot ((w, src) :: fs.al) y = aliasRoot fs.al y := by
    intro y hy; simp [aliasRoot, hy]
  have hrootw : aliasRoot ((w, src) :: fs.al) w = aliasRoot fs.al src := by
    simp [aliasRoot]
  refine ⟨h.len, h.base_le, ?_, ?_, ?_, ?_, ?_, ?_, ?_, ?_⟩
  · intro y hy
    by_cases hyw : y = w
    · simp [hyw]
    · rw [lookup_cons_ne hyw] at hy
      exact List.mem_cons_of_mem _ (h.keys y hy)
  · intro y cv hy
    by_cases hyw : y = w
    · subst hyw
      rw [lookup_cons_self] at hy
      simp only [Option.some.injEq] at hy; subst hy
      exact h.bufs src cvs hs
    · rw [lookup_cons_ne hyw] at hy
      exact h.bufs y cv hy
  · intro p hp
    simp only [List.mem_cons] at hp
    rcases hp with rfl | hp
    · simp
    · exact List.mem_cons_of_mem _ (h.alk p hp)
  · intro d hd; exact List.mem_cons_of_mem _ (h.deadk d hd)
  · intro y cv hy hf
    by_cases hyw : y = w
    · subst hyw
      rw [lookup_cons_self] at hy
      simp only [Option.some.injEq] at hy; subst hy
      rw [hrootw]
      exact h.dead src cvs hs hf
    · rw [lookup_cons_ne hyw] at hy
      rw [hroot y hyw]
      exact h.dead y cv hy hf
  · intro x hx
    obtain ⟨b, hb, hbase, hlive⟩ := h.mine x hx
    have hne : x ≠ w := fun e => by rw [e, hwk] at hb; cases hb
    exact ⟨b, by rw [lookup_cons_ne hne]; exact hb, hbase, hlive⟩
  · intro x hx b hb r cr hr hrb
    have hne : x ≠ w := fun e => by
      obtain ⟨b', hb', _⟩ := h.mine x hx
      rw [e, hwk] at hb'; cases hb'
    rw [lookup_cons_ne hne] at hb
    by_cases hrw : r = w
    · subst hrw
      rw [lookup_cons_self] at hr
      simp only [Option.some.injEq] at hr; subst hr
      rw [hrootw]
      exact h.uniq x hx b hb src cvs hs hrb
    · rw [lookup_cons_ne hrw] at hr
      rw [hroot r hrw]
      exact h.uniq x hx b hb r cr hr hrb
  · intro b hb hl
    obtain ⟨x, hx, hbx, hdx⟩ := h.live b hb hl
    have hne : x ≠ w := fun e => by rw [e, hwk] at hbx; cases hbx
    exact ⟨x, hx, by rw [lookup_cons_ne hne]; exact hbx, hdx⟩

end Exo.CompileS
