/-
  stage_mem, part 2: the "stage mode".  A statement `a` on the left, `Rw.stageS x xs w a` on the
  right, from `StR`-related states: same environment / configuration / views on both sides, `x` is
  bound to `pv x` (a view into buffer `M`), `xs` to `pv xs` (a view into buffer `N`), no other view
  points into `M` or `N`; a partial cell map `C` (window cell of `M` ↦ cell of `N`):

    * `right.N[c'] = left.M[c]`   for `C c = some c'`   (the staging buffer holds the window)
    * `right.M[c]  = left.M[c]`   for `C c = none`      (cells outside the window)
    * `right.M = rm0`                                    (the right run never writes buffer `M`;
                                                          inside the window it is STALE)
    * `left.N` unconstrained

  ONE-DIRECTIONAL (`Fwd`): if the left run succeeds and every cell of buffer `M` it accesses is a
  window cell (`AccIn M (DC C)` on the dynamic footprint — the semantic content of
  `Check_Access_In_Window`), the right run succeeds in a related state.

  The access geometry is the abstract hypothesis `StAcc`; `los` / `lov` are the expressions the
  redirected index `stageIdx w idx` evaluates besides `idx` (the lower ends of the window) and their
  values at the start of the block: they are `envOnly` and mention no loop variable bound in the
  block (`Rw.stageOkS`), so they keep their values throughout the block.

  Guard `Rw.stageOkS x los` (first version, as `Rw.reidxOkS`): `x` occurs only as the buffer of a data
  read `x[idx]` and as the target of `assign` / `reduce`; NOT in a window expression, NOT as
  `stride(x, _)`, NOT in a call argument, not in any index / control expression, never re-bound.
  `xs` does not occur at all (hypothesis on `Stmt.names`).
-/
import ExoModel.Lemmas.StorageStage1

set_option linter.unusedSectionVars false
set_option linter.unusedVariables false

namespace Exo.Rw
open Exo

mutual
def stageOkS (x : Sym) (los : List Expr) : Stmt → Bool
  | .assign _ idx rhs => notIn x (namesEs idx) && okD x rhs
  | .reduce _ idx rhs => notIn x (namesEs idx) && okD x rhs
  | .writecfg _ _ rhs d => if d then okD x rhs else notIn x rhs.names
  | .pass => true
  | .ite c t el => notIn x c.names && stageOkL x los t && stageOkL x los el
  | .loop i lo hi b _ => notIn x lo.names && notIn x hi.names && !occCs i los && stageOkL x los b
  | .alloc y sh => y != x && notIn x (namesEs sh)
  | .free _ => true
  | .call _ args => notIn x (namesEs args)
  | .window y rhs => y != x && notIn x rhs.names
def stageOkL (x : Sym) (los : List Expr) : List Stmt → Bool
  | [] => true
  | s :: r => stageOkS x los s && stageOkL x los r
end

/-- the lower ends of the interval coordinates of a window (what `stageIdx` subtracts) -/
def stageLos : List WAcc → List Expr
  | .interval lo _ :: w => lo :: stageLos w
  | .point _ :: w => stageLos w
  | [] => []

/-- executable syntactic side condition of `stage_mem` on the staged block `B` -/
def stageGuard (x xs : Sym) (w : List WAcc) (B : List Stmt) : Bool :=
  stageOkL x (stageLos w) B && notIn xs (namesL B) && (stageLos w).all Expr.envOnly && x != xs

end Exo.Rw

namespace Exo.Stg
open Exo

/-- the cells of buffer `M` that have an image under the partial cell map -/
def DC (C : Nat → Option Nat) : Int → Prop := fun o => (C o.toNat).isSome = true

/-- **the abstract access hypothesis** of the stage mode: `C` is injective on its domain, and an
    index tuple that hits a window cell `o` of the view `vx` is redirected (in any state in which the
    lower ends `los` have the values `lov`) to a tuple that hits cell `C o` of the view `vxs` -/
structure StAcc (V : Type) (w : List WAcc) (vx vxs : View) (C : Nat → Option Nat)
    (los : List Expr) (lov : List Int) : Prop where
  inj : ∀ a b c', C a = some c' → C b = some c' → a = b
  acc : ∀ (s : State V) (idx : List Expr) (is : List Int) (o : Int) (c' : Nat),
    evalCs s los = .ok lov → evalCs s idx = .ok is →
    viewOffset vx.dims is vx.off = .ok o → 0 ≤ o → C o.toNat = some c' →
    ∃ js, evalCs s (Rw.stageIdx w idx) = .ok js ∧ viewOffset vxs.dims js vxs.off = .ok (c' : Int)

namespace Stage
variable {V : Type}

theorem dc_nat {C : Nat → Option Nat} {n : Nat} (h : DC C (n : Int)) : (C n).isSome = true := by
  unfold DC at h
  have e : ((n : Int)).toNat = n := by omega
  rwa [e] at h

theorem fwd_refl {α : Type} (r : Except Err α) : Fwd Eq r r := fun a ha => ⟨a, ha, rfl⟩

theorem lt_iff_of_getElem?_eq {α : Type} {l l' : List α} {i j : Nat} (h : l[i]? = l'[j]?) :
    i < l.length ↔ j < l'.length := by
  constructor
  · intro hi
    refine Classical.byContradiction (fun hj => ?_)
    have h1 : l'[j]? = none := List.getElem?_eq_none_iff.2 (by omega)
    rw [h1] at h
    have := List.getElem?_eq_none_iff.1 h
    omega
  · intro hj
    refine Classical.byContradiction (fun hi => ?_)
    have h1 : l[i]? = none := List.getElem?_eq_none_iff.2 (by omega)
    rw [h1] at h
    have := List.getElem?_eq_none_iff.1 h.symm
    omega

/-! ### the rewrite does nothing to expressions that do not mention `x` -/

mutual
theorem stageE_id (x xs : Sym) (w : List WAcc) : ∀ (a : Expr), (∀ y ∈ a.names, y ≠ x) →
    Rw.stageE x xs w a = a
  | .read y idx, hn => by
    have hy : (y == x) = false := by simpa using hn y (by simp [Expr.names])
    simp only [Rw.stageE, hy, Bool.false_eq_true, ↓reduceIte]
    rw [stageEs_id x xs w idx (fun z hz => hn z (by simp [Expr.names, hz]))]
  | .lit c, _ => by simp only [Rw.stageE]
  | .usub a, hn => by
    simp only [Rw.stageE]
    rw [stageE_id x xs w a (fun z hz => hn z (by simpa [Expr.names] using hz))]
  | .binop o a b, hn => by
    simp only [Rw.stageE]
    rw [stageE_id x xs w a (fun z hz => hn z (by simp [Expr.names, hz])),
        stageE_id x xs w b (fun z hz => hn z (by simp [Expr.names, hz]))]
  | .extern g args, hn => by
    simp only [Rw.stageE]
    rw [stageEs_id x xs w args (fun z hz => hn z (by simpa [Expr.names] using hz))]
  | .win y acc, hn => by
    have hy : (y == x) = false := by simpa using hn y (by simp [Expr.names])
    simp only [Rw.stageE, hy, Bool.false_eq_true, ↓reduceIte]
    rw [stageWs_id x xs w acc (fun z hz => hn z (by simp [Expr.names, hz]))]
  | .stride y d, _ => by simp only [Rw.stageE]
  | .readcfg c g, _ => by simp only [Rw.stageE]
theorem stageEs_id (x xs : Sym) (w : List WAcc) : ∀ (as : List Expr), (∀ y ∈ namesEs as, y ≠ x) →
    Rw.stageEs x xs w as = as
  | [], _ => by simp only [Rw.stageEs]
  | a :: r, hn => by
    simp only [Rw.stageEs]
    rw [stageE_id x xs w a (fun z hz => hn z (by simp [namesEs, hz])),
        stageEs_id x xs w r (fun z hz => hn z (by simp [namesEs, hz]))]
theorem stageW_id (x xs : Sym) (w : List WAcc) : ∀ (a : WAcc), (∀ y ∈ a.names, y ≠ x) →
    Rw.stageW x xs w a = a
  | .interval a b, hn => by
    simp only [Rw.stageW]
    rw [stageE_id x xs w a (fun z hz => hn z (by simp [WAcc.names, hz])),
        stageE_id x xs w b (fun z hz => hn z (by simp [WAcc.names, hz]))]
  | .point a, hn => by
    simp only [Rw.stageW]
    rw [stageE_id x xs w a (fun z hz => hn z (by simpa [WAcc.names] using hz))]
theorem stageWs_id (x xs : Sym) (w : List WAcc) : ∀ (ws : List WAcc), (∀ y ∈ namesWs ws, y ≠ x) →
    Rw.stageWs x xs w ws = ws
  | [], _ => by simp only [Rw.stageWs]
  | a :: r, hn => by
    simp only [Rw.stageWs]
    rw [stageW_id x xs w a (fun z hz => hn z (by simp [namesWs, hz])),
        stageWs_id x xs w r (fun z hz => hn z (by simp [namesWs, hz]))]
end

/-! ### the lower ends keep their values -/

theorem evalCs_envOnly : ∀ (los : List Expr), (∀ e ∈ los, e.envOnly = true) →
    ∀ (σ σ' : State V), (∀ y, occCs y los = true → lookupSym y σ'.env = lookupSym y σ.env) →
    evalCs σ' los = evalCs σ los
  | [], _, _, _, _ => rfl
  | e :: r, hl, σ, σ', h => by
    simp only [evalCs]
    rw [evalC_envOnly e (hl e (by simp)) σ σ' (fun y hy => h y (by simp [occCs, hy])),
      evalCs_envOnly r (fun e' he' => hl e' (by simp [he'])) σ σ'
        (fun y hy => h y (by
          simp only [occCs, List.any_cons, Bool.or_eq_true]
          exact Or.inr hy))]

theorem evalCs_env_eq (los : List Expr) (hl : ∀ e ∈ los, e.envOnly = true) (σ σ' : State V)
    (he : σ'.env = σ.env) : evalCs σ' los = evalCs σ los :=
  evalCs_envOnly los hl σ σ' (fun _ _ => by rw [he])

/-! ### cells of a general view -/

theorem cellOf_inv {h : List (List (Option V))} {v : View} {is : List Int} {c : Nat × Nat}
    (hc : cellOf h v is = .ok c) :
    ∃ o b, viewOffset v.dims is v.off = .ok o ∧ h[v.buf]? = some b ∧ 0 ≤ o ∧
      o < (b.length : Int) ∧ c = (v.buf, o.toNat) := by
  simp only [cellOf] at hc
  obtain ⟨o, ho, hc⟩ := except_bind_ok_inv hc
  cases hb : h[v.buf]? with
  | none => rw [hb] at hc; cases hc
  | some b =>
    rw [hb] at hc
    simp only [] at hc
    split at hc
    · rename_i hr
      simp only [pure, Except.pure, Except.ok.injEq] at hc
      exact ⟨o, b, ho, rfl, hr.1, hr.2, hc.symm⟩
    · cases hc

theorem cellOf_intro {h : List (List (Option V))} {v : View} {is : List Int} {o : Int}
    {b : List (Option V)} (hb : h[v.buf]? = some b)
    (ho : viewOffset v.dims is v.off = .ok o) (h0 : 0 ≤ o) (h1 : o < (b.length : Int)) :
    cellOf h v is = .ok (v.buf, o.toNat) := by
  simp only [cellOf, ho, hb, bind, Except.bind]
  rw [if_pos ⟨h0, h1⟩]; rfl

/-! ### the joint predicate on the special buffers -/

def StQ (C : Nat → Option Nat) (rm0 : List (Option V)) (lm rm rn : List (Option V)) : Prop :=
  rm = rm0 ∧ (∀ c, C c = none → rm[c]? = lm[c]?) ∧ (∀ c c', C c = some c' → rn[c']? = lm[c]?)

/-- the middle relation -/
abbrev StR (x xs : Sym) (M N : Nat) (C : Nat → Option Nat) (rm0 : List (Option V))
    (pv : Sym → View) : State V → State V → Prop :=
  SR (fun y => y = x ∨ y = xs) M N (StQ C rm0) pv

section
variable {x xs : Sym} {w : List WAcc} {C : Nat → Option Nat} {M N : Nat} {pv : Sym → View}
  {los : List Expr} {lov : List Int} {rm0 : List (Option V)} {s s' : State V}

theorem HR.get_pair {h h' : List (List (Option V))} (H : HR M N (StQ C rm0) h h') {c c' : Nat}
    (hc : C c = some c') : heapGet h' (N, c') = heapGet h (M, c) := by
  obtain ⟨lm, rm, rn, h1, h2, h3, hq⟩ := H.big
  simp only [heapGet, h1, h3, hq.2.2 c c' hc]

/-- a write to window cell `c` on the left, to its image in the staging buffer on the right -/
theorem HR.set_pair (inj : ∀ a b c', C a = some c' → C b = some c' → a = b)
    {h h' : List (List (Option V))} (H : HR M N (StQ C rm0) h h') {c c' : Nat}
    (hc : C c = some c') (v : Option V) :
    HR M N (StQ C rm0) (heapSet h (M, c) v) (heapSet h' (N, c') v) := by
  obtain ⟨lm, rm, rn, h1, h2, h3, hq0, hq1, hq2⟩ := H.big
  have hne := H.ne
  refine ⟨hne, by simp only [heapSet, List.length_modify]; exact H.len, ?_, ?_⟩
  · intro b hbM hbN
    have e1 : ¬ M = b := fun e => hbM e.symm
    have e2 : ¬ N = b := fun e => hbN e.symm
    rw [getElem?_heapSet, getElem?_heapSet, if_neg e1, if_neg e2]
    exact H.other b hbM hbN
  · refine ⟨lm.set c v, rm, rn.set c' v, ?_, ?_, ?_, hq0, ?_, ?_⟩
    · rw [getElem?_heapSet, if_pos rfl, h1]; rfl
    · rw [getElem?_heapSet, if_neg (fun e : N = M => hne e.symm)]; exact h2
    · rw [getElem?_heapSet, if_pos rfl, h3]; rfl
    · intro d hd
      have hdc : ¬ c = d := fun e => by rw [e] at hc; rw [hc] at hd; cases hd
      rw [List.getElem?_set, if_neg hdc]
      exact hq1 d hd
    · intro d d' hd
      by_cases hdc : c = d
      · subst hdc
        have e : d' = c' := Option.some.inj (hd.symm.trans hc)
        subst e
        have hiff := lt_iff_of_getElem?_eq (hq2 c d' hc)
        rw [List.getElem?_set, List.getElem?_set, if_pos rfl, if_pos rfl]
        by_cases hl : d' < rn.length
        · rw [if_pos hl, if_pos (hiff.1 hl)]
        · rw [if_neg hl, if_neg (fun hh => hl (hiff.2 hh))]
      · have hdc' : ¬ c' = d' := fun e => hdc (inj c d c' hc (by rw [e]; exact hd))
        rw [List.getElem?_set, List.getElem?_set, if_neg hdc, if_neg hdc']
        exact hq2 d d' hd

theorem notP {l : List Sym} (h1 : ∀ z ∈ l, z ≠ x) (h2 : ∀ z ∈ l, z ≠ xs) :
    ∀ z ∈ l, ¬ (z = x ∨ z = xs) := fun z hz hp => hp.elim (h1 z hz) (h2 z hz)

variable (hM : (pv x).buf = M) (hN : (pv xs).buf = N)
  (G : StAcc V w (pv x) (pv xs) C los lov)
include hM hN G

/-- **the access lemma**: if `x[idx]` denotes a window cell on the left, `xs[stageIdx w idx]` denotes
    its image on the right -/
theorem target_stage (h : StR x xs M N C rm0 pv s s') (hI : evalCs s los = .ok lov)
    (idx : List Expr) (c : Nat × Nat) (hc : Fp.target s x idx = .ok c)
    (hD : c.1 = M → (C c.2).isSome = true) :
    ∃ c', C c.2 = some c' ∧ c.1 = M ∧ Fp.target s' xs (Rw.stageIdx w idx) = .ok (N, c') := by
  unfold Fp.target at hc ⊢
  rw [h.px x (Or.inl rfl)] at hc
  rw [h.views, h.px xs (Or.inr rfl)]
  simp only [] at hc ⊢
  obtain ⟨is, his, hc⟩ := except_bind_ok_inv hc
  obtain ⟨o, b, ho, hb, ho0, ho1, rfl⟩ := cellOf_inv hc
  obtain ⟨c', hc'⟩ := Option.isSome_iff_exists.1 (hD hM)
  obtain ⟨js, hjs, hoff⟩ := G.acc s idx is o c' hI his ho ho0 hc'
  obtain ⟨lm, rm, rn, h1, h2, h3, hq0, hq1, hq2⟩ := h.heap.big
  have eb : b = lm := by rw [hM] at hb; exact Option.some.inj (hb.symm.trans h1)
  subst eb
  have hiff := lt_iff_of_getElem?_eq (hq2 _ _ hc')
  have hlt : c' < rn.length := hiff.2 (by omega)
  refine ⟨c', hc', hM, ?_⟩
  rw [evalCs_sr h, hjs, ok_bind]
  have hcell := cellOf_intro (h := s'.heap) (v := pv xs) (by rw [hN]; exact h3) hoff
    (by omega) (by omega)
  rw [hcell, hN]
  have e : ((c' : Int)).toNat = c' := by omega
  rw [e]

/-- a write to `x[idx]` on the left, to `xs[stageIdx w idx]` on the right -/
theorem writeCell_stage (h : StR x xs M N C rm0 pv s s') (hI : evalCs s los = .ok lov)
    (idx : List Expr) (g : Option V → Option V)
    (hacc : ∀ c, Fp.target s x idx = .ok c → c.1 = M → (C c.2).isSome = true) :
    Fwd (StR x xs M N C rm0 pv) (writeCell s x idx g)
      (writeCell s' xs (Rw.stageIdx w idx) g) := by
  rw [Fp.writeCell_eq, Fp.writeCell_eq]
  intro t ht
  cases hc : Fp.target s x idx with
  | error e => rw [hc] at ht; cases ht
  | ok c =>
    rw [hc] at ht
    obtain ⟨c', hc', hcM, ht'⟩ := target_stage hM hN G h hI idx c hc (hacc c hc)
    rw [ht']
    refine ⟨_, rfl, ?_⟩
    obtain rfl : { s with heap := heapSet s.heap c (g (heapGet s.heap c)) } = t := Except.ok.inj ht
    obtain ⟨cb, cc⟩ := c
    have hcM' : cb = M := hcM
    subst hcM'
    show SR _ _ _ _ _ { s with heap := heapSet s.heap (cb, cc) (g (heapGet s.heap (cb, cc))) }
      { s' with heap := heapSet s'.heap (N, c') (g (heapGet s'.heap (N, c'))) }
    rw [h.heap.get_pair hc']
    exact h.heapWrite (h.heap.set_pair G.inj hc' _)

section
variable [DataAlg V] (ext : String → List V → V)

mutual
/-- data evaluation of `a` on the left and of `stageE x xs w a` on the right -/
theorem evalD_stage (h : StR x xs M N C rm0 pv s s') (hI : evalCs s los = .ok lov) :
    ∀ (a : Expr), Rw.okD x a = true → (∀ y ∈ a.names, y ≠ xs) → AccIn M (DC C) (Fp.evD s a) →
    Fwd Eq (evalD ext s a) (evalD ext s' (Rw.stageE x xs w a))
  | .read y idx, hok, hxs, hacc => by
    have hidx : ∀ z ∈ namesEs idx, z ≠ x := Rw.notIn_iff.1 (by simpa [Rw.okD] using hok)
    by_cases hyx : y = x
    · have hb : (y == x) = true := by simp [hyx]
      simp only [Rw.stageE, hb, ↓reduceIte]
      rw [stageEs_id x xs w idx hidx, hyx, Fp.evalD_read, Fp.evalD_read]
      simp only [Fp.evD] at hacc
      rw [hyx] at hacc
      intro v hv
      cases hc : Fp.target s x idx with
      | error e => rw [hc] at hv; cases hv
      | ok c =>
        rw [hc] at hv hacc
        have hD : c.1 = M → DC C (c.2 : Int) := (Reidx.accIn_append.1 hacc).2 (.rd c) (by simp)
        obtain ⟨c', hc', hcM, ht'⟩ := target_stage hM hN G h hI idx c hc (fun e => dc_nat (hD e))
        rw [ht']
        refine ⟨_, rfl, ?_⟩
        obtain rfl : heapGet s.heap c = v := Except.ok.inj hv
        obtain ⟨cb, cc⟩ := c
        have hcM' : cb = M := hcM
        subst hcM'
        exact (h.heap.get_pair hc').symm
    · have hb : (y == x) = false := by simpa using hyx
      simp only [Rw.stageE, hb, Bool.false_eq_true, ↓reduceIte]
      rw [stageEs_id x xs w idx hidx, evalD_sr ext h (.read y idx) (by
        intro z hz hp
        simp only [Expr.names, List.mem_cons] at hz
        rcases hz with rfl | hz
        · exact hp.elim hyx (hxs z (by simp [Expr.names]))
        · exact hp.elim (hidx z hz) (hxs z (by simp [Expr.names, hz])))]
      exact fwd_refl _
  | .lit c, _, _, _ => by
    simp only [Rw.stageE]
    cases c <;> (simp only [evalD]; exact fwd_refl _)
  | .usub a, hok, hxs, hacc => by
    simp only [Rw.stageE, evalD]
    exact Fwd.bind (evalD_stage h hI a (by simpa [Rw.okD] using hok)
        (fun y hy => hxs y (by simpa [Expr.names] using hy))
        (by simpa only [Fp.evD] using hacc))
      (fun v v' _ _ hv => by subst hv; exact fwd_refl _)
  | .binop op a b, hok, hxs, hacc => by
    simp only [Rw.okD, Bool.and_eq_true] at hok
    simp only [Fp.evD] at hacc
    obtain ⟨ha1, ha2⟩ := Reidx.accIn_append.1 hacc
    simp only [Rw.stageE, evalD]
    exact Fwd.bind (evalD_stage h hI a hok.1 (fun y hy => hxs y (by simp [Expr.names, hy])) ha1)
      (fun v v' _ _ hv =>
      Fwd.bind (evalD_stage h hI b hok.2 (fun y hy => hxs y (by simp [Expr.names, hy])) ha2)
        (fun w w' _ _ hw => by subst hv; subst hw; exact fwd_refl _))
  | .extern g args, hok, hxs, hacc => by
    simp only [Rw.stageE, evalD]
    exact Fwd.bind (evalDs_stage h hI args (by simpa [Rw.okD] using hok)
        (fun y hy => hxs y (by simpa [Expr.names] using hy))
        (by simpa only [Fp.evD] using hacc))
      (fun vs vs' _ _ hvs => by subst hvs; exact fwd_refl _)
  | .readcfg c g, _, _, _ => by
    simp only [Rw.stageE, evalD, h.cfg]
    exact fwd_refl _
  | .win y acc, _, _, _ => by
    simp only [Rw.stageE]
    split <;> (simp only [evalD]; exact Fwd.of_lock Lock.ofThrow)
  | .stride y d, _, _, _ => by
    simp only [Rw.stageE, evalD]; exact Fwd.of_lock Lock.ofThrow
theorem evalDs_stage (h : StR x xs M N C rm0 pv s s') (hI : evalCs s los = .ok lov) :
    ∀ (as : List Expr), Rw.okDs x as = true → (∀ y ∈ namesEs as, y ≠ xs) →
    AccIn M (DC C) (Fp.evDs s as) →
    Fwd Eq (evalDs ext s as) (evalDs ext s' (Rw.stageEs x xs w as))
  | [], _, _, _ => by
    simp only [Rw.stageEs, evalDs]; exact fwd_refl _
  | a :: r, hok, hxs, hacc => by
    simp only [Rw.okDs, Bool.and_eq_true] at hok
    simp only [Fp.evDs] at hacc
    obtain ⟨ha1, ha2⟩ := Reidx.accIn_append.1 hacc
    simp only [Rw.stageEs, evalDs]
    exact Fwd.bind (evalD_stage h hI a hok.1 (fun y hy => hxs y (by simp [namesEs, hy])) ha1)
      (fun v v' _ _ hv =>
      Fwd.bind (evalDs_stage h hI r hok.2 (fun y hy => hxs y (by simp [namesEs, hy])) ha2)
        (fun w w' _ _ hw => by subst hv; subst hw; exact fwd_refl _))
end

end

end

section
variable {x xs : Sym} {w : List WAcc} {C : Nat → Option Nat} {M N : Nat} {pv : Sym → View}
  {los : List Expr} {lov : List Int} {rm0 : List (Option V)}
variable [DataAlg V] (ext : String → List V → V)
variable (hM : (pv x).buf = M) (hN : (pv xs).buf = N)
  (G : StAcc V w (pv x) (pv xs) C los lov) (hlos : ∀ e ∈ los, e.envOnly = true)
include hM hN G hlos

mutual
/-- **stage mode**: if `a` succeeds (accessing only window cells of buffer `M`), `stageS x xs w a`
    succeeds in a related state -/
theorem execS_stage :
    ∀ (a : Stmt) (s s' : State V), Rw.stageOkS x los a = true → (∀ y ∈ a.names, y ≠ xs) →
    StR x xs M N C rm0 pv s s' → evalCs s los = .ok lov →
    AccIn M (DC C) (Fp.evS ext a s) →
    Fwd (StR x xs M N C rm0 pv) (execS ext a s) (execS ext (Rw.stageS x xs w a) s')
  | .assign y idx rhs, s, s', hok, hxs, h, hI, hacc => by
    simp only [Rw.stageOkS, Bool.and_eq_true] at hok
    have hidx := Rw.notIn_iff.1 hok.1
    simp only [Fp.evS] at hacc
    rw [Reidx.accIn_append, Reidx.accIn_append] at hacc
    obtain ⟨⟨ha1, _⟩, ha3⟩ := hacc
    have hrhs := evalD_stage hM hN G ext h hI rhs hok.2
      (fun z hz => hxs z (by simp [Stmt.names, hz])) ha1
    by_cases hyx : y = x
    · have hb : (y == x) = true := by simp [hyx]
      simp only [Rw.stageS, hb, ↓reduceIte, execS]
      rw [stageEs_id x xs w idx hidx]
      refine Fwd.bind hrhs (fun v v' hv _ hvv => ?_)
      subst hvv
      rw [hv] at ha3
      rw [hyx] at ha3 ⊢
      exact writeCell_stage hM hN G h hI idx _ (fun c hc hcM => by
        rw [hc] at ha3
        exact dc_nat (ha3 (.wr c v) (by simp) hcM))
    · have hb : (y == x) = false := by simpa using hyx
      simp only [Rw.stageS, hb, Bool.false_eq_true, ↓reduceIte, execS]
      rw [stageEs_id x xs w idx hidx]
      refine Fwd.bind hrhs (fun v v' hv _ hvv => ?_)
      subst hvv
      exact Fwd.of_lock (writeCell_sr h y idx
        (fun hp => hp.elim hyx (hxs y (by simp [Stmt.names]))) _)
  | .reduce y idx rhs, s, s', hok, hxs, h, hI, hacc => by
    simp only [Rw.stageOkS, Bool.and_eq_true] at hok
    have hidx := Rw.notIn_iff.1 hok.1
    simp only [Fp.evS] at hacc
    rw [Reidx.accIn_append, Reidx.accIn_append] at hacc
    obtain ⟨⟨ha1, _⟩, ha3⟩ := hacc
    have hrhs := evalD_stage hM hN G ext h hI rhs hok.2
      (fun z hz => hxs z (by simp [Stmt.names, hz])) ha1
    by_cases hyx : y = x
    · have hb : (y == x) = true := by simp [hyx]
      simp only [Rw.stageS, hb, ↓reduceIte, execS]
      rw [stageEs_id x xs w idx hidx]
      refine Fwd.bind hrhs (fun v v' hv _ hvv => ?_)
      subst hvv
      rw [hv] at ha3
      rw [hyx] at ha3 ⊢
      exact writeCell_stage hM hN G h hI idx _ (fun c hc hcM => by
        rw [hc] at ha3
        exact dc_nat (ha3 (.red c v) (by simp) hcM))
    · have hb : (y == x) = false := by simpa using hyx
      simp only [Rw.stageS, hb, Bool.false_eq_true, ↓reduceIte, execS]
      rw [stageEs_id x xs w idx hidx]
      refine Fwd.bind hrhs (fun v v' hv _ hvv => ?_)
      subst hvv
      exact Fwd.of_lock (writeCell_sr h y idx
        (fun hp => hp.elim hyx (hxs y (by simp [Stmt.names]))) _)
  | .writecfg c fl rhs true, s, s', hok, hxs, h, hI, hacc => by
    simp only [Rw.stageOkS, ↓reduceIte] at hok
    simp only [Fp.evS, ↓reduceIte] at hacc
    simp only [Rw.stageS, execS, ↓reduceIte]
    exact Fwd.bind (evalD_stage hM hN G ext h hI rhs hok
        (fun z hz => hxs z (by simpa [Stmt.names] using hz)) (Reidx.accIn_append.1 hacc).1)
      (fun v v' _ _ hv => by subst hv; exact Fwd.ofPure (h.cfgWrite (c, fl) (.data v)))
  | .writecfg c fl rhs false, s, s', hok, hxs, h, hI, _ => by
    simp only [Rw.stageOkS, Bool.false_eq_true, ↓reduceIte] at hok
    have hr := Rw.notIn_iff.1 hok
    simp only [Rw.stageS]
    rw [stageE_id x xs w rhs hr]
    exact Fwd.of_lock (execS_id ext M N _ pv (.writecfg c fl rhs false) _ s s'
      (notP (fun z hz => hr z (by simpa [Stmt.names] using hz)) hxs) h)
  | .pass, s, s', _, _, h, _, _ => by
    simp only [Rw.stageS, execS]; exact Fwd.ofPure h
  | .free _, s, s', _, _, h, _, _ => by
    simp only [Rw.stageS, execS]; exact Fwd.ofPure h
  | .ite c t el, s, s', hok, hxs, h, hI, hacc => by
    simp only [Rw.stageOkS, Bool.and_eq_true] at hok
    obtain ⟨⟨hc, ht⟩, hel⟩ := hok
    have hc' := Rw.notIn_iff.1 hc
    simp only [Fp.evS] at hacc
    have hacc2 := (Reidx.accIn_append.1 hacc).2
    simp only [Rw.stageS, execS]
    rw [stageE_id x xs w c hc', evalC_sr h c]
    refine Fwd.bind_eq (fun b hb => ?_)
    rw [hb] at hacc2
    simp only [Fp.onOk_ok] at hacc2
    refine Fwd.ite (fun hb0 => ?_) (fun hb0 => ?_)
    · rw [if_pos hb0] at hacc2
      exact Fwd.map (execL_stage t s s' ht (fun z hz => hxs z (by simp [Stmt.names, hz])) h hI hacc2)
        (fun a b ha _ hab => h.leave hab (execL_scope ext t s a ha).2.1)
    · rw [if_neg hb0] at hacc2
      exact Fwd.map (execL_stage el s s' hel (fun z hz => hxs z (by simp [Stmt.names, hz])) h hI hacc2)
        (fun a b ha _ hab => h.leave hab (execL_scope ext el s a ha).2.1)
  | .loop i lo hi body par, s, s', hok, hxs, h, hI, hacc => by
    simp only [Rw.stageOkS, Bool.and_eq_true, Bool.not_eq_true'] at hok
    obtain ⟨⟨⟨hlo, hhi⟩, hie⟩, hb⟩ := hok
    have hlo' := Rw.notIn_iff.1 hlo
    have hhi' := Rw.notIn_iff.1 hhi
    simp only [Fp.evS] at hacc
    have hacc2 := (Reidx.accIn_append.1 hacc).2
    simp only [Rw.stageS, execS]
    rw [stageE_id x xs w lo hlo', stageE_id x xs w hi hhi', evalC_sr h lo, evalC_sr h hi]
    refine Fwd.bind_eq (fun l hl => Fwd.bind_eq (fun hh hhh => ?_))
    rw [hl, hhh] at hacc2
    simp only [Fp.onOk_ok] at hacc2
    refine Fwd.ite (fun _ => Fwd.ofThrowBind) (fun hlt => ?_)
    rw [if_neg hlt] at hacc2
    have hbx : ∀ z ∈ namesL body, z ≠ xs := fun z hz => hxs z (by simp [Stmt.names, hz])
    have key := Reidx.iterate_fwd_acc (N := M) (D := DC C)
      (fun a b => StR x xs M N C rm0 pv a b ∧ evalCs a los = .ok lov) _ _
      (fun v s => Fp.evL ext body (s.bind i v))
      (fun v a b hab hac => by
        have hIb : evalCs (a.bind i v) los = .ok lov := by
          rw [← hab.2]
          refine evalCs_envOnly los hlos a (a.bind i v) (fun y hy => ?_)
          have hyi : ¬ y = i := fun hyi => by rw [hyi, hie] at hy; cases hy
          show lookupSym y ((i, v) :: a.env) = _
          rw [lookupSym_cons, if_neg hyi]
        exact Fwd.map (execL_stage body _ _ hb hbx (hab.1.bind i v) hIb hac)
          (fun a1 b1 ha1 _ h1 => ⟨hab.1.leave h1 (execL_scope ext body _ a1 ha1).2.1, by
            rw [← hab.2]
            exact evalCs_env_eq los hlos a (State.leave a a1) rfl⟩))
      _ _ s s' ⟨h, hI⟩ hacc2
    intro t ht
    obtain ⟨t', ht', hq⟩ := key t ht
    exact ⟨t', ht', hq.1⟩
  | .alloc y sh, s, s', hok, hxs, h, _, _ => by
    simp only [Rw.stageOkS, Bool.and_eq_true, bne_iff_ne, ne_eq] at hok
    simp only [Rw.stageS]
    exact Fwd.of_lock (execS_id ext M N _ pv (.alloc y sh) _ s s'
      (notP (names_cons_ne hok.1 (Rw.notIn_iff.1 hok.2)) hxs) h)
  | .call p args, s, s', hok, hxs, h, _, _ => by
    simp only [Rw.stageOkS] at hok
    have hargs := Rw.notIn_iff.1 hok
    simp only [Rw.stageS]
    rw [stageEs_id x xs w args hargs]
    exact Fwd.of_lock (execS_id ext M N _ pv (.call p args) _ s s'
      (notP (fun z hz => hargs z (by simpa [Stmt.names] using hz)) hxs) h)
  | .window y rhs, s, s', hok, hxs, h, _, _ => by
    simp only [Rw.stageOkS, Bool.and_eq_true, bne_iff_ne, ne_eq] at hok
    have hr := Rw.notIn_iff.1 hok.2
    simp only [Rw.stageS]
    rw [stageE_id x xs w rhs hr]
    exact Fwd.of_lock (execS_id ext M N _ pv (.window y rhs) _ s s'
      (notP (names_cons_ne hok.1 hr) hxs) h)
theorem execL_stage :
    ∀ (ss : List Stmt) (s s' : State V), Rw.stageOkL x los ss = true →
    (∀ y ∈ namesL ss, y ≠ xs) →
    StR x xs M N C rm0 pv s s' → evalCs s los = .ok lov →
    AccIn M (DC C) (Fp.evL ext ss s) →
    Fwd (StR x xs M N C rm0 pv) (execL ext ss s) (execL ext (Rw.stageL x xs w ss) s')
  | [], s, s', _, _, h, _, _ => by
    simp only [Rw.stageL, execL]; exact Fwd.ofPure h
  | a :: r, s, s', hok, hxs, h, hI, hacc => by
    simp only [Rw.stageOkL, Bool.and_eq_true] at hok
    simp only [Fp.evL] at hacc
    obtain ⟨h1, h2⟩ := Reidx.accIn_append.1 hacc
    simp only [Rw.stageL, execL]
    exact Fwd.bind (execS_stage a s s' hok.1 (fun z hz => hxs z (by simp [namesL, hz])) h hI h1)
      (fun s1 s1' hs1 _ hr => by
        rw [hs1] at h2
        exact execL_stage r s1 s1' hok.2 (fun z hz => hxs z (by simp [namesL, hz])) hr
          (by
            rw [← hI]
            exact evalCs_env_eq los hlos s s1 (execS_scope ext a s s1 hs1).1) h2)
end

end

end Stage
end Exo.Stg
