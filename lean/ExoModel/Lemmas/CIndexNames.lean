/-
  ExoModel.Lemmas.CIndexNames — `new_varname` (helper lemmas of C02, part D): the chosen C name
  is not yet in `names`; the invariant "every C name bound in a layer's `env` is a key of that
  layer's `names`"; different symbols that are visible at the same time never share a C name.
  Core only.
-/
import ExoModel.CIndex
import Std.Data.String.ToNat

namespace Exo.CIndex

/-! ## freshness -/

theorem CIndex_bumpLoop_fresh {sc : Scopes} (fuel : Nat) {s s' : String}
    (h : bumpLoop sc fuel s = .ok s') : namesHas s' sc = false := by
  induction fuel generalizing s with
  | zero => simp [bumpLoop, throw, throwThe, MonadExceptOf.throw] at h
  | succ n ih =>
      simp only [bumpLoop] at h
      split at h
      · split at h
        · exact ih h
        · cases h
      · rename_i hn
        simp only [pure, Except.pure, Except.ok.injEq] at h
        subst h
        simpa using hn

theorem CIndex_newVarname_fresh {sc sc' : Scopes} {x : Sym} {c : String}
    (h : newVarname sc x = .ok (c, sc')) : namesHas c sc = false := by
  simp only [newVarname] at h
  split at h
  · rename_i hn
    simp only [pure, Except.pure, Except.ok.injEq, Prod.mk.injEq] at h
    rw [← h.1]
    simp [namesHas, hn]
  · split at h
    · cases h
    · rename_i s hs
      simp only [pure, Except.pure, Except.ok.injEq, Prod.mk.injEq] at h
      rw [← h.1]
      exact CIndex_bumpLoop_fresh _ hs

/-- shape of the result of `new_varname`: the top layer gets `(x, c)` in `env` and at least the
    key `c` in `names`; nothing else changes -/
theorem CIndex_newVarname_shape {sc sc' : Scopes} {x : Sym} {c : String}
    (h : newVarname sc x = .ok (c, sc')) :
    ∃ extra : List (String × String),
      sc' = setTop (fun l => { names := (c, c) :: extra ++ l.names, env := (x, c) :: l.env }) sc := by
  simp only [newVarname] at h
  split at h
  · simp only [pure, Except.pure, Except.ok.injEq, Prod.mk.injEq] at h
    obtain ⟨h1, h2⟩ := h
    subst h1
    exact ⟨[], by rw [← h2]; rfl⟩
  · split at h
    · cases h
    · rename_i s hs
      simp only [pure, Except.pure, Except.ok.injEq, Prod.mk.injEq] at h
      obtain ⟨h1, h2⟩ := h
      subst h1
      exact ⟨[(x.name, s)], by rw [← h2]; rfl⟩

/-! ## the layer invariant -/

def LayerInv (l : Layer) : Prop := ∀ p ∈ l.env, (lookupStr p.2 l.names).isSome = true

/-- every C name bound in a layer's `env` is a key of that layer's `names` -/
def Inv (sc : Scopes) : Prop := ∀ l ∈ sc, LayerInv l

/-- different symbols that are visible together have different C names -/
def NoClash (sc : Scopes) : Prop :=
  ∀ p q, p ∈ visibleEnv sc → q ∈ visibleEnv sc → p.1 ≠ q.1 → p.2 ≠ q.2

theorem CIndex_lookupStr_append {k : String} {extra l : List (String × String)}
    (h : (lookupStr k l).isSome = true) : (lookupStr k (extra ++ l)).isSome = true := by
  induction extra with
  | nil => exact h
  | cons p r ih =>
      obtain ⟨k', v⟩ := p
      simp only [List.cons_append, lookupStr]
      split
      · rfl
      · exact ih

theorem CIndex_inv_nil : Inv [] := fun _ h => by cases h

theorem CIndex_inv_base : Inv [⟨[], []⟩] := fun l h => by
  simp only [List.mem_singleton] at h; subst h; intro p hp; cases hp

theorem CIndex_inv_push {sc : Scopes} (h : Inv sc) : Inv (pushScope sc) := fun l hl => by
  simp only [pushScope, List.mem_cons] at hl
  rcases hl with hl | hl
  · subst hl; intro p hp; cases hp
  · exact h l hl

theorem CIndex_inv_pop {sc : Scopes} (h : Inv sc) : Inv (popScope sc) := by
  cases sc with
  | nil => exact h
  | cons l r => exact fun l' hl' => h l' (List.mem_cons_of_mem _ hl')

theorem CIndex_layerInv_add {l : Layer} (h : LayerInv l) (x : Sym) (c : String)
    (extra : List (String × String)) :
    LayerInv { names := (c, c) :: extra ++ l.names, env := (x, c) :: l.env } := by
  intro p hp
  simp only [List.mem_cons] at hp
  rcases hp with hp | hp
  · subst hp; simp [lookupStr]
  · exact CIndex_lookupStr_append (h p hp)

theorem CIndex_inv_newVarname {sc sc' : Scopes} {x : Sym} {c : String} (hi : Inv sc)
    (h : newVarname sc x = .ok (c, sc')) : Inv sc' := by
  obtain ⟨extra, rfl⟩ := CIndex_newVarname_shape h
  cases sc with
  | nil =>
      intro l hl
      simp only [setTop, List.mem_singleton] at hl
      subst hl
      exact CIndex_layerInv_add (l := ⟨[], []⟩) (fun p hp => by cases hp) x c extra
  | cons l r =>
      intro l' hl'
      simp only [setTop, List.mem_cons] at hl'
      rcases hl' with hl' | hl'
      · subst hl'; exact CIndex_layerInv_add (hi l (by simp)) x c extra
      · exact hi l' (List.mem_cons_of_mem _ hl')

/-! ## visible bindings -/

theorem CIndex_visibleEnv_cons (l : Layer) (r : Scopes) :
    visibleEnv (l :: r) = l.env ++ visibleEnv r := by
  simp [visibleEnv]

theorem CIndex_visibleEnv_setTop (x : Sym) (c : String) (g : Layer → List (String × String))
    (sc : Scopes) :
    visibleEnv (setTop (fun l => { names := g l, env := (x, c) :: l.env }) sc) =
      (x, c) :: visibleEnv sc := by
  cases sc with
  | nil => simp [setTop, visibleEnv]
  | cons l r => simp [setTop, visibleEnv]

/-- under the invariant every visible C name is in `names` -/
theorem CIndex_visible_namesHas {sc : Scopes} (hi : Inv sc) {p : Sym × String}
    (hp : p ∈ visibleEnv sc) : namesHas p.2 sc = true := by
  induction sc with
  | nil => simp [visibleEnv] at hp
  | cons l r ih =>
      rw [CIndex_visibleEnv_cons, List.mem_append] at hp
      simp only [namesHas, namesGet]
      rcases hp with hp | hp
      · have := hi l (by simp) p hp
        cases hl : lookupStr p.2 l.names with
        | none => rw [hl] at this; cases this
        | some v => rfl
      · have := ih (fun l' hl' => hi l' (List.mem_cons_of_mem _ hl')) hp
        cases hl : lookupStr p.2 l.names with
        | none => exact this
        | some v => rfl

theorem CIndex_lookupSym_mem {α : Type} {x : Sym} {l : List (Sym × α)} {v : α}
    (h : lookupSym x l = some v) : (x, v) ∈ l := by
  induction l with
  | nil => cases h
  | cons p r ih =>
      obtain ⟨y, w⟩ := p
      simp only [lookupSym] at h
      split at h
      · rename_i hxy
        simp only [Option.some.injEq] at h
        subst h; subst hxy; simp
      · exact List.mem_cons_of_mem _ (ih h)

theorem CIndex_envGet_mem {x : Sym} {sc : Scopes} {c : String} (h : envGet x sc = some c) :
    (x, c) ∈ visibleEnv sc := by
  induction sc with
  | nil => cases h
  | cons l r ih =>
      rw [CIndex_visibleEnv_cons, List.mem_append]
      simp only [envGet] at h
      split at h
      · rename_i v hv
        simp only [Option.some.injEq] at h; subst h
        exact Or.inl (CIndex_lookupSym_mem hv)
      · exact Or.inr (ih h)

/-! ## no clash -/

theorem CIndex_noClash_nil : NoClash [] := fun p _ hp => by simp [visibleEnv] at hp

theorem CIndex_noClash_base : NoClash [⟨[], []⟩] := fun p _ hp => by simp [visibleEnv] at hp

theorem CIndex_noClash_push {sc : Scopes} (h : NoClash sc) : NoClash (pushScope sc) := by
  intro p q hp hq
  simp only [pushScope, CIndex_visibleEnv_cons, List.nil_append] at hp hq
  exact h p q hp hq

theorem CIndex_noClash_pop {sc : Scopes} (h : NoClash sc) : NoClash (popScope sc) := by
  cases sc with
  | nil => exact h
  | cons l r =>
      intro p q hp hq
      exact h p q (by rw [CIndex_visibleEnv_cons]; exact List.mem_append_right _ hp)
        (by rw [CIndex_visibleEnv_cons]; exact List.mem_append_right _ hq)

theorem CIndex_noClash_newVarname {sc sc' : Scopes} {x : Sym} {c : String} (hi : Inv sc)
    (hn : NoClash sc) (h : newVarname sc x = .ok (c, sc')) : NoClash sc' := by
  have hf := CIndex_newVarname_fresh h
  obtain ⟨extra, rfl⟩ := CIndex_newVarname_shape h
  intro p q hp hq hne
  rw [CIndex_visibleEnv_setTop x c (fun l => (c, c) :: extra ++ l.names)] at hp hq
  simp only [List.mem_cons] at hp hq
  rcases hp with hp | hp <;> rcases hq with hq | hq
  · subst hp; subst hq; exact absurd rfl hne
  · subst hp
    intro he
    have := CIndex_visible_namesHas hi hq
    rw [← he, hf] at this; cases this
  · subst hq
    intro he
    have := CIndex_visible_namesHas hi hp
    rw [he, hf] at this; cases this
  · exact hn p q hp hq hne

/-- the states of the pair of ChainMaps that the compiler can be in -/
inductive Reach : Scopes → Prop
  | nil : Reach []
  | base : Reach [⟨[], []⟩]
  | push {sc} : Reach sc → Reach (pushScope sc)
  | pop {sc} : Reach sc → Reach (popScope sc)
  | new {sc sc' x c} : Reach sc → newVarname sc x = .ok (c, sc') → Reach sc'

theorem CIndex_reach_good {sc : Scopes} (h : Reach sc) : Inv sc ∧ NoClash sc := by
  induction h with
  | nil => exact ⟨CIndex_inv_nil, CIndex_noClash_nil⟩
  | base => exact ⟨CIndex_inv_base, CIndex_noClash_base⟩
  | push _ ih => exact ⟨CIndex_inv_push ih.1, CIndex_noClash_push ih.2⟩
  | pop _ ih => exact ⟨CIndex_inv_pop ih.1, CIndex_noClash_pop ih.2⟩
  | new _ hnew ih => exact ⟨CIndex_inv_newVarname ih.1 hnew, CIndex_noClash_newVarname ih.1 ih.2 hnew⟩

theorem CIndex_envGet_injective {sc : Scopes} (hr : Reach sc) {x y : Sym} {c : String}
    (hx : envGet x sc = some c) (hy : envGet y sc = some c) : x = y := by
  by_cases hxy : x = y
  · exact hxy
  · exact absurd rfl ((CIndex_reach_good hr).2 (x, c) (y, c) (CIndex_envGet_mem hx)
      (CIndex_envGet_mem hy) hxy)

/-- the new binding is the one `env[x]` returns afterwards, and no other symbol's binding moves -/
theorem CIndex_newVarname_envGet {sc sc' : Scopes} {x : Sym} {c : String}
    (h : newVarname sc x = .ok (c, sc')) :
    envGet x sc' = some c ∧ ∀ y, y ≠ x → envGet y sc' = envGet y sc := by
  obtain ⟨extra, rfl⟩ := CIndex_newVarname_shape h
  cases sc with
  | nil =>
      refine ⟨by simp [setTop, envGet, lookupSym], fun y hy => ?_⟩
      simp [setTop, envGet, lookupSym, hy]
  | cons l r =>
      refine ⟨by simp [setTop, envGet, lookupSym], fun y hy => ?_⟩
      simp [setTop, envGet, lookupSym, hy]

/-! ## `int(digits)` on what `str(n)` prints (used to run `bump` inside proofs) -/

theorem CIndex_toNat!_of_toNat? {s : String} {n : Nat} (h : s.toNat? = some n) : s.toNat! = n := by
  have h' : s.toSlice.toNat? = some n := by rw [String.toNat?_toSlice]; exact h
  unfold String.toNat! String.Slice.toNat!
  unfold String.Slice.toNat? at h'
  split at h' <;> simp_all

theorem CIndex_toNat!_repr (n : Nat) : (Nat.repr n).toNat! = n :=
  CIndex_toNat!_of_toNat? (Nat.toNat?_repr n)

end Exo.CIndex
