/-
  ExoModel.Lemmas.RangeAnalysis — soundness of Python's operator dispatch on `int | IndexRange`,
  of `index_range_analysis` (by induction on the expression), of `constant_bound`,
  `check_expr_bound(s)` and of the scoped environment.
-/
import ExoModel.Lemmas.Range

namespace Exo.Range

/-! ## dispatch -/

theorem pyNeg_sound {a : Res} {ρ : Val} {v : Int} (h : a.Sound ρ v) : (pyNeg a).Sound ρ (-v) := by
  cases a with
  | int n => simp [pyNeg, Res.Sound] at *; omega
  | rng r => exact neg_sound h
  | verr => simp [pyNeg, Res.Sound]
  | exc e => simp [pyNeg, Res.Sound]

theorem pyAdd_sound {a b : Res} {ρ : Val} {v w : Int} (ha : a.Sound ρ v) (hb : b.Sound ρ w) :
    (pyAdd a b).Sound ρ (v + w) := by
  cases a <;> cases b <;> simp only [pyAdd, Res.Sound] at *
  · omega
  · rename_i n r; rw [ha, Int.add_comm]; exact addInt_sound n hb
  · rename_i r n; rw [hb]; exact addInt_sound n ha
  · exact addRng_sound ha hb

theorem pySub_sound {a b : Res} {ρ : Val} {v w : Int} (ha : a.Sound ρ v) (hb : b.Sound ρ w) :
    (pySub a b).Sound ρ (v - w) := by
  cases a <;> cases b <;> simp only [pySub, Res.Sound] at *
  · omega
  · rename_i n r
    have := addInt_sound n (neg_sound hb)
    rw [ha]; have e : n - w = -w + n := by omega
    rw [e]; exact this
  · rename_i r n
    have := addInt_sound (-n) ha
    rw [hb]; have e : v - n = v + -n := by omega
    rw [e]; exact this
  · have := addRng_sound ha (neg_sound hb)
    have e : v - w = v + -w := by omega
    rw [e]; exact this

theorem pyMul_sound {a b : Res} {ρ : Val} {v w : Int} (ha : a.Sound ρ v) (hb : b.Sound ρ w) :
    (pyMul a b).Sound ρ (v * w) := by
  cases a <;> cases b <;> simp only [pyMul, Res.Sound] at *
  · rw [ha, hb]
  · rename_i n r; rw [ha, Int.mul_comm]; exact mul_sound n hb
  · rename_i r n; rw [hb]; exact mul_sound n ha

/-- `//`: the only excluded points are constant divisors ≤ 0 -/
theorem pyFloordiv_sound {a b : Res} {ρ : Val} {v w : Int} (ha : a.Sound ρ v)
    (hb : b.Sound ρ w) (hpos : ∀ c, b = .int c → 0 < c) : (pyFloordiv a b).Sound ρ (v / w) := by
  cases a <;> cases b <;> simp only [pyFloordiv, Res.Sound] at *
  · rename_i n c
    have hc := hpos c rfl
    have : (c == 0) = false := by simp; omega
    simp only [this, Bool.false_eq_true, if_false]
    rw [ha, hb, fdiv_pos n hc]
  · rename_i r c; rw [hb]; exact floordiv_sound c ha

theorem pyMod_sound {a b : Res} {ρ : Val} {v w : Int} (ha : a.Sound ρ v)
    (hb : b.Sound ρ w) (hpos : ∀ c, b = .int c → 0 < c) : (pyMod a b).Sound ρ (v % w) := by
  cases a <;> cases b <;> simp only [pyMod, Res.Sound] at *
  · rename_i n c
    have hc := hpos c rfl
    have : (c == 0) = false := by simp; omega
    simp only [this, Bool.false_eq_true, if_false]
    rw [ha, hb, fmod_pos n hc]
  · rename_i r c; rw [hb]; exact mod_sound (hpos c rfl) ha

/-! ## `index_range_analysis` -/

/-- every divisor that the analysis sees as a constant is positive (exo's front end only admits
    positive literals as divisors) -/
def DivOK (env : Look) : IExpr → Prop
  | .bin op a b =>
    DivOK env a ∧ DivOK env b ∧ ((op = .div ∨ op = .mod) → ∀ c, analyze env b = .int c → 0 < c)
  | .neg a => DivOK env a
  | _ => True

/-- syntactic version: every divisor is a positive literal -/
def posDiv : IExpr → Bool
  | .bin op a b =>
    posDiv a && posDiv b &&
      (if op = .div ∨ op = .mod then (match b with | .const c => decide (0 < c) | _ => false)
       else true)
  | .neg a => posDiv a
  | _ => true

theorem posDiv_divOK (env : Look) {e : IExpr} (h : posDiv e = true) : DivOK env e := by
  induction e with
  | bin op a b iha ihb =>
    simp only [posDiv, Bool.and_eq_true] at h
    obtain ⟨⟨h1, h2⟩, h3⟩ := h
    refine ⟨iha h1, ihb h2, ?_⟩
    intro hop c hc
    simp only [hop, if_true] at h3
    cases b <;> simp at h3
    simp [analyze] at hc
    omega
  | neg a ih => exact ih (by simpa [posDiv] using h)
  | _ => trivial

theorem analyze_sound_on {env : Look} {ρ : Val} (e : IExpr) (hd : DivOK env e)
    (hin : InsideOn e.vars ρ env) : (analyze env e).Sound ρ (eval e ρ) := by
  induction e with
  | other => simp [analyze, Res.Sound]
  | const n => simp [analyze, Res.Sound, eval]
  | var x =>
    simp only [analyze]
    cases hx : env x with
    | none => simp [Res.Sound, Bounds, eval]
    | some b =>
      obtain ⟨lo, hi⟩ := b
      have := hin x (by simp [IExpr.vars]) _ hx
      simp only [Res.Sound, Bounds, IndexRange.createConstantRange, zero, eval]
      obtain ⟨i1, i2⟩ := this
      refine ⟨fun l hl => ?_, fun h hh => ?_⟩
      · have := i1 l hl; omega
      · have := i2 h hh; omega
  | neg a ih =>
    simp only [analyze, eval]
    exact pyNeg_sound (ih hd (by simpa [IExpr.vars] using hin))
  | bin op a b iha ihb =>
    obtain ⟨da, db, hop⟩ := hd
    have ha := iha da (hin.mono (by intro x hx; simp [IExpr.vars]; exact Or.inl hx))
    have hb := ihb db (hin.mono (by intro x hx; simp [IExpr.vars]; exact Or.inr hx))
    simp only [analyze, eval]
    cases op <;> simp only [pyBin, evalOp]
    · exact pyAdd_sound ha hb
    · exact pySub_sound ha hb
    · exact pyMul_sound ha hb
    · exact pyFloordiv_sound ha hb (hop (Or.inl rfl))
    · exact pyMod_sound ha hb (hop (Or.inr rfl))

theorem analyze_sound {env : Look} {ρ : Val} (e : IExpr) (hd : DivOK env e)
    (hin : Inside ρ env) : (analyze env e).Sound ρ (eval e ρ) :=
  analyze_sound_on e hd (hin.on _)

/-! ## `constant_bound`, `check_expr_bound(s)` -/

theorem constantBoundOf_sound {a : Res} {ρ : Val} {v : Int} {b : Bound} (h : a.Sound ρ v)
    (hb : constantBoundOf a = .ok b) : InBound b v := by
  cases a with
  | int n =>
    simp [constantBoundOf] at hb; subst hb
    simp [Res.Sound] at h; simp [InBound, h]
  | rng r =>
    simp only [constantBoundOf] at hb
    by_cases hz : isZero r.base = true
    · simp [hz] at hb; subst hb
      have e := isZero_eval hz ρ
      obtain ⟨h1, h2⟩ := h
      refine ⟨fun l hl => ?_, fun u hu => ?_⟩
      · have := h1 l hl; omega
      · have := h2 u hu; omega
    · simp [hz] at hb; subst hb; simp [InBound]
  | verr => simp [constantBoundOf] at hb
  | exc e => simp [constantBoundOf] at hb

def EI.DivOK (env : Look) : EI → Prop
  | .e x => Range.DivOK env x
  | .i _ => True

def EI.vars : EI → List Sym
  | .e x => x.vars
  | .i _ => []

theorem constantBound_sound_on {env : Look} {ρ : Val} {x : EI} {b : Bound} (hd : x.DivOK env)
    (hin : InsideOn x.vars ρ env) (hb : constantBound env x = .ok b) : InBound b (x.eval ρ) := by
  cases x with
  | i n => simp [constantBound] at hb; subst hb; simp [InBound, EI.eval]
  | e x => exact constantBoundOf_sound (analyze_sound_on x hd hin) hb

theorem constantBound_sound {env : Look} {ρ : Val} {x : EI} {b : Bound} (hd : x.DivOK env)
    (hin : Inside ρ env) (hb : constantBound env x = .ok b) : InBound b (x.eval ρ) :=
  constantBound_sound_on hd (hin.on _) hb

theorem checkRange_sound {r0 r1 : Bound} {op : Cmp} {v0 v1 : Int} (h0 : InBound r0 v0)
    (h1 : InBound r1 v1) (h : checkRange r0 op r1 = true) : op.holds v0 v1 := by
  obtain ⟨l0, u0⟩ := r0
  obtain ⟨l1, u1⟩ := r1
  obtain ⟨a0, b0⟩ := h0
  obtain ⟨a1, b1⟩ := h1
  cases u0 <;> cases l1 <;> simp [checkRange] at h
  rename_i hh ll
  have := b0 hh rfl
  have := a1 ll rfl
  cases op <;> simp [Cmp.holds] at h ⊢
  · omega
  · omega
  · cases l0 <;> cases u1 <;> simp at h
    rename_i l u
    have := a0 l rfl
    have := b1 u rfl
    omega

theorem checkExprBound_sound {env : Look} {ρ : Val} {e0 e1 : EI} {op : Cmp}
    (d0 : e0.DivOK env) (d1 : e1.DivOK env) (hin : Inside ρ env)
    (h : checkExprBound env e0 op e1 = .ok true) : op.holds (e0.eval ρ) (e1.eval ρ) := by
  unfold checkExprBound at h
  cases h0 : constantBound env e0 with
  | error e => simp [h0] at h
  | ok r0 =>
    cases h1 : constantBound env e1 with
    | error e => simp [h0, h1] at h
    | ok r1 =>
      simp [h0, h1] at h
      exact checkRange_sound (constantBound_sound d0 hin h0) (constantBound_sound d1 hin h1) h

theorem checkExprBounds_sound {env : Look} {ρ : Val} {e0 e1 e2 : EI} {op0 op1 : Cmp}
    (d0 : e0.DivOK env) (d1 : e1.DivOK env) (d2 : e2.DivOK env) (hin : Inside ρ env)
    (h : checkExprBounds env e0 op0 e1 op1 e2 = .ok true) :
    op0.holds (e0.eval ρ) (e1.eval ρ) ∧ op1.holds (e1.eval ρ) (e2.eval ρ) := by
  unfold checkExprBounds at h
  cases h0 : constantBound env e0 with
  | error e => simp [h0] at h
  | ok r0 =>
    cases h1 : constantBound env e1 with
    | error e => simp [h0, h1] at h
    | ok r1 =>
      cases h2 : constantBound env e2 with
      | error e => simp [h0, h1, h2] at h
      | ok r2 =>
        simp [h0, h1, h2] at h
        exact ⟨checkRange_sound (constantBound_sound d0 hin h0) (constantBound_sound d1 hin h1) h.1,
               checkRange_sound (constantBound_sound d1 hin h1) (constantBound_sound d2 hin h2) h.2⟩

/-! ## the scoped environment -/

def upd (ρ : Val) (x : Sym) (v : Int) : Val := fun y => if y = x then v else ρ y

theorem lookup_set (env : Env) (x : Sym) (b : Bound) (y : Sym) :
    (env.set x b).lookup y = if y = x then some b else env.lookup y := by
  cases env with
  | nil => by_cases h : y = x <;> simp [Env.set, Env.lookup, lookupScope, h]
  | cons s rest => by_cases h : y = x <;> simp [Env.set, Env.lookup, lookupScope, h]

theorem lookup_enter (env : Env) : env.enterScope.lookup = env.lookup := by
  funext y; simp [Env.enterScope, Env.lookup, lookupScope]

theorem exit_enter (env : Env) (h : env ≠ []) : env.enterScope.exitScope = env := by
  cases env with
  | nil => exact absurd rfl h
  | cons s rest => simp [Env.enterScope, Env.exitScope]

/-- whatever is assigned in a freshly entered scope is gone after `exit_scope` -/
theorem exit_set_enter (env : Env) (h : env ≠ []) (x : Sym) (b : Bound) :
    ((env.enterScope).set x b).exitScope = env := by
  cases env with
  | nil => exact absurd rfl h
  | cons s rest => simp [Env.enterScope, Env.set, Env.exitScope]

theorem inside_set {env : Env} {ρ : Val} {x : Sym} {b : Bound} {v : Int}
    (hin : Inside ρ env.lookup) (hb : InBound b v) : Inside (upd ρ x v) (env.set x b).lookup := by
  intro y c hc
  rw [lookup_set] at hc
  by_cases h : y = x
  · simp [h] at hc; subst hc; simp [upd, h]; exact hb
  · simp [h] at hc; simp [upd, h]; exact hin y c hc

theorem lookupScope_mem {x : Sym} {b : Bound} {s : List (Sym × Bound)}
    (h : lookupScope x s = some b) : (x, b) ∈ s := by
  induction s with
  | nil => simp [lookupScope] at h
  | cons p r ih =>
    obtain ⟨y, c⟩ := p
    by_cases e : x = y
    · simp [lookupScope, e] at h; simp [e, h]
    · simp [lookupScope, e] at h; simp [ih h]

theorem inside_single {s : List (Sym × Bound)} {ρ : Val}
    (h : ∀ x b, (x, b) ∈ s → InBound b (ρ x)) : Inside ρ (Env.lookup [s]) := by
  intro y b hb
  simp only [Env.lookup] at hb
  cases hl : lookupScope y s with
  | none => rw [hl] at hb; simp at hb
  | some c =>
    rw [hl] at hb; simp at hb; subst hb
    exact h y c (lookupScope_mem hl)

/-- `__init__(fast=True)`: valuations giving every size argument a value ≥ 1 are inside -/
theorem inside_init {sizeArgs : List Sym} {ρ : Val} (h : ∀ x, x ∈ sizeArgs → 1 ≤ ρ x) :
    Inside ρ (Env.init sizeArgs).lookup := by
  apply inside_single
  intro x b hm
  simp at hm
  obtain ⟨z, hz, hzx, hb⟩ := hm
  subst hb; subst hzx
  refine ⟨fun l hl' => ?_, fun u hu => ?_⟩
  · simp at hl'; subst hl'; exact h z hz
  · simp at hu

/-- `__init__` with externally supplied argument ranges (the SMT binary search of
    `arg_range_analysis(fast=False)` is a hypothesis) -/
theorem inside_initWith {sizeArgs : List (Sym × Bound)} {ρ : Val}
    (h : ∀ x b, (x, b) ∈ sizeArgs → InBound b (ρ x)) :
    Inside ρ (Env.initWith sizeArgs).lookup := by
  apply inside_single
  intro x b hm
  exact h x b (by simpa using hm)

/-- `add_loop_iter` is sound for every iteration of a loop: if the outer valuation is inside the
    environment and the iteration value lies in `[lo(ρ), hi(ρ))`, the extended valuation is inside
    the extended environment -/
theorem addLoopIter_sound {env env' : Env} {ρ : Val} {x : Sym} {lo hi : EI} {v : Int}
    (dl : lo.DivOK env.lookup) (dh : hi.DivOK env.lookup) (hin : Inside ρ env.lookup)
    (h1 : lo.eval ρ ≤ v) (h2 : v < hi.eval ρ) (h : env.addLoopIter x lo hi = .ok env') :
    Inside (upd ρ x v) env'.lookup := by
  unfold Env.addLoopIter at h
  cases hl : constantBound env.lookup lo with
  | error e => simp [hl] at h
  | ok bl =>
    cases hh : constantBound env.lookup hi with
    | error e => simp [hl, hh] at h
    | ok bh =>
      obtain ⟨l, l'⟩ := bl
      obtain ⟨u', u⟩ := bh
      simp [hl, hh] at h
      subst h
      have sl := constantBound_sound dl hin hl
      have su := constantBound_sound dh hin hh
      apply inside_set hin
      cases l <;> cases u <;> simp [InBound] at *
      · omega
      · omega
      · rename_i a b
        by_cases hab : a > b - 1
        · simp [hab]
        · simp [hab]; omega

end Exo.Range
