/-
  Lemmas for C12, part 4: the expression layer of `DoSimplify` — constant folding, unit laws,
  quotient–remainder recombination, the fact table.
-/
import ExoModel.Lemmas.SimplifyKey

namespace Exo.Simplify
open Exo (Sym)

theorem b2i_cases (b : Bool) : b2i b = 0 ∨ b2i b = 1 := by cases b <;> simp [b2i]

theorem isConstVal_eval (ρ : Val) (e : Expr) (v : Int) (h : isConstVal e v = true) : eval ρ e = v := by
  cases e <;> simp [isConstVal] at h <;> simp [eval, h]

theorem isConst_syms (e : Expr) (h : isConst e = true) : e.syms = [] := by
  cases e <;> simp [isConst] at h <;> rfl

theorem isConst_over (V : List Sym) (e : Expr) (h : isConst e = true) : Over V e := by
  intro s hs; rw [isConst_syms e h] at hs; cases hs

theorem isBool_eval (ρ : Val) (e : Expr) (h : isBool e = true) : eval ρ e = 0 ∨ eval ρ e = 1 := by
  cases e with
  | bconst b => exact b2i_cases b
  | bin op l r =>
    cases op <;> simp [isBool, Op.isArith] at h <;> simp only [eval, evalOp] <;> exact b2i_cases _
  | _ => simp [isBool] at h

theorem over_const (V : List Sym) (v : Int) : Over V (.const v) := fun _ h => by cases h
theorem over_bconst (V : List Sym) (b : Bool) : Over V (.bconst b) := fun _ h => by cases h

theorem cfold_sound (ρ : Val) (V : List Sym) (op : Op) (l r e' : Expr) (h : cfold op l r = some e') :
    eval ρ e' = evalOp op (eval ρ l) (eval ρ r) ∧ Over V e' := by
  cases l <;> cases r <;> simp only [cfold] at h <;> try cases h
  · -- const, const
    rename_i a b
    cases op <;> simp only at h <;> try cases h
    all_goals first
      | exact ⟨rfl, over_const V _⟩
      | exact ⟨rfl, over_bconst V _⟩
      | (split at h
         · cases h
         · cases h; exact ⟨rfl, over_const V _⟩)
  · -- bconst, bconst
    rename_i a b
    cases op <;> simp only at h <;> try cases h
    all_goals refine ⟨?_, over_bconst V _⟩
    all_goals cases a <;> cases b <;> simp [eval, evalOp, b2i]

theorem isKnown_sound (V : List Sym) (hV : NoClash V) (ρ : Val) (F : Facts)
    (hF : ∀ k v, (k, v) ∈ F → (∃ e0, Over V e0 ∧ key e0 = k ∧ eval ρ e0 = eval ρ v) ∧ Over V v)
    (e c : Expr) (ho : Over V e) (h : isKnown F e = some c) : eval ρ c = eval ρ e ∧ Over V c := by
  have hm := lookup_some_mem (key e) c F h
  obtain ⟨⟨e0, ho0, hk, hv⟩, hoc⟩ := hF _ _ hm
  exact ⟨by rw [← hv]; exact key_sound V hV ρ e0 e ho0 ho hk, hoc⟩

/-- the invariant of the fact table at a valuation -/
def FactsOK (V : List Sym) (ρ : Val) (F : Facts) : Prop :=
  ∀ k v, (k, v) ∈ F → (∃ e0, Over V e0 ∧ key e0 = k ∧ eval ρ e0 = eval ρ v) ∧ Over V v

theorem isKnown_getD (V : List Sym) (hV : NoClash V) (ρ : Val) (F : Facts) (hF : FactsOK V ρ F)
    (e : Expr) (ho : Over V e) :
    eval ρ ((isKnown F e).getD e) = eval ρ e ∧ Over V ((isKnown F e).getD e) := by
  cases h : isKnown F e with
  | none => exact ⟨rfl, ho⟩
  | some c => exact isKnown_sound V hV ρ F hF e c ho h

theorem checkQuot_sound (V : List Sym) (hV : NoClash V) (ρ : Val) (num md cst dv : Expr)
    (hnum : Over V num) (hmd : Over V md) (hcst : Over V cst) (hdv : Over V dv)
    (h : checkQuot num md cst dv = true) :
    eval ρ num % eval ρ md + eval ρ cst * eval ρ dv = eval ρ num := by
  unfold checkQuot at h
  simp only [Bool.and_eq_true] at h
  obtain ⟨_, h2⟩ := h
  split at h2
  · rename_i dl dr
    simp only [Bool.and_eq_true, beq_iff_eq] at h2
    obtain ⟨⟨k1, k2⟩, k3⟩ := h2
    have e1 := key_sound V hV ρ cst md hcst hmd k1
    have e2 := key_sound V hV ρ dl num hdv.left hnum k2
    have e3 := key_sound V hV ρ dr md hdv.right hmd k3
    simp only [eval, evalOp, e1, e2, e3]
    exact Int.emod_add_mul_ediv _ _
  · cases h2

theorem quotOf_sound (V : List Sym) (hV : NoClash V) (ρ : Val) (num md quot v : Expr)
    (hnum : Over V num) (hmd : Over V md) (hq : Over V quot) (h : quotOf num md quot = some v) :
    eval ρ v = eval ρ num % eval ρ md + eval ρ quot ∧ Over V v := by
  unfold quotOf at h
  split at h
  · rename_i a b
    split at h
    · rename_i hc
      cases h
      refine ⟨?_, hnum⟩
      simp only [Bool.or_eq_true] at hc
      simp only [eval, evalOp]
      cases hc with
      | inl hc => exact (checkQuot_sound V hV ρ num md a b hnum hmd hq.left hq.right hc).symm
      | inr hc =>
        have := checkQuot_sound V hV ρ num md b a hnum hmd hq.right hq.left hc
        rw [Int.mul_comm]; exact this.symm
    · cases h
  · cases h

theorem isQuotRem_sound (V : List Sym) (hV : NoClash V) (ρ : Val) (l r v : Expr)
    (hl : Over V l) (hr : Over V r) (h : isQuotRem l r = some (some v)) :
    eval ρ v = eval ρ l + eval ρ r ∧ Over V v := by
  unfold isQuotRem at h
  split at h
  · rename_i num md
    split at h
    · simp only [Option.some.injEq] at h
      have := quotOf_sound V hV ρ num md r v hl.left hl.right hr h
      exact ⟨by rw [this.1]; rfl, this.2⟩
    · cases h
  · split at h
    · rename_i num md
      split at h
      · simp only [Option.some.injEq] at h
        have := quotOf_sound V hV ρ num md l v hr.left hr.right hl h
        refine ⟨?_, this.2⟩
        rw [this.1]
        simp only [eval, evalOp]
        omega
      · cases h
    · cases h

theorem and_true_left (x : Int) (hx : x = 0 ∨ x = 1) : evalOp .and 1 x = x := by
  cases hx <;> rename_i h <;> subst h <;> rfl
theorem and_true_right (x : Int) (hx : x = 0 ∨ x = 1) : evalOp .and x 1 = x := by
  cases hx <;> rename_i h <;> subst h <;> rfl
theorem or_false_left (x : Int) (hx : x = 0 ∨ x = 1) : evalOp .or 0 x = x := by
  cases hx <;> rename_i h <;> subst h <;> rfl
theorem or_false_right (x : Int) (hx : x = 0 ∨ x = 1) : evalOp .or x 0 = x := by
  cases hx <;> rename_i h <;> subst h <;> rfl
theorem and_false_left (x : Int) : evalOp .and 0 x = 0 := by simp [evalOp, b2i]
theorem and_false_right (x : Int) : evalOp .and x 0 = 0 := by simp [evalOp, b2i]
theorem or_true_left (x : Int) : evalOp .or 1 x = 1 := by simp [evalOp, b2i]
theorem or_true_right (x : Int) : evalOp .or x 1 = 1 := by simp [evalOp, b2i]

theorem mapBinop_sound (nodeEq : Expr → Expr → Bool) (hEq : ∀ a b, nodeEq a b = true → a = b)
    (V : List Sym) (hV : NoClash V) (ρ : Val) (op : Op) (l r e' : Expr)
    (hl : Over V l) (hr : Over V r) (h : mapBinop nodeEq op l r = some e') :
    eval ρ e' = evalOp op (eval ρ l) (eval ρ r) ∧ Over V e' := by
  unfold mapBinop at h
  split at h
  · exact cfold_sound ρ V op l r e' h
  · have generic : eval ρ (Expr.bin op l r) = evalOp op (eval ρ l) (eval ρ r) ∧ Over V (Expr.bin op l r) :=
      ⟨rfl, Over.bin hl hr⟩
    cases op with
    | add =>
      simp only at h
      split at h
      · rename_i hz; cases h
        exact ⟨by simp [evalOp, isConstVal_eval ρ l 0 hz], hr⟩
      · split at h
        · rename_i hz; cases h
          exact ⟨by simp [evalOp, isConstVal_eval ρ r 0 hz], hl⟩
        · split at h
          · cases h
          · rename_i v hq
            cases h
            exact isQuotRem_sound V hV ρ l r _ hl hr hq
          · cases h; exact generic
    | sub =>
      simp only at h
      split at h
      · rename_i hz; cases h
        exact ⟨by simp [evalOp, isConstVal_eval ρ r 0 hz], hl⟩
      · split at h
        · rename_i hz; cases h
          exact ⟨by simp [eval, evalOp, isConstVal_eval ρ l 0 hz], hr⟩
        · split at h
          · rename_i a b
            split at h
            · rename_i he; cases h
              have := hEq _ _ he
              subst this
              exact ⟨by simp only [eval, evalOp]; omega, hl.right⟩
            · split at h
              · rename_i he; cases h
                have := hEq _ _ he
                subst this
                exact ⟨by simp only [eval, evalOp]; omega, hl.left⟩
              · cases h; exact generic
          · cases h; exact generic
    | mul =>
      simp only at h
      split at h
      · rename_i hz; cases h
        refine ⟨?_, over_const V 0⟩
        simp only [Bool.or_eq_true] at hz
        cases hz with
        | inl hz => simp [eval, evalOp, isConstVal_eval ρ l 0 hz]
        | inr hz => simp [eval, evalOp, isConstVal_eval ρ r 0 hz]
      · split at h
        · rename_i hz; cases h
          exact ⟨by simp [evalOp, isConstVal_eval ρ l 1 hz], hr⟩
        · split at h
          · rename_i hz; cases h
            exact ⟨by simp [evalOp, isConstVal_eval ρ r 1 hz], hl⟩
          · cases h; exact generic
    | div =>
      simp only at h
      split at h
      · rename_i hz; cases h
        exact ⟨by simp [evalOp, isConstVal_eval ρ r 1 hz], hl⟩
      · cases h; exact generic
    | mod =>
      simp only at h
      split at h
      · rename_i hz; cases h
        exact ⟨by simp [eval, evalOp, isConstVal_eval ρ r 1 hz], over_const V 0⟩
      · cases h; exact generic
    | and =>
      simp only at h
      split at h
      · cases h
      · rename_i hb
        simp only [Bool.not_eq_true', Bool.and_eq_false_iff, not_or, Bool.not_eq_false] at hb
        have bl := isBool_eval ρ l hb.1
        have br := isBool_eval ρ r hb.2
        split at h
        · rename_i hz; cases h
          exact ⟨by rw [isConstVal_eval ρ l 0 hz, and_false_left]; rfl, over_bconst V _⟩
        · split at h
          · rename_i hz; cases h
            exact ⟨by rw [isConstVal_eval ρ l 1 hz, and_true_left _ br], hr⟩
          · split at h
            · rename_i hz; cases h
              exact ⟨by rw [isConstVal_eval ρ r 0 hz, and_false_right]; rfl, over_bconst V _⟩
            · split at h
              · rename_i hz; cases h
                exact ⟨by rw [isConstVal_eval ρ r 1 hz, and_true_right _ bl], hl⟩
              · cases h; exact generic
    | or =>
      simp only at h
      split at h
      · cases h
      · rename_i hb
        simp only [Bool.not_eq_true', Bool.and_eq_false_iff, not_or, Bool.not_eq_false] at hb
        have bl := isBool_eval ρ l hb.1
        have br := isBool_eval ρ r hb.2
        split at h
        · rename_i hz; cases h
          exact ⟨by rw [isConstVal_eval ρ l 0 hz, or_false_left _ br], hr⟩
        · split at h
          · rename_i hz; cases h
            exact ⟨by rw [isConstVal_eval ρ l 1 hz, or_true_left]; rfl, over_bconst V _⟩
          · split at h
            · rename_i hz; cases h
              exact ⟨by rw [isConstVal_eval ρ r 0 hz, or_false_right _ bl], hl⟩
            · split at h
              · rename_i hz; cases h
                exact ⟨by rw [isConstVal_eval ρ r 1 hz, or_true_right]; rfl, over_bconst V _⟩
              · cases h; exact generic
    | lt | gt | le | ge | eq =>
      simp only [Option.some.injEq] at h
      subst h
      exact generic

theorem simpE_sound (nodeEq : Expr → Expr → Bool) (hEq : ∀ a b, nodeEq a b = true → a = b)
    (V : List Sym) (hV : NoClash V) (ρ : Val) (F : Facts) (hF : FactsOK V ρ F) :
    ∀ (e e' : Expr), Over V e → simpE nodeEq F e = some e' → eval ρ e' = eval ρ e ∧ Over V e' := by
  intro e
  induction e with
  | bin op l r ihl ihr =>
    intro e' ho h
    simp only [simpE] at h
    split at h
    · rename_i c hc
      cases h
      exact isKnown_sound V hV ρ F hF _ _ ho hc
    · split at h
      · rename_i l' r' hl hr
        obtain ⟨el, ol⟩ := ihl l' ho.left hl
        obtain ⟨er, or'⟩ := ihr r' ho.right hr
        split at h
        · rename_i e1 hm
          cases h
          obtain ⟨em, om⟩ := mapBinop_sound nodeEq hEq V hV ρ op l' r' e1 ol or' hm
          obtain ⟨ek, ok⟩ := isKnown_getD V hV ρ F hF e1 om
          exact ⟨by rw [ek, em, el, er]; rfl, ok⟩
        · cases h
      · cases h
  | usub a ih =>
    intro e' ho h
    simp only [simpE] at h
    split at h
    · rename_i c hc
      cases h
      exact isKnown_sound V hV ρ F hF _ _ ho hc
    · split at h
      · rename_i a' ha
        cases h
        obtain ⟨ea, oa⟩ := ih a' ho.usub ha
        have o2 : Over V (Expr.usub a') := oa
        obtain ⟨ek, ok⟩ := isKnown_getD V hV ρ F hF _ o2
        exact ⟨by rw [ek]; simp only [eval, ea], ok⟩
      · cases h
  | var s => intro e' ho h; simp only [simpE, Option.some.injEq] at h; subst h; exact isKnown_getD V hV ρ F hF _ ho
  | const v => intro e' ho h; simp only [simpE, Option.some.injEq] at h; subst h; exact isKnown_getD V hV ρ F hF _ ho
  | bconst b => intro e' ho h; simp only [simpE, Option.some.injEq] at h; subst h; exact isKnown_getD V hV ρ F hF _ ho
  | cfg c f => intro e' ho h; simp only [simpE, Option.some.injEq] at h; subst h; exact isKnown_getD V hV ρ F hF _ ho

/-! ### `add_fact` -/

theorem FactsOK.cons {V : List Sym} {ρ : Val} {F : Facts} (hF : FactsOK V ρ F) (e0 v : Expr)
    (ho : Over V e0) (hv : Over V v) (he : eval ρ e0 = eval ρ v) : FactsOK V ρ ((key e0, v) :: F) := by
  intro k w hm
  simp only [List.mem_cons, Prod.mk.injEq] at hm
  cases hm with
  | inl e => obtain ⟨rfl, rfl⟩ := e; exact ⟨⟨e0, ho, rfl, he⟩, hv⟩
  | inr e => exact hF k w e

theorem div_zero_mod (a b : Int) (h : a / b = 0) : a % b = a := by
  have := Int.emod_def a b
  rw [h] at this
  simpa using this

theorem addFactCore_ok (V : List Sym) (ρ : Val) (F : Facts) (hF : FactsOK V ρ F) (expr cst : Expr)
    (ho : Over V expr) (hc : Over V cst) (he : eval ρ expr = eval ρ cst) :
    FactsOK V ρ (addFactCore expr cst F) := by
  have h1 := hF.cons expr cst ho hc he
  unfold addFactCore
  split
  · rename_i a b
    split
    · rename_i hz
      have hz' := isConstVal_eval ρ cst 0 hz
      refine h1.cons (.bin .mod a b) a (Over.bin ho.left ho.right) ho.left ?_
      simp only [eval, evalOp] at he ⊢
      exact div_zero_mod _ _ (by rw [he, hz'])
    · exact h1
  · exact h1

theorem b2i_ne_zero (b : Bool) (h : b2i b ≠ 0) : b = true := by
  cases b <;> simp [b2i] at h ⊢

/-- the facts added for a condition that holds are true -/
theorem addFact_ok (V : List Sym) (ρ : Val) (F : Facts) (hF : FactsOK V ρ F) (cond : Expr)
    (ho : Over V cond) (hc : eval ρ cond ≠ 0) : FactsOK V ρ (addFact cond F) := by
  unfold addFact
  split
  · rename_i l r
    have heq : eval ρ l = eval ρ r := by
      simp only [eval, evalOp] at hc
      have := b2i_ne_zero _ hc
      simpa using this
    split
    · exact addFactCore_ok V ρ F hF l r ho.left ho.right heq
    · split
      · exact addFactCore_ok V ρ F hF r l ho.right ho.left heq.symm
      · exact hF
  · exact hF

end Exo.Simplify
