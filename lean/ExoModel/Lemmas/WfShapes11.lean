/-
  rearrange_dim as an instance of the re-indexing lemma: a permutation of the dimensions keeps
  lengths, well-formedness of the members and the number of intervals of a coordinate list.
-/
import ExoModel.Lemmas.WfShapes10

namespace Exo.WfShapes
open Exo Exo.Wf Exo.Rw

theorem range_filterMap_get {α} : ∀ (l : List α), (List.range l.length).filterMap (fun i => l[i]?) = l
  | [] => by simp
  | a :: r => by
    have ih := range_filterMap_get r
    simp only [List.length_cons, List.range_succ_eq_map, List.filterMap_cons, List.getElem?_cons_zero,
      List.filterMap_map]
    congr 1

theorem accRank_perm {l₁ l₂ : List WAcc} (h : l₁.Perm l₂) : accRank l₁ = accRank l₂ := by
  induction h with
  | nil => rfl
  | cons w _ ih => cases w <;> simp [accRank, ih]
  | swap a b l => cases a <;> cases b <;> simp [accRank]
  | trans _ _ ih1 ih2 => exact ih1.trans ih2

theorem permList_perm {α} {perm : List Nat} {l : List α} (h : perm.Perm (List.range l.length)) :
    (permList perm l).Perm l := by
  have := List.Perm.filterMap (fun i => l[i]?) h
  rw [range_filterMap_get] at this
  exact this

theorem mem_permList {α} {perm : List Nat} {l : List α} {a : α} (h : a ∈ permList perm l) : a ∈ l := by
  simp only [permList, List.mem_filterMap] at h
  obtain ⟨i, _, hi⟩ := h
  exact List.mem_of_getElem? hi

theorem reOk_rearrange (perm : List Nat) (k : Nat) (hp : perm.Perm (List.range k)) (Γ' : Env) :
    ReOk ⟨permList perm, permList perm, permDim perm⟩ k k false (fun _ => false) Γ' where
  idx := by
    intro es hl hw
    subst hl
    refine ⟨(permList_perm hp).length_eq, ?_⟩
    rw [wfCs_iff] at hw ⊢
    exact fun c hc => hw c (mem_permList hc)
  win := by
    intro _ acc hl hw
    subst hl
    refine ⟨(permList_perm hp).length_eq, ?_, accRank_perm (permList_perm hp)⟩
    rw [wfAccs_iff] at hw ⊢
    exact fun c hc => hw c (mem_permList hc)
  sdim := by
    intro d _ hd
    show perm.idxOf d < k
    have hmem : d ∈ perm := (hp.mem_iff).2 (by simpa using hd)
    have := List.idxOf_lt_length_iff.2 hmem
    have hl : perm.length = k := by simpa using hp.length_eq
    omega

theorem rearrangeDim_local (perm : List Nat) (Γ : Env) (ss r : List Stmt)
    (hr : rearrangeDim perm ss = some r) (hok : rearrangeDimOk perm ss = true)
    (hw : (wfL Γ ss).isSome = true) : (wfL Γ r).isSome = true := by
  unfold rearrangeDim at hr
  split at hr
  · rename_i x sh rest
    obtain ⟨_, hr⟩ := of_ite_none hr
    obtain ⟨_, hr⟩ := of_ite_none hr
    obtain ⟨_, hr⟩ := of_ite_none hr
    simp only [reindexDim, Option.some.injEq] at hr
    subst hr
    simp only [rearrangeDimOk, Bool.and_eq_true] at hok
    have hp : perm.Perm (List.range sh.length) := List.isPerm_iff.1 hok.1
    obtain ⟨_, hsh, _⟩ := alloc_inv hw
    have hlen : (permList perm sh).length = sh.length := (permList_perm hp).length_eq
    have hshw : wfCs Γ (permList perm sh) = true := by
      rw [wfCs_iff] at hsh ⊢
      exact fun c hc => hsh c (mem_permList hc)
    exact reindexDim_wf x sh _ ⟨permList perm, permList perm, permDim perm⟩ false (fun _ => false)
      (fun _ => True) (fun _ _ _ _ _ => trivial)
      (fun Γ' _ => by rw [hlen]; exact reOk_rearrange perm sh.length hp Γ') Γ rest hw hshw trivial hok.2
  · cases hr

end Exo.WfShapes
