/-
  Lemmas for C02 wave 2, part 7: declarations (allocation, window statement) and loops.
-/
import ExoModel.Lemmas.CSimPres

namespace Exo.CompileS
open Exo Exo.CIndex Exo.CSem
open Exo.Range (IExpr Op Val Inside)

variable {V : Type}

/-- a new view / pointer is pushed on both sides -/
theorem Rep.pushView {Γ Γ' : CEnv} {σ σ' : State V} {c c' : CState V} (h : Rep Γ σ c) {w : Sym}
    {ty : Ty} {vw : View} {cv : CVal}
    (ht : Γ'.typ = (w, ty) :: Γ.typ) (hr : Γ'.refs = Γ.refs) (hk : Γ'.known = Γ.known)
    (hre : Γ'.renv = Γ.renv) (he : σ'.env = σ.env) (hv : σ'.views = (w, vw) :: σ.views)
    (hi : c'.ints = c.ints) (hvl : c'.vals = (w, cv) :: c.vals) (hh : c'.heap = σ'.heap)
    (hc : c'.cfg = σ'.cfg) (hval : RepVal Γ' σ.env w vw cv) : Rep Γ' σ' c' := by
  refine ⟨by rw [hi, he]; exact h.ints, hh, hc, fun x v hx => ?_,
    by simp only [ρS, he, hre]; exact h.rng⟩
  rw [hv] at hx
  rw [hvl, he]
  simp only [lookupSym] at hx ⊢
  by_cases hxw : x = w
  · simp only [hxw, if_true, Option.some.injEq] at hx ⊢
    subst hx
    exact ⟨cv, rfl, hval⟩
  · simp only [hxw, if_false] at hx ⊢
    obtain ⟨cv', hcv', hv'⟩ := h.vals x v hx
    refine ⟨cv', hcv', hv'.congr ?_ hr hk⟩
    rw [ht]; simp [lookupSym, hxw]

/-! ## dense layout -/

theorem foldl_mul_nonneg : ∀ (l : List Int) (a : Int), 0 ≤ a → (∀ n ∈ l, 0 ≤ n) →
    0 ≤ l.foldl (· * ·) a
  | [], _, ha, _ => ha
  | n :: r, a, ha, h => by
      simp only [List.foldl_cons]
      exact foldl_mul_nonneg r (a * n) (Int.mul_nonneg ha (h n (by simp)))
        (fun m hm => h m (by simp [hm]))

theorem denseDims_ok : ∀ (ns : List Int), (∀ n ∈ ns, 0 ≤ n) → DimsOK (denseDims ns)
  | [], _ => by intro d hd; cases hd
  | n :: r, h => by
      intro d hd
      simp only [denseDims, List.mem_cons] at hd
      rcases hd with rfl | hd
      · exact ⟨h n (by simp), foldl_mul_nonneg r 1 (by decide) (fun m hm => h m (by simp [hm]))⟩
      · exact denseDims_ok r (fun m hm => h m (by simp [hm])) d hd

theorem checkSizes_pos : ∀ {ns : List Int}, checkSizes ns = .ok () → ∀ n ∈ ns, 0 ≤ n
  | [], _, n, hn => by cases hn
  | m :: r, h, n, hn => by
      simp only [checkSizes] at h
      split at h
      · cases h
      · simp only [List.mem_cons] at hn
        rcases hn with rfl | hn
        · omega
        · exact checkSizes_pos h n hn

/-! ## window accesses -/

theorem mapM'_map {α β γ : Type} (f : β → M γ) (g : α → β) : ∀ (l : List α),
    mapM' (fun a => f (g a)) l = mapM' f (l.map g)
  | [] => rfl
  | a :: r => by simp only [mapM', List.map_cons, mapM'_map f g r]

theorem evalAcc_facts {σ : State V} : ∀ {acc : List WAcc} {was : List WA},
    evalAcc σ acc = .ok was →
    evalCs σ (acc.map waccLo) = .ok (was.map WA.lo) ∧
    mkWA (was.map WA.lo) (acc.map waccIsIv) = was
  | [], was, h => by
      simp only [evalAcc, pure, Except.pure, Except.ok.injEq] at h; subst h
      exact ⟨rfl, rfl⟩
  | .point e :: r, was, h => by
      simp only [evalAcc] at h
      split at h
      · rename_i i ws hi hws
        simp only [pure, Except.pure, Except.ok.injEq] at h; subst h
        have ih := evalAcc_facts hws
        simp only [List.map_cons, waccLo, waccIsIv, evalCs, hi, ih.1, WA.lo, mkWA, ih.2]
        exact ⟨rfl, trivial⟩
      · cases h
      · cases h
  | .interval lo hi :: r, was, h => by
      simp only [evalAcc] at h
      split at h
      · rename_i i ws hi' hws
        simp only [pure, Except.pure, Except.ok.injEq] at h; subst h
        have ih := evalAcc_facts hws
        simp only [List.map_cons, waccLo, waccIsIv, evalCs, hi', ih.1, WA.lo, mkWA, ih.2]
        exact ⟨rfl, trivial⟩
      · cases h
      · cases h

theorem applyAcc_dims {σ : State V} : ∀ {acc : List WAcc} {ds ds' : List (Int × Int)} {off o : Int},
    DimsOK ds → applyAcc σ acc ds off = .ok (o, ds') →
    DimsOK ds' ∧ ds'.length = ((acc.map waccIsIv).filter id).length
  | [], [], _, _, _, _, h => by
      simp only [applyAcc, pure, Except.pure, Except.ok.injEq, Prod.mk.injEq] at h
      rw [← h.2]; exact ⟨fun d hd => (by cases hd), rfl⟩
  | [], _ :: _, _, _, _, _, h => by simp [applyAcc, throw, throwThe, MonadExceptOf.throw] at h
  | .point _ :: _, [], _, _, _, _, h => by simp [applyAcc, throw, throwThe, MonadExceptOf.throw] at h
  | .interval _ _ :: _, [], _, _, _, _, h => by
      simp [applyAcc, throw, throwThe, MonadExceptOf.throw] at h
  | .point e :: as, (ext, st) :: ds, ds', off, o, hd, h => by
      simp only [applyAcc] at h
      obtain ⟨i, _, h⟩ := bind_ok h
      split at h
      · have ih := applyAcc_dims (fun d hd' => hd d (by simp [hd'])) h
        exact ⟨ih.1, by simpa [waccIsIv] using ih.2⟩
      · cases h
  | .interval lo hi :: as, (ext, st) :: ds, ds', off, o, hd, h => by
      simp only [applyAcc] at h
      obtain ⟨l, _, h⟩ := bind_ok h
      obtain ⟨hv, _, h⟩ := bind_ok h
      split at h
      · rename_i hb
        obtain ⟨⟨o', r⟩, hp, h⟩ := bind_ok h
        simp only [pure, Except.pure, Except.ok.injEq, Prod.mk.injEq] at h
        have ih := applyAcc_dims (fun d hd' => hd d (by simp [hd'])) hp
        rw [← h.2]
        refine ⟨?_, by simp [waccIsIv, ih.2]⟩
        intro d hd'
        simp only [List.mem_cons] at hd'
        rcases hd' with rfl | hd'
        · exact ⟨by simp only; omega, (hd (ext, st) (by simp)).2⟩
        · exact ih.1 d hd'
      · cases h

/-! ## loops -/

theorem iter_sim {Γ : CEnv} {f : Int → State V → Except Err (State V)}
    {g : Int → CState V → Except CErr (CState V)} {l h : Int} {P : State V → Prop}
    (step : ∀ v σ c σ1, l ≤ v → v < h → Rep Γ σ c → P σ → f v σ = .ok σ1 →
      ∃ c1, g v c = .ok c1 ∧ Rep Γ σ1 c1 ∧ P σ1) :
    ∀ (n : Nat) (lo : Int) (σ : State V) (c : CState V) (σ' : State V), l ≤ lo → lo + n ≤ h →
      Rep Γ σ c → P σ → iterate f n lo σ = .ok σ' →
      ∃ c', iterC g n lo c = .ok c' ∧ Rep Γ σ' c' ∧ P σ'
  | 0, lo, σ, c, σ', _, _, hr, hp, hi => by
      simp only [iterate, pure, Except.pure, Except.ok.injEq] at hi; subst hi
      exact ⟨c, rfl, hr, hp⟩
  | n + 1, lo, σ, c, σ', h1, h2, hr, hp, hi => by
      simp only [iterate] at hi
      obtain ⟨σ1, hs1, hi⟩ := bind_ok hi
      obtain ⟨c1, hc1, hr1, hp1⟩ := step lo σ c σ1 h1 (by omega) hr hp hs1
      obtain ⟨c', hc', hr', hp'⟩ := iter_sim step n (lo + 1) σ1 c1 σ' (by omega)
        (by push_cast at h2; omega) hr1 hp1 hi
      exact ⟨c', by simp only [iterC, hc1]; exact hc', hr', hp'⟩

theorem execCL_append [DataAlg V] (mon : Bool) : ∀ (a b : List CStmt) (c : CState V),
    execCL mon (a ++ b) c = (execCL mon a c >>= fun c1 => execCL mon b c1)
  | [], b, c => rfl
  | s :: r, b, c => by
      simp only [List.cons_append, execCL]
      cases execCS mon s c with
      | error e => rfl
      | ok c1 => exact execCL_append mon r b c1

end Exo.CompileS
