/-
  Correctness of the model of `DoInline`: after the window statements `formal = actual` have run,
  the caller's state is related to the callee's state, and the substituted body follows.
-/
import ExoModel.Lemmas.InlineCall
import ExoModel.Lemmas.InlineRefl

set_option linter.unusedSectionVars false
set_option linter.unusedVariables false
namespace Exo.Inline
open Exo

variable {V : Type}

/-- the caller's state after the window statements of the inlining -/
def withViews (σ : State V) (wv : List (Sym × View)) : State V := { σ with views := wv ++ σ.views }

theorem lookupSym_append_notin {α : Type} (y : Sym) : ∀ (wv l : List (Sym × α)),
    (∀ z, z ∈ wv.map (·.1) → z ≠ y) → lookupSym y (wv ++ l) = lookupSym y l
  | [], _, _ => rfl
  | (z, v) :: r, l, h => by
    have hz : y ≠ z := fun e => h z (by simp) e.symm
    simp only [List.cons_append, lookupSym, hz, if_false]
    exact lookupSym_append_notin y r l (fun z' hz' => h z' (by simp at hz' ⊢; exact Or.inr hz'))

theorem sameSym_withViews (σ : State V) (wv : List (Sym × View)) (y : Sym)
    (h : ∀ z, z ∈ wv.map (·.1) → z ≠ y) : SameSym σ (withViews σ wv) y :=
  ⟨rfl, lookupSym_append_notin y wv σ.views h⟩

theorem AccRel.cons' {θ : Subst} {ce ce' : List (Sym × Int)} {cv cv' : List (Sym × View)}
    {σ σ' : State V} (h : AccRel θ ce cv σ) (x : Sym) (t : Target)
    (h0 : Holds t x (calleeState σ' ce' cv') σ')
    (hc : ∀ z, z ≠ x → lookupSym z ce' = lookupSym z ce ∧ lookupSym z cv' = lookupSym z cv)
    (hcfg : σ'.cfg = σ.cfg)
    (hs : ∀ z t y, lookupSym z θ = some t → t.mentions y = true → SameSym σ σ' y) :
    AccRel ((x, t) :: θ) ce' cv' σ' := by
  intro z t' hl
  simp only [lookupSym] at hl
  split at hl
  · rename_i hz; cases hl; subst hz; exact h0
  · rename_i hz
    exact (h z t' hl).transport (Or.inr hcfg) (hc z hz) (fun y hy => hs z t' y hl hy)

theorem evalView_win_congr (σ σ' : State V) (y : Sym) (w : List WAcc) (hcfg : σ'.cfg = σ.cfg)
    (h : ∀ z, mentionsE z (.win y w) = true → SameSym σ σ' z) :
    evalView σ' (.win y w) = evalView σ (.win y w) := by
  have hy := (h y (by simp [mentionsE])).2
  simp only [evalView, hy]
  cases lookupSym y σ.views with
  | none => rfl
  | some v =>
    simp only []
    rw [applyAcc_congr σ σ' w _ _ (Or.inr hcfg) (fun z hz => h z (by simp [mentionsE, hz]))]

theorem formalNames_mem_cons {x : Sym} {ty : ArgTy} {fs : List FnArg} {z : Sym}
    (h : z ∈ formalNames fs) : z ∈ formalNames (⟨x, ty⟩ :: fs) := by
  simp [formalNames, h]

theorem distinct_head {x : Sym} {ty : ArgTy} {fs : List FnArg}
    (h : distinctSyms (formalNames (⟨x, ty⟩ :: fs)) = true) :
    x ∉ formalNames fs ∧ distinctSyms (formalNames fs) = true := by
  simp only [formalNames, distinctSyms, Bool.and_eq_true, Bool.not_eq_true',
    List.contains_eq_mem, decide_eq_false_iff_not] at h
  exact h

variable [DataAlg V] (ext : String → List V → V)

/-- the step shared by scalar and tensor formals -/
theorem inlineBind_view_step (σ : State V) (allF : List Sym) (x : Sym) (fs : List FnArg)
    (a : Expr) (as : List Expr) (θacc : Subst) (ws : List Stmt)
    (ce : List (Sym × Int)) (cv : List (Sym × View)) (wv : List (Sym × View))
    (t : Target) (w : List Stmt) (v : View)
    (ht : inlineTarget x a = some (t, w)) (hv : evalView σ a = .ok v)
    (hxF : x ∈ allF) (hxfs : x ∉ formalNames fs) (hfsF : ∀ z, z ∈ formalNames fs → z ∈ allF)
    (hfr : ∀ z, z ∈ allF → mentionsE z a = false)
    (hws : execL ext ws σ = .ok (withViews σ wv))
    (hwv : ∀ z, z ∈ wv.map (·.1) → z ∈ allF)
    (hacc : AccRel θacc ce cv (withViews σ wv))
    (hmen : ∀ z t, lookupSym z θacc = some t → ∀ x', (x' = x ∨ x' ∈ formalNames fs) → t.mentions x' = false) :
    ∃ wv', execL ext (ws ++ w) σ = .ok (withViews σ wv') ∧
      (∀ z, z ∈ wv'.map (·.1) → z ∈ allF) ∧
      AccRel ((x, t) :: θacc) ce ((x, v) :: cv) (withViews σ wv') ∧
      (∀ z t', lookupSym z ((x, t) :: θacc) = some t' → ∀ x', x' ∈ formalNames fs → t'.mentions x' = false) := by
  have hsame : ∀ y, mentionsE y a = true → SameSym σ (withViews σ wv) y := by
    intro y hy
    refine sameSym_withViews σ wv y (fun z hz e => ?_)
    subst e
    rw [hfr z (hwv z hz)] at hy; cases hy
  unfold inlineTarget at ht
  split at ht
  · -- whole buffer `y`
    rename_i y
    cases ht
    have hl : lookupSym y σ.views = some v := by
      simp only [evalView] at hv
      cases hl : lookupSym y σ.views with
      | none => rw [hl] at hv; cases hv
      | some v' => rw [hl] at hv; cases hv; rfl
    have hyF : y ∉ allF := fun hy => by
      have := hfr y hy; simp [mentionsE] at this
    refine ⟨wv, by simpa using hws, hwv, ?_, ?_⟩
    · refine hacc.cons x _ ⟨v, by simp [calleeState, lookupSym], ?_⟩
        (fun z hz => ⟨rfl, by simp [lookupSym, hz]⟩)
      have := (hsame y (by simp [mentionsE])).2
      simp only [viewOf, this, hl]; rfl
    · intro z t' hl' x' hx'
      simp only [lookupSym] at hl'
      split at hl'
      · cases hl'
        simp only [Target.mentions, beq_eq_false_iff_ne, ne_eq]
        intro e; subst e
        exact hyF (hfsF _ hx')
      · exact hmen z t' hl' x' (Or.inr hx')
  · -- window `y[w]`
    rename_i y wacc
    cases ht
    have hev : evalView (withViews σ wv) (.win y wacc) = .ok v := by
      rw [evalView_win_congr σ (withViews σ wv) y wacc rfl hsame]; exact hv
    refine ⟨(x, v) :: wv, ?_, ?_, ?_, ?_⟩
    · rw [execL_append, hws]
      simp only [bind, Except.bind, execL, execS, hev, pure, Except.pure]
      rfl
    · intro z hz
      simp only [List.map_cons, List.mem_cons] at hz
      rcases hz with rfl | hz
      · exact hxF
      · exact hwv z hz
    · refine hacc.cons' x _ ⟨v, by simp [calleeState, lookupSym], by simp [viewOf, withViews, lookupSym, pure, Except.pure]⟩
        (fun z hz => ⟨rfl, by simp [lookupSym, hz]⟩) rfl (fun z t' y' hl' hy' => ?_)
      have hne : y' ≠ x := by
        intro e; subst e
        rw [hmen z t' hl' y' (Or.inl rfl)] at hy'; cases hy'
      exact ⟨rfl, by simp [withViews, lookupSym, hne]⟩
    · intro z t' hl' x' hx'
      simp only [lookupSym] at hl'
      split at hl'
      · cases hl'
        simp only [Target.mentions, beq_eq_false_iff_ne, ne_eq]
        intro e; subst e; exact hxfs hx'
      · exact hmen z t' hl' x' (Or.inr hx')
  · cases ht

/-- along `bindArgs` / `inlineBind`: the window statements run, and what the formals stand for
    holds in the state they leave -/
theorem inlineBind_rel (σ : State V) (allF : List Sym) : ∀ (fs : List FnArg) (as : List Expr)
    (θacc θ0 : Subst) (ws ws0 : List Stmt) (ce ce' : List (Sym × Int)) (cv cv' : List (Sym × View))
    (wv : List (Sym × View)),
    inlineBind fs as θacc ws = some (θ0, ws0) →
    bindArgs σ fs as ce cv = .ok (ce', cv') →
    distinctSyms (formalNames fs) = true →
    (∀ z, z ∈ formalNames fs → z ∈ allF) →
    (∀ z, z ∈ allF → ∀ a, a ∈ as → mentionsE z a = false) →
    execL ext ws σ = .ok (withViews σ wv) →
    (∀ z, z ∈ wv.map (·.1) → z ∈ allF) →
    AccRel θacc ce cv (withViews σ wv) →
    (∀ z t, lookupSym z θacc = some t → ∀ x', x' ∈ formalNames fs → t.mentions x' = false) →
    ∃ wv', execL ext ws0 σ = .ok (withViews σ wv') ∧ AccRel θ0 ce' cv' (withViews σ wv')
  | [], [], θacc, θ0, ws, ws0, ce, ce', cv, cv', wv, hi, hb, _, _, _, hws, _, hacc, _ => by
    simp only [inlineBind, Option.some.injEq, Prod.mk.injEq] at hi
    simp only [bindArgs, pure, Except.pure, Except.ok.injEq, Prod.mk.injEq] at hb
    obtain ⟨rfl, rfl⟩ := hi
    obtain ⟨rfl, rfl⟩ := hb
    exact ⟨wv, hws, hacc⟩
  | [], _ :: _, _, _, _, _, _, _, _, _, _, hi, _, _, _, _, _, _, _, _ => by simp [inlineBind] at hi
  | ⟨x, .ctrl k⟩ :: fs, [], _, _, _, _, _, _, _, _, _, hi, _, _, _, _, _, _, _, _ => by
    simp [inlineBind] at hi
  | ⟨x, .scalar⟩ :: fs, [], _, _, _, _, _, _, _, _, _, hi, _, _, _, _, _, _, _, _ => by
    simp [inlineBind] at hi
  | ⟨x, .tensor _ _⟩ :: fs, [], _, _, _, _, _, _, _, _, _, hi, _, _, _, _, _, _, _, _ => by
    simp [inlineBind] at hi
  | ⟨x, .ctrl k⟩ :: fs, a :: as, θacc, θ0, ws, ws0, ce, ce', cv, cv', wv,
      hi, hb, hd, hF, hfr, hws, hwv, hacc, hmen => by
    simp only [inlineBind] at hi
    simp only [bindArgs] at hb
    obtain ⟨hxfs, hd'⟩ := distinct_head hd
    cases hv : evalC σ a with
    | error e => rw [hv] at hb; cases hb
    | ok v =>
      rw [hv] at hb
      have hb2 : (if k = CtrlKind.size ∧ v ≤ 0 then
            (do throw Err.nonPosSize; bindArgs σ fs as ((x, v) :: ce) cv)
          else bindArgs σ fs as ((x, v) :: ce) cv) = Except.ok (ce', cv') := hb
      by_cases hk : k = CtrlKind.size ∧ v ≤ 0
      · rw [if_pos hk] at hb2; cases hb2
      · rw [if_neg hk] at hb2
        have hsame : ∀ y, mentionsE y a = true → SameSym σ (withViews σ wv) y := by
          intro y hy
          refine sameSym_withViews σ wv y (fun z hz e => ?_)
          subst e
          rw [hfr z (hwv z hz) a (by simp)] at hy; cases hy
        have hev : evalC (withViews σ wv) a = .ok v := by
          rw [evalC_congr σ (withViews σ wv) a (Or.inr rfl) hsame]; exact hv
        refine inlineBind_rel σ allF fs as _ θ0 ws ws0 _ ce' cv cv' wv hi hb2 hd'
          (fun z hz => hF z (formalNames_mem_cons hz))
          (fun z hz a' ha' => hfr z hz a' (by simp [ha'])) hws hwv ?_ ?_
        · exact hacc.cons x _ ⟨v, by simp [calleeState, lookupSym], hev⟩
            (fun z hz => ⟨by simp [lookupSym, hz], rfl⟩)
        · intro z t hl x' hx'
          simp only [lookupSym] at hl
          split at hl
          · cases hl
            simp only [Target.mentions]
            exact hfr x' (hF x' (formalNames_mem_cons hx')) a (by simp)
          · exact hmen z t hl x' (formalNames_mem_cons hx')
  | ⟨x, .scalar⟩ :: fs, a :: as, θacc, θ0, ws, ws0, ce, ce', cv, cv', wv,
      hi, hb, hd, hF, hfr, hws, hwv, hacc, hmen => by
    simp only [inlineBind] at hi
    simp only [bindArgs] at hb
    obtain ⟨hxfs, hd'⟩ := distinct_head hd
    split at hi
    · rename_i t w ht
      cases hv : evalView σ a with
      | error e => rw [hv] at hb; cases hb
      | ok v =>
        rw [hv] at hb
        obtain ⟨wv', h1, h2, h3, h4⟩ := inlineBind_view_step ext σ allF x fs a as θacc ws ce cv wv t w v
          ht hv (hF x (by simp [formalNames])) hxfs (fun z hz => hF z (formalNames_mem_cons hz))
          (fun z hz => hfr z hz a (by simp)) hws hwv hacc
          (fun z t' hl x' hx' => hmen z t' hl x' (by
            rcases hx' with rfl | hx'
            · simp [formalNames]
            · exact formalNames_mem_cons hx'))
        exact inlineBind_rel σ allF fs as _ θ0 _ ws0 ce ce' _ cv' wv' hi hb hd'
          (fun z hz => hF z (formalNames_mem_cons hz))
          (fun z hz a' ha' => hfr z hz a' (by simp [ha'])) h1 h2 h3 h4
    · cases hi
  | ⟨x, .tensor _ _⟩ :: fs, a :: as, θacc, θ0, ws, ws0, ce, ce', cv, cv', wv,
      hi, hb, hd, hF, hfr, hws, hwv, hacc, hmen => by
    simp only [inlineBind] at hi
    simp only [bindArgs] at hb
    obtain ⟨hxfs, hd'⟩ := distinct_head hd
    split at hi
    · rename_i t w ht
      cases hv : evalView σ a with
      | error e => rw [hv] at hb; cases hb
      | ok v =>
        rw [hv] at hb
        obtain ⟨wv', h1, h2, h3, h4⟩ := inlineBind_view_step ext σ allF x fs a as θacc ws ce cv wv t w v
          ht hv (hF x (by simp [formalNames])) hxfs (fun z hz => hF z (formalNames_mem_cons hz))
          (fun z hz => hfr z hz a (by simp)) hws hwv hacc
          (fun z t' hl x' hx' => hmen z t' hl x' (by
            rcases hx' with rfl | hx'
            · simp [formalNames]
            · exact formalNames_mem_cons hx'))
        exact inlineBind_rel σ allF fs as _ θ0 _ ws0 ce ce' _ cv' wv' hi hb hd'
          (fun z hz => hF z (formalNames_mem_cons hz))
          (fun z hz a' ha' => hfr z hz a' (by simp [ha'])) h1 h2 h3 h4
    · cases hi

/-- `DoInline` is correct: when the call's monitors pass, the call and the inlined statements
    (in a scope of their own) have the same outcome -/
theorem inline_sound {f : Proc} {args : List Expr} {B : List Stmt}
    (hi : inline f args = some B) (hwf : inlineWf f args = true) (σ : State V)
    {ce : List (Sym × Int)} {cv : List (Sym × View)}
    (hb : bindArgs σ f.args args [] [] = .ok (ce, cv)) (hna : noAlias cv = true)
    (hs : checkShapes (calleeState σ ce cv) f.args = .ok ())
    (hp : checkPreds (calleeState σ ce cv) f.preds = .ok ()) :
    ExEq (execS ext (.call f args) σ) (execB ext B σ) := by
  simp only [inlineWf, Bool.and_eq_true] at hwf
  obtain ⟨⟨hd, hfr⟩, hrest⟩ := hwf
  simp only [inline] at hi
  cases hib : inlineBind f.args args [] [] with
  | none => rw [hib] at hi; cases hi
  | some p =>
    obtain ⟨θ, ws⟩ := p
    rw [hib] at hi hrest
    simp only [] at hi
    simp only [Bool.and_eq_true, Bool.not_eq_true'] at hrest
    obtain ⟨⟨⟨hpure, hnw⟩, _⟩, hbf⟩ := hrest
    cases hsl : substL θ f.body with
    | none => rw [hsl] at hi; cases hi
    | some body =>
      rw [hsl] at hi
      simp only [Option.some.injEq] at hi
      subst hi
      obtain ⟨θ', hm⟩ := matchL_of_subst f.body body θ hsl hbf
      · have hfr' : ∀ z, z ∈ formalNames f.args → ∀ a, a ∈ args → mentionsE z a = false := by
          intro z hz a ha
          simp only [formalsFresh, List.all_eq_true, Bool.not_eq_true'] at hfr
          exact hfr z hz a ha
        obtain ⟨wv, hws, hacc⟩ := inlineBind_rel ext σ (formalNames f.args) f.args args [] θ [] ws
          [] ce [] cv [] hib hb hd (fun z hz => hz) hfr'
          (by simp [execL, withViews, pure, Except.pure]) (by simp)
          (fun x t h => by simp [lookupSym] at h) (fun z t h => by simp [lookupSym] at h)
        have hr : Rel θ (calleeState σ ce cv) (withViews σ wv) := ⟨rfl, rfl, hacc⟩
        have sim := matchL_sound (W := False) ext f.body body θ θ' _ _ hpure
          (fun h => by rw [hnw] at h; cases h) hr hm
        simp only [execS, execP_of_monitors ext hb hna hs hp, execB]
        rw [execL_append, hws]
        have e : (Except.ok (withViews σ wv) >>= execL ext body) = execL ext body (withViews σ wv) := rfl
        rw [e]
        have s2 := sim.map (State.leave σ) (State.leave σ) (R' := Eq)
          (fun a b hab => leave_eq_of_rel hab)
        exact s2.toExEq

end Exo.Inline
