/-
  Soundness of `expand_dim` for a LOCAL buffer (`Rw.expandDim n e`, the shape `DoExpandDim` builds):

      x : T[sh] ; rest      ⟶      x : T[n, sh] ; expandL x e rest

  every access `x[idx]` becomes `x[e, idx]`.  With `nv`, `ev` the values of `n`, `e` at the
  allocation and `M = Π sh`, cell `o` of the original buffer is cell `ev * M + o` of the expanded one.

  FIRST VERSION — all theorems are named `…_partial`.  EXCLUDED by the guard `Rw.expandDimGuard`
  (`Rw.okS`, StorageExpand2.lean): `x` in a window expression `x[lo:hi, …]`, `x` (or a point access
  `x[i]`) as a call argument, `x` on the right-hand side of a `window` statement, `stride(x, d)`
  (the real primitive does not renumber the dimension — a recorded defect), any control expression
  that mentions `x`, a re-binding of `x`.  What IS covered: reads `x[idx]` anywhere in right-hand
  sides / extern arguments / data configuration writes, `assign`/`reduce` to `x[idx]`, under any
  nesting of `for`/`if`, with arbitrary other statements in between — including calls (callee bodies
  never see the buffer: identity mode `execP_id`), allocations and windows of other buffers.

  * `expand_dim_lock_partial`       : lock step from one state (both blocks fail, or both succeed
                                       with EQUAL final states — the buffer disappears with its scope)
  * `expand_dim_lock_sim_partial`   : the same from `Sim Eq 0 0 ∅`-related states
  * `expand_dim_refW_partial`       : `BlockRefW`, semantic side condition quantified over the states
                                       in which the original block succeeds
  * `expand_dim_refW_lits_partial`  : instance: `n` a positive literal, `e` a literal in range
  * `Rw.expandDimChecked`, `Rw.expandDimChecked_sound`, `expand_dim_anywhere_partial`
  * non-vacuity example, `expand_dim_out_of_range_unsound`

  SECOND VERSION (`…_win_partial`, guard `Rw.expandDimGuardW` / `Rw.okSW`, StorageExpand3/4.lean):
  additionally `window y := x[acc]`, `window y := x[i, j]` and `x[acc]` / `x[i, j]` as call arguments
  (views into the buffer other than `x` are shifted by `ev * M`).  Still excluded: `stride(x, d)` and
  every other control expression mentioning `x`, the bare name `x` as a view, a re-binding of `x`.
  `Rw.expandDimGuard_le` : the first guard implies the second.
-/
import ExoModel.Lemmas.StorageExpand4

set_option linter.unusedSectionVars false
set_option linter.unusedVariables false

/-! ### the guard -/
namespace Exo.Rw
open Exo

/-- executable side conditions of `expand_dim` on the block suffix `x : T[sh] ; rest`: the new index
    `e` depends on the control environment only, no loop variable bound in `rest` occurs in `e`, and
    `x` occurs in `rest` only as the buffer of data reads and as the target of assignments and
    reductions (`okL`).  (`n` is not constrained syntactically.) -/
def expandDimGuard (n e : Expr) : List Stmt → Bool
  | .alloc x _ :: rest => e.envOnly && okL x e rest
  | _ => false

/-- `n` is a positive integer literal and `e` an integer literal with `0 ≤ e < n` -/
def expandDimLits (n e : Expr) : Bool :=
  match n, e with
  | .lit (.int nv), .lit (.int ev) => decide (0 < nv) && decide (0 ≤ ev) && decide (ev < nv)
  | _, _ => false

/-- `expandDim n e` when the guard holds and `n`, `e` are literals in range -/
def expandDimChecked (n e : Expr) : Local := fun ss =>
  if expandDimGuard n e ss && expandDimLits n e then expandDim n e ss else none

end Exo.Rw

namespace Exo
variable {V : Type}

/-! ### dense layouts -/

theorem expandDim_foldl_mul (l : List Int) (a : Int) :
    l.foldl (· * ·) a = a * l.foldl (· * ·) 1 := by
  induction l generalizing a with
  | nil => simp
  | cons d r ih => simp only [List.foldl_cons]; rw [ih (a * d), ih (1 * d)]; simp [Int.mul_assoc]

theorem checkSizes_prod_pos : ∀ (szs : List Int), checkSizes szs = .ok () →
    0 < szs.foldl (· * ·) 1
  | [], _ => by simp
  | d :: r, h => by
    simp only [checkSizes] at h
    split at h
    · cases h
    · rename_i hd
      have ih := checkSizes_prod_pos r h
      simp only [List.foldl_cons]
      rw [expandDim_foldl_mul]
      simp only [Int.one_mul]
      exact Int.mul_pos (by omega) ih

/-- an in-range index tuple of a dense view has its offset inside the buffer -/
theorem viewOffset_dense : ∀ (szs : List Int) (is : List Int) (acc o : Int),
    viewOffset (denseDims szs) is acc = .ok o → acc ≤ o ∧ o < acc + szs.foldl (· * ·) 1
  | [], [], acc, o, h => by
    simp only [denseDims, viewOffset, pure, Except.pure, Except.ok.injEq] at h
    subst h; simp only [List.foldl_nil]; omega
  | [], _ :: _, acc, o, h => by simp [denseDims, viewOffset] at h
  | d :: r, [], acc, o, h => by simp [denseDims, viewOffset] at h
  | d :: r, i :: is, acc, o, h => by
    simp only [denseDims, viewOffset] at h
    split at h
    · rename_i hi
      have ih := viewOffset_dense r is _ o h
      simp only [List.foldl_cons]
      rw [expandDim_foldl_mul r (1 * d)]
      generalize r.foldl (· * ·) 1 = Pr at ih ⊢
      have hP : 0 < Pr := by omega
      have h1 : 0 ≤ i * Pr := Int.mul_nonneg hi.1 (by omega)
      have h2 : (i + 1) * Pr ≤ d * Pr := Int.mul_le_mul_of_nonneg_right (by omega) (by omega)
      rw [Int.add_mul] at h2
      simp only [Int.one_mul] at h2 ⊢
      constructor <;> omega
    · cases h

/-! ### the two states after the allocations -/

theorem exp_init (σ : State V) (hvo : ViewsOk σ) (x : Sym) (m K δ : Nat) (hK : δ + m ≤ K)
    (ds ds' : List (Int × Int)) :
    Exp (fun y => y = x) σ.heap.length m δ
      { buf := σ.heap.length, off := 0, dims := ds } { buf := σ.heap.length, off := 0, dims := ds' }
      { σ with heap := σ.heap ++ [List.replicate m none],
               views := (x, { buf := σ.heap.length, off := 0, dims := ds }) :: σ.views }
      { σ with heap := σ.heap ++ [List.replicate K none],
               views := (x, { buf := σ.heap.length, off := 0, dims := ds' }) :: σ.views } := by
  refine ⟨rfl, rfl, ⟨by simp, ?_, ?_⟩, ?_, ?_, ?_⟩
  · intro b hb
    simp only []
    by_cases hlt : b < σ.heap.length
    · rw [List.getElem?_append_left hlt, List.getElem?_append_left hlt]
    · rw [List.getElem?_eq_none_iff.2 (by simp; omega), List.getElem?_eq_none_iff.2 (by simp; omega)]
  · refine ⟨List.replicate m none, List.replicate K none, ?_, ?_, by simp, by simpa using hK, ?_⟩
    · exact getElem?_append_last _ _
    · exact getElem?_append_last _ _
    · intro o ho
      rw [List.getElem?_replicate, List.getElem?_replicate, if_pos ho, if_pos (by omega)]
  · intro y hy
    have hy' : ¬ y = x := hy
    simp only [lookupSym, if_neg hy']
  · intro y v hy hl
    have hy' : ¬ y = x := hy
    simp only [lookupSym, if_neg hy'] at hl
    have := hvo (y, v) (lookupSym_mem hl)
    simp only [] at this
    omega
  · intro y hy
    have hy' : y = x := hy
    simp only [lookupSym, if_pos hy', and_self]

/-- after the block is left the buffer is gone: the two final states are equal -/
theorem Exp.leave_eq {P : Sym → Prop} {N m δ : Nat} {vx vx' : View} {t t' : State V}
    (h : Exp P N m δ vx vx' t t') (σ : State V) (hN : σ.heap.length = N) :
    State.leave σ t' = State.leave σ t := by
  simp only [State.leave, h.cfg, State.mk.injEq, true_and, and_true]
  apply List.ext_getElem?
  intro b
  rw [List.getElem?_take, List.getElem?_take]
  split
  · exact h.heap.other b (by omega)
  · rfl

/-! ### the block theorem -/

section
variable [DataAlg V] (ext : String → List V → V)

/-- **expand_dim, lock step.**  In a well-scoped state `σ` in which `n` has a positive value `nv`
    and `e` a value `0 ≤ ev < nv`, under the guard, the block `x : T[sh] ; rest` and the block
    `x : T[n, sh] ; expandL x e rest` both fail, or both succeed with the SAME final state. -/
theorem expand_dim_lock_partial (x : Sym) (sh : List Expr) (n e : Expr) (rest : List Stmt)
    (σ : State V) (hvo : ViewsOk σ)
    (hg : Rw.expandDimGuard n e (.alloc x sh :: rest) = true)
    (nv ev : Int) (hn : evalC σ n = .ok nv) (hnpos : 0 < nv)
    (he : evalC σ e = .ok ev) (hev0 : 0 ≤ ev) (hev1 : ev < nv) :
    Lock Eq (execB ext (.alloc x sh :: rest) σ)
      (execB ext (.alloc x (n :: sh) :: Rw.expandL x e rest) σ) := by
  simp only [Rw.expandDimGuard, Bool.and_eq_true] at hg
  obtain ⟨henv, hok⟩ := hg
  unfold execB
  cases hsz : evalCs σ sh with
  | error err =>
    have h1 : execS ext (.alloc x sh) σ = .error err := by
      simp only [execS, hsz, bind, Except.bind]
    have h2 : execS ext (.alloc x (n :: sh)) σ = .error err := by
      simp only [execS, evalCs, hn, hsz, bind, Except.bind]
    rw [execL_cons_error ext h1, execL_cons_error ext h2]
    exact trivial
  | ok szs =>
    have hsz' : evalCs σ (n :: sh) = .ok (nv :: szs) := by
      simp only [evalCs, hn, hsz, bind, Except.bind, pure, Except.pure]
    have hk' : checkSizes (nv :: szs) = checkSizes szs := by
      simp only [checkSizes]
      rw [if_neg (by omega)]
    cases hk : checkSizes szs with
    | error err =>
      have h1 : execS ext (.alloc x sh) σ = .error err := by
        simp only [execS, hsz, hk, bind, Except.bind]
      have h2 : execS ext (.alloc x (n :: sh)) σ = .error err := by
        simp only [execS, hsz', hk', hk, bind, Except.bind]
      rw [execL_cons_error ext h1, execL_cons_error ext h2]
      exact trivial
    | ok u =>
      cases u
      have hal := execS_alloc ext x sh σ szs hsz hk
      have hal' := execS_alloc ext x (n :: sh) σ (nv :: szs) hsz' (hk'.trans hk)
      rw [execL_cons_ok ext hal, execL_cons_ok ext hal']
      have hprod : (nv :: szs).foldl (· * ·) 1 = nv * szs.foldl (· * ·) 1 := by
        simp only [List.foldl_cons]
        rw [expandDim_foldl_mul]
        simp
      have hdd : denseDims (nv :: szs) = (nv, szs.foldl (· * ·) 1) :: denseDims szs := rfl
      rw [hprod, hdd]
      have Mpos := checkSizes_prod_pos szs hk
      have hds := fun is o => viewOffset_dense szs is 0 o
      generalize szs.foldl (· * ·) 1 = M at Mpos hds ⊢
      have hevM : 0 ≤ ev * M := Int.mul_nonneg hev0 (by omega)
      have G : Geom ev nv M M.toNat (ev * M).toNat (denseDims szs) :=
        ⟨hev0, hev1, Int.toNat_of_nonneg (by omega), Int.toNat_of_nonneg hevM,
          fun is o h => by have := hds is o h; omega⟩
      have hK : (ev * M).toNat + M.toNat ≤ (nv * M).toNat := by
        have h1 : (ev + 1) * M ≤ nv * M :=
          Int.mul_le_mul_of_nonneg_right (by omega) (by omega)
        rw [Int.add_mul, Int.one_mul] at h1
        omega
      have hinit := exp_init σ hvo x M.toNat (nv * M).toNat (ev * M).toNat hK (denseDims szs)
        ((nv, M) :: denseDims szs)
      refine Lock.map (execL_expand ext G henv rest _ _ hok hinit (by
        rw [← he]; exact evalC_envOnly e henv σ _ (fun _ _ => rfl))) (fun t t' _ _ htt => ?_)
      exact (htt.leave_eq σ rfl).symm

theorem sim_eq_refl (σ : State V) : Sim Eq 0 0 (fun _ => False) σ σ :=
  ⟨rfl, Nat.zero_le _, rfl,
    fun b buf hb => ⟨buf, by rw [shiftB_zero]; exact hb, Forall₂.refl (fun _ => rfl) buf⟩,
    ViewsRel.refl 0 _ σ.views,
    Forall₂.refl (fun a => ⟨rfl, CfgRel.refl' (fun _ => rfl) a.2⟩) σ.cfg⟩

theorem forall₂_eq_eq {α : Type} {l l' : List α} (h : Forall₂ Eq l l') : l = l' := by
  induction h with
  | nil => rfl
  | cons h1 _ ih => rw [h1, ih]

/-- same layout, equal cells: the states are equal -/
theorem sim_eq_eq {σ σ' : State V} (h : Sim Eq 0 0 (fun _ => False) σ σ') : σ' = σ := by
  have hv := ViewsRel.eq_of_false h.views
  have henv := h.env
  have hheap : σ'.heap = σ.heap := by
    apply List.ext_getElem?
    intro b
    cases hb : σ.heap[b]? with
    | none => have := h.heap_none hb; rwa [shiftB_zero] at this
    | some buf =>
      obtain ⟨buf', h1, h2⟩ := h.bufs b buf hb
      rw [shiftB_zero] at h1
      rw [h1, forall₂_eq_eq h2]
  have hcfg : σ'.cfg = σ.cfg := by
    have := h.cfg
    generalize σ.cfg = c at this
    generalize σ'.cfg = c' at this
    induction this with
    | nil => rfl
    | @cons a b l l' hab _ ih =>
      obtain ⟨k1, v1⟩ := a
      obtain ⟨k2, v2⟩ := b
      obtain ⟨hk, hvv⟩ := hab
      simp only at hk hvv
      subst hk
      rw [ih]
      cases v1 <;> cases v2 <;> simp only [CfgRel] at hvv
      · subst hvv; rfl
      · subst hvv; rfl
  cases σ; cases σ'
  simp only at hv henv hheap hcfg
  subst hv henv hheap hcfg
  rfl

/-- the same from `Sim Eq`-related initial states (the form of `bind_expr_lock_eq`) -/
theorem expand_dim_lock_sim_partial (x : Sym) (sh : List Expr) (n e : Expr) (rest : List Stmt)
    (σ σ' : State V) (h0 : Sim Eq 0 0 (fun _ => False) σ σ') (hvo : ViewsOk σ)
    (hg : Rw.expandDimGuard n e (.alloc x sh :: rest) = true)
    (nv ev : Int) (hn : evalC σ n = .ok nv) (hnpos : 0 < nv)
    (he : evalC σ e = .ok ev) (hev0 : 0 ≤ ev) (hev1 : ev < nv) :
    Lock (Sim Eq 0 0 (fun _ => False)) (execB ext (.alloc x sh :: rest) σ)
      (execB ext (.alloc x (n :: sh) :: Rw.expandL x e rest) σ') := by
  have := sim_eq_eq h0
  subst this
  exact Lock.imp (expand_dim_lock_partial ext x sh n e rest σ' hvo hg nv ev hn hnpos he hev0 hev1)
    (fun a b hab => by subst hab; exact sim_eq_refl a)

end

/-! ### refinement between well-scoped states -/

/-- **expand_dim as a refinement between well-scoped states**; the semantic side condition (what
    `Check_IsPositiveExpr` and `Check_Bounds` are asked to establish) is required in every
    well-scoped state in which the original block succeeds -/
theorem expand_dim_refW_partial (x : Sym) (sh : List Expr) (n e : Expr) (rest : List Stmt)
    (hg : Rw.expandDimGuard n e (.alloc x sh :: rest) = true)
    (hsem : ∀ (V : Type) [DataAlg V] (ext : String → List V → V) (σ o : State V), ViewsOk σ →
      execB ext (.alloc x sh :: rest) σ = .ok o →
      ∃ nv ev, evalC σ n = .ok nv ∧ 0 < nv ∧ evalC σ e = .ok ev ∧ 0 ≤ ev ∧ ev < nv) :
    BlockRefW (.alloc x sh :: rest) (.alloc x (n :: sh) :: Rw.expandL x e rest) := by
  intro V _ ext s s' t hr ht
  obtain ⟨t1, ht1, hr1⟩ := BlockRefW.refl (.alloc x sh :: rest) V ext s s' t hr ht
  obtain ⟨nv, ev, h1, h2, h3, h4, h5⟩ := hsem V ext s' t1 hr.ok' ht1
  have hl := expand_dim_lock_partial ext x sh n e rest s' hr.ok' hg nv ev h1 h2 h3 h4 h5
  obtain ⟨t', ht', e'⟩ := hl.ok_left ht1
  subst e'
  exact ⟨t1, ht', hr1⟩

/-- the instance with a positive literal extent and a literal index in range -/
theorem expand_dim_refW_lits_partial (x : Sym) (sh : List Expr) (n e : Expr) (rest : List Stmt)
    (hg : Rw.expandDimGuard n e (.alloc x sh :: rest) = true)
    (hl : Rw.expandDimLits n e = true) :
    BlockRefW (.alloc x sh :: rest) (.alloc x (n :: sh) :: Rw.expandL x e rest) := by
  unfold Rw.expandDimLits at hl
  split at hl
  · rename_i nv ev
    simp only [Bool.and_eq_true, decide_eq_true_eq] at hl
    exact expand_dim_refW_partial x sh _ _ rest hg
      (fun V _ ext σ o _ _ => ⟨nv, ev, rfl, hl.1.1, rfl, hl.1.2, hl.2⟩)
  · cases hl

theorem Rw.expandDimChecked_sound (n e : Expr) :
    ∀ (ss r : List Stmt), Rw.expandDimChecked n e ss = some r → BlockRefW ss r := by
  intro ss r h
  simp only [Rw.expandDimChecked] at h
  split at h
  · rename_i hg
    simp only [Bool.and_eq_true] at hg
    cases ss with
    | nil => simp [Rw.expandDimGuard] at hg
    | cons a rest =>
      cases a with
      | alloc x sh =>
        simp only [Rw.expandDim] at h
        split at h
        · cases h
        · cases h
          exact expand_dim_refW_lits_partial x sh n e rest hg.1 hg.2
      | _ => simp [Rw.expandDimGuard] at hg
  · cases h

/-- **expand_dim anywhere in a procedure**: the guarded rewrite applied by `rewriteAt` at any
    statement address preserves the behaviour on well-scoped initial states -/
theorem expand_dim_anywhere_partial (n e : Expr) (path : Rw.Path) (nm : String)
    (args : List FnArg) (preds : List Expr) (body body' : List Stmt)
    (h : Rw.rewriteAt (Rw.expandDimChecked n e) path body = some body') :
    EquivOn WellScoped (fun _ => False) (.mk nm args preds body) (.mk nm args preds body') :=
  equivOn_of_blockRefW (rewriteAt_refW _ (Rw.expandDimChecked_sound n e) path body body' h)
    nm args preds

end Exo

/-! ### non-vacuity, and an index out of range -/
namespace Exo.ExpandExamples
open Exo

def sT : Sym := ⟨"t", 9⟩
def sA : Sym := ⟨"a", 1⟩
def sY : Sym := ⟨"y", 2⟩

def lit (k : Int) : Expr := .lit (.int k)

/-- `t : R ; t = a[0] ; y[0] = t` -/
def before : List Stmt :=
  [.alloc sT [], .assign sT [] (.read sA [lit 0]), .assign sY [lit 0] (.read sT [])]

/-- `t : R[4] ; t[2] = a[0] ; y[0] = t[2]` -/
def after : List Stmt :=
  [.alloc sT [lit 4], .assign sT [lit 2] (.read sA [lit 0]), .assign sY [lit 0] (.read sT [lit 2])]

/-- `t : R[4] ; t[4] = a[0] ; y[0] = t[4]` -/
def afterBad : List Stmt :=
  [.alloc sT [lit 4], .assign sT [lit 4] (.read sA [lit 0]), .assign sY [lit 0] (.read sT [lit 4])]

def σ0 : State Int :=
  { env := [], views := [(sA, ⟨0, 0, [(1, 1)]⟩), (sY, ⟨1, 0, [(1, 1)]⟩)],
    heap := [[some 7], [none]], cfg := [] }

theorem ex_guard : Rw.expandDimGuard (lit 4) (lit 2) before = true := by decide

theorem ex_checked : Rw.expandDimChecked (lit 4) (lit 2) before = some after := by rfl

example : (execB (fun _ _ => (0 : Int)) before σ0).toOption.map (·.heap)
    = some [[some 7], [some 7]] := by decide

example : (execB (fun _ _ => (0 : Int)) after σ0).toOption.map (·.heap)
    = some [[some 7], [some 7]] := by decide

example : BlockRefW before after :=
  Rw.expandDimChecked_sound (lit 4) (lit 2) before after ex_checked

example : EquivOn WellScoped (fun _ => False) (.mk "p" [] [] before) (.mk "p" [] [] after) :=
  expand_dim_anywhere_partial (lit 4) (lit 2) [.body 0] "p" [] [] before after (by rfl)

/-- the unguarded shape model produces `afterBad` for the index `4` … -/
example : Rw.expandDim (lit 4) (lit 4) before = some afterBad := by rfl

/-- … and the guarded rewrite refuses it -/
example : Rw.expandDimChecked (lit 4) (lit 4) before = none := by decide

/-- with the index out of range (`e = n = 4`) the expanded block fails (`oob`) where the original
    succeeds: the range condition on `e` is necessary -/
theorem expand_dim_out_of_range_unsound : ¬ BlockRefW before afterBad := by
  intro h
  have h1 : (execB (fun _ _ => (0 : Int)) before σ0).toOption.isSome = true := by decide
  have h2 : (execB (fun _ _ => (0 : Int)) afterBad σ0).toOption.isSome = false := by decide
  cases ho : execB (fun _ _ => (0 : Int)) before σ0 with
  | error e => rw [ho] at h1; simp [Except.toOption] at h1
  | ok o =>
    obtain ⟨o', ho', _⟩ := h Int (fun _ _ => 0) σ0 σ0 o
      (WRef.refl (by unfold ViewsOk; decide)) ho
    rw [ho'] at h2
    simp [Except.toOption] at h2

end Exo.ExpandExamples

/-! ## second version: windows of the expanded buffer -/
namespace Exo.Rw
open Exo

/-- the guard of the second version (`okLW` instead of `okL`) -/
def expandDimGuardW (n e : Expr) : List Stmt → Bool
  | .alloc x _ :: rest => e.envOnly && okLW x e rest
  | _ => false

def expandDimCheckedW (n e : Expr) : Local := fun ss =>
  if expandDimGuardW n e ss && expandDimLits n e then expandDim n e ss else none

end Exo.Rw

namespace Exo
variable {V : Type}

theorem exp_initW (σ : State V) (hvo : ViewsOk σ) (x : Sym) (m K δ : Nat) (hK : δ + m ≤ K)
    (ds ds' : List (Int × Int)) :
    ExpW (fun y => y = x) σ.heap.length m δ
      { buf := σ.heap.length, off := 0, dims := ds } { buf := σ.heap.length, off := 0, dims := ds' }
      { σ with heap := σ.heap ++ [List.replicate m none],
               views := (x, { buf := σ.heap.length, off := 0, dims := ds }) :: σ.views }
      { σ with heap := σ.heap ++ [List.replicate K none],
               views := (x, { buf := σ.heap.length, off := 0, dims := ds' }) :: σ.views } := by
  have h0 := exp_init σ hvo x m K δ hK ds ds'
  refine ⟨rfl, rfl, h0.heap, ?_, h0.px⟩
  intro y hy
  have hy' : ¬ y = x := hy
  simp only [lookupSym, if_neg hy']
  cases hl : lookupSym y σ.views with
  | none => exact trivial
  | some v =>
    have := hvo (y, v) (lookupSym_mem hl)
    exact Or.inl ⟨by simp only [] at this; omega, rfl⟩

section
variable [DataAlg V] (ext : String → List V → V)

/-- **expand_dim, lock step, second version** (windows of `x` allowed) -/
theorem expand_dim_lock_win_partial (x : Sym) (sh : List Expr) (n e : Expr) (rest : List Stmt)
    (σ : State V) (hvo : ViewsOk σ)
    (hg : Rw.expandDimGuardW n e (.alloc x sh :: rest) = true)
    (nv ev : Int) (hn : evalC σ n = .ok nv) (hnpos : 0 < nv)
    (he : evalC σ e = .ok ev) (hev0 : 0 ≤ ev) (hev1 : ev < nv) :
    Lock Eq (execB ext (.alloc x sh :: rest) σ)
      (execB ext (.alloc x (n :: sh) :: Rw.expandL x e rest) σ) := by
  simp only [Rw.expandDimGuardW, Bool.and_eq_true] at hg
  obtain ⟨henv, hok⟩ := hg
  unfold execB
  cases hsz : evalCs σ sh with
  | error err =>
    have h1 : execS ext (.alloc x sh) σ = .error err := by
      simp only [execS, hsz, bind, Except.bind]
    have h2 : execS ext (.alloc x (n :: sh)) σ = .error err := by
      simp only [execS, evalCs, hn, hsz, bind, Except.bind]
    rw [execL_cons_error ext h1, execL_cons_error ext h2]
    exact trivial
  | ok szs =>
    have hsz' : evalCs σ (n :: sh) = .ok (nv :: szs) := by
      simp only [evalCs, hn, hsz, bind, Except.bind, pure, Except.pure]
    have hk' : checkSizes (nv :: szs) = checkSizes szs := by
      simp only [checkSizes]
      rw [if_neg (by omega)]
    cases hk : checkSizes szs with
    | error err =>
      have h1 : execS ext (.alloc x sh) σ = .error err := by
        simp only [execS, hsz, hk, bind, Except.bind]
      have h2 : execS ext (.alloc x (n :: sh)) σ = .error err := by
        simp only [execS, hsz', hk', hk, bind, Except.bind]
      rw [execL_cons_error ext h1, execL_cons_error ext h2]
      exact trivial
    | ok u =>
      cases u
      have hal := execS_alloc ext x sh σ szs hsz hk
      have hal' := execS_alloc ext x (n :: sh) σ (nv :: szs) hsz' (hk'.trans hk)
      rw [execL_cons_ok ext hal, execL_cons_ok ext hal']
      have hprod : (nv :: szs).foldl (· * ·) 1 = nv * szs.foldl (· * ·) 1 := by
        simp only [List.foldl_cons]
        rw [expandDim_foldl_mul]
        simp
      have hdd : denseDims (nv :: szs) = (nv, szs.foldl (· * ·) 1) :: denseDims szs := rfl
      rw [hprod, hdd]
      have Mpos := checkSizes_prod_pos szs hk
      have hds := fun is o => viewOffset_dense szs is 0 o
      generalize szs.foldl (· * ·) 1 = M at Mpos hds ⊢
      have hevM : 0 ≤ ev * M := Int.mul_nonneg hev0 (by omega)
      have G : Geom ev nv M M.toNat (ev * M).toNat (denseDims szs) :=
        ⟨hev0, hev1, Int.toNat_of_nonneg (by omega), Int.toNat_of_nonneg hevM,
          fun is o h => by have := hds is o h; omega⟩
      have hK : (ev * M).toNat + M.toNat ≤ (nv * M).toNat := by
        have h1 : (ev + 1) * M ≤ nv * M :=
          Int.mul_le_mul_of_nonneg_right (by omega) (by omega)
        rw [Int.add_mul, Int.one_mul] at h1
        omega
      have hinit := exp_initW σ hvo x M.toNat (nv * M).toNat (ev * M).toNat hK (denseDims szs)
        ((nv, M) :: denseDims szs)
      refine Lock.map (execL_expandW ext G henv rest _ _ hok hinit (by
        rw [← he]; exact evalC_envOnly e henv σ _ (fun _ _ => rfl))) (fun t t' _ _ htt => ?_)
      exact (htt.leave_eq σ rfl).symm

theorem expand_dim_lock_sim_win_partial (x : Sym) (sh : List Expr) (n e : Expr)
    (rest : List Stmt) (σ σ' : State V) (h0 : Sim Eq 0 0 (fun _ => False) σ σ') (hvo : ViewsOk σ)
    (hg : Rw.expandDimGuardW n e (.alloc x sh :: rest) = true)
    (nv ev : Int) (hn : evalC σ n = .ok nv) (hnpos : 0 < nv)
    (he : evalC σ e = .ok ev) (hev0 : 0 ≤ ev) (hev1 : ev < nv) :
    Lock (Sim Eq 0 0 (fun _ => False)) (execB ext (.alloc x sh :: rest) σ)
      (execB ext (.alloc x (n :: sh) :: Rw.expandL x e rest) σ') := by
  have := sim_eq_eq h0
  subst this
  exact Lock.imp
    (expand_dim_lock_win_partial ext x sh n e rest σ' hvo hg nv ev hn hnpos he hev0 hev1)
    (fun a b hab => by subst hab; exact sim_eq_refl a)

end

theorem expand_dim_refW_win_partial (x : Sym) (sh : List Expr) (n e : Expr) (rest : List Stmt)
    (hg : Rw.expandDimGuardW n e (.alloc x sh :: rest) = true)
    (hsem : ∀ (V : Type) [DataAlg V] (ext : String → List V → V) (σ o : State V), ViewsOk σ →
      execB ext (.alloc x sh :: rest) σ = .ok o →
      ∃ nv ev, evalC σ n = .ok nv ∧ 0 < nv ∧ evalC σ e = .ok ev ∧ 0 ≤ ev ∧ ev < nv) :
    BlockRefW (.alloc x sh :: rest) (.alloc x (n :: sh) :: Rw.expandL x e rest) := by
  intro V _ ext s s' t hr ht
  obtain ⟨t1, ht1, hr1⟩ := BlockRefW.refl (.alloc x sh :: rest) V ext s s' t hr ht
  obtain ⟨nv, ev, h1, h2, h3, h4, h5⟩ := hsem V ext s' t1 hr.ok' ht1
  have hl := expand_dim_lock_win_partial ext x sh n e rest s' hr.ok' hg nv ev h1 h2 h3 h4 h5
  obtain ⟨t', ht', e'⟩ := hl.ok_left ht1
  subst e'
  exact ⟨t1, ht', hr1⟩

theorem expand_dim_refW_lits_win_partial (x : Sym) (sh : List Expr) (n e : Expr)
    (rest : List Stmt) (hg : Rw.expandDimGuardW n e (.alloc x sh :: rest) = true)
    (hl : Rw.expandDimLits n e = true) :
    BlockRefW (.alloc x sh :: rest) (.alloc x (n :: sh) :: Rw.expandL x e rest) := by
  unfold Rw.expandDimLits at hl
  split at hl
  · rename_i nv ev
    simp only [Bool.and_eq_true, decide_eq_true_eq] at hl
    exact expand_dim_refW_win_partial x sh _ _ rest hg
      (fun V _ ext σ o _ _ => ⟨nv, ev, rfl, hl.1.1, rfl, hl.1.2, hl.2⟩)
  · cases hl

theorem Rw.expandDimCheckedW_sound (n e : Expr) :
    ∀ (ss r : List Stmt), Rw.expandDimCheckedW n e ss = some r → BlockRefW ss r := by
  intro ss r h
  simp only [Rw.expandDimCheckedW] at h
  split at h
  · rename_i hg
    simp only [Bool.and_eq_true] at hg
    cases ss with
    | nil => simp [Rw.expandDimGuardW] at hg
    | cons a rest =>
      cases a with
      | alloc x sh =>
        simp only [Rw.expandDim] at h
        split at h
        · cases h
        · cases h
          exact expand_dim_refW_lits_win_partial x sh n e rest hg.1 hg.2
      | _ => simp [Rw.expandDimGuardW] at hg
  · cases h

theorem expand_dim_anywhere_win_partial (n e : Expr) (path : Rw.Path) (nm : String)
    (args : List FnArg) (preds : List Expr) (body body' : List Stmt)
    (h : Rw.rewriteAt (Rw.expandDimCheckedW n e) path body = some body') :
    EquivOn WellScoped (fun _ => False) (.mk nm args preds body) (.mk nm args preds body') :=
  equivOn_of_blockRefW (rewriteAt_refW _ (Rw.expandDimCheckedW_sound n e) path body body' h)
    nm args preds

/-! ### the first guard implies the second -/

theorem okV_of_notIn {x : Sym} : ∀ (a : Expr), (∀ y ∈ a.names, y ≠ x) → Rw.okV x a = true
  | .read y idx, hn => by
    have hy : (y == x) = false := by simpa using hn y (by simp [Expr.names])
    simp only [Rw.okV, hy, Bool.false_and, Bool.not_false, Bool.and_true]
    exact Rw.notIn_iff.2 (fun z hz => hn z (by simp [Expr.names, hz]))
  | .win y acc, hn => by
    simp only [Rw.okV]
    exact Rw.notIn_iff.2 (fun z hz => hn z (by simp [Expr.names, hz]))
  | .lit _, _ => rfl
  | .usub a, hn => by
    simp only [Rw.okV]; exact Rw.notIn_iff.2 (fun z hz => hn z (by simpa [Expr.names] using hz))
  | .binop _ a b, hn => by
    simp only [Rw.okV]; exact Rw.notIn_iff.2 (fun z hz => hn z (by simpa [Expr.names] using hz))
  | .extern _ args, hn => by
    simp only [Rw.okV]; exact Rw.notIn_iff.2 (fun z hz => hn z (by simpa [Expr.names] using hz))
  | .stride y _, hn => by
    simpa [Rw.okV] using hn y (by simp [Expr.names])
  | .readcfg _ _, _ => rfl

theorem okVs_of_notIn {x : Sym} : ∀ (as : List Expr), (∀ y ∈ namesEs as, y ≠ x) →
    Rw.okVs x as = true
  | [], _ => rfl
  | a :: r, hn => by
    simp only [Rw.okVs, Bool.and_eq_true]
    exact ⟨okV_of_notIn a (fun z hz => hn z (by simp [namesEs, hz])),
      okVs_of_notIn r (fun z hz => hn z (by simp [namesEs, hz]))⟩

mutual
theorem okSW_of_okS {x : Sym} {e : Expr} : ∀ (a : Stmt), Rw.okS x e a = true →
    Rw.okSW x e a = true
  | .assign _ _ _, h => by simpa only [Rw.okS, Rw.okSW] using h
  | .reduce _ _ _, h => by simpa only [Rw.okS, Rw.okSW] using h
  | .writecfg _ _ _ _, h => by simpa only [Rw.okS, Rw.okSW] using h
  | .pass, _ => rfl
  | .ite c t el, h => by
    simp only [Rw.okS, Bool.and_eq_true] at h
    simp only [Rw.okSW, Bool.and_eq_true]
    exact ⟨⟨h.1.1, okLW_of_okL t h.1.2⟩, okLW_of_okL el h.2⟩
  | .loop i lo hi b _, h => by
    simp only [Rw.okS, Bool.and_eq_true] at h
    simp only [Rw.okSW, Bool.and_eq_true]
    exact ⟨h.1, okLW_of_okL b h.2⟩
  | .alloc _ _, h => by simpa only [Rw.okS, Rw.okSW] using h
  | .free _, _ => rfl
  | .call _ args, h => by
    simp only [Rw.okS] at h
    simp only [Rw.okSW]
    exact okVs_of_notIn args (Rw.notIn_iff.1 h)
  | .window y rhs, h => by
    simp only [Rw.okS, Bool.and_eq_true] at h
    simp only [Rw.okSW, Bool.and_eq_true]
    exact ⟨h.1, okV_of_notIn rhs (Rw.notIn_iff.1 h.2)⟩
theorem okLW_of_okL {x : Sym} {e : Expr} : ∀ (ss : List Stmt), Rw.okL x e ss = true →
    Rw.okLW x e ss = true
  | [], _ => rfl
  | a :: r, h => by
    simp only [Rw.okL, Bool.and_eq_true] at h
    simp only [Rw.okLW, Bool.and_eq_true]
    exact ⟨okSW_of_okS a h.1, okLW_of_okL r h.2⟩
end

theorem Rw.expandDimGuard_le (n e : Expr) (ss : List Stmt)
    (h : Rw.expandDimGuard n e ss = true) : Rw.expandDimGuardW n e ss = true := by
  cases ss with
  | nil => simp [Rw.expandDimGuard] at h
  | cons a rest =>
    cases a with
    | alloc x sh =>
      simp only [Rw.expandDimGuard, Bool.and_eq_true] at h
      simp only [Rw.expandDimGuardW, Bool.and_eq_true]
      exact ⟨h.1, okLW_of_okL rest h.2⟩
    | _ => simp [Rw.expandDimGuard] at h

end Exo

namespace Exo.ExpandExamples
open Exo

def sW : Sym := ⟨"w", 10⟩
def sZ : Sym := ⟨"z", 11⟩

/-- `def wr(z : [R][2]): z[1] = 5.0` -/
def wr : Proc := .mk "wr" [⟨sZ, .tensor [lit 2] true⟩] [] [.assign sZ [lit 1] (.lit (.data 5 1))]

/-- `t : R[3] ; w = t[0:2] ; w[1] = a[0] ; wr(t[1:3]) ; y[0] = t[1] + t[2]` -/
def beforeW : List Stmt :=
  [.alloc sT [lit 3],
   .window sW (.win sT [.interval (lit 0) (lit 2)]),
   .assign sW [lit 1] (.read sA [lit 0]),
   .call wr [.win sT [.interval (lit 1) (lit 3)]],
   .assign sY [lit 0] (.binop .add (.read sT [lit 1]) (.read sT [lit 2]))]

/-- `t : R[4, 3] ; w = t[2, 0:2] ; w[1] = a[0] ; wr(t[2, 1:3]) ; y[0] = t[2, 1] + t[2, 2]` -/
def afterW : List Stmt :=
  [.alloc sT [lit 4, lit 3],
   .window sW (.win sT [.point (lit 2), .interval (lit 0) (lit 2)]),
   .assign sW [lit 1] (.read sA [lit 0]),
   .call wr [.win sT [.point (lit 2), .interval (lit 1) (lit 3)]],
   .assign sY [lit 0] (.binop .add (.read sT [lit 2, lit 1]) (.read sT [lit 2, lit 2]))]

theorem ex_checkedW : Rw.expandDimCheckedW (lit 4) (lit 2) beforeW = some afterW := by rfl

/-- the first guard refuses this block (it has windows of `t`) -/
example : Rw.expandDimChecked (lit 4) (lit 2) beforeW = none := by rfl

example : (execB (fun _ _ => (0 : Int)) beforeW σ0).toOption.map (·.heap)
    = some [[some 7], [some 12]] := by decide

example : (execB (fun _ _ => (0 : Int)) afterW σ0).toOption.map (·.heap)
    = some [[some 7], [some 12]] := by decide

example : BlockRefW beforeW afterW :=
  Rw.expandDimCheckedW_sound (lit 4) (lit 2) beforeW afterW ex_checkedW

/-! `stride(x, d)` is NOT renumbered by the rewrite (a recorded defect of the real primitive, mirrored
by `Rw.expandE`): both guards refuse it, and rightly so -/

/-- `t : R[2, 3] ; c.f = stride(t, 0)` -/
def beforeS : List Stmt :=
  [.alloc sT [lit 2, lit 3], .writecfg "c" "f" (.stride sT 0) false]

/-- `t : R[4, 2, 3] ; c.f = stride(t, 0)` -/
def afterS : List Stmt :=
  [.alloc sT [lit 4, lit 2, lit 3], .writecfg "c" "f" (.stride sT 0) false]

example : Rw.expandDim (lit 4) (lit 2) beforeS = some afterS := by rfl
example : Rw.expandDimChecked (lit 4) (lit 2) beforeS = none := by rfl
example : Rw.expandDimCheckedW (lit 4) (lit 2) beforeS = none := by rfl

def ctrlOf : Option (CfgVal Int) → Option Int
  | some (.ctrl n) => some n
  | _ => none

/-- the configuration field receives the stride 3 in the original and 6 in the expanded block -/
theorem expand_dim_stride_unsound : ¬ BlockRefW beforeS afterS := by
  intro h
  have h1 : (execB (fun _ _ => (0 : Int)) beforeS σ0).toOption.map
      (fun o => ctrlOf (lookupCfg ("c", "f") o.cfg)) = some (some 3) := by decide
  have h2 : (execB (fun _ _ => (0 : Int)) afterS σ0).toOption.map
      (fun o => ctrlOf (lookupCfg ("c", "f") o.cfg)) = some (some 6) := by decide
  cases ho : execB (fun _ _ => (0 : Int)) beforeS σ0 with
  | error e => rw [ho] at h1; simp [Except.toOption] at h1
  | ok o =>
    obtain ⟨o', ho', r⟩ := h Int (fun _ _ => 0) σ0 σ0 o
      (WRef.refl (by unfold ViewsOk; decide)) ho
    rw [ho] at h1
    rw [ho'] at h2
    simp only [Except.toOption, Option.map_some, Option.some.injEq] at h1 h2
    cases hv : lookupCfg ("c", "f") o.cfg with
    | none => rw [hv] at h1; simp [ctrlOf] at h1
    | some v =>
      obtain ⟨v', hv', hr⟩ := r.ref.cfgLookup ("c", "f") v hv
      rw [hv] at h1
      rw [hv'] at h2
      cases v with
      | data a => simp [ctrlOf] at h1
      | ctrl a =>
        cases v' with
        | data b => exact hr
        | ctrl b =>
          have hab : a = b := hr
          simp only [ctrlOf, Option.some.injEq] at h1 h2
          omega

end Exo.ExpandExamples
