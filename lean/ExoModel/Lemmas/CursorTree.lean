/-
  Lemmas about labelled trees: `get?`, `rewrite`, and the normal form `modBlock` of every
  block-level edit (the child list `a` of the node at path `E` is replaced by `f` of itself,
  all nodes on the spine are `update`d).
-/
import ExoModel.Cursor

namespace Exo.Cursor

namespace Tree

@[simp] theorem label_setChildren (t : Tree) (a : Attr) (l : List Tree) :
    (t.setChildren a l).label = t.label := by
  cases t; cases a <;> rfl

@[simp] theorem kind_setChildren (t : Tree) (a : Attr) (l : List Tree) :
    (t.setChildren a l).kind = t.kind := by
  cases t; cases a <;> rfl

@[simp] theorem children_setChildren_same (t : Tree) (a : Attr) (l : List Tree) :
    (t.setChildren a l).children a = l := by
  cases t; cases a <;> rfl

theorem children_setChildren_ne (t : Tree) {a b : Attr} (h : b ≠ a) (l : List Tree) :
    (t.setChildren a l).children b = t.children b := by
  cases t; cases a <;> cases b <;> first | rfl | exact absurd rfl h

theorem children_setChildren (t : Tree) (a b : Attr) (l : List Tree) :
    (t.setChildren a l).children b = if b = a then l else t.children b := by
  by_cases h : b = a
  · subst h; simp
  · simp [h, children_setChildren_ne t h]

@[simp] theorem setChildren_children (t : Tree) (a : Attr) : t.setChildren a (t.children a) = t := by
  cases t; cases a <;> rfl

@[simp] theorem get?_nil (t : Tree) : t.get? [] = some t := rfl

theorem get?_cons (t : Tree) (a : Attr) (i : Nat) (p : Path) :
    t.get? ((a, i) :: p) = ((t.children a)[i]?).bind (fun c => c.get? p) := by
  simp only [get?]
  cases (t.children a)[i]? <;> rfl

theorem get?_append (t : Tree) (p q : Path) :
    t.get? (p ++ q) = (t.get? p).bind (fun n => n.get? q) := by
  induction p generalizing t with
  | nil => simp
  | cons s p ih =>
    obtain ⟨a, i⟩ := s
    simp only [List.cons_append, get?_cons]
    cases (t.children a)[i]? with
    | none => simp
    | some c => simp [ih]

theorem get?_append_of_get? {t n : Tree} {p : Path} (h : t.get? p = some n) (q : Path) :
    t.get? (p ++ q) = n.get? q := by
  simp [get?_append, h]

/-- a prefix of a valid path is valid -/
theorem get?_prefix_isSome {t : Tree} {p q : Path} (h : (t.get? (p ++ q)).isSome) :
    (t.get? p).isSome := by
  rw [get?_append] at h
  cases hp : t.get? p with
  | none => simp [hp] at h
  | some n => simp

/-- the normal form of the block-level edits -/
def modBlock (f : List Tree → List Tree) (a : Attr) : Tree → Path → Tree
  | t, [] => t.setChildren a (f (t.children a))
  | t, (b, i) :: p =>
    match (t.children b)[i]? with
    | some c => t.setChildren b ((t.children b).set i (c.modBlock f a p))
    | none => t

@[simp] theorem modBlock_nil (f : List Tree → List Tree) (a : Attr) (t : Tree) :
    t.modBlock f a [] = t.setChildren a (f (t.children a)) := rfl

theorem modBlock_cons_of_get {f : List Tree → List Tree} {a b : Attr} {t c : Tree} {i : Nat} {p : Path}
    (h : (t.children b)[i]? = some c) :
    t.modBlock f a ((b, i) :: p) = t.setChildren b ((t.children b).set i (c.modBlock f a p)) := by
  simp [modBlock, h]

@[simp] theorem label_modBlock (f : List Tree → List Tree) (a : Attr) (t : Tree) (p : Path) :
    (t.modBlock f a p).label = t.label := by
  cases p with
  | nil => simp
  | cons s p =>
    obtain ⟨b, i⟩ := s
    simp only [modBlock]
    cases (t.children b)[i]? <;> simp

@[simp] theorem kind_modBlock (f : List Tree → List Tree) (a : Attr) (t : Tree) (p : Path) :
    (t.modBlock f a p).kind = t.kind := by
  cases p with
  | nil => simp
  | cons s p =>
    obtain ⟨b, i⟩ := s
    simp only [modBlock]
    cases (t.children b)[i]? <;> simp

theorem take_append_cons_drop_eq_set {α} (l : List α) (i : Nat) (x c : α) (h : l[i]? = some c) :
    l.take i ++ [x] ++ l.drop (i + 1) = l.set i x := by
  have hi : i < l.length := by
    rcases Nat.lt_or_ge i l.length with h' | h'
    · exact h'
    · simp [List.getElem?_eq_none h'] at h
  apply List.ext_getElem?
  intro k
  simp only [List.append_assoc, List.getElem?_append, List.length_take, Nat.min_eq_left (Nat.le_of_lt hi),
    List.getElem?_set, List.getElem?_take, List.getElem?_drop, List.length_cons, List.length_nil]
  by_cases h1 : k < i
  · simp [h1, Nat.ne_of_gt h1]
  · by_cases h2 : k = i
    · subst h2; simp [hi]
    · have : k - i - 1 + (i + 1) = k := by omega
      have h3 : ¬ (k - i < 0 + 1) := by omega
      have h4 : i ≠ k := fun h => h2 h.symm
      simp [h1, h3, h4]
      congr 1
      omega

/-- `_rewrite` with an `update` at the anchor is `modBlock` -/
theorem rewrite_update_eq_modBlock (f : List Tree → List Tree) (a : Attr) (t : Tree) (p : Path)
    (hv : (t.get? p).isSome) :
    t.rewrite (fun n => [n.setChildren a (f (n.children a))]) p = [t.modBlock f a p] := by
  induction p generalizing t with
  | nil => rfl
  | cons s p ih =>
    obtain ⟨b, i⟩ := s
    simp only [get?_cons] at hv
    cases hc : (t.children b)[i]? with
    | none => simp [hc] at hv
    | some c =>
      simp only [hc, Option.bind_some] at hv
      simp only [rewrite, hc, modBlock, ih c hv]
      rw [take_append_cons_drop_eq_set _ _ _ _ hc]

/-- subtree at the edited node after `modBlock` -/
theorem get?_modBlock_self {f : List Tree → List Tree} {a : Attr} {t n : Tree} {E : Path}
    (h : t.get? E = some n) :
    (t.modBlock f a E).get? E = some (n.setChildren a (f (n.children a))) := by
  induction E generalizing t with
  | nil => simp at h; subst h; simp
  | cons s E ih =>
    obtain ⟨b, i⟩ := s
    rw [get?_cons] at h
    cases hc : (t.children b)[i]? with
    | none => simp [hc] at h
    | some c =>
      simp only [hc, Option.bind_some] at h
      rw [modBlock_cons_of_get hc, get?_cons]
      have hi : i < (t.children b).length := by
        rcases Nat.lt_or_ge i (t.children b).length with h' | h'
        · exact h'
        · simp [List.getElem?_eq_none h'] at hc
      simp [hi, ih h]

/-- paths through the edited node: look into the new node -/
theorem get?_modBlock_append {f : List Tree → List Tree} {a : Attr} {t n : Tree} {E : Path}
    (h : t.get? E = some n) (s : Path) :
    (t.modBlock f a E).get? (E ++ s) = (n.setChildren a (f (n.children a))).get? s := by
  rw [get?_append, get?_modBlock_self h]; rfl

/-- paths that are a prefix of the edit path: same label (the node was `update`d) -/
theorem get?_modBlock_prefix {f : List Tree → List Tree} {a : Attr} {t n : Tree} {p s : Path}
    (h : t.get? p = some n) :
    (t.modBlock f a (p ++ s)).get? p = some (n.modBlock f a s) := by
  induction p generalizing t with
  | nil => simp at h; subst h; simp
  | cons x p ih =>
    obtain ⟨b, i⟩ := x
    rw [get?_cons] at h
    cases hc : (t.children b)[i]? with
    | none => simp [hc] at h
    | some c =>
      simp only [hc, Option.bind_some] at h
      rw [List.cons_append, modBlock_cons_of_get hc, get?_cons]
      have hi : i < (t.children b).length := by
        rcases Nat.lt_or_ge i (t.children b).length with h' | h'
        · exact h'
        · simp [List.getElem?_eq_none h'] at hc
      simp [hi, ih h]

/-- paths that leave the edit path: untouched -/
theorem get?_modBlock_diverge {f : List Tree → List Tree} {a : Attr} (t : Tree) (c : Path) (x y : Step)
    (p E : Path) (hxy : x ≠ y) :
    (t.modBlock f a (c ++ y :: E)).get? (c ++ x :: p) = t.get? (c ++ x :: p) := by
  induction c generalizing t with
  | nil =>
    obtain ⟨b, i⟩ := y
    obtain ⟨b', i'⟩ := x
    simp only [List.nil_append, modBlock]
    cases hc : (t.children b)[i]? with
    | none => rfl
    | some ch =>
      rw [get?_cons, get?_cons, children_setChildren]
      by_cases hb : b' = b
      · subst hb
        have hne : i ≠ i' := by
          intro h; subst h; exact hxy rfl
        simp [hne]
      · simp [hb]
  | cons z c ih =>
    obtain ⟨b, i⟩ := z
    simp only [List.cons_append, modBlock]
    cases hc : (t.children b)[i]? with
    | none => rfl
    | some ch =>
      rw [get?_cons, get?_cons, children_setChildren_same]
      have hi : i < (t.children b).length := by
        rcases Nat.lt_or_ge i (t.children b).length with h' | h'
        · exact h'
        · simp [List.getElem?_eq_none h'] at hc
      have he : (t.children b)[i] = ch := by
        have := List.getElem?_eq_getElem hi
        rw [hc] at this
        exact (Option.some.inj this).symm
      simp [hi, he, ih ch]

/-- validity of the edit path is kept -/
theorem get?_modBlock_isSome {f : List Tree → List Tree} {a : Attr} {t : Tree} {E : Path}
    (h : (t.get? E).isSome) : ((t.modBlock f a E).get? E).isSome := by
  cases hn : t.get? E with
  | none => simp [hn] at h
  | some n => simp [get?_modBlock_self hn]

end Tree

/-! ### how a path relates to an edit position -/

/-- every path is a prefix of `E`, goes through `E`, or leaves it -/
theorem path_trichotomy (p E : Path) :
    (∃ s, p = E ++ s) ∨ (∃ s, s ≠ [] ∧ E = p ++ s) ∨
    (∃ c x y p' E', x ≠ y ∧ p = c ++ x :: p' ∧ E = c ++ y :: E') := by
  induction p generalizing E with
  | nil =>
    cases E with
    | nil => exact Or.inl ⟨[], rfl⟩
    | cons y E => exact Or.inr (Or.inl ⟨y :: E, by simp, rfl⟩)
  | cons x p ih =>
    cases E with
    | nil => exact Or.inl ⟨x :: p, rfl⟩
    | cons y E =>
      by_cases hxy : x = y
      · subst hxy
        rcases ih E with ⟨s, hs⟩ | ⟨s, hs, he⟩ | ⟨c, x', y', p', E', hne, hp, hE⟩
        · exact Or.inl ⟨s, by simp [hs]⟩
        · exact Or.inr (Or.inl ⟨s, hs, by simp [he]⟩)
        · exact Or.inr (Or.inr ⟨x :: c, x', y', p', E', hne, by simp [hp], by simp [hE]⟩)
      · exact Or.inr (Or.inr ⟨[], x, y, p, E, hxy, rfl, rfl⟩)

end Exo.Cursor
