/-
  Lemmas for C02 wave 3 (calls), part 3: `Rep` at the entry of the callee, and the static /
  semantic side conditions on call sites (`CallsOK`).
-/
import ExoModel.Lemmas.CSimCallee

namespace Exo.CompileS
open Exo Exo.CIndex Exo.CSem
open Exo.Range (IExpr Op Val Inside)

variable {V : Type}

/-- what the simulation needs of a callee's signature (true of front-end output): distinct formal
    names, declared shapes are index arithmetic over earlier formals, the body's binders are
    distinct, are not formals, and no stride assertion is about them -/
structure FormalsOK (fargs : List FnArg) (preds : List Expr) (body : List Stmt) : Prop where
  nodup : (fargs.map (·.name)).Nodup
  shapesB : (initTyp fargs []).all (fun p => match p.2 with
    | .tensor sh => sh.all noOther
    | _ => true) = true
  bnodup : (bindersL body).Nodup
  bfresh : ∀ b ∈ bindersL body, b ∉ fargs.map (·.name) ∧ knownOf b (initKnown preds []) = []

theorem FormalsOK.shapes {fargs : List FnArg} {preds : List Expr} {body : List Stmt}
    (h : FormalsOK fargs preds body) (x : Sym) (sh : List IExpr)
    (hl : lookupSym x (initTyp fargs []) = some (.tensor sh)) : ∀ e ∈ sh, noOther e = true := by
  have := List.all_eq_true.1 h.shapesB _ (lookup_mem hl)
  simp only at this
  exact fun e he => List.all_eq_true.1 this e he

/-- every control formal is bound after `bindArgs` -/
def CtrlBound (fargs : List FnArg) (ce : List (Sym × Int)) : Prop :=
  ∀ fa ∈ fargs, ∀ k, fa.ty = .ctrl k → (lookupSym fa.name ce).isSome = true

theorem bindArgs_bound {σ : State V} : ∀ (fs : List FnArg) (as : List Expr)
    {ce ce' : List (Sym × Int)} {cv cv' : List (Sym × View)},
    bindArgs σ fs as ce cv = .ok (ce', cv') →
    CtrlBound fs ce' ∧ ∀ x, (lookupSym x ce).isSome = true → (lookupSym x ce').isSome = true
  | [], [], ce, ce', cv, cv', h => by
      simp only [bindArgs, pure, Except.pure, Except.ok.injEq, Prod.mk.injEq] at h
      rw [← h.1]; exact ⟨fun fa hfa => (by cases hfa), fun _ hx => hx⟩
  | [], _ :: _, _, _, _, _, h => by simp [bindArgs, throw, throwThe, MonadExceptOf.throw] at h
  | _ :: _, [], _, _, _, _, h => by simp [bindArgs, throw, throwThe, MonadExceptOf.throw] at h
  | ⟨x, ty⟩ :: r, e :: es, ce, ce', cv, cv', h => by
      cases ty with
      | ctrl kd =>
          simp only [bindArgs] at h
          obtain ⟨n, _, h⟩ := bind_ok h
          have h' : bindArgs σ r es ((x, n) :: ce) cv = .ok (ce', cv') := by
            by_cases hle : kd = .size ∧ n ≤ 0
            · simp [hle, throw, throwThe, MonadExceptOf.throw, bind, Except.bind] at h
            · simpa [hle, bind, Except.bind, pure, Except.pure] using h
          obtain ⟨i1, i2⟩ := bindArgs_bound r es h'
          refine ⟨fun fa hfa k hk => ?_, fun y hy => i2 y (by
            simp only [lookupSym]; split <;> simp_all)⟩
          simp only [List.mem_cons] at hfa
          rcases hfa with rfl | hfa
          · exact i2 _ (by simp [lookupSym])
          · exact i1 fa hfa k hk
      | scalar =>
          simp only [bindArgs] at h
          obtain ⟨v, _, h⟩ := bind_ok h
          obtain ⟨i1, i2⟩ := bindArgs_bound r es h
          refine ⟨fun fa hfa k hk => ?_, i2⟩
          simp only [List.mem_cons] at hfa
          rcases hfa with rfl | hfa
          · cases hk
          · exact i1 fa hfa k hk
      | tensor sh w =>
          simp only [bindArgs] at h
          obtain ⟨v, _, h⟩ := bind_ok h
          obtain ⟨i1, i2⟩ := bindArgs_bound r es h
          refine ⟨fun fa hfa k hk => ?_, i2⟩
          simp only [List.mem_cons] at hfa
          rcases hfa with rfl | hfa
          · cases hk
          · exact i1 fa hfa k hk

/-- the bounds the compiler's range environment holds for the callee's size arguments (derived by
    SMT from the callee's preconditions in the real code; an input of the model) are true at
    every call: whenever the arguments are bound and the preconditions hold -/
def BoundsOK (V : Type) (name : String) (fargs : List FnArg) (preds : List Expr)
    (cb : List (String × List (Sym × Range.Bound))) : Prop :=
  ∀ σc : State V, IntRel fargs σc.env → CtrlBound fargs σc.env → checkPreds σc preds = .ok () →
    Inside (ρS σc) (Range.Env.initWith (cbLookup name cb)).lookup

mutual
/-- side conditions on every call site, at any depth (also inside callees) -/
def CallsOKS (V : Type) (cb : List (String × List (Sym × Range.Bound))) : Stmt → Prop
  | .ite _ t e => CallsOKL V cb t ∧ CallsOKL V cb e
  | .loop _ _ _ b _ => CallsOKL V cb b
  | .call (.mk name fargs preds body) _ =>
      FormalsOK fargs preds body ∧ BoundsOK V name fargs preds cb ∧ CallsOKL V cb body
  | _ => True
def CallsOKL (V : Type) (cb : List (String × List (Sym × Range.Bound))) : List Stmt → Prop
  | [] => True
  | s :: r => CallsOKS V cb s ∧ CallsOKL V cb r
end

theorem evals_eq {σ : State V} {typ : List (Sym × Ty)} : ∀ {sh : List Expr} {shv : List Int},
    All2 (fun e n => evalC σ e = .ok n) sh shv → (∀ e ∈ sh, noOther (toIE typ e) = true) →
    sh.map (fun e => Range.eval (toIE typ e) (ρOfL σ.env)) = shv
  | _, _, .nil, _ => rfl
  | _, _, .cons (a := e) (b := n) (l := r) h hr, hn => by
      have te := toIE_eval typ σ e n h (hn e (by simp))
      simp only [List.map_cons, evals_eq hr (fun e' he' => hn e' (by simp [he']))]
      congr 1
      exact te.1

theorem all2_mem_left {α β : Type} {R : α → β → Prop} : ∀ {l : List α} {r : List β},
    All2 R l r → ∀ a ∈ l, ∃ b, R a b
  | _, _, .nil, a, ha => by cases ha
  | _, _, .cons (a := a0) (b := b0) h hr, a, ha => by
      simp only [List.mem_cons] at ha
      rcases ha with rfl | ha
      · exact ⟨b0, h⟩
      · exact all2_mem_left hr a ha

/-- the callee's entry state is represented under the callee's own environment -/
theorem callee_rep {fargs : List FnArg} {preds : List Expr} {body : List Stmt}
    {bounds : List (Sym × Range.Bound)} {cb : List (String × List (Sym × Range.Bound))}
    {σc : State V} {cc : CState V} (hf : FormalsOK fargs preds body)
    (hi : cc.ints = σc.env) (hh : cc.heap = σc.heap) (hcfg : cc.cfg = σc.cfg)
    (hacc : AccRel fargs σc.views cc.vals)
    (hcs : checkShapes σc fargs = .ok ()) (hcp : checkPreds σc preds = .ok ())
    (hin : Inside (ρS σc) (Range.Env.initWith bounds).lookup) :
    Rep (initEnvOf fargs preds bounds cb) σc cc := by
  refine ⟨hi, hh, hcfg, ?_, hin⟩
  intro x v hx
  obtain ⟨cval, fa, hcv, hmem, hname, hrep⟩ := hacc x v hx
  obtain ⟨acc, htyp⟩ := initTyp_spec fargs [] hf.nodup hmem
  rw [hname] at htyp
  refine ⟨cval, hcv, ?_⟩
  unfold RepVal
  refine ⟨hrep.1, ?_, ?_⟩
  · intro hrf
    have hx' : x ∈ initRefs fargs := by simpa [initEnvOf] using hrf
    obtain ⟨fb, hb1, hb2, hb3⟩ := initRefs_mem hx'
    have := name_inj hf.nodup hmem hb1 (hname.trans hb2.symm)
    show lookupSym x (initTyp fargs []) = _
    rw [htyp, this, hb3]; rfl
  · show (match lookupSym x (initTyp fargs []) with
      | some (.tensor sh) => _ | some (.window n) => _ | some .scalar => _ | _ => False)
    rw [htyp]
    have hr2 := hrep.2
    cases hty : fa.ty with
    | ctrl k => rw [hty] at hr2; exact hr2.elim
    | scalar =>
        rw [hty] at hr2
        obtain ⟨v', hv', hd⟩ := checkShapes_scalar hcs hmem hty
        rw [hname, hx] at hv'
        simp only [Option.some.injEq] at hv'; subst hv'
        exact ⟨hr2, hd⟩
    | tensor sh w =>
        rw [hty] at hr2
        obtain ⟨shv, v', hsv, hv', hext⟩ := checkShapes_tensor hcs hmem sh w hty
        rw [hname, hx] at hv'
        simp only [Option.some.injEq] at hv'; subst hv'
        have hall := evalCs_all2 hsv
        cases w with
        | true =>
            simp only [argTyOf]
            refine ⟨hr2, ?_, fun d k hk => known_sound hcp hx hk⟩
            have := hall.length
            have h2 : (v.dims.map (·.1)).length = shv.length := by rw [hext]
            simp only [List.length_map] at h2
            omega
        | false =>
            simp only [argTyOf]
            have hno : ∀ e ∈ sh, noOther (toIE acc e) = true := by
              intro e he
              have : lookupSym x (initTyp fargs []) = some (.tensor (sh.map (toIE acc))) := by
                rw [htyp, hty]; rfl
              exact hf.shapes x _ this _ (List.mem_map.2 ⟨e, he, rfl⟩)
            refine ⟨hr2.1, ?_, ?_⟩
            · intro ie hie
              obtain ⟨e, he, rfl⟩ := List.mem_map.1 hie
              obtain ⟨n, hn⟩ := all2_mem_left hall e he
              exact ⟨(toIE_eval acc σc e n hn (hno e he)).2,
                toIE_vars_bound acc σc e n hn (hno e he)⟩
            · rw [hr2.2, hext, List.map_map]
              exact congrArg denseDims (evals_eq hall hno).symm

/-- the binders of the callee's body are fresh in the callee's entry state -/
theorem callee_fresh {fargs : List FnArg} {preds : List Expr} {body : List Stmt}
    {bounds : List (Sym × Range.Bound)} {cb : List (String × List (Sym × Range.Bound))}
    {σc : State V} {cvs : List (Sym × CVal)} (hf : FormalsOK fargs preds body)
    (hint : IntRel fargs σc.env) (hacc : AccRel fargs σc.views cvs) :
    Fresh (bindersL body) (initEnvOf fargs preds bounds cb) σc := by
  refine ⟨hf.bnodup, fun b hb => ?_, fun b hb => ?_, fun b hb => ?_, fun b hb => (hf.bfresh b hb).2⟩
  · cases hl : lookupSym b σc.env with
    | none => rfl
    | some n =>
        obtain ⟨fa, k, h1, h2, _⟩ := hint b n hl
        exact absurd (List.mem_map.2 ⟨fa, h1, h2⟩) (hf.bfresh b hb).1
  · cases hl : lookupSym b σc.views with
    | none => rfl
    | some v =>
        obtain ⟨_, fa, _, h1, h2, _⟩ := hacc b v hl
        exact absurd (List.mem_map.2 ⟨fa, h1, h2⟩) (hf.bfresh b hb).1
  · cases hc : (initEnvOf fargs preds bounds cb).refs.contains b with
    | false => rfl
    | true =>
        have hx' : b ∈ initRefs fargs := by simpa [initEnvOf] using hc
        obtain ⟨fa, h1, h2, _⟩ := initRefs_mem hx'
        exact absurd (List.mem_map.2 ⟨fa, h1, h2⟩) (hf.bfresh b hb).1

end Exo.CompileS
