/-
  Soundness of the comparisons `Rw.commuteOnce` / `Rw.reassocOnce` (one `+`/`*` node commuted,
  resp. re-associated, at any data position of an expression): the two expressions have the same
  value up to which error is raised, for data algebras satisfying `DataLaws`.
  (Namespace `Exo.Ctx3`.)
-/
import ExoModel.RewriteData
import ExoModel.DataLaws
import ExoModel.Lemmas.AlphaRel
import ExoModel.Lemmas.DataWrites

set_option linter.unusedSectionVars false
namespace Exo.Ctx3
open Exo Exo.Rw Exo.C01
variable {V : Type} [DataAlg V] [DataLaws V] (ext : String → List V → V)

theorem evalD_of_exprEq' {a b : Expr} (h : exprEq' false [] [] a b = true) (σ : State V) :
    evalD ext σ a = evalD ext σ b := evalD_alpha ext (RenRel.refl σ) a b h

theorem evalDs_of_exprsEq' {as bs : List Expr} (h : exprsEq' false [] [] as bs = true) (σ : State V) :
    evalDs ext σ as = evalDs ext σ bs := evalDs_alpha ext (RenRel.refl σ) as bs h

theorem ExEq_binop (o : BinOp) {a a' b b' : Expr} {σ : State V}
    (h1 : ExEq (evalD ext σ a) (evalD ext σ a')) (h2 : ExEq (evalD ext σ b) (evalD ext σ b')) :
    ExEq (evalD ext σ (.binop o a b)) (evalD ext σ (.binop o a' b')) := by
  simp only [evalD]
  exact ExEq.bind_congr h1 (fun _ => ExEq.bind_congr h2 (fun _ => ExEq.refl _))

theorem ExEq_usub {a a' : Expr} {σ : State V} (h : ExEq (evalD ext σ a) (evalD ext σ a')) :
    ExEq (evalD ext σ (.usub a)) (evalD ext σ (.usub a')) := by
  simp only [evalD]
  exact ExEq.bind_congr h (fun _ => ExEq.refl _)

theorem ExEq_extern (f : String) {as bs : List Expr} {σ : State V}
    (h : ExEq (evalDs ext σ as) (evalDs ext σ bs)) :
    ExEq (evalD ext σ (.extern f as)) (evalD ext σ (.extern f bs)) := by
  simp only [evalD]
  exact ExEq.bind_congr h (fun _ => ExEq.refl _)

theorem ExEq_evalDs_cons {a b : Expr} {r r' : List Expr} {σ : State V}
    (h1 : ExEq (evalD ext σ a) (evalD ext σ b)) (h2 : ExEq (evalDs ext σ r) (evalDs ext σ r')) :
    ExEq (evalDs ext σ (a :: r)) (evalDs ext σ (b :: r')) := by
  simp only [evalDs]
  exact ExEq.bind_congr h1 (fun _ => ExEq.bind_congr h2 (fun _ => ExEq.refl _))

/-- one node commuted at the root -/
theorem ExEq_swap (o : BinOp) (ho : o = .add ∨ o = .mul) (a b : Expr) (σ : State V) :
    ExEq (evalD ext σ (.binop o a b)) (evalD ext σ (.binop o b a)) := by
  simp only [evalD, bind, Except.bind, ExEq]
  rcases ho with rfl | rfl
  · cases evalD ext σ a <;> cases evalD ext σ b <;>
      simp [Except.toOption, dataOp, pure, Except.pure, lift2_comm _ DataLaws.add_comm]
  · cases evalD ext σ a <;> cases evalD ext σ b <;>
      simp [Except.toOption, dataOp, pure, Except.pure, lift2_comm _ DataLaws.mul_comm]

/-- one node re-associated at the root -/
theorem ExEq_reassoc (o : BinOp) (ho : o = .add ∨ o = .mul) (a b c : Expr) (σ : State V) :
    ExEq (evalD ext σ (.binop o a (.binop o b c))) (evalD ext σ (.binop o (.binop o a b) c)) := by
  simp only [evalD, bind, Except.bind, ExEq]
  rcases ho with rfl | rfl
  · cases evalD ext σ a <;> cases evalD ext σ b <;> cases evalD ext σ c <;>
      simp [Except.toOption, dataOp, pure, Except.pure, lift2_assoc _ DataLaws.add_assoc]
  · cases evalD ext σ a <;> cases evalD ext σ b <;> cases evalD ext σ c <;>
      simp [Except.toOption, dataOp, pure, Except.pure, lift2_assoc _ DataLaws.mul_assoc]

mutual
theorem commuteOnce_sound : ∀ (e e' : Expr), commuteOnce e e' = true → ∀ σ : State V,
    ExEq (evalD ext σ e) (evalD ext σ e')
  | .binop o a b, e', h, σ => by
    cases e' with
    | binop o' a' b' =>
      simp only [commuteOnce, Bool.and_eq_true, Bool.or_eq_true, beq_iff_eq] at h
      obtain ⟨rfl, h⟩ := h
      rcases h with (⟨⟨ho, h1⟩, h2⟩ | ⟨h1, h2⟩) | ⟨h1, h2⟩
      · have e : evalD ext σ (.binop o b a) = evalD ext σ (.binop o a' b') := by
          simp only [evalD, evalD_of_exprEq' ext h1 σ, evalD_of_exprEq' ext h2 σ]
        rw [← e]
        exact ExEq_swap ext o ho a b σ
      · exact ExEq_binop ext o (commuteOnce_sound a a' h1 σ) (ExEq.of_eq (evalD_of_exprEq' ext h2 σ))
      · exact ExEq_binop ext o (ExEq.of_eq (evalD_of_exprEq' ext h1 σ)) (commuteOnce_sound b b' h2 σ)
    | _ => simp [commuteOnce] at h
  | .usub a, e', h, σ => by
    cases e' with
    | usub a' =>
      simp only [commuteOnce] at h
      exact ExEq_usub ext (commuteOnce_sound a a' h σ)
    | _ => simp [commuteOnce] at h
  | .extern f as, e', h, σ => by
    cases e' with
    | extern g bs =>
      simp only [commuteOnce, Bool.and_eq_true, beq_iff_eq] at h
      obtain ⟨rfl, h⟩ := h
      exact ExEq_extern ext f (commuteOnceL_sound as bs h σ)
    | _ => simp [commuteOnce] at h
  | .read _ _, _, h, _ => by simp [commuteOnce] at h
  | .lit _, _, h, _ => by simp [commuteOnce] at h
  | .win _ _, _, h, _ => by simp [commuteOnce] at h
  | .stride _ _, _, h, _ => by simp [commuteOnce] at h
  | .readcfg _ _, _, h, _ => by simp [commuteOnce] at h
theorem commuteOnceL_sound : ∀ (as bs : List Expr), commuteOnceL as bs = true → ∀ σ : State V,
    ExEq (evalDs ext σ as) (evalDs ext σ bs)
  | [], _, h, _ => by simp [commuteOnceL] at h
  | _ :: _, [], h, _ => by simp [commuteOnceL] at h
  | a :: r, b :: r', h, σ => by
    simp only [commuteOnceL, Bool.or_eq_true, Bool.and_eq_true] at h
    rcases h with ⟨h1, h2⟩ | ⟨h1, h2⟩
    · exact ExEq_evalDs_cons ext (commuteOnce_sound a b h1 σ) (ExEq.of_eq (evalDs_of_exprsEq' ext h2 σ))
    · exact ExEq_evalDs_cons ext (ExEq.of_eq (evalD_of_exprEq' ext h1 σ)) (commuteOnceL_sound r r' h2 σ)
end

mutual
theorem reassocOnce_sound : ∀ (e e' : Expr), reassocOnce e e' = true → ∀ σ : State V,
    ExEq (evalD ext σ e) (evalD ext σ e')
  | .binop o a b, e', h, σ => by
    cases e' with
    | binop o' a' b' =>
      simp only [reassocOnce, Bool.and_eq_true, Bool.or_eq_true, beq_iff_eq] at h
      obtain ⟨rfl, h⟩ := h
      rcases h with (h | ⟨h1, h2⟩) | ⟨h1, h2⟩
      · cases b with
        | binop o2 b1 c1 =>
          cases a' with
          | binop o3 a2 b2 =>
            simp only [Bool.and_eq_true, Bool.or_eq_true, beq_iff_eq] at h
            obtain ⟨⟨⟨⟨⟨ho, h2o⟩, h3o⟩, ha⟩, hb⟩, hc⟩ := h
            subst h2o
            subst h3o
            refine ExEq.trans (ExEq_reassoc ext _ ho a b1 c1 σ) (ExEq.of_eq ?_)
            simp only [evalD, evalD_of_exprEq' ext ha σ, evalD_of_exprEq' ext hb σ,
              evalD_of_exprEq' ext hc σ]
          | _ => simp at h
        | _ => simp at h
      · exact ExEq_binop ext o (reassocOnce_sound a a' h1 σ) (ExEq.of_eq (evalD_of_exprEq' ext h2 σ))
      · exact ExEq_binop ext o (ExEq.of_eq (evalD_of_exprEq' ext h1 σ)) (reassocOnce_sound b b' h2 σ)
    | _ => simp [reassocOnce] at h
  | .usub a, e', h, σ => by
    cases e' with
    | usub a' =>
      simp only [reassocOnce] at h
      exact ExEq_usub ext (reassocOnce_sound a a' h σ)
    | _ => simp [reassocOnce] at h
  | .extern f as, e', h, σ => by
    cases e' with
    | extern g bs =>
      simp only [reassocOnce, Bool.and_eq_true, beq_iff_eq] at h
      obtain ⟨rfl, h⟩ := h
      exact ExEq_extern ext f (reassocOnceL_sound as bs h σ)
    | _ => simp [reassocOnce] at h
  | .read _ _, _, h, _ => by simp [reassocOnce] at h
  | .lit _, _, h, _ => by simp [reassocOnce] at h
  | .win _ _, _, h, _ => by simp [reassocOnce] at h
  | .stride _ _, _, h, _ => by simp [reassocOnce] at h
  | .readcfg _ _, _, h, _ => by simp [reassocOnce] at h
theorem reassocOnceL_sound : ∀ (as bs : List Expr), reassocOnceL as bs = true → ∀ σ : State V,
    ExEq (evalDs ext σ as) (evalDs ext σ bs)
  | [], _, h, _ => by simp [reassocOnceL] at h
  | _ :: _, [], h, _ => by simp [reassocOnceL] at h
  | a :: r, b :: r', h, σ => by
    simp only [reassocOnceL, Bool.or_eq_true, Bool.and_eq_true] at h
    rcases h with ⟨h1, h2⟩ | ⟨h1, h2⟩
    · exact ExEq_evalDs_cons ext (reassocOnce_sound a b h1 σ) (ExEq.of_eq (evalDs_of_exprsEq' ext h2 σ))
    · exact ExEq_evalDs_cons ext (ExEq.of_eq (evalD_of_exprEq' ext h1 σ)) (reassocOnceL_sound r r' h2 σ)
end

end Exo.Ctx3
