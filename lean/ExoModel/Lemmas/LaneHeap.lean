/-
  Heap facts used by the lane evaluator: `heapSet` / `setLanes` touch one buffer, keep lengths,
  and a cell that is not overwritten keeps its contents.
-/
import ExoModel.X86

set_option linter.unusedSectionVars false
set_option linter.unusedVariables false
namespace Exo.X86
variable {V : Type}

theorem heapSet_getElem?_ne (h : Heap V) (c : Nat × Nat) (v : Option V) (b : Nat) (hb : b ≠ c.1) :
    (heapSet h c v)[b]? = h[b]? := by
  simp only [heapSet, List.getElem?_modify]
  split
  · omega
  · simp

theorem heapSet_getElem?_eq (h : Heap V) (b o : Nat) (v : Option V) :
    (heapSet h (b, o) v)[b]? = (h[b]?).map (fun l => l.set o v) := by
  simp [heapSet]

@[simp] theorem heapSet_length' (h : Heap V) (c : Nat × Nat) (v : Option V) :
    (heapSet h c v).length = h.length := by
  simp [heapSet]

@[simp] theorem bufLen_heapSet (h : Heap V) (c : Nat × Nat) (v : Option V) (b : Nat) :
    bufLen (heapSet h c v) b = bufLen h b := by
  unfold bufLen
  by_cases hb : b = c.1
  · subst hb
    obtain ⟨c1, c2⟩ := c
    simp only [heapSet_getElem?_eq]
    cases h[c1]? <;> simp
  · rw [heapSet_getElem?_ne h c v b hb]

theorem heapGet_heapSet_ne_buf (h : Heap V) (c c' : Nat × Nat) (v : Option V) (hb : c'.1 ≠ c.1) :
    heapGet (heapSet h c v) c' = heapGet h c' := by
  unfold heapGet
  rw [heapSet_getElem?_ne h c v c'.1 hb]

theorem heapGet_heapSet_ne_off (h : Heap V) (b o o' : Nat) (v : Option V) (ho : o' ≠ o) :
    heapGet (heapSet h (b, o) v) (b, o') = heapGet h (b, o') := by
  unfold heapGet
  simp only [heapSet_getElem?_eq]
  cases h[b]? with
  | none => rfl
  | some l => simp [Ne.symm ho]

theorem heapGet_heapSet_eq (h : Heap V) (b o : Nat) (v : Option V) (hlt : o < bufLen h b) :
    heapGet (heapSet h (b, o) v) (b, o) = v := by
  unfold heapGet
  simp only [heapSet_getElem?_eq]
  unfold bufLen at hlt
  cases hb : h[b]? with
  | none => simp [hb] at hlt
  | some l =>
    simp [hb] at hlt
    simp [hlt]

theorem heapSet_heapGet_self (h : Heap V) (c : Nat × Nat) : heapSet h c (heapGet h c) = h := by
  obtain ⟨b, o⟩ := c
  apply List.ext_getElem?
  intro k
  by_cases hk : k = b
  · subst hk
    rw [heapSet_getElem?_eq]
    unfold heapGet
    cases hb : h[k]? with
    | none => rfl
    | some l =>
      simp only [Option.map_some, Option.some.injEq]
      apply List.ext_getElem?
      intro t
      simp only [List.getElem?_set]
      split
      · rename_i hot
        subst hot
        split
        · rename_i hlt
          simp [List.getElem?_eq_getElem hlt]
        · rename_i hge
          simp [List.getElem?_eq_none (Nat.le_of_not_lt hge)]
      · rfl
  · exact heapSet_getElem?_ne h (b, o) _ k hk

theorem heapSet_heapSet_same (h : Heap V) (c : Nat × Nat) (a b : Option V) :
    heapSet (heapSet h c a) c b = heapSet h c b := by
  obtain ⟨k, o⟩ := c
  apply List.ext_getElem?
  intro t
  by_cases ht : t = k
  · subst ht
    rw [heapSet_getElem?_eq, heapSet_getElem?_eq, heapSet_getElem?_eq]
    cases h[t]? <;> simp
  · rw [heapSet_getElem?_ne _ _ _ t ht, heapSet_getElem?_ne _ _ _ t ht, heapSet_getElem?_ne _ _ _ t ht]

theorem bufLen_pos {h : Heap V} {b : Nat} (hp : 0 < bufLen h b) :
    ∃ buf, h[b]? = some buf ∧ buf.length = bufLen h b := by
  unfold bufLen at hp ⊢
  cases hb : h[b]? with
  | none => simp [hb] at hp
  | some l => exact ⟨l, rfl, by simp⟩

/-! ### setLanes -/

theorem setLanes_getElem?_ne (h : Heap V) (b o : Nat) (l : List (Option V)) (b' : Nat) (hb : b' ≠ b) :
    (setLanes h b o l)[b']? = h[b']? := by
  induction l generalizing h o with
  | nil => rfl
  | cons v r ih => simp only [setLanes]; rw [ih]; exact heapSet_getElem?_ne h (b, o) v b' hb

@[simp] theorem length_setLanes (h : Heap V) (b o : Nat) (l : List (Option V)) :
    (setLanes h b o l).length = h.length := by
  induction l generalizing h o with
  | nil => rfl
  | cons v r ih => simp only [setLanes]; rw [ih]; simp

@[simp] theorem bufLen_setLanes (h : Heap V) (b o : Nat) (l : List (Option V)) (b' : Nat) :
    bufLen (setLanes h b o l) b' = bufLen h b' := by
  induction l generalizing h o with
  | nil => rfl
  | cons v r ih => simp only [setLanes]; rw [ih]; simp

theorem heapGet_setLanes_ne_buf (h : Heap V) (b o : Nat) (l : List (Option V)) (c : Nat × Nat)
    (hb : c.1 ≠ b) : heapGet (setLanes h b o l) c = heapGet h c := by
  unfold heapGet
  rw [setLanes_getElem?_ne h b o l c.1 hb]

theorem heapGet_setLanes_outside (h : Heap V) (b o : Nat) (l : List (Option V)) (k : Nat)
    (hk : k < o ∨ o + l.length ≤ k) : heapGet (setLanes h b o l) (b, k) = heapGet h (b, k) := by
  induction l generalizing h o with
  | nil => rfl
  | cons v r ih =>
    simp only [setLanes]
    rw [ih]
    · apply heapGet_heapSet_ne_off
      simp only [List.length_cons] at hk
      omega
    · simp only [List.length_cons] at hk
      omega

theorem setLanes_snoc (h : Heap V) (b o : Nat) (l : List (Option V)) (v : Option V) :
    setLanes h b o (l ++ [v]) = heapSet (setLanes h b o l) (b, o + l.length) v := by
  induction l generalizing h o with
  | nil => simp [setLanes]
  | cons w r ih =>
    simp only [List.cons_append, setLanes, List.length_cons]
    rw [ih]
    have : o + 1 + r.length = o + (r.length + 1) := by omega
    rw [this]

/-- writing back what is already there changes nothing -/
theorem setLanes_getLanes_self (h : Heap V) (b o n : Nat) : setLanes h b o (getLanes h b o n) = h := by
  induction n with
  | zero => simp [getLanes, setLanes]
  | succ n ih =>
    have : getLanes h b o (n + 1) = getLanes h b o n ++ [heapGet h (b, o + n)] := by
      simp [getLanes, List.range_succ]
    rw [this, setLanes_snoc, ih]
    have hl : (getLanes h b o n).length = n := by simp [getLanes]
    rw [hl]
    exact heapSet_heapGet_self h (b, o + n)

/-- buffers other than `bd` are untouched -/
def AgreeOff (bd : Nat) (h h' : Heap V) : Prop := ∀ b, b ≠ bd → h'[b]? = h[b]?

theorem agreeOff_setLanes (h : Heap V) (b o : Nat) (l : List (Option V)) :
    AgreeOff b h (setLanes h b o l) := fun b' hb => setLanes_getElem?_ne h b o l b' hb

theorem AgreeOff.bufLen {bd : Nat} {h h' : Heap V} (ha : AgreeOff bd h h') {b : Nat} (hb : b ≠ bd) :
    bufLen h' b = bufLen h b := by
  unfold X86.bufLen
  rw [ha b hb]

theorem AgreeOff.heapGet {bd : Nat} {h h' : Heap V} (ha : AgreeOff bd h h') {c : Nat × Nat}
    (hb : c.1 ≠ bd) : heapGet h' c = heapGet h c := by
  unfold Exo.heapGet
  rw [ha c.1 hb]

end Exo.X86
