/-
  Soundness of `Exo.VCGen.vcgen`: the induction on the execution, with the invariant "the
  current state satisfies the path condition and the symbolic typing context".
-/
import ExoModel.Lemmas.VCGenCall

set_option linter.unusedSectionVars false
namespace Exo.VCGen
open Exo
variable {V : Type} [DataAlg V] (ext : String → List V → V)

theorem ctxAfter_nonDef (Γ : TyEnv) (P : List Expr) {s : Stmt} (h : s.isDef = false) :
    ctxAfter Γ P s = (Γ, P) := by
  cases s <;> first | rfl | (simp [Stmt.isDef] at h)

/-- the invariant after one statement -/
theorem inv_step {Γ : TyEnv} {P : List Expr} {σ σ' : State V} (h : Inv Γ P σ) :
    ∀ (s : Stmt), ObsOk (genS Γ P s) → execS ext s σ = .ok σ' →
      Inv (ctxAfter Γ P s).1 (ctxAfter Γ P s).2 σ'
  | .alloc x shape, ho, he => by
    simp only [genS] at ho
    obtain ⟨h1, ho⟩ := ho.cons
    obtain ⟨h2, ho⟩ := ho.cons
    obtain ⟨sh, hsh, hex⟩ := alloc_exec ext h (x := x) ho
    rw [hex] at he; cases he
    simp only [Ob.Ok, Bool.and_eq_true, Bool.not_eq_true'] at h1 h2
    exact h.alloc h1.1.1 h1.1.2 h1.2 h2 hsh
  | .window w rhs, ho, he => by
    cases rhs with
    | win x acc =>
      simp only [genS] at ho
      obtain ⟨h1, ho⟩ := ho.cons
      obtain ⟨h2, ho⟩ := ho.cons
      simp only [Ob.Ok, Bool.and_eq_true, Bool.not_eq_true', decide_eq_true_eq] at h1 h2
      cases hx : lookupSym x Γ with
      | none => rw [hx] at ho; exact (not_ok_wf_false (ho _ (List.mem_cons_self ..))).elim
      | some t =>
        rw [hx] at ho
        simp only [] at ho
        obtain ⟨ρ, hρ⟩ := h.bufs
        obtain ⟨vb, hvb, hty, _⟩ := hρ.bound x t hx
        obtain ⟨vw, hvw, hwin⟩ := evalView_win h ho hvb hty
        simp only [execS, hvw, bind, Except.bind, pure, Except.pure, Except.ok.injEq] at he
        subst he
        simp only [ctxAfter, hx]
        exact h.window h1.1.1 h1.1.2 h1.2 h2 hx hvb hwin
    | read _ _ => simp only [genS] at ho; exact (not_ok_wf_false (ho _ (List.mem_cons_self ..))).elim
    | lit _ => simp only [genS] at ho; exact (not_ok_wf_false (ho _ (List.mem_cons_self ..))).elim
    | usub _ => simp only [genS] at ho; exact (not_ok_wf_false (ho _ (List.mem_cons_self ..))).elim
    | binop _ _ _ => simp only [genS] at ho; exact (not_ok_wf_false (ho _ (List.mem_cons_self ..))).elim
    | extern _ _ => simp only [genS] at ho; exact (not_ok_wf_false (ho _ (List.mem_cons_self ..))).elim
    | stride _ _ => simp only [genS] at ho; exact (not_ok_wf_false (ho _ (List.mem_cons_self ..))).elim
    | readcfg _ _ => simp only [genS] at ho; exact (not_ok_wf_false (ho _ (List.mem_cons_self ..))).elim
  | .assign x idx rhs, _, he => by
    rw [ctxAfter_nonDef Γ P rfl]; exact h.same (execS_same ext rfl he)
  | .reduce x idx rhs, _, he => by
    rw [ctxAfter_nonDef Γ P rfl]; exact h.same (execS_same ext rfl he)
  | .writecfg _ _ _ _, _, he => by
    rw [ctxAfter_nonDef Γ P rfl]; exact h.same (execS_same ext rfl he)
  | .pass, _, he => by
    rw [ctxAfter_nonDef Γ P rfl]; exact h.same (execS_same ext rfl he)
  | .free _, _, he => by
    rw [ctxAfter_nonDef Γ P rfl]; exact h.same (execS_same ext rfl he)
  | .ite _ _ _, _, he => by
    rw [ctxAfter_nonDef Γ P rfl]; exact h.same (execS_same ext rfl he)
  | .loop _ _ _ _ _, _, he => by
    rw [ctxAfter_nonDef Γ P rfl]; exact h.same (execS_same ext rfl he)
  | .call _ _, _, he => by
    rw [ctxAfter_nonDef Γ P rfl]; exact h.same (execS_same ext rfl he)

/-- a loop whose every iteration, started in a state like the initial one, trips no monitor -/
theorem iterate_noBad (f : Int → State V → Except Err (State V)) (σ : State V)
    (hsame : ∀ v s s', f v s = .ok s' → Same s s') :
    ∀ (n : Nat) (lo : Int) (s : State V), Same σ s →
      (∀ v s, Same σ s → lo ≤ v → v < lo + n → NoBad (f v s)) → NoBad (iterate f n lo s)
  | 0, _, s, _, _ => NoBad.ok _
  | n + 1, lo, s, hs, hstep => by
    simp only [iterate]
    refine NoBad.bind (hstep lo s hs (Int.le_refl _) (by omega)) (fun s' hs' => ?_)
    exact iterate_noBad f σ hsame n (lo + 1) s' (hs.trans (hsame _ _ _ hs'))
      (fun v s2 h2 hl hu => hstep v s2 h2 (by omega) (by omega))

theorem loopStep_same {body : List Stmt} {i : Sym} {v : Int} {s s' : State V}
    (h : (execL ext body (s.bind i v)).map (State.leave s) = .ok s') : Same s s' := by
  obtain ⟨s2, h2, rfl⟩ := map_leave_ok h
  exact same_leave (execL_sizes ext body (s.bind i v) s2 h2)

theorem cfgFree_lt {a b : Expr} (h : cfgFree (eLt a b) = true) : cfgFree a = true ∧ cfgFree b = true := by
  simpa [eLt, cfgFree] using h

theorem cfgFree_le {a b : Expr} (h : cfgFree (eLe a b) = true) : cfgFree a = true ∧ cfgFree b = true := by
  simpa [eLe, cfgFree] using h

theorem genP_nodup {nm : String} {fargs : List FnArg} {preds : List Expr} {body : List Stmt}
    (h : ObsOk (genP (.mk nm fargs preds body))) : nodupB (argNames fargs) = true := by
  simp only [genP] at h
  exact (h.cons.2).cons.1

mutual
theorem safeS : ∀ (s : Stmt) (Γ : TyEnv) (P : List Expr) (σ : State V), Inv Γ P σ →
    ObsOk (genS Γ P s) → NoBad (execS ext s σ)
  | .assign x idx rhs, Γ, P, σ, h, ho => by
    simp only [genS] at ho
    simp only [execS]
    exact NoBad.bind (evalD_noBad ext h false rhs ho.append.1) (fun _ _ => writeCell_noBad h ho.append.2 _)
  | .reduce x idx rhs, Γ, P, σ, h, ho => by
    simp only [genS] at ho
    simp only [execS]
    exact NoBad.bind (evalD_noBad ext h false rhs ho.append.1) (fun _ _ => writeCell_noBad h ho.append.2 _)
  | .writecfg c f rhs isData, Γ, P, σ, h, ho => by
    simp only [genS] at ho
    simp only [execS]
    cases isData with
    | true =>
      simp only [if_true] at ho ⊢
      exact NoBad.bind (evalD_noBad ext h false rhs ho) (fun _ _ => NoBad.ok _)
    | false =>
      simp only [Bool.false_eq_true, if_false]
      exact NoBad.bind (evalC_noBad σ rhs) (fun _ _ => NoBad.ok _)
  | .pass, _, _, σ, _, _ => by simp only [execS]; exact NoBad.ok _
  | .free _, _, _, σ, _, _ => by simp only [execS]; exact NoBad.ok _
  | .ite c t e, Γ, P, σ, h, ho => by
    simp only [genS] at ho
    simp only [execS]
    refine NoBad.bind (evalC_noBad σ c) (fun b hb => ?_)
    by_cases hb0 : b ≠ 0
    · rw [if_pos hb0]
      exact NoBad.map _ (safeL t Γ _ σ (h.addFacts (fun f hf _ => by
        simp only [List.mem_singleton] at hf; subst hf; exact ⟨b, hb, hb0⟩)) ho.append.1)
    · rw [if_neg hb0]
      have : b = 0 := by omega
      subst this
      exact NoBad.map _ (safeL e Γ _ σ (h.addFacts (fun f hf _ => by
        simp only [List.mem_singleton] at hf; subst hf; exact holds_not hb)) ho.append.2)
  | .loop i lo hi body par, Γ, P, σ, h, ho => by
    simp only [genS] at ho
    obtain ⟨hfr, ho⟩ := ho.cons
    obtain ⟨hvc, ho⟩ := ho.cons
    simp only [Ob.Ok, Bool.and_eq_true, Bool.not_eq_true'] at hfr
    obtain ⟨l, hv, hl, hh, hle⟩ := holds_le.1 (mkVC_use hvc σ h.facts)
    simp only [execS, hl, hh, bind, Except.bind]
    rw [if_neg (by omega)]
    refine iterate_noBad _ σ (fun v s s' hs => loopStep_same ext hs) _ _ σ (Same.refl σ)
      (fun v s hs hlo hhi => ?_)
    have hs' : Inv Γ P s := h.same hs
    refine NoBad.map _ (safeL body Γ _ (s.bind i v) ((hs'.bind hfr.1.1 v).addFacts
      (fun f hf hcf => ?_)) ho)
    have hiv : evalC (s.bind i v) (eVar i) = .ok v := by
      simp only [eVar, evalC, State.bind, lookupSym, if_true]; rfl
    simp only [List.mem_cons, List.not_mem_nil, or_false] at hf
    rcases hf with rfl | rfl
    · have hc := (cfgFree_lt hcf).2
      rw [holds_lt]
      refine ⟨v, hv, hiv, ?_, ?_⟩
      · rw [evalC_bind_fresh i v hi s hfr.2, evalC_cfgFree' hi σ s hc hs.env hs.views]; exact hh
      · have : ((hv - l).toNat : Int) = hv - l := Int.toNat_of_nonneg (by omega)
        omega
    · have hc := (cfgFree_le hcf).1
      rw [holds_le]
      refine ⟨l, v, ?_, hiv, hlo⟩
      rw [evalC_bind_fresh i v lo s hfr.1.2, evalC_cfgFree' lo σ s hc hs.env hs.views]; exact hl
  | .alloc x shape, Γ, P, σ, h, ho => by
    simp only [genS] at ho
    obtain ⟨sh, _, hex⟩ := alloc_exec ext h (x := x) (ho.cons.2).cons.2
    rw [hex]; exact NoBad.ok _
  | .window w rhs, Γ, P, σ, h, ho => by
    cases rhs with
    | win x acc =>
      simp only [genS] at ho
      have ho := (ho.cons.2).cons.2
      cases hx : lookupSym x Γ with
      | none => rw [hx] at ho; exact (not_ok_wf_false (ho _ (List.mem_cons_self ..))).elim
      | some t =>
        rw [hx] at ho
        simp only [] at ho
        obtain ⟨ρ, hρ⟩ := h.bufs
        obtain ⟨vb, hvb, hty, _⟩ := hρ.bound x t hx
        obtain ⟨vw, hvw, _⟩ := evalView_win h ho hvb hty
        simp only [execS, hvw, bind, Except.bind]
        exact NoBad.ok _
    | read _ _ => simp only [genS] at ho; exact (not_ok_wf_false (ho _ (List.mem_cons_self ..))).elim
    | lit _ => simp only [genS] at ho; exact (not_ok_wf_false (ho _ (List.mem_cons_self ..))).elim
    | usub _ => simp only [genS] at ho; exact (not_ok_wf_false (ho _ (List.mem_cons_self ..))).elim
    | binop _ _ _ => simp only [genS] at ho; exact (not_ok_wf_false (ho _ (List.mem_cons_self ..))).elim
    | extern _ _ => simp only [genS] at ho; exact (not_ok_wf_false (ho _ (List.mem_cons_self ..))).elim
    | stride _ _ => simp only [genS] at ho; exact (not_ok_wf_false (ho _ (List.mem_cons_self ..))).elim
    | readcfg _ _ => simp only [genS] at ho; exact (not_ok_wf_false (ho _ (List.mem_cons_self ..))).elim
  | .call (.mk nm fargs preds body) args, Γ, P, σ, h, ho => by
    simp only [genS, Proc.args, Proc.preds] at ho
    obtain ⟨hsite, hcallee⟩ := ho.append
    simp only [execS]
    exact call_entry ext h nm fargs preds body args hsite (genP_nodup hcallee)
      (fun σc hentry => safeP (.mk nm fargs preds body) σc hentry hcallee)
theorem safeL : ∀ (ss : List Stmt) (Γ : TyEnv) (P : List Expr) (σ : State V), Inv Γ P σ →
    ObsOk (genL Γ P ss) → NoBad (execL ext ss σ)
  | [], _, _, σ, _, _ => by simp only [execL]; exact NoBad.ok _
  | s :: r, Γ, P, σ, h, ho => by
    simp only [genL] at ho
    simp only [execL]
    exact NoBad.bind (safeS s Γ P σ h ho.append.1) (fun σ' hs =>
      safeL r _ _ σ' (inv_step ext h s ho.append.1 hs) ho.append.2)
theorem safeP : ∀ (p : Proc) (σ : State V), EntryOk p σ → ObsOk (genP p) →
    NoBad (execL ext p.body σ)
  | .mk nm fargs preds body, σ, h, ho => by
    simp only [genP] at ho
    obtain ⟨hcf, ho⟩ := ho.cons
    obtain ⟨_, ho⟩ := ho.cons
    exact safeL body _ _ σ (h.inv hcf) ho.append.2
end

theorem obsOk_of : ∀ (obs : List Ob), obsWf obs = true → (∀ vc ∈ obsVCs obs, vc.Valid) → ObsOk obs
  | [], _, _, o, ho => by cases ho
  | .vc v :: r, hw, hv, o, ho => by
    simp only [obsWf] at hw
    simp only [obsVCs] at hv
    cases ho with
    | head => exact hv v (List.mem_cons_self ..)
    | tail _ hm => exact obsOk_of r hw (fun vc hvc => hv vc (List.mem_cons_of_mem _ hvc)) o hm
  | .wf s b :: r, hw, hv, o, ho => by
    simp only [obsWf, Bool.and_eq_true] at hw
    simp only [obsVCs] at hv
    cases ho with
    | head => exact hw.1
    | tail _ hm => exact obsOk_of r hw.2 hv o hm

end Exo.VCGen
