/-
  Lemmas for C15(a), `compL_welltyped`: (1) leaf preservation — every identifier leaf of
  `simplify_cir c` is a leaf of `c`, so integer-typedness of index expressions survives
  `lift_to_cir → get_idx_offset / tensor_strides → simplify_cir → comp_cir`.
-/
import ExoModel.CTyping
import ExoModel.CompileS
import ExoModel.Wf

namespace Exo.CTyping
open Exo Exo.CIndex Exo.CSem Exo.CompileS
open Exo.Range (IExpr Op)

/-- every `Read` leaf is an `int` identifier, every `Stride` leaf a field of a window struct of
    sufficient rank -/
def leavesOK (E : CTyEnv) : CIR → Bool
  | .read x _ => E.get x == some .int
  | .const _ => true
  | .bin _ a b _ => leavesOK E a && leavesOK E b
  | .usub a _ => leavesOK E a
  | .stride x d => match E.get x with
      | some (.win r) => decide (d < r)
      | _ => false

theorem simpBin_leaves {E : CTyEnv} {op : Op} {l r c : CIR} {nn : Bool}
    (h : simpBin op l r nn = .ok c) (hl : leavesOK E l = true) (hr : leavesOK E r = true) :
    leavesOK E c = true := by
  unfold simpBin at h
  split at h
  · rename_i x y
    cases hf : foldOp op x y with
    | error e => rw [hf] at h; cases h
    | ok v => rw [hf] at h; simp only [Except.map, Except.ok.injEq] at h; subst h; rfl
  · (repeat' split at h)
    all_goals (cases h <;> first | exact hl | exact hr | rfl | (simp [leavesOK, hl, hr]; done))

theorem simpNeg_leaves {E : CTyEnv} {a : CIR} (nn : Bool) (ha : leavesOK E a = true) :
    leavesOK E (simpNeg a nn) = true := by
  unfold simpNeg
  split
  · simpa [leavesOK] using ha
  · rfl
  · simpa [leavesOK] using ha

/-- **leaf preservation of `simplify_cir`** -/
theorem simplify_leaves {E : CTyEnv} : ∀ (c : CIR) {s : CIR}, simplify c = .ok s →
    leavesOK E c = true → leavesOK E s = true
  | .read _ _, s, h, hc => by
      simp only [simplify, pure, Except.pure, Except.ok.injEq] at h; subst h; exact hc
  | .const _, s, h, hc => by
      simp only [simplify, pure, Except.pure, Except.ok.injEq] at h; subst h; exact hc
  | .stride _ _, s, h, hc => by
      simp only [simplify, pure, Except.pure, Except.ok.injEq] at h; subst h; exact hc
  | .bin op a b nn, s, h, hc => by
      simp only [leavesOK, Bool.and_eq_true] at hc
      simp only [simplify] at h
      split at h
      · rename_i l r hl hr
        exact simpBin_leaves h (simplify_leaves a hl hc.1) (simplify_leaves b hr hc.2)
      · cases h
      · cases h
  | .usub a nn, s, h, hc => by
      simp only [leavesOK] at hc
      simp only [simplify] at h
      split at h
      · rename_i x hx
        simp only [pure, Except.pure, Except.ok.injEq] at h; subst h
        exact simpNeg_leaves nn (simplify_leaves a hx hc)
      · cases h

/-- the emitted tree is integer-typed iff the leaves are -/
theorem wtCE_compAst {E : CTyEnv} : ∀ (c : CIR), wtCE E (compAst c) = leavesOK E c
  | .read _ _ => rfl
  | .const _ => rfl
  | .stride _ _ => rfl
  | .usub a _ => by simp only [compAst, wtCE, leavesOK, wtCE_compAst a]
  | .bin op a b _ => by
      simp only [compAst, leavesOK]
      by_cases hd : op = .div
      · by_cases hl : divLhsNonNeg a = true
        · simp [hd, hl, wtCE, wtCE_compAst a, wtCE_compAst b]
        · simp [hd, hl, wtCE, wtCE_compAst a, wtCE_compAst b]
      · simp [hd, wtCE, wtCE_compAst a, wtCE_compAst b]

theorem lift_leaves {E : CTyEnv} {nn : IExpr → Bool} : ∀ (e : IExpr) {c : CIR},
    lift nn e = some c → (∀ y ∈ e.vars, E.get y = some .int) → leavesOK E c = true
  | .var x, c, h, hv => by
      simp only [lift, Option.some.injEq] at h; subst h
      simp [leavesOK, hv x (by simp [IExpr.vars])]
  | .const _, c, h, _ => by simp only [lift, Option.some.injEq] at h; subst h; rfl
  | .other, _, h, _ => by simp [lift] at h
  | .neg a, c, h, hv => by
      simp only [lift] at h
      split at h
      · rename_i x hx
        simp only [Option.some.injEq] at h; subst h
        simp only [leavesOK]
        exact lift_leaves a hx (fun y hy => hv y (by simpa [IExpr.vars] using hy))
      · cases h
  | .bin op a b, c, h, hv => by
      simp only [lift] at h
      split at h
      · rename_i l r hl hr
        simp only [Option.some.injEq] at h; subst h
        simp only [leavesOK, Bool.and_eq_true]
        exact ⟨lift_leaves a hl (fun y hy => hv y (by simp [IExpr.vars, hy])),
          lift_leaves b hr (fun y hy => hv y (by simp [IExpr.vars, hy]))⟩
      · cases h

theorem leaves_prodR {E : CTyEnv} : ∀ (r : List CIR) (d : CIR), leavesOK E d = true →
    (∀ c ∈ r, leavesOK E c = true) → leavesOK E (prodR cirMul d r) = true
  | [], _, hd, _ => hd
  | e :: r, d, hd, hr => by
      simp only [prodR, cirMul, leavesOK, Bool.and_eq_true]
      exact ⟨hd, leaves_prodR r e (hr e (by simp)) (fun c hc => hr c (by simp [hc]))⟩

theorem leaves_tensorStridesC {E : CTyEnv} : ∀ (cs : List CIR),
    (∀ c ∈ cs, leavesOK E c = true) → ∀ s ∈ tensorStridesC cs, leavesOK E s = true
  | [], _, s, hs => by simp [tensorStridesC, tensorStridesG] at hs
  | [_], _, s, hs => by
      simp only [tensorStridesC, tensorStridesG, List.mem_singleton] at hs; subst hs; rfl
  | _ :: d :: r, h, s, hs => by
      simp only [tensorStridesC, tensorStridesG, List.mem_cons] at hs
      rcases hs with rfl | hs
      · exact leaves_prodR r d (h d (by simp)) (fun c hc => h c (by simp [hc]))
      · exact leaves_tensorStridesC (d :: r) (fun c hc => h c (by simp [hc])) s
          (by simpa [tensorStridesC] using hs)

theorem leaves_offsetFold {E : CTyEnv} : ∀ (is ss : List CIR) (acc : CIR),
    leavesOK E acc = true → (∀ c ∈ is, leavesOK E c = true) → (∀ c ∈ ss, leavesOK E c = true) →
    leavesOK E (offsetFold cirAdd cirMul acc is ss) = true
  | [], _, _, ha, _, _ => by simpa [offsetFold] using ha
  | _ :: _, [], _, ha, _, _ => by simpa [offsetFold] using ha
  | i :: is, s :: ss, acc, ha, hi, hs => by
      simp only [offsetFold]
      refine leaves_offsetFold is ss _ ?_ (fun c hc => hi c (by simp [hc]))
        (fun c hc => hs c (by simp [hc]))
      simp only [cirAdd, cirMul, leavesOK, Bool.and_eq_true]
      exact ⟨ha, hi i (by simp), hs s (by simp)⟩

theorem leaves_getIdxOffset {E : CTyEnv} {x : Sym} {ty : BufTy} {idx : List CIR} {off : CIR}
    (h : getIdxOffset x ty idx = some off) (hi : ∀ c ∈ idx, leavesOK E c = true)
    (hs : ∀ c ∈ getStrides x ty, leavesOK E c = true) : leavesOK E off = true := by
  unfold getIdxOffset idxOffsetG at h
  split at h
  · rename_i i is s ss hss
    split at h
    · simp only [Option.some.injEq] at h; subst h
      rw [hss] at hs
      refine leaves_offsetFold is ss _ ?_ (fun c hc => hi c (by simp [hc]))
        (fun c hc => hs c (by simp [hc]))
      simp only [cirMul, leavesOK, Bool.and_eq_true]
      exact ⟨hi i (by simp), hs s (by simp)⟩
    · cases h
  · cases h

end Exo.CTyping
