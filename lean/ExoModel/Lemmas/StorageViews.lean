/-
  Well-scoped states: every view in scope points into the heap (`ViewsOk`).  The reference
  semantics does not require this of an initial state, but allocation motion is only sound for
  such states (a dangling view with buffer id `heap.length` would alias the next allocation, and
  moving an allocation changes which one that is).  The property is an invariant of execution.

  `WRef s s'` = `Ref s s'` (poison refinement, same layout) between well-scoped states, and the
  refinement-based congruence for `Rw.rewriteAt` over `WRef` (a copy of StorageRef.lean with the
  invariant threaded through).
-/
import ExoModel.Lemmas.StorageSim
import ExoModel.Lemmas.StorageRef

set_option linter.unusedSectionVars false
set_option linter.unusedVariables false
namespace Exo
variable {V : Type}

/-- every view in scope points to an existing buffer -/
def ViewsOk (s : State V) : Prop := ∀ p ∈ s.views, p.2.buf < s.heap.length

theorem lookupSym_mem {α : Type} {x : Sym} : ∀ {l : List (Sym × α)} {v : α},
    lookupSym x l = some v → (x, v) ∈ l
  | [], _, h => by simp [lookupSym] at h
  | (y, w) :: r, v, h => by
    simp only [lookupSym] at h
    split at h
    · rename_i hxy
      cases h
      subst hxy
      exact List.mem_cons_self
    · exact List.mem_cons_of_mem _ (lookupSym_mem h)

theorem evalView_buf {s : State V} {e : Expr} {v : View} (h : evalView s e = .ok v) :
    ∃ p ∈ s.views, v.buf = p.2.buf := by
  cases e with
  | read x idx =>
    cases idx with
    | nil =>
      simp only [evalView] at h
      cases hl : lookupSym x s.views with
      | none => rw [hl] at h; cases h
      | some w =>
        rw [hl] at h
        simp only [pure, Except.pure, Except.ok.injEq] at h
        subst h
        exact ⟨(x, w), lookupSym_mem hl, rfl⟩
    | cons i r =>
      simp only [evalView] at h
      cases hl : lookupSym x s.views with
      | none => rw [hl] at h; cases h
      | some w =>
        rw [hl] at h
        simp only [bind, Except.bind] at h
        cases h1 : evalCs s (i :: r) with
        | error e => rw [h1] at h; cases h
        | ok is =>
          rw [h1] at h
          simp only [] at h
          cases h2 : viewOffset w.dims is w.off with
          | error e => rw [h2] at h; cases h
          | ok o =>
            rw [h2] at h
            simp only [pure, Except.pure, Except.ok.injEq] at h
            subst h
            exact ⟨(x, w), lookupSym_mem hl, rfl⟩
  | win x acc =>
    simp only [evalView] at h
    cases hl : lookupSym x s.views with
    | none => rw [hl] at h; cases h
    | some w =>
      rw [hl] at h
      simp only [bind, Except.bind] at h
      cases h1 : applyAcc s acc w.dims w.off with
      | error e => rw [h1] at h; cases h
      | ok od =>
        rw [h1] at h
        simp only [pure, Except.pure, Except.ok.injEq] at h
        subst h
        exact ⟨(x, w), lookupSym_mem hl, rfl⟩
  | lit _ => simp [evalView] at h
  | usub _ => simp [evalView] at h
  | binop _ _ _ => simp [evalView] at h
  | extern _ _ => simp [evalView] at h
  | stride _ _ => simp [evalView] at h
  | readcfg _ _ => simp [evalView] at h

theorem ViewsOk.bind {s : State V} (h : ViewsOk s) (i : Sym) (v : Int) : ViewsOk (s.bind i v) := h

theorem ViewsOk.leave {a t : State V} (h : ViewsOk a) (hle : a.heap.length ≤ t.heap.length) :
    ViewsOk (State.leave a t) := by
  intro p hp
  have : (State.leave a t).heap.length = a.heap.length := by
    simp only [State.leave, List.length_take]; omega
  rw [this]
  exact h p hp

section
variable [DataAlg V] (ext : String → List V → V)

theorem execS_viewsOk (a : Stmt) (s t : State V) (h : execS ext a s = .ok t) (hv : ViewsOk s) :
    ViewsOk t := by
  by_cases hd : a.isDef = false
  · have sc := (execS_scope ext a s t h).2.2 hd
    intro p hp
    rw [sc.1] at hp
    rw [sc.2]
    exact hv p hp
  · cases a with
    | alloc x shape =>
      simp only [execS, bind, Except.bind] at h
      cases hs : evalCs s shape with
      | error e => rw [hs] at h; cases h
      | ok sh =>
        rw [hs] at h
        simp only [] at h
        cases hk : checkSizes sh with
        | error e => rw [hk] at h; cases h
        | ok u =>
          rw [hk] at h
          simp only [pure, Except.pure, Except.ok.injEq] at h
          subst h
          intro p hp
          simp only [List.length_append, List.length_cons, List.length_nil] at hp ⊢
          rcases List.mem_cons.1 hp with rfl | hp
          · simp
          · have := hv p hp; omega
    | window x rhs =>
      simp only [execS, bind, Except.bind] at h
      cases hw : evalView s rhs with
      | error e => rw [hw] at h; cases h
      | ok v =>
        rw [hw] at h
        simp only [pure, Except.pure, Except.ok.injEq] at h
        subst h
        intro p hp
        simp only [State.bindView] at hp ⊢
        rcases List.mem_cons.1 hp with rfl | hp
        · obtain ⟨q, hq, e⟩ := evalView_buf hw
          simp only [e]
          exact hv q hq
        · exact hv p hp
    | assign _ _ _ => simp [Stmt.isDef] at hd
    | reduce _ _ _ => simp [Stmt.isDef] at hd
    | writecfg _ _ _ _ => simp [Stmt.isDef] at hd
    | pass => simp [Stmt.isDef] at hd
    | ite _ _ _ => simp [Stmt.isDef] at hd
    | loop _ _ _ _ _ => simp [Stmt.isDef] at hd
    | free _ => simp [Stmt.isDef] at hd
    | call _ _ => simp [Stmt.isDef] at hd

theorem execL_viewsOk : ∀ (ss : List Stmt) (s t : State V), execL ext ss s = .ok t → ViewsOk s →
    ViewsOk t
  | [], s, t, h, hv => by
    simp only [execL, pure, Except.pure, Except.ok.injEq] at h; subst h; exact hv
  | a :: r, s, t, h, hv => by
    simp only [execL, bind, Except.bind] at h
    cases h1 : execS ext a s with
    | error e => rw [h1] at h; cases h
    | ok s1 =>
      rw [h1] at h
      exact execL_viewsOk r s1 t h (execS_viewsOk ext a s s1 h1 hv)

end

/-! ### refinement between well-scoped states -/

structure WRef (s s' : State V) : Prop where
  ref : Ref s s'
  ok : ViewsOk s

theorem WRef.ok' {s s' : State V} (h : WRef s s') : ViewsOk s' := by
  intro p hp
  rw [h.ref.views_eq] at hp
  rw [← h.ref.heapLen]
  exact h.ok p hp

theorem WRef.refl {s : State V} (h : ViewsOk s) : WRef s s := ⟨Ref.refl s, h⟩

theorem WRef.trans {a b c : State V} (h : WRef a b) (h' : WRef b c) : WRef a c :=
  ⟨h.ref.trans h'.ref, h.ok⟩

theorem WRef.bind {s s' : State V} (h : WRef s s') (i : Sym) (v : Int) :
    WRef (s.bind i v) (s'.bind i v) := ⟨h.ref.bind i v, h.ok.bind i v⟩

theorem WRef.leave {σ σ' t t' : State V} (hin : WRef σ σ') (hout : Ref t t')
    (hle : σ.heap.length ≤ t.heap.length) : WRef (State.leave σ t) (State.leave σ' t') :=
  ⟨hin.ref.leave hout hle, hin.ok.leave hle⟩

section
variable [DataAlg V] (ext : String → List V → V)

theorem exec_monoW (ss : List Stmt) {s s' : State V} (h : WRef s s') :
    Lock WRef (execL ext ss s) (execL ext ss s') := by
  have hl := exec_mono ext ss h.ref
  cases h1 : execL ext ss s with
  | error e =>
    rw [h1] at hl
    cases h2 : execL ext ss s' with
    | error e' => exact trivial
    | ok t' => rw [h2] at hl; exact False.elim hl
  | ok t =>
    rw [h1] at hl
    cases h2 : execL ext ss s' with
    | error e' => rw [h2] at hl; exact False.elim hl
    | ok t' =>
      rw [h2] at hl
      exact ⟨hl, execL_viewsOk ext ss s t h1 h.ok⟩

end

/-- scoped refinement of blocks between well-scoped states -/
def BlockRefW (B B' : List Stmt) : Prop :=
  ∀ (V : Type) [DataAlg V] (ext : String → List V → V) (s s' t : State V), WRef s s' →
    execB ext B s = .ok t → ∃ t', execB ext B' s' = .ok t' ∧ WRef t t'

def LRefW (B B' : List Stmt) : Prop :=
  ∀ (V : Type) [DataAlg V] (ext : String → List V → V) (s s' t : State V), WRef s s' →
    execL ext B s = .ok t → ∃ t', execL ext B' s' = .ok t' ∧ WRef t t'

section
variable [DataAlg V] (ext : String → List V → V)

theorem BlockRefW.unscoped {B B' : List Stmt} (h : BlockRefW B B') {s s' t1 : State V}
    (hr : WRef s s') (h1 : execL ext B s = .ok t1) :
    ∃ t1', execL ext B' s' = .ok t1' ∧ WRef (State.leave s t1) (State.leave s' t1') := by
  obtain ⟨t', ht', hrr⟩ := h V ext s s' _ hr (execB_ok ext h1)
  obtain ⟨t1', h1', rfl⟩ := execB_ok_inv ext ht'
  exact ⟨t1', h1', hrr⟩

theorem BlockRefW.step {B B' : List Stmt} (h : BlockRefW B B') {a a' : State V} (hr : WRef a a')
    (i : Sym) (v : Int) :
    Fwd WRef ((execL ext B (a.bind i v)).map (State.leave a))
      ((execL ext B' (a'.bind i v)).map (State.leave a')) := by
  intro t ht
  obtain ⟨t1, h1, rfl⟩ := map_leave_ok ht
  obtain ⟨t1', h1', hrr⟩ := h.unscoped ext (hr.bind i v) h1
  refine ⟨State.leave a' t1', by rw [h1']; rfl, ?_, ?_⟩
  · exact Sim.withEnv hrr.ref.sim hr.ref.env rfl rfl rfl rfl rfl rfl
  · exact hr.ok.leave (execL_scope ext B (a.bind i v) t1 h1).2.1

end

theorem blockRefW_of_blockRef {B B' : List Stmt} (h : BlockRef B B') : BlockRefW B B' := by
  intro V _ ext s s' t hr ht
  obtain ⟨t', ht', hrr⟩ := h V ext s s' t hr.ref ht
  obtain ⟨t1, h1, rfl⟩ := execB_ok_inv ext ht
  exact ⟨t', ht', hrr, hr.ok.leave (execL_scope ext B s t1 h1).2.1⟩

theorem BlockRefW.refl (B : List Stmt) : BlockRefW B B := blockRefW_of_blockRef (BlockRef.refl B)

theorem BlockRefW.trans {A B C : List Stmt} (h : BlockRefW A B) (h' : BlockRefW B C) :
    BlockRefW A C := by
  intro V _ ext s s' t hr ht
  obtain ⟨t', ht', hr1⟩ := h V ext s s' t hr ht
  obtain ⟨t'', ht'', hr2⟩ := h' V ext s' s' t' (WRef.refl hr.ok') ht'
  exact ⟨t'', ht'', hr1.trans hr2⟩

theorem LRefW.refl (B : List Stmt) : LRefW B B := by
  intro V _ ext s s' t hr ht
  exact (exec_monoW ext B hr).ok_left ht

theorem LRefW.append {A A' B B' : List Stmt} (h : LRefW A A') (h' : LRefW B B') :
    LRefW (A ++ B) (A' ++ B') := by
  intro V _ ext s s' t hr ht
  rw [execL_append] at ht ⊢
  cases hA : execL ext A s with
  | error e => rw [hA] at ht; simp [bind, Except.bind] at ht
  | ok s1 =>
    rw [hA] at ht
    obtain ⟨s1', hA', hr1⟩ := h V ext s s' s1 hr hA
    rw [hA']
    exact h' V ext s1 s1' t hr1 ht

theorem LRefW.toBlockRefW {B B' : List Stmt} (h : LRefW B B') : BlockRefW B B' := by
  intro V _ ext s s' t hr ht
  obtain ⟨t1, h1, rfl⟩ := execB_ok_inv ext ht
  obtain ⟨t1', h1', hrr⟩ := h V ext s s' t1 hr h1
  exact ⟨State.leave s' t1', execB_ok ext h1',
    hr.leave hrr.ref (execL_scope ext B s t1 h1).2.1⟩

theorem BlockRefW.append {A A' B B' : List Stmt} (h : LRefW A A') (h' : BlockRefW B B') :
    BlockRefW (A ++ B) (A' ++ B') := by
  intro V _ ext s s' t hr ht
  obtain ⟨t2, h2, rfl⟩ := execB_ok_inv ext ht
  rw [execL_append] at h2
  cases hA : execL ext A s with
  | error e => rw [hA] at h2; simp [bind, Except.bind] at h2
  | ok s1 =>
    rw [hA] at h2
    have h2 : execL ext B s1 = .ok t2 := h2
    obtain ⟨s1', hA', hr1⟩ := h V ext s s' s1 hr hA
    obtain ⟨t2', h2', hrr⟩ := h'.unscoped ext hr1 h2
    have hrun : execL ext (A' ++ B') s' = .ok t2' := by
      rw [execL_append, hA']; exact h2'
    refine ⟨State.leave s' t2', execB_ok ext hrun, ?_⟩
    have l1 := (execL_scope ext A s s1 hA).2.1
    have l1' := (execL_scope ext A' s' s1' hA').2.1
    have l2 := (execL_scope ext B s1 t2 h2).2.1
    have := hr.leave hrr.ref (by rw [leave_heap_length s1 t2 l2]; exact l1)
    rwa [leave_leave s s1 t2 l1, leave_leave s' s1' t2' l1'] at this

theorem BlockRefW.prefix (pre : List Stmt) {B B' : List Stmt} (h : BlockRefW B B') :
    BlockRefW (pre ++ B) (pre ++ B') :=
  BlockRefW.append (LRefW.refl pre) h

theorem LRefW.loop {B B' : List Stmt} (h : BlockRefW B B') (i : Sym) (lo hi : Expr) (par : Bool) :
    LRefW [.loop i lo hi B par] [.loop i lo hi B' par] := by
  intro V _ ext s s' t hr
  rw [execL_singleton, execL_singleton]
  simp only [execS]
  rw [evalC_ref hr.ref lo, evalC_ref hr.ref hi]
  refine Fwd.bind_eq (fun l _ => Fwd.bind_eq (fun hh _ =>
    Fwd.ite (fun _ => Fwd.ofThrowBind) (fun _ => ?_))) t
  exact iterate_fwd WRef _ _ (fun v a a' haa => h.step ext haa i v) _ _ s s' hr

theorem LRefW.iteT {B B' : List Stmt} (h : BlockRefW B B') (c : Expr) (e : List Stmt) :
    LRefW [.ite c B e] [.ite c B' e] := by
  intro V _ ext s s' t hr
  rw [execL_singleton, execL_singleton]
  simp only [execS]
  rw [evalC_ref hr.ref c]
  refine Fwd.bind_eq (fun b _ => Fwd.ite (fun _ => ?_) (fun _ => ?_)) t
  · exact fun t ht => h V ext s s' t hr ht
  · exact fun t ht => BlockRefW.refl e V ext s s' t hr ht

theorem LRefW.iteE {B B' : List Stmt} (h : BlockRefW B B') (c : Expr) (t : List Stmt) :
    LRefW [.ite c t B] [.ite c t B'] := by
  intro V _ ext s s' o hr
  rw [execL_singleton, execL_singleton]
  simp only [execS]
  rw [evalC_ref hr.ref c]
  refine Fwd.bind_eq (fun b _ => Fwd.ite (fun _ => ?_) (fun _ => ?_)) o
  · exact fun o ho => BlockRefW.refl t V ext s s' o hr ho
  · exact fun o ho => h V ext s s' o hr ho

theorem BlockRefW.cons_mid (pre post : List Stmt) {st st' : Stmt} (h : LRefW [st] [st']) :
    BlockRefW (pre ++ st :: post) (pre ++ st' :: post) :=
  (LRefW.append (LRefW.refl pre) (LRefW.append h (LRefW.refl post))).toBlockRefW

/-- a local rewrite that is refinement-sound (between well-scoped states) on every block suffix,
    applied by `Rw.rewriteAt` at any address, is refinement-sound for the body -/
theorem rewriteAt_refW (f : Rw.Local) (hf : ∀ ss r, f ss = some r → BlockRefW ss r) :
    ∀ (path : Rw.Path) (body body' : List Stmt), Rw.rewriteAt f path body = some body' →
      BlockRefW body body'
  | [], _, _, h => by simp [Rw.rewriteAt] at h
  | [st], ss, ss', h => by
    simp only [Rw.rewriteAt, Option.map_eq_some_iff] at h
    obtain ⟨r, hr, rfl⟩ := h
    have h1 := BlockRefW.prefix (ss.take st.idx) (hf _ _ hr)
    rwa [List.take_append_drop] at h1
  | st :: nxt :: rest, ss, ss', h => by
    simp only [Rw.rewriteAt] at h
    split at h
    · rename_i i lo hi b par hs
      split at h
      · simp only [Option.map_eq_some_iff] at h
        obtain ⟨b', hb', rfl⟩ := h
        have ih := rewriteAt_refW f hf _ b b' hb'
        have e0 := Rw.decomp ss st.idx _ hs
        have h2 := BlockRefW.cons_mid (ss.take st.idx) (ss.drop (st.idx + 1))
          (LRefW.loop ih i lo hi par)
        rw [← e0] at h2
        exact h2
      · cases h
    · rename_i c t e hs
      split at h
      · simp only [Option.map_eq_some_iff] at h
        obtain ⟨t', ht', rfl⟩ := h
        have ih := rewriteAt_refW f hf _ t t' ht'
        have e0 := Rw.decomp ss st.idx _ hs
        have h2 := BlockRefW.cons_mid (ss.take st.idx) (ss.drop (st.idx + 1))
          (LRefW.iteT ih c e)
        rw [← e0] at h2
        exact h2
      · simp only [Option.map_eq_some_iff] at h
        obtain ⟨e', he', rfl⟩ := h
        have ih := rewriteAt_refW f hf _ e e' he'
        have e0 := Rw.decomp ss st.idx _ hs
        have h2 := BlockRefW.cons_mid (ss.take st.idx) (ss.drop (st.idx + 1))
          (LRefW.iteE ih c t)
        rw [← e0] at h2
        exact h2
    · cases h

/-- initial states in which every argument view points into the heap -/
def WellScoped (V : Type) (σ : State V) : Prop := ViewsOk σ

theorem equivOn_of_blockRefW {B B' : List Stmt} (h : BlockRefW B B') (nm : String)
    (args : List FnArg) (preds : List Expr) :
    EquivOn WellScoped (fun _ => False) (.mk nm args preds B) (.mk nm args preds B') := by
  intro V _ ext σ o hσ ho
  simp only [Proc.body] at ho ⊢
  obtain ⟨o', ho', hr⟩ := h V ext σ σ o (WRef.refl hσ) ho
  exact ⟨o', ho', hr.ref.refines⟩

end Exo
