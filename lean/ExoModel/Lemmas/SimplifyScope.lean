/-
  Lemmas for C12, part 5: `_DoNormalize` never introduces a symbol — the output of `normE` is over the
  same scope as its input (needed to feed the normalised program to the fact-table layer).
-/
import ExoModel.Lemmas.SimplifyKey
import ExoModel.Lemmas.SimplifyDiv

namespace Exo.Simplify
open Exo (Sym)

def TsIn (V : List Sym) (l : List (Sym × Int)) : Prop := ∀ t ∈ l, t.1 ∈ V
def TermsIn (V : List Sym) (l : List Term) : Prop := ∀ t ∈ l, t.2 ∈ V

theorem updT_in (V : List Sym) (f : Int → Int → Int) (g : Int → Int) (s : Sym) (v : Int) (hs : s ∈ V) :
    ∀ (l : List (Sym × Int)), TsIn V l → TsIn V (updT f g s v l)
  | [], _ => by intro t ht; simp only [updT, List.mem_singleton] at ht; subst ht; exact hs
  | (s', a) :: r, h => by
    simp only [updT]
    split
    · intro t ht
      simp only [List.mem_cons] at ht
      cases ht with
      | inl e => subst e; exact h (s', a) (by simp)
      | inr e => exact h t (by simp [e])
    · intro t ht
      simp only [List.mem_cons] at ht
      cases ht with
      | inl e => subst e; exact h (s', a) (by simp)
      | inr e => exact updT_in V f g s v hs r (fun x hx => h x (by simp [hx])) t e

theorem mergeT_in (V : List Sym) (f : Int → Int → Int) (g : Int → Int) :
    ∀ (r l : List (Sym × Int)), TsIn V l → TsIn V r → TsIn V (mergeT f g l r)
  | [], l, hl, _ => by simpa [mergeT] using hl
  | t :: r, l, hl, hr => by
    have : mergeT f g l (t :: r) = mergeT f g (updT f g t.1 t.2 l) r := rfl
    rw [this]
    exact mergeT_in V f g r _ (updT_in V f g t.1 t.2 (hr t (by simp)) l hl) (fun x hx => hr x (by simp [hx]))

theorem map_in (V : List Sym) (h : Int → Int) (l : List (Sym × Int)) (hl : TsIn V l) :
    TsIn V (l.map (fun t => (t.1, h t.2))) := by
  intro t ht
  simp only [List.mem_map] at ht
  obtain ⟨x, hx, rfl⟩ := ht
  exact hl x hx

theorem concatMap_in (V : List Sym) (op : Op) (a b m : NMap) (ha : TsIn V a.ts) (hb : TsIn V b.ts)
    (h : concatMap op a b = some m) : TsIn V m.ts := by
  cases op <;> simp only [concatMap] at h <;> try cases h
  · exact mergeT_in V _ _ _ _ ha hb
  · exact mergeT_in V _ _ _ _ ha hb
  · split at h
    · cases h; exact map_in V (· * _) _ ha
    · split at h
      · cases h; exact map_in V (· * _) _ hb
      · cases h

theorem normalizeE_in (V : List Sym) : ∀ (e : Expr) (m : NMap), Over V e → normalizeE e = some m → TsIn V m.ts
  | .var s, m, ho, h => by
    simp only [normalizeE, Option.some.injEq] at h; subst h
    intro t ht; simp only [List.mem_singleton] at ht; subst ht
    exact ho s (by simp [Expr.syms])
  | .const v, m, _, h => by
    simp only [normalizeE, Option.some.injEq] at h; subst h
    intro t ht; cases ht
  | .usub e, m, ho, h => by
    simp only [normalizeE, Option.map_eq_some_iff] at h
    obtain ⟨m', hm', rfl⟩ := h
    exact map_in V (- ·) _ (normalizeE_in V e m' ho.usub hm')
  | .bin op l r, m, ho, h => by
    simp only [normalizeE] at h
    split at h
    · rename_i a b ha hb
      exact concatMap_in V op a b m (normalizeE_in V l a ho.left ha) (normalizeE_in V r b ho.right hb) h
    · cases h
  | .bconst _, _, _, h => by simp [normalizeE] at h
  | .cfg _ _, _, _, h => by simp [normalizeE] at h

theorem getNormalized_in (V : List Sym) (e : Expr) (c : Int) (nl : List Term) (ho : Over V e)
    (h : getNormalized e = some (c, nl)) : TermsIn V nl := by
  simp only [getNormalized, Option.map_eq_some_iff, Prod.mk.injEq] at h
  obtain ⟨m, hm, _, rfl⟩ := h
  have := normalizeE_in V e m ho hm
  intro t ht
  simp only [List.mem_map, List.mem_filter] at ht
  obtain ⟨x, ⟨hx, _⟩, rfl⟩ := ht
  exact this x hx

theorem insertT_mem (t x : Term) : ∀ (l : List Term), x ∈ insertT t l → x = t ∨ x ∈ l
  | [], h => by simp only [insertT, List.mem_singleton] at h; exact Or.inl h
  | y :: r, h => by
    simp only [insertT] at h
    split at h
    · simp only [List.mem_cons] at h ⊢; exact h
    · simp only [List.mem_cons] at h ⊢
      cases h with
      | inl e => exact Or.inr (Or.inl e)
      | inr e =>
        cases insertT_mem t x r e with
        | inl e' => exact Or.inl e'
        | inr e' => exact Or.inr (Or.inr e')

theorem sortT_mem (x : Term) : ∀ (l : List Term), x ∈ sortT l → x ∈ l
  | [], h => by simp [sortT] at h
  | t :: r, h => by
    have : sortT (t :: r) = insertT t (sortT r) := rfl
    rw [this] at h
    cases insertT_mem t x _ h with
    | inl e => simp [e]
    | inr e => exact List.mem_cons_of_mem _ (sortT_mem x r e)

theorem genStep_over (V : List Sym) (acc : Expr) (t : Term) (ha : Over V acc) (ht : t.2 ∈ V) :
    Over V (genStep acc t) := by
  have hs : ∀ c, Over V (scaleRead c t.2) := by
    intro c s hs
    simp only [scaleRead, Expr.syms, List.nil_append, List.mem_singleton] at hs
    subst hs; exact ht
  unfold genStep
  split <;> exact Over.bin ha (hs _)

theorem foldl_genStep_over (V : List Sym) : ∀ (l : List Term) (acc : Expr), Over V acc → TermsIn V l →
    Over V (l.foldl genStep acc)
  | [], acc, ha, _ => ha
  | t :: r, acc, ha, hl =>
    foldl_genStep_over V r _ (genStep_over V acc t ha (hl t (by simp))) (fun x hx => hl x (by simp [hx]))

theorem gen_over (V : List Sym) (c : Int) (l : List Term) (hl : TermsIn V l) : Over V (gen c l) :=
  foldl_genStep_over V _ _ (over_const' V c) (fun x hx => hl x (sortT_mem x l hx))
where
  over_const' (V : List Sym) (c : Int) : Over V (.const c) := fun _ h => by cases h

theorem TermsIn.filter {V : List Sym} {l : List Term} (h : TermsIn V l) (p : Term → Bool) :
    TermsIn V (l.filter p) := fun t ht => h t (List.mem_filter.mp ht).1

theorem TermsIn.divTerms {V : List Sym} {l : List Term} (h : TermsIn V l) (d : Int) :
    TermsIn V (divTerms d l) := by
  intro t ht
  simp only [Exo.Simplify.divTerms, List.mem_map] at ht
  obtain ⟨x, hx, rfl⟩ := ht
  exact h x hx

theorem over_div (V : List Sym) (x : Expr) (d : Int) (hx : Over V x) : Over V (.bin .div x (.const d)) :=
  Over.bin hx (fun _ h => by cases h)

theorem over_mod (V : List Sym) (x : Expr) (d : Int) (hx : Over V x) : Over V (.bin .mod x (.const d)) :=
  Over.bin hx (fun _ h => by cases h)

theorem divisionSimp_over (V : List Sym) (O : Oracle) (lhs : Expr) (d : Int) (e' : Expr) (ho : Over V lhs)
    (h : divisionSimp O lhs d = some e') : Over V e' := by
  unfold divisionSimp at h
  split at h
  · cases h
  · rename_i c nl hn
    have hin := getNormalized_in V lhs c nl ho hn
    simp only at h
    repeat' split at h
    all_goals cases h
    all_goals first
      | exact gen_over V _ _ (hin.divTerms d)
      | exact gen_over V _ _ ((hin.filter _).divTerms d)
      | exact over_div V _ _ (gen_over V _ _ hin)

theorem modSimp_over (V : List Sym) (O : Oracle) (lhs : Expr) (m : Int) (e' : Expr) (ho : Over V lhs)
    (h : modSimp O lhs m = some e') : Over V e' := by
  unfold modSimp at h
  split at h
  · cases h
  · rename_i c nl hn
    have hin := getNormalized_in V lhs c nl ho hn
    simp only at h
    split at h
    · cases h; exact fun _ hs => by cases hs
    · generalize (if _ % m = 0 then (0 : Int) else _) = c' at h
      split at h
      · cases h; exact gen_over V _ _ (hin.filter _)
      · cases h; exact over_mod V _ _ (gen_over V _ _ (hin.filter _))

theorem denomLoop_over (V : List Sym) : ∀ (x : Expr) (c : Int), Over V x → Over V (denomLoop x c) := by
  intro x
  induction x with
  | bin op l r ihl _ =>
    intro c hx
    by_cases hop : op = .div
    · subst hop
      cases r with
      | const c1 => simp only [denomLoop]; exact ihl _ hx.left
      | _ => exact over_div V _ _ hx
    · cases op <;> first | exact absurd rfl hop | exact over_div V _ _ hx
  | _ => intro c hx; exact over_div V _ _ hx

theorem splitLoop_over (V : List Sym) (O : Oracle) (lhs : Expr) (d : Int) (e : Expr) (hl : Over V lhs)
    (he : Over V e) : ∀ (fuel : Nat) (k : Int) (e' : Expr), splitLoop O lhs d e fuel k = some e' → Over V e' := by
  intro fuel
  induction fuel with
  | zero => intro k e' h; simp only [splitLoop, Option.some.injEq] at h; subst h; exact he
  | succ n ih =>
    intro k e' h
    simp only [splitLoop] at h
    split at h
    · split at h
      · split at h
        · cases h
        · rename_i e1 h1
          split at h
          · cases h; exact over_div V _ _ (divisionSimp_over V O lhs k e1 hl h1)
          · split at h
            · cases h
            · rename_i e2 h2
              split at h
              · cases h; exact over_div V _ _ (divisionSimp_over V O lhs _ e2 hl h2)
              · exact ih _ e' h
      · exact ih _ e' h
    · simp only [Option.some.injEq] at h; subst h; exact he

theorem divSplit_over (V : List Sym) (O : Oracle) (lhs : Expr) (d : Int) (e' : Expr) (ho : Over V lhs)
    (h : divSplit O lhs d = some e') : Over V e' := by
  unfold divSplit at h
  split at h
  · cases h
  · rename_i e he
    have hw := divisionSimp_over V O lhs d e ho he
    split at h
    · exact splitLoop_over V O _ _ _ hw.left hw _ 2 e' h
    · cases h; exact hw

theorem normalForm_over (V : List Sym) (e e' : Expr) (ho : Over V e) (h : normalForm e = some e') : Over V e' := by
  simp only [normalForm, Option.map_eq_some_iff] at h
  obtain ⟨⟨c, nl⟩, hn, rfl⟩ := h
  exact gen_over V _ _ (getNormalized_in V e c nl ho hn)

theorem indexStart_over (V : List Sym) (O : Oracle) :
    ∀ (e e' : Expr), Over V e → indexStart O e = some e' → Over V e' := by
  intro e
  induction e with
  | var s => intro e' ho h; exact normalForm_over V _ _ ho h
  | const v => intro e' ho h; exact normalForm_over V _ _ ho h
  | bconst b => intro e' _ h; simp [indexStart] at h
  | cfg c f => intro e' ho h; simp only [indexStart, Option.some.injEq] at h; subst h; exact ho
  | usub a _ =>
    intro e' ho h
    simp only [indexStart] at h
    split at h
    · simp only [Option.some.injEq] at h; subst h; exact ho
    · exact normalForm_over V _ _ ho h
  | bin op l r ihl ihr =>
    intro e' ho h
    simp only [indexStart] at h
    split at h
    · cases h
    · split at h
      · rename_i l' r' hl hr
        have ol := ihl l' ho.left hl
        have or' := ihr r' ho.right hr
        cases op with
        | div =>
          simp only at h
          split at h
          · split at h
            · cases h
            · split at h
              · simp only [Option.some.injEq] at h; subst h; exact denomLoop_over V _ _ ol
              · exact divSplit_over V O _ _ _ ol h
          · cases h
        | mod =>
          simp only at h
          split at h
          · split at h
            · cases h
            · split at h
              · simp only [Option.some.injEq] at h; subst h; exact Over.bin ol or'
              · exact modSimp_over V O _ _ _ ol h
          · cases h
        | add | sub | mul =>
          simp only at h
          split at h
          · simp only [Option.some.injEq] at h; subst h; exact Over.bin ol or'
          · exact normalForm_over V _ _ (Over.bin ol or') h
        | _ => simp [Op.isArith] at *
      · cases h

theorem normE_over (V : List Sym) (O : Oracle) :
    ∀ (e e' : Expr), Over V e → normE O e = some e' → Over V e' := by
  intro e
  induction e with
  | var s => intro e' ho h; exact indexStart_over V O _ _ ho h
  | const v => intro e' ho h; exact indexStart_over V O _ _ ho h
  | usub a _ => intro e' ho h; exact indexStart_over V O _ _ ho h
  | bconst b => intro e' ho h; simp only [normE, Option.some.injEq] at h; subst h; exact ho
  | cfg c f => intro e' ho h; simp only [normE, Option.some.injEq] at h; subst h; exact ho
  | bin op l r ihl ihr =>
    intro e' ho h
    simp only [normE] at h
    split at h
    · exact indexStart_over V O _ _ ho h
    · split at h
      · rename_i l' r' hl hr
        simp only [Option.some.injEq] at h; subst h
        exact Over.bin (ihl l' ho.left hl) (ihr r' ho.right hr)
      · cases h

end Exo.Simplify
