/-
  Helpers for Props/C01Context.lean, part 2: `fold_into_reduce` without the ring laws (the
  statement of Props/C01Data.lean carries `[DataLaws V]` from its section although the proof
  does not use it; `Equiv` quantifies over all data algebras), the two spellings of the unrolled
  block, steps over `pass`.
-/
import ExoModel.Rewrite
import ExoModel.Lemmas.ContextReach

set_option linter.unusedSectionVars false
namespace Exo.C01
open Exo
variable {V : Type} [DataAlg V] (ext : String → List V → V)

/-- `x[idx] = x[idx] + e` and `x[idx] += e` have the same outcome (up to which error), for every
    data algebra -/
theorem fold_into_reduce_nolaws (x : Sym) (idx : List Expr) (e : Expr) (σ : State V) :
    ExEq (execS ext (.assign x idx (.binop .add (.read x idx) e)) σ)
         (execS ext (.reduce x idx e) σ) := by
  simp only [execS, evalD, writeCell, bind, Except.bind, ExEq]
  cases hv : lookupSym x σ.views with
  | none =>
    simp only []
    cases evalD ext σ e <;> simp [Except.toOption, throw, throwThe, MonadExceptOf.throw]
  | some v =>
    simp only []
    cases hi : evalCs σ idx with
    | error err => cases evalD ext σ e <;> simp [Except.toOption, throw, throwThe, MonadExceptOf.throw]
    | ok is =>
      simp only []
      cases hc : cellOf σ.heap v is with
      | error err => cases evalD ext σ e <;> simp [Except.toOption, throw, throwThe, MonadExceptOf.throw]
      | ok c =>
        simp only [pure, Except.pure]
        cases evalD ext σ e with
        | error err => simp [Except.toOption, throw, throwThe, MonadExceptOf.throw]
        | ok w => simp [Except.toOption, dataOp, pure, Except.pure, throw, throwThe, MonadExceptOf.throw]

/-- the block `unroll_loop` builds, as spelled in ExoModel/Rewrite.lean and in Lemmas/LoopSubst.lean -/
theorem unrolled_eq (i : Sym) (B : List Stmt) : ∀ (n : Nat) (lo : Int),
    unrolled i B n lo = Rw.unrolledCopies i B n lo
  | 0, _ => rfl
  | n + 1, lo => by simp only [unrolled, Rw.unrolledCopies, unrolled_eq i B n (lo + 1)]

theorem stepIJ_pass (i j : Sym) (a b : Int) (s : State V) : stepIJ ext i j [.pass] a b s = .ok s := by
  simp only [stepIJ, execL, execS, bind, Except.bind, pure, Except.pure, Except.map, State.leave,
    State.bind, List.take_length]

end Exo.C01
