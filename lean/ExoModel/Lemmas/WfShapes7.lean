/-
  Well-formedness of the results of `inline_assign` and `lift_alloc`.
-/
import ExoModel.Lemmas.WfShapes6

namespace Exo.WfShapes
open Exo Exo.Wf Exo.Rw

/-! ### inline_assign -/

mutual
theorem inlineE_wf (x : Sym) (idx : List Expr) (e : Expr) {Γ : Env} (he : wfD Γ e = true) :
    ∀ (a : Expr), wfD Γ a = true → wfD Γ (inlineE x idx e a) = true
  | .read y jdx, h => by
    simp only [inlineE]
    split
    · exact he
    · exact h
  | .usub a, h => by
    simp only [wfD] at h
    simp only [inlineE, wfD]
    exact inlineE_wf x idx e he a h
  | .binop op a b, h => by
    simp only [wfD, Bool.and_eq_true] at h
    simp only [inlineE, wfD, Bool.and_eq_true]
    exact ⟨⟨h.1.1, inlineE_wf x idx e he a h.1.2⟩, inlineE_wf x idx e he b h.2⟩
  | .extern f args, h => by
    simp only [wfD] at h
    simp only [inlineE, wfD]
    exact inlineEs_wf x idx e he args h
  | .lit _, h => by simpa [inlineE] using h
  | .win _ _, h => by simpa [inlineE] using h
  | .stride _ _, h => by simpa [inlineE] using h
  | .readcfg _ _, h => by simpa [inlineE] using h
theorem inlineEs_wf (x : Sym) (idx : List Expr) (e : Expr) {Γ : Env} (he : wfD Γ e = true) :
    ∀ (as : List Expr), wfDs Γ as = true → wfDs Γ (inlineEs x idx e as) = true
  | [], _ => by simp [inlineEs, wfDs]
  | a :: r, h => by
    simp only [wfDs, Bool.and_eq_true] at h
    simp only [inlineEs, wfDs, Bool.and_eq_true]
    exact ⟨inlineE_wf x idx e he a h.1, inlineEs_wf x idx e he r h.2⟩
end

theorem wfD_weakenD (D Γ : Env) (e : Expr) (hD : ∀ y ∈ D.map Prod.fst, lookup y Γ = none)
    (he : wfD Γ e = true) : wfD (D ++ Γ) e = true :=
  wfD_tr (Rel.ext D Γ (D.map Prod.fst) hD (fun _ h => h)) e he

theorem wfS_assign_iff (Γ Γ' : Env) (y : Sym) (idx : List Expr) (e : Expr) :
    wfS Γ (.assign y idx e) = some Γ' ↔ writeOk Γ y idx e = true ∧ Γ' = Γ := by
  cases hr : rankOf Γ y with
  | none => simp [wfS, writeOk, hr]
  | some n =>
    by_cases hc : (idx.length == n && wfCs Γ idx && wfD Γ e) = true
    · simp [wfS, writeOk, hr, hc, eq_comm]
    · simp [wfS, writeOk, hr, hc]

mutual
theorem inlineS_wf (x : Sym) (idx : List Expr) (e : Expr) : ∀ (s : Stmt) (Γ Γ' : Env),
    wfD Γ e = true → wfS Γ s = some Γ' → wfS Γ (inlineS x idx e s) = some Γ'
  | .assign y jdx rhs, Γ, Γ', he, h => by
    obtain ⟨h1, h2⟩ := (wfS_assign_iff Γ Γ' y jdx rhs).1 h
    simp only [inlineS]
    exact (wfS_assign_iff Γ Γ' y jdx _).2
      ⟨writeOk_rhs _ h1 (inlineE_wf x idx e he rhs (writeOk_wfD h1)), h2⟩
  | .reduce y jdx rhs, Γ, Γ', he, h => by
    obtain ⟨h1, h2⟩ := (wfS_reduce_iff Γ Γ' y jdx rhs).1 h
    simp only [inlineS]
    exact (wfS_reduce_iff Γ Γ' y jdx _).2
      ⟨writeOk_rhs _ h1 (inlineE_wf x idx e he rhs (writeOk_wfD h1)), h2⟩
  | .writecfg c f rhs true, Γ, Γ', he, h => by
    simp only [wfS, if_true] at h
    cases hc : wfD Γ rhs with
    | false => rw [hc] at h; simp at h
    | true =>
      rw [hc] at h
      simp only [inlineS, wfS, if_true, inlineE_wf x idx e he rhs hc]
      exact h
  | .writecfg c f rhs false, _, _, _, h => by simpa [inlineS] using h
  | .ite c t el, Γ, Γ', he, h => by
    have h' : (wfL Γ (.ite c t el :: [])).isSome = true := by simp [wfL, h]
    obtain ⟨hc, ht, hel, _⟩ := ite_inv h'
    obtain ⟨Γt, hΓt⟩ := Option.isSome_iff_exists.1 ht
    obtain ⟨Γe, hΓe⟩ := Option.isSome_iff_exists.1 hel
    have iht := inlineL_wf x idx e t Γ Γt he hΓt
    have ihe := inlineL_wf x idx e el Γ Γe he hΓe
    simp only [wfS, hc, ht, hel, Bool.and_self, if_true] at h
    simp [inlineS, wfS, hc, iht, ihe, h]
  | .loop i lo hi b par, Γ, Γ', he, h => by
    have h' : (wfL Γ (.loop i lo hi b par :: [])).isSome = true := by simp [wfL, h]
    obtain ⟨hf, hlo, hhi, hb, _⟩ := loop_inv h'
    obtain ⟨Γb, hΓb⟩ := Option.isSome_iff_exists.1 hb
    have ihb := inlineL_wf x idx e b _ Γb (wfD_weaken Γ i none e ((fresh_iff _ _).1 hf) he) hΓb
    simp only [wfS, hf, hlo, hhi, hb, Bool.and_self, if_true] at h
    simp [inlineS, wfS, hf, hlo, hhi, ihb, h]
  | .pass, _, _, _, h => by simpa [inlineS] using h
  | .alloc _ _, _, _, _, h => by simpa [inlineS] using h
  | .free _, _, _, _, h => by simpa [inlineS] using h
  | .call _ _, _, _, _, h => by simpa [inlineS] using h
  | .window _ _, _, _, _, h => by simpa [inlineS] using h
theorem inlineL_wf (x : Sym) (idx : List Expr) (e : Expr) : ∀ (ss : List Stmt) (Γ Γ' : Env),
    wfD Γ e = true → wfL Γ ss = some Γ' → wfL Γ (inlineL x idx e ss) = some Γ'
  | [], _, _, _, h => by simpa [inlineL] using h
  | s :: r, Γ, Γ', he, h => by
    simp only [wfL] at h
    cases h1 : wfS Γ s with
    | none => rw [h1] at h; cases h
    | some Γ1 =>
      rw [h1] at h
      obtain ⟨D, e1, hn, hf⟩ := wfS_shape Γ Γ1 s h1
      have he1 : wfD Γ1 e = true := by
        rw [e1]; exact wfD_weakenD D Γ e (by rw [hn]; exact hf) he
      simp [inlineL, wfL, inlineS_wf x idx e s Γ Γ1 he h1, inlineL_wf x idx e r Γ1 Γ' he1 h]
end

theorem inlineAssign_local (Γ : Env) (ss r : List Stmt) (hr : inlineAssign ss = some r)
    (hw : (wfL Γ ss).isSome = true) : (wfL Γ r).isSome = true := by
  unfold inlineAssign at hr
  split at hr
  · rename_i x idx e rest
    simp only [Option.some.injEq] at hr
    subst hr
    obtain ⟨h1, h2⟩ := assign_inv hw
    obtain ⟨Γ', hΓ'⟩ := Option.isSome_iff_exists.1 h2
    simp [inlineL_wf x idx e rest Γ Γ' (writeOk_wfD h1) hΓ']
  · cases hr

theorem inlineAssignOnly_local (Γ : Env) (ss r : List Stmt) (hr : inlineAssignOnly ss = some r)
    (_hw : (wfL Γ ss).isSome = true) : (wfL Γ r).isSome = true := by
  unfold inlineAssignOnly at hr
  split at hr
  · simp only [Option.some.injEq] at hr; subst hr; simp [wfL, wfS]
  · cases hr

/-! ### lift_alloc -/

/-- `Γ₂` means what `Γ` extended by the lifted allocation means -/
def LiftEnv (x : Sym) (k : Option Nat) (Γ Γ₂ : Env) : Prop :=
  ∀ y, lookup y Γ₂ = lookup y ((x, k) :: Γ)

theorem LiftEnv.rel {x : Sym} {k : Option Nat} {Γ Γ₂ : Env} (h : LiftEnv x k Γ Γ₂)
    (hx : lookup x Γ = none) : Rel none [x] Γ Γ₂ where
  keep := by
    intro y v _ hy
    rw [h y, lookup_cons]
    have : y ≠ x := by intro e; rw [e, hx] at hy; cases hy
    simp [this, hy]
  frsh := by
    intro y hyN hl
    rw [h y, lookup_cons]
    have : y ≠ x := by simpa using hyN
    simp [this, hl]
  sub := by intro x' e hm; cases hm

theorem LiftEnv.append {x : Sym} {k : Option Nat} {Γ Γ₂ : Env} (h : LiftEnv x k Γ Γ₂) (D : Env)
    (hD : x ∉ D.map Prod.fst) : LiftEnv x k (D ++ Γ) (D ++ Γ₂) := by
  intro y
  cases hl : lookup y D with
  | some v =>
    have hyx : y ≠ x := by
      intro e; rw [e] at hl
      exact hD (mem_of_lookup_some D x v hl)
    rw [lookup_append_some D Γ₂ y v hl, lookup_cons]
    simp [hyx, lookup_append_some D Γ y v hl]
  | none =>
    rw [lookup_append_none D Γ₂ y hl, h y, lookup_cons, lookup_cons, lookup_append_none D Γ y hl]

theorem bindL_take_drop (ss : List Stmt) (k : Nat) (s : Stmt) (h : ss[k]? = some s) :
    bindL ss = bindL (ss.take k) ++ (bindS s ++ bindL (ss.drop (k + 1))) := by
  have e := decomp ss k s h
  have : bindL ss = bindL (ss.take k ++ s :: ss.drop (k + 1)) := by rw [← e]
  rw [this, bindL_append]
  simp [bindL]

theorem set_eq_decomp (ss : List Stmt) (k : Nat) (s s2 : Stmt) (h : ss[k]? = some s) :
    ss.set k s2 = ss.take k ++ s2 :: ss.drop (k + 1) := by
  induction ss generalizing k with
  | nil => simp at h
  | cons a r ih =>
    cases k with
    | zero => simp
    | succ k => simp at h; simp [ih k h]

theorem eraseIdx_eq_decomp (ss : List Stmt) (k : Nat) :
    ss.eraseIdx k = ss.take k ++ ss.drop (k + 1) := by
  induction ss generalizing k with
  | nil => simp
  | cons a r ih =>
    cases k with
    | zero => simp
    | succ k => simp [ih k]

/-- pieces of a well-formed list around position `k` -/
theorem wfL_decomp {Γ : Env} {ss : List Stmt} {k : Nat} {s : Stmt} (h : ss[k]? = some s)
    (hw : (wfL Γ ss).isSome = true) :
    ∃ Dpre Γs, wfL Γ (ss.take k) = some (Dpre ++ Γ) ∧
      (∀ y, y ∈ Dpre.map Prod.fst → y ∈ bindL (ss.take k)) ∧
      wfS (Dpre ++ Γ) s = some Γs ∧ (wfL Γs (ss.drop (k + 1))).isSome = true := by
  rw [decomp ss k s h] at hw
  obtain ⟨Γa, h1, h2⟩ := append_inv hw
  obtain ⟨D, e1, hn, _⟩ := wfL_shape _ Γ Γa h1
  subst e1
  simp only [wfL] at h2
  cases hs : wfS (D ++ Γ) s with
  | none => rw [hs] at h2; simp at h2
  | some Γs =>
    rw [hs] at h2
    exact ⟨D, Γs, h1, fun y hy => defNames_sub_bindL _ y (hn y hy), hs, h2⟩

theorem fillPass_isSome {Γ : Env} {ss : List Stmt} (h : (wfL Γ ss).isSome = true) :
    (wfL Γ (fillPass ss)).isSome = true := by
  obtain ⟨Γ', hΓ'⟩ := Option.isSome_iff_exists.1 h
  exact fillPass_wf hΓ'

theorem bindL_fillPass (ss : List Stmt) : bindL (fillPass ss) = bindL ss := by
  unfold fillPass
  split
  · rename_i h
    have : ss = [] := by simpa using h
    subst this; simp [bindL, bindS]
  · rfl

theorem ite_fill_isSome {Γ : Env} (b : Bool) {ss : List Stmt} (h : (wfL Γ ss).isSome = true) :
    (wfL Γ (if b then fillPass ss else ss)).isSome = true := by
  cases b
  · simpa using h
  · simpa using fillPass_isSome h

theorem bindL_ite_fill (b : Bool) (ss : List Stmt) :
    bindL (if b then fillPass ss else ss) = bindL ss := by
  cases b <;> simp [bindL_fillPass]

/-- removing the allocation `x` found at `p` leaves a block that is well formed wherever `x` is
    (already) declared with the allocation's rank and everything else means the same -/
theorem removeAt_wf (x : Sym) (sh : List Expr) : ∀ (p : Path) (ss ss' : List Stmt) (Γ Γ₂ : Env),
    removeAt p ss = some (.alloc x sh, ss') → (wfL Γ ss).isSome = true → lookup x Γ = none →
    x ∉ bindL ss' → LiftEnv x (some sh.length) Γ Γ₂ → (wfL Γ₂ ss').isSome = true
  | [], _, _, _, _, h, _, _, _, _ => by simp [removeAt] at h
  | [st], ss, ss', Γ, Γ₂, h, hw, hx, hb, hL => by
    simp only [removeAt] at h
    split at h
    · rename_i s hs
      simp only [Option.some.injEq, Prod.mk.injEq] at h
      obtain ⟨rfl, rfl⟩ := h
      rw [eraseIdx_eq_decomp] at hb ⊢
      rw [bindL_append] at hb
      obtain ⟨Dpre, Γs, h1, hn, h2, h3⟩ := wfL_decomp hs hw
      have hxD : x ∉ Dpre.map Prod.fst := fun hm => hb (List.mem_append_left _ (hn x hm))
      -- the statements before the allocation
      obtain ⟨D', e', hpre, _⟩ := wfL_tr none [x] _ Γ Γ₂ _ (hL.rel hx) h1
        (by intro z hz hzN; simp at hzN; subst hzN; exact hb (List.mem_append_left _ hz))
      have hDD : D' = Dpre := List.append_cancel_right e'.symm
      subst hDD
      simp only [tL] at hpre
      -- the statements after it: the same names are in scope
      have hΓs : Γs = (x, some sh.length) :: (D' ++ Γ) := by
        simp only [wfS] at h2
        split at h2
        · cases h2; rfl
        · cases h2
      subst hΓs
      have hrel : Rel none [] ((x, some sh.length) :: (D' ++ Γ)) (D' ++ Γ₂) :=
        Rel.ofEq _ _ [] (fun y => ((hL.append D' hxD) y).symm)
      have hpost := tr_isSome hrel _ h3 (by simp)
      exact append_intro hpre (by simpa [tL] using hpost)
    · cases h
  | st :: nxt :: rest, ss, ss', Γ, Γ₂, h, hw, hx, hb, hL => by
    simp only [removeAt] at h
    split at h
    · -- a loop
      rename_i i lo hi b par hs
      split at h
      · rename_i kb
        simp only [Option.map_eq_some_iff, Prod.mk.injEq, Prod.exists] at h
        obtain ⟨s0, b', hrec, rfl, rfl⟩ := h
        rw [set_eq_decomp ss st.idx _ _ hs] at hb ⊢
        simp only [bindL_append, bindL, bindS, bindL_ite_fill, List.mem_append, List.mem_cons,
          not_or] at hb
        obtain ⟨Dpre, Γs, h1, hn, h2, h3⟩ := wfL_decomp hs hw
        have hxD : x ∉ Dpre.map Prod.fst := fun hm => hb.1 (hn x hm)
        obtain ⟨D', e', hpre, hrelD⟩ := wfL_tr none [x] _ Γ Γ₂ _ (hL.rel hx) h1
          (by intro z hz hzN; simp at hzN; subst hzN; exact hb.1 hz)
        have hDD : D' = Dpre := List.append_cancel_right e'.symm
        subst hDD
        simp only [tL] at hpre
        have h2' : (wfL (D' ++ Γ) (.loop i lo hi b par :: [])).isSome = true := by simp [wfL, h2]
        obtain ⟨hf, hlo, hhi, hbw, _⟩ := loop_inv h2'
        have hΓs : Γs = D' ++ Γ := by
          obtain ⟨D, e1, hn', _⟩ := wfS_shape _ Γs _ h2
          have : D = [] := by simpa [defName] using hn'
          subst this; simpa using e1
        subst hΓs
        have hi0 := (fresh_iff _ _).1 hf
        have hix : i ≠ x := fun e => hb.2.1.1 e.symm
        have hxa : lookup x ((i, none) :: (D' ++ Γ)) = none := by
          rw [lookup_cons]
          have : lookup x (D' ++ Γ) = none := by
            rw [lookup_append_none D' Γ x (lookup_none_of_not_mem D' x hxD)]; exact hx
          simp [Ne.symm hix, this]
        have hLa : LiftEnv x (some sh.length) ((i, none) :: (D' ++ Γ)) ((i, none) :: (D' ++ Γ₂)) := by
          have := (hL.append D' hxD).append [(i, none)] (by simpa using Ne.symm hix)
          simpa using this
        have hbody := removeAt_wf x sh _ b b' _ _ hrec hbw hxa hb.2.1.2 hLa
        have hpost := tr_isSome hrelD _ h3
          (by intro z hz hzN; simp at hzN; subst hzN; exact hb.2.2 hz)
        simp only [tL] at hpost
        refine append_intro hpre (loop_intro par ?_ (by simpa [tC] using wfC_tr hrelD lo hlo)
          (by simpa [tC] using wfC_tr hrelD hi hhi) (ite_fill_isSome _ hbody) hpost)
        exact (fresh_iff _ _).2 (hrelD.frsh i (by simpa using hix) hi0)
      · cases h
    · -- an if
      rename_i c t e hs
      obtain ⟨Dpre, Γs, h1, hn, h2, h3⟩ := wfL_decomp hs hw
      have h2' : (wfL (Dpre ++ Γ) (.ite c t e :: [])).isSome = true := by simp [wfL, h2]
      obtain ⟨hc, ht, he, _⟩ := ite_inv h2'
      have hΓs : Γs = Dpre ++ Γ := by
        obtain ⟨D, e1, hn', _⟩ := wfS_shape _ Γs _ h2
        have : D = [] := by simpa [defName] using hn'
        subst this; simpa using e1
      subst hΓs
      split at h
      · simp only [Option.map_eq_some_iff, Prod.mk.injEq, Prod.exists] at h
        obtain ⟨s0, t', hrec, rfl, rfl⟩ := h
        rw [set_eq_decomp ss st.idx _ _ hs] at hb ⊢
        simp only [bindL_append, bindL, bindS, bindL_ite_fill, List.mem_append, not_or] at hb
        have hxD : x ∉ Dpre.map Prod.fst := fun hm => hb.1 (hn x hm)
        obtain ⟨D', e', hpre, hrelD⟩ := wfL_tr none [x] _ Γ Γ₂ _ (hL.rel hx) h1
          (by intro z hz hzN; simp at hzN; subst hzN; exact hb.1 hz)
        have hDD : D' = Dpre := List.append_cancel_right e'.symm
        subst hDD
        simp only [tL] at hpre
        have hxa : lookup x (D' ++ Γ) = none := by
          rw [lookup_append_none D' Γ x (lookup_none_of_not_mem D' x hxD)]; exact hx
        have hthen := removeAt_wf x sh _ t t' _ _ hrec ht hxa hb.2.1.1 (hL.append D' hxD)
        have helse := tr_isSome hrelD _ he
          (by intro z hz hzN; simp at hzN; subst hzN; exact hb.2.1.2 hz)
        have hpost := tr_isSome hrelD _ h3
          (by intro z hz hzN; simp at hzN; subst hzN; exact hb.2.2 hz)
        simp only [tL] at helse hpost
        exact append_intro hpre (ite_intro (by simpa [tC] using wfC_tr hrelD c hc)
          (ite_fill_isSome _ hthen) helse hpost)
      · simp only [Option.map_eq_some_iff, Prod.mk.injEq, Prod.exists] at h
        obtain ⟨s0, e', hrec, rfl, rfl⟩ := h
        rw [set_eq_decomp ss st.idx _ _ hs] at hb ⊢
        simp only [bindL_append, bindL, bindS, bindL_ite_fill, List.mem_append, not_or] at hb
        have hxD : x ∉ Dpre.map Prod.fst := fun hm => hb.1 (hn x hm)
        obtain ⟨D', e'', hpre, hrelD⟩ := wfL_tr none [x] _ Γ Γ₂ _ (hL.rel hx) h1
          (by intro z hz hzN; simp at hzN; subst hzN; exact hb.1 hz)
        have hDD : D' = Dpre := List.append_cancel_right e''.symm
        subst hDD
        simp only [tL] at hpre
        have hxa : lookup x (D' ++ Γ) = none := by
          rw [lookup_append_none D' Γ x (lookup_none_of_not_mem D' x hxD)]; exact hx
        have helse := removeAt_wf x sh _ e e' _ _ hrec he hxa hb.2.1.2 (hL.append D' hxD)
        have hthen := tr_isSome hrelD _ ht
          (by intro z hz hzN; simp at hzN; subst hzN; exact hb.2.1.1 hz)
        have hpost := tr_isSome hrelD _ h3
          (by intro z hz hzN; simp at hzN; subst hzN; exact hb.2.2 hz)
        simp only [tL] at hthen hpost
        exact append_intro hpre (ite_intro (by simpa [tC] using wfC_tr hrelD c hc) hthen
          (ite_fill_isSome _ helse) hpost)
    · cases h

theorem liftAlloc_local (rel : Path) (Γ : Env) (ss r : List Stmt) (hr : liftAlloc rel ss = some r)
    (hok : liftAllocOk Γ rel ss = true) (hw : (wfL Γ ss).isSome = true) :
    (wfL Γ r).isSome = true := by
  unfold liftAlloc at hr
  split at hr
  · rename_i s rest
    split at hr
    · rename_i st0 nxt prest
      split at hr
      · rename_i x sh s' hrem
        simp only [Option.some.injEq] at hr
        subst hr
        simp only [liftAllocOk, hrem, Bool.and_eq_true, Bool.not_eq_true'] at hok
        obtain ⟨⟨⟨hf, hsh⟩, hbs⟩, hbr⟩ := hok
        have hx0 := (fresh_iff _ _).1 hf
        have hxs : x ∉ bindS s' := by
          intro h; have : (bindS s').contains x = true := by simpa using h
          rw [hbs] at this; cases this
        have hxr : x ∉ bindL rest := by
          intro h; have : (bindL rest).contains x = true := by simpa using h
          rw [hbr] at this; cases this
        -- the whole suffix `s' :: rest` is `removeAt` of `s :: rest` at the same address
        have hrem2 : removeAt (.body 0 :: nxt :: prest) (s :: rest) = some (.alloc x sh, s' :: rest) := by
          simp only [removeAt, Step.idx, List.getElem?_cons_zero] at hrem ⊢
          split at hrem
          · split at hrem
            · simp only [Option.map_eq_some_iff, Prod.mk.injEq, Prod.exists, List.set_cons_zero] at hrem ⊢
              obtain ⟨a, b', h1, h2, h3⟩ := hrem
              exact ⟨a, b', h1, h2, by simpa using h3⟩
            · cases hrem
          · split at hrem
            · simp only [Option.map_eq_some_iff, Prod.mk.injEq, Prod.exists, List.set_cons_zero] at hrem ⊢
              obtain ⟨a, b', h1, h2, h3⟩ := hrem
              exact ⟨a, b', h1, h2, by simpa using h3⟩
            · simp only [Option.map_eq_some_iff, Prod.mk.injEq, Prod.exists, List.set_cons_zero] at hrem ⊢
              obtain ⟨a, b', h1, h2, h3⟩ := hrem
              exact ⟨a, b', h1, h2, by simpa using h3⟩
          · cases hrem
        refine alloc_intro hf hsh ?_
        exact removeAt_wf x sh _ (s :: rest) (s' :: rest) Γ _ hrem2 hw hx0
          (by simp only [bindL, List.mem_append, not_or]; exact ⟨hxs, hxr⟩) (fun _ => rfl)
      · cases hr
    · cases hr
  · cases hr

end Exo.WfShapes
