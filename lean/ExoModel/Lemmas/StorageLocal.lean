/-
  The storage rewrites as *guarded* local rewrites: the shape of ExoModel/RewriteStorage.lean
  together with an executable syntactic guard under which the rewrite is refinement-sound on EVERY
  block, so that the path-addressed congruence `rewriteAt_refW` applies.
-/
import ExoModel.Lemmas.StorageAlloc2

set_option linter.unusedSectionVars false
set_option linter.unusedVariables false
namespace Exo.Rw
open Exo

def notIn (x : Sym) (l : List Sym) : Bool := !l.contains x

theorem notIn_iff {x : Sym} {l : List Sym} : notIn x l = true ↔ ∀ y ∈ l, y ≠ x := by
  unfold notIn
  simp only [Bool.not_eq_true', List.contains_eq_mem, decide_eq_false_iff_not]
  constructor
  · intro h y hy e; exact h (e ▸ hy)
  · intro h hx; exact h x hx rfl

/-- guard of `lift_alloc` (one level, allocation at the head of a loop body / `then` branch):
    the extents are positive literals and the name is not mentioned outside the scope -/
def liftAllocGuard : List Stmt → Bool
  | .loop _ lo hi (.alloc x sh :: _) _ :: rest =>
      posLits sh && notIn x (lo.names ++ hi.names ++ namesL rest)
  | .ite c (.alloc x sh :: _) E :: rest =>
      posLits sh && notIn x (c.names ++ namesL E ++ namesL rest)
  | _ => false

/-- `lift_alloc(alloc, n_lifts = 1)` for an allocation that is the first statement of its scope -/
def liftAllocHead : Local := fun ss =>
  if liftAllocGuard ss then liftAlloc [.body 0, .body 0] ss else none

theorem liftAllocHead_eq (ss : List Stmt) (h : liftAllocGuard ss = true) :
    liftAllocHead ss = liftAlloc [.body 0, .body 0] ss := by
  simp [liftAllocHead, h]

theorem loop_fillPass (pre : List Stmt) (i : Sym) (lo hi : Expr) (B rest : List Stmt) (par : Bool) :
    BlockRefW (pre ++ .loop i lo hi B par :: rest) (pre ++ .loop i lo hi (fillPass B) par :: rest) := by
  have h := (BlockEq.loop (fillPass_eq B) i lo hi par).seq pre rest
  have h2 := blockRefW_of_blockRef (blockRef_of_blockLe h.le)
  simpa using h2

theorem ite_fillPass (pre : List Stmt) (c : Expr) (B E rest : List Stmt) :
    BlockRefW (pre ++ .ite c B E :: rest) (pre ++ .ite c (fillPass B) E :: rest) := by
  have h := (BlockEq.iteT (fillPass_eq B) c E).seq pre rest
  have h2 := blockRefW_of_blockRef (blockRef_of_blockLe h.le)
  simpa using h2

theorem liftAllocHead_sound : ∀ (ss r : List Stmt), liftAllocHead ss = some r → BlockRefW ss r := by
  intro ss r h
  unfold liftAllocHead at h
  split at h
  · rename_i hg
    cases ss with
    | nil => simp [liftAllocGuard] at hg
    | cons s rest =>
      cases s with
      | loop i lo hi b par =>
        cases b with
        | nil => simp [liftAllocGuard] at hg
        | cons a B =>
          cases a with
          | alloc x sh =>
            simp only [liftAllocGuard, Bool.and_eq_true] at hg
            have e : liftAlloc [.body 0, .body 0] (.loop i lo hi (.alloc x sh :: B) par :: rest)
                = some (.alloc x sh :: .loop i lo hi (fillPass B) par :: rest) := rfl
            rw [e] at h
            cases h
            exact BlockRefW.trans
              (lift_for_refW x i lo hi sh B rest par hg.1 (notIn_iff.1 hg.2))
              (loop_fillPass [.alloc x sh] i lo hi B rest par)
          | _ => simp [liftAllocGuard] at hg
      | ite c t E =>
        cases t with
        | nil => simp [liftAllocGuard] at hg
        | cons a B =>
          cases a with
          | alloc x sh =>
            simp only [liftAllocGuard, Bool.and_eq_true] at hg
            have e : liftAlloc [.body 0, .body 0] (.ite c (.alloc x sh :: B) E :: rest)
                = some (.alloc x sh :: .ite c (fillPass B) E :: rest) := rfl
            rw [e] at h
            cases h
            exact BlockRefW.trans
              (lift_if_refW x c sh B E rest hg.1 (notIn_iff.1 hg.2))
              (ite_fillPass [.alloc x sh] c B E rest)
          | _ => simp [liftAllocGuard] at hg
      | _ => simp [liftAllocGuard] at hg
  · cases h

/-- guard of `delete_buffer`: the rest of the block does not mention the name -/
def deleteBufferGuard : List Stmt → Bool
  | .alloc x _ :: rest => notIn x (namesL rest)
  | _ => false

def deleteBufferDead (fill : Bool) : Local := fun ss =>
  if deleteBufferGuard ss then deleteBuffer fill ss else none

theorem deleteBufferDead_sound (fill : Bool) :
    ∀ (ss r : List Stmt), deleteBufferDead fill ss = some r → BlockRefW ss r := by
  intro ss r h
  unfold deleteBufferDead at h
  split at h
  · rename_i hg
    cases ss with
    | nil => simp [deleteBufferGuard] at hg
    | cons s rest =>
      cases s with
      | alloc x sh =>
        simp only [deleteBufferGuard] at hg
        simp only [deleteBuffer, Option.some.injEq] at h
        subst h
        refine BlockRefW.trans (dead_alloc_refW x sh rest (notIn_iff.1 hg)) ?_
        split
        · rename_i hf
          simp only [Bool.and_eq_true] at hf
          have : rest = [] := List.isEmpty_iff.1 hf.2
          subst this
          have := fillPass_eq []
          exact blockRefW_of_blockRef (blockRef_of_blockLe this.le)
        · exact BlockRefW.refl _
      | _ => simp [deleteBufferGuard] at hg
  · cases h

end Exo.Rw

namespace Exo
variable {V : Type} [DataAlg V]

/-- extents that do not read configuration state and do not mention the loop variable -/
def shapeStable (i : Sym) (sh : List Expr) : Bool := sh.all (fun e => e.cfgFree && !e.occC i)

theorem evalCs_stable (i : Sym) : ∀ (sh : List Expr), shapeStable i sh = true →
    ∀ (σ s : State V) (v : Int), s.env = σ.env → s.views = σ.views →
      evalCs (s.bind i v) sh = evalCs σ sh
  | [], _, _, _, _, _, _ => rfl
  | e :: r, h, σ, s, v, he, hv => by
    simp only [shapeStable, List.all_cons, Bool.and_eq_true, Bool.not_eq_true'] at h
    have ih := evalCs_stable i r (by simpa [shapeStable] using h.2) σ s v he hv
    have e1 : evalC (s.bind i v) e = evalC s e := by
      have := evalC_env e s ((i, v) :: s.env) (fun y hy => by
        rw [lookupSym_cons]
        have : y ≠ i := fun hyi => by rw [hyi, h.1.2] at hy; cases hy
        simp [this])
      exact this
    have e2 : evalC s e = evalC σ e := evalC_cfgFree e σ s h.1.1 he hv
    simp only [evalCs]
    rw [e1, e2, ih]

end Exo
