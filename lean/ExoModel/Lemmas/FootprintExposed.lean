/-
  Lemmas about dynamic footprints, part 7: DETERMINACY ON THE UPWARD-EXPOSED READS.

  `detS/detL/detP` (FootprintDetStmt.lean) ask that EVERY read of the run lies in the agreed set.
  Here a cell joins the agreed set as soon as the run writes it (both runs write the same value, so
  afterwards the two states agree on it): only the reads that are not preceded by a write of the
  same cell in the same run — the upward-exposed reads — have to lie in the set the two initial
  states agree on.  Same for configuration fields.  A `reduce` reads the old contents: it neither
  needs the cell to be agreed nor makes it agreed.

  * `ExposedIn P Pk t`        every upward-exposed read of `t` lies in `P` / `Pk`
  * `after P t`, `afterK Pk t` the agreed sets after the events of `t`
  * `detS_exposed / detL_exposed / detP_exposed`   lock step + agreement on `after P t`
-/
import ExoModel.Lemmas.FootprintDetStmt

set_option linter.unusedSectionVars false
set_option linter.unusedVariables false
namespace Exo.Fp
open Exo

variable {V : Type}

/-- every read of the event list lies in the (growing) agreed set: a cell joins `P` when it is
    written, a field joins `Pk` when it is written; a `red` event changes nothing -/
def ExposedIn : (Cell → Prop) → (Key → Prop) → List (Ev V) → Prop
  | _, _, [] => True
  | P, Pk, .rd c :: r => P c ∧ ExposedIn P Pk r
  | P, Pk, .crd k :: r => Pk k ∧ ExposedIn P Pk r
  | P, Pk, .wr c _ :: r => ExposedIn (fun c' => P c' ∨ c' = c) Pk r
  | P, Pk, .red _ _ :: r => ExposedIn P Pk r
  | P, Pk, .cwr k _ :: r => ExposedIn P (fun k' => Pk k' ∨ k' = k) r

/-- the agreed cells after the events of `t` -/
def after (P : Cell → Prop) (t : List (Ev V)) : Cell → Prop := fun c => P c ∨ c ∈ writes t
/-- the agreed configuration fields after the events of `t` -/
def afterK (Pk : Key → Prop) (t : List (Ev V)) : Key → Prop := fun k => Pk k ∨ k ∈ cfgWrites t

/-! ### `writes` / `cfgWrites` of a cons, an append, a pure list -/

@[simp] theorem writes_nil : writes ([] : List (Ev V)) = [] := rfl
@[simp] theorem writes_cons_rd (c : Cell) (r : List (Ev V)) : writes (Ev.rd c :: r) = writes r := rfl
@[simp] theorem writes_cons_wr (c : Cell) (v : Option V) (r : List (Ev V)) :
    writes (Ev.wr c v :: r) = c :: writes r := rfl
@[simp] theorem writes_cons_red (c : Cell) (v : Option V) (r : List (Ev V)) :
    writes (Ev.red c v :: r) = writes r := rfl
@[simp] theorem writes_cons_crd (k : Key) (r : List (Ev V)) : writes (Ev.crd k :: r) = writes r := rfl
@[simp] theorem writes_cons_cwr (k : Key) (v : CfgVal V) (r : List (Ev V)) :
    writes (Ev.cwr k v :: r) = writes r := rfl

@[simp] theorem cfgWrites_nil : cfgWrites ([] : List (Ev V)) = [] := rfl
@[simp] theorem cfgWrites_cons_rd (c : Cell) (r : List (Ev V)) :
    cfgWrites (Ev.rd c :: r) = cfgWrites r := rfl
@[simp] theorem cfgWrites_cons_wr (c : Cell) (v : Option V) (r : List (Ev V)) :
    cfgWrites (Ev.wr c v :: r) = cfgWrites r := rfl
@[simp] theorem cfgWrites_cons_red (c : Cell) (v : Option V) (r : List (Ev V)) :
    cfgWrites (Ev.red c v :: r) = cfgWrites r := rfl
@[simp] theorem cfgWrites_cons_crd (k : Key) (r : List (Ev V)) :
    cfgWrites (Ev.crd k :: r) = cfgWrites r := rfl
@[simp] theorem cfgWrites_cons_cwr (k : Key) (v : CfgVal V) (r : List (Ev V)) :
    cfgWrites (Ev.cwr k v :: r) = k :: cfgWrites r := rfl

theorem writes_append (t₁ t₂ : List (Ev V)) : writes (t₁ ++ t₂) = writes t₁ ++ writes t₂ := by
  unfold writes; rw [List.filterMap_append]

theorem cfgWrites_append (t₁ t₂ : List (Ev V)) :
    cfgWrites (t₁ ++ t₂) = cfgWrites t₁ ++ cfgWrites t₂ := by
  unfold cfgWrites; rw [List.filterMap_append]

section
variable [DataAlg V]

theorem writes_pure : ∀ {t : List (Ev V)}, AllPure t → writes t = []
  | [], _ => rfl
  | e :: r, h => by
    have he := h e List.mem_cons_self
    have ih := writes_pure (t := r) (fun x hx => h x (List.mem_cons_of_mem _ hx))
    cases e with
    | rd _ => rw [writes_cons_rd]; exact ih
    | crd _ => rw [writes_cons_crd]; exact ih
    | wr _ _ => simp [Ev.pure] at he
    | red _ _ => simp [Ev.pure] at he
    | cwr _ _ => simp [Ev.pure] at he

theorem cfgWrites_pure : ∀ {t : List (Ev V)}, AllPure t → cfgWrites t = []
  | [], _ => rfl
  | e :: r, h => by
    have he := h e List.mem_cons_self
    have ih := cfgWrites_pure (t := r) (fun x hx => h x (List.mem_cons_of_mem _ hx))
    cases e with
    | rd _ => rw [cfgWrites_cons_rd]; exact ih
    | crd _ => rw [cfgWrites_cons_crd]; exact ih
    | wr _ _ => simp [Ev.pure] at he
    | red _ _ => simp [Ev.pure] at he
    | cwr _ _ => simp [Ev.pure] at he

end

/-! ### `after` / `afterK` -/

section
variable {P P' : Cell → Prop} {Pk Pk' : Key → Prop}

theorem after_append (t₁ t₂ : List (Ev V)) (c : Cell) :
    after P (t₁ ++ t₂) c ↔ after (after P t₁) t₂ c := by
  simp only [after, writes_append, List.mem_append, or_assoc]

theorem afterK_append (t₁ t₂ : List (Ev V)) (k : Key) :
    afterK Pk (t₁ ++ t₂) k ↔ afterK (afterK Pk t₁) t₂ k := by
  simp only [afterK, cfgWrites_append, List.mem_append, or_assoc]

theorem after_base {t : List (Ev V)} {c : Cell} (h : P c) : after P t c := Or.inl h
theorem afterK_base {t : List (Ev V)} {k : Key} (h : Pk k) : afterK Pk t k := Or.inl h

theorem after_cons_wr (c : Cell) (v : Option V) (r : List (Ev V)) (c' : Cell) :
    after (fun c' => P c' ∨ c' = c) r c' ↔ after P (Ev.wr c v :: r) c' := by
  simp only [after, writes_cons_wr, List.mem_cons, or_assoc]

theorem afterK_cons_cwr (k : Key) (v : CfgVal V) (r : List (Ev V)) (k' : Key) :
    afterK (fun k' => Pk k' ∨ k' = k) r k' ↔ afterK Pk (Ev.cwr k v :: r) k' := by
  simp only [afterK, cfgWrites_cons_cwr, List.mem_cons, or_assoc]

theorem after_wr1 (c : Cell) (v : Option V) (c' : Cell) :
    after P [(Ev.wr c v : Ev V)] c' ↔ P c' ∨ c' = c := by
  simp [after]

theorem afterK_cwr1 (k : Key) (v : CfgVal V) (k' : Key) :
    afterK Pk [(Ev.cwr k v : Ev V)] k' ↔ Pk k' ∨ k' = k := by
  simp [afterK]

section
variable [DataAlg V]

theorem after_pure {t : List (Ev V)} (h : AllPure t) (c : Cell) : after P t c ↔ P c := by
  simp only [after, writes_pure h, List.not_mem_nil, or_false]

theorem afterK_pure {t : List (Ev V)} (h : AllPure t) (k : Key) : afterK Pk t k ↔ Pk k := by
  simp only [afterK, cfgWrites_pure h, List.not_mem_nil, or_false]

theorem after_pure_append {t₁ : List (Ev V)} (h : AllPure t₁) (t₂ : List (Ev V)) (c : Cell) :
    after P (t₁ ++ t₂) c ↔ after P t₂ c := by
  simp only [after, writes_append, writes_pure h, List.nil_append]

theorem afterK_pure_append {t₁ : List (Ev V)} (h : AllPure t₁) (t₂ : List (Ev V)) (k : Key) :
    afterK Pk (t₁ ++ t₂) k ↔ afterK Pk t₂ k := by
  simp only [afterK, cfgWrites_append, cfgWrites_pure h, List.nil_append]

end

/-! ### monotonicity and congruence -/

theorem exposedIn_mono : ∀ (t : List (Ev V)) {P P' : Cell → Prop} {Pk Pk' : Key → Prop},
    (∀ c, P c → P' c) → (∀ k, Pk k → Pk' k) → ExposedIn P Pk t → ExposedIn P' Pk' t
  | [], _, _, _, _, _, _, _ => by simp only [ExposedIn]
  | .rd c :: r, _, _, _, _, hP, hK, h => by
    simp only [ExposedIn] at h ⊢
    exact ⟨hP c h.1, exposedIn_mono r hP hK h.2⟩
  | .crd k :: r, _, _, _, _, hP, hK, h => by
    simp only [ExposedIn] at h ⊢
    exact ⟨hK k h.1, exposedIn_mono r hP hK h.2⟩
  | .wr c v :: r, _, _, _, _, hP, hK, h => by
    simp only [ExposedIn] at h ⊢
    exact exposedIn_mono r (fun c' hc => hc.imp (hP c') id) hK h
  | .red c v :: r, _, _, _, _, hP, hK, h => by
    simp only [ExposedIn] at h ⊢
    exact exposedIn_mono r hP hK h
  | .cwr k v :: r, _, _, _, _, hP, hK, h => by
    simp only [ExposedIn] at h ⊢
    exact exposedIn_mono r hP (fun k' hk => hk.imp (hK k') id) h

theorem exposedIn_congr {t : List (Ev V)} (hP : ∀ c, P c ↔ P' c) (hK : ∀ k, Pk k ↔ Pk' k) :
    ExposedIn P Pk t ↔ ExposedIn P' Pk' t :=
  ⟨exposedIn_mono t (fun c => (hP c).1) (fun k => (hK k).1),
   exposedIn_mono t (fun c => (hP c).2) (fun k => (hK k).2)⟩

/-- agreement on a bigger set implies agreement on a smaller one -/
theorem Agree.mono {s s' : State V} (hA : Agree P Pk s s') (hP : ∀ c, P' c → P c)
    (hK : ∀ k, Pk' k → Pk k) : Agree P' Pk' s s' :=
  ⟨hA.env, hA.views, hA.shape, fun c hc => hA.cells c (hP c hc), fun k hk => hA.cfg k (hK k hk)⟩

theorem Agree.congr {s s' : State V} (hA : Agree P Pk s s') (hP : ∀ c, P c ↔ P' c)
    (hK : ∀ k, Pk k ↔ Pk' k) : Agree P' Pk' s s' :=
  hA.mono (fun c => (hP c).2) (fun k => (hK k).2)

theorem LockA.mono {r r' : Except Err (State V)} (h : LockA P Pk r r') (hP : ∀ c, P' c → P c)
    (hK : ∀ k, Pk' k → Pk k) : LockA P' Pk' r r' := by
  cases r with
  | error e =>
    cases r' with
    | error e' => exact LockA.err
    | ok t' => unfold LockA at h; exact h.elim
  | ok t =>
    cases r' with
    | error e' => unfold LockA at h; exact h.elim
    | ok t' => unfold LockA at h; exact LockA.ok (h.mono hP hK)

/-! ### `ExposedIn` of an append; pure event lists -/

theorem exposedIn_append : ∀ (t₁ t₂ : List (Ev V)) (P : Cell → Prop) (Pk : Key → Prop),
    ExposedIn P Pk (t₁ ++ t₂) ↔ ExposedIn P Pk t₁ ∧ ExposedIn (after P t₁) (afterK Pk t₁) t₂
  | [], t₂, P, Pk => by
    simp only [List.nil_append, ExposedIn, true_and]
    exact exposedIn_congr (fun c => by simp [after]) (fun k => by simp [afterK])
  | .rd c :: r, t₂, P, Pk => by
    simp only [List.cons_append, ExposedIn, and_assoc]
    rw [exposedIn_append r t₂ P Pk]
    exact Iff.rfl
  | .crd k :: r, t₂, P, Pk => by
    simp only [List.cons_append, ExposedIn, and_assoc]
    rw [exposedIn_append r t₂ P Pk]
    exact Iff.rfl
  | .wr c v :: r, t₂, P, Pk => by
    simp only [List.cons_append, ExposedIn]
    rw [exposedIn_append r t₂ _ Pk]
    exact and_congr Iff.rfl (exposedIn_congr (fun c' => after_cons_wr c v r c') (fun k => Iff.rfl))
  | .red c v :: r, t₂, P, Pk => by
    simp only [List.cons_append, ExposedIn]
    rw [exposedIn_append r t₂ P Pk]
    exact Iff.rfl
  | .cwr k v :: r, t₂, P, Pk => by
    simp only [List.cons_append, ExposedIn]
    rw [exposedIn_append r t₂ P _]
    exact and_congr Iff.rfl (exposedIn_congr (fun c' => Iff.rfl) (fun k' => afterK_cons_cwr k v r k'))

section
variable [DataAlg V]

/-- without writes, "upward exposed" and "all" reads coincide -/
theorem exposedIn_pure : ∀ {t : List (Ev V)}, AllPure t → (ExposedIn P Pk t ↔ ReadsIn P Pk t)
  | [], _ => by
    simp only [ExposedIn, true_iff]; exact readsIn_nil
  | e :: r, h => by
    have he := h e List.mem_cons_self
    have ih := exposedIn_pure (t := r) (fun x hx => h x (List.mem_cons_of_mem _ hx))
    unfold ReadsIn at ih ⊢
    rw [List.forall_mem_cons, ← ih]
    cases e with
    | rd c => simp only [ExposedIn, Ev.okRead]
    | crd k => simp only [ExposedIn, Ev.okRead]
    | wr _ _ => simp [Ev.pure] at he
    | red _ _ => simp [Ev.pure] at he
    | cwr _ _ => simp [Ev.pure] at he

theorem exposedIn_pure_append {t₁ : List (Ev V)} (h : AllPure t₁) (t₂ : List (Ev V)) :
    ExposedIn P Pk (t₁ ++ t₂) ↔ ReadsIn P Pk t₁ ∧ ExposedIn P Pk t₂ := by
  rw [exposedIn_append, exposedIn_pure h]
  exact and_congr Iff.rfl (exposedIn_congr (after_pure h) (afterK_pure h))

end

/-! ### agreement is preserved, on the grown sets -/

variable {s s' : State V}

/-- after writing the SAME value to cell `c` on both sides the states agree on `P ∪ {c}` -/
theorem Agree.write' (hA : Agree P Pk s s') {c : Cell} (hv : Valid s.heap c) (v : Option V) :
    Agree (fun c' => P c' ∨ c' = c) Pk
      { s with heap := heapSet s.heap c v } { s' with heap := heapSet s'.heap c v } := by
  refine ⟨hA.env, hA.views, ?_, fun c' hp => ?_, hA.cfg⟩
  · simp only [shape_heapSet]; exact hA.shape
  · simp only []
    by_cases hcc : c = c'
    · subst hcc
      rw [heapGet_heapSet_eq _ _ _ hv, heapGet_heapSet_eq _ _ _ (valid_of_shape hA.shape hv)]
    · rw [heapGet_heapSet_ne _ _ _ _ hcc, heapGet_heapSet_ne _ _ _ _ hcc]
      rcases hp with hp | hp
      · exact hA.cells c' hp
      · exact absurd hp.symm hcc

theorem Agree.setCfg' (hA : Agree P Pk s s') (k : Key) (v : CfgVal V) :
    Agree P (fun k' => Pk k' ∨ k' = k)
      { s with cfg := Exo.setCfg k v s.cfg } { s' with cfg := Exo.setCfg k v s'.cfg } := by
  refine ⟨hA.env, hA.views, hA.shape, hA.cells, fun k' hp => ?_⟩
  simp only [lookupCfg_setCfg]
  by_cases h : k' = k
  · simp [h]
  · simp only [h, if_false]; exact hA.cfg k' (hp.resolve_right h)

/-- leaving a scope: only the scope (env, views, heap length) of the entry states matters -/
theorem Agree.leave' {Q : Cell → Prop} {Qk : Key → Prop} (hA : Agree P Pk s s') {t t' : State V}
    (hT : Agree Q Qk t t') : Agree Q Qk (State.leave s t) (State.leave s' t') := by
  refine ⟨hA.env, hA.views, ?_, fun c hp => ?_, hT.cfg⟩
  · simp only [State.leave, List.map_take, hA.len, hT.shape]
  · simp only [State.leave, hA.len]
    by_cases hlt : c.1 < s.heap.length
    · rw [heapGet_take _ _ _ hlt, heapGet_take _ _ _ hlt]
      exact hT.cells c hp
    · rw [heapGet_out, heapGet_out]
      · simp only [List.length_take]; omega
      · simp only [List.length_take]; omega

theorem lockA_map_leave' {Q : Cell → Prop} {Qk : Key → Prop} (hA : Agree P Pk s s')
    {r r' : Except Err (State V)} (h : LockA Q Qk r r') :
    LockA Q Qk (r.map (State.leave s)) (r'.map (State.leave s')) := by
  cases r with
  | error e =>
    cases r' with
    | error e' => exact LockA.err
    | ok t' => unfold LockA at h; exact h.elim
  | ok t =>
    cases r' with
    | error e' => unfold LockA at h; exact h.elim
    | ok t' =>
      unfold LockA at h
      exact LockA.ok (hA.leave' h)

section
variable [DataAlg V]

theorem Agree.after_pure {t₀ : List (Ev V)} (h0 : AllPure t₀) (hA : Agree P Pk s s') :
    Agree (after P t₀) (afterK Pk t₀) s s' :=
  hA.mono (fun c => (Fp.after_pure h0 c).1) (fun k => (Fp.afterK_pure h0 k).1)

theorem LockA.pure_prefix {t₀ t : List (Ev V)} (h0 : AllPure t₀) {r r' : Except Err (State V)}
    (h : LockA (after P t) (afterK Pk t) r r') :
    LockA (after P (t₀ ++ t)) (afterK Pk (t₀ ++ t)) r r' :=
  h.mono (fun c => (after_pure_append h0 t c).1) (fun k => (afterK_pure_append h0 t k).1)

theorem Agree.after_wr {t₀ : List (Ev V)} (h0 : AllPure t₀) (hA : Agree P Pk s s') {c : Cell}
    (hv : Valid s.heap c) (v : Option V) :
    Agree (after P (t₀ ++ [Ev.wr c v])) (afterK Pk (t₀ ++ [Ev.wr c v]))
      { s with heap := heapSet s.heap c v } { s' with heap := heapSet s'.heap c v } := by
  refine (hA.write' hv v).mono (fun c' hc => ?_) (fun k hk => ?_)
  · exact (after_wr1 c v c').1 ((after_pure_append h0 _ c').1 hc)
  · have := (afterK_pure_append h0 _ k).1 hk
    simpa [afterK] using this

theorem Agree.after_red {t₀ : List (Ev V)} (h0 : AllPure t₀) (hA : Agree P Pk s s') {c : Cell}
    (hv : Valid s.heap c) (v v' w : Option V) (hvv : P c → v' = v) :
    Agree (after P (t₀ ++ [Ev.red c w])) (afterK Pk (t₀ ++ [Ev.red c w]))
      { s with heap := heapSet s.heap c v } { s' with heap := heapSet s'.heap c v' } := by
  refine (hA.write hv v v' hvv).mono (fun c' hc => ?_) (fun k hk => ?_)
  · have := (after_pure_append h0 _ c').1 hc
    simpa [after] using this
  · have := (afterK_pure_append h0 _ k).1 hk
    simpa [afterK] using this

theorem Agree.after_cwr {t₀ : List (Ev V)} (h0 : AllPure t₀) (hA : Agree P Pk s s') (k : Key)
    (v : CfgVal V) :
    Agree (after P (t₀ ++ [Ev.cwr k v])) (afterK Pk (t₀ ++ [Ev.cwr k v]))
      { s with cfg := Exo.setCfg k v s.cfg } { s' with cfg := Exo.setCfg k v s'.cfg } := by
  refine (hA.setCfg' k v).mono (fun c' hc => ?_) (fun k' hk => ?_)
  · have := (after_pure_append h0 _ c').1 hc
    simpa [after] using this
  · exact (afterK_cwr1 k v k').1 ((afterK_pure_append h0 _ k').1 hk)

end

/-! ### sequencing -/

/-- the common step of blocks and loops: after a first fragment (events `t₁`, outcomes `r`, `r'` in
    lock step, agreeing on `after P t₁`), run a continuation that is determined by the exposed
    reads -/
theorem seq_exposed {t₁ : List (Ev V)} {r r' : Except Err (State V)}
    {g : State V → List (Ev V)} {f : State V → Except Err (State V)}
    (l1 : LockA (after P t₁) (afterK Pk t₁) r r')
    (h2 : ExposedIn (after P t₁) (afterK Pk t₁) (onOk r g))
    (hstep : ∀ t t', Agree (after P t₁) (afterK Pk t₁) t t' →
      ExposedIn (after P t₁) (afterK Pk t₁) (g t) →
      g t' = g t ∧ LockA (after (after P t₁) (g t)) (afterK (afterK Pk t₁) (g t)) (f t) (f t')) :
    onOk r' g = onOk r g ∧
      LockA (after P (t₁ ++ onOk r g)) (afterK Pk (t₁ ++ onOk r g)) (r >>= f) (r' >>= f) := by
  cases r with
  | error e =>
    cases r' with
    | error e' => exact ⟨rfl, LockA.err⟩
    | ok t' => unfold LockA at l1; exact l1.elim
  | ok t =>
    cases r' with
    | error e' => unfold LockA at l1; exact l1.elim
    | ok t' =>
      unfold LockA at l1
      simp only [onOk_ok] at h2 ⊢
      obtain ⟨e2, l2⟩ := hstep t t' l1 h2
      refine ⟨e2, ?_⟩
      exact l2.mono (fun c => (after_append t₁ (g t) c).1) (fun k => (afterK_append t₁ (g t) k).1)

theorem det_iterate_exposed (g : Int → State V → List (Ev V))
    (f : Int → State V → Except Err (State V))
    (hstep : ∀ (P : Cell → Prop) (Pk : Key → Prop) v s s', Agree P Pk s s' →
      ExposedIn P Pk (g v s) →
      g v s' = g v s ∧ LockA (after P (g v s)) (afterK Pk (g v s)) (f v s) (f v s')) :
    ∀ (n : Nat) (lo : Int) (P : Cell → Prop) (Pk : Key → Prop) (s s' : State V), Agree P Pk s s' →
      ExposedIn P Pk (evIter g f n lo s) →
      evIter g f n lo s' = evIter g f n lo s ∧
        LockA (after P (evIter g f n lo s)) (afterK Pk (evIter g f n lo s))
          (iterate f n lo s) (iterate f n lo s')
  | 0, lo, P, Pk, s, s', hA, _ => by
    refine ⟨rfl, ?_⟩
    simp only [iterate, pure, Except.pure, evIter]
    exact LockA.ok (hA.mono (fun c hc => by simpa [after] using hc)
      (fun k hk => by simpa [afterK] using hk))
  | n + 1, lo, P, Pk, s, s', hA, hR => by
    simp only [evIter] at hR ⊢
    rw [exposedIn_append] at hR
    obtain ⟨h1, h2⟩ := hR
    obtain ⟨e1, l1⟩ := hstep P Pk lo s s' hA h1
    rw [e1]
    simp only [iterate]
    obtain ⟨e2, l2⟩ := seq_exposed (f := iterate f n (lo + 1)) (g := evIter g f n (lo + 1)) l1 h2
      (fun t t' hT hE => det_iterate_exposed g f hstep n (lo + 1) _ _ t t' hT hE)
    rw [e2]
    exact ⟨rfl, l2⟩

end

/-! ### the mutual induction -/

section
variable [DataAlg V] (ext : String → List V → V)

mutual
theorem detS_exposed : ∀ (a : Stmt) (P : Cell → Prop) (Pk : Key → Prop) (s s' : State V),
    Agree P Pk s s' → ExposedIn P Pk (evS ext a s) →
    evS ext a s' = evS ext a s ∧
      LockA (after P (evS ext a s)) (afterK Pk (evS ext a s)) (execS ext a s) (execS ext a s')
  | .assign x idx rhs, P, Pk, s, s', hA, hR => by
    simp only [evS] at hR ⊢
    have hp0 := allPure_append (allPure_evD s rhs) (allPure_crds (V := V) (cfgCs idx))
    rw [exposedIn_pure_append hp0, readsIn_append] at hR
    obtain ⟨⟨h1, h2⟩, h3⟩ := hR
    obtain ⟨e1, e2⟩ := hA.evalD ext rhs h1
    have e3 := hA.target x idx (readsIn_crds.1 h2)
    rw [e1, e2, e3]
    refine ⟨rfl, ?_⟩
    simp only [execS, bind, Except.bind]
    rw [e1]
    cases hv : evalD ext s rhs with
    | error e => exact LockA.err
    | ok v =>
      simp only []
      rw [writeCell_eq, writeCell_eq, e3]
      cases hc : target s x idx with
      | error e => exact LockA.err
      | ok c =>
        simp only [Except.map, onOk_ok]
        exact LockA.ok (hA.after_wr hp0 (target_valid hc) v)
  | .reduce x idx rhs, P, Pk, s, s', hA, hR => by
    simp only [evS] at hR ⊢
    have hp0 := allPure_append (allPure_evD s rhs) (allPure_crds (V := V) (cfgCs idx))
    rw [exposedIn_pure_append hp0, readsIn_append] at hR
    obtain ⟨⟨h1, h2⟩, h3⟩ := hR
    obtain ⟨e1, e2⟩ := hA.evalD ext rhs h1
    have e3 := hA.target x idx (readsIn_crds.1 h2)
    rw [e1, e2, e3]
    refine ⟨rfl, ?_⟩
    simp only [execS, bind, Except.bind]
    rw [e1]
    cases hv : evalD ext s rhs with
    | error e => exact LockA.err
    | ok v =>
      simp only []
      rw [writeCell_eq, writeCell_eq, e3]
      cases hc : target s x idx with
      | error e => exact LockA.err
      | ok c =>
        simp only [Except.map, onOk_ok]
        exact LockA.ok (hA.after_red hp0 (target_valid hc) _ _ v
          (fun hp => by rw [hA.cells c hp]))
  | .writecfg c f rhs isData, P, Pk, s, s', hA, hR => by
    cases isData with
    | true =>
      simp only [evS, ↓reduceIte] at hR ⊢
      rw [exposedIn_pure_append (allPure_evD s rhs)] at hR
      obtain ⟨e1, e2⟩ := hA.evalD ext rhs hR.1
      rw [e1, e2]
      refine ⟨rfl, ?_⟩
      simp only [execS, ↓reduceIte, bind, Except.bind]
      rw [e1]
      cases hv : evalD ext s rhs with
      | error e => exact LockA.err
      | ok v =>
        simp only [onOk_ok]
        exact LockA.ok (hA.after_cwr (allPure_evD s rhs) (c, f) (.data v))
    | false =>
      simp only [evS, Bool.false_eq_true, ↓reduceIte] at hR ⊢
      rw [exposedIn_pure_append (allPure_crds _)] at hR
      have e1 := hA.evalC rhs (readsIn_crds.1 hR.1)
      rw [e1]
      refine ⟨rfl, ?_⟩
      simp only [execS, Bool.false_eq_true, ↓reduceIte, bind, Except.bind]
      rw [e1]
      cases hv : evalC s rhs with
      | error e => exact LockA.err
      | ok v =>
        simp only [onOk_ok]
        exact LockA.ok (hA.after_cwr (allPure_crds _) (c, f) (.ctrl v))
  | .pass, P, Pk, s, s', hA, _ =>
    ⟨rfl, by simp only [execS, evS]; exact LockA.ok (hA.after_pure allPure_nil)⟩
  | .free _, P, Pk, s, s', hA, _ =>
    ⟨rfl, by simp only [execS, evS]; exact LockA.ok (hA.after_pure allPure_nil)⟩
  | .ite c t e, P, Pk, s, s', hA, hR => by
    simp only [evS] at hR ⊢
    rw [exposedIn_pure_append (allPure_crds _)] at hR
    obtain ⟨h1, h2⟩ := hR
    have e1 := hA.evalC c (readsIn_crds.1 h1)
    rw [e1]
    simp only [execS, bind, Except.bind]
    rw [e1]
    cases hb : evalC s c with
    | error err => exact ⟨rfl, LockA.err⟩
    | ok b =>
      rw [hb] at h2
      simp only [onOk_ok] at h2 ⊢
      by_cases hz : b = 0
      · simp only [hz, ne_eq, not_true_eq_false, if_false] at h2 ⊢
        obtain ⟨e2, l2⟩ := detL_exposed e P Pk s s' hA h2
        rw [e2]
        exact ⟨rfl, (lockA_map_leave' hA l2).pure_prefix (allPure_crds _)⟩
      · simp only [hz, ne_eq, not_false_eq_true, if_true] at h2 ⊢
        obtain ⟨e2, l2⟩ := detL_exposed t P Pk s s' hA h2
        rw [e2]
        exact ⟨rfl, (lockA_map_leave' hA l2).pure_prefix (allPure_crds _)⟩
  | .loop i lo hi body par, P, Pk, s, s', hA, hR => by
    simp only [evS] at hR ⊢
    rw [exposedIn_pure_append (allPure_crds _)] at hR
    obtain ⟨h1, h2⟩ := hR
    have hk := readsIn_crds.1 h1
    have el := hA.evalC lo (fun k hk' => hk k (List.mem_append_left _ hk'))
    have eh := hA.evalC hi (fun k hk' => hk k (List.mem_append_right _ hk'))
    rw [el, eh]
    simp only [execS, bind, Except.bind]
    rw [el, eh]
    cases hl : evalC s lo with
    | error err => exact ⟨rfl, LockA.err⟩
    | ok l =>
      rw [hl] at h2
      cases hh : evalC s hi with
      | error err => exact ⟨rfl, LockA.err⟩
      | ok h =>
        rw [hh] at h2
        simp only [onOk_ok] at h2 ⊢
        by_cases hlt : h < l
        · simp only [hlt, if_true]
          exact ⟨trivial, LockA.err⟩
        · simp only [hlt, if_false] at h2 ⊢
          obtain ⟨e2, l2⟩ := det_iterate_exposed
            (fun v s => evL ext body (s.bind i v))
            (fun v s => (execL ext body (s.bind i v)).map (State.leave s))
            (fun Q Qk v a a' hAa hRa => by
              obtain ⟨e3, l3⟩ := detL_exposed body Q Qk (a.bind i v) (a'.bind i v) (hAa.bind i v) hRa
              exact ⟨e3, lockA_map_leave' hAa l3⟩)
            (h - l).toNat l P Pk s s' hA h2
          rw [e2]
          exact ⟨rfl, l2.pure_prefix (allPure_crds _)⟩
  | .alloc x shape, P, Pk, s, s', hA, hR => by
    simp only [evS] at hR ⊢
    have e1 := hA.evalCs shape (readsIn_crds.1 ((exposedIn_pure (allPure_crds _)).1 hR))
    refine ⟨trivial, ?_⟩
    simp only [execS, bind, Except.bind]
    rw [e1]
    cases hs : evalCs s shape with
    | error e => exact LockA.err
    | ok sh =>
      simp only []
      cases hk : checkSizes sh with
      | error e => exact LockA.err
      | ok u => exact LockA.ok ((hA.alloc x _ _).after_pure (allPure_crds _))
  | .call f args, P, Pk, s, s', hA, hR => by
    simp only [evS] at hR ⊢
    simp only [execS]
    exact detP_exposed f args P Pk s s' hA hR
  | .window x rhs, P, Pk, s, s', hA, hR => by
    simp only [evS] at hR ⊢
    have e1 := evalView_agree hA.env hA.views rhs
      (fun k hk => hA.cfg k (readsIn_crds.1 ((exposedIn_pure (allPure_crds _)).1 hR) k hk))
    refine ⟨trivial, ?_⟩
    simp only [execS, bind, Except.bind]
    rw [e1]
    cases hv : evalView s rhs with
    | error e => exact LockA.err
    | ok v => exact LockA.ok ((hA.bindView x v).after_pure (allPure_crds _))
theorem detL_exposed : ∀ (ss : List Stmt) (P : Cell → Prop) (Pk : Key → Prop) (s s' : State V),
    Agree P Pk s s' → ExposedIn P Pk (evL ext ss s) →
    evL ext ss s' = evL ext ss s ∧
      LockA (after P (evL ext ss s)) (afterK Pk (evL ext ss s)) (execL ext ss s) (execL ext ss s')
  | [], P, Pk, s, s', hA, _ =>
    ⟨rfl, by simp only [execL, evL]; exact LockA.ok (hA.after_pure allPure_nil)⟩
  | a :: r, P, Pk, s, s', hA, hR => by
    simp only [evL] at hR ⊢
    rw [exposedIn_append] at hR
    obtain ⟨h1, h2⟩ := hR
    obtain ⟨e1, l1⟩ := detS_exposed a P Pk s s' hA h1
    rw [e1]
    simp only [execL]
    obtain ⟨e2, l2⟩ := seq_exposed (f := fun σ' => execL ext r σ') (g := evL ext r) l1 h2
      (fun t t' hT hE => detL_exposed r _ _ t t' hT hE)
    rw [e2]
    exact ⟨rfl, l2⟩
theorem detP_exposed : ∀ (p : Proc) (args : List Expr) (P : Cell → Prop) (Pk : Key → Prop)
    (s s' : State V), Agree P Pk s s' → ExposedIn P Pk (evP ext p args s) →
    evP ext p args s' = evP ext p args s ∧
      LockA (after P (evP ext p args s)) (afterK Pk (evP ext p args s))
        (execP ext p args s) (execP ext p args s')
  | .mk nm fargs preds body, args, P, Pk, s, s', hA, hR => by
    simp only [evP] at hR ⊢
    have hp0 := allPure_append (allPure_crds (V := V) (cfgArgs args))
      (allPure_crds (V := V) (cfgShapes fargs ++ cfgCs preds))
    rw [exposedIn_pure_append hp0, readsIn_append] at hR
    obtain ⟨⟨h1, h2⟩, h3⟩ := hR
    have eb := bindArgs_agree hA.env hA.views fargs args [] []
      (fun k hk => hA.cfg k (readsIn_crds.1 h1 k hk))
    rw [eb]
    simp only [execP, bind, Except.bind]
    rw [eb]
    cases hb : bindArgs s fargs args [] [] with
    | error e => exact ⟨rfl, LockA.err⟩
    | ok cecv =>
      obtain ⟨ce, cv⟩ := cecv
      rw [hb] at h3
      simp only [onOk_ok] at h3 ⊢
      cases hna : noAlias cv with
      | false =>
        simp only [Bool.not_false, ↓reduceIte]
        exact ⟨trivial, LockA.err⟩
      | true =>
        simp only [hna, Bool.not_true, Bool.false_eq_true, ↓reduceIte] at h3 ⊢
        have hAc : Agree P Pk ({ env := ce, views := cv, heap := s.heap, cfg := s.cfg } : State V)
            { env := ce, views := cv, heap := s'.heap, cfg := s'.cfg } :=
          ⟨rfl, rfl, hA.shape, hA.cells, hA.cfg⟩
        have hk2 := readsIn_crds.1 h2
        have es := checkShapes_agree (s := { env := ce, views := cv, heap := s.heap, cfg := s.cfg })
          (s' := { env := ce, views := cv, heap := s'.heap, cfg := s'.cfg }) rfl rfl fargs
          (fun k hk => hA.cfg k (hk2 k (List.mem_append_left _ hk)))
        have ep := checkPreds_agree (s := { env := ce, views := cv, heap := s.heap, cfg := s.cfg })
          (s' := { env := ce, views := cv, heap := s'.heap, cfg := s'.cfg }) rfl rfl preds
          (fun k hk => hA.cfg k (hk2 k (List.mem_append_right _ hk)))
        rw [es, ep]
        cases hs : checkShapes ({ env := ce, views := cv, heap := s.heap, cfg := s.cfg } : State V) fargs with
        | error e => exact ⟨rfl, LockA.err⟩
        | ok u1 =>
          rw [hs] at h3
          simp only [onOk_ok] at h3 ⊢
          cases hp : checkPreds ({ env := ce, views := cv, heap := s.heap, cfg := s.cfg } : State V) preds with
          | error e => exact ⟨rfl, LockA.err⟩
          | ok u2 =>
            rw [hp] at h3
            simp only [onOk_ok] at h3 ⊢
            obtain ⟨e2, l2⟩ := detL_exposed body P Pk _ _ hAc h3
            rw [e2]
            refine ⟨rfl, LockA.pure_prefix hp0 ?_⟩
            cases hx : execL ext body ({ env := ce, views := cv, heap := s.heap, cfg := s.cfg } : State V) with
            | error e =>
              cases hx' : execL ext body ({ env := ce, views := cv, heap := s'.heap, cfg := s'.cfg } : State V) with
              | error e' => exact LockA.err
              | ok t' => rw [hx, hx'] at l2; unfold LockA at l2; exact l2.elim
            | ok t =>
              cases hx' : execL ext body ({ env := ce, views := cv, heap := s'.heap, cfg := s'.cfg } : State V) with
              | error e' => rw [hx, hx'] at l2; unfold LockA at l2; exact l2.elim
              | ok t' =>
                rw [hx, hx'] at l2
                unfold LockA at l2
                exact LockA.ok (hA.leave' l2)
end

end

end Exo.Fp
