/-
  Well-formedness of the results of the remaining shapes the tie knows: insert_pass, join_loops
  (in `isSome` form) and the four `lift_scope` shapes of ExoModel/RewriteMore.lean.
-/
import ExoModel.Lemmas.WfShapes4

namespace Exo.WfShapes
open Exo Exo.Wf Exo.Rw

theorem insertPassBefore_local (Γ : Env) (ss r : List Stmt) (hr : insertPassBefore ss = some r)
    (hw : (wfL Γ ss).isSome = true) : (wfL Γ r).isSome = true := by
  unfold insertPassBefore at hr
  split at hr
  · simp only [Option.some.injEq] at hr
    subst hr
    simpa [wfL, wfS] using hw
  · cases hr

theorem insertPassAfter_local (Γ : Env) (ss r : List Stmt) (hr : insertPassAfter ss = some r)
    (hw : (wfL Γ ss).isSome = true) : (wfL Γ r).isSome = true := by
  unfold insertPassAfter at hr
  split at hr
  · rename_i s rest
    simp only [Option.some.injEq] at hr
    subst hr
    simp only [wfL] at hw ⊢
    cases h1 : wfS Γ s with
    | none => rw [h1] at hw; simp at hw
    | some Γ1 => rw [h1] at hw; simpa [wfS, wfL] using hw
  · cases hr

theorem joinLoops_local (Γ : Env) (ss r : List Stmt) (hr : joinLoops ss = some r)
    (hw : (wfL Γ ss).isSome = true) : (wfL Γ r).isSome = true := by
  obtain ⟨Γ', hΓ'⟩ := Option.isSome_iff_exists.1 hw
  rw [joinLoops_wfLocal Γ Γ' ss r hr hΓ']; rfl

/-- `if a: (if b: A else: B) else: C ↦ if b: (if a: A else: C) else: (if a: B else: C)` -/
theorem liftIfThen_local (Γ : Env) (ss r : List Stmt) (hr : liftIfThen ss = some r)
    (hw : (wfL Γ ss).isSome = true) : (wfL Γ r).isSome = true := by
  unfold liftIfThen at hr
  split at hr
  · rename_i a b A B C rest
    simp only [Option.some.injEq] at hr
    subst hr
    obtain ⟨ha, hin, hC, hrest⟩ := ite_inv hw
    obtain ⟨hb, hA, hB, _⟩ := ite_inv hin
    refine ite_intro hb (ite_intro ha hA hC (wfL_nil_isSome _)) ?_ hrest
    split
    · exact wfL_nil_isSome _
    · exact ite_intro ha hB hC (wfL_nil_isSome _)
  · cases hr

theorem liftIfElse_local (Γ : Env) (ss r : List Stmt) (hr : liftIfElse ss = some r)
    (hw : (wfL Γ ss).isSome = true) : (wfL Γ r).isSome = true := by
  unfold liftIfElse at hr
  split at hr
  · rename_i a A b B C rest
    simp only [Option.some.injEq] at hr
    subst hr
    obtain ⟨ha, hA, hin, hrest⟩ := ite_inv hw
    obtain ⟨hb, hB, hC, _⟩ := ite_inv hin
    refine ite_intro hb (ite_intro ha hA hB (wfL_nil_isSome _)) ?_ hrest
    split
    · exact wfL_nil_isSome _
    · exact ite_intro ha hA hC (wfL_nil_isSome _)
  · cases hr

/-- `if c: for i: A ↦ for i: if c: A` -/
theorem liftForOutOfIf_local (Γ : Env) (ss r : List Stmt) (hr : liftForOutOfIf ss = some r)
    (hw : (wfL Γ ss).isSome = true) : (wfL Γ r).isSome = true := by
  unfold liftForOutOfIf at hr
  split at hr
  · rename_i c i lo hi A par rest
    simp only [Option.some.injEq] at hr
    subst hr
    obtain ⟨hc, hin, _, hrest⟩ := ite_inv hw
    obtain ⟨hf, hlo, hhi, hA, _⟩ := loop_inv hin
    exact loop_intro par hf hlo hhi
      (ite_intro (wfC_weaken Γ i none c ((fresh_iff _ _).1 hf) hc) hA (wfL_nil_isSome _)
        (wfL_nil_isSome _)) hrest
  · cases hr

/-- `for i: (if c: A else: B) ↦ if c: (for i: A) else: (for i: B)`; the condition must not
    mention the iterator -/
theorem liftIfOutOfLoop_local (Γ : Env) (ss r : List Stmt) (hr : liftIfOutOfLoop ss = some r)
    (hok : liftIfOutOfLoopOk ss = true) (hw : (wfL Γ ss).isSome = true) :
    (wfL Γ r).isSome = true := by
  unfold liftIfOutOfLoop at hr
  split at hr
  · rename_i i lo hi c A B par rest
    simp only [Option.some.injEq] at hr
    subst hr
    simp only [liftIfOutOfLoopOk, Bool.not_eq_true'] at hok
    obtain ⟨hf, hlo, hhi, hin, hrest⟩ := loop_inv hw
    obtain ⟨hc, hA, hB, _⟩ := ite_inv hin
    refine ite_intro (dropC_unused hc hok) (loop_intro par hf hlo hhi hA (wfL_nil_isSome _)) ?_ hrest
    split
    · exact wfL_nil_isSome _
    · exact loop_intro par hf hlo hhi hB (wfL_nil_isSome _)
  · cases hr

end Exo.WfShapes
