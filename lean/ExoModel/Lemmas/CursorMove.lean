/-
  `Block._move`: the new tree is delete-then-insert or insert-then-delete (`_is_before` picks the
  order that keeps the second path stable); `_forward_move` computes the forwarded path directly.
  Here: the path-level facts that tie `fwdMoveNode` to the composition of the forwardings of the
  two atomic edits (for statements that stay) and to the place of the inserted copy (for the
  statements that move).  Part 1: views and bridging lemmas.
-/
import ExoModel.Lemmas.CursorEdits

namespace Exo.Cursor

/-! ### the view "path goes through list `a` of the node at `E`" -/

def viewThrough : Path → Attr → Path → Option (Nat × Path)
  | [], a, (b, i) :: rest => if b = a then some (i, rest) else none
  | [], _, [] => none
  | x :: E, a, y :: p => if y = x then viewThrough E a p else none
  | _ :: _, _, [] => none

theorem viewThrough_eq_some {E : Path} {a : Attr} {p : Path} {i : Nat} {rest : Path} :
    viewThrough E a p = some (i, rest) ↔ p = E ++ (a, i) :: rest := by
  induction E generalizing p with
  | nil =>
    cases p with
    | nil => simp [viewThrough]
    | cons s q =>
      obtain ⟨b, j⟩ := s
      by_cases hb : b = a
      · subst hb; simp [viewThrough]
      · simp only [viewThrough, hb, if_false, List.nil_append, List.cons.injEq, Prod.mk.injEq]
        constructor
        · intro h; cases h
        · rintro ⟨⟨h, _⟩, _⟩; first | exact absurd h hb | exact h.elim
  | cons x E ih =>
    cases p with
    | nil => simp [viewThrough]
    | cons y q =>
      by_cases hy : y = x
      · subst hy; simp [viewThrough, ih]
      · simp only [viewThrough, hy, if_false, List.cons_append, List.cons.injEq]
        constructor
        · intro h; cases h
        · rintro ⟨h, _⟩; first | exact absurd h hy | exact h.elim

theorem viewThrough_append (E : Path) (a : Attr) (i : Nat) (rest : Path) :
    viewThrough E a (E ++ (a, i) :: rest) = some (i, rest) := viewThrough_eq_some.mpr rfl

theorem viewThrough_eq_none {E : Path} {a : Attr} {p : Path} :
    viewThrough E a p = none ↔ ¬ ∃ i rest, p = E ++ (a, i) :: rest := by
  constructor
  · intro h ⟨i, rest, hp⟩
    rw [viewThrough_eq_some.mpr hp] at h; cases h
  · intro h
    cases hv : viewThrough E a p with
    | none => rfl
    | some v => obtain ⟨i, rest⟩ := v; exact absurd ⟨i, rest, viewThrough_eq_some.mp hv⟩ h

/-- `_local_forward` on node paths, in terms of the view -/
theorem lfNode_view (E : Path) (a : Attr) (fn : Attr → Nat → Except Err Path) (p : Path) :
    lfNode E a fn p =
      match viewThrough E a p with
      | some (i, rest) => (match fn a i with | .ok r => .ok (E ++ r ++ rest) | .error e => .error e)
      | none => .ok p := by
  induction E generalizing p with
  | nil =>
    cases p with
    | nil => simp [lfNode_nil_nil, viewThrough]
    | cons s q =>
      obtain ⟨b, j⟩ := s
      rw [lfNode_nil_cons]
      by_cases hb : b = a
      · subst hb
        simp only [viewThrough, if_true, List.nil_append]
        cases fn b j <;> rfl
      · simp [viewThrough, hb]
  | cons x E ih =>
    cases p with
    | nil => simp [lfNode_cons_nil, viewThrough]
    | cons y q =>
      rw [lfNode_cons_cons]
      by_cases hy : y = x
      · subst hy
        simp only [if_true, viewThrough, ih q]
        cases viewThrough E a q with
        | none => rfl
        | some v =>
          obtain ⟨i, rest⟩ := v
          simp only
          cases fn a i <;> simp
      · simp [viewThrough, hy]

/-! ### the literal tests of `_forward_move` in terms of the view -/

theorem setIdx_through (E : Path) (a : Attr) (i : Nat) (rest : Path) (f : Nat → Nat) :
    setIdx (E ++ (a, i) :: rest) E.length f = E ++ (a, f i) :: rest := by
  simp [setIdx]

theorem take_through (E : Path) (x : Step) (rest : Path) : (E ++ x :: rest).take E.length = E := by
  simp

theorem getD_through (E : Path) (x d : Step) (rest : Path) : (E ++ x :: rest).getD E.length d = x := by
  simp [List.getD]

theorem drop_through (E : Path) (x : Step) (rest : Path) : (E ++ x :: rest).drop (E.length + 1) = rest := by
  simp

theorem throughTest_eq (E : Path) (a : Attr) (cur : Path) :
    throughTest E a cur = (viewThrough E a cur).isSome := by
  cases hv : viewThrough E a cur with
  | some v =>
    obtain ⟨i, rest⟩ := v
    have := viewThrough_eq_some.mp hv
    subst this
    simp [throughTest, List.getD]
  | none =>
    rw [viewThrough_eq_none] at hv
    simp only [Option.isSome_none]
    cases ht : throughTest E a cur with
    | false => rfl
    | true =>
      exfalso
      simp only [throughTest, Bool.and_eq_true, decide_eq_true_eq] at ht
      obtain ⟨⟨h1, h2⟩, h3⟩ := ht
      apply hv
      have hlt : E.length < cur.length := h1
      refine ⟨(cur[E.length]).2, cur.drop (E.length + 1), ?_⟩
      have hd : cur = cur.take E.length ++ cur[E.length] :: cur.drop (E.length + 1) := by
        rw [← List.drop_eq_getElem_cons hlt, List.take_append_drop]
      have h4 : (cur[E.length]).1 = a := by
        simp only [List.getD, List.getElem?_eq_getElem hlt, Option.getD_some] at h3
        exact h3.symm
      rw [← h2] at hd
      rw [← h4]
      exact hd

/-! ### `fwdMoveNode` in terms of the views -/

theorem gapN_snoc (gp : Path) (x : Step) : (gp ++ [x]).length - 1 = gp.length := by simp

theorem fwdMoveNode_view (bp : Path) (ba : Attr) (lo hi : Nat) (gp : Path) (ga : Attr) (gi : Nat) (cur : Path) :
    fwdMoveNode bp ba lo hi (gp ++ [(ga, gi)]) cur =
      match viewThrough bp ba cur with
      | some (i, rest) =>
        if ¬ hi ≤ i ∧ lo ≤ i then
          let ngp := if bp.length ≤ gp.length then newGapPath (hi - lo) (bp ++ [(ba, lo)]) (gp ++ [(ga, gi)])
            else gp ++ [(ga, gi)]
          ngp.dropLast ++ [((ngp.getLastD (Attr.body, 0)).1, (ngp.getLastD (Attr.body, 0)).2 + (i - lo))] ++ rest
        else
          let cur1 := if hi ≤ i then bp ++ (ba, i - (hi - lo)) :: rest else cur
          match viewThrough gp ga cur with
          | some (j, _) => if gi ≤ j then setIdx cur1 gp.length (· + (hi - lo)) else cur1
          | none => cur1
      | none =>
        match viewThrough gp ga cur with
        | some (j, rest') => if gi ≤ j then gp ++ (ga, j + (hi - lo)) :: rest' else cur
        | none => cur := by
  have hT : (gp ++ [(ga, gi)]).take gp.length = gp := by simp
  have hGd : (gp ++ [(ga, gi)]).getD gp.length (Attr.body, 0) = (ga, gi) := by simp [List.getD]
  unfold fwdMoveNode
  simp only [gapN_snoc, hT, hGd, throughTest_eq]
  cases hv : viewThrough bp ba cur with
  | none =>
    simp only [Option.isSome_none, Bool.false_and, Bool.false_eq_true, if_false]
    cases hg : viewThrough gp ga cur with
    | none => simp
    | some v =>
      obtain ⟨j, rest'⟩ := v
      have := viewThrough_eq_some.mp hg
      subst this
      simp only [Option.isSome_some, Bool.true_and, decide_eq_true_eq, getD_through, setIdx_through]
  | some v =>
    obtain ⟨i, rest⟩ := v
    have hcur := viewThrough_eq_some.mp hv
    simp only [Option.isSome_some, Bool.true_and]
    have hB : cur.getD bp.length (Attr.body, 0) = (ba, i) := by rw [hcur, getD_through]
    have hD : cur.drop (bp.length + 1) = rest := by rw [hcur, drop_through]
    have hS : ∀ f, setIdx cur bp.length f = bp ++ (ba, f i) :: rest := by
      intro f; rw [hcur, setIdx_through]
    simp only [hB, hD, hS, Bool.and_eq_true, Bool.not_eq_true', decide_eq_false_iff_not, decide_eq_true_eq]
    by_cases hmv : ¬ hi ≤ i ∧ lo ≤ i
    · simp only [hmv, not_false_eq_true, and_self, if_true]
    · simp only [hmv, if_false]
      cases hg : viewThrough gp ga cur with
      | none => simp
      | some w =>
        obtain ⟨j, rest'⟩ := w
        have hG3 : (cur.getD gp.length (Attr.body, 0)).2 = j := by
          rw [viewThrough_eq_some.mp hg, getD_through]
        simp only [Option.isSome_some, Bool.true_and, decide_eq_true_eq, hG3, true_and]

/-! ### stripping a common first step -/

theorem viewThrough_cons_cons (x y : Step) (E : Path) (a : Attr) (p : Path) :
    viewThrough (x :: E) a (y :: p) = if y = x then viewThrough E a p else none := rfl

theorem setIdx_cons_succ (y : Step) (p : Path) (k : Nat) (f : Nat → Nat) :
    setIdx (y :: p) (k + 1) f = y :: setIdx p k f := by
  simp only [setIdx, List.getElem?_cons_succ]
  cases p[k]? with
  | none => rfl
  | some s => obtain ⟨a, i⟩ := s; rfl

theorem newGapPath_cons_same (n : Nat) (x : Step) (b g : Path) :
    newGapPath n (x :: b) (x :: g) = x :: newGapPath n b g := by
  simp [newGapPath]

theorem isBeforeAux_cons_same (x : Step) (g b : Path) : isBeforeAux (x :: g) (x :: b) = isBeforeAux g b := by
  obtain ⟨a, i⟩ := x
  simp [isBeforeAux]

theorem newGapPath_ne_nil (n : Nat) (b g : Path) (hg : g ≠ []) : newGapPath n b g ≠ [] := by
  cases b with
  | nil => simpa [newGapPath] using hg
  | cons bs b =>
    cases g with
    | nil => exact absurd rfl hg
    | cons gs g =>
      simp only [newGapPath]
      split <;> simp

theorem getLastD_cons_of_ne_nil (x d : Step) (l : Path) (h : l ≠ []) :
    (x :: l).getLastD d = l.getLastD d := by
  cases l with
  | nil => exact absurd rfl h
  | cons y l => simp [List.getLastD]

theorem dropLast_cons_of_ne_nil' (x : Step) (l : Path) (h : l ≠ []) :
    (x :: l).dropLast = x :: l.dropLast := by
  cases l with
  | nil => exact absurd rfl h
  | cons y l => rfl

theorem fwdMoveNode_nil (bp : Path) (ba : Attr) (lo hi : Nat) (gp : Path) (ga : Attr) (gi : Nat) :
    fwdMoveNode bp ba lo hi (gp ++ [(ga, gi)]) [] = [] := by
  rw [fwdMoveNode_view]
  cases bp <;> cases gp <;> simp [viewThrough]

theorem fwdMoveNode_cons (x y : Step) (bp : Path) (ba : Attr) (lo hi : Nat) (gp : Path) (ga : Attr) (gi : Nat)
    (cur : Path) :
    fwdMoveNode (x :: bp) ba lo hi (x :: gp ++ [(ga, gi)]) (y :: cur) =
      if y = x then x :: fwdMoveNode bp ba lo hi (gp ++ [(ga, gi)]) cur else y :: cur := by
  have e : x :: gp ++ [(ga, gi)] = (x :: gp) ++ [(ga, gi)] := rfl
  rw [e, fwdMoveNode_view, fwdMoveNode_view]
  by_cases hy : y = x
  · subst hy
    simp only [viewThrough_cons_cons, if_true, List.length_cons, Nat.add_le_add_iff_right]
    cases hv : viewThrough bp ba cur with
    | none =>
      simp only
      cases hg : viewThrough gp ga cur with
      | none => rfl
      | some w =>
        obtain ⟨j, rest'⟩ := w
        simp only
        split <;> rfl
    | some v =>
      obtain ⟨i, rest⟩ := v
      simp only
      by_cases hmv : ¬ hi ≤ i ∧ lo ≤ i
      · simp only [hmv, not_false_eq_true, and_self, if_true]
        by_cases hl : bp.length ≤ gp.length
        · simp only [hl, if_true, List.cons_append, newGapPath_cons_same]
          have hne := newGapPath_ne_nil (hi - lo) (bp ++ [(ba, lo)]) (gp ++ [(ga, gi)]) (by simp)
          rw [dropLast_cons_of_ne_nil' _ _ hne, getLastD_cons_of_ne_nil _ _ _ hne]
          rfl
        · simp only [hl, if_false, List.cons_append]
          have hne : gp ++ [(ga, gi)] ≠ [] := by simp
          rw [dropLast_cons_of_ne_nil' _ _ hne, getLastD_cons_of_ne_nil _ _ _ hne]
          rfl
      · simp only [hmv, if_false]
        cases hg : viewThrough gp ga cur with
        | none =>
          simp only
          split <;> rfl
        | some w =>
          obtain ⟨j, rest'⟩ := w
          simp only
          split
          · split <;> simp [setIdx_cons_succ]
          · split <;> rfl
  · simp [viewThrough_cons_cons, hy]

end Exo.Cursor
