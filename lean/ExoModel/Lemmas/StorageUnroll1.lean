/-
  unroll_buffer, part 1: the heap / state relation with a RANGE `[N, N+u)` of special buffers and the
  identity mode (generalisation of `Reidx.HRel` / `Reidx.Rel` (one special buffer) and of
  `Stage.HR` / `Stage.SR` (two special buffers)).

  `HRel N u Q h h'` : the heaps `h`, `h'` have the same number of buffers (at least `N + u`), every
  buffer outside `[N, N+u)` is identical, and the two slices `L = h[N..N+u)`, `R = h'[N..N+u)` are
  related by an ABSTRACT joint predicate `Q L R`.

  `Rel P N u Q pl pr s s'` : same control environment and configuration, `HRel`-related heaps; a name
  of `P` has the binding `pl y` on the left and `pr y` on the right (both `Option View`: a special
  name may be unbound, or bound by the context, on one side); every other name has the same binding
  on both sides, and that binding does NOT point into a buffer of `[N, N+u)`.

  `execS_id / execL_id / execP_id` (identity mode): a statement that mentions no name of `P` runs in
  lock step from `Rel`-related states, for ANY `Q` (the buffers of the range are never touched) — in
  particular (`P = ∅`) callee bodies.  Copy of the identity mode of StorageReindex1.lean.
-/
import ExoModel.Lemmas.StorageStage
import ExoModel.Lemmas.StorageDims
import ExoModel.Lemmas.StorageSinkIf

set_option linter.unusedSectionVars false
set_option linter.unusedVariables false
namespace Exo.Stg.Unroll
open Exo
variable {V : Type}

/-! ### the heap relation -/

structure HRel (N u : Nat) (Q : List (List (Option V)) → List (List (Option V)) → Prop)
    (h h' : List (List (Option V))) : Prop where
  len : h'.length = h.length
  le : N + u ≤ h.length
  other : ∀ b, (b < N ∨ N + u ≤ b) → h'[b]? = h[b]?
  big : ∃ L R : List (List (Option V)), L.length = u ∧ R.length = u ∧
    (∀ j, j < u → h[N + j]? = L[j]?) ∧ (∀ j, j < u → h'[N + j]? = R[j]?) ∧ Q L R

section HRelLemmas
variable {N u : Nat} {Q : List (List (Option V)) → List (List (Option V)) → Prop}
  {h h' : List (List (Option V))}

theorem HRel.append (H : HRel N u Q h h') (b : List (Option V)) :
    HRel N u Q (h ++ [b]) (h' ++ [b]) := by
  have hl := H.len
  have hle := H.le
  refine ⟨by simp [hl], by simp only [List.length_append, List.length_cons, List.length_nil]; omega,
    ?_, ?_⟩
  · intro k hk
    by_cases hkl : k < h.length
    · rw [List.getElem?_append_left hkl, List.getElem?_append_left (by omega)]
      exact H.other k hk
    · have hge : h.length ≤ k := Nat.le_of_not_lt hkl
      rw [List.getElem?_append_right hge, List.getElem?_append_right (by omega), hl]
  · obtain ⟨L, R, h1, h2, h3, h4, h5⟩ := H.big
    refine ⟨L, R, h1, h2, ?_, ?_, h5⟩
    · intro j hj
      rw [List.getElem?_append_left (by omega)]; exact h3 j hj
    · intro j hj
      rw [List.getElem?_append_left (by omega)]; exact h4 j hj

/-- the same write to a cell of a buffer outside the range on both sides -/
theorem HRel.setOther (H : HRel N u Q h h') (c : Nat × Nat) (hc : c.1 < N ∨ N + u ≤ c.1)
    (v : Option V) : HRel N u Q (heapSet h c v) (heapSet h' c v) := by
  refine ⟨by simp only [heapSet, List.length_modify]; exact H.len,
    by simp only [heapSet, List.length_modify]; exact H.le, ?_, ?_⟩
  · intro b hb
    rw [getElem?_heapSet, getElem?_heapSet, H.other b hb]
  · obtain ⟨L, R, h1, h2, h3, h4, h5⟩ := H.big
    refine ⟨L, R, h1, h2, ?_, ?_, h5⟩
    · intro j hj
      have hne : ¬ c.1 = N + j := by omega
      rw [getElem?_heapSet, if_neg hne]; exact h3 j hj
    · intro j hj
      have hne : ¬ c.1 = N + j := by omega
      rw [getElem?_heapSet, if_neg hne]; exact h4 j hj

/-- both heaps cut at the same length above the range -/
theorem HRel.take (H : HRel N u Q h h') (k : Nat) (hk : N + u ≤ k) :
    HRel N u Q (h.take k) (h'.take k) := by
  have hle := H.le
  refine ⟨by simp [H.len], by simp only [List.length_take]; omega, ?_, ?_⟩
  · intro b hb
    rw [List.getElem?_take, List.getElem?_take, H.other b hb]
  · obtain ⟨L, R, h1, h2, h3, h4, h5⟩ := H.big
    refine ⟨L, R, h1, h2, ?_, ?_, h5⟩
    · intro j hj
      rw [List.getElem?_take, if_pos (by omega)]; exact h3 j hj
    · intro j hj
      rw [List.getElem?_take, if_pos (by omega)]; exact h4 j hj

theorem HRel.get_other (H : HRel N u Q h h') (c : Nat × Nat) (hc : c.1 < N ∨ N + u ≤ c.1) :
    heapGet h' c = heapGet h c := by
  simp only [heapGet, H.other _ hc]

theorem HRel.cellOf_other (H : HRel N u Q h h') (v : View) (hv : v.buf < N ∨ N + u ≤ v.buf)
    (is : List Int) : cellOf h' v is = cellOf h v is := by
  simp only [cellOf, H.other _ hv]

end HRelLemmas

/-! ### the state relation -/

structure Rel (P : Sym → Prop) (N u : Nat)
    (Q : List (List (Option V)) → List (List (Option V)) → Prop) (pl pr : Sym → Option View)
    (s s' : State V) : Prop where
  env : s'.env = s.env
  cfg : s'.cfg = s.cfg
  heap : HRel N u Q s.heap s'.heap
  other : ∀ y, ¬ P y → lookupSym y s'.views = lookupSym y s.views
  nb : ∀ y v, ¬ P y → lookupSym y s.views = some v → (v.buf < N ∨ N + u ≤ v.buf)
  px : ∀ y, P y → lookupSym y s.views = pl y ∧ lookupSym y s'.views = pr y

section RelLemmas
variable {P : Sym → Prop} {N u : Nat}
  {Q : List (List (Option V)) → List (List (Option V)) → Prop} {pl pr : Sym → Option View}
  {s s' : State V}

theorem Rel.bind (h : Rel P N u Q pl pr s s') (i : Sym) (v : Int) :
    Rel P N u Q pl pr (s.bind i v) (s'.bind i v) :=
  ⟨by simp [State.bind, h.env], h.cfg, h.heap, h.other, h.nb, h.px⟩

theorem Rel.heapWrite (h : Rel P N u Q pl pr s s') {hp hp' : List (List (Option V))}
    (H : HRel N u Q hp hp') :
    Rel P N u Q pl pr { s with heap := hp } { s' with heap := hp' } :=
  ⟨h.env, h.cfg, H, h.other, h.nb, h.px⟩

theorem Rel.cfgWrite (h : Rel P N u Q pl pr s s') (key : String × String) (v : CfgVal V) :
    Rel P N u Q pl pr { s with cfg := setCfg key v s.cfg } { s' with cfg := setCfg key v s'.cfg } :=
  ⟨h.env, by simp only [h.cfg], h.heap, h.other, h.nb, h.px⟩

/-- the same binding of a name outside `P` to a view that does not point into the range -/
theorem Rel.pushView (h : Rel P N u Q pl pr s s') (y : Sym) (hy : ¬ P y) (v : View)
    (hv : v.buf < N ∨ N + u ≤ v.buf) :
    Rel P N u Q pl pr { s with views := (y, v) :: s.views }
      { s' with views := (y, v) :: s'.views } := by
  refine ⟨h.env, h.cfg, h.heap, ?_, ?_, ?_⟩
  · intro z hz
    simp only [lookupSym]
    split
    · rfl
    · exact h.other z hz
  · intro z w hz hl
    simp only [lookupSym] at hl
    split at hl
    · cases hl; exact hv
    · exact h.nb z w hz hl
  · intro z hz
    have hzy : ¬ z = y := fun e => hy (e ▸ hz)
    simp only [lookupSym, if_neg hzy]
    exact h.px z hz

theorem Rel.alloc (h : Rel P N u Q pl pr s s') (y : Sym) (hy : ¬ P y) (n : Nat)
    (ds : List (Int × Int)) :
    Rel P N u Q pl pr
      { s with heap := s.heap ++ [List.replicate n none],
               views := (y, { buf := s.heap.length, off := 0, dims := ds }) :: s.views }
      { s' with heap := s'.heap ++ [List.replicate n none],
                views := (y, { buf := s'.heap.length, off := 0, dims := ds }) :: s'.views } := by
  have hle := h.heap.le
  have h1 := (h.heapWrite (h.heap.append (List.replicate n none))).pushView y hy
    { buf := s.heap.length, off := 0, dims := ds } (Or.inr hle)
  rw [h.heap.len]
  exact h1

theorem Rel.leave {P₂ : Sym → Prop} {σ σ' t t' : State V} (hin : Rel P N u Q pl pr σ σ')
    (hout : Rel P₂ N u Q pl pr t t') (hle : σ.heap.length ≤ t.heap.length) :
    Rel P N u Q pl pr (State.leave σ t) (State.leave σ' t') := by
  refine ⟨hin.env, hout.cfg, ?_, hin.other, hin.nb, hin.px⟩
  show HRel N u Q (t.heap.take σ.heap.length) (t'.heap.take σ'.heap.length)
  rw [hin.heap.len]
  exact hout.heap.take _ hin.heap.le

/-- after a block entered at heap length `N` is left the range is gone: the final states are equal -/
theorem Rel.leave_eq {t t' : State V} (h : Rel P N u Q pl pr t t') (σ : State V)
    (hN : σ.heap.length = N) : State.leave σ t' = State.leave σ t := by
  simp only [State.leave, h.cfg, State.mk.injEq, true_and, and_true]
  apply List.ext_getElem?
  intro b
  rw [List.getElem?_take, List.getElem?_take]
  split
  · exact h.heap.other b (Or.inl (by omega))
  · rfl

/-! ### evaluators -/

theorem evalC_rel (h : Rel P N u Q pl pr s s') : ∀ (c : Expr), (∀ y ∈ c.names, ¬ P y) →
    evalC s' c = evalC s c
  | .read x [], _ => by simp [evalC, h.env]
  | .read x (_ :: _), _ => by simp [evalC]
  | .lit (.int n), _ => by simp [evalC]
  | .lit (.bool n), _ => by simp [evalC]
  | .lit (.data _ _), _ => by simp [evalC]
  | .usub e, hn => by
    simp only [evalC]
    rw [evalC_rel h e (fun y hy => hn y (by simpa [Expr.names] using hy))]
  | .binop op a b, hn => by
    simp only [evalC]
    rw [evalC_rel h a (fun y hy => hn y (by simp [Expr.names, hy])),
        evalC_rel h b (fun y hy => hn y (by simp [Expr.names, hy]))]
  | .stride x d, hn => by
    simp only [evalC]
    rw [h.other x (hn x (by simp [Expr.names]))]
  | .readcfg c f, _ => by
    simp only [evalC, h.cfg]
  | .extern _ _, _ => by simp [evalC]
  | .win _ _, _ => by simp [evalC]

theorem evalCs_rel (h : Rel P N u Q pl pr s s') : ∀ (es : List Expr),
    (∀ y ∈ namesEs es, ¬ P y) → evalCs s' es = evalCs s es
  | [], _ => rfl
  | e :: r, hn => by
    simp only [evalCs]
    rw [evalC_rel h e (fun y hy => hn y (by simp [namesEs, hy])),
        evalCs_rel h r (fun y hy => hn y (by simp [namesEs, hy]))]

theorem applyAcc_rel (h : Rel P N u Q pl pr s s') : ∀ (acc : List WAcc) (ds : List (Int × Int))
    (off : Int), (∀ y ∈ namesWs acc, ¬ P y) → applyAcc s' acc ds off = applyAcc s acc ds off
  | [], [], _, _ => rfl
  | [], _ :: _, _, _ => rfl
  | .point e :: as, [], off, _ => rfl
  | .interval lo hi :: as, [], off, _ => rfl
  | .point e :: as, (ext, st) :: ds, off, hn => by
    simp only [applyAcc]
    rw [evalC_rel h e (fun y hy => hn y (by simp [namesWs, WAcc.names, hy]))]
    refine bind_congr (fun i => ?_)
    split
    · exact applyAcc_rel h as ds _ (fun y hy => hn y (by simp [namesWs, hy]))
    · rfl
  | .interval lo hi :: as, (ext, st) :: ds, off, hn => by
    simp only [applyAcc]
    rw [evalC_rel h lo (fun y hy => hn y (by simp [namesWs, WAcc.names, hy])),
        evalC_rel h hi (fun y hy => hn y (by simp [namesWs, WAcc.names, hy]))]
    refine bind_congr (fun l => bind_congr (fun hh => ?_))
    split
    · rw [applyAcc_rel h as ds _ (fun y hy => hn y (by simp [namesWs, hy]))]
    · rfl

theorem evalView_rel (h : Rel P N u Q pl pr s s') : ∀ (a : Expr), (∀ y ∈ a.names, ¬ P y) →
    evalView s' a = evalView s a
  | .read x [], hn => by
    simp only [evalView]
    rw [h.other x (hn x (by simp [Expr.names]))]
  | .read x (i :: r), hn => by
    simp only [evalView]
    rw [h.other x (hn x (by simp [Expr.names])),
      evalCs_rel h (i :: r) (fun y hy => hn y (by simp [Expr.names, hy]))]
  | .win x acc, hn => by
    simp only [evalView]
    rw [h.other x (hn x (by simp [Expr.names]))]
    cases lookupSym x s.views with
    | none => rfl
    | some v =>
      simp only []
      rw [applyAcc_rel h acc _ _ (fun y hy => hn y (by simp [Expr.names, hy]))]
  | .lit _, _ => rfl
  | .usub _, _ => rfl
  | .binop _ _ _, _ => rfl
  | .extern _ _, _ => rfl
  | .stride _ _, _ => rfl
  | .readcfg _ _, _ => rfl

/-- a view expression that mentions no name of `P` does not denote a view into the range -/
theorem evalView_nb (h : Rel P N u Q pl pr s s') {a : Expr} {v : View}
    (hv : evalView s a = .ok v) (hn : ∀ y ∈ a.names, ¬ P y) : v.buf < N ∨ N + u ≤ v.buf := by
  obtain ⟨y, w, hy, hl, e⟩ := evalView_lookup hv
  rw [e]
  exact h.nb y w (hn y hy) hl

theorem bindArgs_rel (h : Rel P N u Q pl pr s s') : ∀ (fs : List FnArg) (as : List Expr)
    (ce : List (Sym × Int)) (cv : List (Sym × View)), (∀ y ∈ namesEs as, ¬ P y) →
    bindArgs s' fs as ce cv = bindArgs s fs as ce cv
  | [], [], _, _, _ => rfl
  | [], _ :: _, _, _, _ => rfl
  | ⟨_, .ctrl _⟩ :: _, [], _, _, _ => rfl
  | ⟨_, .scalar⟩ :: _, [], _, _, _ => rfl
  | ⟨_, .tensor _ _⟩ :: _, [], _, _, _ => rfl
  | ⟨x, .ctrl kd⟩ :: fs, a :: as, ce, cv, hn => by
    simp only [bindArgs]
    rw [evalC_rel h a (fun y hy => hn y (by simp [namesEs, hy]))]
    refine bind_congr (fun v => ?_)
    split
    · rfl
    · exact bindArgs_rel h fs as _ cv (fun y hy => hn y (by simp [namesEs, hy]))
  | ⟨x, .scalar⟩ :: fs, a :: as, ce, cv, hn => by
    simp only [bindArgs]
    rw [evalView_rel h a (fun y hy => hn y (by simp [namesEs, hy]))]
    exact bind_congr (fun v =>
      bindArgs_rel h fs as ce ((x, v) :: cv) (fun y hy => hn y (by simp [namesEs, hy])))
  | ⟨x, .tensor _ _⟩ :: fs, a :: as, ce, cv, hn => by
    simp only [bindArgs]
    rw [evalView_rel h a (fun y hy => hn y (by simp [namesEs, hy]))]
    exact bind_congr (fun v =>
      bindArgs_rel h fs as ce ((x, v) :: cv) (fun y hy => hn y (by simp [namesEs, hy])))

/-- none of the views bound to the formals points into the range -/
theorem bindArgs_nb (h : Rel P N u Q pl pr s s') : ∀ (fs : List FnArg) (as : List Expr)
    (ce : List (Sym × Int)) (cv : List (Sym × View)) (p : List (Sym × Int) × List (Sym × View)),
    (∀ y ∈ namesEs as, ¬ P y) → (∀ q ∈ cv, q.2.buf < N ∨ N + u ≤ q.2.buf) →
    bindArgs s fs as ce cv = .ok p → ∀ q ∈ p.2, q.2.buf < N ∨ N + u ≤ q.2.buf
  | [], [], _, _, p, _, hcv, hb => by
    simp only [bindArgs, pure, Except.pure, Except.ok.injEq] at hb
    subst hb; exact hcv
  | [], _ :: _, _, _, _, _, _, hb => by simp [bindArgs] at hb
  | ⟨_, .ctrl _⟩ :: _, [], _, _, _, _, _, hb => by simp [bindArgs] at hb
  | ⟨_, .scalar⟩ :: _, [], _, _, _, _, _, hb => by simp [bindArgs] at hb
  | ⟨_, .tensor _ _⟩ :: _, [], _, _, _, _, _, hb => by simp [bindArgs] at hb
  | ⟨x, .ctrl kd⟩ :: fs, a :: as, ce, cv, p, hn, hcv, hb => by
    simp only [bindArgs] at hb
    obtain ⟨v, _, hb⟩ := except_bind_ok_inv hb
    split at hb
    · simp [bind, Except.bind] at hb
    · exact bindArgs_nb h fs as _ cv p (fun y hy => hn y (by simp [namesEs, hy])) hcv hb
  | ⟨x, .scalar⟩ :: fs, a :: as, ce, cv, p, hn, hcv, hb => by
    simp only [bindArgs] at hb
    obtain ⟨v, hv, hb⟩ := except_bind_ok_inv hb
    have hvb := evalView_nb h hv (fun y hy => hn y (by simp [namesEs, hy]))
    refine bindArgs_nb h fs as ce ((x, v) :: cv) p (fun y hy => hn y (by simp [namesEs, hy])) ?_ hb
    intro q hq
    rcases List.mem_cons.1 hq with rfl | hq
    · exact hvb
    · exact hcv q hq
  | ⟨x, .tensor _ _⟩ :: fs, a :: as, ce, cv, p, hn, hcv, hb => by
    simp only [bindArgs] at hb
    obtain ⟨v, hv, hb⟩ := except_bind_ok_inv hb
    have hvb := evalView_nb h hv (fun y hy => hn y (by simp [namesEs, hy]))
    refine bindArgs_nb h fs as ce ((x, v) :: cv) p (fun y hy => hn y (by simp [namesEs, hy])) ?_ hb
    intro q hq
    rcases List.mem_cons.1 hq with rfl | hq
    · exact hvb
    · exact hcv q hq

theorem checkShapes_rel (h : Rel (fun _ => False) N u Q pl pr s s') : ∀ (fs : List FnArg),
    checkShapes s' fs = checkShapes s fs
  | [] => rfl
  | ⟨x, .tensor shape _⟩ :: fs => by
    simp only [checkShapes]
    rw [evalCs_rel h shape (fun _ _ hx => hx), h.other x (fun hx => hx), checkShapes_rel h fs]
  | ⟨x, .scalar⟩ :: fs => by
    simp only [checkShapes]
    rw [h.other x (fun hx => hx), checkShapes_rel h fs]
  | ⟨x, .ctrl _⟩ :: fs => by
    simp only [checkShapes]
    exact checkShapes_rel h fs

theorem checkPreds_rel (h : Rel (fun _ => False) N u Q pl pr s s') : ∀ (ps : List Expr),
    checkPreds s' ps = checkPreds s ps
  | [] => rfl
  | p :: ps => by
    simp only [checkPreds]
    rw [evalC_rel h p (fun _ _ hx => hx), checkPreds_rel h ps]

section
variable [DataAlg V] (ext : String → List V → V)

mutual
theorem evalD_rel (h : Rel P N u Q pl pr s s') : ∀ (a : Expr), (∀ y ∈ a.names, ¬ P y) →
    evalD ext s' a = evalD ext s a
  | .read x idx, hn => by
    simp only [evalD]
    rw [h.other x (hn x (by simp [Expr.names])),
      evalCs_rel h idx (fun y hy => hn y (by simp [Expr.names, hy]))]
    cases hl : lookupSym x s.views with
    | none => rfl
    | some v =>
      simp only []
      have hb := h.nb x v (hn x (by simp [Expr.names])) hl
      refine bind_congr (fun is => ?_)
      rw [h.heap.cellOf_other v hb is]
      refine bind_congr_ok (fun c hc => ?_)
      rw [h.heap.get_other c (by rw [cellOf_buf hc]; exact hb)]
  | .lit (.data n d), _ => rfl
  | .lit (.int n), _ => rfl
  | .lit (.bool _), _ => rfl
  | .usub e, hn => by
    simp only [evalD]
    rw [evalD_rel h e (fun y hy => hn y (by simpa [Expr.names] using hy))]
  | .binop op a b, hn => by
    simp only [evalD]
    rw [evalD_rel h a (fun y hy => hn y (by simp [Expr.names, hy])),
        evalD_rel h b (fun y hy => hn y (by simp [Expr.names, hy]))]
  | .extern f args, hn => by
    simp only [evalD]
    rw [evalDs_rel h args (fun y hy => hn y (by simpa [Expr.names] using hy))]
  | .readcfg c f, _ => by
    simp only [evalD, h.cfg]
  | .win _ _, _ => rfl
  | .stride _ _, _ => rfl
theorem evalDs_rel (h : Rel P N u Q pl pr s s') : ∀ (es : List Expr),
    (∀ y ∈ namesEs es, ¬ P y) → evalDs ext s' es = evalDs ext s es
  | [], _ => rfl
  | e :: r, hn => by
    simp only [evalDs]
    rw [evalD_rel h e (fun y hy => hn y (by simp [namesEs, hy])),
        evalDs_rel h r (fun y hy => hn y (by simp [namesEs, hy]))]
end

end

theorem writeCell_rel (h : Rel P N u Q pl pr s s') (y : Sym) (idx : List Expr)
    (hy : ¬ P y) (hidx : ∀ z ∈ namesEs idx, ¬ P z) (f : Option V → Option V) :
    Lock (Rel P N u Q pl pr) (writeCell s y idx f) (writeCell s' y idx f) := by
  simp only [writeCell]
  rw [h.other y hy, evalCs_rel h idx hidx]
  cases hl : lookupSym y s.views with
  | none => exact Lock.ofThrow
  | some v =>
    simp only []
    have hb := h.nb y v hy hl
    refine Lock.bind_eq (fun is _ => ?_)
    rw [h.heap.cellOf_other v hb is]
    refine Lock.bind_eq (fun c hc => ?_)
    have hcN : c.1 < N ∨ N + u ≤ c.1 := by rw [cellOf_buf hc]; exact hb
    rw [h.heap.get_other c hcN]
    exact Lock.ofPure (h.heapWrite (h.heap.setOther c hcN _))

end RelLemmas

/-! ### the lock-step theorem for statements that do not mention a name of `P` -/

section
variable [DataAlg V] (ext : String → List V → V)

mutual
theorem execS_id (N u : Nat) (Q : List (List (Option V)) → List (List (Option V)) → Prop)
    (pl pr : Sym → Option View) : ∀ (a : Stmt) (P : Sym → Prop) (s s' : State V),
    (∀ y ∈ a.names, ¬ P y) → Rel P N u Q pl pr s s' →
    Lock (Rel P N u Q pl pr) (execS ext a s) (execS ext a s')
  | .assign x idx rhs, P, s, s', hn, h => by
    simp only [execS]
    rw [evalD_rel ext h rhs (fun y hy => hn y (by simp [Stmt.names, hy]))]
    exact Lock.bind_eq (fun v _ => writeCell_rel h x idx (hn x (by simp [Stmt.names]))
      (fun y hy => hn y (by simp [Stmt.names, hy])) _)
  | .reduce x idx rhs, P, s, s', hn, h => by
    simp only [execS]
    rw [evalD_rel ext h rhs (fun y hy => hn y (by simp [Stmt.names, hy]))]
    exact Lock.bind_eq (fun v _ => writeCell_rel h x idx (hn x (by simp [Stmt.names]))
      (fun y hy => hn y (by simp [Stmt.names, hy])) _)
  | .writecfg c f rhs true, P, s, s', hn, h => by
    simp only [execS, ↓reduceIte]
    rw [evalD_rel ext h rhs (fun y hy => hn y (by simpa [Stmt.names] using hy))]
    exact Lock.bind_eq (fun v _ => Lock.ofPure (h.cfgWrite (c, f) (.data v)))
  | .writecfg c f rhs false, P, s, s', hn, h => by
    simp only [execS, Bool.false_eq_true, ↓reduceIte]
    rw [evalC_rel h rhs (fun y hy => hn y (by simpa [Stmt.names] using hy))]
    exact Lock.bind_eq (fun v _ => Lock.ofPure (h.cfgWrite (c, f) (.ctrl v)))
  | .pass, P, s, s', _, h => by
    simp only [execS]; exact Lock.ofPure h
  | .free _, P, s, s', _, h => by
    simp only [execS]; exact Lock.ofPure h
  | .ite c t e, P, s, s', hn, h => by
    simp only [execS]
    rw [evalC_rel h c (fun y hy => hn y (by simp [Stmt.names, hy]))]
    refine Lock.bind_eq (fun b _ => Lock.ite (fun _ => ?_) (fun _ => ?_))
    · exact Lock.map
        (execL_id N u Q pl pr t P s s' (fun y hy => hn y (by simp [Stmt.names, hy])) h)
        (fun a b ha _ hab => h.leave hab (execL_scope ext t s a ha).2.1)
    · exact Lock.map
        (execL_id N u Q pl pr e P s s' (fun y hy => hn y (by simp [Stmt.names, hy])) h)
        (fun a b ha _ hab => h.leave hab (execL_scope ext e s a ha).2.1)
  | .loop i lo hi body par, P, s, s', hn, h => by
    simp only [execS]
    rw [evalC_rel h lo (fun y hy => hn y (by simp [Stmt.names, hy])),
        evalC_rel h hi (fun y hy => hn y (by simp [Stmt.names, hy]))]
    refine Lock.bind_eq (fun l _ => Lock.bind_eq (fun hh _ =>
      Lock.ite (fun _ => Lock.ofThrowBind) (fun _ => ?_)))
    exact iterate_lock (Rel P N u Q pl pr) _ _
      (fun v a b hab => Lock.map
        (execL_id N u Q pl pr body P _ _ (fun y hy => hn y (by simp [Stmt.names, hy]))
          (hab.bind i v))
        (fun a1 b1 ha1 _ h1 => hab.leave h1 (execL_scope ext body _ a1 ha1).2.1))
      _ _ s s' h
  | .alloc x shape, P, s, s', hn, h => by
    simp only [execS]
    rw [evalCs_rel h shape (fun y hy => hn y (by simp [Stmt.names, hy]))]
    exact Lock.bind_eq (fun sh _ => Lock.bind_eq (fun _ _ =>
      Lock.ofPure (h.alloc x (hn x (by simp [Stmt.names])) _ _)))
  | .call f args, P, s, s', hn, h => by
    simp only [execS]
    exact execP_id N u Q pl pr f args P s s' (fun y hy => hn y (by simpa [Stmt.names] using hy)) h
  | .window x rhs, P, s, s', hn, h => by
    simp only [execS]
    have hr : ∀ y ∈ rhs.names, ¬ P y := fun y hy => hn y (by simp [Stmt.names, hy])
    rw [evalView_rel h rhs hr]
    refine Lock.bind_eq (fun v hv => ?_)
    exact Lock.ofPure (h.pushView x (hn x (by simp [Stmt.names])) v (evalView_nb h hv hr))
theorem execL_id (N u : Nat) (Q : List (List (Option V)) → List (List (Option V)) → Prop)
    (pl pr : Sym → Option View) : ∀ (ss : List Stmt) (P : Sym → Prop)
    (s s' : State V), (∀ y ∈ namesL ss, ¬ P y) → Rel P N u Q pl pr s s' →
    Lock (Rel P N u Q pl pr) (execL ext ss s) (execL ext ss s')
  | [], P, s, s', _, h => by
    simp only [execL]; exact Lock.ofPure h
  | a :: r, P, s, s', hn, h => by
    simp only [execL]
    exact Lock.bind (execS_id N u Q pl pr a P s s' (fun y hy => hn y (by simp [namesL, hy])) h)
      (fun s1 s1' _ _ h1 =>
        execL_id N u Q pl pr r P s1 s1' (fun y hy => hn y (by simp [namesL, hy])) h1)
theorem execP_id (N u : Nat) (Q : List (List (Option V)) → List (List (Option V)) → Prop)
    (pl pr : Sym → Option View) : ∀ (p : Proc) (args : List Expr)
    (P : Sym → Prop) (s s' : State V), (∀ y ∈ namesOfArgs args, ¬ P y) →
    Rel P N u Q pl pr s s' →
    Lock (Rel P N u Q pl pr) (execP ext p args s) (execP ext p args s')
  | .mk nm fargs preds body, args, P, s, s', hn, h => by
    simp only [execP]
    rw [bindArgs_rel h fargs args [] [] hn]
    refine Lock.bind_eq (fun p hp => ?_)
    refine Lock.ite (fun _ => Lock.ofThrowBind) (fun _ => ?_)
    have hc : Rel (fun _ => False) N u Q pl pr
        { env := p.1, views := p.2, heap := s.heap, cfg := s.cfg }
        { env := p.1, views := p.2, heap := s'.heap, cfg := s'.cfg } :=
      ⟨rfl, h.cfg, h.heap, fun _ _ => rfl,
        fun y v _ hl => bindArgs_nb h fargs args [] [] p hn (fun _ hq => by cases hq) hp
          (y, v) (lookupSym_mem hl),
        fun _ hf => hf.elim⟩
    rw [checkShapes_rel hc fargs, checkPreds_rel hc preds]
    exact Lock.bind_eq (fun _ _ => Lock.bind_eq (fun _ _ =>
      Lock.bind (execL_id N u Q pl pr body (fun _ => False) _ _ (fun _ _ hx => hx) hc)
        (fun t t' ht _ htt => Lock.ofPure (h.leave htt (execL_scope ext body _ t ht).2.1))))
end

end

end Exo.Stg.Unroll
