/-
  `bind_config` (C10): the bound occurrence is evaluated whenever its statement runs, so the
  inserted write `c.f = e` cannot fail where the original statement succeeded.
-/
import ExoModel.Config
import ExoModel.Lemmas.ConfigSim
import ExoModel.Lemmas.ConfigBind
import ExoModel.Lemmas.ConfigCall
import ExoModel.Lemmas.ConfigBindStmt

set_option linter.unusedSectionVars false
set_option linter.unusedVariables false
namespace Exo.Config
open Exo

theorem bind_ok {α β : Type} {x : Except Err α} {f : α → Except Err β} {b : β}
    (h : (x >>= f) = .ok b) : ∃ a, x = .ok a ∧ f a = .ok b := by
  cases x with
  | error e => simp [bind, Except.bind] at h
  | ok a => exact ⟨a, rfl, h⟩

variable {V : Type}

theorem evalC_sub_ok (σ : State V) (e : Expr) : ∀ (E : Expr) (p : EPath),
    subAt E p = some e → (∃ n, evalC σ E = .ok n) → ∃ n, evalC σ e = .ok n
  | E, [], hs, h => by
    rw [subAt.eq_1] at hs
    cases hs
    exact h
  | .usub a, k :: p, hs, ⟨n, h⟩ => by
    simp only [subAt] at hs
    split at hs
    · simp only [evalC] at h
      obtain ⟨v, hv, _⟩ := bind_ok h
      exact evalC_sub_ok σ e a p hs ⟨v, hv⟩
    · cases hs
  | .binop op a b, k :: p, hs, ⟨n, h⟩ => by
    simp only [subAt] at hs
    simp only [evalC] at h
    obtain ⟨x, hx, h2⟩ := bind_ok h
    obtain ⟨y, hy, _⟩ := bind_ok h2
    split at hs
    · exact evalC_sub_ok σ e a p hs ⟨x, hx⟩
    · split at hs
      · exact evalC_sub_ok σ e b p hs ⟨y, hy⟩
      · cases hs
  | .read x [], k :: p, hs, h => by simp [subAt, subAtL] at hs
  | .read x (i :: is), k :: p, hs, ⟨n, h⟩ => by simp [evalC] at h
  | .extern f args, k :: p, hs, ⟨n, h⟩ => by simp [evalC] at h
  | .lit c, k :: p, hs, h => by simp [subAt] at hs
  | .win x a, k :: p, hs, h => by simp [subAt] at hs
  | .stride x d, k :: p, hs, h => by simp [subAt] at hs
  | .readcfg c f, k :: p, hs, h => by simp [subAt] at hs

theorem evalCs_sub_ok (σ : State V) (e : Expr) : ∀ (es : List Expr) (k : Nat) (p : EPath),
    subAtL es k p = some e → (∃ vs, evalCs σ es = .ok vs) → ∃ n, evalC σ e = .ok n
  | [], k, p, hs, h => by simp [subAtL] at hs
  | a :: as, 0, p, hs, ⟨vs, h⟩ => by
    simp only [subAtL] at hs
    simp only [evalCs] at h
    obtain ⟨v, hv, _⟩ := bind_ok h
    exact evalC_sub_ok σ e a p hs ⟨v, hv⟩
  | a :: as, k + 1, p, hs, ⟨vs, h⟩ => by
    simp only [subAtL] at hs
    simp only [evalCs] at h
    obtain ⟨v, hv, h2⟩ := bind_ok h
    obtain ⟨ws, hws, _⟩ := bind_ok h2
    exact evalCs_sub_ok σ e as k p hs ⟨ws, hws⟩

theorem evalCs_getElem_ok (σ : State V) (a : Expr) : ∀ (es : List Expr) (k : Nat),
    es[k]? = some a → (∃ vs, evalCs σ es = .ok vs) → ∃ n, evalC σ a = .ok n
  | [], k, hk, _ => by simp at hk
  | b :: bs, 0, hk, ⟨vs, h⟩ => by
    simp only [List.getElem?_cons_zero, Option.some.injEq] at hk
    subst hk
    simp only [evalCs] at h
    obtain ⟨v, hv, _⟩ := bind_ok h
    exact ⟨v, hv⟩
  | b :: bs, k + 1, hk, ⟨vs, h⟩ => by
    simp only [List.getElem?_cons_succ] at hk
    simp only [evalCs] at h
    obtain ⟨v, hv, h2⟩ := bind_ok h
    obtain ⟨ws, hws, _⟩ := bind_ok h2
    exact evalCs_getElem_ok σ a bs k hk ⟨ws, hws⟩

variable [DataAlg V] (ext : String → List V → V)

/-- the expression can be evaluated in mode `m` -/
def EvalOk (m : Bool) (σ : State V) (e : Expr) : Prop :=
  match m with
  | true => ∃ v, evalD ext σ e = .ok v
  | false => ∃ n, evalC σ e = .ok n

mutual
theorem evalD_sub_ok (σ : State V) (e : Expr) : ∀ (E : Expr) (p : EPath),
    subAt E p = some e → (∃ v, evalD ext σ E = .ok v) → EvalOk ext (occMode true E p) σ e
  | E, [], hs, h => by
    rw [subAt.eq_1] at hs
    cases hs
    rw [occMode.eq_1]
    exact h
  | .usub a, k :: p, hs, ⟨n, h⟩ => by
    simp only [subAt, occMode] at hs ⊢
    split at hs
    · rename_i hk
      simp only [hk, if_true]
      simp only [evalD] at h
      obtain ⟨v, hv, _⟩ := bind_ok h
      exact evalD_sub_ok σ e a p hs ⟨v, hv⟩
    · cases hs
  | .binop op a b, k :: p, hs, ⟨n, h⟩ => by
    simp only [subAt, occMode] at hs ⊢
    simp only [evalD] at h
    obtain ⟨x, hx, h2⟩ := bind_ok h
    obtain ⟨y, hy, _⟩ := bind_ok h2
    split at hs
    · rename_i hk
      simp only [hk, if_true]
      exact evalD_sub_ok σ e a p hs ⟨x, hx⟩
    · rename_i hk
      simp only [hk, if_false]
      split at hs
      · rename_i hk1
        simp only [hk1, if_true]
        exact evalD_sub_ok σ e b p hs ⟨y, hy⟩
      · cases hs
  | .read x idx, k :: p, hs, ⟨n, h⟩ => by
    simp only [subAt, occMode] at hs ⊢
    rw [occModeL_false]
    simp only [evalD] at h
    split at h
    · obtain ⟨is, his, _⟩ := bind_ok h
      exact evalCs_sub_ok σ e idx k p hs ⟨is, his⟩
    · cases h
  | .extern f args, k :: p, hs, ⟨n, h⟩ => by
    simp only [subAt, occMode] at hs ⊢
    simp only [evalD] at h
    obtain ⟨vs, hvs, _⟩ := bind_ok h
    exact evalDs_sub_ok σ e args k p hs ⟨vs, hvs⟩
  | .lit c, k :: p, hs, h => by simp [subAt] at hs
  | .win x a, k :: p, hs, h => by simp [subAt] at hs
  | .stride x d, k :: p, hs, h => by simp [subAt] at hs
  | .readcfg c f, k :: p, hs, h => by simp [subAt] at hs
theorem evalDs_sub_ok (σ : State V) (e : Expr) : ∀ (es : List Expr) (k : Nat) (p : EPath),
    subAtL es k p = some e → (∃ vs, evalDs ext σ es = .ok vs) → EvalOk ext (occModeL true es k p) σ e
  | [], k, p, hs, h => by simp [subAtL] at hs
  | a :: as, 0, p, hs, ⟨vs, h⟩ => by
    simp only [subAtL, occModeL] at hs ⊢
    simp only [evalDs] at h
    obtain ⟨v, hv, _⟩ := bind_ok h
    exact evalD_sub_ok σ e a p hs ⟨v, hv⟩
  | a :: as, k + 1, p, hs, ⟨vs, h⟩ => by
    simp only [subAtL, occModeL] at hs ⊢
    simp only [evalDs] at h
    obtain ⟨v, hv, h2⟩ := bind_ok h
    obtain ⟨ws, hws, _⟩ := bind_ok h2
    exact evalDs_sub_ok σ e as k p hs ⟨ws, hws⟩
end

theorem evalOk_sub (σ : State V) (e E : Expr) (p : EPath) (m : Bool)
    (hs : subAt E p = some e) (h : EvalOk ext m σ E) : EvalOk ext (occMode m E p) σ e := by
  cases m with
  | true => exact evalD_sub_ok ext σ e E p hs h
  | false =>
    rw [occMode_false]
    exact evalC_sub_ok σ e E p hs h

theorem writeCell_ok_idx {σ o : State V} {x : Sym} {idx : List Expr} {f : Option V → Option V}
    (h : writeCell σ x idx f = .ok o) : ∃ vs, evalCs σ idx = .ok vs := by
  unfold writeCell at h
  split at h
  · obtain ⟨is, his, _⟩ := bind_ok h
    exact ⟨is, his⟩
  · cases h

theorem bindArgs_arg_ok (σ : State V) (a : Expr) :
    ∀ (fargs : List FnArg) (args : List Expr) (k : Nat) (ce : List (Sym × Int)) (cv : List (Sym × View)),
      (∃ x kk, fargs[k]? = some ⟨x, .ctrl kk⟩) → args[k]? = some a →
      (∃ r, bindArgs σ fargs args ce cv = .ok r) → ∃ n, evalC σ a = .ok n
  | [], args, k, ce, cv, hf, ha, _ => by
    obtain ⟨x, kk, hf⟩ := hf
    simp at hf
  | fa :: fs, [], k, ce, cv, hf, ha, _ => by simp at ha
  | ⟨x, .ctrl kk⟩ :: fs, b :: bs, 0, ce, cv, hf, ha, ⟨r, h⟩ => by
    simp only [List.getElem?_cons_zero, Option.some.injEq] at ha
    subst ha
    simp only [bindArgs] at h
    obtain ⟨v, hv, _⟩ := bind_ok h
    exact ⟨v, hv⟩
  | ⟨x, .scalar⟩ :: fs, b :: bs, 0, ce, cv, hf, ha, _ => by
    obtain ⟨x', kk, hf⟩ := hf
    simp at hf
  | ⟨x, .tensor sh w⟩ :: fs, b :: bs, 0, ce, cv, hf, ha, _ => by
    obtain ⟨x', kk, hf⟩ := hf
    simp at hf
  | ⟨x, .ctrl kk⟩ :: fs, b :: bs, k + 1, ce, cv, hf, ha, ⟨r, h⟩ => by
    simp only [List.getElem?_cons_succ] at hf ha
    simp only [bindArgs] at h
    obtain ⟨v, hv, h2⟩ := bind_ok h
    split at h2
    · simp [bind, Except.bind, throw, throwThe, MonadExceptOf.throw] at h2
    · exact bindArgs_arg_ok σ a fs bs k _ _ hf ha ⟨r, h2⟩
  | ⟨x, .scalar⟩ :: fs, b :: bs, k + 1, ce, cv, hf, ha, ⟨r, h⟩ => by
    simp only [List.getElem?_cons_succ] at hf ha
    simp only [bindArgs] at h
    obtain ⟨v, hv, h2⟩ := bind_ok h
    exact bindArgs_arg_ok σ a fs bs k _ _ hf ha ⟨r, h2⟩
  | ⟨x, .tensor sh w⟩ :: fs, b :: bs, k + 1, ce, cv, hf, ha, ⟨r, h⟩ => by
    simp only [List.getElem?_cons_succ] at hf ha
    simp only [bindArgs] at h
    obtain ⟨v, hv, h2⟩ := bind_ok h
    exact bindArgs_arg_ok σ a fs bs k _ _ hf ha ⟨r, h2⟩

/-- whatever sits in a slot of a statement is evaluated when the statement runs -/
theorem slot_evaluated (σ o : State V) (E : Expr) (m : Bool) :
    ∀ (s : Stmt) (slot : Slot), exprAt s slot = some (E, m) → execS ext s σ = .ok o →
      EvalOk ext m σ E
  | .assign x idx rhs, .rhs, hs, h => by
    simp only [exprAt, Option.some.injEq, Prod.mk.injEq] at hs
    obtain ⟨rfl, rfl⟩ := hs
    simp only [execS] at h
    obtain ⟨v, hv, _⟩ := bind_ok h
    exact ⟨v, hv⟩
  | .reduce x idx rhs, .rhs, hs, h => by
    simp only [exprAt, Option.some.injEq, Prod.mk.injEq] at hs
    obtain ⟨rfl, rfl⟩ := hs
    simp only [execS] at h
    obtain ⟨v, hv, _⟩ := bind_ok h
    exact ⟨v, hv⟩
  | .writecfg c f rhs d, .rhs, hs, h => by
    simp only [exprAt, Option.some.injEq, Prod.mk.injEq] at hs
    obtain ⟨rfl, rfl⟩ := hs
    obtain ⟨v, _, hv⟩ := writecfg_ok ext h
    rcases hv with ⟨rfl, x, hx, _⟩ | ⟨rfl, n, hn, _⟩
    · exact ⟨x, hx⟩
    · exact ⟨n, hn⟩
  | .assign x idx rhs, .idx k, hs, h => by
    simp only [exprAt, Option.map_eq_some_iff, Prod.mk.injEq] at hs
    obtain ⟨a, ha, rfl, rfl⟩ := hs
    simp only [execS] at h
    obtain ⟨v, _, h2⟩ := bind_ok h
    exact evalCs_getElem_ok σ a idx k ha (writeCell_ok_idx h2)
  | .reduce x idx rhs, .idx k, hs, h => by
    simp only [exprAt, Option.map_eq_some_iff, Prod.mk.injEq] at hs
    obtain ⟨a, ha, rfl, rfl⟩ := hs
    simp only [execS] at h
    obtain ⟨v, _, h2⟩ := bind_ok h
    exact evalCs_getElem_ok σ a idx k ha (writeCell_ok_idx h2)
  | .ite c t e, .cond, hs, h => by
    simp only [exprAt, Option.some.injEq, Prod.mk.injEq] at hs
    obtain ⟨rfl, rfl⟩ := hs
    simp only [execS] at h
    obtain ⟨v, hv, _⟩ := bind_ok h
    exact ⟨v, hv⟩
  | .loop i lo hi b par, .lo, hs, h => by
    simp only [exprAt, Option.some.injEq, Prod.mk.injEq] at hs
    obtain ⟨rfl, rfl⟩ := hs
    simp only [execS] at h
    obtain ⟨v, hv, _⟩ := bind_ok h
    exact ⟨v, hv⟩
  | .loop i lo hi b par, .hi, hs, h => by
    simp only [exprAt, Option.some.injEq, Prod.mk.injEq] at hs
    obtain ⟨rfl, rfl⟩ := hs
    simp only [execS] at h
    obtain ⟨v, _, h2⟩ := bind_ok h
    obtain ⟨w, hw, _⟩ := bind_ok h2
    exact ⟨w, hw⟩
  | .call f args, .arg k, hs, h => by
    simp only [exprAt] at hs
    split at hs
    · rename_i hcf
      simp only [Option.map_eq_some_iff, Prod.mk.injEq] at hs
      obtain ⟨a, ha, rfl, rfl⟩ := hs
      simp only [execS] at h
      obtain ⟨nm, fargs, preds, body⟩ := f
      obtain ⟨ce, cv, s2, hb, _⟩ := (execP_ok_iff ext _ _ _ _ _ _ _).1 h
      refine bindArgs_arg_ok σ a fargs args k [] [] ?_ ha ⟨_, hb⟩
      unfold isCtrlFormal at hcf
      split at hcf
      · rename_i x kk hx; exact ⟨x, kk, hx⟩
      · cases hcf
    · cases hs
  | .assign _ _ _, .cond, hs, _ => by simp [exprAt] at hs
  | .assign _ _ _, .lo, hs, _ => by simp [exprAt] at hs
  | .assign _ _ _, .hi, hs, _ => by simp [exprAt] at hs
  | .assign _ _ _, .arg _, hs, _ => by simp [exprAt] at hs
  | .reduce _ _ _, .cond, hs, _ => by simp [exprAt] at hs
  | .reduce _ _ _, .lo, hs, _ => by simp [exprAt] at hs
  | .reduce _ _ _, .hi, hs, _ => by simp [exprAt] at hs
  | .reduce _ _ _, .arg _, hs, _ => by simp [exprAt] at hs
  | .writecfg _ _ _ _, .idx _, hs, _ => by simp [exprAt] at hs
  | .writecfg _ _ _ _, .cond, hs, _ => by simp [exprAt] at hs
  | .writecfg _ _ _ _, .lo, hs, _ => by simp [exprAt] at hs
  | .writecfg _ _ _ _, .hi, hs, _ => by simp [exprAt] at hs
  | .writecfg _ _ _ _, .arg _, hs, _ => by simp [exprAt] at hs
  | .pass, _, hs, _ => by simp [exprAt] at hs
  | .ite _ _ _, .rhs, hs, _ => by simp [exprAt] at hs
  | .ite _ _ _, .idx _, hs, _ => by simp [exprAt] at hs
  | .ite _ _ _, .lo, hs, _ => by simp [exprAt] at hs
  | .ite _ _ _, .hi, hs, _ => by simp [exprAt] at hs
  | .ite _ _ _, .arg _, hs, _ => by simp [exprAt] at hs
  | .loop _ _ _ _ _, .rhs, hs, _ => by simp [exprAt] at hs
  | .loop _ _ _ _ _, .idx _, hs, _ => by simp [exprAt] at hs
  | .loop _ _ _ _ _, .cond, hs, _ => by simp [exprAt] at hs
  | .loop _ _ _ _ _, .arg _, hs, _ => by simp [exprAt] at hs
  | .alloc _ _, _, hs, _ => by simp [exprAt] at hs
  | .free _, _, hs, _ => by simp [exprAt] at hs
  | .call _ _, .rhs, hs, _ => by simp [exprAt] at hs
  | .call _ _, .idx _, hs, _ => by simp [exprAt] at hs
  | .call _ _, .cond, hs, _ => by simp [exprAt] at hs
  | .call _ _, .lo, hs, _ => by simp [exprAt] at hs
  | .call _ _, .hi, hs, _ => by simp [exprAt] at hs
  | .window _ _, _, hs, _ => by simp [exprAt] at hs

theorem write_of_evalOk (c f : String) (e : Expr) (d : Bool) (σ : State V) (h : EvalOk ext d σ e) :
    ∃ σ2, execS ext (.writecfg c f e d) σ = .ok σ2 := by
  cases d with
  | true =>
    obtain ⟨v, hv⟩ := h
    exact ⟨{ σ with cfg := setCfg (c, f) (.data v) σ.cfg },
      by simp [execS, hv, bind, Except.bind, pure, Except.pure]⟩
  | false =>
    obtain ⟨n, hn⟩ := h
    exact ⟨{ σ with cfg := setCfg (c, f) (.ctrl n) σ.cfg },
      by simp [execS, hn, bind, Except.bind, pure, Except.pure]⟩

/-- **the inserted write of `bind_config` is safe**: it evaluates an expression the statement
    evaluates anyway -/
theorem bindStmt_safe {s : Stmt} {slot : Slot} {path : EPath} {c f : String} {d : Bool} {e : Expr}
    {ws : List Stmt} (hb : bindStmt s slot path c f d = some (e, ws)) (σ o : State V)
    (h : execS ext s σ = .ok o) : ∃ σ2, execS ext (.writecfg c f e d) σ = .ok σ2 := by
  unfold bindStmt at hb
  split at hb
  · rename_i E m hE
    split at hb
    · rename_i e' he
      split at hb
      · rename_i hm
        simp only [Option.some.injEq, Prod.mk.injEq] at hb
        obtain ⟨rfl, _⟩ := hb
        have h1 := slot_evaluated ext σ o E m s slot hE h
        have h2 := evalOk_sub ext σ e' E path m he h1
        rw [hm] at h2
        exact write_of_evalOk ext c f e' d σ h2
      · cases hb
    · cases hb
  · cases hb

end Exo.Config
