/-
  stage_mem, accumulating variant, part 2: the ONE-dimensional discharge of the two nests
  (geometry `C1d`, StorageStage3.lean) and a complete example.

  * `gen_loop`        : a counting loop whose `k`-th iteration stores a value `val k` that does not
                        depend on what the earlier iterations stored into cell `b0 + k` of ONE buffer
  * `zeroOK_1d`       : `for i in 0..hi-lo: xs[i] = 0.0`           (uses `RightZero`)
  * `accStoreOK_1d`   : `for i in 0..hi-lo: x[i + lo] += xs[i]`
  * `stage_mem_accum_1d_fwd_partial`, `stage_mem_accum_1d_refWL_partial` : the block theorems with
    only syntactic guards and `Stage1dHyp` (the same per-state hypotheses as the read+write variant)
  * the example `for i in 0..4: x[i+1] += y[i] * 2` staged on `x[1:5]`, instantiated over `Int`
-/
import ExoModel.Lemmas.StorageStageAcc

set_option linter.unusedSectionVars false
set_option linter.unusedVariables false

namespace Exo.Stg
open Exo
variable {V : Type}

namespace StageAcc

/-! ### a generic "one cell per iteration" loop -/

/-- loop invariant: everything but buffer `Bf` is as in `σ1`; cells `b0 … b0+k-1` of `Bf` hold
    `val 0 … val (k-1)`, the other cells of `Bf` are as in `bf` -/
def GInv (σ1 : State V) (Bf b0 : Nat) (bf : List (Option V)) (val : Nat → Option V) (k : Nat)
    (s : State V) : Prop :=
  s.env = σ1.env ∧ s.cfg = σ1.cfg ∧ s.views = σ1.views ∧ s.heap.length = σ1.heap.length ∧
  (∀ b, b ≠ Bf → s.heap[b]? = σ1.heap[b]?) ∧
  ∃ bf', s.heap[Bf]? = some bf' ∧ bf'.length = bf.length ∧
    (∀ j, j < k → bf'[b0 + j]? = some (val j)) ∧ (∀ c, (c < b0 ∨ b0 + k ≤ c) → bf'[c]? = bf[c]?)

theorem ginv_step (σ1 : State V) (Bf b0 L : Nat) (bf : List (Option V)) (val : Nat → Option V)
    (hb : b0 + L ≤ bf.length) (k : Nat) (hk : k < L) (s : State V)
    (hinv : GInv σ1 Bf b0 bf val k s) :
    GInv σ1 Bf b0 bf val (k + 1) { s with heap := heapSet s.heap (Bf, b0 + k) (val k) } := by
  obtain ⟨e1, e2, e3, e4, e5, bf', h1, h2, h3, h4⟩ := hinv
  refine ⟨e1, e2, e3, ?_, ?_, bf'.set (b0 + k) (val k), ?_, ?_, ?_, ?_⟩
  · simp only [heapSet, List.length_modify]; exact e4
  · intro b hb'
    rw [getElem?_heapSet, if_neg (fun e => hb' e.symm)]
    exact e5 b hb'
  · rw [getElem?_heapSet, if_pos rfl, h1]; rfl
  · rw [List.length_set]; exact h2
  · intro j hj
    by_cases hjk : j = k
    · subst hjk
      rw [List.getElem?_set, if_pos rfl, if_pos (by omega)]
    · rw [List.getElem?_set, if_neg (by omega)]
      exact h3 j (by omega)
  · intro c hc
    rw [List.getElem?_set, if_neg (by omega)]
    exact h4 c (by omega)

section
variable [DataAlg V] (ext : String → List V → V)

/-- `for i in 0..L: body` where iteration `k` stores `val k` into cell `b0 + k` of buffer `Bf` -/
theorem gen_loop (σ1 : State V) (i : Sym) (body : List Stmt) (Bf b0 L : Nat)
    (bf : List (Option V)) (val : Nat → Option V) (hBf : σ1.heap[Bf]? = some bf)
    (hb : b0 + L ≤ bf.length)
    (hstep : ∀ (s : State V) (k : Nat), k < L → GInv σ1 Bf b0 bf val k s →
      execL ext body (s.bind i k)
        = .ok { (s.bind i k) with heap := heapSet s.heap (Bf, b0 + k) (val k) }) :
    ∃ s', iterate (fun v s => (execL ext body (s.bind i v)).map (State.leave s)) L 0 σ1 = .ok s' ∧
      GInv σ1 Bf b0 bf val L s' := by
  have init : GInv σ1 Bf b0 bf val 0 σ1 :=
    ⟨rfl, rfl, rfl, rfl, fun _ _ => rfl, bf, hBf, rfl,
      fun j hj => absurd hj (Nat.not_lt_zero _), fun c _ => rfl⟩
  refine iterate_count (GInv σ1 Bf b0 bf val) _ L ?_ L 0 σ1 (by omega) init
  intro k s hk hinv
  refine ⟨{ s with heap := heapSet s.heap (Bf, b0 + k) (val k) }, ?_,
    ginv_step σ1 Bf b0 L bf val hb k hk s hinv⟩
  show (execL ext body (s.bind i (k : Int))).map (State.leave s) = _
  rw [hstep s k hk hinv]
  exact congrArg Except.ok (leave_heapWrite s i k _ (by
    simp only [heapSet, List.length_modify]))

theorem exec_fill (s : State V) (y : Sym) (idy : List Expr) (cy : Nat × Nat) (n : Int) (d : Nat)
    (hty : Fp.target s y idy = .ok cy) :
    execL ext [.assign y idy (.lit (.data n d))] s
      = .ok { s with heap := heapSet s.heap cy (some (DataAlg.ofRat n d)) } := by
  have h1 : execS ext (.assign y idy (.lit (.data n d))) s
      = .ok { s with heap := heapSet s.heap cy (some (DataAlg.ofRat n d)) } := by
    simp only [execS, evalD]
    show writeCell s y idy (fun _ => some (DataAlg.ofRat n d)) = _
    rw [Fp.writeCell_eq, hty]
    rfl
  rw [execL_cons_ok ext h1]
  rfl

theorem exec_accum (s : State V) (y z : Sym) (idy idz : List Expr) (cy cz : Nat × Nat)
    (hty : Fp.target s y idy = .ok cy) (htz : Fp.target s z idz = .ok cz) :
    execL ext [.reduce y idy (.read z idz)] s
      = .ok { s with
          heap := heapSet s.heap cy (lift2 DataAlg.add (heapGet s.heap cy) (heapGet s.heap cz)) } := by
  have h1 : execS ext (.reduce y idy (.read z idz)) s
      = .ok { s with
          heap := heapSet s.heap cy (lift2 DataAlg.add (heapGet s.heap cy) (heapGet s.heap cz)) } := by
    simp only [execS]
    rw [Fp.evalD_read, htz]
    show writeCell s y idy (fun old => lift2 DataAlg.add old (heapGet s.heap cz)) = _
    rw [Fp.writeCell_eq, hty]
    rfl
  rw [execL_cons_ok ext h1]
  rfl

end

end StageAcc

/-! ### the two nests of a one-dimensional staging buffer -/

theorem stageLoad_acc_1d (x xs i : Sym) (lo hi : Expr) :
    Rw.stageLoad x xs [.interval lo hi] [i] true none =
      [.loop i (.lit (.int 0)) (.binop .sub hi lo)
        [.assign xs [.read i []] (.lit (.data 0 1))] false] := rfl

theorem stageStore_acc_1d (x xs i : Sym) (lo hi : Expr) :
    Rw.stageStore x xs [.interval lo hi] [i] true none =
      [.loop i (.lit (.int 0)) (.binop .sub hi lo)
        [.reduce x [.binop .add (.read i []) lo] (.read xs [.read i []])] false] := rfl

section
variable [DataAlg V] (ext : String → List V → V)

/-- **zero fill, one-dimensional**: `for i in 0..hi-lo: xs[i] = 0.0` -/
theorem zeroOK_1d (hzero : RightZero V) (x xs i : Sym) (lo hi : Expr) (σ1 : State V) (vx : View)
    (lv hv : Int) (N : Nat)
    (hxs : lookupSym xs σ1.views = some { buf := N, off := 0, dims := denseDims [hv - lv] })
    (hMN : vx.buf ≠ N) (hlv : evalC σ1 lo = .ok lv) (hhv : evalC σ1 hi = .ok hv) (h1 : lv ≤ hv)
    (hNbuf : ∃ rn, σ1.heap[N]? = some rn ∧ rn.length = (hv - lv).toNat) :
    ZeroOK ext (Rw.stageLoad x xs [.interval lo hi] [i] true none) vx.buf N
      (C1d vx.off lv hv) σ1 := by
  intro rm0 hrm0
  obtain ⟨rn, hrn, hrnl⟩ := hNbuf
  obtain ⟨s', hs', e1, e2, e3, e4, e5, rn', g1, g2, g3, g4⟩ :=
    StageAcc.gen_loop ext σ1 i [.assign xs [.read i []] (.lit (.data 0 1))] N 0 (hv - lv).toNat rn
      (fun _ => some (DataAlg.ofRat 0 1)) hrn (by omega)
      (fun s k hk hinv => by
        obtain ⟨f1, f2, f3, f4, f5, bf', k1, k2, k3, k4⟩ := hinv
        have hik := evalC_bindvar s i (k : Int)
        have ht : Fp.target (s.bind i k) xs [.read i []] = .ok (N, 0 + k) :=
          target_1d (s := s.bind i k) (y := xs)
            (v := { buf := N, off := 0, dims := denseDims [hv - lv] }) (n := hv - lv)
            (j := (k : Int)) (b := bf') (c := 0 + k)
            (by show lookupSym xs s.views = _; rw [f3]; exact hxs) rfl (evalCs_one hik)
            (by omega) (by omega) k1 (by show (0 : Int) ≤ 0 + (k : Int); omega)
            (by show (0 : Int) + (k : Int) < (bf'.length : Int); omega)
            (by show ((0 : Int) + (k : Int)).toNat = 0 + k; omega)
        exact StageAcc.exec_fill ext (s.bind i k) xs _ _ 0 1 ht)
  have hcnt : evalC σ1 (.binop .sub hi lo) = .ok (hv - lv) := evalC_sub hhv hlv
  refine ⟨s', ?_, e1, e2, e3, ?_⟩
  · rw [stageLoad_acc_1d]
    exact exec_loop0 ext i _ _ σ1 s' (hv - lv) hcnt (by omega) hs'
  · refine ⟨hMN, e4, fun b hbM hbN => e5 b hbN, rm0, rm0, rn', hrm0,
      by rw [e5 _ hMN]; exact hrm0, g1, rfl, rfl, fun _ _ => rfl, ?_⟩
    intro c c' hC
    simp only [C1d] at hC
    split at hC
    · have ec := Option.some.inj hC
      constructor
      · intro _
        rw [g2, hrnl]; omega
      · have := g3 c' (by omega)
        rw [Nat.zero_add] at this
        rw [this]
        show (rm0[c]?).join = lift2 DataAlg.add (rm0[c]?).join (some (DataAlg.ofRat 0 1))
        rw [StageAcc.lift2_add_zero hzero]
    · cases hC

/-- **accumulating copy-out, one-dimensional**: `for i in 0..hi-lo: x[i + lo] += xs[i]` -/
theorem accStoreOK_1d (x xs i : Sym) (lo hi : Expr) (B : List Stmt) (σ1 : State V) (vx : View)
    (n lv hv : Int) (N : Nat) (pv : Sym → View) (hpx : pv x = vx)
    (hpxs : pv xs = { buf := N, off := 0, dims := denseDims [hv - lv] })
    (hlo : lo.envOnly = true) (hhi : hi.envOnly = true) (hilo : lo.occC i = false)
    (hd : vx.dims = [(n, 1)]) (hMN : vx.buf ≠ N)
    (hlv : evalC σ1 lo = .ok lv) (hhv : evalC σ1 hi = .ok hv)
    (h0 : 0 ≤ lv) (h1 : lv ≤ hv) (h2 : hv ≤ n) (hoff : 0 ≤ vx.off)
    (hfit : ∀ b, σ1.heap[vx.buf]? = some b → vx.off + n ≤ (b.length : Int)) :
    AccStoreOK ext (Rw.stageStore x xs [.interval lo hi] [i] true none) B x xs vx.buf N
      (C1d vx.off lv hv) pv σ1 := by
  intro rm0 tB tB' hrm0 hB hrel
  have hfit' := hfit rm0 hrm0
  have henvB : tB.env = σ1.env := (execL_scope ext B σ1 tB hB).1
  have henv' : tB'.env = σ1.env := hrel.env.trans henvB
  obtain ⟨lm, rm, rn, k1, k2, k3, q0, ql, q1, q2⟩ := hrel.heap.big
  subst q0
  have hxv : lookupSym x tB'.views = some vx := by
    rw [hrel.views, hrel.px x (Or.inl rfl), hpx]
  have hxsv : lookupSym xs tB'.views
      = some { buf := N, off := 0, dims := denseDims [hv - lv] } := by
    rw [hrel.views, hrel.px xs (Or.inr rfl), hpxs]
  have hrnlt : ∀ j, j < (hv - lv).toNat → 0 + j < rn.length := by
    intro j hj
    have hc := c1d_img (hv := hv) hoff h0 j (by omega)
    rw [Nat.zero_add]
    exact (q2 _ _ hc).1 (by omega)
  obtain ⟨s', hs', e1, e2, e3, e4, e5, rm', g1, g2, g3, g4⟩ :=
    StageAcc.gen_loop ext tB' i [.reduce x [.binop .add (.read i []) lo] (.read xs [.read i []])]
      vx.buf (vx.off + lv).toNat (hv - lv).toNat rm
      (fun j => lift2 DataAlg.add (rm[(vx.off + lv).toNat + j]?).join (rn[0 + j]?).join)
      k2 (by omega)
      (fun s k hk hinv => by
        obtain ⟨f1, f2, f3, f4, f5, bf', m1, m2, m3, m4⟩ := hinv
        have hsN : s.heap[N]? = some rn := by rw [f5 N (fun e => hMN e.symm)]; exact k3
        have hik := evalC_bindvar s i (k : Int)
        have hlo' : evalC (s.bind i k) lo = .ok lv := by
          rw [evalC_bind_envOnly hlo hilo (f1.trans henv')]; exact hlv
        have hkr := hrnlt k hk
        have tx : Fp.target (s.bind i k) x [.binop .add (.read i []) lo]
            = .ok (vx.buf, (vx.off + lv).toNat + k) :=
          target_1d (s := s.bind i k) (y := x) (n := n) (j := (k : Int) + lv)
            (by show lookupSym x s.views = _; rw [f3]; exact hxv) hd
            (evalCs_one (evalC_add hik hlo')) (by omega) (by omega) m1 (by omega) (by omega)
            (by omega)
        have txs : Fp.target (s.bind i k) xs [.read i []] = .ok (N, 0 + k) :=
          target_1d (s := s.bind i k) (y := xs)
            (v := { buf := N, off := 0, dims := denseDims [hv - lv] }) (n := hv - lv)
            (j := (k : Int)) (b := rn) (c := 0 + k)
            (by show lookupSym xs s.views = _; rw [f3]; exact hxsv) rfl (evalCs_one hik)
            (by omega) (by omega) hsN (by show (0 : Int) ≤ 0 + (k : Int); omega)
            (by show (0 : Int) + (k : Int) < (rn.length : Int); omega)
            (by show ((0 : Int) + (k : Int)).toNat = 0 + k; omega)
        have gx : heapGet (s.bind i (k : Int)).heap (vx.buf, (vx.off + lv).toNat + k)
            = (rm[(vx.off + lv).toNat + k]?).join := by
          show heapGet s.heap _ = _
          simp only [heapGet, m1]
          rw [m4 _ (Or.inr (Nat.le_refl _))]
        have gxs : heapGet (s.bind i (k : Int)).heap (N, 0 + k) = (rn[0 + k]?).join := by
          show heapGet s.heap _ = _
          simp only [heapGet, hsN]
        rw [StageAcc.exec_accum ext (s.bind i k) x xs _ _ _ _ tx txs, gx, gxs]
        rfl)
  have hcnt : evalC tB' (.binop .sub hi lo) = .ok (hv - lv) :=
    evalC_sub (by rw [evalC_env_envOnly hhi henv']; exact hhv)
      (by rw [evalC_env_envOnly hlo henv']; exact hlv)
  refine ⟨s', ?_, e1.trans hrel.env, e2.trans hrel.cfg, e3.trans hrel.views,
    e4.trans hrel.heap.len, ?_⟩
  · rw [stageStore_acc_1d]
    exact exec_loop0 ext i _ _ tB' s' (hv - lv) hcnt (by omega) hs'
  · intro b hbN
    by_cases hbM : b = vx.buf
    · subst hbM
      rw [g1, k1]
      congr 1
      apply List.ext_getElem?
      intro c
      cases hC : C1d vx.off lv hv c with
      | none =>
        have hout : c < (vx.off + lv).toNat ∨ (vx.off + lv).toNat + (hv - lv).toNat ≤ c := by
          simp only [C1d] at hC
          split at hC
          · cases hC
          · rename_i hw
            omega
        rw [g4 c hout]
        exact q1 c hC
      | some c' =>
        have hC' := hC
        simp only [C1d] at hC'
        split at hC'
        · have ec := Option.some.inj hC'
          have := g3 c' (by omega)
          have ea : (vx.off + lv).toNat + c' = c := by omega
          simp only [Nat.zero_add] at this
          rw [ea] at this
          rw [this, ← (q2 c c' hC).2]
          obtain ⟨u, hu⟩ := exists_getElem? lm c (by omega)
          rw [hu]
          rfl
        · cases hC'
    · rw [e5 b hbM]
      exact hrel.heap.other b hbM hbN

end

/-! ### the one-dimensional instance of the block theorems -/

section
variable [DataAlg V] (ext : String → List V → V)

/-- all hypotheses of the general accumulating theorem, for the one-dimensional geometry and the real
    nests; the per-state hypotheses are those of the read+write variant (`Stage1dHyp`) -/
theorem accHyp_1d (hzero : RightZero V) (x xs i : Sym) (lo hi : Expr) (B : List Stmt)
    (σ : State V) (hvo : ViewsOk σ)
    (hxxs : x ≠ xs) (hlo : lo.envOnly = true) (hhi : hi.envOnly = true)
    (hilo : lo.occC i = false) (vx : View) (n lv hv : Int)
    (H : Stage1dHyp ext x xs lo hi B σ vx n lv hv) :
    AccHyp ext x xs [.interval lo hi] B (Rw.stageLoad x xs [.interval lo hi] [i] true none) σ vx
      [hv - lv] [lv] (C1d vx.off lv hv) ∧
    AccStoreOK ext (Rw.stageStore x xs [.interval lo hi] [i] true none) B x xs vx.buf σ.heap.length
      (C1d vx.off lv hv) (pvOf xs vx (vxsOf σ [hv - lv])) (allocSt σ xs [hv - lv]) := by
  have hlt : vx.buf < σ.heap.length := hvo (x, vx) (lookupSym_mem H.hx)
  have hMN : vx.buf ≠ σ.heap.length := by omega
  have h0 := H.h0
  have h1 := H.h1
  have hxs' : lookupSym xs (allocSt σ xs [hv - lv]).views
      = some { buf := σ.heap.length, off := 0, dims := denseDims [hv - lv] } := by
    simp [allocSt, lookupSym]
  have hlv' : evalC (allocSt σ xs [hv - lv]) lo = .ok lv :=
    (evalC_env_envOnly hlo (σ1 := σ) (s := allocSt σ xs [hv - lv]) rfl).trans H.hlv
  have hhv' : evalC (allocSt σ xs [hv - lv]) hi = .ok hv :=
    (evalC_env_envOnly hhi (σ1 := σ) (s := allocSt σ xs [hv - lv]) rfl).trans H.hhv
  have hfit' : ∀ b, (allocSt σ xs [hv - lv]).heap[vx.buf]? = some b →
      vx.off + n ≤ (b.length : Int) := by
    intro b hb
    have hb' : (σ.heap ++ [List.replicate (([hv - lv] : List Int).foldl (· * ·) 1).toNat none])[vx.buf]?
        = some b := hb
    rw [List.getElem?_append_left hlt] at hb'
    exact H.hfit b hb'
  constructor
  · refine ⟨H.hx, H.hid, ?_, ?_, ?_, ?_, H.acc, ?_⟩
    · show evalCs σ [.binop .sub hi lo] = _
      exact evalCs_one (evalC_sub H.hhv H.hlv)
    · have : ¬ hv - lv ≤ 0 := by omega
      simp only [checkSizes, if_neg this]
      rfl
    · show evalCs σ [lo] = _
      exact evalCs_one H.hlv
    · exact stAcc_1d V lo hi vx n lv hv σ.heap.length H.hd
    · exact zeroOK_1d ext hzero x xs i lo hi _ vx lv hv σ.heap.length hxs' hMN hlv' hhv' (by omega)
        ⟨List.replicate (1 * (hv - lv)).toNat none, getElem?_append_last _ _, by
          rw [List.length_replicate, Int.one_mul]⟩
  · exact accStoreOK_1d ext x xs i lo hi B _ vx n lv hv σ.heap.length _ (by simp [pvOf, hxxs])
      (by simp [pvOf, vxsOf]) hlo hhi hilo H.hd hMN hlv' hhv' h0 (by omega) H.h2 H.hoff hfit'

/-- **stage_mem, accumulating variant, one-dimensional window, state level**: only syntactic guards
    and `Stage1dHyp`, over a lawful data algebra in which `0.0` is a right zero -/
theorem stage_mem_accum_1d_fwd_partial [DataLaws V] (hzero : RightZero V) (x xs i : Sym)
    (lo hi : Expr) (B rest : List Stmt)
    (σ : State V) (hvo : ViewsOk σ) (hg : accGuard x xs [.interval lo hi] B = true)
    (hhi : hi.envOnly = true) (hilo : lo.occC i = false)
    (hrest : ∀ y ∈ namesL rest, y ≠ xs) (vx : View) (n lv hv : Int)
    (H : Stage1dHyp ext x xs lo hi B σ vx n lv hv) :
    Fwd Eq (execB ext (.alloc xs (Rw.stageShape [.interval lo hi]) :: (B ++ rest)) σ)
      (execB ext (.alloc xs (Rw.stageShape [.interval lo hi]) ::
        (Rw.stageLoad x xs [.interval lo hi] [i] true none ++
          (Rw.stageL x xs [.interval lo hi] B ++
            (Rw.stageStore x xs [.interval lo hi] [i] true none ++ rest)))) σ) := by
  have hg' := hg
  simp only [accGuard, Bool.and_eq_true, bne_iff_ne, ne_eq] at hg'
  have hlo : lo.envOnly = true := List.all_eq_true.1 hg'.1.2 lo (by simp [Rw.stageLos])
  obtain ⟨h1, h2⟩ := accHyp_1d ext hzero x xs i lo hi B σ hvo hg'.2 hlo hhi hilo vx n lv hv H
  exact stage_mem_accum_fwd_partial ext x xs _ B rest _ _ σ hvo hg hrest vx _ _ _ h1 h2

end

/-- the semantic side condition of the one-dimensional accumulating instance, in every well-scoped
    state (over a lawful algebra with a right zero) in which the original block succeeds -/
def Acc1dSem (x xs : Sym) (lo hi : Expr) (B ss : List Stmt) : Prop :=
  ∀ (V : Type) [DataAlg V] [DataLaws V] (ext : String → List V → V) (σ o : State V),
    RightZero V → ViewsOk σ → execB ext ss σ = .ok o →
    ∃ (vx : View) (n lv hv : Int), Stage1dHyp ext x xs lo hi B σ vx n lv hv

/-- **stage_mem, accumulating variant, one-dimensional window, as a refinement between well-scoped
    states over lawful algebras**: the `Local` `Rw.stageMemAll` with `accum = true`, no safety guards -/
theorem stage_mem_accum_1d_refWL_partial (x xs i : Sym) (lo hi : Expr) (n : Nat) (ss r : List Stmt)
    (h : Rw.stageMemAll x xs [.interval lo hi] n [i] true true true none none ss = some r)
    (hg : accGuard x xs [.interval lo hi] (ss.take n) = true)
    (hhi : hi.envOnly = true) (hilo : lo.occC i = false)
    (hrest : ∀ y ∈ namesL (ss.drop n), y ≠ xs)
    (hsem : Acc1dSem x xs lo hi (ss.take n) ss) : BlockRefWL ss r :=
  stage_mem_accum_refWL_partial x xs _ n [i] none none ss r h hg hrest
    (fun V _ _ ext σ o hz hvo ho => by
      obtain ⟨vx, nn, lv, hv, H⟩ := hsem V ext σ o hz hvo ho
      have hg' := hg
      simp only [accGuard, Bool.and_eq_true, bne_iff_ne, ne_eq] at hg'
      have hlo : lo.envOnly = true := List.all_eq_true.1 hg'.1.2 lo (by simp [Rw.stageLos])
      obtain ⟨h1, h2⟩ := accHyp_1d ext hz x xs i lo hi _ σ hvo hg'.2 hlo hhi hilo vx nn lv hv H
      exact ⟨vx, [hv - lv], [lv], C1d vx.off lv hv, h1, h2⟩)

end Exo.Stg

/-! ### the example `for i in 0..4: x[i+1] += y[i] * 2` staged on `x[1:5]`, accumulating -/
namespace Exo.Stg.StageEx
open Exo

theorem rightZero_int : RightZero Int := by
  intro a
  show a + (0 : Int) / ((1 : Nat) : Int) = a
  simp

def accBefore : List Stmt :=
  [.loop sI (lit 0) (lit 4)
    [.reduce sX [.binop .add (.read sI []) (lit 1)]
      (.binop .mul (.read sY [.read sI []]) (.lit (.data 2 1)))] false]
/-- `xs : R[5-1]; for j in 0..5-1: xs[j] = 0.0; for i in 0..4: xs[i+1-1] += y[i] * 2;
    for j in 0..5-1: x[j+1] += xs[j]` -/
def accAfter : List Stmt :=
  [.alloc sXs [.binop .sub (lit 5) (lit 1)],
   .loop sJ (lit 0) (.binop .sub (lit 5) (lit 1))
     [.assign sXs [.read sJ []] (.lit (.data 0 1))] false,
   .loop sI (lit 0) (lit 4)
    [.reduce sXs [.binop .sub (.binop .add (.read sI []) (lit 1)) (lit 1)]
      (.binop .mul (.read sY [.read sI []]) (.lit (.data 2 1)))] false,
   .loop sJ (lit 0) (.binop .sub (lit 5) (lit 1))
     [.reduce sX [.binop .add (.read sJ []) (lit 1)] (.read sXs [.read sJ []])] false]
def σacc : State Int :=
  { env := [], views := [(sX, ⟨0, 0, [(6, 1)]⟩), (sY, ⟨1, 0, [(4, 1)]⟩)],
    heap := [[some 1, some 2, some 3, some 4, some 5, some 6],
             [some 10, some 20, some 30, some 40]], cfg := [] }

theorem acc_rewrite :
    Rw.stageMemAll sX sXs win15 1 [sJ] true true true none none accBefore = some accAfter := by rfl

theorem acc_guard : accGuard sX sXs win15 accBefore = true := by decide

example : (execB ext0 accBefore σacc).toOption.map (·.heap)
    = some [[some 1, some 22, some 43, some 64, some 85, some 6],
            [some 10, some 20, some 30, some 40]] := by
  decide +kernel

example : (execB ext0 accAfter σacc).toOption.map (·.heap)
    = some [[some 1, some 22, some 43, some 64, some 85, some 6],
            [some 10, some 20, some 30, some 40]] := by
  decide +kernel

theorem acc_hyp : Stage1dHyp ext0 sX sXs (lit 1) (lit 5) accBefore σacc ⟨0, 0, [(6, 1)]⟩ 6 1 5 := by
  refine ⟨rfl, rfl, ?_, rfl, rfl, by decide, by decide, by decide, by decide, ?_, ?_⟩
  · intro y v hy hl
    simp only [σacc, lookupSym] at hl
    split at hl
    · rename_i e; exact absurd e hy
    · split at hl
      · cases hl; decide
      · cases hl
  · intro b hb
    have e : b = [some 1, some 2, some 3, some 4, some 5, some 6] := (Option.some.inj hb).symm
    subst e
    decide
  · exact accIn_of_accInB (by decide +kernel)

/-- the accumulating block theorem instantiated at `σacc` over `Int` (every hypothesis discharged) -/
theorem acc_stage_fwd :
    Fwd Eq (execB ext0 (.alloc sXs (Rw.stageShape win15) :: (accBefore ++ [])) σacc)
      (execB ext0 (.alloc sXs (Rw.stageShape win15) ::
        (Rw.stageLoad sX sXs win15 [sJ] true none ++
          (Rw.stageL sX sXs win15 accBefore ++
            (Rw.stageStore sX sXs win15 [sJ] true none ++ [])))) σacc) :=
  stage_mem_accum_1d_fwd_partial ext0 rightZero_int sX sXs sJ (lit 1) (lit 5) accBefore [] σacc
    (by unfold ViewsOk; decide) acc_guard rfl rfl (fun _ h => by cases h) _ 6 1 5 acc_hyp

end Exo.Stg.StageEx
