/-
  Lemmas about dynamic footprints, part 4: determinacy on the footprint for statements, blocks and
  calls (mutual induction).
-/
import ExoModel.Lemmas.FootprintDet

set_option linter.unusedSectionVars false
set_option linter.unusedVariables false
namespace Exo.Fp
open Exo

variable {V : Type} [DataAlg V] (ext : String → List V → V)
variable {P : Cell → Prop} {Pk : Key → Prop}

mutual
theorem detS : ∀ (a : Stmt) (s s' : State V), Agree P Pk s s' → ReadsIn P Pk (evS ext a s) →
    evS ext a s' = evS ext a s ∧ LockA P Pk (execS ext a s) (execS ext a s')
  | .assign x idx rhs, s, s', hA, hR => by
    simp only [evS] at hR ⊢
    rw [readsIn_append, readsIn_append] at hR
    obtain ⟨⟨h1, h2⟩, h3⟩ := hR
    obtain ⟨e1, e2⟩ := hA.evalD ext rhs h1
    have e3 := hA.target x idx (readsIn_crds.1 h2)
    rw [e1, e2, e3]
    refine ⟨rfl, ?_⟩
    simp only [execS, bind, Except.bind]
    rw [e1]
    cases hv : evalD ext s rhs with
    | error e => exact LockA.err
    | ok v =>
      simp only []
      rw [writeCell_eq, writeCell_eq, e3]
      cases hc : target s x idx with
      | error e => exact LockA.err
      | ok c =>
        simp only [Except.map]
        exact LockA.ok (hA.write (target_valid hc) v v (fun _ => rfl))
  | .reduce x idx rhs, s, s', hA, hR => by
    simp only [evS] at hR ⊢
    rw [readsIn_append, readsIn_append] at hR
    obtain ⟨⟨h1, h2⟩, h3⟩ := hR
    obtain ⟨e1, e2⟩ := hA.evalD ext rhs h1
    have e3 := hA.target x idx (readsIn_crds.1 h2)
    rw [e1, e2, e3]
    refine ⟨rfl, ?_⟩
    simp only [execS, bind, Except.bind]
    rw [e1]
    cases hv : evalD ext s rhs with
    | error e => exact LockA.err
    | ok v =>
      simp only []
      rw [writeCell_eq, writeCell_eq, e3]
      cases hc : target s x idx with
      | error e => exact LockA.err
      | ok c =>
        simp only [Except.map]
        exact LockA.ok (hA.write (target_valid hc) _ _ (fun hp => by rw [hA.cells c hp]))
  | .writecfg c f rhs isData, s, s', hA, hR => by
    cases isData with
    | true =>
      simp only [evS, ↓reduceIte] at hR ⊢
      rw [readsIn_append] at hR
      obtain ⟨e1, e2⟩ := hA.evalD ext rhs hR.1
      rw [e1, e2]
      refine ⟨rfl, ?_⟩
      simp only [execS, ↓reduceIte, bind, Except.bind]
      rw [e1]
      cases hv : evalD ext s rhs with
      | error e => exact LockA.err
      | ok v => exact LockA.ok (hA.setCfg (c, f) (.data v))
    | false =>
      simp only [evS, Bool.false_eq_true, ↓reduceIte] at hR ⊢
      rw [readsIn_append] at hR
      have e1 := hA.evalC rhs (readsIn_crds.1 hR.1)
      rw [e1]
      refine ⟨rfl, ?_⟩
      simp only [execS, Bool.false_eq_true, ↓reduceIte, bind, Except.bind]
      rw [e1]
      cases hv : evalC s rhs with
      | error e => exact LockA.err
      | ok v => exact LockA.ok (hA.setCfg (c, f) (.ctrl v))
  | .pass, s, s', hA, _ => ⟨rfl, by simp only [execS]; exact LockA.ok hA⟩
  | .free _, s, s', hA, _ => ⟨rfl, by simp only [execS]; exact LockA.ok hA⟩
  | .ite c t e, s, s', hA, hR => by
    simp only [evS] at hR ⊢
    rw [readsIn_append] at hR
    obtain ⟨h1, h2⟩ := hR
    have e1 := hA.evalC c (readsIn_crds.1 h1)
    rw [e1]
    simp only [execS, bind, Except.bind]
    rw [e1]
    cases hb : evalC s c with
    | error err => exact ⟨rfl, LockA.err⟩
    | ok b =>
      rw [hb] at h2
      simp only [onOk_ok] at h2 ⊢
      by_cases hz : b = 0
      · simp only [hz, ne_eq, not_true_eq_false, if_false] at h2 ⊢
        obtain ⟨e2, l2⟩ := detL e s s' hA h2
        rw [e2]
        exact ⟨rfl, lockA_map_leave hA l2⟩
      · simp only [hz, ne_eq, not_false_eq_true, if_true] at h2 ⊢
        obtain ⟨e2, l2⟩ := detL t s s' hA h2
        rw [e2]
        exact ⟨rfl, lockA_map_leave hA l2⟩
  | .loop i lo hi body par, s, s', hA, hR => by
    simp only [evS] at hR ⊢
    rw [readsIn_append] at hR
    obtain ⟨h1, h2⟩ := hR
    have hk := readsIn_crds.1 h1
    have el := hA.evalC lo (fun k hk' => hk k (List.mem_append_left _ hk'))
    have eh := hA.evalC hi (fun k hk' => hk k (List.mem_append_right _ hk'))
    rw [el, eh]
    simp only [execS, bind, Except.bind]
    rw [el, eh]
    cases hl : evalC s lo with
    | error err => exact ⟨rfl, LockA.err⟩
    | ok l =>
      rw [hl] at h2
      cases hh : evalC s hi with
      | error err => exact ⟨rfl, LockA.err⟩
      | ok h =>
        rw [hh] at h2
        simp only [onOk_ok] at h2 ⊢
        by_cases hlt : h < l
        · simp only [hlt, if_true]
          exact ⟨trivial, LockA.err⟩
        · simp only [hlt, if_false] at h2 ⊢
          obtain ⟨e2, l2⟩ := det_iterate (P := P) (Pk := Pk)
            (fun v s => evL ext body (s.bind i v))
            (fun v s => (execL ext body (s.bind i v)).map (State.leave s))
            (fun v a a' hAa hRa => by
              obtain ⟨e3, l3⟩ := detL body (a.bind i v) (a'.bind i v) (hAa.bind i v) hRa
              exact ⟨e3, lockA_map_leave hAa l3⟩)
            (h - l).toNat l s s' hA h2
          rw [e2]
          exact ⟨rfl, l2⟩
  | .alloc x shape, s, s', hA, hR => by
    simp only [evS] at hR ⊢
    have e1 := hA.evalCs shape (readsIn_crds.1 hR)
    refine ⟨trivial, ?_⟩
    simp only [execS, bind, Except.bind]
    rw [e1]
    cases hs : evalCs s shape with
    | error e => exact LockA.err
    | ok sh =>
      simp only []
      cases hk : checkSizes sh with
      | error e => exact LockA.err
      | ok u => exact LockA.ok (hA.alloc x _ _)
  | .call f args, s, s', hA, hR => by
    simp only [evS] at hR ⊢
    simp only [execS]
    exact detP f args s s' hA hR
  | .window x rhs, s, s', hA, hR => by
    simp only [evS] at hR ⊢
    have e1 := evalView_agree hA.env hA.views rhs
      (fun k hk => hA.cfg k (readsIn_crds.1 hR k hk))
    refine ⟨trivial, ?_⟩
    simp only [execS, bind, Except.bind]
    rw [e1]
    cases hv : evalView s rhs with
    | error e => exact LockA.err
    | ok v => exact LockA.ok (hA.bindView x v)
theorem detL : ∀ (ss : List Stmt) (s s' : State V), Agree P Pk s s' → ReadsIn P Pk (evL ext ss s) →
    evL ext ss s' = evL ext ss s ∧ LockA P Pk (execL ext ss s) (execL ext ss s')
  | [], s, s', hA, _ => ⟨rfl, by simp only [execL]; exact LockA.ok hA⟩
  | a :: r, s, s', hA, hR => by
    simp only [evL] at hR ⊢
    rw [readsIn_append] at hR
    obtain ⟨h1, h2⟩ := hR
    obtain ⟨e1, l1⟩ := detS a s s' hA h1
    rw [e1]
    simp only [execL, bind, Except.bind]
    cases hs : execS ext a s with
    | error e =>
      cases hs' : execS ext a s' with
      | error e' => exact ⟨rfl, LockA.err⟩
      | ok t' => rw [hs, hs'] at l1; unfold LockA at l1; exact l1.elim
    | ok t =>
      cases hs' : execS ext a s' with
      | error e' => rw [hs, hs'] at l1; unfold LockA at l1; exact l1.elim
      | ok t' =>
        rw [hs, hs'] at l1
        unfold LockA at l1
        rw [hs] at h2
        simp only [onOk_ok] at h2 ⊢
        obtain ⟨e2, l2⟩ := detL r t t' l1 h2
        rw [e2]
        exact ⟨rfl, l2⟩
theorem detP : ∀ (p : Proc) (args : List Expr) (s s' : State V), Agree P Pk s s' →
    ReadsIn P Pk (evP ext p args s) →
    evP ext p args s' = evP ext p args s ∧ LockA P Pk (execP ext p args s) (execP ext p args s')
  | .mk nm fargs preds body, args, s, s', hA, hR => by
    simp only [evP] at hR ⊢
    rw [readsIn_append, readsIn_append] at hR
    obtain ⟨⟨h1, h2⟩, h3⟩ := hR
    have eb := bindArgs_agree hA.env hA.views fargs args [] []
      (fun k hk => hA.cfg k (readsIn_crds.1 h1 k hk))
    rw [eb]
    simp only [execP, bind, Except.bind]
    rw [eb]
    cases hb : bindArgs s fargs args [] [] with
    | error e => exact ⟨rfl, LockA.err⟩
    | ok cecv =>
      obtain ⟨ce, cv⟩ := cecv
      rw [hb] at h3
      simp only [onOk_ok] at h3 ⊢
      cases hna : noAlias cv with
      | false =>
        simp only [Bool.not_false, ↓reduceIte]
        exact ⟨trivial, LockA.err⟩
      | true =>
        simp only [hna, Bool.not_true, Bool.false_eq_true, ↓reduceIte] at h3 ⊢
        have hAc : Agree P Pk ({ env := ce, views := cv, heap := s.heap, cfg := s.cfg } : State V)
            { env := ce, views := cv, heap := s'.heap, cfg := s'.cfg } :=
          ⟨rfl, rfl, hA.shape, hA.cells, hA.cfg⟩
        have hk2 := readsIn_crds.1 h2
        have es := checkShapes_agree (s := { env := ce, views := cv, heap := s.heap, cfg := s.cfg })
          (s' := { env := ce, views := cv, heap := s'.heap, cfg := s'.cfg }) rfl rfl fargs
          (fun k hk => hA.cfg k (hk2 k (List.mem_append_left _ hk)))
        have ep := checkPreds_agree (s := { env := ce, views := cv, heap := s.heap, cfg := s.cfg })
          (s' := { env := ce, views := cv, heap := s'.heap, cfg := s'.cfg }) rfl rfl preds
          (fun k hk => hA.cfg k (hk2 k (List.mem_append_right _ hk)))
        rw [es, ep]
        cases hs : checkShapes ({ env := ce, views := cv, heap := s.heap, cfg := s.cfg } : State V) fargs with
        | error e => exact ⟨rfl, LockA.err⟩
        | ok u1 =>
          rw [hs] at h3
          simp only [onOk_ok] at h3 ⊢
          cases hp : checkPreds ({ env := ce, views := cv, heap := s.heap, cfg := s.cfg } : State V) preds with
          | error e => exact ⟨rfl, LockA.err⟩
          | ok u2 =>
            rw [hp] at h3
            simp only [onOk_ok] at h3 ⊢
            obtain ⟨e2, l2⟩ := detL body _ _ hAc h3
            rw [e2]
            refine ⟨rfl, ?_⟩
            cases hx : execL ext body ({ env := ce, views := cv, heap := s.heap, cfg := s.cfg } : State V) with
            | error e =>
              cases hx' : execL ext body ({ env := ce, views := cv, heap := s'.heap, cfg := s'.cfg } : State V) with
              | error e' => exact LockA.err
              | ok t' => rw [hx, hx'] at l2; unfold LockA at l2; exact l2.elim
            | ok t =>
              cases hx' : execL ext body ({ env := ce, views := cv, heap := s'.heap, cfg := s'.cfg } : State V) with
              | error e' => rw [hx, hx'] at l2; unfold LockA at l2; exact l2.elim
              | ok t' =>
                rw [hx, hx'] at l2
                unfold LockA at l2
                exact LockA.ok (hA.leave l2)
end

end Exo.Fp
