/-
  stage_mem, part 5: a generic COPY NEST of any depth,

      for i₁ in 0..n₁: … for i_d in 0..n_d:  y[ey] = z[ez]

  (`Rw.loopNest iters ns [y[ey] = z[ez]]`), by induction over the list of iterators: the nest of
  depth `d+1` is `iterate` over the outermost iterator of the nest of depth `d` run from the state with
  that iterator bound (`iterate_count`, invariant `NInv`: the outer values `< k` are done).

  In the state with the iterators bound to the tuple `ks` (`bindAll`) the target `y[ey]` is cell
  `fb ks` of buffer `Bf` and the source `z[ez]` is cell `fa ks` of buffer `A ≠ Bf` (`Tgt`); `fb` is
  injective on the box.  Result (`NDone`): everything but buffer `Bf` is unchanged, cell `fb ks` of
  `Bf` holds cell `fa ks` of `A` for every tuple of the box, the other cells of `Bf` are unchanged.
-/
import ExoModel.Lemmas.StorageStage4

set_option linter.unusedSectionVars false
set_option linter.unusedVariables false

namespace Exo.Stg
open Exo Exo.ReidxInst
variable {V : Type}

/-- bind the iterators to the values of a tuple, outermost first -/
def bindAll (s : State V) : List Sym → List Int → State V
  | i :: is, k :: ks => bindAll (s.bind i k) is ks
  | _, _ => s

theorem bindAll_views : ∀ (iters : List Sym) (ks : List Int) (s : State V),
    (bindAll s iters ks).views = s.views
  | [], _, _ => rfl
  | _ :: _, [], _ => rfl
  | i :: is, k :: ks, s => by
    show (bindAll (s.bind i k) is ks).views = _
    rw [bindAll_views is ks]; rfl

theorem bindAll_heap : ∀ (iters : List Sym) (ks : List Int) (s : State V),
    (bindAll s iters ks).heap = s.heap
  | [], _, _ => rfl
  | _ :: _, [], _ => rfl
  | i :: is, k :: ks, s => by
    show (bindAll (s.bind i k) is ks).heap = _
    rw [bindAll_heap is ks]; rfl

theorem bindAll_cfg : ∀ (iters : List Sym) (ks : List Int) (s : State V),
    (bindAll s iters ks).cfg = s.cfg
  | [], _, _ => rfl
  | _ :: _, [], _ => rfl
  | i :: is, k :: ks, s => by
    show (bindAll (s.bind i k) is ks).cfg = _
    rw [bindAll_cfg is ks]; rfl

theorem bind_env_restore (s2 : State V) (env0 : List (Sym × Int)) (i : Sym) (k : Int)
    (h : s2.env = (i, k) :: env0) : ({ s2 with env := env0 } : State V).bind i k = s2 := by
  cases s2
  simp only [State.bind] at *
  subst h
  rfl

/-- everything but buffer `Bf` is as in `σ1` -/
def Fr (σ1 : State V) (Bf : Nat) (s : State V) : Prop :=
  s.env = σ1.env ∧ s.cfg = σ1.cfg ∧ s.views = σ1.views ∧ s.heap.length = σ1.heap.length ∧
    ∀ b, b ≠ Bf → s.heap[b]? = σ1.heap[b]?

/-- the nest is done -/
def NDone (σ1 : State V) (Bf : Nat) (ba bf : List (Option V)) (fa fb : List Int → Nat)
    (Ls : List Int) (s : State V) : Prop :=
  Fr σ1 Bf s ∧ ∃ bf', s.heap[Bf]? = some bf' ∧ bf'.length = bf.length ∧
    (∀ ks, InB Ls ks → bf'[fb ks]? = ba[fa ks]?) ∧
    (∀ c, (∀ ks, InB Ls ks → c ≠ fb ks) → bf'[c]? = bf[c]?)

/-- the outer values `< k` are done -/
def NInv (σ1 : State V) (Bf : Nat) (ba bf : List (Option V)) (fa fb : List Int → Nat)
    (Ls : List Int) (k : Nat) (s : State V) : Prop :=
  Fr σ1 Bf s ∧ ∃ bfk, s.heap[Bf]? = some bfk ∧ bfk.length = bf.length ∧
    (∀ (k0 : Int) ks', 0 ≤ k0 → k0 < (k : Int) → InB Ls ks' →
      bfk[fb (k0 :: ks')]? = ba[fa (k0 :: ks')]?) ∧
    (∀ c, (∀ (k0 : Int) ks', 0 ≤ k0 → k0 < (k : Int) → InB Ls ks' → c ≠ fb (k0 :: ks')) →
      bfk[c]? = bf[c]?)

/-- the cells the innermost statement denotes in the state with the iterators bound -/
def Tgt (σ1 : State V) (iters : List Sym) (y z : Sym) (ey ez : List Expr) (A Bf : Nat)
    (ba : List (Option V)) (nb : Nat) (fa fb : List Int → Nat) (Ls : List Int) : Prop :=
  ∀ (s : State V) (ks : List Int), InB Ls ks → s.env = σ1.env → s.cfg = σ1.cfg →
    s.views = σ1.views → s.heap[A]? = some ba →
    (∃ bf', s.heap[Bf]? = some bf' ∧ bf'.length = nb) →
    Fp.target (bindAll s iters ks) y ey = .ok (Bf, fb ks) ∧
    Fp.target (bindAll s iters ks) z ez = .ok (A, fa ks)

/-- one cell written -/
theorem write_one (h : List (List (Option V))) (A Bf a b : Nat) (hAB : A ≠ Bf)
    (ba bf : List (Option V)) (hA : h[A]? = some ba) (hB : h[Bf]? = some bf)
    (ha : a < ba.length) (hb : b < bf.length) :
    ∃ bf', (heapSet h (Bf, b) (heapGet h (A, a)))[Bf]? = some bf' ∧ bf'.length = bf.length ∧
      bf'[b]? = ba[a]? ∧ ∀ c, c ≠ b → bf'[c]? = bf[c]? := by
  obtain ⟨u, hu⟩ := exists_getElem? ba a ha
  have hv : heapGet h (A, a) = u := by
    simp only [heapGet, hA, hu]; rfl
  rw [hv]
  refine ⟨bf.set b u, ?_, ?_, ?_, ?_⟩
  · rw [getElem?_heapSet, if_pos rfl, hB]; rfl
  · rw [List.length_set]
  · rw [List.getElem?_set, if_pos rfl, if_pos hb, hu]
  · intro c hc
    rw [List.getElem?_set, if_neg (fun e => hc e.symm)]

section
variable [DataAlg V] (ext : String → List V → V)

theorem nest_copy (y z : Sym) (ey ez : List Expr) (A Bf : Nat) (hAB : A ≠ Bf)
    (ba : List (Option V)) :
    ∀ (iters : List Sym) (ns : List Expr) (Ls : List Int) (σ1 : State V) (bf : List (Option V))
      (fa fb : List Int → Nat),
    iters.length = Ls.length → ns.length = Ls.length →
    (∀ n ∈ ns, n.envOnly = true) → (∀ i ∈ iters, ∀ n ∈ ns, n.occC i = false) →
    (∀ L ∈ Ls, 0 ≤ L) → evalCs σ1 ns = .ok Ls →
    σ1.heap[A]? = some ba → σ1.heap[Bf]? = some bf →
    (∀ ks ks', InB Ls ks → InB Ls ks' → fb ks = fb ks' → ks = ks') →
    Tgt σ1 iters y z ey ez A Bf ba bf.length fa fb Ls →
    ∃ s', execL ext (Rw.loopNest iters ns [.assign y ey (.read z ez)]) σ1 = .ok s' ∧
      NDone σ1 Bf ba bf fa fb Ls s'
  | [], [], [], σ1, bf, fa, fb, _, _, _, _, _, _, hA, hBf, _, htgt => by
    have ht := htgt σ1 [] trivial rfl rfl rfl hA ⟨bf, hBf, rfl⟩
    have ht1 : Fp.target σ1 y ey = .ok (Bf, fb []) := ht.1
    have ht2 : Fp.target σ1 z ez = .ok (A, fa []) := ht.2
    obtain ⟨b1, hb1, hlt1⟩ := Fp.target_valid ht1
    obtain ⟨b2, hb2, hlt2⟩ := Fp.target_valid ht2
    have eb1 : b1 = bf := Option.some.inj (hb1.symm.trans hBf)
    have eb2 : b2 = ba := Option.some.inj (hb2.symm.trans hA)
    subst eb1; subst eb2
    obtain ⟨bf', w1, w2, w3, w4⟩ := write_one σ1.heap A Bf (fa []) (fb []) hAB b2 b1 hA hBf hlt2 hlt1
    refine ⟨{ σ1 with heap := heapSet σ1.heap (Bf, fb []) (heapGet σ1.heap (A, fa [])) },
      exec_copy ext σ1 y z ey ez _ _ ht1 ht2, ⟨rfl, rfl, rfl, ?_, ?_⟩, bf', w1, w2, ?_, ?_⟩
    · simp only [heapSet, List.length_modify]
    · intro b hb
      rw [getElem?_heapSet, if_neg (fun e => hb e.symm)]
    · intro ks hks
      cases ks with
      | nil => exact w3
      | cons _ _ => exact hks.elim
    · intro c hc
      exact w4 c (hc [] trivial)
  | [], [], _ :: _, _, _, _, _, h, _, _, _, _, _, _, _, _, _ => by simp at h
  | [], _ :: _, [], _, _, _, _, _, h, _, _, _, _, _, _, _, _ => by simp at h
  | [], _ :: _, _ :: _, _, _, _, _, h, _, _, _, _, _, _, _, _, _ => by simp at h
  | _ :: _, [], [], _, _, _, _, h, _, _, _, _, _, _, _, _, _ => by simp at h
  | _ :: _, [], _ :: _, _, _, _, _, _, h, _, _, _, _, _, _, _, _ => by simp at h
  | _ :: _, _ :: _, [], _, _, _, _, h, _, _, _, _, _, _, _, _, _ => by simp at h
  | i :: iters, n :: ns, L :: Ls, σ1, bf, fa, fb, hl1, hl2, henvO, hfresh, hpos, hev, hA, hBf,
      hinj, htgt => by
    obtain ⟨L0, Ls0, hn, hns, e⟩ := evalCs_cons_ok.1 hev
    cases e
    have hL0 : 0 ≤ L := hpos L (by simp)
    have hnsO : ∀ n' ∈ ns, n'.envOnly = true := fun n' hn' => henvO n' (by simp [hn'])
    have hfr' : ∀ i' ∈ iters, ∀ n' ∈ ns, n'.occC i' = false :=
      fun i' hi' n' hn' => hfresh i' (by simp [hi']) n' (by simp [hn'])
    have hi_ns : ∀ y', occCs y' ns = true → ¬ y' = i := by
      intro y' hy' e
      subst e
      simp only [occCs, List.any_eq_true] at hy'
      obtain ⟨n', hn', ho⟩ := hy'
      rw [hfresh y' (by simp) n' (by simp [hn'])] at ho
      cases ho
    have init : NInv σ1 Bf ba bf fa fb Ls 0 σ1 :=
      ⟨⟨rfl, rfl, rfl, rfl, fun _ _ => rfl⟩, bf, hBf, rfl,
        fun k0 _ h0 h1 _ => by omega, fun c _ => rfl⟩
    have step : ∀ (k : Nat) (s : State V), k < L.toNat → NInv σ1 Bf ba bf fa fb Ls k s →
        ∃ s', (fun v s => (execL ext (Rw.loopNest iters ns [.assign y ey (.read z ez)])
          (s.bind i v)).map (State.leave s)) (k : Int) s = .ok s' ∧
          NInv σ1 Bf ba bf fa fb Ls (k + 1) s' := by
      intro k s hk hinv
      obtain ⟨⟨e1, e2, e3, e4, e5⟩, bfk, g1, g2, g3, g4⟩ := hinv
      have hkb : (0 ≤ (k : Int) ∧ (k : Int) < L) := ⟨by omega, by omega⟩
      have hev' : evalCs (s.bind i (k : Int)) ns = .ok Ls := by
        rw [← hns]
        refine Stage.evalCs_envOnly ns hnsO σ1 (s.bind i (k : Int)) (fun y' hy' => ?_)
        show lookupSym y' ((i, (k : Int)) :: s.env) = _
        rw [lookupSym_cons, if_neg (hi_ns y' hy'), e1]
      have hA' : (s.bind i (k : Int)).heap[A]? = some ba := by
        show s.heap[A]? = _
        rw [e5 A hAB]; exact hA
      have hinj' : ∀ ks ks', InB Ls ks → InB Ls ks' →
          fb ((k : Int) :: ks) = fb ((k : Int) :: ks') → ks = ks' := by
        intro ks ks' h1 h2 h3
        have := hinj ((k : Int) :: ks) ((k : Int) :: ks') ⟨hkb, h1⟩ ⟨hkb, h2⟩ h3
        exact (List.cons.inj this).2
      have htgt' : Tgt (s.bind i (k : Int)) iters y z ey ez A Bf ba bfk.length
          (fun ks' => fa ((k : Int) :: ks')) (fun ks' => fb ((k : Int) :: ks')) Ls := by
        intro s2 ks' hb2 he2 hc2 hv2 hA2 hB2
        have hres := bind_env_restore s2 s.env i (k : Int) he2
        have h3 := htgt { s2 with env := s.env } ((k : Int) :: ks') ⟨hkb, hb2⟩ e1
          (hc2.trans e2) (hv2.trans e3) hA2 (by rw [← g2]; exact hB2)
        have e : bindAll ({ s2 with env := s.env } : State V) (i :: iters) ((k : Int) :: ks')
            = bindAll s2 iters ks' := by
          show bindAll (({ s2 with env := s.env } : State V).bind i (k : Int)) iters ks' = _
          rw [hres]
        rw [e] at h3
        exact h3
      obtain ⟨t, ht, ⟨f1, f2, f3, f4, f5⟩, bfn, n1, n2, n3, n4⟩ :=
        nest_copy y z ey ez A Bf hAB ba iters ns Ls (s.bind i (k : Int)) bfk
          (fun ks' => fa ((k : Int) :: ks')) (fun ks' => fb ((k : Int) :: ks'))
          (by simpa using hl1) (by simpa using hl2) hnsO hfr'
          (fun L' hL' => hpos L' (by simp [hL'])) hev' hA' g1 hinj' htgt'
      have f4' : t.heap.length = s.heap.length := f4
      have htake : t.heap.take s.heap.length = t.heap := by
        rw [← f4', List.take_length]
      refine ⟨State.leave s t, ?_, ⟨e1, ?_, e3, ?_, ?_⟩, bfn, ?_, n2.trans g2, ?_, ?_⟩
      · show (execL ext _ (s.bind i (k : Int))).map (State.leave s) = _
        rw [ht]; rfl
      · show t.cfg = σ1.cfg
        rw [f2]; exact e2
      · show (t.heap.take s.heap.length).length = _
        rw [htake, f4']; exact e4
      · intro b hb
        show (t.heap.take s.heap.length)[b]? = _
        rw [htake, f5 b hb]
        exact e5 b hb
      · show (t.heap.take s.heap.length)[Bf]? = _
        rw [htake]; exact n1
      · intro k0 ks' h0 h1 hb
        by_cases hk0 : k0 = (k : Int)
        · subst hk0
          exact n3 ks' hb
        · have hlt : k0 < (k : Int) := by omega
          have hne : ∀ ks'', InB Ls ks'' → fb (k0 :: ks') ≠ fb ((k : Int) :: ks'') := by
            intro ks'' hb'' heq
            have := hinj (k0 :: ks') ((k : Int) :: ks'') ⟨⟨h0, by omega⟩, hb⟩ ⟨hkb, hb''⟩ heq
            exact hk0 (List.cons.inj this).1
          rw [n4 (fb (k0 :: ks')) hne]
          exact g3 k0 ks' h0 hlt hb
      · intro c hc
        rw [n4 c (fun ks'' hb'' => hc (k : Int) ks'' (by omega) (by omega) hb'')]
        exact g4 c (fun k0 ks' h0 h1 hb => hc k0 ks' h0 (by omega) hb)
    obtain ⟨s', hs', ⟨hfr, bfL, q1, q2, q3, q4⟩⟩ :=
      iterate_count (NInv σ1 Bf ba bf fa fb Ls)
        (fun v s => (execL ext (Rw.loopNest iters ns [.assign y ey (.read z ez)])
          (s.bind i v)).map (State.leave s)) L.toNat step L.toNat 0 σ1 (by omega) init
    refine ⟨s', exec_loop0 ext i n _ σ1 s' L hn hL0 hs', hfr, bfL, q1, q2, ?_, ?_⟩
    · intro ks hks
      cases ks with
      | nil => exact hks.elim
      | cons k0 ks' =>
        obtain ⟨⟨h0, h1⟩, hb⟩ := hks
        exact q3 k0 ks' h0 (by omega) hb
    · intro c hc
      exact q4 c (fun k0 ks' h0 h1 hb => hc (k0 :: ks') ⟨⟨h0, by omega⟩, hb⟩)

end

end Exo.Stg
