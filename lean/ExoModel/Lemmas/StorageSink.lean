/-
  Allocation motion, part 3: `sink_alloc` into a `for` — the CONVERSE of `lift_for_lock`.

      x : T[sh]; for i: B ; rest      ↦      for i: (x : T[sh]; B) ; rest

  is not sound in general (loop-carried values: Props/C01Storage.lean `sink_alloc_unsound`).  It is
  sound when every iteration writes each cell of `x` before reading it, stated here on the dynamic
  footprint: the body, run right after the allocation, has no UPWARD-EXPOSED read of a cell of the
  fresh buffer (`WritesFirst`).  Then the two programs, started in the SAME state, fail together or
  end in EQUAL states (`sink_for_lock`, `sink_for_eq`), hence `BlockRefW` (`sink_for_refW`).

  Proof: the skeleton of `lift_for_lock` with `R := Eq`; the iteration step (`sink_step`) uses
  determinacy on the upward-exposed reads (`Fp.detL_exposed`): the sunk iteration starts with a
  fresh buffer, the original one with the contents left by the previous iteration; the two states
  agree on every cell outside that buffer.
-/
import ExoModel.Lemmas.FootprintExposed
import ExoModel.Lemmas.StorageLocal
import ExoModel.DataLaws

set_option linter.unusedSectionVars false
set_option linter.unusedVariables false
namespace Exo
open Fp

variable {V : Type}

/-! ### `Sim Eq 0 0 ∅` is equality -/

theorem Forall₂.eq_of_eq {α : Type} {l l' : List α} (h : Forall₂ Eq l l') : l = l' := by
  induction h with
  | nil => rfl
  | cons h1 _ ih => rw [h1, ih]

theorem CfgRel.eq_of_eq {a b : CfgVal V} (h : CfgRel Eq a b) : a = b := by
  cases a <;> cases b <;> simp only [CfgRel] at h
  · rw [h]
  · rw [h]

theorem cfgs_eq_of_eq {c c' : List ((String × String) × CfgVal V)} (h : CfgsRel Eq c c') :
    c = c' := by
  induction h with
  | nil => rfl
  | @cons a b l l' hab _ ih =>
    obtain ⟨k1, v1⟩ := a
    obtain ⟨k2, v2⟩ := b
    obtain ⟨hk, hv⟩ := hab
    simp only at hk hv
    rw [hk, CfgRel.eq_of_eq hv, ih]

theorem Sim.refl_eq (s : State V) : Sim Eq 0 0 (fun _ => False) s s :=
  ⟨rfl, Nat.zero_le _, rfl,
    fun b buf hb => ⟨buf, by rw [shiftB_zero]; exact hb, Forall₂.refl (fun _ => rfl) buf⟩,
    ViewsRel.refl 0 _ s.views,
    Forall₂.refl (fun a => ⟨rfl, CfgRel.refl' (fun _ => rfl) a.2⟩) s.cfg⟩

theorem state_ext' {a b : State V} (h1 : a.env = b.env) (h2 : a.views = b.views)
    (h3 : a.heap = b.heap) (h4 : a.cfg = b.cfg) : a = b := by
  cases a; cases b; simp_all

/-- same layout, equal contents: the same state -/
theorem Sim.eq_of_eq00 {a b : State V} (h : Sim Eq 0 0 (fun _ => False) a b) : b = a := by
  refine state_ext' h.env (ViewsRel.eq_of_false h.views) ?_ (cfgs_eq_of_eq h.cfg).symm
  apply List.ext_getElem?
  intro j
  cases hj : a.heap[j]? with
  | none =>
    have := h.heap_none hj
    rw [shiftB_zero] at this
    exact this
  | some buf =>
    obtain ⟨buf', h1, h2⟩ := h.bufs j buf hj
    rw [shiftB_zero] at h1
    rw [h1, h2.eq_of_eq]

/-! ### per-buffer extensionality, targets -/

theorem buf_ext {h h' : List (List (Option V))} (hs : h'.map List.length = h.map List.length)
    (b : Nat) (hc : ∀ j, heapGet h' (b, j) = heapGet h (b, j)) : h'[b]? = h[b]? := by
  have hb : (h'[b]?).map List.length = (h[b]?).map List.length := by
    have := congrArg (fun l => l[b]?) hs
    simpa [List.getElem?_map] using this
  cases h1 : h'[b]? with
  | none =>
    cases h2 : h[b]? with
    | none => rfl
    | some b2 => rw [h1, h2] at hb; cases hb
  | some b1 =>
    cases h2 : h[b]? with
    | none => rw [h1, h2] at hb; cases hb
    | some b2 =>
      rw [h1, h2] at hb
      simp only [Option.map_some, Option.some.injEq] at hb
      congr 1
      apply List.ext_getElem?
      intro j
      have := hc j
      unfold heapGet at this
      simp only [h1, h2] at this
      by_cases hj : j < b1.length
      · have hj2 : j < b2.length := by omega
        rw [List.getElem?_eq_getElem hj, List.getElem?_eq_getElem hj2] at this ⊢
        simpa using this
      · rw [List.getElem?_eq_none (by omega), List.getElem?_eq_none (by omega)]

/-- the cell a target denotes lies in the buffer of the view bound to the name -/
theorem target_buf {s : State V} {z : Sym} {idx : List Expr} {c : Cell}
    (h : target s z idx = .ok c) : ∃ w, lookupSym z s.views = some w ∧ c.1 = w.buf := by
  unfold target at h
  cases hl : lookupSym z s.views with
  | none => rw [hl] at h; cases h
  | some w =>
    rw [hl] at h
    simp only [bind, Except.bind] at h
    cases hi : evalCs s idx with
    | error e => rw [hi] at h; cases h
    | ok is =>
      rw [hi] at h
      simp only [] at h
      refine ⟨w, rfl, ?_⟩
      unfold cellOf at h
      cases ho : viewOffset w.dims is w.off with
      | error e => rw [ho] at h; cases h
      | ok o =>
        rw [ho] at h
        simp only [bind, Except.bind] at h
        cases hb : s.heap[w.buf]? with
        | none => rw [hb] at h; cases h
        | some b =>
          rw [hb] at h
          simp only [] at h
          split at h
          · cases h; rfl
          · cases h

/-- writing a cell does not change what a target denotes -/
theorem target_heapSet (s : State V) (c : Cell) (v : Option V) (z : Sym) (idx : List Expr) :
    target { s with heap := heapSet s.heap c v } z idx = target s z idx := by
  have hA : Agree (fun _ => False) (fun _ => True) s { s with heap := heapSet s.heap c v } :=
    ⟨rfl, rfl, shape_heapSet _ _ _, fun _ h => h.elim, fun _ _ => rfl⟩
  exact hA.target z idx (fun _ _ => trivial)

theorem lock_of_lockA {P : Cell → Prop} {Pk : Key → Prop} {r r' : Except Err (State V)}
    (h : LockA P Pk r r') : Lock (Agree P Pk) r r' := by
  cases r with
  | error e =>
    cases r' with
    | error e' => exact trivial
    | ok t' => unfold LockA at h; exact h.elim
  | ok t =>
    cases r' with
    | error e' => unfold LockA at h; exact h.elim
    | ok t' => unfold LockA at h; exact h

/-! ### the hypothesis -/

section
variable [DataAlg V] (ext : String → List V → V)

/-- in every iteration (control environment `(i, v) :: E`, views `vs`, `N` buffers on the heap, all
    views pointing into the heap), the body `B`, run right after the allocation `x : T[sh]`, has no
    upward-exposed read of a cell of the fresh buffer `N`: every cell of `x` is written before it is
    read.  (Configuration fields are unconstrained.) -/
def WritesFirst (x i : Sym) (sh : List Expr) (B : List Stmt) (E : List (Sym × Int))
    (vs : List (Sym × View)) (N : Nat) : Prop :=
  ∀ (s0 s1 : State V) (v : Int), s0.env = (i, v) :: E → s0.views = vs → s0.heap.length = N →
    ViewsOk s0 → execS ext (.alloc x sh) s0 = .ok s1 →
    ExposedIn (fun c => c.1 ≠ N) (fun _ => True) (evL ext B s1)

end

/-- `WritesFirst` in every context: what a scheduling-time check has to establish -/
def WritesFirstAll (x i : Sym) (sh : List Expr) (B : List Stmt) : Prop :=
  ∀ (V : Type) [DataAlg V] (ext : String → List V → V) (E : List (Sym × Int))
    (vs : List (Sym × View)) (N : Nat), WritesFirst ext x i sh B E vs N

/-! ### the invariant with `R := Eq` -/

theorem LiftInv.heap_eq {x : Sym} {vx : View} {E : List (Sym × Int)} {vs : List (Sym × View)}
    {n : Nat} {s s' : State V} (hI : LiftInv Eq x vx E vs n s s') {bx : List (Option V)}
    (hbx : s'.heap[s.heap.length]? = some bx) : s'.heap = s.heap ++ [bx] := by
  have hl : s'.heap.length = s.heap.length + 1 := hI.sim.len
  apply List.ext_getElem?
  intro b
  by_cases hlt : b < s.heap.length
  · rw [List.getElem?_append_left hlt]
    obtain ⟨buf', h1, h2⟩ := hI.sim.bufs b _ (List.getElem?_eq_getElem hlt)
    rw [shiftB_lt hlt] at h1
    rw [h1, ← h2.eq_of_eq, List.getElem?_eq_getElem hlt]
  · have hge : s.heap.length ≤ b := Nat.le_of_not_lt hlt
    rw [List.getElem?_append_right hge]
    by_cases he : b = s.heap.length
    · rw [he, hbx]; simp
    · rw [List.getElem?_eq_none (by omega), List.getElem?_eq_none (by simp; omega)]

/-- leaving the iteration scope: the two inner final states agree outside buffer `N` and have the
    same configuration, so the left scopes are again related by the invariant -/
theorem sink_leave {x : Sym} {vx : View} {E : List (Sym × Int)} {vs : List (Sym × View)} {n : Nat}
    {s s' ta tb : State V} (hI : LiftInv Eq x vx E vs n s s')
    (hT : Agree (fun c => c.1 ≠ s.heap.length) (fun _ => True) ta tb)
    (hcfg : tb.cfg = ta.cfg) (hle : s.heap.length + 1 ≤ ta.heap.length)
    (hbuf : ∃ b, tb.heap[s.heap.length]? = some b ∧ b.length = n) :
    (State.leave s ta).heap.length = s.heap.length ∧
      LiftInv Eq x vx E vs n (State.leave s ta) (State.leave s' tb) := by
  have hlen : (State.leave s ta).heap.length = s.heap.length := by
    simp only [State.leave, List.length_take]; omega
  have hl' : s'.heap.length = s.heap.length + 1 := hI.sim.len
  have hlt' : tb.heap.length = ta.heap.length := hT.len
  refine ⟨hlen, ?_, hI.env, hI.views, hI.views', ?_, by rw [hlen]; exact hI.vx⟩
  · rw [hlen]
    refine ⟨hI.sim.env, ?_, ?_, ?_, hI.sim.views, ?_⟩
    · rw [hlen]; exact Nat.le_refl _
    · simp only [State.leave, List.length_take]; omega
    · intro b buf hb
      simp only [State.leave, List.getElem?_take] at hb ⊢
      split at hb
      · rename_i hlt
        have hbb : tb.heap[b]? = ta.heap[b]? :=
          buf_ext hT.shape b (fun j => hT.cells (b, j) (by simp only []; omega))
        refine ⟨buf, ?_, Forall₂.refl (fun _ => rfl) buf⟩
        rw [shiftB_lt hlt, if_pos (by omega), hbb]
        exact hb
      · cases hb
    · show CfgsRel Eq ta.cfg tb.cfg
      rw [hcfg]
      exact Forall₂.refl (fun a => ⟨rfl, CfgRel.refl' (fun _ => rfl) a.2⟩) _
  · rw [hlen]
    obtain ⟨b3, h3, h4⟩ := hbuf
    refine ⟨b3, ?_, h4⟩
    simp only [State.leave, List.getElem?_take]
    rw [if_pos (by omega)]
    exact h3

section
variable [DataAlg V] (ext : String → List V → V)

/-- one iteration: the sunk loop allocates a fresh (poison) buffer, the original loop re-uses the
    buffer left by the previous iteration; since the body writes every cell of the buffer before
    reading it, both run in lock step and end in states that differ only in that buffer -/
theorem sink_step (x i : Sym) (sh : List Expr) (B : List Stmt) (szs : List Int)
    (E : List (Sym × Int)) (vs : List (Sym × View)) (N : Nat)
    (hpos : checkSizes szs = .ok ())
    (hstable : ∀ (s : State V) (v : Int), s.env = E → s.views = vs →
      evalCs (s.bind i v) sh = .ok szs)
    (hwf : WritesFirst ext x i sh B E vs N) (hvs : ∀ p ∈ vs, p.2.buf < N)
    (v : Int) (s s' : State V) (hN : s.heap.length = N)
    (hI : LiftInv Eq x { buf := N, off := 0, dims := denseDims szs } E vs
      (szs.foldl (· * ·) 1).toNat s s') :
    Lock (fun a a' => a.heap.length = N ∧
        LiftInv Eq x { buf := N, off := 0, dims := denseDims szs } E vs
          (szs.foldl (· * ·) 1).toNat a a')
      ((execL ext (.alloc x sh :: B) (s.bind i v)).map (State.leave s))
      ((execL ext B (s'.bind i v)).map (State.leave s')) := by
  subst hN
  have hsz := hstable s v hI.env hI.views
  have hal := execS_alloc ext x sh (s.bind i v) szs hsz hpos
  have hrun : execL ext (.alloc x sh :: B) (s.bind i v) = execL ext B
      { (s.bind i v) with
        heap := (s.bind i v).heap ++ [List.replicate (szs.foldl (· * ·) 1).toNat none],
        views := (x, { buf := (s.bind i v).heap.length, off := 0, dims := denseDims szs }) ::
          (s.bind i v).views } := by
    simp only [execL, hal, bind, Except.bind]
  rw [hrun]
  obtain ⟨bx, hbx, hbl⟩ := hI.buf
  have hheap := hI.heap_eq hbx
  have hl' : s'.heap.length = s.heap.length + 1 := hI.sim.len
  have hcfg : s'.cfg = s.cfg := (cfgs_eq_of_eq hI.sim.cfg).symm
  -- the two states in which the body runs agree outside the buffer of `x`
  have hAg : Agree (fun c => c.1 ≠ s.heap.length) (fun _ => True)
      { (s.bind i v) with
        heap := (s.bind i v).heap ++ [List.replicate (szs.foldl (· * ·) 1).toNat none],
        views := (x, { buf := (s.bind i v).heap.length, off := 0, dims := denseDims szs }) ::
          (s.bind i v).views } (s'.bind i v) := by
    refine ⟨?_, ?_, ?_, fun c hc => ?_, fun k _ => ?_⟩
    · simp only [State.bind, hI.sim.env]
    · simp only [State.bind, hI.views, hI.views']
    · simp only [State.bind, hheap, List.map_append, List.map_cons, List.map_nil,
        List.length_replicate, hbl]
    · simp only [State.bind, hheap]
      by_cases hlt : c.1 < s.heap.length
      · rw [heapGet_append_left _ _ _ hlt, heapGet_append_left _ _ _ hlt]
      · have hne : c.1 ≠ s.heap.length := hc
        rw [heapGet_out, heapGet_out]
        · simp only [List.length_append, List.length_cons, List.length_nil]; omega
        · simp only [List.length_append, List.length_cons, List.length_nil]; omega
    · simp only [State.bind, hcfg]
  have hE := hwf (s.bind i v) _ v (congrArg ((i, v) :: ·) hI.env) hI.views rfl
    (fun p hp => hvs p (by rw [← hI.views]; exact hp)) hal
  obtain ⟨eEv, hL⟩ := detL_exposed ext B _ _ _ _ hAg hE
  refine Lock.map (lock_of_lockA hL) (fun ta tb hta htb hT => ?_)
  have hle : s.heap.length + 1 ≤ ta.heap.length := by
    have := (execL_scope ext B _ ta hta).2.1
    simp only [State.bind, List.length_append, List.length_cons, List.length_nil] at this
    exact this
  have hc' : tb.cfg = ta.cfg := by
    rw [(replayL ext B _ tb htb).cfg, (replayL ext B _ ta hta).cfg, eEv]
    simp only [State.bind, hcfg]
  refine sink_leave hI (hT.mono (fun c hc => after_base hc) (fun k hk => afterK_base hk)) hc' hle ?_
  -- the buffer at position N keeps its length in the original run
  have hs := execL_shape ext B (s'.bind i v) tb htb s.heap.length (by
    simp only [State.bind]; omega)
  simp only [State.bind] at hs
  rw [hbx] at hs
  cases h3 : tb.heap[s.heap.length]? with
  | none => rw [h3] at hs; simp at hs
  | some b3 =>
    rw [h3] at hs
    simp only [Option.map_some, Option.some.injEq] at hs
    exact ⟨b3, rfl, by omega⟩

/-- **sink_alloc into a loop**.  From the SAME well-scoped state, the sunk
    `for i: (x : T[sh]; B) ; rest` and the original `x : T[sh]; for i: B ; rest` fail together or
    end — after leaving the block — in equal states, provided that in every iteration the body
    writes each cell of `x` before reading it (`WritesFirst`), the extents are stable, and `x` is
    not mentioned outside the loop body. -/
theorem sink_for_lock (x i : Sym) (lo hi : Expr) (sh : List Expr) (B rest : List Stmt) (par : Bool)
    (σ : State V) (hv : ViewsOk σ) (szs : List Int)
    (hsz : evalCs σ sh = .ok szs) (hpos : checkSizes szs = .ok ())
    (hstable : ∀ (s : State V) (v : Int), s.env = σ.env → s.views = σ.views →
      evalCs (s.bind i v) sh = .ok szs)
    (hx : ∀ y ∈ lo.names ++ hi.names ++ namesL rest, y ≠ x)
    (hwf : WritesFirst ext x i sh B σ.env σ.views σ.heap.length) :
    Lock (Sim Eq 0 0 (fun _ => False))
      (execB ext (.loop i lo hi (.alloc x sh :: B) par :: rest) σ)
      (execB ext (.alloc x sh :: .loop i lo hi B par :: rest) σ) := by
  have h0 := Sim.refl_eq σ
  unfold execB
  have hal := execS_alloc ext x sh σ szs hsz hpos
  have hrun2 : execL ext (.alloc x sh :: .loop i lo hi B par :: rest) σ
      = execL ext (.loop i lo hi B par :: rest)
        { σ with heap := σ.heap ++ [List.replicate (szs.foldl (· * ·) 1).toNat none],
                 views := (x, { buf := σ.heap.length, off := 0, dims := denseDims szs }) :: σ.views } := by
    simp only [execL, hal, bind, Except.bind]
  rw [hrun2]
  have hSA := Sim.insertEnd (X := fun y => y = x) h0 hv x rfl
    (List.replicate (szs.foldl (· * ·) 1).toNat none)
    ({ buf := σ.heap.length, off := 0, dims := denseDims szs } : View)
  have hI0 : LiftInv Eq x { buf := σ.heap.length, off := 0, dims := denseDims szs } σ.env σ.views
      (szs.foldl (· * ·) 1).toNat σ
      { σ with heap := σ.heap ++ [List.replicate (szs.foldl (· * ·) 1).toNat none],
               views := (x, { buf := σ.heap.length, off := 0, dims := denseDims szs }) :: σ.views } := by
    refine ⟨hSA, rfl, rfl, rfl, ?_, rfl⟩
    refine ⟨List.replicate (szs.foldl (· * ·) 1).toNat none, ?_, by simp⟩
    simp only []
    rw [List.getElem?_append_right (Nat.le_refl _)]
    simp
  simp only [execL]
  refine Lock.map (Q := Sim Eq σ.heap.length 1 (fun y => y = x))
    (Lock.bind (Q := fun a a' => a.heap.length = σ.heap.length ∧
        LiftInv Eq x { buf := σ.heap.length, off := 0, dims := denseDims szs } σ.env σ.views
          (szs.foldl (· * ·) 1).toNat a a') ?_ (fun s1 s1' _ _ hI => ?_))
    (fun t t' _ _ htt => Sim.leaveCut h0 htt (Nat.le_refl _))
  · -- the two loops
    simp only [execS]
    rw [evalC_sim hSA lo (fun y hy hxy => hx y (by simp [hy]) hxy),
        evalC_sim hSA hi (fun y hy hxy => hx y (by simp [hy]) hxy)]
    refine Lock.bind_eq (fun l _ => Lock.bind_eq (fun h _ =>
      Lock.ite (fun _ => Lock.ofThrowBind) (fun _ => ?_)))
    exact iterate_lock _ _ _ (fun v a a' haa =>
      sink_step ext x i sh B szs σ.env σ.views σ.heap.length hpos hstable hwf hv v a a' haa.1 haa.2)
      _ _ σ _ ⟨rfl, hI0⟩
  · -- the rest of the block, with the extra buffer in place
    have hs := hI.2.sim
    rw [hI.1] at hs
    exact execL_sim ext CellRel.eq rest _ 1 _ s1 s1' (fun y hy hxy => hx y (by simp [hy]) hxy) hs

/-- the same, as an equation between the outcomes -/
theorem sink_for_eq (x i : Sym) (lo hi : Expr) (sh : List Expr) (B rest : List Stmt) (par : Bool)
    (σ : State V) (hv : ViewsOk σ) (szs : List Int)
    (hsz : evalCs σ sh = .ok szs) (hpos : checkSizes szs = .ok ())
    (hstable : ∀ (s : State V) (v : Int), s.env = σ.env → s.views = σ.views →
      evalCs (s.bind i v) sh = .ok szs)
    (hx : ∀ y ∈ lo.names ++ hi.names ++ namesL rest, y ≠ x)
    (hwf : WritesFirst ext x i sh B σ.env σ.views σ.heap.length) :
    ExEq (execB ext (.loop i lo hi (.alloc x sh :: B) par :: rest) σ)
      (execB ext (.alloc x sh :: .loop i lo hi B par :: rest) σ) := by
  have h := sink_for_lock ext x i lo hi sh B rest par σ hv szs hsz hpos hstable hx hwf
  unfold ExEq
  cases h1 : execB ext (.loop i lo hi (.alloc x sh :: B) par :: rest) σ with
  | error e =>
    cases h2 : execB ext (.alloc x sh :: .loop i lo hi B par :: rest) σ with
    | error e' => rfl
    | ok b => rw [h1, h2] at h; exact False.elim h
  | ok a =>
    cases h2 : execB ext (.alloc x sh :: .loop i lo hi B par :: rest) σ with
    | error e' => rw [h1, h2] at h; exact False.elim h
    | ok b =>
      rw [h1, h2] at h
      have : b = a := Sim.eq_of_eq00 h
      rw [this]

end

/-! ### the rewrite as a refinement between well-scoped states -/

/-- `sink_alloc` of an allocation with positive literal extents into the `for` that follows it
    (`Rw.sinkAlloc x'` on `alloc x sh :: loop i lo hi B par :: rest`) is refinement-sound when the
    body writes each cell of `x` before reading it -/
theorem sink_for_refW (x i : Sym) (lo hi : Expr) (sh : List Expr) (B rest : List Stmt) (par : Bool)
    (hlit : posLits sh = true) (hx : ∀ y ∈ lo.names ++ hi.names ++ namesL rest, y ≠ x)
    (hwf : WritesFirstAll x i sh B) :
    BlockRefW (.alloc x sh :: .loop i lo hi B par :: rest)
      (.loop i lo hi (.alloc x sh :: B) par :: rest) := by
  intro V _ ext s s' t hr ht
  obtain ⟨szs, h1, h2⟩ := posLits_eval sh hlit
  have hl := sink_for_lock ext x i lo hi sh B rest par s hr.ok szs (h1 V s) h2
    (fun a v _ _ => h1 V _) hx (hwf V ext _ _ _)
  obtain ⟨t0, ht0, htt⟩ := hl.ok_right ht
  have : t = t0 := Sim.eq_of_eq00 htt
  subst this
  exact BlockRefW.refl _ V ext s s' t hr ht0

/-! ### establishing `WritesFirst`: rules for reads and assignments, and a concrete body -/

section
variable [DataAlg V] (ext : String → List V → V)

/-- reads of `z[idx]` as a data expression -/
theorem readsIn_evD_read {P : Cell → Prop} {Pk : Key → Prop} (s : State V) (z : Sym)
    (idx : List Expr) (hk : ∀ k ∈ cfgCs idx, Pk k) (hc : ∀ c, target s z idx = .ok c → P c) :
    ReadsIn P Pk (evD s (.read z idx)) := by
  simp only [evD]
  rw [readsIn_append]
  refine ⟨readsIn_crds.2 hk, ?_⟩
  cases ht : target s z idx with
  | error e => exact readsIn_nil
  | ok c =>
    intro e he
    simp only [onOk_ok, List.mem_singleton] at he
    subst he
    exact hc c ht

/-- the assignment rule for upward-exposed reads: the reads of the right-hand side and of the index
    expressions are exposed; what follows sees the written cell as agreed -/
theorem exposedIn_assign {P : Cell → Prop} {Pk : Key → Prop} (s : State V) (z : Sym)
    (idx : List Expr) (rhs : Expr) (rest : State V → List (Ev V))
    (h1 : ReadsIn P Pk (evD s rhs)) (h2 : ∀ k ∈ cfgCs idx, Pk k)
    (h3 : ∀ v c, evalD ext s rhs = .ok v → target s z idx = .ok c →
      ExposedIn (fun c' => P c' ∨ c' = c) Pk (rest { s with heap := heapSet s.heap c v })) :
    ExposedIn P Pk
      (evS ext (.assign z idx rhs) s ++ onOk (execS ext (.assign z idx rhs) s) rest) := by
  have hp0 := allPure_append (allPure_evD s rhs) (allPure_crds (V := V) (cfgCs idx))
  have hex : execS ext (.assign z idx rhs) s = (evalD ext s rhs >>= fun v =>
      (target s z idx).map (fun c => { s with heap := heapSet s.heap c v })) := by
    simp only [execS, writeCell_eq]
  rw [hex]
  simp only [evS]
  rw [List.append_assoc (evD s rhs ++ crds (cfgCs idx)), exposedIn_pure_append hp0, readsIn_append]
  refine ⟨⟨h1, readsIn_crds.2 h2⟩, ?_⟩
  cases hv : evalD ext s rhs with
  | error e => simp only [onOk_error, bind, Except.bind, List.append_nil, ExposedIn]
  | ok v =>
    simp only [onOk_ok, bind, Except.bind]
    cases hc : target s z idx with
    | error e => simp only [onOk_error, Except.map, List.append_nil, ExposedIn]
    | ok c =>
      simp only [onOk_ok, Except.map, List.cons_append, List.nil_append, ExposedIn]
      exact h3 v c hv hc

end

namespace SinkEx

def t : Sym := ⟨"t", 3⟩
def a : Sym := ⟨"a", 1⟩
def y : Sym := ⟨"y", 2⟩
def i : Sym := ⟨"i", 4⟩

/-- `t = a[i]; y[i] = t` -/
def body : List Stmt :=
  [.assign t [] (.read a [.read i []]), .assign y [.read i []] (.read t [])]

/-- non-vacuity of the hypothesis: the scalar temporary `t` is written before it is read.

    The counter-example of Props/C01Storage.lean (`sinkBody`:
    `if i == 0: t = x[0]` then `y[i] = t`) violates `WritesFirst`: for `i ≠ 0` the `then` branch is
    not taken, and the first event on the buffer of `t` is the read of `y[i] = t`, which is
    upward exposed (`(N, 0)` is not in `fun c => c.1 ≠ N`) — `badBody_not_writesFirst` below. -/
theorem body_writesFirst : WritesFirstAll t i [] body := by
  intro V _ ext E vs N s0 s1 v henv hviews hlen hok hal
  rw [execS_alloc ext t [] s0 [] rfl rfl] at hal
  have hvw : s1.views
      = (t, { buf := s0.heap.length, off := 0, dims := denseDims [] }) :: s0.views := by
    rw [← Except.ok.inj hal]
  subst hlen
  clear hal
  simp only [body, evL]
  refine exposedIn_assign ext _ _ _ _ _ ?_ (fun _ _ => trivial) (fun v1 c1 hv1 hc1 => ?_)
  · refine readsIn_evD_read _ _ _ (fun _ _ => trivial) (fun c hc => ?_)
    obtain ⟨w, hw, hcw⟩ := target_buf hc
    have hne : ¬ (a = t) := by decide
    rw [hvw] at hw
    simp only [lookupSym, hne, if_false] at hw
    have := hok _ (lookupSym_mem hw)
    show c.1 ≠ s0.heap.length
    simp only [] at this
    omega
  · refine exposedIn_assign ext _ _ _ _ _ ?_ (fun _ _ => trivial) (fun _ _ _ _ => ?_)
    · refine readsIn_evD_read _ _ _ (fun _ _ => trivial) (fun c hc => ?_)
      rw [target_heapSet, hc1] at hc
      cases hc
      exact Or.inr rfl
    · simp only [ExposedIn]

/-- the shape of `Rw.sinkAlloc` on this program … -/
example (x' : Sym) : Rw.sinkAlloc x'
    [.alloc t [], .loop i (.lit (.int 0)) (.lit (.int 2)) body false]
    = some [.loop i (.lit (.int 0)) (.lit (.int 2)) (.alloc t [] :: body) false] := rfl

/-- … and its soundness: `t : R; for i in 0..2: (t = a[i]; y[i] = t)` may be rewritten to
    `for i in 0..2: (t : R; t = a[i]; y[i] = t)` -/
example : BlockRefW
    [.alloc t [], .loop i (.lit (.int 0)) (.lit (.int 2)) body false]
    [.loop i (.lit (.int 0)) (.lit (.int 2)) (.alloc t [] :: body) false] :=
  sink_for_refW t i _ _ [] body [] false rfl
    (by intro y hy; simp [Expr.names, namesL] at hy) body_writesFirst

def x : Sym := ⟨"x", 5⟩

/-- `if i == 0: t = x[0]` then `y[i] = t` (the loop body of `sinkBefore` in Props/C01Storage.lean,
    for which `sink_alloc` is unsound: `sink_alloc_unsound`) -/
def badBody : List Stmt :=
  [.ite (.binop .eq (.read i []) (.lit (.int 0))) [.assign t [] (.read x [.lit (.int 0)])] [],
   .assign y [.read i []] (.read t [])]

def badσ : State Int :=
  { env := [(i, 1)], views := [(x, ⟨0, 0, [(2, 1)]⟩), (y, ⟨1, 0, [(2, 1)]⟩)],
    heap := [[some 5, some 6], [some 0, some 0]], cfg := [] }

/-- the hypothesis is not vacuous in the other direction either: it rejects the counter-example
    (iteration `i = 1`: the footprint of the body is `[rd (2,0), wr (1,1) none]`, the read of the
    fresh buffer `2` is upward exposed) -/
theorem badBody_not_writesFirst : ¬ WritesFirstAll t i [] badBody := by
  intro h
  have h1 := h Int (fun _ _ => 0) [] [(x, ⟨0, 0, [(2, 1)]⟩), (y, ⟨1, 0, [(2, 1)]⟩)] 2
    badσ _ 1 rfl rfl rfl (by unfold ViewsOk; decide) rfl
  change ExposedIn _ _ [Ev.rd (2, 0), Ev.wr (1, 1) none] at h1
  simp only [ExposedIn] at h1
  exact h1.1 rfl

end SinkEx

end Exo
