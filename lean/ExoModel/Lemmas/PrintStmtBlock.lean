/-
  Lemmas for the statement-level round trip of `ExoModel.PrintStmt`, part 2: the one-line
  statements, the headers of `for`/`if`, and the induction over the indentation structure.
-/
import ExoModel.Lemmas.PrintStmt

namespace Exo.PrintStmt
open Exo Exo.Print

/-! ### one-line statements -/

theorem ofName_name (ty : Ty) : Ty.ofName ty.name = some ty := by
  cases ty <;> decide

theorem parseMem_ppMem (mem : Option String) : parseMem (ppMemT mem) = some (mem, []) := by
  cases mem <;> simp [ppMemT, parseMem]

theorem stop_ppMem (mem : Option String) (r : List STok) (h : StopOK r) :
    StopOK (ppMemT mem ++ r) := by
  cases mem with
  | none => simpa [ppMemT] using h
  | some m => simp [ppMemT, StopOK]

theorem wf_var (x : String) (idx : List XExpr) : wfX (.var x idx) = wfXL idx := by simp [wfX]

theorem norm_var (x : String) (idx : List XExpr) : normX (.var x idx) = .var x (normXL idx) := by
  simp [normX]

theorem parseSimple_lv_assign (x : String) (r : List STok) :
    parseSimple (.t (.id x) :: .assign :: r) = parseLv (.t (.id x) :: .assign :: r) := by
  simp [parseSimple]

theorem parseSimple_lv_pluseq (x : String) (r : List STok) :
    parseSimple (.t (.id x) :: .pluseq :: r) = parseLv (.t (.id x) :: .pluseq :: r) := by
  simp [parseSimple]

theorem parseSimple_lv_lb (x : String) (r : List STok) :
    parseSimple (.t (.id x) :: .t .lb :: r) = parseLv (.t (.id x) :: .t .lb :: r) := by
  simp [parseSimple]

/-- an lvalue followed by `=`/`+=` goes to `parseLv` -/
theorem parseSimple_lv (x : String) (idx : List XExpr) (r : List STok)
    (hr : ∃ r', r = .assign :: r' ∨ r = .pluseq :: r') :
    parseSimple ((ppX 0 (.var x idx)) ++ r) = parseLv ((ppX 0 (.var x idx)) ++ r) := by
  cases idx with
  | nil =>
    obtain ⟨r', rfl | rfl⟩ := hr
    · simpa [ppX] using parseSimple_lv_assign x r'
    · simpa [ppX] using parseSimple_lv_pluseq x r'
  | cons i is =>
    simp only [ppX, List.cons_append]
    exact parseSimple_lv_lb x _

theorem parseSimple_assign (x : String) (idx : List XExpr) (rhs : XExpr)
    (h1 : wfXL idx = true) (h2 : wfX rhs = true) :
    parseSimple (simpleT (.assign x idx rhs)) = some (.assign x (normXL idx) (normX rhs)) := by
  simp only [simpleT]
  rw [parseSimple_lv x idx _ ⟨_, .inl rfl⟩]
  have hl := parseES_rt (.var x idx) (by rw [wf_var]; exact h1) (.assign :: (ppX 0 rhs))
    (stop_assign _)
  simp only [parseLv, hl, norm_var, parseES_full rhs h2]

theorem parseSimple_reduce (x : String) (idx : List XExpr) (rhs : XExpr)
    (h1 : wfXL idx = true) (h2 : wfX rhs = true) :
    parseSimple (simpleT (.reduce x idx rhs)) = some (.reduce x (normXL idx) (normX rhs)) := by
  simp only [simpleT]
  rw [parseSimple_lv x idx _ ⟨_, .inr rfl⟩]
  have hl := parseES_rt (.var x idx) (by rw [wf_var]; exact h1) (.pluseq :: (ppX 0 rhs))
    (stop_pluseq _)
  simp only [parseLv, hl, norm_var, parseFull_rt rhs h2]

theorem parseSimple_writeCfg (c f : String) (rhs : XExpr) (h : wfX rhs = true) :
    parseSimple (simpleT (.writeCfg c f rhs)) = some (.writeCfg c f (normX rhs)) := by
  simp [simpleT, parseSimple, parseFull_rt rhs h]

theorem parseSimple_alloc (x : String) (ty : Ty) (shape : List XExpr) (mem : Option String)
    (h : wfXL shape = true) :
    parseSimple (simpleT (.alloc x ty shape mem)) = some (.alloc x ty (normXL shape) mem) := by
  have hl := parseES_rt (.var ty.name shape) (by rw [wf_var]; exact h) (ppMemT mem)
    (by simpa using stop_ppMem mem [] trivial)
  simp only [simpleT, parseSimple, parseAlloc, hl, norm_var, ofName_name, parseMem_ppMem]

theorem parseSimple_window (v x : String) (accs : List WAcc) (h : wfWin accs = true) :
    parseSimple (simpleT (.window v x accs)) = some (.window v x (normAccs accs)) := by
  simp only [simpleT]
  rw [parseSimple_lv_assign]
  have hl := parseES_rt (.var v []) (by simp [wfX, wfXL]) (.assign :: ppWinT x accs) (stop_assign _)
  simp only [ppX, List.cons_append, List.nil_append, norm_var, normXL] at hl
  have hn := parseES_win_none x accs h []
  have hw := parseWin_rt x accs h []
  simp only [List.append_nil] at hn hw
  simp [parseLv, hl, hn, hw]

theorem parseSimple_call (f : String) (args : List PArg) (h : wfArgs args = true) :
    parseSimple (simpleT (.call f args)) = some (.call f (normArgs args)) := by
  simp only [simpleT, parseSimple, parseCallArgs_rt args h]

def isSimple : PStmt → Bool
  | .loop _ _ _ _ _ => false
  | .ite _ _ _ => false
  | _ => true

theorem parseSimple_rt (s : PStmt) (hs : isSimple s = true) (h : wfStmt s = true) :
    parseSimple (simpleT s) = some (normStmt s) := by
  cases s with
  | pass => simp [simpleT, parseSimple, normStmt]
  | assign x idx rhs =>
    simp only [wfStmt, Bool.and_eq_true] at h
    simpa [normStmt] using parseSimple_assign x idx rhs h.1 h.2
  | reduce x idx rhs =>
    simp only [wfStmt, Bool.and_eq_true] at h
    simpa [normStmt] using parseSimple_reduce x idx rhs h.1 h.2
  | writeCfg c f rhs =>
    simp only [wfStmt] at h
    simpa [normStmt] using parseSimple_writeCfg c f rhs h
  | alloc x ty shape mem =>
    simp only [wfStmt] at h
    simpa [normStmt] using parseSimple_alloc x ty shape mem h
  | window v x accs =>
    simp only [wfStmt] at h
    simpa [normStmt] using parseSimple_window v x accs h
  | call f args =>
    simp only [wfStmt] at h
    simpa [normStmt] using parseSimple_call f args h
  | loop _ _ _ _ _ => simp [isSimple] at hs
  | ite _ _ _ => simp [isSimple] at hs

/-! ### first tokens -/

/-- the first token of a printed variable (with or without subscripts) is its name -/
theorem ppX_var_head (x : String) (idx : List XExpr) :
    ∃ r, ppX 0 (.var x idx) = .t (.id x) :: r := by
  cases idx with
  | nil => exact ⟨[], by simp [ppX]⟩
  | cons i is => exact ⟨.t .lb :: (ppX 0 i ++ (ppTailX is ++ [.t .rb])), by simp only [ppX]⟩

/-- the first token of the first line of a statement -/
theorem simpleT_head (s : PStmt) : ∃ a r, simpleT s = a :: r ∧ a ≠ .kwElse ∧ a ≠ .kwAssert ∧
    (isSimple s = true → a ≠ .kwFor ∧ a ≠ .kwIf) := by
  cases s with
  | pass => exact ⟨_, _, rfl, by simp, by simp, by simp⟩
  | assign x idx rhs =>
    obtain ⟨r, h⟩ := ppX_var_head x idx
    exact ⟨.t (.id x), r ++ (.assign :: ppX 0 rhs), by simp [simpleT, h], by simp, by simp, by simp⟩
  | reduce x idx rhs =>
    obtain ⟨r, h⟩ := ppX_var_head x idx
    exact ⟨.t (.id x), r ++ (.pluseq :: ppX 0 rhs), by simp [simpleT, h], by simp, by simp, by simp⟩
  | writeCfg c f rhs => exact ⟨_, _, rfl, by simp, by simp, by simp⟩
  | alloc x ty shape mem => exact ⟨_, _, rfl, by simp, by simp, by simp⟩
  | window v x accs => exact ⟨_, _, rfl, by simp, by simp, by simp⟩
  | call f args => exact ⟨_, _, rfl, by simp, by simp, by simp⟩
  | loop par i lo hi body => exact ⟨_, _, rfl, by simp, by simp, by simp [isSimple]⟩
  | ite c body orelse => exact ⟨_, _, rfl, by simp, by simp, by simp [isSimple]⟩

theorem simpleT_ne_else (s : PStmt) : simpleT s ≠ elseT := by
  obtain ⟨a, r, h, hne, _, _⟩ := simpleT_head s
  rw [h, elseT]
  intro hh
  simp only [List.cons.injEq] at hh
  exact hne hh.1

/-! ### headers -/

theorem loopMode_kw (par : Bool) : loopMode (loopKw par) = some par := by
  cases par <;> decide

theorem parseForHead_rt (par : Bool) (i : String) (lo hi : XExpr) (h1 : wfX lo = true)
    (h2 : wfX hi = true) :
    parseForHead (forHeadT par i lo hi) = some (par, i, normX lo, normX hi) := by
  have e1 := parseES_rt lo h1 (.t .comma :: ((ppX 0 hi) ++ [.t .rp, .colon])) (stop_comma _)
  have e2 := parseES_rt hi h2 [.t .rp, .colon] (stop_rp _)
  simp only [forHeadT, parseForHead, loopMode_kw, e1, e2]

theorem parseIfHead_rt (c : XExpr) (h : wfX c = true) : parseIfHead (ifHeadT c) = some (normX c) := by
  have e1 := parseES_rt c h [.colon] (stop_colon _)
  simp only [ifHeadT, parseIfHead, e1]

/-! ### unfolding `parseStmt` by the first token of the line -/

theorem parseStmt_for (f col : Nat) (l : Line) (ls : List Line) (r : List STok)
    (h : l.toks = .kwFor :: r) :
    parseStmt (f + 1) col l ls =
      match parseForHead l.toks with
      | none => none
      | some (par, i, lo, hi) =>
        match bodyWith (parseBlock f) col ls with
        | none => none
        | some (body, rest) => some (.loop par i lo hi body, rest) := by
  rw [parseStmt]
  split
  · rfl
  · next h' => rw [h] at h'; simp at h'
  · next h1 _ => exact absurd h (h1 _)

theorem parseStmt_if (f col : Nat) (l : Line) (ls : List Line) (r : List STok)
    (h : l.toks = .kwIf :: r) :
    parseStmt (f + 1) col l ls =
      match parseIfHead l.toks with
      | none => none
      | some c =>
        match bodyWith (parseBlock f) col ls with
        | none => none
        | some (body, rest) =>
          match rest with
          | [] => some (.ite c body [], [])
          | e :: rest2 =>
            if e.ind == col && e.toks == elseT then
              match bodyWith (parseBlock f) col rest2 with
              | none => none
              | some (orelse, rest3) => some (.ite c body orelse, rest3)
            else some (.ite c body [], e :: rest2) := by
  rw [parseStmt]
  split
  · next h' => rw [h] at h'; simp at h'
  · rfl
  · next _ h2 => exact absurd h (h2 _)

theorem parseStmt_simple (f col : Nat) (l : Line) (ls : List Line)
    (h1 : ∀ r, l.toks ≠ .kwFor :: r) (h2 : ∀ r, l.toks ≠ .kwIf :: r) :
    parseStmt (f + 1) col l ls =
      match parseSimple l.toks with
      | some s => some (s, ls)
      | none => none := by
  rw [parseStmt]
  split
  · next h' => exact absurd h' (h1 _)
  · next h' => exact absurd h' (h2 _)
  · rfl

/-! ### the induction over the block structure -/

mutual
/-- fuel that suffices to read a statement / a block back -/
def needS : PStmt → Nat
  | .loop _ _ _ _ body => needB body + 1
  | .ite _ body orelse => needB body + needB orelse + 1
  | .pass => 1
  | .assign _ _ _ => 1
  | .reduce _ _ _ => 1
  | .writeCfg _ _ _ => 1
  | .alloc _ _ _ _ => 1
  | .window _ _ _ => 1
  | .call _ _ => 1
def needB : List PStmt → Nat
  | [] => 1
  | s :: ss => needS s + needB ss + 1
end

/-- the lines of a statement after its first line -/
def tailLines (w col : Nat) (s : PStmt) : List Line := (ppStmt w col s).tail

theorem ppStmt_eq (w col : Nat) (s : PStmt) :
    ppStmt w col s = ⟨col, simpleT s⟩ :: tailLines w col s := by
  cases s <;> simp [ppStmt, tailLines, simpleT]

/-- what may follow a statement at column `col`: nothing, a shallower line, or a line at `col`
    that is not `else:` -/
def AfterOK (col : Nat) : List Line → Prop
  | [] => True
  | l :: _ => l.ind ≤ col ∧ (l.ind = col → l.toks ≠ elseT)

/-- what may follow a block at column `col`: nothing or a shallower line -/
def RestOK (col : Nat) : List Line → Prop
  | [] => True
  | l :: _ => l.ind < col

def StmtRT (w : Nat) (s : PStmt) : Prop :=
  ∀ col f ls, needS s ≤ f → AfterOK col ls →
    parseStmt f col ⟨col, simpleT s⟩ (tailLines w col s ++ ls) = some (normStmt s, ls)

def BlockRT (w : Nat) (ss : List PStmt) : Prop :=
  ∀ col f rest, needB ss ≤ f → RestOK col rest →
    parseBlock f col (ppBlock w col ss ++ rest) = some (normS ss, rest)

theorem needS_pos (s : PStmt) : 1 ≤ needS s := by
  cases s <;> simp [needS]

theorem tailLines_simple (w col : Nat) : ∀ s : PStmt, isSimple s = true → tailLines w col s = []
  | .loop _ _ _ _ _, h => by simp [isSimple] at h
  | .ite _ _ _, h => by simp [isSimple] at h
  | .pass, _ => by simp [tailLines, ppStmt]
  | .assign _ _ _, _ => by simp [tailLines, ppStmt]
  | .reduce _ _ _, _ => by simp [tailLines, ppStmt]
  | .writeCfg _ _ _, _ => by simp [tailLines, ppStmt]
  | .alloc _ _ _ _, _ => by simp [tailLines, ppStmt]
  | .window _ _ _, _ => by simp [tailLines, ppStmt]
  | .call _ _, _ => by simp [tailLines, ppStmt]

theorem stmtRT_simple (w : Nat) (s : PStmt) (hs : isSimple s = true) (h : wfStmt s = true) :
    StmtRT w s := by
  intro col f ls hf _
  have hp := needS_pos s
  obtain ⟨F, rfl⟩ : ∃ F, f = F + 1 := ⟨f - 1, by omega⟩
  obtain ⟨a, r, hh, _, _, hk⟩ := simpleT_head s
  have hk := hk hs
  have htl : tailLines w col s = [] := tailLines_simple w col s hs
  rw [parseStmt_simple F col ⟨col, simpleT s⟩ _
    (by intro r' hh'; simp only [hh, List.cons.injEq] at hh'; exact hk.1 hh'.1)
    (by intro r' hh'; simp only [hh, List.cons.injEq] at hh'; exact hk.2 hh'.1)]
  simp only [parseSimple_rt s hs h, htl, List.nil_append]

theorem ppBlock_head (w c : Nat) (ss : List PStmt) (h : ss ≠ []) :
    ∃ s tl, ppBlock w c ss = ⟨c, simpleT s⟩ :: tl := by
  cases ss with
  | nil => exact absurd rfl h
  | cons s ss => exact ⟨s, tailLines w c s ++ ppBlock w c ss, by simp [ppBlock, ppStmt_eq]⟩

/-- the body of a compound statement, from the statement for its block -/
theorem body_rt (w : Nat) (hw : 0 < w) (body : List PStmt) (hne : body ≠ [])
    (Hb : BlockRT w body) (col f : Nat) (rest : List Line) (hf : needB body ≤ f)
    (hr : RestOK (col + w) rest) :
    bodyWith (parseBlock f) col (ppBlock w (col + w) body ++ rest) = some (normS body, rest) := by
  obtain ⟨s, tl, hh⟩ := ppBlock_head w (col + w) body hne
  have := Hb (col + w) f rest hf hr
  rw [hh] at this ⊢
  simp only [List.cons_append, bodyWith] at this ⊢
  simp only [show col < col + w by omega, if_true, this]

theorem restOK_of_after {col w : Nat} (hw : 0 < w) {ls : List Line} (h : AfterOK col ls) :
    RestOK (col + w) ls := by
  cases ls with
  | nil => trivial
  | cons l ls => simp only [AfterOK] at h; simp only [RestOK]; omega

theorem loop_step (w : Nat) (hw : 0 < w) (par : Bool) (i : String) (lo hi : XExpr)
    (body : List PStmt) (h1 : wfX lo = true) (h2 : wfX hi = true) (hne : body ≠ [])
    (Hb : BlockRT w body) : StmtRT w (.loop par i lo hi body) := by
  intro col f ls hf ha
  simp only [needS] at hf
  obtain ⟨F, rfl⟩ : ∃ F, f = F + 1 := ⟨f - 1, by omega⟩
  have htl : tailLines w col (.loop par i lo hi body) = ppBlock w (col + w) body := by
    simp [tailLines, ppStmt]
  rw [parseStmt_for F col ⟨col, simpleT (.loop par i lo hi body)⟩ _ _ rfl,
    htl]
  simp only [simpleT, parseForHead_rt par i lo hi h1 h2,
    body_rt w hw body hne Hb col F ls (by omega) (restOK_of_after hw ha), normStmt]

theorem ite_step (w : Nat) (hw : 0 < w) (c : XExpr) (body orelse : List PStmt)
    (h1 : wfX c = true) (hne : body ≠ []) (Hb : BlockRT w body) (Ho : BlockRT w orelse) :
    StmtRT w (.ite c body orelse) := by
  intro col f ls hf ha
  simp only [needS] at hf
  have hpo : 1 ≤ needB orelse := by cases orelse <;> simp [needB]
  obtain ⟨F, rfl⟩ : ∃ F, f = F + 1 := ⟨f - 1, by omega⟩
  rw [parseStmt_if F col ⟨col, simpleT (.ite c body orelse)⟩ _ _ rfl]
  cases orelse with
  | nil =>
    have htl : tailLines w col (.ite c body []) = ppBlock w (col + w) body := by
      simp [tailLines, ppStmt]
    rw [htl]
    simp only [simpleT, parseIfHead_rt c h1,
      body_rt w hw body hne Hb col F ls (by omega) (restOK_of_after hw ha), normStmt, normS]
    cases ls with
    | nil => rfl
    | cons e rest2 =>
      simp only [AfterOK] at ha
      have : (e.ind == col && e.toks == elseT) = false := by
        by_cases hc : e.ind = col
        · have := ha.2 hc
          simp [this]
        · simp [hc]
      simp only [this]
      rfl
  | cons o os =>
    have htl : tailLines w col (.ite c body (o :: os)) =
        ppBlock w (col + w) body ++ (⟨col, elseT⟩ :: ppBlock w (col + w) (o :: os)) := by
      simp [tailLines, ppStmt]
    rw [htl]
    have hb := body_rt w hw body hne Hb col F
      (⟨col, elseT⟩ :: (ppBlock w (col + w) (o :: os) ++ ls)) (by omega)
      (by simp only [RestOK]; omega)
    have ho := body_rt w hw (o :: os) (by simp) Ho col F ls (by omega) (restOK_of_after hw ha)
    simp only [List.append_assoc, List.cons_append, simpleT, parseIfHead_rt c h1, hb, ho,
      beq_self_eq_true, Bool.and_self, if_true, normStmt]

theorem block_nil (w : Nat) : BlockRT w [] := by
  intro col f rest hf hr
  simp only [needB] at hf
  obtain ⟨F, rfl⟩ : ∃ F, f = F + 1 := ⟨f - 1, by omega⟩
  cases rest with
  | nil => simp [ppBlock, parseBlock, normS]
  | cons l ls =>
    simp only [RestOK] at hr
    simp [ppBlock, parseBlock, normS, hr]

theorem block_cons (w : Nat) (s : PStmt) (ss : List PStmt) (Hs : StmtRT w s)
    (Hss : BlockRT w ss) : BlockRT w (s :: ss) := by
  intro col f rest hf hr
  simp only [needB] at hf
  obtain ⟨F, rfl⟩ : ∃ F, f = F + 1 := ⟨f - 1, by omega⟩
  have hafter : AfterOK col (ppBlock w col ss ++ rest) := by
    cases ss with
    | nil =>
      cases rest with
      | nil => trivial
      | cons l ls =>
        simp only [RestOK] at hr
        simp only [ppBlock, List.nil_append, AfterOK]
        exact ⟨by omega, fun h => by omega⟩
    | cons s' ss' =>
      simp only [ppBlock, ppStmt_eq, List.cons_append, AfterOK]
      exact ⟨Nat.le_refl _, fun _ => simpleT_ne_else s'⟩
  have e1 := Hs col F (ppBlock w col ss ++ rest) (by omega) hafter
  have e2 := Hss col F rest (by omega) hr
  simp only [ppBlock, ppStmt_eq, List.cons_append, List.append_assoc, parseBlock,
    Nat.lt_irrefl, if_false, e1, e2, normS]

theorem isEmpty_false_ne {α} {l : List α} (h : (!l.isEmpty) = true) : l ≠ [] := by
  cases l <;> simp_all

mutual
theorem stmtRT_all (w : Nat) (hw : 0 < w) : ∀ s : PStmt, wfStmt s = true → StmtRT w s
  | .loop par i lo hi body, h => by
    simp only [wfStmt, Bool.and_eq_true] at h
    exact loop_step w hw par i lo hi body h.1.1.1 h.1.1.2 (isEmpty_false_ne h.1.2)
      (blockRT_all w hw body h.2)
  | .ite c body orelse, h => by
    simp only [wfStmt, Bool.and_eq_true] at h
    exact ite_step w hw c body orelse h.1.1.1 (isEmpty_false_ne h.1.1.2)
      (blockRT_all w hw body h.1.2) (blockRT_all w hw orelse h.2)
  | .pass, h => stmtRT_simple w _ rfl h
  | .assign _ _ _, h => stmtRT_simple w _ rfl h
  | .reduce _ _ _, h => stmtRT_simple w _ rfl h
  | .writeCfg _ _ _, h => stmtRT_simple w _ rfl h
  | .alloc _ _ _ _, h => stmtRT_simple w _ rfl h
  | .window _ _ _, h => stmtRT_simple w _ rfl h
  | .call _ _, h => stmtRT_simple w _ rfl h
theorem blockRT_all (w : Nat) (hw : 0 < w) : ∀ ss : List PStmt, wfS ss = true → BlockRT w ss
  | [], _ => block_nil w
  | s :: ss, h => by
    simp only [wfS, Bool.and_eq_true] at h
    exact block_cons w s ss (stmtRT_all w hw s h.1) (blockRT_all w hw ss h.2)
end

/-! ### fuel bound -/

mutual
theorem needS_le (w : Nat) : ∀ (s : PStmt) (col : Nat),
    needS s + 1 ≤ 4 * (ppStmt w col s).length
  | .loop par i lo hi body, col => by
    have := needB_le w body (col + w)
    simp only [needS, ppStmt, List.length_cons]; omega
  | .ite c body orelse, col => by
    have h1 := needB_le w body (col + w)
    have h2 := needB_le w orelse (col + w)
    simp only [needS, ppStmt, List.length_cons, List.length_append]
    split
    · next he =>
      have : orelse = [] := by simpa using he
      subst this
      simp only [needB, List.length_nil]; omega
    · simp only [List.length_cons]; omega
  | .pass, _ => by simp [needS, ppStmt]
  | .assign _ _ _, _ => by simp [needS, ppStmt]
  | .reduce _ _ _, _ => by simp [needS, ppStmt]
  | .writeCfg _ _ _, _ => by simp [needS, ppStmt]
  | .alloc _ _ _ _, _ => by simp [needS, ppStmt]
  | .window _ _ _, _ => by simp [needS, ppStmt]
  | .call _ _, _ => by simp [needS, ppStmt]
theorem needB_le (w : Nat) : ∀ (ss : List PStmt) (col : Nat),
    needB ss ≤ 4 * (ppBlock w col ss).length + 1
  | [], _ => by simp [needB, ppBlock]
  | s :: ss, col => by
    have h1 := needS_le w s col
    have h2 := needB_le w ss col
    simp only [needB, ppBlock, List.length_append]; omega
end

/-- the round trip of a complete block -/
theorem parseLines_ppBlock (w : Nat) (hw : 0 < w) (ind : Nat) (ss : List PStmt)
    (h : wfS ss = true) : parseLines (ppBlock w ind ss) = some (normS ss) := by
  cases ss with
  | nil => simp [ppBlock, parseLines, normS]
  | cons s ss =>
    obtain ⟨s0, tl, hh⟩ := ppBlock_head w ind (s :: ss) (by simp)
    have hb := needB_le w (s :: ss) ind
    have := blockRT_all w hw (s :: ss) h ind (blockFuel (ppBlock w ind (s :: ss))) []
      (by simp only [blockFuel]; omega) trivial
    rw [List.append_nil] at this
    rw [hh] at this ⊢
    simp only [parseLines, this]

end Exo.PrintStmt
