import ExoModel.Sem
namespace Exo
variable {V : Type}

theorem iterate_add (f : Int → State V → Except Err (State V)) (a b : Nat) (lo : Int) (σ : State V) :
    iterate f (a + b) lo σ = (iterate f a lo σ).bind (fun σ' => iterate f b (lo + a) σ') := by
  induction a generalizing lo σ with
  | zero => simp [iterate, Except.bind, pure, Except.pure]
  | succ n ih =>
    have : n + 1 + b = (n + b) + 1 := by omega
    rw [this]
    simp only [iterate, bind, Except.bind]
    cases h : f lo σ with
    | error e => rfl
    | ok σ' =>
      simp only []
      rw [ih]
      have : lo + 1 + (n : Int) = lo + ((n + 1 : Nat) : Int) := by omega
      simp [this, Except.bind]
end Exo
