/-
  Helpers for Props/C01Context.lean: inversion of `Reach` for concrete contexts (what a state that
  reaches the hole knows because of an enclosing guard or loop range), iteration-independent loop
  steps, exchanging a statement of a block for an equal one.
-/
import ExoModel.Equiv
import ExoModel.Lemmas.Exec
import ExoModel.Lemmas.Rewrites
import ExoModel.Lemmas.Reach
import ExoModel.Lemmas.Subst
import ExoModel.Lemmas.LoopSubst

set_option linter.unusedSectionVars false
namespace Exo
variable {V : Type} [DataAlg V] (ext : String → List V → V)

theorem ExLe.of_eq {α} {r r' : Except Err α} (h : r = r') : ExLe r r' := h ▸ ExLe.refl r

/-! ### inversion of `Reach` -/

theorem reach_hole {B : List Stmt} {σ₀ σ : State V} (h : Reach ext .hole B σ₀ σ) : σ = σ₀ := by
  cases h; rfl

theorem reach_iteT {cond : Expr} {c : Ctx} {e B : List Stmt} {σ₀ σ : State V}
    (h : Reach ext (.iteT cond c e) B σ₀ σ) :
    ∃ b, evalC σ₀ cond = .ok b ∧ b ≠ 0 ∧ Reach ext c B σ₀ σ := by
  cases h with
  | iteT _ _ _ _ _ _ b h1 h2 h3 => exact ⟨b, h1, h2, h3⟩

theorem reach_iteE {cond : Expr} {c : Ctx} {t B : List Stmt} {σ₀ σ : State V}
    (h : Reach ext (.iteE cond t c) B σ₀ σ) : evalC σ₀ cond = .ok 0 ∧ Reach ext c B σ₀ σ := by
  cases h with
  | iteE _ _ _ _ _ _ h1 h2 => exact ⟨h1, h2⟩

theorem reach_seq {pre post : List Stmt} {c : Ctx} {B : List Stmt} {σ₀ σ : State V}
    (h : Reach ext (.seq pre c post) B σ₀ σ) :
    ∃ σ₁, execL ext pre σ₀ = .ok σ₁ ∧ Reach ext c B σ₁ σ := by
  cases h with
  | seq _ _ _ _ _ σ₁ _ h1 h2 => exact ⟨σ₁, h1, h2⟩

theorem reach_loop {i : Sym} {lo hi : Expr} {par : Bool} {c : Ctx} {B : List Stmt} {σ₀ σ : State V}
    (h : Reach ext (.loop i lo hi par c) B σ₀ σ) :
    ∃ (l hv : Int) (k : Nat) (s : State V), evalC σ₀ lo = .ok l ∧ evalC σ₀ hi = .ok hv ∧
      (k : Int) < hv - l ∧ iterate (loopStep ext i (c.fill B)) k l σ₀ = .ok s ∧
      Reach ext c B (s.bind i (l + k)) σ := by
  cases h with
  | loop _ _ _ _ _ _ _ s _ l hv k h1 h2 h3 h4 h5 => exact ⟨l, hv, k, s, h1, h2, h3, h4, h5⟩

/-- the context `if 0 < n: □` -/
def guardPos (n : Sym) : Ctx := .iteT (.binop .lt (.lit (.int 0)) (.read n [])) .hole []

/-- a state that reaches the hole of `if 0 < n: □` binds `n` to a positive value — a fact that
    holds only because of the guard -/
theorem reach_guardPos {n : Sym} {B : List Stmt} {σ₀ σ : State V}
    (h : Reach ext (guardPos n) B σ₀ σ) : ∃ v, evalC σ (.read n []) = .ok v ∧ 0 < v := by
  obtain ⟨b, hb, hne, hr⟩ := reach_iteT ext h
  have := reach_hole ext hr
  subst this
  simp only [evalC, bind, Except.bind, pure, Except.pure] at hb ⊢
  cases hl : lookupSym n σ.env with
  | none => rw [hl] at hb; cases hb
  | some v =>
    rw [hl] at hb
    simp only [ctrlOp, pure, Except.pure, Except.ok.injEq] at hb
    refine ⟨v, rfl, ?_⟩
    by_cases hv : 0 < v
    · exact hv
    · exfalso; apply hne; rw [← hb]; simp [b2i, hv]

/-- a state that reaches the body of `for i in [lo, hi): □` (literal bounds) binds `i` to a value
    of the range — a fact that holds only because of the enclosing loop -/
theorem reach_loopRange {i : Sym} {lo hi : Int} {par : Bool} {B : List Stmt} {σ₀ σ : State V}
    (h : Reach ext (.loop i (.lit (.int lo)) (.lit (.int hi)) par .hole) B σ₀ σ) :
    ∃ v, evalC σ (.read i []) = .ok v ∧ lo ≤ v ∧ v < hi := by
  obtain ⟨l, hv, k, s, h1, h2, h3, _, h5⟩ := reach_loop ext h
  have := reach_hole ext h5
  subst this
  simp only [evalC, pure, Except.pure, Except.ok.injEq] at h1 h2
  subst h1; subst h2
  refine ⟨lo + k, ?_, by omega, by omega⟩
  simp [evalC, State.bind, lookupSym]
  rfl

/-! ### iteration-independent loop steps -/

/-- if the iterator does not occur in the body, an iteration is a run of the body in a fresh
    scope, whatever the iteration value -/
theorem loopStep_const (i : Sym) (body : List Stmt) (hi : occL i body = false) (v : Int)
    (s : State V) : loopStep ext i body v s = execB ext body s := by
  unfold loopStep execB
  rw [execL_weaken ext body s i v hi]
  cases execL ext body s with
  | error e => rfl
  | ok t => rfl

theorem loopStep_pass (i : Sym) (v : Int) (s : State V) : loopStep ext i [.pass] v s = .ok s := by
  simp only [loopStep, execL, execS, bind, Except.bind, pure, Except.pure, Except.map, State.leave,
    State.bind, List.take_length]

theorem execB_pass (s : State V) : execB ext [.pass] s = .ok s := by
  simp only [execB, execL, execS, bind, Except.bind, pure, Except.pure, Except.map, State.leave,
    List.take_length]

/-! ### exchanging statements of a block -/

theorem execL_pair (a b : Stmt) (σ : State V) :
    execL ext [a, b] σ = (execS ext a σ >>= fun s => execS ext b s) := by
  simp only [execL, bind, Except.bind]
  cases execS ext a σ with
  | error e => rfl
  | ok s => simp only []; cases execS ext b s <;> rfl

theorem execL_congr_snd (a b b' : Stmt) (h : ∀ s : State V, execS ext b s = execS ext b' s)
    (σ : State V) : execL ext [a, b] σ = execL ext [a, b'] σ := by
  rw [execL_pair, execL_pair]
  congr 1
  funext s
  exact h s

theorem execL_congr_single (b b' : Stmt) (h : ∀ s : State V, execS ext b s = execS ext b' s)
    (σ : State V) : execL ext [b] σ = execL ext [b'] σ := by
  rw [execL_singleton, execL_singleton, h]

end Exo
