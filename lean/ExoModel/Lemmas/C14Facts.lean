/-
  Turning the `Admissible` hypothesis of a C14 theorem into arithmetic facts, and the algebra on
  poisonable lanes (`Option V`) used to compare the two sides lane by lane.
-/
import ExoModel.Lemmas.Lane

set_option linter.unusedSectionVars false
set_option linter.unusedVariables false
namespace Exo.X86
open Exo.Lane
variable {V : Type}

/-- what `viewInBounds` says for views of rank 0 / 1, as (in)equalities -/
def inbFact (heap : Heap V) (v : View) : Prop :=
  match v.dims with
  | [] => 0 ≤ v.off ∧ v.off + 1 ≤ bufLen heap v.buf
  | [(m, s)] => 0 < m → (0 ≤ v.off ∧ v.off + 1 ≤ bufLen heap v.buf ∧
      0 ≤ v.off + (m - 1) * s ∧ v.off + ((m - 1) * s + 1) ≤ bufLen heap v.buf)
  | _ => True

def inbFacts (heap : Heap V) : List (Sym × View) → Prop
  | [] => True
  | (_, v) :: r => inbFact heap v ∧ inbFacts heap r

theorem viewInBounds_fact (heap : Heap V) (v : View) (h : viewInBounds heap v) : inbFact heap v := by
  unfold inbFact
  split
  · rename_i hd
    have := h [] v.off (by simp [hd, viewOffset, pure, Except.pure])
    omega
  · rename_i m s hd
    intro hm
    have h0 := h [0] (v.off + 0 * s) (by simp [hd, viewOffset, hm, pure, Except.pure])
    have h1 := h [m - 1] (v.off + (m - 1) * s) (by
      have h1 : 0 ≤ m - 1 := by omega
      have h2 : m - 1 < m := by omega
      simp only [hd, viewOffset, h1, h2, and_self, if_true, pure, Except.pure])
    simp only [Int.zero_mul, Int.add_zero] at h0
    omega
  · trivial

/-- establishing `viewInBounds` for a stride-1 window -/
theorem viewInBounds_stride1 (heap : Heap V) (b : Nat) (o m : Int) (h0 : 0 ≤ o)
    (h1 : o + m ≤ bufLen heap b) : viewInBounds heap ⟨b, o, [(m, 1)]⟩ := by
  intro is r h
  match is, h with
  | [], h => simp [viewOffset] at h
  | [i], h =>
    simp only [viewOffset] at h
    split at h
    · simp only [pure, Except.pure, Except.ok.injEq] at h
      subst h
      simp only []
      omega
    · cases h
  | _ :: _ :: _, h =>
    simp only [viewOffset] at h
    split at h <;> cases h

theorem viewInBounds_scalar (heap : Heap V) (b : Nat) (o : Int) (h0 : 0 ≤ o)
    (h1 : o < bufLen heap b) : viewInBounds heap ⟨b, o, []⟩ := by
  intro is r h
  match is, h with
  | [], h =>
    simp only [viewOffset, pure, Except.pure, Except.ok.injEq] at h
    subst h
    exact ⟨h0, h1⟩
  | _ :: _, h => simp [viewOffset] at h

theorem allViewsInBounds_facts (heap : Heap V) :
    ∀ (vs : List (Sym × View)), allViewsInBounds heap vs → inbFacts heap vs
  | [], _ => trivial
  | (_, v) :: r, h => ⟨viewInBounds_fact heap v h.1, allViewsInBounds_facts heap r h.2⟩

theorem checkPreds_cons_ok (σ : State V) (p : Expr) (ps : List Expr) :
    checkPreds σ (p :: ps) = .ok () ↔ ∃ n, evalC σ p = .ok n ∧ n ≠ 0 ∧ checkPreds σ ps = .ok () := by
  simp only [checkPreds, bind, Except.bind]
  cases evalC σ p with
  | error e => simp
  | ok n =>
    by_cases hn : n = 0
    · simp [hn, throw, throwThe, MonadExceptOf.throw]
    · simp [hn]

@[simp] theorem checkPreds_nil_ok (σ : State V) : checkPreds σ [] = .ok () := rfl

theorem b2i_ne_zero (c : Bool) : b2i c ≠ 0 ↔ c = true := by
  cases c <;> simp [b2i]

theorem range4 : List.range 4 = [0, 1, 2, 3] := by rfl
theorem range8 : List.range 8 = [0, 1, 2, 3, 4, 5, 6, 7] := by rfl
theorem range16 : List.range 16 = [0, 1, 2, 3, 4, 5, 6, 7, 8, 9, 10, 11, 12, 13, 14, 15] := by rfl
theorem range1 : List.range 1 = [0] := by rfl
theorem range2 : List.range 2 = [0, 1] := by rfl

/-! ### initialised operands -/

def valAt [DataAlg V] (heap : Heap V) (b k : Nat) : V :=
  match heapGet heap (b, k) with
  | some x => x
  | none => DataAlg.ofRat 0 1

theorem heapGet_of_isSome [DataAlg V] (heap : Heap V) (b k : Nat) (h : (heapGet heap (b, k)).isSome) :
    heapGet heap (b, k) = some (valAt heap b k) := by
  unfold valAt
  cases hg : heapGet heap (b, k) with
  | none => simp [hg] at h
  | some x => rfl

def initFact [DataAlg V] (heap : Heap V) (v : View) : Prop :=
  match v.dims with
  | [] => 0 ≤ v.off → heapGet heap (v.buf, v.off.toNat) = some (valAt heap v.buf v.off.toNat)
  | [(m, s)] => s = 1 → 0 ≤ v.off →
      ((0 < m → heapGet heap (v.buf, v.off.toNat) = some (valAt heap v.buf v.off.toNat)) ∧
       ∀ j : Nat, (j : Int) < m →
         heapGet heap (v.buf, v.off.toNat + j) = some (valAt heap v.buf (v.off.toNat + j)))
  | _ => True

def initFacts [DataAlg V] (heap : Heap V) : List (Sym × View) → Prop
  | [] => True
  | (_, v) :: r => initFact heap v ∧ initFacts heap r

theorem allViewsInit_facts [DataAlg V] (heap : Heap V) :
    ∀ (vs : List (Sym × View)), allViewsInit heap vs → initFacts heap vs
  | [], _ => trivial
  | (_, v) :: r, h => by
    refine ⟨?_, allViewsInit_facts heap r h.2⟩
    have hv := h.1
    unfold initFact
    split
    · rename_i hd
      intro ho
      exact heapGet_of_isSome _ _ _ (hv [] v.off (by simp [hd, viewOffset, pure, Except.pure]))
    · rename_i m s hd
      intro hs ho
      subst hs
      have key : ∀ j : Nat, (j : Int) < m →
          heapGet heap (v.buf, v.off.toNat + j) = some (valAt heap v.buf (v.off.toNat + j)) := by
        intro j hj
        have h0 : (0 : Int) ≤ (j : Int) := by omega
        have := hv [(j : Int)] (v.off + (j : Int) * 1) (by
          simp only [hd, viewOffset, h0, hj, and_self, if_true, pure, Except.pure])
        have he : (v.off + (j : Int) * 1).toNat = v.off.toNat + j := by omega
        rw [he] at this
        exact heapGet_of_isSome _ _ _ this
      refine ⟨fun hm => ?_, key⟩
      have := key 0 (by simpa using hm)
      simpa using this
    · trivial

/-! ### algebra on lanes -/

theorem allSome_one_map {W : Type} (a : Option V) (f : List V → W) :
    (allSome [a]).map f = a.map (fun x => f [x]) := by
  cases a <;> rfl

theorem lift2_some_right (g : V → V → V) (a : Option V) (z : V) :
    lift2 g a (some z) = a.map (fun x => g x z) := by
  cases a <;> rfl

theorem ite_some_some (c : Prop) [Decidable c] (a b : V) :
    (if c then some a else some b) = some (if c then a else b) := by
  by_cases h : c <;> simp [h]

theorem lift2_some_left (g : V → V → V) (a : Option V) (z : V) :
    lift2 g (some z) a = a.map (fun x => g z x) := by
  cases a <;> rfl

section
variable [LawfulDataAlg V]
open LawfulDataAlg

theorem lift2_add_comm (a b : Option V) : lift2 DataAlg.add a b = lift2 DataAlg.add b a := by
  cases a <;> cases b <;> simp [lift2, add_comm]

theorem lift2_add_assoc (a b c : Option V) :
    lift2 DataAlg.add (lift2 DataAlg.add a b) c = lift2 DataAlg.add a (lift2 DataAlg.add b c) := by
  cases a <;> cases b <;> cases c <;> simp [lift2, add_assoc]

theorem lift2_add_left_comm (a b c : Option V) :
    lift2 DataAlg.add a (lift2 DataAlg.add b c) = lift2 DataAlg.add b (lift2 DataAlg.add a c) := by
  cases a <;> cases b <;> cases c <;> simp [lift2, add_left_comm]

theorem lift2_mul_comm (a b : Option V) : lift2 DataAlg.mul a b = lift2 DataAlg.mul b a := by
  cases a <;> cases b <;> simp [lift2, mul_comm]

theorem lift2_one_mul (a : Option V) : lift2 DataAlg.mul (some (DataAlg.ofRat 1 1)) a = a := by
  cases a <;> simp [lift2, one_mul]

theorem lift2_mul_one (a : Option V) : lift2 DataAlg.mul a (some (DataAlg.ofRat 1 1)) = a := by
  cases a <;> simp [lift2, mul_one]

theorem lift2_mul_neg_one (a : Option V) :
    lift2 DataAlg.mul a (some (DataAlg.ofRat (-1) 1)) = a.map DataAlg.neg := by
  cases a <;> simp [lift2, mul_neg_one]

end

end Exo.X86
