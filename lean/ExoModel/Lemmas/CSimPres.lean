/-
  Lemmas for C02 wave 2, part 6: preservation of `Rep` by the state changes of statements, and
  evaluation of lists of emitted index expressions (allocation sizes, window fields).
-/
import ExoModel.Lemmas.CSimStatic

namespace Exo.CompileS
open Exo Exo.CIndex Exo.CSem
open Exo.Range (IExpr Op Val Inside)

variable {V : Type}

theorem map_ok {ε α β : Type} {x : Except ε α} {f : α → β} {b : β} (h : x.map f = .ok b) :
    ∃ a, x = .ok a ∧ b = f a := by
  cases x with
  | error e => cases h
  | ok a => simp only [Except.map, Except.ok.injEq] at h; exact ⟨a, rfl, h.symm⟩

theorem lookup_append_fresh {α : Type} {x : Sym} : ∀ {ext l : List (Sym × α)},
    (∀ p ∈ ext, p.1 ≠ x) → lookupSym x (ext ++ l) = lookupSym x l
  | [], _, _ => rfl
  | (y, a) :: r, l, h => by
      have hy : ¬ x = y := fun e => h (y, a) (by simp) e.symm
      simp only [List.cons_append, lookupSym, hy, if_false]
      exact lookup_append_fresh (fun p hp => h p (by simp [hp]))

theorem RepVal.congr {Γ Γ' : CEnv} {env : List (Sym × Int)} {x : Sym} {v : View} {cv : CVal}
    (ht : lookupSym x Γ'.typ = lookupSym x Γ.typ) (hr : Γ'.refs = Γ.refs)
    (hk : Γ'.known = Γ.known) (h : RepVal Γ env x v cv) : RepVal Γ' env x v cv := by
  unfold RepVal at h ⊢
  rw [ht, hr, hk]; exact h

theorem Rep.change {Γ Γ' : CEnv} {σ : State V} {c : CState V} (h : Rep Γ σ c)
    (ht : ∀ x v, lookupSym x σ.views = some v → lookupSym x Γ'.typ = lookupSym x Γ.typ)
    (hr : Γ'.refs = Γ.refs) (hk : Γ'.known = Γ.known)
    (hin : Inside (ρS σ) Γ'.renv.lookup) : Rep Γ' σ c :=
  ⟨h.ints, h.heap, h.cfg, fun x v hx => by
    obtain ⟨cv, hcv, hv⟩ := h.vals x v hx
    exact ⟨cv, hcv, hv.congr (ht x v hx) hr hk⟩, hin⟩

theorem Rep.mono {B : List Sym} {Γ Γ' : CEnv} {σ : State V} {c : CState V} (h : Rep Γ σ c)
    (he : Ext B Γ Γ') (hf : ∀ b ∈ B, lookupSym b σ.views = none) : Rep Γ' σ c := by
  obtain ⟨ext, hext, hb⟩ := he.typ
  refine h.change (fun x v hx => ?_) he.refs he.known (by rw [he.renv]; exact h.rng)
  rw [hext]
  apply lookup_append_fresh
  intro p hp e
  have := hf p.1 (hb p hp)
  rw [e, hx] at this; cases this

theorem Rep.state {Γ : CEnv} {σ σ' : State V} {c c' : CState V} (h : Rep Γ σ c)
    (he : σ'.env = σ.env) (hv : σ'.views = σ.views) (hi : c'.ints = c.ints)
    (hvl : c'.vals = c.vals) (hh : c'.heap = σ'.heap) (hc : c'.cfg = σ'.cfg) : Rep Γ σ' c' :=
  ⟨by rw [hi, he]; exact h.ints, hh, hc, fun x v hx => by
    rw [hv] at hx
    obtain ⟨cv, hcv, hval⟩ := h.vals x v hx
    exact ⟨cv, by rw [hvl]; exact hcv, by rw [he]; exact hval⟩,
   by simp only [ρS, he]; exact h.rng⟩

/-! ## binding a loop iterator -/

theorem ρOfL_cons (i : Sym) (v : Int) (env : List (Sym × Int)) :
    ρOfL ((i, v) :: env) = Range.upd (ρOfL env) i v := by
  funext y
  simp only [ρOfL, lookupSym, Range.upd]
  split <;> rfl

theorem posDivisorsE_congr {ρ ρ' : Val} : ∀ (e : IExpr), (∀ y ∈ e.vars, ρ y = ρ' y) →
    PosDivisorsE ρ e → PosDivisorsE ρ' e
  | .var _, _, _ => trivial
  | .const _, _, _ => trivial
  | .other, _, _ => trivial
  | .neg a, h, hp => posDivisorsE_congr a (by simpa [IExpr.vars] using h) hp
  | .bin op a b, h, hp => by
      have ha : ∀ y ∈ a.vars, ρ y = ρ' y := fun y hy => h y (by simp [IExpr.vars, hy])
      have hb : ∀ y ∈ b.vars, ρ y = ρ' y := fun y hy => h y (by simp [IExpr.vars, hy])
      refine ⟨posDivisorsE_congr a ha hp.1, posDivisorsE_congr b hb hp.2.1, fun ho => ?_⟩
      rw [← Range.eval_congr hb]; exact hp.2.2 ho

theorem RepVal.bind {Γ Γ' : CEnv} {env : List (Sym × Int)} {x i : Sym} {w : Int} {v : View}
    {cv : CVal} (hi : lookupSym i env = none) (ht : lookupSym x Γ'.typ = lookupSym x Γ.typ)
    (hr : Γ'.refs = Γ.refs) (hk : Γ'.known = Γ.known) (h : RepVal Γ env x v cv) :
    RepVal Γ' ((i, w) :: env) x v cv := by
  unfold RepVal at h ⊢
  rw [ht, hr, hk]
  refine ⟨h.1, h.2.1, ?_⟩
  have h3 := h.2.2
  split
  · rename_i sh hty
    rw [hty] at h3
    obtain ⟨h1, h2, h4⟩ := h3
    have hagree : ∀ e ∈ sh, ∀ y ∈ e.vars, ρOfL env y = ρOfL ((i, w) :: env) y := by
      intro e he y hy
      have hb := (h2 e he).2 y hy
      have : y ≠ i := fun e' => by rw [e', hi] at hb; cases hb
      simp [ρOfL, lookupSym, this]
    refine ⟨h1, fun e he => ⟨posDivisorsE_congr e (hagree e he) (h2 e he).1, fun y hy => ?_⟩, ?_⟩
    · have hb := (h2 e he).2 y hy
      simp only [lookupSym]
      split
      · rfl
      · exact hb
    · rw [h4]
      congr 1
      apply List.map_congr_left
      intro e he
      exact Range.eval_congr (hagree e he)
  · rename_i n hty
    rw [hty] at h3; exact h3
  · rename_i hty
    rw [hty] at h3; exact h3
  · rename_i h5 h6 h7
    split at h3
    · rename_i sh hty; exact absurd hty (h5 sh)
    · rename_i n hty; exact absurd hty (h6 n)
    · rename_i hty; exact absurd hty h7
    · exact h3

/-! ## lists of emitted index expressions -/

theorem evalIxs_comp {c : CState V} : ∀ {ks : List CIR} {es : List CExpr},
    All2 (fun k e => ∃ s, simplify k = .ok s ∧ e = compAst s) ks es →
    (∀ k ∈ ks, Good (ρOf c) (σOf c) k) →
    evalIxs c es = .ok (ks.map (·.eval (ρOf c) (σOf c)))
  | _, _, .nil, _ => rfl
  | _, _, .cons (a := k) (l := ks) ⟨s, hs, he⟩ hr, hg => by
      subst he
      simp only [evalIxs, evalIx_comp hs (hg k (by simp)),
        evalIxs_comp hr (fun k' hk' => hg k' (by simp [hk']))]
      rfl

theorem simp_ok {k s : CIR} (h : simp k = .ok s) : simplify k = .ok s := by
  unfold simp at h
  split at h
  · simp only [pure, Except.pure, Except.ok.injEq] at h; subst h; assumption
  · cases h

theorem liftIdx_ok {Γ : CEnv} {e : Expr} {k : CIR} (h : liftIdx Γ e = .ok k) :
    lift (nnOf Γ.renv) (toIE Γ.typ e) = some k := by
  unfold liftIdx at h
  split at h
  · simp only [pure, Except.pure, Except.ok.injEq] at h; subst h; assumption
  · cases h

theorem toIE_vars_bound (typ : List (Sym × Ty)) (σ : State V) : ∀ (e : Expr) (v : Int),
    evalC σ e = .ok v → noOther (toIE typ e) = true →
    ∀ y ∈ (toIE typ e).vars, (lookupSym y σ.env).isSome = true
  | .read x [], v, h, hn, y, hy => by
      simp only [toIE] at hn hy
      split at hn
      · rename_i hty
        simp only [hty, IExpr.vars, List.mem_singleton] at hy
        subst hy
        simp only [evalC] at h
        split at h
        · rename_i w hw; simp [hw]
        · cases h
      · simp [noOther] at hn
  | .read _ (_ :: _), _, _, hn, _, _ => by simp [toIE, noOther] at hn
  | .lit (.int n), v, _, _, y, hy => by simp [toIE, IExpr.vars] at hy
  | .lit (.bool _), _, _, hn, _, _ => by simp [toIE, noOther] at hn
  | .lit (.data _ _), _, _, hn, _, _ => by simp [toIE, noOther] at hn
  | .usub a, v, h, hn, y, hy => by
      simp only [evalC] at h
      obtain ⟨w, hw, _⟩ := bind_ok h
      simp only [toIE, noOther] at hn
      simp only [toIE, IExpr.vars] at hy
      exact toIE_vars_bound typ σ a w hw hn y hy
  | .binop op a b, v, h, hn, y, hy => by
      simp only [evalC] at h
      obtain ⟨x, hx, h⟩ := bind_ok h
      obtain ⟨z, hz, _⟩ := bind_ok h
      simp only [toIE] at hn hy
      cases ho : toOp op with
      | none => simp [ho, noOther] at hn
      | some o =>
          simp only [ho, noOther, Bool.and_eq_true] at hn
          simp only [ho, IExpr.vars, List.mem_append] at hy
          rcases hy with hy | hy
          · exact toIE_vars_bound typ σ a x hx hn.1 y hy
          · exact toIE_vars_bound typ σ b z hz hn.2 y hy
  | .extern _ _, _, _, hn, _, _ => by simp [toIE, noOther] at hn
  | .win _ _, _, _, hn, _, _ => by simp [toIE, noOther] at hn
  | .stride _ _, _, _, hn, _, _ => by simp [toIE, noOther] at hn
  | .readcfg _ _, _, _, hn, _, _ => by simp [toIE, noOther] at hn

/-- allocation sizes: `shape_strs` evaluates to the extents the reference semantics computes -/
theorem dims_sim {Γ : CEnv} {σ : State V} {c : CState V} (hr : Rep Γ σ c) :
    ∀ {shape : List Expr} {dims : List CExpr} {sh : List Int},
    mapM' (fun e => do let k ← liftIdx Γ e; let s ← simp k; pure (compAst s)) shape = .ok dims →
    evalCs σ shape = .ok sh → shape.all (fun e => modNumOK Γ.renv (toIE Γ.typ e)) = true →
    evalIxs c dims = .ok sh ∧
    (∀ e ∈ shape, PosDivisorsE (ρOfL σ.env) (toIE Γ.typ e) ∧
      ∀ y ∈ (toIE Γ.typ e).vars, (lookupSym y σ.env).isSome = true) ∧
    shape.map (fun e => Range.eval (toIE Γ.typ e) (ρOfL σ.env)) = sh := by
  intro shape dims sh hm he hk
  have hρ : ρOf c = ρOfL σ.env := hr.rho
  -- split the pipeline
  have key : ∀ {shape : List Expr} {dims : List CExpr},
      mapM' (fun e => do let k ← liftIdx Γ e; let s ← simp k; pure (compAst s)) shape = .ok dims →
      ∃ ks, mapM' (liftIdx Γ) shape = .ok ks ∧
        All2 (fun k e => ∃ s, simplify k = .ok s ∧ e = compAst s) ks dims := by
    intro shape
    induction shape with
    | nil =>
        intro dims h
        simp only [mapM', pure, Except.pure, Except.ok.injEq] at h; subst h
        exact ⟨[], rfl, .nil⟩
    | cons e r ih =>
        intro dims h
        simp only [mapM'] at h
        obtain ⟨d, hd, h⟩ := bind_ok h
        obtain ⟨ds, hds, h⟩ := bind_ok h
        simp only [pure, Except.pure, Except.ok.injEq] at h; subst h
        obtain ⟨k, hk, hd⟩ := bind_ok hd
        obtain ⟨s, hs, hd⟩ := bind_ok hd
        simp only [pure, Except.pure, Except.ok.injEq] at hd; subst hd
        obtain ⟨ks, hks, ha⟩ := ih hds
        exact ⟨k :: ks, by simp only [mapM', hk, hks]; rfl, .cons ⟨s, simp_ok hs, rfl⟩ ha⟩
  obtain ⟨ks, hks, hall⟩ := key hm
  have g := liftIdx_all hr hks he hk
  have := evalIxs_comp (c := c) hall (by rw [hρ]; exact g.1)
  rw [hρ, g.2] at this
  refine ⟨this, ?_, ?_⟩
  · intro e hmem
    -- each element evaluated successfully
    have : ∀ {shape : List Expr} {ks : List CIR} {sh : List Int}, mapM' (liftIdx Γ) shape = .ok ks →
        evalCs σ shape = .ok sh → ∀ e ∈ shape, ∃ k v, liftIdx Γ e = .ok k ∧ evalC σ e = .ok v := by
      intro shape
      induction shape with
      | nil => intro _ _ _ _ e he; cases he
      | cons a r ih =>
          intro ks sh h1 h2 e he
          simp only [mapM'] at h1
          obtain ⟨k, hk, h1⟩ := bind_ok h1
          obtain ⟨kr, hkr, _⟩ := bind_ok h1
          simp only [evalCs] at h2
          obtain ⟨v, hv, h2⟩ := bind_ok h2
          obtain ⟨vr, hvr, _⟩ := bind_ok h2
          simp only [List.mem_cons] at he
          rcases he with rfl | he
          · exact ⟨k, v, hk, hv⟩
          · exact ih hkr hvr e he
    obtain ⟨k, v, hk', hv⟩ := this hks he e hmem
    have hno := lift_noOther (liftIdx_ok hk')
    have te := toIE_eval Γ.typ σ e v hv hno
    refine ⟨te.2, ?_⟩
    exact toIE_vars_bound Γ.typ σ e v hv hno
  · have : ∀ {shape : List Expr} {ks : List CIR} {sh : List Int}, mapM' (liftIdx Γ) shape = .ok ks →
        evalCs σ shape = .ok sh →
        shape.map (fun e => Range.eval (toIE Γ.typ e) (ρOfL σ.env)) = sh := by
      intro shape
      induction shape with
      | nil =>
          intro _ sh _ h2
          simp only [evalCs, pure, Except.pure, Except.ok.injEq] at h2; subst h2; rfl
      | cons a r ih =>
          intro ks sh h1 h2
          simp only [mapM'] at h1
          obtain ⟨k, hk, h1⟩ := bind_ok h1
          obtain ⟨kr, hkr, _⟩ := bind_ok h1
          simp only [evalCs] at h2
          obtain ⟨v, hv, h2⟩ := bind_ok h2
          obtain ⟨vr, hvr, h2⟩ := bind_ok h2
          simp only [pure, Except.pure, Except.ok.injEq] at h2; subst h2
          have te := toIE_eval Γ.typ σ a v hv (lift_noOther (liftIdx_ok hk))
          simp only [List.map_cons, ih hkr hvr]
          congr 1
          exact te.1
    exact this hks he

end Exo.CompileS
