/-
  The position lists of ExoModel.Pattern are duplicate-free:
  * `posInBlock` — distinct (anchor, attr, offset) triples (stated on the path of the first statement)
  * `preorder` of a tree whose sibling steps are distinct, and `treeProc body` is such a tree.
-/
import ExoModel.Pattern
namespace Exo.Pattern
open Exo.Nav (Step Path Cursor)

/-- the path of the first statement of a block position: identifies (anchor, attr, off) -/
def BlockPos.key (p : BlockPos) : Path := p.anchor ++ [(p.attr, some p.off)]

mutual
  theorem posInStmt_key :
      ∀ (s : Stmt) (path : Path) (p : BlockPos), p ∈ posInStmt path s →
        ∃ st tl, p.key = path ++ st :: tl
    | .if_ c b o, path, p, h => by
      simp only [posInStmt, List.mem_append] at h
      rcases h with h | h
      · obtain ⟨k, _, tl, e⟩ := posInBlock_key b path "body" 0 p h
        exact ⟨_, tl, e⟩
      · obtain ⟨k, _, tl, e⟩ := posInBlock_key o path "orelse" 0 p h
        exact ⟨_, tl, e⟩
    | .for_ it lo hi b, path, p, h => by
      simp only [posInStmt] at h
      obtain ⟨k, _, tl, e⟩ := posInBlock_key b path "body" 0 p h
      exact ⟨_, tl, e⟩
    | .assign .., _, _, h => by simp [posInStmt] at h
    | .reduce .., _, _, h => by simp [posInStmt] at h
    | .writeConfig .., _, _, h => by simp [posInStmt] at h
    | .pass, _, _, h => by simp [posInStmt] at h
    | .alloc .., _, _, h => by simp [posInStmt] at h
    | .call .., _, _, h => by simp [posInStmt] at h
    | .windowStmt .., _, _, h => by simp [posInStmt] at h
  theorem posInBlock_key :
      ∀ (ss : List Stmt) (anchor : Path) (attr : String) (off : Nat) (p : BlockPos),
        p ∈ posInBlock anchor attr off ss →
        ∃ k, off ≤ k ∧ ∃ tl, p.key = anchor ++ (attr, some k) :: tl
    | [], _, _, _, _, h => by simp [posInBlock] at h
    | s :: rest, anchor, attr, off, p, h => by
      simp only [posInBlock, List.mem_cons, List.mem_append] at h
      rcases h with h | h | h
      · subst h
        exact ⟨off, Nat.le_refl _, [], rfl⟩
      · obtain ⟨st, tl, e⟩ := posInStmt_key s _ p h
        exact ⟨off, Nat.le_refl _, st :: tl, by simp [e]⟩
      · obtain ⟨k, hk, tl, e⟩ := posInBlock_key rest anchor attr (off + 1) p h
        exact ⟨k, by omega, tl, e⟩
end

theorem posInBlock_key_attr {ss : List Stmt} {anchor : Path} {attr : String} {off : Nat} {p : BlockPos}
    (h : p ∈ posInBlock anchor attr off ss) : ∃ k tl, p.key = anchor ++ (attr, some k) :: tl := by
  obtain ⟨k, _, tl, e⟩ := posInBlock_key ss anchor attr off p h
  exact ⟨k, tl, e⟩

mutual
  theorem posInStmt_nodup :
      ∀ (s : Stmt) (path : Path), (posInStmt path s).Pairwise (fun p q => p.key ≠ q.key)
    | .if_ c b o, path => by
      simp only [posInStmt]
      rw [List.pairwise_append]
      refine ⟨posInBlock_nodup b path "body" 0, posInBlock_nodup o path "orelse" 0, ?_⟩
      intro p hp q hq e
      obtain ⟨k, tl, e1⟩ := posInBlock_key_attr hp
      obtain ⟨k', tl', e2⟩ := posInBlock_key_attr hq
      rw [e1, e2] at e
      have := List.append_cancel_left e
      simp at this
    | .for_ it lo hi b, path => by
      simp only [posInStmt]
      exact posInBlock_nodup b path "body" 0
    | .assign .., _ => by simp [posInStmt]
    | .reduce .., _ => by simp [posInStmt]
    | .writeConfig .., _ => by simp [posInStmt]
    | .pass, _ => by simp [posInStmt]
    | .alloc .., _ => by simp [posInStmt]
    | .call .., _ => by simp [posInStmt]
    | .windowStmt .., _ => by simp [posInStmt]
  theorem posInBlock_nodup :
      ∀ (ss : List Stmt) (anchor : Path) (attr : String) (off : Nat),
        (posInBlock anchor attr off ss).Pairwise (fun p q => p.key ≠ q.key)
    | [], _, _, _ => by simp [posInBlock]
    | s :: rest, anchor, attr, off => by
      simp only [posInBlock]
      rw [List.pairwise_cons, List.pairwise_append]
      refine ⟨?_, posInStmt_nodup s _, posInBlock_nodup rest anchor attr (off + 1), ?_⟩
      · intro q hq e
        simp only [List.mem_append] at hq
        rcases hq with hq | hq
        · obtain ⟨st, tl, e2⟩ := posInStmt_key s _ q hq
          rw [e2] at e
          simp [BlockPos.key] at e
        · obtain ⟨k, hk, tl, e2⟩ := posInBlock_key rest anchor attr (off + 1) q hq
          rw [e2] at e
          have := List.append_cancel_left e
          simp at this
          omega
      · intro p hp q hq e
        obtain ⟨st, tl, e1⟩ := posInStmt_key s _ p hp
        obtain ⟨k, hk, tl', e2⟩ := posInBlock_key rest anchor attr (off + 1) q hq
        rw [e1, e2] at e
        simp only [List.append_assoc, List.singleton_append] at e
        have := List.append_cancel_left e
        simp at this
        omega
end

/-! ### pre-order paths of a tree -/

mutual
  /-- sibling steps are pairwise distinct, everywhere in the tree -/
  def Tree.Distinct {α : Type} : Tree α → Prop
    | .node _ kids => (kids.map (·.1)).Pairwise (· ≠ ·) ∧ kidsDistinct kids
  def kidsDistinct {α : Type} : List (Step × Tree α) → Prop
    | [] => True
    | (_, k) :: rest => k.Distinct ∧ kidsDistinct rest
end

mutual
  theorem preorder_prefix {α : Type} :
      ∀ (t : Tree α) (path : Path) (x : Path × α), x ∈ preorder path t → ∃ tl, x.1 = path ++ tl
    | .node lab kids, path, x, h => by
      simp only [preorder, List.mem_cons] at h
      rcases h with h | h
      · subst h; exact ⟨[], by simp⟩
      · obtain ⟨s, _, tl, e⟩ := preorderKids_prefix kids path x h
        exact ⟨s :: tl, e⟩
  theorem preorderKids_prefix {α : Type} :
      ∀ (kids : List (Step × Tree α)) (path : Path) (x : Path × α), x ∈ preorderKids path kids →
        ∃ s, s ∈ kids.map (·.1) ∧ ∃ tl, x.1 = path ++ s :: tl
    | [], _, _, h => by simp [preorderKids] at h
    | (s, k) :: rest, path, x, h => by
      simp only [preorderKids, List.mem_append] at h
      rcases h with h | h
      · obtain ⟨tl, e⟩ := preorder_prefix k _ x h
        exact ⟨s, by simp, tl, by simp [e]⟩
      · obtain ⟨s', hs', tl, e⟩ := preorderKids_prefix rest path x h
        exact ⟨s', by simp [hs'], tl, e⟩
end

mutual
  theorem preorder_nodup {α : Type} :
      ∀ (t : Tree α) (path : Path), t.Distinct → (preorder path t).Pairwise (fun x y => x.1 ≠ y.1)
    | .node lab kids, path, hd => by
      simp only [Tree.Distinct] at hd
      simp only [preorder]
      rw [List.pairwise_cons]
      refine ⟨?_, preorderKids_nodup kids path hd.1 hd.2⟩
      intro y hy e
      obtain ⟨s, _, tl, e2⟩ := preorderKids_prefix kids path y hy
      rw [e2] at e
      simp at e
  theorem preorderKids_nodup {α : Type} :
      ∀ (kids : List (Step × Tree α)) (path : Path),
        (kids.map (·.1)).Pairwise (· ≠ ·) → kidsDistinct kids →
        (preorderKids path kids).Pairwise (fun x y => x.1 ≠ y.1)
    | [], _, _, _ => by simp [preorderKids]
    | (s, k) :: rest, path, hs, hd => by
      simp only [kidsDistinct] at hd
      simp only [List.map_cons, List.pairwise_cons] at hs
      simp only [preorderKids]
      rw [List.pairwise_append]
      refine ⟨preorder_nodup k _ hd.1, preorderKids_nodup rest path hs.2 hd.2, ?_⟩
      intro x hx y hy e
      obtain ⟨tl, e1⟩ := preorder_prefix k _ x hx
      obtain ⟨s', hs', tl', e2⟩ := preorderKids_prefix rest path y hy
      rw [e1, e2] at e
      simp only [List.append_assoc, List.singleton_append] at e
      have := List.append_cancel_left e
      simp only [List.cons.injEq] at this
      exact hs.1 s' hs' this.1
end

/-! ### the trees built from LoopIR have distinct sibling steps -/

theorem treeEs_steps (attr : String) : ∀ (es : List Expr) (k : Nat) (s : Step),
    s ∈ (treeEs attr k es).map (·.1) → s.1 = attr ∧ ∃ i, k ≤ i ∧ s.2 = some i
  | [], _, _, h => by simp [treeEs] at h
  | e :: es, k, s, h => by
    simp only [treeEs, List.map_cons, List.mem_cons] at h
    rcases h with h | h
    · subst h; exact ⟨rfl, k, Nat.le_refl _, rfl⟩
    · obtain ⟨h1, i, hi, h2⟩ := treeEs_steps attr es (k + 1) s h
      exact ⟨h1, i, by omega, h2⟩

theorem treeWs_steps : ∀ (ws : List WAcc) (k : Nat) (s : Step),
    s ∈ (treeWs k ws).map (·.1) → s.1 = "idx" ∧ ∃ i, k ≤ i ∧ s.2 = some i
  | [], _, _, h => by simp [treeWs] at h
  | w :: ws, k, s, h => by
    simp only [treeWs, List.map_cons, List.mem_cons] at h
    rcases h with h | h
    · subst h; exact ⟨rfl, k, Nat.le_refl _, rfl⟩
    · obtain ⟨h1, i, hi, h2⟩ := treeWs_steps ws (k + 1) s h
      exact ⟨h1, i, by omega, h2⟩

theorem treeSs_steps (attr : String) : ∀ (ss : List Stmt) (k : Nat) (s : Step),
    s ∈ (treeSs attr k ss).map (·.1) → s.1 = attr ∧ ∃ i, k ≤ i ∧ s.2 = some i
  | [], _, _, h => by simp [treeSs] at h
  | e :: es, k, s, h => by
    simp only [treeSs, List.map_cons, List.mem_cons] at h
    rcases h with h | h
    · subst h; exact ⟨rfl, k, Nat.le_refl _, rfl⟩
    · obtain ⟨h1, i, hi, h2⟩ := treeSs_steps attr es (k + 1) s h
      exact ⟨h1, i, by omega, h2⟩

theorem treeEs_steps_nodup (attr : String) : ∀ (es : List Expr) (k : Nat),
    ((treeEs attr k es).map (·.1)).Pairwise (· ≠ ·)
  | [], _ => by simp [treeEs]
  | e :: es, k => by
    simp only [treeEs, List.map_cons, List.pairwise_cons]
    refine ⟨?_, treeEs_steps_nodup attr es (k + 1)⟩
    intro s hs e
    obtain ⟨_, i, hi, h2⟩ := treeEs_steps attr es (k + 1) s hs
    subst e
    simp at h2; omega

theorem treeWs_steps_nodup : ∀ (ws : List WAcc) (k : Nat),
    ((treeWs k ws).map (·.1)).Pairwise (· ≠ ·)
  | [], _ => by simp [treeWs]
  | w :: ws, k => by
    simp only [treeWs, List.map_cons, List.pairwise_cons]
    refine ⟨?_, treeWs_steps_nodup ws (k + 1)⟩
    intro s hs e
    obtain ⟨_, i, hi, h2⟩ := treeWs_steps ws (k + 1) s hs
    subst e
    simp at h2; omega

theorem treeSs_steps_nodup (attr : String) : ∀ (ss : List Stmt) (k : Nat),
    ((treeSs attr k ss).map (·.1)).Pairwise (· ≠ ·)
  | [], _ => by simp [treeSs]
  | e :: es, k => by
    simp only [treeSs, List.map_cons, List.pairwise_cons]
    refine ⟨?_, treeSs_steps_nodup attr es (k + 1)⟩
    intro s hs e
    obtain ⟨_, i, hi, h2⟩ := treeSs_steps attr es (k + 1) s hs
    subst e
    simp at h2; omega

mutual
  theorem treeE_distinct : ∀ (e : Expr), (treeE e).Distinct
    | .read n idx => by
      simp only [treeE, Tree.Distinct]
      exact ⟨treeEs_steps_nodup "idx" idx 0, treeEs_distinct "idx" idx 0⟩
    | .const v => by simp [treeE, Tree.Distinct, kidsDistinct]
    | .usub a => by
      simp only [treeE, Tree.Distinct, kidsDistinct]
      exact ⟨by simp, treeE_distinct a, trivial⟩
    | .binop op l r => by
      simp only [treeE, Tree.Distinct, kidsDistinct]
      exact ⟨by simp, treeE_distinct l, treeE_distinct r, trivial⟩
    | .extern f args => by
      simp only [treeE, Tree.Distinct]
      exact ⟨treeEs_steps_nodup "args" args 0, treeEs_distinct "args" args 0⟩
    | .windowExpr n idx => by
      simp only [treeE, Tree.Distinct]
      exact ⟨treeWs_steps_nodup idx 0, treeWs_distinct idx 0⟩
    | .strideExpr n d => by simp [treeE, Tree.Distinct, kidsDistinct]
    | .readConfig c f => by simp [treeE, Tree.Distinct, kidsDistinct]
  theorem treeEs_distinct (attr : String) : ∀ (es : List Expr) (k : Nat), kidsDistinct (treeEs attr k es)
    | [], _ => by simp [treeEs, kidsDistinct]
    | e :: es, k => by
      simp only [treeEs, kidsDistinct]
      exact ⟨treeE_distinct e, treeEs_distinct attr es (k + 1)⟩
  theorem treeW_distinct : ∀ (w : WAcc), (treeW w).Distinct
    | .interval lo hi => by
      simp only [treeW, Tree.Distinct, kidsDistinct]
      exact ⟨by simp, treeE_distinct lo, treeE_distinct hi, trivial⟩
    | .point pt => by
      simp only [treeW, Tree.Distinct, kidsDistinct]
      exact ⟨by simp, treeE_distinct pt, trivial⟩
  theorem treeWs_distinct : ∀ (ws : List WAcc) (k : Nat), kidsDistinct (treeWs k ws)
    | [], _ => by simp [treeWs, kidsDistinct]
    | w :: ws, k => by
      simp only [treeWs, kidsDistinct]
      exact ⟨treeW_distinct w, treeWs_distinct ws (k + 1)⟩
end

theorem kidsDistinct_append {α : Type} : ∀ (a b : List (Step × Tree α)),
    kidsDistinct a → kidsDistinct b → kidsDistinct (a ++ b)
  | [], _, _, hb => by simpa using hb
  | (s, k) :: rest, b, ha, hb => by
    simp only [List.cons_append, kidsDistinct] at ha ⊢
    exact ⟨ha.1, kidsDistinct_append rest b ha.2 hb⟩

mutual
  theorem treeS_distinct : ∀ (s : Stmt), (treeS s).Distinct
    | .assign n idx rhs => by
      simp only [treeS, Tree.Distinct]
      refine ⟨?_, kidsDistinct_append _ _ (treeEs_distinct "idx" idx 0)
        (by simp only [kidsDistinct]; exact ⟨treeE_distinct rhs, trivial⟩)⟩
      rw [List.map_append, List.pairwise_append]
      refine ⟨treeEs_steps_nodup "idx" idx 0, by simp, ?_⟩
      intro s hs s' hs' e
      obtain ⟨h1, _⟩ := treeEs_steps "idx" idx 0 s hs
      simp at hs'; subst hs'; subst e; simp at h1
    | .reduce n idx rhs => by
      simp only [treeS, Tree.Distinct]
      refine ⟨?_, kidsDistinct_append _ _ (treeEs_distinct "idx" idx 0)
        (by simp only [kidsDistinct]; exact ⟨treeE_distinct rhs, trivial⟩)⟩
      rw [List.map_append, List.pairwise_append]
      refine ⟨treeEs_steps_nodup "idx" idx 0, by simp, ?_⟩
      intro s hs s' hs' e
      obtain ⟨h1, _⟩ := treeEs_steps "idx" idx 0 s hs
      simp at hs'; subst hs'; subst e; simp at h1
    | .writeConfig c f rhs => by
      simp only [treeS, Tree.Distinct, kidsDistinct]
      exact ⟨by simp, treeE_distinct rhs, trivial⟩
    | .windowStmt n rhs => by
      simp only [treeS, Tree.Distinct, kidsDistinct]
      exact ⟨by simp, treeE_distinct rhs, trivial⟩
    | .pass => by simp [treeS, Tree.Distinct, kidsDistinct]
    | .alloc n h => by simp [treeS, Tree.Distinct, kidsDistinct]
    | .if_ c b o => by
      simp only [treeS, Tree.Distinct, kidsDistinct]
      refine ⟨?_, treeE_distinct c, kidsDistinct_append _ _ (treeSs_distinct "body" b 0) (treeSs_distinct "orelse" o 0)⟩
      simp only [List.map_cons, List.map_append, List.pairwise_cons]
      refine ⟨?_, ?_⟩
      · intro s hs e
        subst e
        simp only [List.mem_append] at hs
        rcases hs with hs | hs
        · obtain ⟨h1, _⟩ := treeSs_steps "body" b 0 _ hs; simp at h1
        · obtain ⟨h1, _⟩ := treeSs_steps "orelse" o 0 _ hs; simp at h1
      · rw [List.pairwise_append]
        refine ⟨treeSs_steps_nodup "body" b 0, treeSs_steps_nodup "orelse" o 0, ?_⟩
        intro s hs s' hs' e
        obtain ⟨h1, _⟩ := treeSs_steps "body" b 0 s hs
        obtain ⟨h2, _⟩ := treeSs_steps "orelse" o 0 s' hs'
        subst e; rw [h1] at h2; simp at h2
    | .for_ it lo hi b => by
      simp only [treeS, Tree.Distinct, kidsDistinct]
      refine ⟨?_, treeE_distinct lo, treeE_distinct hi, treeSs_distinct "body" b 0⟩
      simp only [List.map_cons, List.pairwise_cons]
      refine ⟨?_, ?_, treeSs_steps_nodup "body" b 0⟩
      · intro s hs e
        subst e
        simp only [List.mem_cons] at hs
        rcases hs with hs | hs
        · simp at hs
        · obtain ⟨h1, _⟩ := treeSs_steps "body" b 0 _ hs; simp at h1
      · intro s hs e
        subst e
        obtain ⟨h1, _⟩ := treeSs_steps "body" b 0 _ hs; simp at h1
    | .call f args => by
      simp only [treeS, Tree.Distinct]
      exact ⟨treeEs_steps_nodup "args" args 0, treeEs_distinct "args" args 0⟩
  theorem treeSs_distinct (attr : String) : ∀ (ss : List Stmt) (k : Nat), kidsDistinct (treeSs attr k ss)
    | [], _ => by simp [treeSs, kidsDistinct]
    | s :: ss, k => by
      simp only [treeSs, kidsDistinct]
      exact ⟨treeS_distinct s, treeSs_distinct attr ss (k + 1)⟩
end

theorem treeProc_distinct (body : List Stmt) : (treeProc body).Distinct := by
  simp only [treeProc, Tree.Distinct]
  exact ⟨treeSs_steps_nodup "body" body 0, treeSs_distinct "body" body 0⟩

end Exo.Pattern
