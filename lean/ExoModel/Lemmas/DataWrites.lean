/-
  Helper lemmas for Props/C01Data.lean: option-lifted ring laws, heap-independence of control
  evaluation, algebra of `heapSet`.
-/
import ExoModel.Equiv
import ExoModel.DataLaws
import ExoModel.Lemmas.Exec
import ExoModel.Lemmas.Rewrites

set_option linter.unusedSectionVars false
namespace Exo.C01
open Exo

variable {V : Type} [DataAlg V]

theorem lift2_comm (f : V → V → V) (hf : ∀ a b, f a b = f b a) (x y : Option V) :
    lift2 f x y = lift2 f y x := by
  cases x <;> cases y <;> simp [lift2, hf]

theorem lift2_assoc (f : V → V → V) (hf : ∀ a b c, f (f a b) c = f a (f b c)) (x y z : Option V) :
    lift2 f (lift2 f x y) z = lift2 f x (lift2 f y z) := by
  cases x <;> cases y <;> cases z <;> simp [lift2, hf]

/-- control evaluation never looks at the heap -/
theorem evalC_heap (h' : List (List (Option V))) : ∀ (e : Expr) (σ : State V),
    evalC { σ with heap := h' } e = evalC σ e
  | .read x [], σ => by simp [evalC]
  | .read x (_ :: _), σ => by simp [evalC]
  | .lit (.int n), _ => by simp [evalC]
  | .lit (.bool n), _ => by simp [evalC]
  | .lit (.data _ _), _ => by simp [evalC]
  | .usub e, σ => by simp only [evalC]; rw [evalC_heap h' e σ]
  | .binop op a b, σ => by simp only [evalC]; rw [evalC_heap h' a σ, evalC_heap h' b σ]
  | .stride x d, σ => by simp [evalC]
  | .readcfg _ _, _ => by simp [evalC]
  | .extern _ _, _ => by simp [evalC]
  | .win _ _, _ => by simp [evalC]

theorem evalCs_heap (h' : List (List (Option V))) : ∀ (es : List Expr) (σ : State V),
    evalCs { σ with heap := h' } es = evalCs σ es
  | [], _ => rfl
  | e :: r, σ => by simp only [evalCs]; rw [evalC_heap h' e σ, evalCs_heap h' r σ]

theorem heapSet_getElem? (h : List (List (Option V))) (c : Nat × Nat) (v : Option V) (b : Nat) :
    ((heapSet h c v)[b]?).map List.length = (h[b]?).map List.length := by
  unfold heapSet
  rw [List.getElem?_modify]
  by_cases hb : c.1 = b
  · subst hb; cases h[c.1]? <;> simp
  · simp [hb]

theorem cellOf_heapSet (h : List (List (Option V))) (c : Nat × Nat) (v : Option V) (w : View)
    (is : List Int) : cellOf (heapSet h c v) w is = cellOf h w is := by
  unfold cellOf
  cases viewOffset w.dims is w.off with
  | error e => rfl
  | ok o =>
    simp only [bind, Except.bind]
    have := heapSet_getElem? h c v w.buf
    cases h1 : (heapSet h c v)[w.buf]? <;> cases h2 : h[w.buf]? <;> simp [h1, h2] at this ⊢
    simp [this]

theorem modify_modify' {α} (f g : α → α) : ∀ (l : List α) (i : Nat),
    (l.modify i f).modify i g = l.modify i (fun a => g (f a))
  | [], _ => by simp
  | a :: r, 0 => by simp
  | a :: r, i + 1 => by simp [modify_modify' f g r i]

theorem heapSet_heapSet (h : List (List (Option V))) (c : Nat × Nat) (v1 v2 : Option V) :
    heapSet (heapSet h c v1) c v2 = heapSet h c v2 := by
  unfold heapSet
  rw [modify_modify']
  congr 1
  funext b
  simp [List.set_set]

end Exo.C01
