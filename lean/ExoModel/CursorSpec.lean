/-
  ExoModel.CursorSpec — what "a forwarding function is coherent for an edit t ↦ t'" means (C06).

  All three predicates quantify over every valid cursor of the old tree; `Err.crash` (an
  AssertionError/IndexError in Python) is never an allowed outcome.
-/
import ExoModel.Cursor

namespace Exo.Cursor

/-- block `(anchor, a, [lo,hi))` covers path `q`: `q` is one of its members or lies below one -/
def Covers (anchor : Path) (a : Attr) (lo hi : Nat) (q : Path) : Prop :=
  ∃ j rest, lo ≤ j ∧ j < hi ∧ q = anchor ++ (a, j) :: rest

/-- statement cursors: forwarding reports "invalid" or lands on a node of the new tree with the
    same lineage label (in particular the forwarded path never dangles) -/
def NodeCoh (t t' : Tree) (fwd : Fwd) : Prop :=
  ∀ p n, t.get? p = some n →
    fwd (.node p) = .error .invalid ∨
    ∃ p' n', fwd (.node p) = .ok (.node p') ∧ t'.get? p' = some n' ∧ n'.label = n.label ∧
      (p ≠ [] → p' ≠ [])

/-- gap cursors: the gap is forwarded through its anchor, the type is kept -/
def GapCoh (fwd : Fwd) : Prop :=
  ∀ p ty,
    (∀ e, fwd (.node p) = .error e → fwd (.gap p ty) = .error e) ∧
    (∀ c, fwd (.node p) = .ok c → ∃ p', c = .node p' ∧ fwd (.gap p ty) = .ok (.gap p' ty))

/-- block cursors: forwarding reports "invalid" or yields a valid non-empty block of the new tree
    that covers exactly the forwards of the statements the old block covered -/
def BlockCohAt (t t' : Tree) (fwd : Fwd) (anchor : Path) (a : Attr) (lo hi : Nat) : Prop :=
  fwd (.block anchor a lo hi) = .error .invalid ∨
  ∃ anchor' a' lo' hi', fwd (.block anchor a lo hi) = .ok (.block anchor' a' lo' hi') ∧
    ValidBlock t' anchor' a' lo' hi' ∧
    ∀ q q', ValidNode t q → fwd (.node q) = .ok (.node q') →
      (Covers anchor' a' lo' hi' q' ↔ Covers anchor a lo hi q)

def BlockCoh (t t' : Tree) (fwd : Fwd) : Prop :=
  ∀ anchor a lo hi, ValidBlock t anchor a lo hi → BlockCohAt t t' fwd anchor a lo hi

/-- coherence of a forwarding function for `t ↦ t'` (statement and gap cursors) -/
structure Coherent (t t' : Tree) (fwd : Fwd) : Prop where
  node : NodeCoh t t' fwd
  gap : GapCoh fwd

/-- coherence including block cursors -/
structure CoherentB (t t' : Tree) (fwd : Fwd) : Prop extends Coherent t t' fwd where
  block : BlockCoh t t' fwd

/-- what the theorems conclude about a forwarded gap cursor of a coherent forwarding -/
theorem Coherent.gap_valid {t t' : Tree} {fwd : Fwd} (h : Coherent t t' fwd) {p : Path} {n : Tree}
    (ty : GapType) (hp : p ≠ []) (hn : t.get? p = some n) :
    fwd (.gap p ty) = .error .invalid ∨
    ∃ p' n', fwd (.gap p ty) = .ok (.gap p' ty) ∧ fwd (.node p) = .ok (.node p') ∧
      ValidCursor t' (.gap p' ty) ∧ t'.get? p' = some n' ∧ n'.label = n.label := by
  rcases h.node p n hn with hinv | ⟨p', n', hf, hg, hl, hne⟩
  · exact Or.inl ((h.gap p ty).1 _ hinv)
  · obtain ⟨p'', hc, hgap⟩ := (h.gap p ty).2 _ hf
    cases hc
    exact Or.inr ⟨p', n', hgap, hf, ⟨hne hp, by simp [ValidNode, hg]⟩, hg, hl⟩

end Exo.Cursor
