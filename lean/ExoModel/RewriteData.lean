/-
  ExoModel.RewriteData — shapes of the data-statement rewrites (what `DoSplitWrite`,
  `DoMergeWrites`, `DoFoldIntoReduce`, `DoLiftConstant`, `DoInlineAssign`, `DoRewriteExpr` of
  src/exo/rewrite/LoopIR_scheduling.py build once their checks have passed), as `Rw.Local`s.
  Literal mirrors, including what the Python does NOT check.
-/
import ExoModel.Rewrite
import ExoModel.AlphaEq

namespace Exo.Rw
open Exo

/-- `split_write`: `x[i] = a + b` ↦ `x[i] = a; x[i] += b`, `x[i] += a + b` ↦ `x[i] += a; x[i] += b`
    (the first statement keeps its class, the second is always a reduction) -/
def splitWrite : Local
  | .assign x idx (.binop .add a b) :: r => some (.assign x idx a :: .reduce x idx b :: r)
  | .reduce x idx (.binop .add a b) :: r => some (.reduce x idx a :: .reduce x idx b :: r)
  | _ => none

/-- `merge_writes` on two consecutive writes to the same name (`API_scheduling.merge_writes`
    requires equal names; that the indices denote the same cell is an SMT check): the first
    statement is deleted; if the second is a reduction it is replaced by the FIRST statement
    (its class and its index) with the two right-hand sides added -/
def mergeWrites : Local
  | .assign x i a :: .assign y j b :: r => if x = y then some (.assign y j b :: r) else none
  | .reduce x _ _ :: .assign y j b :: r => if x = y then some (.assign y j b :: r) else none
  | .assign x i a :: .reduce y _ b :: r =>
    if x = y then some (.assign x i (.binop .add a b) :: r) else none
  | .reduce x i a :: .reduce y _ b :: r =>
    if x = y then some (.reduce x i (.binop .add a b) :: r) else none
  | _ => none

/-- `fold_into_reduce`: `x[idx] = x[idx] + e` ↦ `x[idx] += e` (the Python compares the printed
    accesses; here: same symbol, alpha-equal index lists) -/
def foldIntoReduce : Local
  | .assign x idx (.binop .add (.read y idx') e) :: r =>
    if x = y && exprsEq' true [] [] idx idx' then some (.reduce x idx e :: r) else none
  | _ => none

/-! ### lift_reduce_constant -/

mutual
/-- the scaling factor of the first reduction to `x` in program order (`relevant_reduces[0]`) -/
def firstScaleS (x : Sym) : Stmt → Option Expr
  | .reduce y _ (.binop .mul c _) => if y = x then some c else none
  | .ite _ t e => match firstScaleL x t with
      | some c => some c
      | none => firstScaleL x e
  | .loop _ _ _ b _ => firstScaleL x b
  | _ => none
def firstScaleL (x : Sym) : List Stmt → Option Expr
  | [] => none
  | s :: r => match firstScaleS x s with
      | some c => some c
      | none => firstScaleL x r
end

mutual
/-- every reduction `x[..] += c * e` to the name `x` becomes `x[..] += e`, at any depth of loops
    and branches -/
def stripScaleS (x : Sym) : Stmt → Stmt
  | .reduce y idx (.binop .mul c e) => if y = x then .reduce y idx e else .reduce y idx (.binop .mul c e)
  | .ite c t e => .ite c (stripScaleL x t) (stripScaleL x e)
  | .loop i lo hi b par => .loop i lo hi (stripScaleL x b) par
  | s => s
def stripScaleL (x : Sym) : List Stmt → List Stmt
  | [] => []
  | s :: r => stripScaleS x s :: stripScaleL x r
end

/-- `lift_reduce_constant` on the block (first statement, loop): the scaled reductions of the
    loop lose their factor `c`, and a copy of the FIRST statement with right-hand side
    `c * x[idx]` is inserted after the loop.  The Python never looks at the right-hand side of
    the first statement, nor at whether it is an assignment or a reduction. -/
def liftConstant : Local
  | .assign x idx rhs0 :: .loop i lo hi body par :: r =>
    (firstScaleL x body).map (fun c =>
      .assign x idx rhs0 :: .loop i lo hi (stripScaleL x body) par ::
        .assign x idx (.binop .mul c (.read x idx)) :: r)
  | .reduce x idx rhs0 :: .loop i lo hi body par :: r =>
    (firstScaleL x body).map (fun c =>
      .reduce x idx rhs0 :: .loop i lo hi (stripScaleL x body) par ::
        .reduce x idx (.binop .mul c (.read x idx)) :: r)
  -- the Python never checks that the second statement IS a loop: `loop.body` of an `if` is its
  -- `then` block (the `else` block is not looked at)
  | .assign x idx rhs0 :: .ite cnd t e :: r =>
    (firstScaleL x t).map (fun c =>
      .assign x idx rhs0 :: .ite cnd (stripScaleL x t) e ::
        .assign x idx (.binop .mul c (.read x idx)) :: r)
  | .reduce x idx rhs0 :: .ite cnd t e :: r =>
    (firstScaleL x t).map (fun c =>
      .reduce x idx rhs0 :: .ite cnd (stripScaleL x t) e ::
        .reduce x idx (.binop .mul c (.read x idx)) :: r)
  | _ => none

/-! ### inline_assign -/

mutual
/-- equality of expressions in which symbols are compared by NAME only: how a pattern built from
    the printed text `x[idx]` matches (`_replace_pats(…, use_sym_id=False)`) -/
def exprEqN : Expr → Expr → Bool
  | .read x i, .read y j => x.name == y.name && exprsEqN i j
  | .lit a, .lit b => a == b
  | .usub a, .usub b => exprEqN a b
  | .binop o a b, .binop o' a' b' => o == o' && exprEqN a a' && exprEqN b b'
  | .extern f a, .extern g b => f == g && exprsEqN a b
  | .win x a, .win y b => x.name == y.name && waccsEqN a b
  | .stride x d, .stride y d' => x.name == y.name && d == d'
  | .readcfg c f, .readcfg c' f' => c == c' && f == f'
  | _, _ => false
def exprsEqN : List Expr → List Expr → Bool
  | [], [] => true
  | a :: r, b :: r' => exprEqN a b && exprsEqN r r'
  | _, _ => false
def waccEqN : WAcc → WAcc → Bool
  | .point a, .point b => exprEqN a b
  | .interval a b, .interval a' b' => exprEqN a a' && exprEqN b b'
  | _, _ => false
def waccsEqN : List WAcc → List WAcc → Bool
  | [], [] => true
  | a :: r, b :: r' => waccEqN a b && waccsEqN r r'
  | _, _ => false
end

mutual
/-- replace the reads that MATCH THE PRINTED TEXT `x[idx]` (symbols compared by name, in the
    buffer and in the index: the recorded finding about `inline_assign` and shadowing names) by
    `e`, in a data-position expression -/
def inlineE (x : Sym) (idx : List Expr) (e : Expr) : Expr → Expr
  | .read y jdx =>
    if y.name = x.name && exprsEqN idx jdx then e else .read y jdx
  | .usub a => .usub (inlineE x idx e a)
  | .binop op a b => .binop op (inlineE x idx e a) (inlineE x idx e b)
  | .extern f args => .extern f (inlineEs x idx e args)
  | a => a
def inlineEs (x : Sym) (idx : List Expr) (e : Expr) : List Expr → List Expr
  | [] => []
  | a :: r => inlineE x idx e a :: inlineEs x idx e r
end

mutual
/-- … in the data positions of a statement (right-hand sides; data configuration writes) -/
def inlineS (x : Sym) (idx : List Expr) (e : Expr) : Stmt → Stmt
  | .assign y jdx rhs => .assign y jdx (inlineE x idx e rhs)
  | .reduce y jdx rhs => .reduce y jdx (inlineE x idx e rhs)
  | .writecfg c f rhs true => .writecfg c f (inlineE x idx e rhs) true
  | .ite c t el => .ite c (inlineL x idx e t) (inlineL x idx e el)
  | .loop i lo hi b par => .loop i lo hi (inlineL x idx e b) par
  | s => s
def inlineL (x : Sym) (idx : List Expr) (e : Expr) : List Stmt → List Stmt
  | [] => []
  | s :: r => inlineS x idx e s :: inlineL x idx e r
end

/-- `inline_assign`: the assignment is deleted and its right-hand side substituted for the reads
    `x[idx]` in the REST OF THE BLOCK (nothing outside the block is looked at) -/
def inlineAssign : Local
  | .assign x idx e :: r => some (inlineL x idx e r)
  | _ => none

/-- the same when the assignment was the ONLY statement of its block: the cursor machinery
    leaves a `pass` in a block that would become empty -/
def inlineAssignOnly : Local
  | [.assign _ _ _] => some [.pass]
  | _ => none

/-! ### rewrite_expr -/

/-- `rewrite_expr` replaces one expression inside one statement.  The new expression is read
    off the output: `s'` is the output statement; the model keeps the symbols and the nested
    blocks of the input statement and takes the top-level expressions of `s'` -/
def rewriteExprWith (s' : Stmt) : Local
  | .assign x _ _ :: r => match s' with
      | .assign _ idx' rhs' => some (.assign x idx' rhs' :: r)
      | _ => none
  | .reduce x _ _ :: r => match s' with
      | .reduce _ idx' rhs' => some (.reduce x idx' rhs' :: r)
      | _ => none
  | .writecfg c f _ d :: r => match s' with
      | .writecfg _ _ rhs' _ => some (.writecfg c f rhs' d :: r)
      | _ => none
  | .ite _ t e :: r => match s' with
      | .ite c' _ _ => some (.ite c' t e :: r)
      | _ => none
  | .loop i _ _ b par :: r => match s' with
      | .loop _ lo' hi' _ _ => some (.loop i lo' hi' b par :: r)
      | _ => none
  | .alloc x _ :: r => match s' with
      | .alloc _ sh' => some (.alloc x sh' :: r)
      | _ => none
  | .call f _ :: r => match s' with
      | .call _ args' => some (.call f args' :: r)
      | _ => none
  | .window x _ :: r => match s' with
      | .window _ rhs' => some (.window x rhs' :: r)
      | _ => none
  | _ => none

/-! ### commute_expr / left_reassociate_expr (data expressions only: the API rejects index
    expressions) -/

mutual
/-- `e'` is `e` with the operands of exactly ONE `+` or `*` node swapped -/
def commuteOnce : Expr → Expr → Bool
  | .binop o a b, .binop o' a' b' =>
    o == o' &&
      (((o == .add || o == .mul) && exprEq' false [] [] a b' && exprEq' false [] [] b a')
        || (commuteOnce a a' && exprEq' false [] [] b b')
        || (exprEq' false [] [] a a' && commuteOnce b b'))
  | .usub a, .usub a' => commuteOnce a a'
  | .extern f as, .extern g bs => f == g && commuteOnceL as bs
  | _, _ => false
def commuteOnceL : List Expr → List Expr → Bool
  | a :: r, b :: r' =>
    (commuteOnce a b && exprsEq' false [] [] r r') || (exprEq' false [] [] a b && commuteOnceL r r')
  | _, _ => false
end

mutual
/-- `e'` is `e` with exactly ONE node `a op (b op c)` (`op` = `+` or `*`) turned into
    `(a op b) op c` -/
def reassocOnce : Expr → Expr → Bool
  | .binop o a b, .binop o' a' b' =>
    o == o' &&
      ((match b, a' with
        | .binop o2 b1 c1, .binop o3 a2 b2 =>
          (o == .add || o == .mul) && o2 == o && o3 == o && exprEq' false [] [] a a2 &&
            exprEq' false [] [] b1 b2 && exprEq' false [] [] c1 b'
        | _, _ => false)
        || (reassocOnce a a' && exprEq' false [] [] b b')
        || (exprEq' false [] [] a a' && reassocOnce b b'))
  | .usub a, .usub a' => reassocOnce a a'
  | .extern f as, .extern g bs => f == g && reassocOnceL as bs
  | _, _ => false
def reassocOnceL : List Expr → List Expr → Bool
  | a :: r, b :: r' =>
    (reassocOnce a b && exprsEq' false [] [] r r') || (exprEq' false [] [] a b && reassocOnceL r r')
  | _, _ => false
end

/-- the model of a rewrite inside one data right-hand side: the input statement with the
    right-hand side of the output statement `s'`, provided the two are related by `P` -/
def dataRhsWith (P : Expr → Expr → Bool) (s' : Stmt) : Local
  | .assign x idx rhs :: r => match s' with
      | .assign _ _ rhs' => if P rhs rhs' then some (.assign x idx rhs' :: r) else none
      | _ => none
  | .reduce x idx rhs :: r => match s' with
      | .reduce _ _ rhs' => if P rhs rhs' then some (.reduce x idx rhs' :: r) else none
      | _ => none
  | .writecfg c f rhs true :: r => match s' with
      | .writecfg _ _ rhs' _ => if P rhs rhs' then some (.writecfg c f rhs' true :: r) else none
      | _ => none
  | _ => none

def commuteExprWith (s' : Stmt) : Local := dataRhsWith commuteOnce s'
def reassocExprWith (s' : Stmt) : Local := dataRhsWith reassocOnce s'

/-! ### divide_with_recompute -/

/-- `N_before_recompute`: `E - E % q` when the outer bound is literally `E / q`, else `ohi * q` -/
def nBeforeRecompute (ohi : Expr) (q : Int) : Expr :=
  match ohi with
  | .binop .div E (.lit (.int q')) =>
    if q' = q then .binop .sub E (.binop .mod E (.lit (.int q))) else .binop .mul ohi (.lit (.int q))
  | _ => .binop .mul ohi (.lit (.int q))

/-- `divide_with_recompute` (`DoDivideWithRecompute`): `for i in [lo, hi): B` ↦
    `for io in [lo, ohi): for ii in [0, q + (hi - N_before)): B[i ↦ io * q + ii]`.  The lower bound of
    the loop is KEPT as the lower bound of the outer loop (nothing requires it to be 0); the inner
    loop is sequential. -/
def divideWithRecompute (io ii : Sym) (ohi : Expr) (q : Int) : Local
  | .loop i lo hi b par :: r =>
    some (.loop io lo ohi
      [.loop ii (.lit (.int 0))
        (.binop .add (.lit (.int q)) (.binop .sub hi (nBeforeRecompute ohi q)))
        (substL i (.binop .add (.binop .mul (.read io []) (.lit (.int q))) (.read ii [])) b) false]
      par :: r)
  | _ => none

end Exo.Rw
