/-
  ExoModel.RewriteStorage — executable models of the *shape* of the storage-related scheduling
  rewrites (what `DoLiftAllocSimple`, `DoSinkAlloc`, `DoDeleteBuffer`, `DoDeletePass`,
  `DoExpandDim`, `DoBindExpr` in src/exo/rewrite/LoopIR_scheduling.py build once their checks have
  passed).  Same conventions as ExoModel.Rewrite: a `Local` sees the block suffix that starts at
  the addressed statement; free parameters (fresh names, parsed expressions) are passed in.

  The property theorems of Props/C01Storage.lean are statements about exactly these shapes.
-/
import ExoModel.Rewrite
import ExoModel.RewriteReindex
import ExoModel.RewriteStage

namespace Exo.Rw
open Exo

/-- `Block._delete` (internal_cursors.py): a block that becomes empty is filled with `pass` -/
def fillPass (ss : List Stmt) : List Stmt := if ss.isEmpty then [.pass] else ss

/-- remove the statement at a relative address (`Block._delete` of a one-statement block);
    the first step indexes `ss`, every later step enters a child block of the selected statement.
    Returns the removed statement and the edited block (the block the statement is removed from is
    filled with `pass` if it becomes empty — but only that block, and not the outermost one, which
    the caller sees only as a suffix). -/
def removeAt : Path → List Stmt → Option (Stmt × List Stmt)
  | [], _ => none
  | [st], ss =>
    match ss[st.idx]? with
    | some s => some (s, ss.eraseIdx st.idx)
    | none => none
  | st :: nxt :: rest, ss =>
    match ss[st.idx]? with
    | some (.loop i lo hi b par) =>
      match nxt with
      | .body _ => (removeAt (nxt :: rest) b).map (fun (s, b') =>
          (s, ss.set st.idx (.loop i lo hi (if rest.isEmpty then fillPass b' else b') par)))
      | .orelse _ => none
    | some (.ite c t e) =>
      match nxt with
      | .body _ => (removeAt (nxt :: rest) t).map (fun (s, t') =>
          (s, ss.set st.idx (.ite c (if rest.isEmpty then fillPass t' else t') e)))
      | .orelse _ => (removeAt (nxt :: rest) e).map (fun (s, e') =>
          (s, ss.set st.idx (.ite c t (if rest.isEmpty then fillPass e' else e'))))
    | _ => none

/-- `lift_alloc(alloc, n_lifts)` (`DoLiftAllocSimple`): the suffix starts at the scope statement
    `n_lifts` levels above the allocation; `rel` is the address of the allocation relative to that
    statement (`rel = .body 0 :: …` / `.orelse 0 :: …` with the first index ignored: it addresses the
    scope statement itself, which is the head of the suffix; `rel.length = n_lifts + 1`).
    The allocation is moved in front of the scope statement. -/
def liftAlloc (rel : Path) : Local
  | s :: r =>
    match rel with
    | _ :: nxt :: rest =>
      match removeAt (.body 0 :: nxt :: rest) [s] with
      | some (.alloc x sh, [s']) => some (.alloc x sh :: s' :: r)
      | _ => none
    | _ => none
  | [] => none

/-- `sink_alloc` (`DoSinkAlloc`): the allocation directly in front of a `for`/`if` is moved to the
    head of the loop body / `then` branch; a non-empty `else` branch gets a copy of the allocation
    under a fresh name `x'` (`Alpha_Rename([alloc_stmt])` — the branch's statements are NOT renamed) -/
def sinkAlloc (x' : Sym) : Local
  | .alloc x sh :: .loop i lo hi b par :: r => some (.loop i lo hi (.alloc x sh :: b) par :: r)
  | .alloc x sh :: .ite c t e :: r =>
    some (.ite c (.alloc x sh :: t) (if e.isEmpty then [] else .alloc x' sh :: e) :: r)
  | _ => none

/-- `delete_buffer` (`DoDeleteBuffer`): the allocation is deleted; `fill` = the allocation was the
    only statement of its block (the block is then `[pass]`) -/
def deleteBuffer (fill : Bool) : Local
  | .alloc _ _ :: r => some (if fill && r.isEmpty then [.pass] else r)
  | _ => none

mutual
/-- `delete_pass` (`DoDeletePass`) on one statement: `none` = the statement disappears (a `pass`, or
    a `for` whose body disappears entirely); branches of an `if` that become empty are refilled
    with `pass` by `Block._delete`, except an `else` branch that was empty from the start -/
def deletePassS : Stmt → Option Stmt
  | .pass => none
  | .loop i lo hi b par =>
    match deletePassL b with
    | [] => none
    | b' => some (.loop i lo hi b' par)
  | .ite c t e => some (.ite c (fillPass (deletePassL t)) (if e.isEmpty then [] else fillPass (deletePassL e)))
  | s => some s
def deletePassL : List Stmt → List Stmt
  | [] => []
  | s :: r =>
    match deletePassS s with
    | none => deletePassL r
    | some s' => s' :: deletePassL r
end

/-- `delete_pass` on a procedure body -/
def deletePass (body : List Stmt) : List Stmt := fillPass (deletePassL body)

/-! ### expand_dim

`DoExpandDim` prepends the new extent to the allocation's shape and then, for every statement `c`
that follows the allocation in its block, runs `_replace_reads(c, x, mk_read)` and
`_replace_writes(c, x, mk_write)`:
* `_replace_reads` collects `match_pattern(c, "x[_]", use_sym_id=True)`: every `Read` of `x`
  (any number of indices, also none) and every `WindowExpr` of `x`, anywhere below `c`
  (`_children` in pattern_match.py visits: `idx`/`rhs` of assignments and reductions, `rhs` of
  config writes and window statements, `cond` of `if`, `lo`/`hi` of `for`, `args` of calls, all
  sub-expressions; NOT the extents of allocations, NOT `free`).  `StrideExpr` is not matched:
  `stride(x, d)` keeps its dimension number.
* a `Read` becomes `x[e, idx…]`, a `WindowExpr` becomes `x[e, acc…]` (a point access);
  `mk_read` raises `SchedulingError` when a matched `Read` without indices is directly an
  argument of a call.
* `_replace_writes`: every `Assign`/`Reduce` to `x` becomes `x[e, idx…]`.
There is no stopping condition: symbols are unique, every later occurrence in the block is hit.
(An occurrence of `x` inside the index list of an access to `x` cannot be typed — indices are
control expressions — ; the model rewrites it as well, the real code would fail forwarding.) -/

mutual
def expandE (x : Sym) (e : Expr) : Expr → Expr
  | .read y idx => .read y (if y == x then e :: expandEs x e idx else expandEs x e idx)
  | .lit c => .lit c
  | .usub a => .usub (expandE x e a)
  | .binop o a b => .binop o (expandE x e a) (expandE x e b)
  | .extern f args => .extern f (expandEs x e args)
  | .win y acc => .win y (if y == x then .point e :: expandWs x e acc else expandWs x e acc)
  | .stride y d => .stride y d
  | .readcfg c f => .readcfg c f
def expandEs (x : Sym) (e : Expr) : List Expr → List Expr
  | [] => []
  | a :: r => expandE x e a :: expandEs x e r
def expandW (x : Sym) (e : Expr) : WAcc → WAcc
  | .interval a b => .interval (expandE x e a) (expandE x e b)
  | .point a => .point (expandE x e a)
def expandWs (x : Sym) (e : Expr) : List WAcc → List WAcc
  | [] => []
  | w :: r => expandW x e w :: expandWs x e r
end

mutual
def expandS (x : Sym) (e : Expr) : Stmt → Stmt
  | .assign y idx rhs =>
    .assign y (if y == x then e :: expandEs x e idx else expandEs x e idx) (expandE x e rhs)
  | .reduce y idx rhs =>
    .reduce y (if y == x then e :: expandEs x e idx else expandEs x e idx) (expandE x e rhs)
  | .writecfg c f rhs d => .writecfg c f (expandE x e rhs) d
  | .pass => .pass
  | .ite c t el => .ite (expandE x e c) (expandL x e t) (expandL x e el)
  | .loop i lo hi b par => .loop i (expandE x e lo) (expandE x e hi) (expandL x e b) par
  | .alloc y sh => .alloc y sh
  | .free y => .free y
  | .call f args => .call f (expandEs x e args)
  | .window y rhs => .window y (expandE x e rhs)
def expandL (x : Sym) (e : Expr) : List Stmt → List Stmt
  | [] => []
  | s :: r => expandS x e s :: expandL x e r
end

/-- some call argument is the bare name `x` (a `Read` without indices whose parent is the call) -/
def passesWhole (x : Sym) : List Expr → Bool
  | [] => false
  | .read y [] :: r => y == x || passesWhole x r
  | _ :: r => passesWhole x r

mutual
def wholeArgS (x : Sym) : Stmt → Bool
  | .call _ args => passesWhole x args
  | .ite _ t el => wholeArgL x t || wholeArgL x el
  | .loop _ _ _ b _ => wholeArgL x b
  | _ => false
def wholeArgL (x : Sym) : List Stmt → Bool
  | [] => false
  | s :: r => wholeArgS x s || wholeArgL x r
end

/-- `expand_dim(alloc, n, e)` (`DoExpandDim`) -/
def expandDim (n e : Expr) : Local
  | .alloc x sh :: r =>
    if wholeArgL x r then none else some (.alloc x (n :: sh) :: expandL x e r)
  | _ => none

/-! ### bind_expr

`DoBindExpr(t, [cursor])` with ONE expression cursor (what the stream issues): in front of the
statement `s` that contains the expression `e` the real code inserts `t : <basetype of e>` and
`t = e`, then replaces that one occurrence of `e` in `s` by `t`.  (`s` is never a `for`/`if`: a
numeric expression cannot sit in a bound or a condition, so the early exits of the replacement
loop cannot fire before the single cursor has been replaced.)  With several cursors the real code
goes on through the following statements of the block until the first write to a buffer `e`
reads; that is not modelled.

`s'` (the statement after replacement) is a parameter, constrained by `replS`: `s'` is `s` with
some numeric sub-expressions equal to `e` replaced by `t`. -/

mutual
/-- `a'` is `a` with some occurrences of `e` (in data position) replaced by `read t []` -/
def replE (t : Sym) (e : Expr) : Expr → Expr → Bool
  | .usub a, .usub a' => replE t e a a'
  | .binop o a b, .binop o' a' b' => o == o' && replE t e a a' && replE t e b b'
  | .extern f xs, .extern g ys => f == g && replEs t e xs ys
  | a, .read y [] => (y == t && exprEq [] a e) || exprEq [] a (.read y [])
  | a, a' => exprEq [] a a'
def replEs (t : Sym) (e : Expr) : List Expr → List Expr → Bool
  | [], [] => true
  | a :: r, a' :: r' => replE t e a a' && replEs t e r r'
  | _, _ => false
end

def replS (t : Sym) (e : Expr) : Stmt → Stmt → Bool
  | .assign x i a, .assign x' i' a' => x == x' && exprsEq [] i i' && replE t e a a'
  | .reduce x i a, .reduce x' i' a' => x == x' && exprsEq [] i i' && replE t e a a'
  | .writecfg c f a d, .writecfg c' f' a' d' => c == c' && f == f' && d == d' && replE t e a a'
  | .call p xs, .call q ys => procEq p q && replEs t e xs ys
  | _, _ => false

/-- `bind_expr([cursor], t)` (`DoBindExpr`, one cursor) -/
def bindExpr (t : Sym) (e : Expr) (s' : Stmt) : Local
  | s :: r => if replS t e s s' then some (.alloc t [] :: .assign t [] e :: s' :: r) else none
  | [] => none

/-! ### the dimension rewrites: divide_dim, mult_dim, rearrange_dim, resize_dim, unroll_buffer

All five walk `get_rest_of_block(alloc_cursor)` and run `_replace_reads` / `_replace_writes` on every
statement that follows the allocation (same traversal as `expand_dim` above: every `Read` and every
`WindowExpr` of the buffer anywhere below — index lists, right-hand sides, conditions, bounds, call
arguments —, every `Assign` / `Reduce` whose target is the buffer; NOT extents of later allocations,
NOT `free`; `StrideExpr` only by `DoRearrangeDim`, through `_replace_pats "stride(x, _)"`).
The generic re-indexing is `reidxL` / `reindexDim` of ExoModel.RewriteReindex; here are the
conditions under which the real `mk_read` / `mk_write` callbacks (or the wrappers in
API_scheduling.py) raise, and the five `Local`s. -/

mutual
/-- some access to `x` below the expression: a `Read` of `x` whose index tuple satisfies `pr`, a
    window expression of `x` whose coordinates satisfy `pw`, a `stride(x, d)` with `ps d` -/
def anyAccE (x : Sym) (pr : List Expr → Bool) (pw : List WAcc → Bool) (ps : Nat → Bool) : Expr → Bool
  | .read y idx => (y == x && pr idx) || anyAccEs x pr pw ps idx
  | .lit _ => false
  | .usub a => anyAccE x pr pw ps a
  | .binop _ a b => anyAccE x pr pw ps a || anyAccE x pr pw ps b
  | .extern _ args => anyAccEs x pr pw ps args
  | .win y acc => (y == x && pw acc) || anyAccWs x pr pw ps acc
  | .stride y d => y == x && ps d
  | .readcfg _ _ => false
def anyAccEs (x : Sym) (pr : List Expr → Bool) (pw : List WAcc → Bool) (ps : Nat → Bool) : List Expr → Bool
  | [] => false
  | a :: r => anyAccE x pr pw ps a || anyAccEs x pr pw ps r
def anyAccW (x : Sym) (pr : List Expr → Bool) (pw : List WAcc → Bool) (ps : Nat → Bool) : WAcc → Bool
  | .interval a b => anyAccE x pr pw ps a || anyAccE x pr pw ps b
  | .point a => anyAccE x pr pw ps a
def anyAccWs (x : Sym) (pr : List Expr → Bool) (pw : List WAcc → Bool) (ps : Nat → Bool) : List WAcc → Bool
  | [] => false
  | w :: r => anyAccW x pr pw ps w || anyAccWs x pr pw ps r
end

mutual
/-- the same over statements; the target of an `assign` / `reduce` to `x` counts as an index tuple
    (`mk_write` does to `s.idx` what `mk_read` does to `rd.idx`) -/
def anyAccS (x : Sym) (pr : List Expr → Bool) (pw : List WAcc → Bool) (ps : Nat → Bool) : Stmt → Bool
  | .assign y idx rhs => (y == x && pr idx) || anyAccEs x pr pw ps idx || anyAccE x pr pw ps rhs
  | .reduce y idx rhs => (y == x && pr idx) || anyAccEs x pr pw ps idx || anyAccE x pr pw ps rhs
  | .writecfg _ _ rhs _ => anyAccE x pr pw ps rhs
  | .pass => false
  | .ite c t el => anyAccE x pr pw ps c || anyAccL x pr pw ps t || anyAccL x pr pw ps el
  | .loop _ lo hi b _ => anyAccE x pr pw ps lo || anyAccE x pr pw ps hi || anyAccL x pr pw ps b
  | .alloc _ _ => false
  | .free _ => false
  | .call _ args => anyAccEs x pr pw ps args
  | .window _ rhs => anyAccE x pr pw ps rhs
def anyAccL (x : Sym) (pr : List Expr → Bool) (pw : List WAcc → Bool) (ps : Nat → Bool) : List Stmt → Bool
  | [] => false
  | s :: r => anyAccS x pr pw ps s || anyAccL x pr pw ps r
end

/-- some call argument is directly a `Read` (with or without indices) or a window expression of `x`
    (`isinstance(c.parent()._node, LoopIR.Call)` in `DoRearrangeDim.mk_read`) -/
def passesAcc (x : Sym) : List Expr → Bool
  | [] => false
  | .read y _ :: r => y == x || passesAcc x r
  | .win y _ :: r => y == x || passesAcc x r
  | _ :: r => passesAcc x r

mutual
def argAccS (x : Sym) : Stmt → Bool
  | .call _ args => passesAcc x args
  | .ite _ t el => argAccL x t || argAccL x el
  | .loop _ _ _ b _ => argAccL x b
  | _ => false
def argAccL (x : Sym) : List Stmt → Bool
  | [] => false
  | s :: r => argAccS x s || argAccL x r
end

/-- `divide_dim(alloc, d, q)` (`DoDivideDim`).  Raises — model `none` —:
    * wrapper: `d` out of range (`ValueError`; a scalar buffer has no dimension), `q` not a positive int;
    * `Check_IsDivisible`, fast path: the extent is a literal not divisible by `q` (a symbolic extent
      goes to the SMT analysis, which is not part of the shape);
    * `mk_read`: a `Read` of the buffer without indices (`SchedulingError`), ANY window expression of
      the buffer (`SchedulingError`); an index tuple shorter than `d + 1` (`IndexError`, ill-typed
      input only).
    `stride(x, _)` is not touched. -/
def divideDim (d : Nat) (q : Int) : Local
  | .alloc x sh :: r =>
    if d < sh.length && decide (0 < q) then
      let nondiv : Bool := match sh[d]? with
        | some (.lit (.int n)) => n % q != 0
        | _ => false
      if nondiv then none
      else if anyAccL x (fun idx => decide (idx.length ≤ d)) (fun _ => true) (fun _ => false) r then none
      else reindexDim (divideShape d q sh) ⟨divideIdx d q, id, id⟩ (.alloc x sh :: r)
    else none
  | _ => none

/-- `mult_dim(alloc, hi, lo)` (`DoMultiplyDim`).  Raises — model `none` —:
    * wrapper: `hi` or `lo` out of range, `hi = lo` (`ValueError`);
    * the extent of dimension `lo` is not a literal (`SchedulingError`);
    * `mk_read`: a `Read` without indices, ANY window expression of the buffer; an index tuple too short.
    The constant of the flattening `c * idx[hi] + idx[lo]` is the LITERAL extent of dimension `lo`,
    whatever the order / adjacency of `hi` and `lo`.  `stride(x, _)` is not touched. -/
def multDim (hi lo : Nat) : Local
  | .alloc x sh :: r =>
    if hi < sh.length && lo < sh.length && hi != lo then
      match sh[lo]? with
      | some (.lit (.int c)) =>
        if anyAccL x (fun idx => decide (idx.length ≤ max hi lo)) (fun _ => true) (fun _ => false) r
        then none
        else reindexDim (multShape hi lo sh) ⟨multIdx hi lo c, id, id⟩ (.alloc x sh :: r)
      | _ => none
    else none
  | _ => none

/-- `list(range(0, N)) == sorted(permute_vector)` -/
def isPermVec (perm : List Nat) (n : Nat) : Bool :=
  perm.length == n && (List.range n).all (fun i => perm.contains i)

def ascending : List Nat → Bool
  | a :: b :: r => decide (a ≤ b) && ascending (b :: r)
  | _ => true

/-- `check_permute_window`: the dimensions that stay intervals must keep their relative order -/
def winStable (perm : List Nat) (acc : List WAcc) : Bool :=
  ascending (perm.filter (fun i => match acc[i]? with | some (.interval _ _) => true | _ => false))

/-- `rearrange_dim(alloc, perm)` (`DoRearrangeDim` on an allocation).  Raises — model `none` —:
    * wrapper: `perm` is not a permutation of `0 … N-1` (`ValueError`); scalar buffer (`AttributeError`);
    * `mk_read`: a `Read` or window expression of the buffer that is directly an argument of a call
      (`SchedulingError`, tested first, whatever the indices);
    * a window expression that fails the stability criterion (`SchedulingError`);
    * an index tuple / coordinate list shorter than `N`, a `stride(x, d)` with `d ≥ N`
      (`IndexError` / `ValueError`; ill-typed input only).
    This is the only one of the four that renumbers `stride(x, d)` (to `perm.index(d)`). -/
def rearrangeDim (perm : List Nat) : Local
  | .alloc x sh :: r =>
    if sh.isEmpty || !isPermVec perm sh.length then none
    else if argAccL x r then none
    else if anyAccL x (fun idx => decide (idx.length < sh.length))
        (fun acc => decide (acc.length < sh.length) || !winStable perm acc)
        (fun d => decide (sh.length ≤ d)) r then none
    else reindexDim (permList perm sh) ⟨permList perm, permList perm, permDim perm⟩ (.alloc x sh :: r)
  | _ => none

/-- `resize_dim(alloc, d, size, offset, fold=False)` (`DoResizeDim`).  Raises — model `none` —:
    * scalar buffer (`assert`), `d` out of range (`IndexError` from the cursor into `type.hi`);
    * `mk_read` / `mk_write`: an index tuple / coordinate list shorter than `d + 1` — in particular
      a `Read` without indices (the whole buffer passed to a call): `IndexError`.
    Window expressions ARE supported (point and both ends of an interval get `- offset`).
    `Check_IsPositiveExpr(size)` and `Check_Bounds` are analyses, not part of the shape.
    `stride(x, _)` is not touched. -/
def resizeDim (d : Nat) (size off : Expr) : Local
  | .alloc x sh :: r =>
    if d < sh.length then
      if anyAccL x (fun idx => decide (idx.length ≤ d)) (fun acc => decide (acc.length ≤ d))
          (fun _ => false) r then none
      else reindexDim (resizeShape d size sh) ⟨resizeIdx d off, resizeWin d off, id⟩ (.alloc x sh :: r)
    else none
  | _ => none

/-! #### unroll_buffer

`DoUnrollBuffer(alloc, d)`: the extent of dimension `d` must be a literal `n`; the real code makes
`n` fresh symbols `x_0 … x_{n-1}`, rewrites every access `x[…, k, …]` (`k` a literal at position
`d`; also window expressions with a literal POINT at position `d`) into `x_k[…]` (index `d`
deleted), collects the `k`s in a Python `set` (`used_allocs`) and finally REPLACES the allocation
by one allocation per element of the set, in the iteration order of the set.  The set is filled in
this order: for every statement `c` of the rest of the block, first all reads below `c` (pre-order
of `_children`: `idx` before `rhs`, `cond`/`lo`/`hi` before bodies, `body` before `orelse`), then
the targets of all `Assign`s below `c`, then the targets of all `Reduce`s below `c`.

The iteration order of a CPython `set` of small non-negative ints (hash = value) is the order of
the slots of its open-addressing table; `pySetOrder` replays `set_add_entry` / `set_table_resize`
of Objects/setobject.c (CPython 3.12: table of 8 slots, slot `h & mask`, `LINEAR_PROBES = 9`
linear probes when they fit below the end of the table, then `perturb >>= 5;
i = (i*5 + 1 + perturb) & mask`; after an insertion that makes `fill*5 ≥ mask*3` the table is
rebuilt with the smallest power of two `> 4*used` slots, re-inserting in old slot order).  For
extents `≤ 8` this is ascending order; for larger extents it is not (`{9, 1}` iterates as 9, 1). -/

/-- first slot of the probe sequence of `key` that is empty or holds `key` -/
def pyProbe (tbl : Array (Option Nat)) (mask key : Nat) : Nat → Nat → Nat → Option Nat
  | 0, _, _ => none
  | fuel + 1, i, perturb =>
    let probes := if i + 9 ≤ mask then 9 else 0
    match (List.range (probes + 1)).find? (fun j =>
        match tbl[i + j]? with
        | some none => true
        | some (some k) => k == key
        | none => false) with
    | some j => some (i + j)
    | none =>
      let perturb := perturb / 32
      pyProbe tbl mask key fuel ((i * 5 + 1 + perturb) % (mask + 1)) perturb

def pyInsert (tbl : Array (Option Nat)) (key : Nat) : Array (Option Nat) :=
  match pyProbe tbl (tbl.size - 1) key (4 * tbl.size + 64) (key % tbl.size) key with
  | some s => tbl.set! s (some key)
  | none => tbl

/-- smallest power of two (≥ 8) greater than `minused`; `fuel` bounds the doubling -/
def pyNewSize (minused : Nat) : Nat → Nat → Nat
  | 0, sz => sz
  | fuel + 1, sz => if sz ≤ minused then pyNewSize minused fuel (sz * 2) else sz

/-- `set.add(key)` on (table, fill) -/
def pySetAdd (st : Array (Option Nat) × Nat) (key : Nat) : Array (Option Nat) × Nat :=
  let (tbl, fill) := st
  let mask := tbl.size - 1
  match pyProbe tbl mask key (4 * tbl.size + 64) (key % tbl.size) key with
  | none => st
  | some s =>
    match tbl[s]? with
    | some (some _) => st
    | _ =>
      let tbl := tbl.set! s (some key)
      let fill := fill + 1
      if fill * 5 < mask * 3 then (tbl, fill)
      else
        let newsize := pyNewSize (fill * 4) 64 8
        let fresh : Array (Option Nat) := Array.replicate newsize none
        ((tbl.toList.filterMap id).foldl pyInsert fresh, fill)

/-- iteration order of the Python set obtained by adding `ks` one after the other to `set()` -/
def pySetOrder (ks : List Nat) : List Nat :=
  ((ks.foldl pySetAdd (Array.replicate 8 none, 0)).1.toList).filterMap id

/-- literal at position `d` of an index tuple (`none`: `mk_read` / `mk_write` raises) -/
def litAt (d : Nat) (idx : List Expr) : Option Nat :=
  match idx[d]? with
  | some (.lit (.int k)) => if 0 ≤ k then some k.toNat else none
  | _ => none
/-- literal point at position `d` of a window expression -/
def wlitAt (d : Nat) (acc : List WAcc) : Option Nat :=
  match acc[d]? with
  | some (.point (.lit (.int k))) => if 0 ≤ k then some k.toNat else none
  | _ => none

mutual
/-- the `used_allocs.add(…)` calls of `mk_read` below an expression, in the order of
    `match_pattern` (node before children); `none` = `mk_read` raises there -/
def usedE (x : Sym) (d : Nat) : Expr → List (Option Nat)
  | .read y idx => (if y == x then [litAt d idx] else []) ++ usedEs x d idx
  | .lit _ => []
  | .usub a => usedE x d a
  | .binop _ a b => usedE x d a ++ usedE x d b
  | .extern _ args => usedEs x d args
  | .win y acc => (if y == x then [wlitAt d acc] else []) ++ usedWs x d acc
  | .stride _ _ => []
  | .readcfg _ _ => []
def usedEs (x : Sym) (d : Nat) : List Expr → List (Option Nat)
  | [] => []
  | a :: r => usedE x d a ++ usedEs x d r
def usedW (x : Sym) (d : Nat) : WAcc → List (Option Nat)
  | .interval a b => usedE x d a ++ usedE x d b
  | .point a => usedE x d a
def usedWs (x : Sym) (d : Nat) : List WAcc → List (Option Nat)
  | [] => []
  | w :: r => usedW x d w ++ usedWs x d r
end

mutual
/-- reads below a statement, in `_children` order -/
def usedRdS (x : Sym) (d : Nat) : Stmt → List (Option Nat)
  | .assign _ idx rhs => usedEs x d idx ++ usedE x d rhs
  | .reduce _ idx rhs => usedEs x d idx ++ usedE x d rhs
  | .writecfg _ _ rhs _ => usedE x d rhs
  | .ite c t el => usedE x d c ++ usedRdL x d t ++ usedRdL x d el
  | .loop _ lo hi b _ => usedE x d lo ++ usedE x d hi ++ usedRdL x d b
  | .call _ args => usedEs x d args
  | .window _ rhs => usedE x d rhs
  | _ => []
def usedRdL (x : Sym) (d : Nat) : List Stmt → List (Option Nat)
  | [] => []
  | s :: r => usedRdS x d s ++ usedRdL x d r
end

mutual
/-- targets of the `Assign`s (`asg = true`) / `Reduce`s (`asg = false`) to `x` below a statement -/
def usedWrS (asg : Bool) (x : Sym) (d : Nat) : Stmt → List (Option Nat)
  | .assign y idx _ => if asg && y == x then [litAt d idx] else []
  | .reduce y idx _ => if !asg && y == x then [litAt d idx] else []
  | .ite _ t el => usedWrL asg x d t ++ usedWrL asg x d el
  | .loop _ _ _ b _ => usedWrL asg x d b
  | _ => []
def usedWrL (asg : Bool) (x : Sym) (d : Nat) : List Stmt → List (Option Nat)
  | [] => []
  | s :: r => usedWrS asg x d s ++ usedWrL asg x d r
end

/-- all `used_allocs.add` calls over the rest of the block, in order -/
def usedL (x : Sym) (d : Nat) : List Stmt → List (Option Nat)
  | [] => []
  | c :: r => usedRdS x d c ++ usedWrS true x d c ++ usedWrS false x d c ++ usedL x d r

/-- the indices for which an allocation is emitted, in emission order; `none` where the real code
    raises: extent of dimension `d` not a literal / no such dimension (scalar buffer included), an
    access whose `d`-th index is not a literal (for a window expression: not a literal point), a
    literal `≥ n` (`IndexError` on `buf_syms`).  (A NEGATIVE literal would be accepted by the real
    code through Python's negative indexing; the model answers `none`.) -/
def unrollOrder (x : Sym) (d : Nat) (sh : List Expr) (r : List Stmt) : Option (List Nat) :=
  match sh[d]? with
  | some (.lit (.int n)) =>
    let us := usedL x d r
    if us.all (fun u => match u with | some k => decide ((k : Int) < n) | none => false)
    then some (pySetOrder (us.filterMap id)) else none
  | _ => none

mutual
/-- `x[…, k, …]` becomes `nm k […]` -/
def unrollE (x : Sym) (d : Nat) (nm : Nat → Sym) : Expr → Expr
  | .read y idx =>
    if y == x then .read (nm ((litAt d idx).getD 0)) ((unrollEs x d nm idx).eraseIdx d)
    else .read y (unrollEs x d nm idx)
  | .lit c => .lit c
  | .usub a => .usub (unrollE x d nm a)
  | .binop o a b => .binop o (unrollE x d nm a) (unrollE x d nm b)
  | .extern f args => .extern f (unrollEs x d nm args)
  | .win y acc =>
    if y == x then .win (nm ((wlitAt d acc).getD 0)) ((unrollWs x d nm acc).eraseIdx d)
    else .win y (unrollWs x d nm acc)
  | .stride y k => .stride y k
  | .readcfg c f => .readcfg c f
def unrollEs (x : Sym) (d : Nat) (nm : Nat → Sym) : List Expr → List Expr
  | [] => []
  | a :: r => unrollE x d nm a :: unrollEs x d nm r
def unrollW (x : Sym) (d : Nat) (nm : Nat → Sym) : WAcc → WAcc
  | .interval a b => .interval (unrollE x d nm a) (unrollE x d nm b)
  | .point a => .point (unrollE x d nm a)
def unrollWs (x : Sym) (d : Nat) (nm : Nat → Sym) : List WAcc → List WAcc
  | [] => []
  | w :: r => unrollW x d nm w :: unrollWs x d nm r
end

mutual
def unrollS (x : Sym) (d : Nat) (nm : Nat → Sym) : Stmt → Stmt
  | .assign y idx rhs =>
    if y == x then .assign (nm ((litAt d idx).getD 0)) ((unrollEs x d nm idx).eraseIdx d) (unrollE x d nm rhs)
    else .assign y (unrollEs x d nm idx) (unrollE x d nm rhs)
  | .reduce y idx rhs =>
    if y == x then .reduce (nm ((litAt d idx).getD 0)) ((unrollEs x d nm idx).eraseIdx d) (unrollE x d nm rhs)
    else .reduce y (unrollEs x d nm idx) (unrollE x d nm rhs)
  | .writecfg c f rhs dd => .writecfg c f (unrollE x d nm rhs) dd
  | .pass => .pass
  | .ite c t el => .ite (unrollE x d nm c) (unrollL x d nm t) (unrollL x d nm el)
  | .loop i lo hi b par => .loop i (unrollE x d nm lo) (unrollE x d nm hi) (unrollL x d nm b) par
  | .alloc y sh => .alloc y sh
  | .free y => .free y
  | .call f args => .call f (unrollEs x d nm args)
  | .window y rhs => .window y (unrollE x d nm rhs)
def unrollL (x : Sym) (d : Nat) (nm : Nat → Sym) : List Stmt → List Stmt
  | [] => []
  | s :: r => unrollS x d nm s :: unrollL x d nm r
end

/-- `unroll_buffer(alloc, d)` (`DoUnrollBuffer`).  `names` = the fresh symbols of the EMITTED
    allocations, in emission order (`names[j]` is the buffer for the literal `(unrollOrder …)[j]`;
    the real code creates a symbol for every `k < n`, but only the used ones appear anywhere).
    The allocation is replaced by `names.length` allocations of shape `sh` minus dimension `d`;
    NOTHING is left when the buffer is never accessed — also no `pass`, even if the allocation was
    the only statement of its block (the real code calls `_replace([])`, not `_delete`).
    `stride(x, _)` is not touched (it keeps the OLD symbol, which is no longer allocated). -/
def unrollBuffer (d : Nat) (names : List Sym) : Local
  | .alloc x sh :: r =>
    match unrollOrder x d sh r with
    | some order =>
      if names.length == order.length then
        let nm : Nat → Sym := fun k => names.getD (order.idxOf k) x
        some (names.map (fun y => .alloc y (sh.eraseIdx d)) ++ unrollL x d nm r)
      else none
    | none => none
  | _ => none

end Exo.Rw


/-! ## stage_mem, reuse_buffer  (appended; shapes of `DoStageMem`, `DoReuseBuffer`)

### stage_mem

`DoStageMem(block, x, w_exprs, new_name, use_accum_zero)` (index arithmetic, nests and the fully
redirected block: ExoModel.RewriteStage):

1. `xs : T[hi - lo …]` (a scalar when every coordinate of the window is a point) is inserted in
   front of the block.
2. For every statement `c` of the block, in order: first `_replace_reads(c, x, mk_read)` — every
   `Read` and every `WindowExpr` of `x` below `c` —, then `_replace_writes(c, x, mk_write)` — every
   `Assign` to `x` below `c`, then every `Reduce` to `x` below `c`.  `mk_read` / `mk_write` ask
   `Check_Access_In_Window` (an SMT query) about THIS access: always inside the window → redirected
   (`rewrite_idx` / `rewrite_win`), never inside → the access is LEFT ALONE (callback returns
   `None`), otherwise `SchedulingError`.  `Check_Access_In_Window` asserts
   `len(access.idx) == len(w_exprs)` (a whole-tensor `x` passed to a call: `AssertionError`);
   a window expression of `x` with an interval in a dimension where the staged window has a point
   raises `SchedulingError` before the query (left alone or not).
   The decision is not part of the shape: the redirected block `B'` is a PARAMETER (read off the
   output), constrained by `stageRelL`: every access to `x` is either redirected exactly as
   `stageE` / `stageS` would, or unchanged.  `stride(x, d)` is never touched.
3. Flags, in the order of step 2 (`stageFlagsL`):
     `actualR`  some read / window expression was redirected, or some reduce was redirected;
     `actualW`  some assign / reduce was redirected;
     `WShadow`  an assign was redirected at a moment when `actualR` was still false and ALL window
                coordinates are points (only an `Assign` can set it: a `Reduce` sets `actualR` first).
   copy-in nest  iff `actualR and not WShadow`;  copy-out nest iff `actualW`;
   neither `actualR` nor `actualW`: `SchedulingError`.
4. `insert_safety_guards`: the innermost copy statement is wrapped in `if c_1 and … and c_m:` where
   the `c_j` are those of `0 <= r_0, r_0 < e_0, 0 <= r_1, r_1 < e_1, …` (`r` = indices of the access
   to `x`, `e` = extents of `x`) that `Check_ExprEqvInContext` could not prove, in this order,
   nested to the left.  Not called for the copy-in nest when `use_accum_zero` (its statement is
   `xs[i…] = 0.0`).  Which conditions are proved is not part of the shape: the guards are
   parameters; `guardSub` checks the form.
5. Result: `alloc; copy-in?; B'; copy-out?; rest of the enclosing block`.  `Check_Bounds` of the new
   buffer over the new block and (accum) `Check_BufferReduceOnly` are analyses, not shape.
-/

namespace Exo.Rw
open Exo

/-- `mk_read` raises: the window expression has an interval where the staged window has a point -/
def winClash : List WAcc → List WAcc → Bool
  | .point _ :: _, .interval _ _ :: _ => true
  | _ :: w, _ :: acc => winClash w acc
  | _, _ => false

mutual
/-- `e'` is `e` with every access to `x` either redirected as `stageE` does, or left alone
    (symbols are compared literally: the real code replaces attributes, it renames nothing) -/
def stageRelE (x xs : Sym) (w : List WAcc) : Expr → Expr → Bool
  | .read y idx, .read y' idx' =>
    if y == x then
      idx.length == w.length &&
      ((y' == xs && exprsEq [] (stageIdx w (stageEs x xs w idx)) idx') ||
       (y' == x && stageRelEs x xs w idx idx'))
    else y' == y && stageRelEs x xs w idx idx'
  | .lit c, .lit c' => c == c'
  | .usub a, .usub a' => stageRelE x xs w a a'
  | .binop o a b, .binop o' a' b' => o == o' && stageRelE x xs w a a' && stageRelE x xs w b b'
  | .extern f args, .extern g args' => f == g && stageRelEs x xs w args args'
  | .win y acc, .win y' acc' =>
    if y == x then
      acc.length == w.length && !winClash w acc &&
      ((y' == xs && waccsEq [] (stageWin w (stageWs x xs w acc)) acc') ||
       (y' == x && stageRelWs x xs w acc acc'))
    else y' == y && stageRelWs x xs w acc acc'
  | .stride y d, .stride y' d' => y == y' && d == d'
  | .readcfg c f, .readcfg c' f' => c == c' && f == f'
  | _, _ => false
def stageRelEs (x xs : Sym) (w : List WAcc) : List Expr → List Expr → Bool
  | [], [] => true
  | a :: r, a' :: r' => stageRelE x xs w a a' && stageRelEs x xs w r r'
  | _, _ => false
def stageRelW (x xs : Sym) (w : List WAcc) : WAcc → WAcc → Bool
  | .interval a b, .interval a' b' => stageRelE x xs w a a' && stageRelE x xs w b b'
  | .point a, .point a' => stageRelE x xs w a a'
  | _, _ => false
def stageRelWs (x xs : Sym) (w : List WAcc) : List WAcc → List WAcc → Bool
  | [], [] => true
  | a :: r, a' :: r' => stageRelW x xs w a a' && stageRelWs x xs w r r'
  | _, _ => false
end

mutual
def stageRelS (x xs : Sym) (w : List WAcc) : Stmt → Stmt → Bool
  | .assign y idx rhs, .assign y' idx' rhs' =>
    stageRelE x xs w rhs rhs' &&
    (if y == x then
      idx.length == w.length &&
      ((y' == xs && exprsEq [] (stageIdx w (stageEs x xs w idx)) idx') ||
       (y' == x && stageRelEs x xs w idx idx'))
     else y' == y && stageRelEs x xs w idx idx')
  | .reduce y idx rhs, .reduce y' idx' rhs' =>
    stageRelE x xs w rhs rhs' &&
    (if y == x then
      idx.length == w.length &&
      ((y' == xs && exprsEq [] (stageIdx w (stageEs x xs w idx)) idx') ||
       (y' == x && stageRelEs x xs w idx idx'))
     else y' == y && stageRelEs x xs w idx idx')
  | .writecfg c f rhs d, .writecfg c' f' rhs' d' =>
    c == c' && f == f' && d == d' && stageRelE x xs w rhs rhs'
  | .pass, .pass => true
  | .ite c t el, .ite c' t' el' =>
    stageRelE x xs w c c' && stageRelL x xs w t t' && stageRelL x xs w el el'
  | .loop i lo hi b par, .loop i' lo' hi' b' par' =>
    i == i' && par == par' && stageRelE x xs w lo lo' && stageRelE x xs w hi hi' &&
    stageRelL x xs w b b'
  | .alloc y sh, .alloc y' sh' => y == y' && exprsEq [] sh sh'
  | .free y, .free y' => y == y'
  | .call f args, .call g args' => procEq f g && stageRelEs x xs w args args'
  | .window y rhs, .window y' rhs' => y == y' && stageRelE x xs w rhs rhs'
  | _, _ => false
def stageRelL (x xs : Sym) (w : List WAcc) : List Stmt → List Stmt → Bool
  | [], [] => true
  | s :: r, s' :: r' => stageRelS x xs w s s' && stageRelL x xs w r r'
  | _, _ => false
end

/-- the case the soundness theorem covers: EVERY access to `x` in the block was redirected -/
def stageAllRedirected (x xs : Sym) (w : List WAcc) (B B' : List Stmt) : Bool :=
  alphaEqBlocks (stageL x xs w B) B'

def anyRd (xs : Sym) (e : Expr) : Bool := anyAccE xs (fun _ => true) (fun _ => true) (fun _ => false) e
def anyRds (xs : Sym) (es : List Expr) : Bool :=
  anyAccEs xs (fun _ => true) (fun _ => true) (fun _ => false) es

mutual
/-- some `Read` / window expression of `xs` below the statement (targets do not count) -/
def stRdS (xs : Sym) : Stmt → Bool
  | .assign _ idx rhs => anyRds xs idx || anyRd xs rhs
  | .reduce _ idx rhs => anyRds xs idx || anyRd xs rhs
  | .writecfg _ _ rhs _ => anyRd xs rhs
  | .ite c t el => anyRd xs c || stRdL xs t || stRdL xs el
  | .loop _ lo hi b _ => anyRd xs lo || anyRd xs hi || stRdL xs b
  | .call _ args => anyRds xs args
  | .window _ rhs => anyRd xs rhs
  | _ => false
def stRdL (xs : Sym) : List Stmt → Bool
  | [] => false
  | s :: r => stRdS xs s || stRdL xs r
end

mutual
/-- some `Assign` (`asg`) / `Reduce` (`!asg`) whose target is `xs` below the statement -/
def stWrS (asg : Bool) (xs : Sym) : Stmt → Bool
  | .assign y _ _ => asg && y == xs
  | .reduce y _ _ => !asg && y == xs
  | .ite _ t el => stWrL asg xs t || stWrL asg xs el
  | .loop _ _ _ b _ => stWrL asg xs b
  | _ => false
def stWrL (asg : Bool) (xs : Sym) : List Stmt → Bool
  | [] => false
  | s :: r => stWrS asg xs s || stWrL asg xs r
end

/-- `w_is_pt` -/
def allPoints : List WAcc → Bool
  | [] => true
  | .point _ :: w => allPoints w
  | .interval _ _ :: _ => false

/-- `(actualR, actualW, WShadow)` after the statements of the (redirected) block, processed as the
    real loop does: per statement reads, then assigns, then reduces.  `xs` is fresh, so an
    occurrence of `xs` in `B'` IS a redirected access. -/
def stageFlagsL (xs : Sym) (pt : Bool) : Bool × Bool × Bool → List Stmt → Bool × Bool × Bool
  | st, [] => st
  | (r, wr, sh), c :: rest =>
    let r := r || stRdS xs c
    let a := stWrS true xs c
    let d := stWrS false xs c
    let sh := sh || (a && !r && pt)
    stageFlagsL xs pt (r || d, wr || a || d, sh) rest

/-- conjuncts of `((c_1 and c_2) and …) and c_m` in order -/
def conjuncts : Expr → List Expr
  | .binop .and a b => conjuncts a ++ [b]
  | e => [e]

/-- are the conditions `cs` (in order) among `0 <= r_0, r_0 < e_0, 0 <= r_1, r_1 < e_1, …`?
    `exts[k] = none`: the extent is not known to the caller (a procedure argument) — anything is
    accepted in its place -/
def guardSub : List Expr → List (Option Expr) → List Expr → Bool
  | _, _, [] => true
  | [], _, _ :: _ => false
  | r :: rs, es, c :: cs =>
    let e : Option Expr := es.head?.join
    let isLo : Expr → Bool := fun c => match c with
      | .binop .le (.lit (.int 0)) r' => exprEq [] r r'
      | _ => false
    let isHi : Expr → Bool := fun c => match c with
      | .binop .lt r' e' => exprEq [] r r' && (match e with | some e0 => exprEq [] e0 e' | none => true)
      | _ => false
    if isLo c then
      match cs with
      | c2 :: cs2 => if isHi c2 then guardSub rs es.tail cs2 else guardSub rs es.tail cs
      | [] => true
    else if isHi c then guardSub rs es.tail cs
    else guardSub rs es.tail (c :: cs)

/-- form of a safety guard around an access `x[ridx]` (`none`: every bound was proved) -/
def guardForm (ridx : List Expr) (exts : List (Option Expr)) : Option Expr → Bool
  | none => true
  | some g => guardSub ridx exts (conjuncts g)

/-- `stage_mem(block, "x[w]", xs, accum)` (`DoStageMem`): the suffix starts at the first statement of
    the block, `n` = number of statements of the block.  Free parameters (all read off the output by
    `Rw.checkStorage`): the fresh buffer `xs`, the loop iterators (the real code makes fresh ones for
    each nest; one list serves both up to alpha), the guards, the redirected block `B'`.
    `load` / `store` are determined by `B'` (`stageFlagsL`) and only restated; `none` = the real code
    raises (no access redirected; an access that is neither redirected nor unchanged; window /
    index tuple of the wrong length; `winClash`) or the parameters are inconsistent.
    When `stageAllRedirected x xs w (ss.take n) B'` the result is `stageMemAll … ss` up to alpha. -/
def stageMem (x xs : Sym) (w : List WAcc) (n : Nat) (iters : List Sym) (accum load store : Bool)
    (gl gs : Option Expr) (B' : List Stmt) : Local := fun ss =>
  let fl := stageFlagsL xs (allPoints w) (false, false, false) B'
  if decide (0 < n) && decide (n ≤ ss.length) && iters.length == (stageShape w).length &&
     stageRelL x xs w (ss.take n) B' &&
     (fl.1 || fl.2.1) && load == (fl.1 && !fl.2.2) && store == fl.2.1 &&
     (!accum || gl.isNone) then
    some (.alloc xs (stageShape w) ::
      ((if load then stageLoad x xs w iters accum gl else []) ++ B' ++
       (if store then stageStore x xs w iters accum gs else []) ++ ss.drop n))
  else none

/-! ### reuse_buffer

`DoReuseBuffer(buf_cursor, rep_cursor)`: `buf_cursor` = the allocation of `x` (KEPT),
`rep_cursor` = the allocation `y : T[sh]` that is REPLACED.  The real code asserts that the two
allocation types are equal (`AssertionError` otherwise — the comparison includes source positions
of the extents, so two tensor allocations written at different places never pass; scalars do),
deletes `rep_cursor` (`Block._delete`: `pass` refill when it was the only statement of its block)
and then, for every statement `c` that FOLLOWED `y`'s allocation in its block,
`_replace_reads(c, y, name := x)` (every `Read` and every `WindowExpr` of `y`; `stride(y, d)` is NOT
matched and keeps the dead symbol) and `_replace_writes(c, y, name := x)` (`Assign` / `Reduce`
targets).  `Check_IsDeadAfter(x)` at the first write found is an analysis, not shape.  Nothing
relates the positions of the two allocations: the `Local` is applied at `y`'s allocation, wherever
`x` is allocated. -/

mutual
def reuseE (y x : Sym) : Expr → Expr
  | .read z idx => .read (if z == y then x else z) (reuseEs y x idx)
  | .lit c => .lit c
  | .usub a => .usub (reuseE y x a)
  | .binop o a b => .binop o (reuseE y x a) (reuseE y x b)
  | .extern f args => .extern f (reuseEs y x args)
  | .win z acc => .win (if z == y then x else z) (reuseWs y x acc)
  | .stride z d => .stride z d
  | .readcfg c f => .readcfg c f
def reuseEs (y x : Sym) : List Expr → List Expr
  | [] => []
  | a :: r => reuseE y x a :: reuseEs y x r
def reuseW (y x : Sym) : WAcc → WAcc
  | .interval a b => .interval (reuseE y x a) (reuseE y x b)
  | .point a => .point (reuseE y x a)
def reuseWs (y x : Sym) : List WAcc → List WAcc
  | [] => []
  | a :: r => reuseW y x a :: reuseWs y x r
end

mutual
def reuseS (y x : Sym) : Stmt → Stmt
  | .assign z idx rhs => .assign (if z == y then x else z) (reuseEs y x idx) (reuseE y x rhs)
  | .reduce z idx rhs => .reduce (if z == y then x else z) (reuseEs y x idx) (reuseE y x rhs)
  | .writecfg c f rhs d => .writecfg c f (reuseE y x rhs) d
  | .pass => .pass
  | .ite c t el => .ite (reuseE y x c) (reuseL y x t) (reuseL y x el)
  | .loop i lo hi b par => .loop i (reuseE y x lo) (reuseE y x hi) (reuseL y x b) par
  | .alloc z sh => .alloc z sh
  | .free z => .free z
  | .call f args => .call f (reuseEs y x args)
  | .window z rhs => .window z (reuseE y x rhs)
def reuseL (y x : Sym) : List Stmt → List Stmt
  | [] => []
  | s :: r => reuseS y x s :: reuseL y x r
end

/-- `reuse_buffer(x's allocation, y's allocation)` applied at `y`'s allocation; `fill` as in
    `deleteBuffer` (the allocation is the first statement of its block) -/
def reuseBuffer (x : Sym) (fill : Bool) : Local
  | .alloc y _ :: r => some (if fill && r.isEmpty then [.pass] else reuseL y x r)
  | _ => none

end Exo.Rw
