/-
  ExoModel.RewriteStorage — executable models of the *shape* of the storage-related scheduling
  rewrites (what `DoLiftAllocSimple`, `DoSinkAlloc`, `DoDeleteBuffer`, `DoDeletePass`,
  `DoExpandDim`, `DoBindExpr` in src/exo/rewrite/LoopIR_scheduling.py build once their checks have
  passed).  Same conventions as ExoModel.Rewrite: a `Local` sees the block suffix that starts at
  the addressed statement; free parameters (fresh names, parsed expressions) are passed in.

  The property theorems of Props/C01Storage.lean are statements about exactly these shapes.
-/
import ExoModel.Rewrite

namespace Exo.Rw
open Exo

/-- `Block._delete` (internal_cursors.py): a block that becomes empty is filled with `pass` -/
def fillPass (ss : List Stmt) : List Stmt := if ss.isEmpty then [.pass] else ss

/-- remove the statement at a relative address (`Block._delete` of a one-statement block);
    the first step indexes `ss`, every later step enters a child block of the selected statement.
    Returns the removed statement and the edited block (the block the statement is removed from is
    filled with `pass` if it becomes empty — but only that block, and not the outermost one, which
    the caller sees only as a suffix). -/
def removeAt : Path → List Stmt → Option (Stmt × List Stmt)
  | [], _ => none
  | [st], ss =>
    match ss[st.idx]? with
    | some s => some (s, ss.eraseIdx st.idx)
    | none => none
  | st :: nxt :: rest, ss =>
    match ss[st.idx]? with
    | some (.loop i lo hi b par) =>
      match nxt with
      | .body _ => (removeAt (nxt :: rest) b).map (fun (s, b') =>
          (s, ss.set st.idx (.loop i lo hi (if rest.isEmpty then fillPass b' else b') par)))
      | .orelse _ => none
    | some (.ite c t e) =>
      match nxt with
      | .body _ => (removeAt (nxt :: rest) t).map (fun (s, t') =>
          (s, ss.set st.idx (.ite c (if rest.isEmpty then fillPass t' else t') e)))
      | .orelse _ => (removeAt (nxt :: rest) e).map (fun (s, e') =>
          (s, ss.set st.idx (.ite c t (if rest.isEmpty then fillPass e' else e'))))
    | _ => none

/-- `lift_alloc(alloc, n_lifts)` (`DoLiftAllocSimple`): the suffix starts at the scope statement
    `n_lifts` levels above the allocation; `rel` is the address of the allocation relative to that
    statement (`rel = .body 0 :: …` / `.orelse 0 :: …` with the first index ignored: it addresses the
    scope statement itself, which is the head of the suffix; `rel.length = n_lifts + 1`).
    The allocation is moved in front of the scope statement. -/
def liftAlloc (rel : Path) : Local
  | s :: r =>
    match rel with
    | _ :: nxt :: rest =>
      match removeAt (.body 0 :: nxt :: rest) [s] with
      | some (.alloc x sh, [s']) => some (.alloc x sh :: s' :: r)
      | _ => none
    | _ => none
  | [] => none

/-- `sink_alloc` (`DoSinkAlloc`): the allocation directly in front of a `for`/`if` is moved to the
    head of the loop body / `then` branch; a non-empty `else` branch gets a copy of the allocation
    under a fresh name `x'` (`Alpha_Rename([alloc_stmt])` — the branch's statements are NOT renamed) -/
def sinkAlloc (x' : Sym) : Local
  | .alloc x sh :: .loop i lo hi b par :: r => some (.loop i lo hi (.alloc x sh :: b) par :: r)
  | .alloc x sh :: .ite c t e :: r =>
    some (.ite c (.alloc x sh :: t) (if e.isEmpty then [] else .alloc x' sh :: e) :: r)
  | _ => none

/-- `delete_buffer` (`DoDeleteBuffer`): the allocation is deleted; `fill` = the allocation was the
    only statement of its block (the block is then `[pass]`) -/
def deleteBuffer (fill : Bool) : Local
  | .alloc _ _ :: r => some (if fill && r.isEmpty then [.pass] else r)
  | _ => none

mutual
/-- `delete_pass` (`DoDeletePass`) on one statement: `none` = the statement disappears (a `pass`, or
    a `for` whose body disappears entirely); branches of an `if` that become empty are refilled
    with `pass` by `Block._delete`, except an `else` branch that was empty from the start -/
def deletePassS : Stmt → Option Stmt
  | .pass => none
  | .loop i lo hi b par =>
    match deletePassL b with
    | [] => none
    | b' => some (.loop i lo hi b' par)
  | .ite c t e => some (.ite c (fillPass (deletePassL t)) (if e.isEmpty then [] else fillPass (deletePassL e)))
  | s => some s
def deletePassL : List Stmt → List Stmt
  | [] => []
  | s :: r =>
    match deletePassS s with
    | none => deletePassL r
    | some s' => s' :: deletePassL r
end

/-- `delete_pass` on a procedure body -/
def deletePass (body : List Stmt) : List Stmt := fillPass (deletePassL body)

/-! ### expand_dim

`DoExpandDim` prepends the new extent to the allocation's shape and then, for every statement `c`
that follows the allocation in its block, runs `_replace_reads(c, x, mk_read)` and
`_replace_writes(c, x, mk_write)`:
* `_replace_reads` collects `match_pattern(c, "x[_]", use_sym_id=True)`: every `Read` of `x`
  (any number of indices, also none) and every `WindowExpr` of `x`, anywhere below `c`
  (`_children` in pattern_match.py visits: `idx`/`rhs` of assignments and reductions, `rhs` of
  config writes and window statements, `cond` of `if`, `lo`/`hi` of `for`, `args` of calls, all
  sub-expressions; NOT the extents of allocations, NOT `free`).  `StrideExpr` is not matched:
  `stride(x, d)` keeps its dimension number.
* a `Read` becomes `x[e, idx…]`, a `WindowExpr` becomes `x[e, acc…]` (a point access);
  `mk_read` raises `SchedulingError` when a matched `Read` without indices is directly an
  argument of a call.
* `_replace_writes`: every `Assign`/`Reduce` to `x` becomes `x[e, idx…]`.
There is no stopping condition: symbols are unique, every later occurrence in the block is hit.
(An occurrence of `x` inside the index list of an access to `x` cannot be typed — indices are
control expressions — ; the model rewrites it as well, the real code would fail forwarding.) -/

mutual
def expandE (x : Sym) (e : Expr) : Expr → Expr
  | .read y idx => .read y (if y == x then e :: expandEs x e idx else expandEs x e idx)
  | .lit c => .lit c
  | .usub a => .usub (expandE x e a)
  | .binop o a b => .binop o (expandE x e a) (expandE x e b)
  | .extern f args => .extern f (expandEs x e args)
  | .win y acc => .win y (if y == x then .point e :: expandWs x e acc else expandWs x e acc)
  | .stride y d => .stride y d
  | .readcfg c f => .readcfg c f
def expandEs (x : Sym) (e : Expr) : List Expr → List Expr
  | [] => []
  | a :: r => expandE x e a :: expandEs x e r
def expandW (x : Sym) (e : Expr) : WAcc → WAcc
  | .interval a b => .interval (expandE x e a) (expandE x e b)
  | .point a => .point (expandE x e a)
def expandWs (x : Sym) (e : Expr) : List WAcc → List WAcc
  | [] => []
  | w :: r => expandW x e w :: expandWs x e r
end

mutual
def expandS (x : Sym) (e : Expr) : Stmt → Stmt
  | .assign y idx rhs =>
    .assign y (if y == x then e :: expandEs x e idx else expandEs x e idx) (expandE x e rhs)
  | .reduce y idx rhs =>
    .reduce y (if y == x then e :: expandEs x e idx else expandEs x e idx) (expandE x e rhs)
  | .writecfg c f rhs d => .writecfg c f (expandE x e rhs) d
  | .pass => .pass
  | .ite c t el => .ite (expandE x e c) (expandL x e t) (expandL x e el)
  | .loop i lo hi b par => .loop i (expandE x e lo) (expandE x e hi) (expandL x e b) par
  | .alloc y sh => .alloc y sh
  | .free y => .free y
  | .call f args => .call f (expandEs x e args)
  | .window y rhs => .window y (expandE x e rhs)
def expandL (x : Sym) (e : Expr) : List Stmt → List Stmt
  | [] => []
  | s :: r => expandS x e s :: expandL x e r
end

/-- some call argument is the bare name `x` (a `Read` without indices whose parent is the call) -/
def passesWhole (x : Sym) : List Expr → Bool
  | [] => false
  | .read y [] :: r => y == x || passesWhole x r
  | _ :: r => passesWhole x r

mutual
def wholeArgS (x : Sym) : Stmt → Bool
  | .call _ args => passesWhole x args
  | .ite _ t el => wholeArgL x t || wholeArgL x el
  | .loop _ _ _ b _ => wholeArgL x b
  | _ => false
def wholeArgL (x : Sym) : List Stmt → Bool
  | [] => false
  | s :: r => wholeArgS x s || wholeArgL x r
end

/-- `expand_dim(alloc, n, e)` (`DoExpandDim`) -/
def expandDim (n e : Expr) : Local
  | .alloc x sh :: r =>
    if wholeArgL x r then none else some (.alloc x (n :: sh) :: expandL x e r)
  | _ => none

/-! ### bind_expr

`DoBindExpr(t, [cursor])` with ONE expression cursor (what the stream issues): in front of the
statement `s` that contains the expression `e` the real code inserts `t : <basetype of e>` and
`t = e`, then replaces that one occurrence of `e` in `s` by `t`.  (`s` is never a `for`/`if`: a
numeric expression cannot sit in a bound or a condition, so the early exits of the replacement
loop cannot fire before the single cursor has been replaced.)  With several cursors the real code
goes on through the following statements of the block until the first write to a buffer `e`
reads; that is not modelled.

`s'` (the statement after replacement) is a parameter, constrained by `replS`: `s'` is `s` with
some numeric sub-expressions equal to `e` replaced by `t`. -/

mutual
/-- `a'` is `a` with some occurrences of `e` (in data position) replaced by `read t []` -/
def replE (t : Sym) (e : Expr) : Expr → Expr → Bool
  | .usub a, .usub a' => replE t e a a'
  | .binop o a b, .binop o' a' b' => o == o' && replE t e a a' && replE t e b b'
  | .extern f xs, .extern g ys => f == g && replEs t e xs ys
  | a, .read y [] => (y == t && exprEq [] a e) || exprEq [] a (.read y [])
  | a, a' => exprEq [] a a'
def replEs (t : Sym) (e : Expr) : List Expr → List Expr → Bool
  | [], [] => true
  | a :: r, a' :: r' => replE t e a a' && replEs t e r r'
  | _, _ => false
end

def replS (t : Sym) (e : Expr) : Stmt → Stmt → Bool
  | .assign x i a, .assign x' i' a' => x == x' && exprsEq [] i i' && replE t e a a'
  | .reduce x i a, .reduce x' i' a' => x == x' && exprsEq [] i i' && replE t e a a'
  | .writecfg c f a d, .writecfg c' f' a' d' => c == c' && f == f' && d == d' && replE t e a a'
  | .call p xs, .call q ys => procEq p q && replEs t e xs ys
  | _, _ => false

/-- `bind_expr([cursor], t)` (`DoBindExpr`, one cursor) -/
def bindExpr (t : Sym) (e : Expr) (s' : Stmt) : Local
  | s :: r => if replS t e s s' then some (.alloc t [] :: .assign t [] e :: s' :: r) else none
  | [] => none

end Exo.Rw
