/-
  PyHeap — a mini heap language for the *list-aliasing* behaviour of Python code (property C07).

  LoopIR nodes are frozen: the only in-place edits that scheduling code can perform are on Python
  `list` / `dict` / `set` objects (and on ordinary mutable objects: pass objects, cursors,
  `Procedure`s).  This file models exactly that:

  * a heap of mutable objects with identity (`Heap = List (List Val)`, a location is an index;
    allocation appends, nothing is ever freed);
  * variables that hold (references to) objects.  Two kinds:
      `Var.s n`  — *strong*: a local of one activation (frame) that no nested function refers to;
      `Var.w n`  — *weak*: shared between activations — `self.<attr>` fields of a pass object,
                   locals captured by nested functions / lambdas / generator expressions;
  * right-hand sides classified by where the object comes from (`Rhs` / `Origin`);
  * mutators `setitem / delitem / append / extend / insert / pop / remove / sort / reverse /
    iadd (+=) / clear / setattr` with their concrete Python behaviour on a list of cells (`Op.apply`);
  * per function a list of `Item`s: `top s` — a simple statement at the top level of the function
    body (executed at most once, in order), `soup ss` — a compound statement (`if/for/while/try/
    with/match`): its statements may run in any order, any number of times, until control leaves it;
  * a small-step semantics `Step` over configurations (heap, weak environment, set of live
    activations): any function of the group may be entered at any moment (calls, re-entrancy,
    callbacks), any live activation may make a step (generators) or be abandoned at any moment
    (return, or an exception that leaves it part-way);
  * the freshness analysis (bit masks): strong variables flow-sensitively along the `top` items (joined to a
    fixed point inside a `soup`), weak variables flow-insensitively through one table
    `T = inferT g`; `AllMutationsFresh` says the analysis succeeds and every mutation targets a
    variable whose origin is `fresh`.

  Soundness (for all groups, heaps, runs) is `ExoModel/Props/C07.lean`.
  Everything here is computable; `lean/Drivers/C07.lean` runs it.
-/
namespace Exo.PyHeap

/-! ## syntax -/

/-- where the object bound to a variable comes from -/
inductive Origin
  | fresh      -- allocated by this activation: literal, comprehension, `.copy()`, `list(..)`, slice, `+`, constructor call
  | nodeField  -- attribute of an existing object (`n.idx`, `n.body`, `t.shape()`, `c._path`, ...)
  | param      -- a parameter
  | global     -- a module-level name
  | unknown    -- result of an unknown call, element of a container, ...
  deriving DecidableEq, Repr, Inhabited

abbrev Loc := Nat
abbrev Val := Int
abbrev Heap := List (List Val)

inductive Var
  | s (n : Nat)
  | w (n : Nat)
  deriving DecidableEq, Repr, Inhabited

inductive Rhs
  | fresh | nodeField | param | global | unknown
  | alias (x : Var)
  deriving DecidableEq, Repr, Inhabited

inductive MutKind
  | setitem | delitem | append | extend | insert | pop | remove | sort | reverse | iadd | clear
  | setattr
  deriving DecidableEq, Repr, Inhabited

inductive Stmt
  | bind (line : Nat) (x : Var) (r : Rhs)
  | mutate (line : Nat) (k : MutKind) (x : Var)
  deriving DecidableEq, Repr, Inhabited

inductive Item
  | top (s : Stmt)
  | soup (ss : List Stmt)
  deriving Repr, Inhabited

structure Func where
  name : String
  line : Nat
  /-- names of the strong variables (index = `Var.s n`); only for reporting -/
  strong : List String
  items : List Item
  deriving Repr, Inhabited

structure Group where
  name : String
  file : String
  /-- names of the weak variables (index = `Var.w n`); only for reporting -/
  weak : List String
  funcs : List Func
  deriving Repr, Inhabited

def Func.nstrong (f : Func) : Nat := f.strong.length
def Group.nweak (g : Group) : Nat := g.weak.length

/-! ## concrete mutators (Python `list` semantics on the cells of one object) -/

inductive Op
  | setitem (i : Int) (v : Val)
  | delitem (i : Int)
  | append (v : Val)
  | extend (vs : List Val)        -- a raising iterable = `extend` by the prefix produced so far
  | insert (i : Int) (v : Val)
  | pop (i : Int)
  | remove (v : Val)
  | sort
  | permute (p : List Val)        -- what a `sort` whose key function raises leaves behind
  | reverse
  | iadd (vs : List Val)
  | clear
  | setattr (i : Nat) (v : Val)   -- objects other than lists: cell `i` = attribute `i`
  deriving Repr, Inhabited

def Op.kind : Op → MutKind
  | .setitem .. => .setitem | .delitem .. => .delitem | .append .. => .append
  | .extend .. => .extend | .insert .. => .insert | .pop .. => .pop | .remove .. => .remove
  | .sort => .sort | .permute .. => .sort | .reverse => .reverse | .iadd .. => .iadd
  | .clear => .clear | .setattr .. => .setattr

/-- Python index normalisation: `-n ≤ i < n`, negative counts from the end; otherwise IndexError -/
def normIdx (n : Nat) (i : Int) : Option Nat :=
  if 0 ≤ i ∧ i < n then some i.toNat
  else if -(n : Int) ≤ i ∧ i < 0 then some (i + n).toNat
  else none

/-- `list.insert` clamps instead of raising -/
def clampIdx (n : Nat) (i : Int) : Nat :=
  if i < 0 then (i + n).toNat else if i > n then n else i.toNat

def insertAt (xs : List Val) (k : Nat) (v : Val) : List Val := xs.take k ++ v :: xs.drop k

def countVal (v : Val) (xs : List Val) : Nat := (xs.filter (· == v)).length

def isPermOf (p xs : List Val) : Bool :=
  p.length == xs.length && (p ++ xs).all (fun v => countVal v p == countVal v xs)

def insertSorted (v : Val) : List Val → List Val
  | [] => [v]
  | x :: xs => if v < x then v :: x :: xs else x :: insertSorted v xs

def sortVals (xs : List Val) : List Val := xs.foldl (fun acc v => insertSorted v acc) []

/-- `none` = the operation raises (IndexError / ValueError) and leaves the object as it was -/
def Op.apply : Op → List Val → Option (List Val)
  | .setitem i v, xs => (normIdx xs.length i).map (fun k => xs.set k v)
  | .delitem i, xs => (normIdx xs.length i).map (fun k => xs.eraseIdx k)
  | .append v, xs => some (xs ++ [v])
  | .extend vs, xs => some (xs ++ vs)
  | .insert i v, xs => some (insertAt xs (clampIdx xs.length i) v)
  | .pop i, xs => (normIdx xs.length i).map (fun k => xs.eraseIdx k)
  | .remove v, xs => if xs.contains v then some (xs.erase v) else none
  | .sort, xs => some (sortVals xs)
  | .permute p, xs => if isPermOf p xs then some p else none
  | .reverse, xs => some xs.reverse
  | .iadd vs, xs => some (xs ++ vs)
  | .clear, _ => some []
  | .setattr i v, xs => if i < xs.length then some (xs.set i v) else some (xs ++ [v])

/-! ## small-step semantics -/

abbrev Env := Nat → Option Loc

def upd (f : Env) (n : Nat) (v : Option Loc) : Env := fun m => if m = n then v else f m

def lookup (w e : Env) : Var → Option Loc
  | .s n => e n
  | .w n => w n

def Rhs.existing : Rhs → Bool
  | .nodeField | .param | .global | .unknown => true
  | _ => false

/-- evaluating a right-hand side: the resulting heap and the object (or `none` for a value that
    is not a mutable object: `None`, numbers, tuples, ...).
    * `fresh` allocates a new object with arbitrary contents (a copy, a literal, ...);
    * the four "existing" origins give *any* object whatsoever — one that existed before, or one
      created on the way (an unknown call may allocate);
    * `alias` copies the reference. -/
inductive EvalRhs (h : Heap) (w e : Env) : Rhs → Heap → Option Loc → Prop
  | fresh (cells : List Val) : EvalRhs h w e .fresh (h ++ [cells]) (some h.length)
  | freshNone : EvalRhs h w e .fresh h none
  | existing (r : Rhs) (hr : r.existing = true) (extra : List (List Val)) (v : Option Loc)
      (hv : ∀ l, v = some l → l < (h ++ extra).length) : EvalRhs h w e r (h ++ extra) v
  | alias (x : Var) : EvalRhs h w e (.alias x) h (lookup w e x)

/-- one statement of the mini language, in the activation whose strong environment is `e` -/
inductive ExecStmt : Stmt → Heap × Env × Env → Heap × Env × Env → Prop
  | bindS {h w e h' v} (ln n r) : EvalRhs h w e r h' v →
      ExecStmt (.bind ln (.s n) r) (h, w, e) (h', w, upd e n v)
  | bindW {h w e h' v} (ln n r) : EvalRhs h w e r h' v →
      ExecStmt (.bind ln (.w n) r) (h, w, e) (h', upd w n v, e)
  /-- the mutator `op` (of the statement's kind, arbitrary arguments) edits the object in place -/
  | mutate {h : Heap} {w e : Env} {l cells cells'} (ln k x) (op : Op) :
      lookup w e x = some l → h[l]? = some cells → op.kind = k → op.apply cells = some cells' →
      ExecStmt (.mutate ln k x) (h, w, e) (h.set l cells', w, e)
  /-- the target is not a mutable object (`i += 1`), or the operation raised without effect and
      the exception was handled -/
  | mutSkip {h w e} (ln k x) : ExecStmt (.mutate ln k x) (h, w, e) (h, w, e)

structure Frame where
  env : Env
  items : List Item

structure Config where
  heap : Heap
  wenv : Env
  /-- the live activations (not necessarily LIFO: generators) -/
  frames : List Frame

inductive Step (g : Group) : Config → Config → Prop
  /-- some function of the group is entered (a call, a callback, a re-entrant call) -/
  | call {h w fs} (f : Func) : f ∈ g.funcs →
      Step g ⟨h, w, fs⟩ ⟨h, w, ⟨fun _ => none, f.items⟩ :: fs⟩
  /-- an activation ends: it returns, or an exception leaves it part-way through -/
  | leave {h w} (pre : List Frame) (fr : Frame) (post : List Frame) :
      Step g ⟨h, w, pre ++ fr :: post⟩ ⟨h, w, pre ++ post⟩
  | top {h w e h' w' e'} (pre post : List Frame) (s : Stmt) (rest : List Item) :
      ExecStmt s (h, w, e) (h', w', e') →
      Step g ⟨h, w, pre ++ ⟨e, .top s :: rest⟩ :: post⟩ ⟨h', w', pre ++ ⟨e', rest⟩ :: post⟩
  | soupIn {h w e h' w' e'} (pre post : List Frame) (ss : List Stmt) (s : Stmt) (rest : List Item) :
      s ∈ ss → ExecStmt s (h, w, e) (h', w', e') →
      Step g ⟨h, w, pre ++ ⟨e, .soup ss :: rest⟩ :: post⟩ ⟨h', w', pre ++ ⟨e', .soup ss :: rest⟩ :: post⟩
  | soupOut {h w e} (pre post : List Frame) (ss : List Stmt) (rest : List Item) :
      Step g ⟨h, w, pre ++ ⟨e, .soup ss :: rest⟩ :: post⟩ ⟨h, w, pre ++ ⟨e, rest⟩ :: post⟩

/-- reflexive-transitive closure: every configuration a run can be in (so also every point at
    which an operation that raises part-way is abandoned) -/
inductive Steps (g : Group) : Config → Config → Prop
  | refl (c) : Steps g c c
  | tail {a b c} : Steps g a b → Step g b c → Steps g a c

/-! ## the freshness analysis

The obligation is decided by the Lean kernel over several thousand statements, so the abstract
state is a bit mask (`Nat`; the kernel evaluates `|||`, `^^^`, `<<<`, `testBit` natively):
bit `n` set = variable `n` may hold an object that is **not** fresh.  Which non-fresh origin
it is (node field / parameter / global / unknown) does not matter for soundness; it is recomputed
for the report by the `Origin`-valued copy of the same analysis in the last section. -/

abbrev Mask := Nat

def setBit (σ : Mask) (n : Nat) (b : Bool) : Mask :=
  if σ.testBit n == b then σ else σ ^^^ (1 <<< n)

/-- may variable `x` hold a non-fresh object? -/
def nf (T σ : Mask) : Var → Bool
  | .s n => σ.testBit n
  | .w n => T.testBit n

def Rhs.nonFresh (T σ : Mask) : Rhs → Bool
  | .fresh => false
  | .alias x => nf T σ x
  | _ => true

/-- `origin` of a variable in abstract state `(T, σ)`, as far as the obligation needs it -/
def isFresh (T σ : Mask) (x : Var) : Bool := !nf T σ x

/-- abstract execution of one statement; `none` = the obligation fails at this statement:
    a mutation whose target may be non-fresh, or a weak variable bound to something its table
    entry does not allow -/
def absStmt (T σ : Mask) : Stmt → Option Mask
  | .bind _ (.s n) r => some (setBit σ n (r.nonFresh T σ))
  | .bind _ (.w n) r => if r.nonFresh T σ && !T.testBit n then none else some σ
  | .mutate _ _ x => if nf T σ x then none else some σ

/-- joining (weak) update, used to find the invariant of a soup -/
def joinStmt (T : Mask) (σ : Mask) : Stmt → Mask
  | .bind _ (.s n) r => if r.nonFresh T σ then σ ||| (1 <<< n) else σ
  | _ => σ

def joinAll (T : Mask) (σ : Mask) (ss : List Stmt) : Mask := ss.foldl (joinStmt T) σ

def stabilize (T : Mask) : Nat → Mask → List Stmt → Mask
  | 0, σ, _ => σ
  | k + 1, σ, ss =>
    let σ' := joinAll T σ ss
    if σ' == σ then σ else stabilize T k σ' ss

/-- `σ ⊑ σ'`: whatever `σ'` calls fresh, `σ` calls fresh -/
def leS (σ σ' : Mask) : Bool := (σ ||| σ') == σ'

/-- inside a soup whose invariant is `σ`, statement `s` passes and keeps the invariant -/
def soupOk (T σ : Mask) (s : Stmt) : Bool :=
  match absStmt T σ s with
  | some σ'' => leS σ'' σ
  | none => false

def checkItems (T : Mask) : Mask → List Item → Bool
  | _, [] => true
  | σ, .top s :: rest =>
    match absStmt T σ s with
    | some σ' => checkItems T σ' rest
    | none => false
  | σ, .soup ss :: rest =>
    let σ' := stabilize T (ss.length + 1) σ ss
    leS σ σ' && ss.all (soupOk T σ') && checkItems T σ' rest

/-- every strong variable starts unbound (= fresh: nothing to protect) -/
def checkFunc (T : Mask) (f : Func) : Bool := checkItems T 0 f.items

def checkGroup (g : Group) (T : Mask) : Bool := g.funcs.all (checkFunc T)

/-! ### inference of the weak table (soundness rests on the check above only; the inference merely
    has to find a table that passes) -/

def collectStmt (σ : Mask) (T : Mask) : Stmt → Mask
  | .bind _ (.w n) r => if r.nonFresh T σ then T ||| (1 <<< n) else T
  | _ => T

def advance (T : Mask) (σ : Mask) : Stmt → Mask
  | .bind _ (.s n) r => setBit σ n (r.nonFresh T σ)
  | _ => σ

def collectItems : Mask → Mask → List Item → Mask
  | T, _, [] => T
  | T, σ, .top s :: rest =>
    let T' := collectStmt σ T s
    collectItems T' (advance T' σ s) rest
  | T, σ, .soup ss :: rest =>
    let σ' := stabilize T (ss.length + 1) σ ss
    let T' := ss.foldl (collectStmt σ') T
    collectItems T' σ' rest

def collectGroup (g : Group) (T : Mask) : Mask :=
  g.funcs.foldl (fun T f => collectItems T 0 f.items) T

def inferLoop (g : Group) : Nat → Mask → Mask
  | 0, T => T
  | k + 1, T =>
    let T' := collectGroup g T
    if T' == T then T else inferLoop g k T'

/-- the table of the weak variables of a group: bit `n` clear = `origin (Var.w n) = fresh` -/
def inferT (g : Group) : Mask := inferLoop g (g.nweak + 2) 0

def Group.ok (g : Group) : Bool := checkGroup g (inferT g)

/-- the per-run obligation over the regenerated table `Gen.PyMut.functions`: with the inferred
    origins, every binding respects the table and every mutation targets a variable whose origin
    is `fresh` -/
def AllMutationsFresh (gs : List Group) : Prop := gs.all Group.ok = true

instance (gs : List Group) : Decidable (AllMutationsFresh gs) := by
  unfold AllMutationsFresh; infer_instance

/-! ## report: the same analysis with the five origins kept apart

Used by the driver to say *which* site fails and what its target's origin is.  Not part of any
obligation. -/

namespace Report

abbrev Sigma := List Origin

def join (a b : Origin) : Origin := if a == .fresh then b else a
def le (a b : Origin) : Bool := a == .fresh || b != .fresh

def look (T σ : List Origin) : Var → Origin
  | .s n => σ.getD n .fresh
  | .w n => T.getD n .fresh

def evalR (T σ : List Origin) : Rhs → Origin
  | .fresh => .fresh
  | .nodeField => .nodeField
  | .param => .param
  | .global => .global
  | .unknown => .unknown
  | .alias x => look T σ x

def setO (σ : Sigma) (n : Nat) (o : Origin) : Sigma :=
  if n < σ.length then σ.set n o else σ ++ List.replicate (n - σ.length) .fresh ++ [o]

def fails (T σ : List Origin) : Stmt → Bool
  | .bind _ (.s _) _ => false
  | .bind _ (.w n) r => !le (evalR T σ r) (T.getD n .fresh)
  | .mutate _ _ x => look T σ x != .fresh

def advance (T σ : List Origin) : Stmt → Sigma
  | .bind _ (.s n) r => setO σ n (evalR T σ r)
  | _ => σ

def joinStmt (T : List Origin) (σ : Sigma) : Stmt → Sigma
  | .bind _ (.s n) r => setO σ n (join (σ.getD n .fresh) (evalR T σ r))
  | _ => σ

def stabilize (T : List Origin) : Nat → Sigma → List Stmt → Sigma
  | 0, σ, _ => σ
  | k + 1, σ, ss =>
    let σ' := ss.foldl (joinStmt T) σ
    if σ' == σ then σ else stabilize T k σ' ss

def collectStmt (σ : Sigma) (T : List Origin) : Stmt → List Origin
  | .bind _ (.w n) r => setO T n (join (T.getD n .fresh) (evalR T σ r))
  | _ => T

def collectItems : List Origin → Sigma → List Item → List Origin
  | T, _, [] => T
  | T, σ, .top s :: rest =>
    let T' := collectStmt σ T s
    collectItems T' (advance T' σ s) rest
  | T, σ, .soup ss :: rest =>
    let σ' := stabilize T (ss.length + 1) σ ss
    collectItems (ss.foldl (collectStmt σ') T) σ' rest

def inferLoop (g : Group) : Nat → List Origin → List Origin
  | 0, T => T
  | k + 1, T =>
    let T' := g.funcs.foldl (fun T f => collectItems T [] f.items) T
    if T' == T then T else inferLoop g k T'

def inferT (g : Group) : List Origin := inferLoop g (g.nweak + 2) []

structure Failure where
  group : String
  file : String
  func : String
  line : Nat
  what : String
  var : String
  origin : Origin
  deriving Repr

def kindName : MutKind → String
  | .setitem => "setitem" | .delitem => "delitem" | .append => "append" | .extend => "extend"
  | .insert => "insert" | .pop => "pop" | .remove => "remove" | .sort => "sort"
  | .reverse => "reverse" | .iadd => "iadd" | .clear => "clear" | .setattr => "setattr"

def varName (g : Group) (f : Func) : Var → String
  | .s n => f.strong.getD n s!"s{n}"
  | .w n => g.weak.getD n s!"w{n}"

def stmtFailure (g : Group) (f : Func) (T σ : List Origin) (s : Stmt) : List Failure :=
  if fails T σ s then
    match s with
    | .mutate ln k x => [⟨g.name, g.file, f.name, ln, s!"mut {kindName k}", varName g f x, look T σ x⟩]
    | .bind ln x r => [⟨g.name, g.file, f.name, ln, "bind", varName g f x, evalR T σ r⟩]
  else []

def failuresItems (g : Group) (f : Func) (T : List Origin) : Sigma → List Item → List Failure
  | _, [] => []
  | σ, .top s :: rest => stmtFailure g f T σ s ++ failuresItems g f T (advance T σ s) rest
  | σ, .soup ss :: rest =>
    let σ' := stabilize T (ss.length + 1) σ ss
    ss.flatMap (stmtFailure g f T σ') ++ failuresItems g f T σ' rest

def failures (g : Group) : List Failure :=
  let T := inferT g
  g.funcs.flatMap (fun f => failuresItems g f T [] f.items)

end Report

end Exo.PyHeap
