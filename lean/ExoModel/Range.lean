/-
  ExoModel.Range — literal executable model of exo's constant range analysis
  (src/exo/rewrite/range_analysis.py and its user-level copy src/exo/stdlib/range_analysis.py).

  What is mirrored (function by function, quirks included):
    IndexRange.{create_unbounded, create_int, create_constant_range, get_bounds, get_stride_of,
                partial_eval_with_range, get_size, __str__, __add__, __radd__, __neg__, __sub__,
                __rsub__, __mul__, __rmul__, __floordiv__, __mod__, __or__}
    index_range_analysis (with Python's `int | IndexRange` operator dispatch, exceptions as data)
    constant_bound, IndexRangeEnvironment.{__init__ (fast), enter_scope, exit_scope, add_loop_iter,
                _check_range, check_expr_bound, check_expr_bounds}
    stdlib: constant_bound (tests `base is not None`), infer_range (environment keyed by the
            *printed name* of the loop variable), bounds_inference (fold of `|`)
    LoopIR_Compare.match_e on index expressions (reads are compared by name string only)

  Python values are modelled as follows
    int                      ↦ Int              (`//`, `%` of Python ints are `Int.fdiv`, `Int.fmod`)
    None | int               ↦ Option Int
    IndexRange               ↦ IndexRange       (`base` is never `None` in any code path; the two
                                                 `base is None` tests are therefore constant, see
                                                 `baseIsNone`)
    int | IndexRange | the ValueError *object* returned (not raised) by `__floordiv__(0)`
      | a raised exception   ↦ Res
  No Mathlib.  Everything is total and computable.
-/
import ExoModel.Syntax

namespace Exo.Range

/-! ## index expressions and their meaning -/

inductive Op | add | sub | mul | div | mod
deriving DecidableEq, Repr, Inhabited

/-- index expressions: LoopIR `Read` (no indices), `Const`, `USub`, `BinOp` with `+ - * / %`;
    `other` stands for any node whose type is not indexable (data reads, comparisons, …) -/
inductive IExpr
  | var (x : Sym)
  | const (n : Int)
  | neg (a : IExpr)
  | bin (op : Op) (a b : IExpr)
  | other
deriving DecidableEq, Repr, Inhabited

abbrev Val := Sym → Int

def evalOp : Op → Int → Int → Int
  | .add, a, b => a + b
  | .sub, a, b => a - b
  | .mul, a, b => a * b
  | .div, a, b => a / b
  | .mod, a, b => a % b

/-- reference meaning; `/` and `%` are Lean's `Int./`, `Int.%` (floor division and modulo for the
    positive divisors that exo's front end admits) -/
def eval : IExpr → Val → Int
  | .var x, ρ => ρ x
  | .const n, _ => n
  | .neg a, ρ => - eval a ρ
  | .bin op a b, ρ => evalOp op (eval a ρ) (eval b ρ)
  | .other, _ => 0

/-- the symbols read by an expression (with repetitions, left to right) -/
def IExpr.vars : IExpr → List Sym
  | .var x => [x]
  | .const _ => []
  | .neg a => a.vars
  | .bin _ a b => a.vars ++ b.vars
  | .other => []

def Op.str : Op → String
  | .add => "+" | .sub => "-" | .mul => "*" | .div => "/" | .mod => "%"

/-- canonical prefix text (the wire format of the driver) -/
def IExpr.str : IExpr → String
  | .var x => "v " ++ x.name ++ " " ++ toString x.id
  | .const n => "c " ++ toString n
  | .neg a => "n " ++ a.str
  | .bin op a b => op.str ++ " " ++ a.str ++ " " ++ b.str
  | .other => "o"

/-! ## Python-level values -/

/-- exception classes that the modelled code can raise -/
inductive Exc | assertion | type | zeroDiv | value | attribute | key
deriving DecidableEq, Repr, Inhabited

def Exc.str : Exc → String
  | .assertion => "AssertionError" | .type => "TypeError" | .zeroDiv => "ZeroDivisionError"
  | .value => "ValueError" | .attribute => "AttributeError" | .key => "KeyError"

/-- `[base + lo, base + hi]`, a missing end means "no constant bound" -/
structure IndexRange where
  base : IExpr
  lo : Option Int
  hi : Option Int
deriving DecidableEq, Repr, Inhabited

/-- what a Python expression of "type" `int | IndexRange` evaluates to -/
inductive Res
  | int (n : Int)
  | rng (r : IndexRange)
  | verr                 -- the ValueError object that `__floordiv__` *returns* for c == 0
  | exc (e : Exc)        -- a raised exception
deriving DecidableEq, Repr, Inhabited

def zero : IExpr := .const 0

def isZero : IExpr → Bool
  | .const n => n == 0
  | _ => false

/-- `x.base is None`: no constructor call in exo passes `None`, so this is constantly false -/
def baseIsNone (_ : IndexRange) : Bool := false

def optStr (none_ : String) : Option Int → String
  | none => none_
  | some n => toString n

def IndexRange.createUnbounded : IndexRange := ⟨zero, none, none⟩
def IndexRange.createInt (x : Int) : IndexRange := ⟨zero, some x, some x⟩
def IndexRange.createConstantRange (lo hi : Option Int) : IndexRange := ⟨zero, lo, hi⟩

/-- canonical text of a range -/
def IndexRange.str (r : IndexRange) : String :=
  "R " ++ optStr "N" r.lo ++ " " ++ optStr "N" r.hi ++ " " ++ r.base.str

def Res.str : Res → String
  | .int n => "I " ++ toString n
  | .rng r => r.str
  | .verr => "V"
  | .exc e => "X " ++ e.str

/-- `get_bounds`: the pair (which end is infinite, the offset printed next to the base).
    Python returns strings `(base + lo, base + hi + 1)`; only the structure is kept:
    for a zero base the *inclusive* `hi` is printed (sic), otherwise `hi + 1`. -/
def IndexRange.getBounds (r : IndexRange) : (Bool × Option Int) × (Bool × Option Int) :=
  if isZero r.base then ((false, r.lo), (false, r.hi))
  else ((true, r.lo), (true, r.hi.map (· + 1)))

def IndexRange.getSize (r : IndexRange) : Option Int :=
  match r.lo, r.hi with
  | some l, some h => some (h - l + 1)
  | _, _ => none

/-! ### `get_stride_of` -/

/-- `get_coeff` of `get_stride_of`: children are evaluated before the operator is inspected -/
def getCoeff (idx : Sym) : IExpr → Except Exc Int
  | .var x => .ok (if x = idx then 1 else 0)
  | .const n => .ok n
  | .bin op a b =>
    match getCoeff idx a with
    | .error e => .error e
    | .ok l =>
      match getCoeff idx b with
      | .error e => .error e
      | .ok r =>
        match op with
        | .add => .ok (l + r)
        | .sub => .ok (l - r)
        | .mul => .ok (l * r)
        | _ => .error .value
  | .neg a =>
    match getCoeff idx a with
    | .error e => .error e
    | .ok c => .ok (-c)
  | .other => .ok 0

def IndexRange.getStrideOf (r : IndexRange) (idx : Sym) : Except Exc Int := getCoeff idx r.base

/-! ### arithmetic of `IndexRange` -/

/-- `__add__` with an `int` -/
def IndexRange.addInt (r : IndexRange) (c : Int) : IndexRange :=
  ⟨r.base, r.lo.map (· + c), r.hi.map (· + c)⟩

def optAdd : Option Int → Option Int → Option Int
  | some a, some b => some (a + b)
  | _, _ => none

/-- `__add__` with an `IndexRange` -/
def IndexRange.addRng (r s : IndexRange) : IndexRange :=
  let newBase :=
    if isZero r.base then s.base
    else if isZero s.base then r.base
    else .bin .add r.base s.base
  ⟨newBase, optAdd r.lo s.lo, optAdd r.hi s.hi⟩

/-- `__neg__` -/
def IndexRange.neg (r : IndexRange) : IndexRange :=
  ⟨if isZero r.base then zero else .neg r.base, r.hi.map (- ·), r.lo.map (- ·)⟩

/-- `__mul__` (returns the *int* 0 for c == 0) -/
def IndexRange.mul (r : IndexRange) (c : Int) : Res :=
  if c == 0 then .int 0
  else
    let newBase := if isZero r.base then zero else .bin .mul r.base (.const c)
    let newLo := r.lo.map (· * c)
    let newHi := r.hi.map (· * c)
    if c > 0 then .rng ⟨newBase, newLo, newHi⟩ else .rng ⟨newBase, newHi, newLo⟩

/-- `__floordiv__` (returns a ValueError object for c == 0, unbounded for c < 0) -/
def IndexRange.floordiv (r : IndexRange) (c : Int) : Res :=
  if c == 0 then .verr
  else if c < 0 then .rng .createUnbounded
  else if isZero r.base then
    .rng (.createConstantRange (r.lo.map (Int.fdiv · c)) (r.hi.map (Int.fdiv · c)))
  else
    let newBase := IExpr.bin .div r.base (.const c)
    match r.lo, r.hi with
    | some l, some h => .rng ⟨newBase, some (Int.fdiv l c), some (Int.fdiv h c + 1)⟩
    | _, _ => .rng ⟨newBase, none, none⟩

/-- `__mod__` (no test on the sign of `c`; `lo // c` raises for c == 0 only when it is reached) -/
def IndexRange.mod (r : IndexRange) (c : Int) : Res :=
  match isZero r.base, r.lo, r.hi with
  | true, some l, some h =>
    if c == 0 then .exc .zeroDiv
    else if Int.fdiv l c == Int.fdiv h c then
      .rng (.createConstantRange (some (Int.fmod l c)) (some (Int.fmod h c)))
    else .rng (.createConstantRange (some 0) (some (c - 1)))
  | _, _, _ => .rng (.createConstantRange (some 0) (some (c - 1)))

/-- `LoopIR_Compare.match_e` restricted to index expressions: reads are compared by their
    *name string*, not by symbol identity -/
def matchE : IExpr → IExpr → Bool
  | .var x, .var y => x.name == y.name
  | .const a, .const b => a == b
  | .neg a, .neg b => matchE a b
  | .bin o a b, .bin o' a' b' => o == o' && matchE a a' && matchE b b'
  | _, _ => false

def orEnd (pick : Int → Int → Int) : Option Int → Option Int → Option Int
  | none, y => y
  | some x, none => some x
  | some x, some y => some (pick x y)

/-- `__or__` ("join"): a missing end of one side is replaced by the other side's end (sic) -/
def IndexRange.or (r s : IndexRange) : IndexRange :=
  if (isZero r.base && baseIsNone s) || matchE r.base s.base then
    ⟨r.base, orEnd min r.lo s.lo, orEnd max r.hi s.hi⟩
  else .createUnbounded

/-! ### Python operator dispatch on `int | IndexRange` (and the stray ValueError object) -/

def pyNeg : Res → Res
  | .int n => .int (-n)
  | .rng r => .rng r.neg
  | .verr => .exc .type
  | .exc e => .exc e

def pyAdd : Res → Res → Res
  | .exc e, _ => .exc e
  | _, .exc e => .exc e
  | .int a, .int b => .int (a + b)
  | .int a, .rng r => .rng (r.addInt a)          -- int.__add__ ↦ NotImplemented; __radd__
  | .rng r, .int b => .rng (r.addInt b)
  | .rng r, .rng s => .rng (r.addRng s)
  | .rng _, .verr => .exc .assertion            -- assert isinstance(other, (int, IndexRange))
  | .verr, .rng _ => .exc .assertion            -- __radd__: assert isinstance(c, int)
  | _, _ => .exc .type

def pySub : Res → Res → Res
  | .exc e, _ => .exc e
  | _, .exc e => .exc e
  | .int a, .int b => .int (a - b)
  | .rng r, .int b => .rng (r.addInt (-b))       -- self + (-other)
  | .rng r, .rng s => .rng (r.addRng s.neg)
  | .int a, .rng r => .rng (r.neg.addInt a)      -- __rsub__: -self + c
  | .rng _, .verr => .exc .assertion
  | .verr, .rng _ => .exc .assertion
  | _, _ => .exc .type

def pyMul : Res → Res → Res
  | .exc e, _ => .exc e
  | _, .exc e => .exc e
  | .int a, .int b => .int (a * b)
  | .rng r, .int c => r.mul c
  | .int c, .rng r => r.mul c                    -- __rmul__
  | .rng _, .rng _ => .exc .assertion
  | .rng _, .verr => .exc .assertion
  | .verr, .rng _ => .exc .assertion
  | _, _ => .exc .type

def pyFloordiv : Res → Res → Res
  | .exc e, _ => .exc e
  | _, .exc e => .exc e
  | .int a, .int b => if b == 0 then .exc .zeroDiv else .int (Int.fdiv a b)
  | .rng r, .int c => r.floordiv c
  | .rng _, .rng _ => .exc .assertion
  | .rng _, .verr => .exc .assertion
  | _, _ => .exc .type                           -- no __rfloordiv__

def pyMod : Res → Res → Res
  | .exc e, _ => .exc e
  | _, .exc e => .exc e
  | .int a, .int b => if b == 0 then .exc .zeroDiv else .int (Int.fmod a b)
  | .rng r, .int c => r.mod c
  | .rng _, .rng _ => .exc .assertion
  | .rng _, .verr => .exc .assertion
  | _, _ => .exc .type                           -- no __rmod__

def pyBin : Op → Res → Res → Res
  | .add => pyAdd | .sub => pySub | .mul => pyMul | .div => pyFloordiv | .mod => pyMod

/-! ## `index_range_analysis` -/

abbrev Bound := Option Int × Option Int

/-- an environment as the analysis sees it: `sym in env`, `env[sym]` -/
abbrev Look := Sym → Option Bound

/-- `index_range_analysis(expr, env)`; the left operand is analysed first, an exception of the
    left operand therefore wins (first clause of every `py…` function) -/
def analyze (env : Look) : IExpr → Res
  | .other => .exc .value
  | .var x =>
    match env x with
    | none => .rng ⟨.var x, some 0, some 0⟩
    | some (lo, hi) => .rng (.createConstantRange lo hi)
  | .const n => .int n
  | .neg a => pyNeg (analyze env a)
  | .bin op a b => pyBin op (analyze env a) (analyze env b)

/-- first argument of `constant_bound`, `check_expr_bound`: an expression or a Python int -/
inductive EI
  | e (x : IExpr)
  | i (n : Int)
deriving DecidableEq, Repr, Inhabited

def EI.eval : EI → Val → Int
  | .e x, ρ => Range.eval x ρ
  | .i n, _ => n

/-- what `constant_bound` does with the analysis result (compiler version: `is_zero(base)`) -/
def constantBoundOf : Res → Except Exc Bound
  | .int n => .ok (some n, some n)
  | .rng r => if isZero r.base then .ok (r.lo, r.hi) else .ok (none, none)
  | .verr => .error .attribute
  | .exc e => .error e

def constantBound (env : Look) : EI → Except Exc Bound
  | .i n => .ok (some n, some n)
  | .e x => constantBoundOf (analyze env x)

/-- `IndexRange.partial_eval_with_range`: note that `self.lo` / `self.hi` are not used -/
def IndexRange.partialEvalWithRange (self : IndexRange) (var : Sym) (rng : IndexRange) : Res :=
  match self.getStrideOf var with
  | .error e => .exc e
  | .ok c =>
    if c == 0 then .rng self
    else
      let newBounds := analyze (fun y => if y = var then some (rng.lo, rng.hi) else none) self.base
      if isZero rng.base then newBounds
      else pyAdd newBounds (.rng ⟨.bin .mul (.const c) rng.base, some 0, some 0⟩)

/-! ## `IndexRangeEnvironment` -/

/-- a `ChainMap`: innermost scope first; inside a scope the most recent assignment first -/
abbrev Env := List (List (Sym × Bound))

def lookupScope (x : Sym) : List (Sym × Bound) → Option Bound
  | [] => none
  | (y, b) :: r => if x = y then some b else lookupScope x r

def Env.lookup : Env → Look
  | [], _ => none
  | s :: rest, x =>
    match lookupScope x s with
    | some b => some b
    | none => Env.lookup rest x

/-- `IndexRangeEnvironment.__init__(proc, fast=True)`: every `size` argument gets `(1, None)` -/
def Env.init (sizeArgs : List Sym) : Env := [sizeArgs.reverse.map (fun x => (x, (some 1, none)))]

/-- `__init__` with given (e.g. SMT-derived, `fast=False`) ranges for the size arguments -/
def Env.initWith (sizeArgs : List (Sym × Bound)) : Env := [sizeArgs.reverse]

def Env.enterScope (env : Env) : Env := [] :: env

/-- `ChainMap.parents` (a ChainMap always keeps at least one map) -/
def Env.exitScope : Env → Env
  | [] => [[]]
  | [_] => [[]]
  | _ :: rest => rest

/-- `self.env[sym] = v` writes into the first map -/
def Env.set (env : Env) (x : Sym) (b : Bound) : Env :=
  match env with
  | [] => [[(x, b)]]
  | s :: rest => ((x, b) :: s) :: rest

def Env.addLoopIter (env : Env) (x : Sym) (lo hi : EI) : Except Exc Env :=
  match constantBound env.lookup lo with
  | .error e => .error e
  | .ok (l, _) =>
    match constantBound env.lookup hi with
    | .error e => .error e
    | .ok (_, h) =>
      let h' := h.map (· - 1)
      let symRange : Bound :=
        match l, h' with
        | some a, some b => if a > b then (none, none) else (some a, some b)
        | _, _ => (l, h')
      .ok (env.set x symRange)

inductive Cmp | lt | leq | eq
deriving DecidableEq, Repr, Inhabited

def Cmp.holds : Cmp → Int → Int → Prop
  | .lt, a, b => a < b
  | .leq, a, b => a ≤ b
  | .eq, a, b => a = b

/-- `IndexRangeEnvironment._check_range` -/
def checkRange (r0 : Bound) (op : Cmp) (r1 : Bound) : Bool :=
  match r0.2, r1.1 with
  | some h0, some l1 =>
    match op with
    | .lt => h0 < l1
    | .leq => h0 ≤ l1
    | .eq =>
      match r0.1, r1.2 with
      | some l0, some h1 => l0 == h0 && h0 == l1 && l1 == h1
      | _, _ => false
  | _, _ => false

def checkExprBound (env : Look) (e0 : EI) (op : Cmp) (e1 : EI) : Except Exc Bool :=
  match constantBound env e0 with
  | .error e => .error e
  | .ok r0 =>
    match constantBound env e1 with
    | .error e => .error e
    | .ok r1 => .ok (checkRange r0 op r1)

def checkExprBounds (env : Look) (e0 : EI) (op0 : Cmp) (e1 : EI) (op1 : Cmp) (e2 : EI) :
    Except Exc Bool :=
  match constantBound env e0 with
  | .error e => .error e
  | .ok r0 =>
    match constantBound env e1 with
    | .error e => .error e
    | .ok r1 =>
      match constantBound env e2 with
      | .error e => .error e
      | .ok r2 => .ok (checkRange r0 op0 r1 && checkRange r1 op1 r2)

/-- the compiler's `is_non_neg = check_expr_bound(0, leq, e)` (lift_to_cir / comp_e) -/
def isNonNeg (env : Look) (e : IExpr) : Except Exc Bool := checkExprBound env (.i 0) .leq (.e e)

/-! ## the user-level copy (exo.stdlib.range_analysis) -/

/-- stdlib `constant_bound`: tests `idx_rng.base is not None`, which always holds -/
def stdConstantBoundOf : Res → Except Exc Bound
  | .int n => .ok (some n, some n)
  | .rng r => if !baseIsNone r then .ok (none, none) else .ok (r.lo, r.hi)
  | .verr => .error .attribute
  | .exc e => .error e

/-- the stdlib environment is a dict keyed by the *name string* of the loop variable -/
abbrev NameEnv := List (String × Bound)

def NameEnv.lookup (env : NameEnv) : Look := fun x =>
  match env.find? (fun p => p.1 == x.name) with
  | some p => some p.2
  | none => none

/-- the loop of `infer_range`: `loops` are the enclosing `for`s below `scope`, *innermost first*
    (the order of `get_parents`); each is `(iter, lo, hi)` -/
def inferEnv : List (Sym × IExpr × IExpr) → NameEnv → Except Exc NameEnv
  | [], env => .ok env
  | (x, lo, hi) :: rest, env =>
    match stdConstantBoundOf (analyze env.lookup lo) with
    | .error e => .error e
    | .ok (l, _) =>
      match stdConstantBoundOf (analyze env.lookup hi) with
      | .error e => .error e
      | .ok (_, h) => inferEnv rest ((x.name, (l, h.map (· - 1))) :: env)

/-- `infer_range(idx_expr, scope)`; an int result is wrapped by `create_int` -/
def inferRange (loops : List (Sym × IExpr × IExpr)) (e : IExpr) : Res :=
  match inferEnv loops [] with
  | .error ex => .exc ex
  | .ok env =>
    match analyze env.lookup e with
    | .int n => .rng (.createInt n)
    | r => r

/-- the fold of `bounds_inference` (`bound = None` is the neutral start) -/
def boundsJoin : List IndexRange → Option IndexRange
  | [] => none
  | r :: rest => some (rest.foldl IndexRange.or r)

/-- `index_range_analysis_wrapper` of LoopIR_scheduling (empty environment) -/
def analysisWrapper (e : IExpr) : Res :=
  match analyze (fun _ => none) e with
  | .int n => .rng (.createInt n)
  | r => r

end Exo.Range
