/-
  ExoModel.Equiv — what "p' behaves like p" means (DESIGN 1.1).

  * `ExEq r r'`      : two outcomes agree up to the identity of the error (both fail, or both
                        succeed with the same state)
  * `BlockEq B B'`   : the two blocks have `ExEq` outcomes from every state, for every data
                        algebra and every interpretation of extern functions
  * `Ctx`, `fill`    : one-hole statement contexts
  * `Refines`        : poison order on final states (undefined cells may become defined),
                        configuration compared outside a set `K` of fields
  * `Equiv K p p'`   : every successful run of `p` is matched by a successful run of `p'`
                        from the same initial state, with a refined final state modulo `K`
-/
import ExoModel.Sem

namespace Exo

def ExEq {α : Type} (r r' : Except Err α) : Prop := r.toOption = r'.toOption

theorem ExEq.refl {α} (r : Except Err α) : ExEq r r := rfl
theorem ExEq.symm {α} {r r' : Except Err α} (h : ExEq r r') : ExEq r' r := Eq.symm h
theorem ExEq.trans {α} {a b c : Except Err α} (h : ExEq a b) (h' : ExEq b c) : ExEq a c :=
  Eq.trans h h'

theorem ExEq.of_eq {α} {r r' : Except Err α} (h : r = r') : ExEq r r' := by rw [h]; rfl

theorem ExEq.bind_congr {α β} {r r' : Except Err α} {f g : α → Except Err β}
    (h : ExEq r r') (hf : ∀ a, ExEq (f a) (g a)) : ExEq (r >>= f) (r' >>= g) := by
  unfold ExEq at *
  cases r <;> cases r' <;> simp [Except.toOption, bind, Except.bind] at * 
  · subst h; exact hf _

theorem ExEq.map_congr {α β} {r r' : Except Err α} (f : α → β)
    (h : ExEq r r') : ExEq (r.map f) (r'.map f) := by
  unfold ExEq at *
  cases r <;> cases r' <;> simp [Except.toOption, Except.map] at *
  · subst h; rfl

theorem ExEq.ok_iff {α} {r r' : Except Err α} (h : ExEq r r') (a : α) :
    r = .ok a ↔ r' = .ok a := by
  unfold ExEq at h
  cases r <;> cases r' <;> simp [Except.toOption] at * 
  · subst h; rfl

/-- one-directional version: whenever `r` succeeds, `r'` succeeds with the same value -/
def ExLe {α : Type} (r r' : Except Err α) : Prop := ∀ a, r = .ok a → r' = .ok a

theorem ExLe.refl {α} (r : Except Err α) : ExLe r r := fun _ h => h
theorem ExLe.trans {α} {a b c : Except Err α} (h : ExLe a b) (h' : ExLe b c) : ExLe a c :=
  fun x hx => h' x (h x hx)
theorem ExEq.le {α} {r r' : Except Err α} (h : ExEq r r') : ExLe r r' :=
  fun a ha => (ExEq.ok_iff h a).1 ha

theorem ExLe.bind_congr {α β} {r r' : Except Err α} {f g : α → Except Err β}
    (h : ExLe r r') (hf : ∀ a, ExLe (f a) (g a)) : ExLe (r >>= f) (r' >>= g) := by
  intro b hb
  cases r with
  | error e => simp [bind, Except.bind] at hb
  | ok a =>
    rw [h a rfl]
    simp only [bind, Except.bind] at hb ⊢
    exact hf a b hb

theorem ExLe.map_congr {α β} {r r' : Except Err α} (f : α → β)
    (h : ExLe r r') : ExLe (r.map f) (r'.map f) := by
  intro b hb
  cases r with
  | error e => simp [Except.map] at hb
  | ok a => rw [h a rfl]; exact hb

theorem ExEq.of_le_le {α} {r r' : Except Err α} (h : ExLe r r') (h' : ExLe r' r) : ExEq r r' := by
  unfold ExEq
  cases r with
  | ok a => rw [h a rfl]
  | error e =>
    cases r' with
    | ok a => have := h' a rfl; cases this
    | error e' => rfl

/-- `B'` does at least what `B` does: every successful run of `B` is a run of `B'` -/
def BlockLe (B B' : List Stmt) : Prop :=
  ∀ (V : Type) [DataAlg V] (ext : String → List V → V) (σ : State V),
    ExLe (execL ext B σ) (execL ext B' σ)

/-- blocks with the same behaviour from every state -/
def BlockEq (B B' : List Stmt) : Prop :=
  ∀ (V : Type) [DataAlg V] (ext : String → List V → V) (σ : State V),
    ExEq (execL ext B σ) (execL ext B' σ)

/-- one-hole contexts over statement blocks -/
inductive Ctx where
  | hole
  | seq (pre : List Stmt) (c : Ctx) (post : List Stmt)
  | loop (i : Sym) (lo hi : Expr) (par : Bool) (c : Ctx)
  | iteT (cond : Expr) (c : Ctx) (e : List Stmt)
  | iteE (cond : Expr) (t : List Stmt) (c : Ctx)

def Ctx.fill : Ctx → List Stmt → List Stmt
  | .hole, B => B
  | .seq pre c post, B => pre ++ c.fill B ++ post
  | .loop i lo hi par c, B => [.loop i lo hi (c.fill B) par]
  | .iteT cond c e, B => [.ite cond (c.fill B) e]
  | .iteE cond t c, B => [.ite cond t (c.fill B)]

variable {V : Type}

/-- poison refinement of one cell -/
def CellRefines (a b : Option V) : Prop := a = none ∨ a = b

def CfgValRefines : CfgVal V → CfgVal V → Prop
  | .ctrl a, .ctrl b => a = b
  | .data a, .data b => CellRefines a b
  | _, _ => False

/-- final-state refinement modulo the configuration fields in `K` -/
structure Refines (K : String × String → Prop) (o o' : State V) : Prop where
  heapLen : o.heap.length = o'.heap.length
  cells : ∀ c, CellRefines (heapGet o.heap c) (heapGet o'.heap c)
  cfg : ∀ k, ¬ K k → ∀ v, lookupCfg k o.cfg = some v →
          ∃ v', lookupCfg k o'.cfg = some v' ∧ CfgValRefines v v'

/-- `Equiv K p p'`: every successful run of `p` is matched by a successful run of `p'` from the
    same initial state (same arguments, buffers, configuration) with a refined final state; a
    monitor that does not trip in `p` does not trip in `p'`.  Not symmetric on purpose. -/
def Equiv (K : String × String → Prop) (p p' : Proc) : Prop :=
  ∀ (V : Type) [DataAlg V] (ext : String → List V → V) (σ o : State V),
    execB ext p.body σ = .ok o → ∃ o', execB ext p'.body σ = .ok o' ∧ Refines K o o'

end Exo

namespace Exo

/-- `Equiv` restricted to initial states satisfying `Pre` (e.g. the procedure's assertions) -/
def EquivOn (Pre : ∀ (V : Type), State V → Prop) (K : String × String → Prop) (p p' : Proc) : Prop :=
  ∀ (V : Type) [DataAlg V] (ext : String → List V → V) (σ o : State V), Pre V σ →
    execB ext p.body σ = .ok o → ∃ o', execB ext p'.body σ = .ok o' ∧ Refines K o o'

/-- the initial state satisfies the procedure's assertions and argument shapes, and no buffer is
    bound to two arguments -/
def ValidIn (p : Proc) (V : Type) (σ : State V) : Prop :=
  checkPreds σ p.preds = .ok () ∧ checkShapes σ p.args = .ok () ∧ noAlias σ.views = true

end Exo
