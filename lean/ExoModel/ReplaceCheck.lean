/-
  ExoModel.ReplaceCheck — the per-instance validator of `replace` (property C05).

  The unifier (src/exo/rewrite/LoopIR_unification.py, 1.2 kLOC with an SMT-backed linear solver) is
  not modelled.  Every call `f(args)` a real `replace` puts in place of a block `blk` is checked by
  `checkReplace blk f args`: walking the callee's body and the block side by side (`matchL`), with
  the formals standing for the inferred actuals.  `predsObligations` are the callee's assertions
  and the size / shape requirements of its signature, written over the caller's variables.
-/
import ExoModel.Inline

namespace Exo.Inline
open Exo

/-- the validator: the block is an instance of the callee's body under the inferred arguments -/
def checkReplace (blk : List Stmt) (f : Proc) (args : List Expr) : Bool :=
  match mkSubst f.args args [] with
  | some θ => pureSubst θ && (matchL θ f.body blk).isSome
  | none => false

/-- `0 < a` for every actual `a` of a `size` formal (`bindArgs` rejects non-positive sizes) -/
def sizeObl : List FnArg → List Expr → List Expr
  | ⟨_, .ctrl .size⟩ :: fs, a :: as => .binop .lt (.lit (.int 0)) a :: sizeObl fs as
  | _ :: fs, _ :: as => sizeObl fs as
  | _, _ => []

def orFalse : Option Expr → Expr
  | some e => e
  | none => .lit (.bool false)

/-- extents of the interval dimensions of a window must be the declared extents -/
def winShapeObl (θ : Subst) : List WAcc → List Expr → List Expr
  | [], [] => []
  | .point _ :: as, sh => winShapeObl θ as sh
  | .interval lo hi :: as, s :: sh =>
      .binop .eq (.binop .sub hi lo) (orFalse (substC θ s)) :: winShapeObl θ as sh
  | _, _ => [.lit (.bool false)]

/-- shape requirements of the tensor formals.  `decl` gives the declared shapes of the caller's
    buffers (needed when a buffer is passed whole); a buffer `decl` does not list gets no
    obligation (the run-time monitor `shapeMismatch` still checks it). -/
def shapeObl (θ : Subst) (decl : List (Sym × List Expr)) : List FnArg → List Expr → List Expr
  | ⟨_, .tensor sh _⟩ :: fs, .win _ w :: as => winShapeObl θ w sh ++ shapeObl θ decl fs as
  | ⟨_, .tensor sh _⟩ :: fs, .read y [] :: as =>
      (match lookupSym y decl with
       | some dsh =>
          if dsh.length == sh.length then
            (dsh.zip sh).map (fun p => .binop .eq p.1 (orFalse (substC θ p.2)))
          else [.lit (.bool false)]
       | none => []) ++ shapeObl θ decl fs as
  | ⟨_, .scalar⟩ :: fs, .read y [] :: as =>
      (match lookupSym y decl with
       | some dsh => if dsh.isEmpty then [] else [.lit (.bool false)]
       | none => []) ++ shapeObl θ decl fs as
  | _ :: fs, _ :: as => shapeObl θ decl fs as
  | _, _ => []

/-- a window actual must lie inside the caller's buffer (`evalView` checks it when the call binds
    its arguments): `0 ≤ p < d` for a point, `0 ≤ lo ≤ hi ≤ d` for an interval -/
def winBoundsObl : List WAcc → List Expr → List Expr
  | [], [] => []
  | .point p :: as, d :: ds =>
      .binop .le (.lit (.int 0)) p :: .binop .lt p d :: winBoundsObl as ds
  | .interval lo hi :: as, d :: ds =>
      .binop .le (.lit (.int 0)) lo :: .binop .le lo hi :: .binop .le hi d :: winBoundsObl as ds
  | _, _ => [.lit (.bool false)]

def boundsObl (decl : List (Sym × List Expr)) : List Expr → List Expr
  | [] => []
  | .win y w :: as => (match lookupSym y decl with
      | some dsh => winBoundsObl w dsh
      | none => []) ++ boundsObl decl as
  | _ :: as => boundsObl decl as

def predObl (θ : Subst) : List Expr → List Expr
  | [] => []
  | p :: ps => orFalse (substC θ p) :: predObl θ ps

/-- the facts that must hold in every state that reaches the call: sizes positive, shapes as
    declared, the callee's assertions — all instantiated at the call, over the caller's names -/
def predsObligationsD (decl : List (Sym × List Expr)) (f : Proc) (args : List Expr) : List Expr :=
  match mkSubst f.args args [] with
  | some θ => sizeObl f.args args ++ boundsObl decl args ++ shapeObl θ decl f.args args ++
      predObl θ f.preds
  | none => [.lit (.bool false)]

/-- (`blk` is not needed to state them; kept for the interface) -/
def predsObligations (_blk : List Stmt) (f : Proc) (args : List Expr) : List Expr :=
  predsObligationsD [] f args

/-- all obligations evaluate to true -/
def ObligationsHold {V : Type} (σ : State V) (obls : List Expr) : Prop :=
  ∀ e, e ∈ obls → ∃ v, evalC σ e = .ok v ∧ v ≠ 0

/-! ### well-formedness of an inlining -/

def formalNames : List FnArg → List Sym
  | [] => []
  | ⟨x, _⟩ :: r => x :: formalNames r

def distinctSyms : List Sym → Bool
  | [] => true
  | x :: r => !r.contains x && distinctSyms r

/-- no formal of the callee is mentioned by an actual -/
def formalsFresh (xs : List Sym) (args : List Expr) : Bool :=
  xs.all (fun x => args.all (fun a => !mentionsE x a))

mutual
/-- every name the statement binds is, at its binding site, not mentioned by anything in scope
    (actuals of the call, enclosing binders); the result is the scope for the next statement -/
def bindersFreshS (θ : Subst) : Stmt → Option Subst
  | .ite _ t e => if bindersFreshL θ t && bindersFreshL θ e then some θ else none
  | .loop i _ _ body _ =>
      if fresh i θ && bindersFreshL ((i, .ctrl (.read i [])) :: θ) body then some θ else none
  | .alloc x _ => if fresh x θ then some ((x, .buf x none) :: θ) else none
  | .window x _ => if fresh x θ then some ((x, .buf x none) :: θ) else none
  | _ => some θ
def bindersFreshL (θ : Subst) : List Stmt → Bool
  | [] => true
  | s :: r => match bindersFreshS θ s with
      | some θ' => bindersFreshL θ' r
      | none => false
end

/-- what `inline_correct_partial` needs: formals pairwise distinct and not mentioned by the
    actuals, no actual reads the configuration, the body lies in the fragment `inline` covers
    (no nested calls), and every name bound in the body is fresh where it is bound -/
def inlineWf (f : Proc) (args : List Expr) : Bool :=
  distinctSyms (formalNames f.args) && formalsFresh (formalNames f.args) args &&
  (match inlineBind f.args args [] [] with
   | some (θ, _) => pureSubst θ && !hasWin θ && (substL θ f.body).isSome && bindersFreshL θ f.body
   | none => false)

/-! ### diagnosis (not part of any theorem) -/

def stmtKind : Stmt → String
  | .assign x _ _ => s!"assign {x}"
  | .reduce x _ _ => s!"reduce {x}"
  | .writecfg c f _ _ => s!"writecfg {c}.{f}"
  | .pass => "pass"
  | .ite _ _ _ => "if"
  | .loop i _ _ _ _ => s!"for {i}"
  | .alloc x _ => s!"alloc {x}"
  | .free x => s!"free {x}"
  | .call f _ => s!"call {f.name}"
  | .window x _ => s!"window {x}"

mutual
/-- path and kinds of the first pair of statements that do not match -/
def firstDiffS (θ : Subst) (path : String) : Stmt → Stmt → Option String
  | .ite c t e, .ite c' t' e' =>
      if !matchC θ c c' then some s!"{path}: if-condition differs"
      else match firstDiffL θ (path ++ ".then") 0 t t' with
        | some d => some d
        | none => firstDiffL θ (path ++ ".else") 0 e e'
  | .loop i lo hi body _, .loop i' lo' hi' body' _ =>
      if !matchC θ lo lo' then some s!"{path}: lower loop bound differs"
      else if !matchC θ hi hi' then some s!"{path}: upper loop bound differs"
      else if !fresh i' θ then some s!"{path}: loop variable {i'} is not fresh"
      else firstDiffL ((i, .ctrl (.read i' [])) :: θ) (path ++ ".body") 0 body body'
  | .assign x idx rhs, .assign x' idx' rhs' =>
      if !matchAcc θ x idx x' idx' then some s!"{path}: assigned location {x} / {x'} differs"
      else if !matchD θ rhs rhs' then some s!"{path}: right-hand side differs"
      else none
  | .reduce x idx rhs, .reduce x' idx' rhs' =>
      if !matchAcc θ x idx x' idx' then some s!"{path}: reduced location {x} / {x'} differs"
      else if !matchD θ rhs rhs' then some s!"{path}: right-hand side differs"
      else none
  | s, s' => match matchS θ s s' with
      | some _ => none
      | none => some s!"{path}: callee `{stmtKind s}` against block `{stmtKind s'}`"
def firstDiffL (θ : Subst) (path : String) (k : Nat) : List Stmt → List Stmt → Option String
  | [], [] => none
  | s :: r, s' :: r' =>
      match firstDiffS θ s!"{path}[{k}]" s s' with
      | some d => some d
      | none => match matchS θ s s' with
          | some θ' => firstDiffL θ' path (k + 1) r r'
          | none => some s!"{path}[{k}]: statements differ"
  | [], s' :: _ => some s!"{path}[{k}]: block has an extra statement `{stmtKind s'}`"
  | s :: _, [] => some s!"{path}[{k}]: block lacks the callee's statement `{stmtKind s}`"
end

def firstDiff (blk : List Stmt) (f : Proc) (args : List Expr) : Option String :=
  match mkSubst f.args args [] with
  | some θ => if !pureSubst θ then some "an argument reads the configuration"
              else firstDiffL θ "body" 0 f.body blk
  | none => some "arguments do not fit the signature (arity, or a scalar passed as a point access)"

end Exo.Inline
