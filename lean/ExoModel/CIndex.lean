/-
  ExoModel.CIndex — executable models of the pure, index-level pieces of exo's C backend
  (src/exo/backend/LoopIR_compiler.py, src/exo/backend/mem_analysis.py, src/exo/core/memory.py,
  src/exo/core/LoopIR.py `GetWrites`).  Every definition transcribes what the Python code *does*:

    §1  CIR                 `lift_to_cir`, `simplify_cir` (incl. the Python-float quirk of folding
                            `Const / Const`), `comp_cir` (choice of C `/` vs `exo_floor_div`, C `%`
                            emitted verbatim, parenthesisation) and the index part of `comp_e`
    §2  C integer meaning   `exo_floor_div` as the helper is written (on `Int.tdiv`), C `/`, `%`
                            as `Int.tdiv`, `Int.tmod`
    §3  strides / offsets   `tensor_strides`, `get_strides`, `get_idx_offset`, `Memory.window` /
                            `generate_offset`, `window_struct_fields` — symbolically (over CIR /
                            strings) and on integer values
    §4  names               `new_varname` on the pair of ChainMaps `names` / `env`
    §5  Free placement      `MemoryAnalysis.mem_stmts` on a statement tree that keeps exactly what
                            `used_s` looks at
    §6  const-ness          `GetWrites` (`get_writes_of_stmts`), `non_const`, the `const` decisions
                            of `Compiler.__init__`, `get_window_type`, `comp_fnarg`

  No Mathlib.  Theorems: ExoModel/Props/C02.lean, ExoModel/Props/C08.lean.
-/
import ExoModel.Range
import ExoModel.Sem

namespace Exo.CIndex
open Exo.Range (IExpr Op Val)

/-! ## §1 CIR -/

/-- `CIR` of src/exo/core/LoopIR.py: `Read(name, is_non_neg)`, `Const(val)`,
    `BinOp(op, lhs, rhs, is_non_neg)`, `USub(arg, is_non_neg)`, `Stride(name, dim)` -/
inductive CIR
  | read (x : Sym) (nn : Bool)
  | const (n : Int)
  | bin (op : Op) (a b : CIR) (nn : Bool)
  | usub (a : CIR) (nn : Bool)
  | stride (x : Sym) (dim : Nat)
deriving DecidableEq, Repr, Inhabited

/-- `lift_to_cir(e, range_env)`; `nn e` stands for
    `range_env.check_expr_bound(0, IndexRangeEnvironment.leq, e)` (modelled and proved sound in
    C13: `Exo.Range.isNonNeg`).  `none` = the `assert False, "bad case!"`. -/
def lift (nn : IExpr → Bool) : IExpr → Option CIR
  | .var x => some (.read x (nn (.var x)))
  | .const n => some (.const n)
  | .bin op a b =>
      match lift nn a, lift nn b with
      | some l, some r => some (.bin op l r (nn (.bin op a b)))
      | _, _ => none
  | .neg a =>
      match lift nn a with
      | some x => some (.usub x (nn (.neg a)))
      | none => none
  | .other => none

/-- what `simplify_cir` can do other than return a CIR -/
inductive SErr
  | floatDiv    -- `operations["/"]` is Python's true division: `Const(4)/Const(2)` is `Const(2.0)`
  | zeroDiv     -- ZeroDivisionError of `x / 0`, `x % 0` on two constants
  | assertion   -- `assert False` branches
deriving DecidableEq, Repr, Inhabited

def SErr.str : SErr → String
  | .floatDiv => "float" | .zeroDiv => "ZeroDivisionError" | .assertion => "AssertionError"

/-- the `operations` table applied to two Python ints -/
def foldOp : Op → Int → Int → Except SErr Int
  | .add, a, b => pure (a + b)
  | .sub, a, b => pure (a - b)
  | .mul, a, b => pure (a * b)
  | .div, _, b => if b = 0 then throw .zeroDiv else throw .floatDiv
  | .mod, a, b => if b = 0 then throw .zeroDiv else pure (Int.fmod a b)

def isConst (c : CIR) (v : Int) : Bool :=
  match c with
  | .const n => n == v
  | _ => false

/-- the `CIR.BinOp` case of `simplify_cir` after both operands have been simplified -/
def simpBin (op : Op) (l r : CIR) (nn : Bool) : Except SErr CIR :=
  match l, r with
  | .const x, .const y => (foldOp op x y).map CIR.const
  | _, _ =>
    if isConst l 0 && op == .add then pure r
    else if isConst l 0 && (op == .mul || op == .div) then pure (.const 0)
    else if isConst l 0 && op == .mod then throw .assertion
    else if isConst r 0 && (op == .add || op == .sub) then pure l
    else if isConst r 0 && op == .mul then pure (.const 0)
    else if isConst r 0 then throw .assertion
    else if isConst l 1 && op == .mul then pure r
    else if isConst r 1 && (op == .mul || op == .div) then pure l
    else pure (.bin op l r nn)

def simpNeg (a : CIR) (nn : Bool) : CIR :=
  match a with
  | .usub b _ => b
  | .const n => .const (-n)
  | _ => .usub a nn

/-- `simplify_cir` -/
def simplify : CIR → Except SErr CIR
  | .read x nn => pure (.read x nn)
  | .const n => pure (.const n)
  | .stride x d => pure (.stride x d)
  | .bin op a b nn =>
      match simplify a, simplify b with
      | .ok l, .ok r => simpBin op l r nn
      | .error e, _ => .error e
      | _, .error e => .error e
  | .usub a nn =>
      match simplify a with
      | .ok x => pure (simpNeg x nn)
      | .error e => .error e

/-- the emitted C index expression as a tree (what the C compiler parses out of the text that
    `render` produces) -/
inductive CExpr
  | var (x : Sym)
  | lit (n : Int)
  | bin (op : Op) (a b : CExpr)      -- C `+ - * / %` (`/`, `%` truncate)
  | floorDiv (a b : CExpr)           -- call of the static helper `exo_floor_div`
  | neg (a : CExpr)
  | strideOf (x : Sym) (dim : Nat)   -- `x.strides[dim]`
deriving DecidableEq, Repr, Inhabited

/-- the test of `comp_cir` that selects C `/` -/
def divLhsNonNeg : CIR → Bool
  | .read _ nn => nn
  | .bin _ _ _ nn => nn
  | .const n => decide (n > 0)
  | _ => false

/-- `comp_cir`, structure of the result -/
def compAst : CIR → CExpr
  | .read x _ => .var x
  | .const n => .lit n
  | .bin op a b _ =>
      if op = .div then
        (if divLhsNonNeg a then .bin .div (compAst a) (compAst b)
         else .floorDiv (compAst a) (compAst b))
      else .bin op (compAst a) (compAst b)
  | .usub a _ => .neg (compAst a)
  | .stride x d => .strideOf x d

/-- `op_prec` restricted to index operators -/
def opPrec : Op → Nat
  | .add => 50 | .sub => 50 | .mul => 60 | .div => 60 | .mod => 60

def paren (b : Bool) (s : String) : String := if b then "(" ++ s ++ ")" else s

/-- `comp_cir(e, env, prec)`, the text -/
def comp (env : Sym → String) : CIR → Nat → String
  | .read x _, _ => env x
  | .const n, _ => toString n
  | .bin op a b _, prec =>
      let lp := opPrec op
      let l := comp env a lp
      let r := comp env b (lp + 1)
      if op = .div then
        (if divLhsNonNeg a then "(" ++ l ++ " / " ++ r ++ ")"
         else "exo_floor_div(" ++ l ++ ", " ++ r ++ ")")
      else paren (decide (lp < prec)) (l ++ " " ++ op.str ++ " " ++ r)
  | .stride x d, _ => x.name ++ ".strides[" ++ toString d ++ "]"   -- quirk: `f"{e.name}.strides[{e.dim}]"`, NOT `env[e.name]`
  | .usub a _, _ => "-" ++ comp env a 70

/-- the index-expression part of `comp_e` (loop bounds, conditions' operands, call arguments):
    integer `/` is emitted as C `/` iff `check_expr_bound(0, leq, e)` holds *of the quotient*,
    `%` verbatim -/
def compEAst (nn : IExpr → Bool) : IExpr → CExpr
  | .var x => .var x
  | .const n => .lit n
  | .neg a => .neg (compEAst nn a)
  | .bin op a b =>
      if op = .div then
        (if nn (.bin .div a b) then .bin .div (compEAst nn a) (compEAst nn b)
         else .floorDiv (compEAst nn a) (compEAst nn b))
      else .bin op (compEAst nn a) (compEAst nn b)
  | .other => .lit 0

/-- `comp_e(e, prec)` on index expressions, the text -/
def compE (nn : IExpr → Bool) (env : Sym → String) : IExpr → Nat → String
  | .var x, _ => env x
  | .const n, _ => toString n
  | .neg a, _ => "-" ++ compE nn env a 70
  | .bin op a b, prec =>
      let lp := if op = .div then 0 else opPrec op
      let l := compE nn env a lp
      let r := compE nn env b (lp + 1)
      if op = .div then
        (if nn (.bin .div a b) then "((" ++ l ++ ") / (" ++ r ++ "))"
         else "exo_floor_div(" ++ l ++ ", " ++ r ++ ")")
      else paren (decide (lp < prec)) (l ++ " " ++ op.str ++ " " ++ r)
  | .other, _ => "?"

/-! ## §2 meaning of the emitted C integer expressions -/

/-- the helper, as written in `_static_helpers`:
    `int off = (num>=0)? 0 : quot-1;  return (num-off)/quot;` with C's truncating `/` -/
def exoFloorDiv (num quot : Int) : Int :=
  let off := if num ≥ 0 then 0 else quot - 1
  Int.tdiv (num - off) quot

/-- C meaning of an emitted expression: `/` is `Int.tdiv`, `%` is `Int.tmod`
    (`σ x d` = value of `x.strides[d]`) -/
def cEval (ρ : Val) (σ : Sym → Nat → Int) : CExpr → Int
  | .var x => ρ x
  | .lit n => n
  | .bin .add a b => cEval ρ σ a + cEval ρ σ b
  | .bin .sub a b => cEval ρ σ a - cEval ρ σ b
  | .bin .mul a b => cEval ρ σ a * cEval ρ σ b
  | .bin .div a b => Int.tdiv (cEval ρ σ a) (cEval ρ σ b)
  | .bin .mod a b => Int.tmod (cEval ρ σ a) (cEval ρ σ b)
  | .floorDiv a b => exoFloorDiv (cEval ρ σ a) (cEval ρ σ b)
  | .neg a => - cEval ρ σ a
  | .strideOf x d => σ x d

/-- intended meaning of a CIR (`/`, `%` are floor division and modulo, as in `Exo.Range.eval`
    and `Exo.evalC`) -/
def CIR.eval (ρ : Val) (σ : Sym → Nat → Int) : CIR → Int
  | .read x _ => ρ x
  | .const n => n
  | .bin op a b _ => Exo.Range.evalOp op (a.eval ρ σ) (b.eval ρ σ)
  | .usub a _ => - a.eval ρ σ
  | .stride x d => σ x d

/-! ## §3 strides, offsets, windows -/

section generic
variable {α : Type}

/-- right-nested product `d * (e * (… ))` as `tensor_strides` accumulates it (`s = sz * s`) -/
def prodR (mul : α → α → α) : α → List α → α
  | d, [] => d
  | d, e :: r => mul d (prodR mul e r)

/-- `tensor_strides(shape)`: row-major strides; the real code asserts `len(shape) >= 1` -/
def tensorStridesG (one : α) (mul : α → α → α) : List α → List α
  | [] => []
  | [_] => [one]
  | _ :: d :: r => prodR mul d r :: tensorStridesG one mul (d :: r)

/-- the loop of `get_idx_offset`: `acc = i0*s0; acc = acc + i*s …` -/
def offsetFold (add mul : α → α → α) (acc : α) : List α → List α → α
  | i :: is, s :: ss => offsetFold add mul (add acc (mul i s)) is ss
  | _, _ => acc

/-- `get_idx_offset` given the strides; `none` = the `assert len(strides) == len(idx)` or the
    `idx[0]` of an empty index list -/
def idxOffsetG (add mul : α → α → α) (idx strides : List α) : Option α :=
  match idx, strides with
  | i :: is, s :: ss => if is.length = ss.length then some (offsetFold add mul (mul i s) is ss) else none
  | _, _ => none
end generic

/-- integer row-major strides -/
def tensorStrides (shape : List Int) : List Int := tensorStridesG 1 (· * ·) shape

/-- integer linear offset of an index tuple given strides (total: 0 on the empty tuple) -/
def linOffset : List Int → List Int → Int
  | i :: is, s :: ss => i * s + linOffset is ss
  | _, _ => 0

/-- linearisation of an index tuple into a dense tensor of the given shape -/
def linearise (shape idx : List Int) : Int := linOffset idx (tensorStrides shape)

def cirMul (a b : CIR) : CIR := .bin .mul a b true
def cirAdd (a b : CIR) : CIR := .bin .add a b true

/-- `tensor_strides` over CIR (`CIR.BinOp("*", sz, s, True)`) -/
def tensorStridesC (shape : List CIR) : List CIR := tensorStridesG (.const 1) cirMul shape

/-- type of the accessed name as far as `get_strides` looks at it -/
inductive BufTy
  | tensor (shape : List CIR)                        -- lifted shape expressions
  | window (ndim : Nat) (known : List (Nat × Int))    -- `_known_strides[(name, i)]`
deriving Repr, Inhabited

def lookupKnown (i : Nat) : List (Nat × Int) → Option Int
  | [] => none
  | (j, v) :: r => if i = j then some v else lookupKnown i r

/-- `get_strides(name, typ)`.  Quirk kept: `if stride := self._known_strides.get(...)` tests the
    truthiness of a `CIR.Const` object, which is always true, so a known stride 0 is used too. -/
def getStrides (x : Sym) : BufTy → List CIR
  | .tensor shape => tensorStridesC shape
  | .window n known => (List.range n).map (fun i =>
      match lookupKnown i known with
      | some v => .const v
      | none => .stride x i)

/-- `get_idx_offset(name, typ, idx)` -/
def getIdxOffset (x : Sym) (ty : BufTy) (idx : List CIR) : Option CIR :=
  idxOffsetG cirAdd cirMul idx (getStrides x ty)

def isWinTy : BufTy → Bool
  | .window _ _ => true
  | .tensor _ => false

/-- `access_str(nm, idx_list)` (after the caller lifted the indices); errors of `simplify_cir`
    propagate -/
def accessStr (env : Sym → String) (x : Sym) (ty : BufTy) (idx : List CIR) :
    Option (Except SErr String) :=
  match getIdxOffset x ty idx with
  | none => none
  | some off =>
      some (match simplify off with
        | .error e => .error e
        | .ok s => .ok (env x ++ (if isWinTy ty then ".data[" else "[") ++ comp env s 0 ++ "]"))

/-- `index_expr` of `generate_offset` (src/exo/core/memory.py) -/
def indexExprStr (i s : String) : String :=
  if s == "0" || i == "0" then ""
  else if s == "1" then i
  else if i == "1" then s
  else if s.length == 1 then "(" ++ i ++ ") * " ++ s
  else "(" ++ i ++ ") * (" ++ s ++ ")"

/-- `generate_offset(indices, strides)` -/
def generateOffset (idx strides : List String) : String :=
  let es := ((idx.zip strides).map (fun p => indexExprStr p.1 p.2)).filter (fun e => e != "")
  if es.isEmpty then "0" else " + ".intercalate es

/-- `Memory.window(basetyp, baseptr, indices, strides, srcinfo)` (the default one: DRAM, …) -/
def memWindow (isWin : Bool) (base : String) (idx strides : List String) : String :=
  (if isWin then base ++ ".data" else base) ++ "[" ++ generateOffset idx strides ++ "]"

def mapExcept {α β ε : Type} (f : α → Except ε β) : List α → Except ε (List β)
  | [] => pure []
  | a :: r => match f a, mapExcept f r with
      | .ok b, .ok bs => pure (b :: bs)
      | .error e, _ => .error e
      | _, .error e => .error e

/-- `window_struct_fields(e)`: `los` are the lifted `w.lo` / `w.pt` of each access, `isIv` says
    which accesses are intervals.  Result: (`dataptr`, `strides`) strings.
    `none` = the `assert 0 < len(all_strides_s) == len(e.idx)`. -/
def windowStructFields (env : Sym → String) (x : Sym) (ty : BufTy) (los : List CIR)
    (isIv : List Bool) : Option (Except SErr (String × String)) :=
  let allStrides := getStrides x ty
  if allStrides.length = 0 ∨ allStrides.length ≠ los.length then none else
  some (
    match mapExcept (fun c => (simplify c).map (fun s => comp env s 0)) los,
          mapExcept (fun c => (simplify c).map (fun s => comp env s 0)) allStrides with
    | .ok idxs, .ok strs =>
        let kept := ((strs.zip isIv).filter (fun p => p.2)).map (fun p => p.1)
        .ok (memWindow (isWinTy ty) (env x) idxs strs, ", ".intercalate kept)
    | .error e, _ => .error e
    | _, .error e => .error e)

/-- one window access on values: `pt i` drops the dimension, `iv lo` keeps it -/
inductive WA
  | pt (i : Int)
  | iv (lo : Int)
deriving DecidableEq, Repr, Inhabited

def WA.lo : WA → Int
  | .pt i => i
  | .iv l => l

def WA.isIv : WA → Bool
  | .pt _ => false
  | .iv _ => true

/-- run-time content of a `struct exo_win_*` (or of a plain tensor pointer with its row-major
    strides): position of `data` inside the underlying buffer and the strides -/
structure CWin where
  off : Int
  strides : List Int
deriving DecidableEq, Repr, Inhabited

/-- value computed by the emitted `(struct exo_win_k){ &base.data[Σ lo·stride], { kept strides } }` -/
def cWindow (w : CWin) (acc : List WA) : CWin :=
  { off := w.off + linOffset (acc.map WA.lo) w.strides,
    strides := ((w.strides.zip acc).filter (fun p => p.2.isIv)).map (fun p => p.1) }

/-- position of the cell addressed by the emitted `w.data[Σ i·stride]` -/
def cAccess (w : CWin) (idx : List Int) : Int := w.off + linOffset idx w.strides

/-! ## §4 `new_varname` -/

/-- one layer of the two ChainMaps `names` (C name → C name) and `env` (Sym → C name); they are
    always pushed and popped together (`push()` / `push(only="env")` / `pop()`) -/
structure Layer where
  names : List (String × String)
  env : List (Sym × String)
deriving Repr, Inhabited

abbrev Scopes := List Layer   -- innermost first

def lookupStr (k : String) : List (String × String) → Option String
  | [] => none
  | (k', v) :: r => if k = k' then some v else lookupStr k r

/-- `ChainMap.__getitem__` / `in` on `names` -/
def namesGet (k : String) : Scopes → Option String
  | [] => none
  | l :: r => match lookupStr k l.names with
      | some v => some v
      | none => namesGet k r

def namesHas (k : String) (sc : Scopes) : Bool := (namesGet k sc).isSome

/-- split `s` as the regular expression `^(.*)_([0-9]*)$` does (greedy: at the last `_`, and
    only if nothing but digits follows) -/
def splitSuffix (s : String) : Option (String × String) :=
  let cs := s.toList
  let suf := (cs.reverse.takeWhile (fun c => c.isDigit)).reverse
  let pre := cs.take (cs.length - suf.length)
  match pre.reverse with
  | '_' :: p => some (String.ofList p.reverse, String.ofList suf)
  | _ => none

inductive NErr
  | value    -- `int("")` when the name ends in `_`
  | fuel     -- (model only) the while loop did not finish within the fuel
deriving DecidableEq, Repr, Inhabited

/-- one round of the `while s in self.names` loop -/
def bump (s : String) : Except NErr String :=
  match splitSuffix s with
  | none => pure (s ++ "_1")
  | some (p, d) =>
      if d.isEmpty then throw .value
      else pure (p ++ "_" ++ toString (d.toNat! + 1))

def bumpLoop (sc : Scopes) : Nat → String → Except NErr String
  | 0, _ => throw .fuel
  | fuel + 1, s =>
      if namesHas s sc then
        match bump s with
        | .ok s' => bumpLoop sc fuel s'
        | .error e => .error e
      else pure s

def totalNames (sc : Scopes) : Nat := (sc.map (fun l => l.names.length)).foldl (· + ·) 0

def setTop (f : Layer → Layer) : Scopes → Scopes
  | [] => [f ⟨[], []⟩]
  | l :: r => f l :: r

/-- `new_varname(symbol, typ, mem)`: the chosen C name and the new scopes -/
def newVarname (sc : Scopes) (x : Sym) : Except NErr (String × Scopes) :=
  let strnm := x.name
  match namesGet strnm sc with
  | none =>
      pure (strnm, setTop (fun l => { names := (strnm, strnm) :: l.names, env := (x, strnm) :: l.env }) sc)
  | some s0 =>
      match bumpLoop sc (totalNames sc + 1) s0 with
      | .error e => .error e
      | .ok s =>
          pure (s, setTop (fun l => { names := (s, s) :: (strnm, s) :: l.names, env := (x, s) :: l.env }) sc)

def pushScope (sc : Scopes) : Scopes := ⟨[], []⟩ :: sc
def popScope : Scopes → Scopes
  | [] => []
  | _ :: r => r

/-- `ChainMap.__getitem__` on `env` -/
def envGet (x : Sym) : Scopes → Option String
  | [] => none
  | l :: r => match lookupSym x l.env with
      | some v => some v
      | none => envGet x r

/-- every (Sym, C name) binding visible in the current C scope (inner layers first) -/
def visibleEnv (sc : Scopes) : List (Sym × String) := (sc.map (fun l => l.env)).flatten

/-! ## §5 Free placement (`MemoryAnalysis`) -/

/-- a statement as `MemoryAnalysis` sees it: what `used_s` returns for it and where blocks are -/
inductive MStmt
  | leaf (uses : List Sym)              -- Assign, Reduce, WriteConfig, Call, Pass: `used_s(s)`
  | window (w src : Sym)                -- `w = src[...]` (`used_s` = [src]; `w` aliases `src`)
  | alloc (x : Sym)
  | free (x : Sym)
  | ite (cond : List Sym) (t e : List MStmt)
  | loop (body : List MStmt)
deriving Repr, Inhabited

mutual
/-- `used_s` -/
def usedS : MStmt → List Sym
  | .leaf us => us
  | .window _ src => [src]
  | .alloc x => [x]
  | .free _ => []
  | .ite c t e => c ++ usedL t ++ usedL e
  | .loop b => usedL b
def usedL : List MStmt → List Sym
  | [] => []
  | s :: r => usedS s ++ usedL r
end

/-- allocations made directly in a block, in order (`add_malloc` during `[mem_s(b) for b in stmts]`) -/
def allocsOf : List MStmt → List Sym
  | [] => []
  | .alloc x :: r => x :: allocsOf r
  | _ :: r => allocsOf r

/-- `list.remove`: first occurrence -/
def removeFirst (x : Sym) : List Sym → List Sym
  | [] => []
  | y :: r => if x = y then r else y :: removeFirst x r

/-- the backwards loop of `mem_stmts`: `rev` = processed statements of the block, last first;
    `tofree` = `self.tofree[-1]`; result = `body` (still reversed) and what is left to free -/
def placeRev : List MStmt → List Sym → List MStmt × List Sym
  | [], tofree => ([], tofree)
  | b :: r, tofree =>
      let used := usedS b
      let rm := tofree.filter (fun x => used.contains x)
      let tofree' := rm.foldl (fun acc x => removeFirst x acc) tofree
      let (rest, left) := placeRev r tofree'
      (rm.map MStmt.free ++ [b] ++ rest, left)

mutual
/-- `mem_s` -/
def memS : MStmt → MStmt
  | .ite c t e => .ite c (memL t) (memL e)
  | .loop b => .loop (memL b)
  | s => s
/-- `mem_stmts`: process the statements, then place the frees scanning backwards -/
def memL (ss : List MStmt) : List MStmt :=
  let ps := memMap ss
  (placeRev ps.reverse (allocsOf ps)).1.reverse
def memMap : List MStmt → List MStmt
  | [] => []
  | s :: r => memS s :: memMap r
end

/-- aliases: `aliasRoot al w` = the allocation / argument a window name ultimately points into,
    following `w = src[...]` statements seen so far (`al` = (window, source) pairs, newest first) -/
def aliasRoot : List (Sym × Sym) → Sym → Sym
  | [], x => x
  | (w, src) :: r, x => if x = w then aliasRoot r src else aliasRoot r x

/-! ## §6 const-ness (`GetWrites`, `non_const`) -/

/-- a statement as `GetWrites` sees it -/
inductive KStmt
  | write (x : Sym)                                     -- Assign / Reduce to `x`
  | call (written : List Bool) (args : List (Option Sym)) -- per formal: written in the callee?; per
                                                        -- actual: its name if Read/WindowExpr/StrideExpr
  | window (w src : Sym)
  | block (ss : List KStmt)                             -- For / If: bodies in order
  | other
deriving Repr, Inhabited

structure GW where
  writes : List Sym
  dict : List (Sym × Sym)   -- `window_dict`, newest first
deriving Repr, Inhabited

def dictGet (x : Sym) (d : List (Sym × Sym)) : Sym := (lookupSym x d).getD x

/-- the `while base_sym in self.window_dict` loop (fuel = size of the dict + 1: a chain cannot
    be longer unless it is cyclic, in which case the real loop does not terminate) -/
def dictRoot (d : List (Sym × Sym)) : Nat → Sym → Sym
  | 0, x => x
  | fuel + 1, x => match lookupSym x d with
      | some y => dictRoot d fuel y
      | none => x

def callWrites (d : List (Sym × Sym)) : List Bool → List (Option Sym) → List Sym
  | true :: ws, some a :: as => dictGet a d :: callWrites d ws as
  | _ :: ws, _ :: as => callWrites d ws as
  | _, _ => []

mutual
/-- `GetWrites.do_s` -/
def gwS : KStmt → GW → GW
  | .write x, g => { g with writes := g.writes ++ [dictGet x g.dict] }
  | .call ws as, g => { g with writes := g.writes ++ callWrites g.dict ws as }
  | .window w src, g => { g with dict := (w, dictRoot g.dict (g.dict.length + 1) src) :: g.dict }
  | .block ss, g => gwL ss g
  | .other, g => g
def gwL : List KStmt → GW → GW
  | [], g => g
  | s :: r, g => gwL r (gwS s g)
end

/-- `set(e for e, _ in get_writes_of_stmts(body))` as a list -/
def nonConst (body : List KStmt) : List Sym := (gwL body ⟨[], []⟩).writes

/-- `const` keyword of a pointer argument: `a.name not in self.non_const` -/
def argIsConst (nc : List Sym) (a : Sym) : Bool := !nc.contains a

/-- `get_window_type(typ)`: `is_const = typ.src_buf not in self.non_const` -/
def winIsConst (nc : List Sym) (srcBuf : Sym) : Bool := !nc.contains srcBuf

end Exo.CIndex
