/-
  ExoModel.Subst — substitution of a control expression for a control variable in LoopIR terms
  (definitions only; the lemmas are in ExoModel/Lemmas/Subst.lean).

  Used by C19 (`partial_eval` substitutes literals for arguments) and by the C01 rewrites that
  re-express a loop variable (`shift_loop`, `divide_loop`, `unroll_loop`, …).

  The substitution is *position aware*, which is how the type-directed code of exo behaves
  (`DoPartialEval.map_e` only touches `Read` nodes whose own type is index-like or bool; `SubstArgs`
  is keyed by `Sym` and control and data `Sym`s are disjoint):

  * control position  (`substC`): an index, a loop bound, an `if` condition, an allocation extent,
    a control call argument, a control configuration write — `read x []` becomes `r`;
  * data position     (`substD`): right-hand sides, extern arguments — only the *indices* of reads
    are control positions; the read itself is a buffer access and is never replaced;
  * view position     (`substV`): window right-hand sides and buffer call arguments — indices and
    window coordinates are control positions.

  `Sym`s are compared by identity (name and id), as in exo.  The only binder of control variables
  inside a block is `for`; the substitution stops at a loop that re-binds `x`.  Procedure bodies
  of callees are separate scopes and are not entered (exo's rewrites do not enter them either).
  Capture of free variables of `r` by a loop binder is *not* avoided by renaming: the lemmas carry
  the side condition `loopVars ∩ fv r = ∅` (exo creates a fresh `Sym` for every binder).
-/
import ExoModel.Sem

namespace Exo

/-! ### occurrence of a control variable -/

/-- `y` occurs (as a control read) in the control-position expression -/
def Expr.occC (y : Sym) : Expr → Bool
  | .read z [] => z = y
  | .usub e => e.occC y
  | .binop _ a b => a.occC y || b.occC y
  | _ => false

def occCs (y : Sym) (es : List Expr) : Bool := es.any (·.occC y)

mutual
/-- `y` occurs in a control position of the data-position expression -/
def Expr.occD (y : Sym) : Expr → Bool
  | .read _ idx => occCs y idx
  | .usub e => e.occD y
  | .binop _ a b => a.occD y || b.occD y
  | .extern _ args => occDs y args
  | _ => false
def occDs (y : Sym) : List Expr → Bool
  | [] => false
  | e :: r => e.occD y || occDs y r
end

def WAcc.occ (y : Sym) : WAcc → Bool
  | .interval lo hi => lo.occC y || hi.occC y
  | .point e => e.occC y

/-- `y` occurs in a control position of the view-position expression -/
def Expr.occV (y : Sym) : Expr → Bool
  | .read _ idx => occCs y idx
  | .win _ acc => acc.any (·.occ y)
  | _ => false

/-- occurrences in call arguments: a control formal makes a control position, any other formal a
    view position (same case split as `bindArgs`) -/
def occArgs (y : Sym) : List FnArg → List Expr → Bool
  | ⟨_, .ctrl _⟩ :: fs, a :: as => a.occC y || occArgs y fs as
  | _ :: fs, a :: as => a.occV y || occArgs y fs as
  | _, _ => false

mutual
/-- `y` occurs free (as a control variable) in the statement -/
def Stmt.occ (y : Sym) : Stmt → Bool
  | .assign _ idx rhs => occCs y idx || rhs.occD y
  | .reduce _ idx rhs => occCs y idx || rhs.occD y
  | .writecfg _ _ rhs isData => if isData then rhs.occD y else rhs.occC y
  | .pass => false
  | .ite c t e => c.occC y || occL y t || occL y e
  | .loop i lo hi body _ => lo.occC y || hi.occC y || (i != y && occL y body)
  | .alloc _ shape => occCs y shape
  | .free _ => false
  | .call f args => occArgs y f.args args
  | .window _ rhs => rhs.occV y
def occL (y : Sym) : List Stmt → Bool
  | [] => false
  | s :: r => s.occ y || occL y r
end

/-- occurrences in an argument type (tensor extents) -/
def ArgTy.occ (y : Sym) : ArgTy → Bool
  | .tensor shape _ => occCs y shape
  | _ => false

/-! ### loop binders -/

mutual
/-- all loop variables bound anywhere in the statement (callee bodies excluded) -/
def Stmt.loopVars : Stmt → List Sym
  | .ite _ t e => loopVarsL t ++ loopVarsL e
  | .loop i _ _ body _ => i :: loopVarsL body
  | _ => []
def loopVarsL : List Stmt → List Sym
  | [] => []
  | s :: r => s.loopVars ++ loopVarsL r
end

/-- expressions whose value depends on the control environment only: variables, integer and
    boolean literals, `-`, binary operators (no `stride`, no configuration reads) -/
def Expr.envOnly : Expr → Bool
  | .read _ [] => true
  | .lit (.int _) => true
  | .lit (.bool _) => true
  | .usub e => e.envOnly
  | .binop _ a b => a.envOnly && b.envOnly
  | _ => false

/-- integer and boolean literals -/
def Expr.isCtrlLit : Expr → Bool
  | .lit (.int _) => true
  | .lit (.bool _) => true
  | _ => false

/-- value of a control literal -/
def Expr.ctrlLitVal : Expr → Int
  | .lit (.int n) => n
  | .lit (.bool b) => b2i b
  | _ => 0

/-! ### substitution -/

/-- substitute `r` for `x` in a control-position expression -/
def Expr.substC (x : Sym) (r : Expr) : Expr → Expr
  | .read y [] => if y = x then r else .read y []
  | .usub e => .usub (Expr.substC x r e)
  | .binop op a b => .binop op (Expr.substC x r a) (Expr.substC x r b)
  | e => e

def substCs (x : Sym) (r : Expr) (es : List Expr) : List Expr := es.map (Expr.substC x r)

mutual
/-- substitute in the control positions of a data-position expression -/
def Expr.substD (x : Sym) (r : Expr) : Expr → Expr
  | .read y idx => .read y (substCs x r idx)
  | .usub e => .usub (Expr.substD x r e)
  | .binop op a b => .binop op (Expr.substD x r a) (Expr.substD x r b)
  | .extern f args => .extern f (substDs x r args)
  | e => e
def substDs (x : Sym) (r : Expr) : List Expr → List Expr
  | [] => []
  | e :: es => Expr.substD x r e :: substDs x r es
end

def WAcc.subst (x : Sym) (r : Expr) : WAcc → WAcc
  | .interval lo hi => .interval (Expr.substC x r lo) (Expr.substC x r hi)
  | .point e => .point (Expr.substC x r e)

/-- substitute in the control positions of a view-position expression -/
def Expr.substV (x : Sym) (r : Expr) : Expr → Expr
  | .read y idx => .read y (substCs x r idx)
  | .win y acc => .win y (acc.map (WAcc.subst x r))
  | e => e

def substArgs (x : Sym) (r : Expr) : List FnArg → List Expr → List Expr
  | ⟨_, .ctrl _⟩ :: fs, a :: as => Expr.substC x r a :: substArgs x r fs as
  | _ :: fs, a :: as => Expr.substV x r a :: substArgs x r fs as
  | _, as => as

mutual
/-- substitute `r` for the free occurrences of the control variable `x` in a statement -/
def Stmt.subst (x : Sym) (r : Expr) : Stmt → Stmt
  | .assign y idx rhs => .assign y (substCs x r idx) (Expr.substD x r rhs)
  | .reduce y idx rhs => .reduce y (substCs x r idx) (Expr.substD x r rhs)
  | .writecfg c f rhs isData => .writecfg c f (if isData then Expr.substD x r rhs else Expr.substC x r rhs) isData
  | .pass => .pass
  | .ite c t e => .ite (Expr.substC x r c) (substL x r t) (substL x r e)
  | .loop i lo hi body par =>
      .loop i (Expr.substC x r lo) (Expr.substC x r hi) (if i = x then body else substL x r body) par
  | .alloc y shape => .alloc y (substCs x r shape)
  | .free y => .free y
  | .call f args => .call f (substArgs x r f.args args)
  | .window y rhs => .window y (Expr.substV x r rhs)
def substL (x : Sym) (r : Expr) : List Stmt → List Stmt
  | [] => []
  | s :: ss => Stmt.subst x r s :: substL x r ss
end

def ArgTy.subst (x : Sym) (r : Expr) : ArgTy → ArgTy
  | .tensor shape w => .tensor (substCs x r shape) w
  | t => t

/-! ### states that differ in the control environment only -/

variable {V : Type}

def State.withEnv (σ : State V) (E : List (Sym × Int)) : State V := { σ with env := E }

@[simp] theorem State.withEnv_env (σ : State V) (E) : (σ.withEnv E).env = E := rfl
@[simp] theorem State.withEnv_views (σ : State V) (E) : (σ.withEnv E).views = σ.views := rfl
@[simp] theorem State.withEnv_heap (σ : State V) (E) : (σ.withEnv E).heap = σ.heap := rfl
@[simp] theorem State.withEnv_cfg (σ : State V) (E) : (σ.withEnv E).cfg = σ.cfg := rfl
@[simp] theorem State.withEnv_withEnv (σ : State V) (E E') : (σ.withEnv E).withEnv E' = σ.withEnv E' := rfl
theorem State.withEnv_self (σ : State V) : σ.withEnv σ.env = σ := rfl

@[simp] theorem State.bind_env (σ : State V) (x v) : (σ.bind x v).env = (x, v) :: σ.env := rfl
@[simp] theorem State.bind_views (σ : State V) (x v) : (σ.bind x v).views = σ.views := rfl
@[simp] theorem State.bind_heap (σ : State V) (x v) : (σ.bind x v).heap = σ.heap := rfl
@[simp] theorem State.bind_cfg (σ : State V) (x v) : (σ.bind x v).cfg = σ.cfg := rfl

/-- push a list of bindings, first entry outermost (it shadows the later ones) -/
def State.bindAll (σ : State V) (vals : List (Sym × Int)) : State V :=
  { σ with env := vals ++ σ.env }

end Exo
