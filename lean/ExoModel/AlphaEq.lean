/-
  ExoModel.AlphaEq — the corrected alpha comparison `Rw.blockEq'` (proposed replacement of
  `Rw.blockEq` of ExoModel/Rewrite.lean in the tie `rwcheck`), and the side predicates under
  which the existing `Rw.blockEq` is sound.

  Why a corrected comparison (the counter-examples are theorems in Props/C01Alpha.lean):

  1. `Rw.procEq` compares callees by name and arity only, so `blockEq` accepts two calls of
     *different* procedures that happen to share a name.  `procEq'` compares the callees
     themselves: same formal names, alpha-equal formal types, assertions and bodies.
  2. `Rw.blockEq` keeps ONE renaming for the two name spaces of the semantics (`State.env` for
     control variables, `State.views` for buffers): a pair `(x, y)` pushed by `alloc x`/`alloc y`
     also relates a *control* read of `x` to a control read of `y`, although the control
     environment was not changed by the allocation.  `blockEq'` keeps two renamings (`ρc` for
     control variables, extended at `for`; `ρv` for buffers, extended at `alloc`/window
     statements) and is position aware exactly as `evalC`/`evalD`/`evalView`/`bindArgs` are:
     `read x []` in a control position looks up `ρc`, every other symbol occurrence looks up `ρv`.

  The treatment of shadowing by `Rw.symEq` (first pair that mentions the left OR the right
  symbol must be exactly the pair) is sound and is reused unchanged.
-/
import ExoModel.Rewrite
import ExoModel.RwCheck
import ExoModel.RewriteMore

namespace Exo.Rw
open Exo

/-! ### position-aware comparison of expressions -/

mutual
/-- `ctrl = true`: the expression is evaluated by `evalC`; `ctrl = false`: by `evalD` or
    `evalView`.  Indices and window coordinates are always control positions. -/
def exprEq' (ctrl : Bool) (ρc ρv : Ren) : Expr → Expr → Bool
  | .read x i, .read y j => symEq (if ctrl then ρc else ρv) x y && exprsEq' true ρc ρv i j
  | .lit a, .lit b => a == b
  | .usub a, .usub b => exprEq' ctrl ρc ρv a b
  | .binop o a b, .binop o' a' b' => o == o' && exprEq' ctrl ρc ρv a a' && exprEq' ctrl ρc ρv b b'
  | .extern f a, .extern g b => f == g && exprsEq' ctrl ρc ρv a b
  | .win x a, .win y b => symEq ρv x y && waccsEq' ρc ρv a b
  | .stride x d, .stride y d' => symEq ρv x y && d == d'
  | .readcfg c f, .readcfg c' f' => c == c' && f == f'
  | _, _ => false
def exprsEq' (ctrl : Bool) (ρc ρv : Ren) : List Expr → List Expr → Bool
  | [], [] => true
  | a :: r, b :: r' => exprEq' ctrl ρc ρv a b && exprsEq' ctrl ρc ρv r r'
  | _, _ => false
def waccEq' (ρc ρv : Ren) : WAcc → WAcc → Bool
  | .point a, .point b => exprEq' true ρc ρv a b
  | .interval a b, .interval a' b' => exprEq' true ρc ρv a a' && exprEq' true ρc ρv b b'
  | _, _ => false
def waccsEq' (ρc ρv : Ren) : List WAcc → List WAcc → Bool
  | [], [] => true
  | a :: r, b :: r' => waccEq' ρc ρv a b && waccsEq' ρc ρv r r'
  | _, _ => false
end

/-- call arguments: a control formal makes a control position, any other formal a view position
    (the case split of `bindArgs`) -/
def argsEq' (ρc ρv : Ren) : List FnArg → List Expr → List Expr → Bool
  | ⟨_, .ctrl _⟩ :: fs, a :: as, b :: bs => exprEq' true ρc ρv a b && argsEq' ρc ρv fs as bs
  | _ :: fs, a :: as, b :: bs => exprEq' false ρc ρv a b && argsEq' ρc ρv fs as bs
  | [], as, bs => as.isEmpty == bs.isEmpty   -- too many actuals on both sides: both `unsupported`
  | _ :: _, [], [] => true                   -- too few actuals on both sides: both `unsupported`
  | _, _, _ => false

/-- formal types of a callee: extents are closed over the callee's own formals, whose names
    must coincide, so they are compared under the empty renaming -/
def argTyEq' : ArgTy → ArgTy → Bool
  | .ctrl k, .ctrl k' => k == k'
  | .scalar, .scalar => true
  | .tensor s w, .tensor s' w' => exprsEq' true [] [] s s' && w == w'
  | _, _ => false

def fnArgsEq' : List FnArg → List FnArg → Bool
  | [], [] => true
  | ⟨x, t⟩ :: r, ⟨y, t'⟩ :: r' => x == y && argTyEq' t t' && fnArgsEq' r r'
  | _, _ => false

/-! ### statements, blocks, callees -/

mutual
/-- compare one statement pair; returns the two renamings extended by the names the pair defines -/
def stmtEq' (ρc ρv : Ren) : Stmt → Stmt → Option (Ren × Ren)
  | .assign x i e, .assign y j e' =>
    if symEq ρv x y && exprsEq' true ρc ρv i j && exprEq' false ρc ρv e e' then some (ρc, ρv) else none
  | .reduce x i e, .reduce y j e' =>
    if symEq ρv x y && exprsEq' true ρc ρv i j && exprEq' false ρc ρv e e' then some (ρc, ρv) else none
  | .writecfg c f e d, .writecfg c' f' e' d' =>
    if c == c' && f == f' && d == d' && exprEq' (!d) ρc ρv e e' then some (ρc, ρv) else none
  | .pass, .pass => some (ρc, ρv)
  | .ite c t e, .ite c' t' e' =>
    if exprEq' true ρc ρv c c' && blockEq' ρc ρv t t' && blockEq' ρc ρv e e' then some (ρc, ρv)
    else none
  | .loop i lo hi b par, .loop i' lo' hi' b' par' =>
    if exprEq' true ρc ρv lo lo' && exprEq' true ρc ρv hi hi' && par == par'
        && blockEq' ((i, i') :: ρc) ρv b b' then some (ρc, ρv)
    else none
  | .alloc x s, .alloc y s' => if exprsEq' true ρc ρv s s' then some (ρc, (x, y) :: ρv) else none
  | .free x, .free y => if symEq ρv x y then some (ρc, ρv) else none
  | .call f a, .call g b => if procEq' f g && argsEq' ρc ρv f.args a b then some (ρc, ρv) else none
  | .window x e, .window y e' => if exprEq' false ρc ρv e e' then some (ρc, (x, y) :: ρv) else none
  | _, _ => none
def blockEq' (ρc ρv : Ren) : List Stmt → List Stmt → Bool
  | [], [] => true
  | a :: r, b :: r' =>
    match stmtEq' ρc ρv a b with
    | some ρ' => blockEq' ρ'.1 ρ'.2 r r'
    | none => false
  | _, _ => false
/-- callees: same name, same formal names, alpha-equal formal types, assertions and bodies
    (a callee is a closed scope: the comparison starts from the empty renamings) -/
def procEq' : Proc → Proc → Bool
  | .mk n fs ps b, .mk n' fs' ps' b' =>
    n == n' && fnArgsEq' fs fs' && exprsEq' true [] [] ps ps' && blockEq' [] [] b b'
end

/-- the proposed replacement of `alphaEqBlocks` -/
def alphaEqBlocks' (a b : List Stmt) : Bool := blockEq' [] [] a b

/-! ### side conditions under which the existing `Rw.blockEq` is sound

  `sortedL LB VB B`: every symbol bound by a `for` of `B` is in `LB`, every symbol bound by an
  `alloc`/window statement of `B` is in `VB`, no symbol of `VB` is read as a control variable
  and no symbol of `LB` is used as a buffer.  (Exo's type checker gives every `Sym` one type, so
  real procedures are sorted with `LB` = the iterators and `VB` = the allocated/window names.) -/

mutual
def sortedE (ctrl : Bool) (LB VB : List Sym) : Expr → Bool
  | .read x i => (if ctrl then !VB.contains x else !LB.contains x) && sortedEs true LB VB i
  | .lit _ => true
  | .usub a => sortedE ctrl LB VB a
  | .binop _ a b => sortedE ctrl LB VB a && sortedE ctrl LB VB b
  | .extern _ a => sortedEs ctrl LB VB a
  | .win x a => !LB.contains x && sortedWs LB VB a
  | .stride x _ => !LB.contains x
  | .readcfg _ _ => true
def sortedEs (ctrl : Bool) (LB VB : List Sym) : List Expr → Bool
  | [] => true
  | a :: r => sortedE ctrl LB VB a && sortedEs ctrl LB VB r
def sortedW (LB VB : List Sym) : WAcc → Bool
  | .point a => sortedE true LB VB a
  | .interval a b => sortedE true LB VB a && sortedE true LB VB b
def sortedWs (LB VB : List Sym) : List WAcc → Bool
  | [] => true
  | a :: r => sortedW LB VB a && sortedWs LB VB r
end

def sortedArgs (LB VB : List Sym) : List FnArg → List Expr → Bool
  | ⟨_, .ctrl _⟩ :: fs, a :: as => sortedE true LB VB a && sortedArgs LB VB fs as
  | _ :: fs, a :: as => sortedE false LB VB a && sortedArgs LB VB fs as
  | _, _ => true

mutual
def sortedS (LB VB : List Sym) : Stmt → Bool
  | .assign x i e => !LB.contains x && sortedEs true LB VB i && sortedE false LB VB e
  | .reduce x i e => !LB.contains x && sortedEs true LB VB i && sortedE false LB VB e
  | .writecfg _ _ e d => sortedE (!d) LB VB e
  | .pass => true
  | .ite c t e => sortedE true LB VB c && sortedL LB VB t && sortedL LB VB e
  | .loop i lo hi b _ =>
    LB.contains i && sortedE true LB VB lo && sortedE true LB VB hi && sortedL LB VB b
  | .alloc x s => VB.contains x && sortedEs true LB VB s
  | .free x => !LB.contains x
  | .call f a => sortedArgs LB VB f.args a
  | .window x e => VB.contains x && sortedE false LB VB e
def sortedL (LB VB : List Sym) : List Stmt → Bool
  | [] => true
  | s :: r => sortedS LB VB s && sortedL LB VB r
end

mutual
/-- the callees of the calls that `blockEq` pairs up are alpha-equal (`procEq'`) — what
    `Rw.procEq` does not check -/
def sameCalleesS : Stmt → Stmt → Bool
  | .ite _ t e, .ite _ t' e' => sameCalleesL t t' && sameCalleesL e e'
  | .loop _ _ _ b _, .loop _ _ _ b' _ => sameCalleesL b b'
  | .call f _, .call g _ => procEq' f g
  | _, _ => true
def sameCalleesL : List Stmt → List Stmt → Bool
  | a :: r, b :: r' => sameCalleesS a b && sameCalleesL r r'
  | _, _ => true
end

/-! ### the tie with the corrected comparison

  `check'` is `Rw.check` (ExoModel/RwCheck.lean) with every use of `blockEq` / `alphaEqBlocks`
  replaced by `blockEq'` / `alphaEqBlocks'` (renamings read off the output go into `ρc`: they pair
  loop iterators), plus the shape of `mult_loops`.  Proposed replacement of `Rw.check` in the
  driver op `rwcheck`. -/

def same' (model : Option (List Stmt)) (after : List Stmt) : Except String Unit :=
  match model with
  | none => throw "model rewrite does not apply at this path"
  | some m => expect (alphaEqBlocks' m after) "real output differs from the model rewrite"

/-- `flag` carries the one boolean some primitives take (guard / where=before) -/
def check' (name : String) (path : Path) (k : Nat) (flag : Bool) (before after : List Stmt) :
    Except String Unit := do
  let some sb := getAt path before | throw "path invalid in input"
  let sa := (getAt path after).getD []
  match name with
  | "insert_pass" =>
    same' (rewriteAt (if flag then insertPassBefore else insertPassAfter) path before) after
  | "reorder_stmts" => same' (rewriteAt reorderStmts path before) after
  | "reorder_loops" => same' (rewriteAt reorderLoops path before) after
  | "cut_loop" =>
    match sb, sa with
    | .loop i _ _ b _ :: _, .loop _ _ mid _ _ :: .loop i2 _ _ b2 _ :: _ =>
      expect (blockEq' [(i, i2)] [] b b2) "second loop body is not a renamed copy of the original body"
      same' (rewriteAt (cutLoop i2 mid b2) path before) after
    | _, _ => throw "cut_loop: unexpected shape"
  | "join_loops" =>
    match sb with
    | .loop i _ _ b _ :: .loop i2 _ _ b2 _ :: _ =>
      -- the theorem `join_loops` needs the second body to BE the first one (iterator renamed), not merely
      -- to have the same length / the same printed text
      expect (blockEq' [(i, i2)] [] b b2) "second loop body is not the first body with the iterator renamed"
      same' (rewriteAt joinLoops path before) after
    | _ => throw "join_loops: unexpected shape"
  | "specialize" =>
    match sb, sa with
    | s :: _, .ite c _ copy :: _ =>
      expect (blockEq' [] [] [s] copy) "else branch is not a copy of the specialised statement"
      same' (rewriteAt (specialize c copy) path before) after
    | _, _ => throw "specialize: unexpected shape"
  | "eliminate_dead_code" =>
    match sb with
    | .ite _ _ _ :: _ =>
      -- which branch was kept is decided by the real analysis; accept either, but exactly one
      let m1 := rewriteAt (deadCode true) path before
      let m2 := rewriteAt (deadCode false) path before
      match m1, m2 with
      | some a, some b =>
        expect (alphaEqBlocks' a after || alphaEqBlocks' b after) "result is neither branch of the if"
      | _, _ => throw "model rewrite does not apply"
    | _ => same' (rewriteAt (deadCode true) path before) after
  | "remove_loop" =>
    let m1 := rewriteAt (removeLoop false) path before
    let m2 := rewriteAt (removeLoop true) path before
    match m1, m2 with
    | some a, some b =>
      expect (alphaEqBlocks' a after || alphaEqBlocks' b after) "result is neither the body nor the guarded body"
    | _, _ => throw "model rewrite does not apply"
  | "add_loop" =>
    match sa with
    | .loop i _ hi _ _ :: _ => same' (rewriteAt (addLoop i hi flag) path before) after
    | _ => throw "add_loop: unexpected shape"
  | "fission" =>
    -- `path` addresses the enclosing loop, `k` = number of statements staying in the first loop
    match sb, sa with
    | .loop i _ _ b _ :: _, .loop _ _ _ _ _ :: .loop i2 _ _ b2 _ :: _ =>
      expect (blockEq' [(i, i2)] [] (b.drop k) b2) "second loop body is not a renamed copy of the tail"
      same' (rewriteAt (fissionLoop k i2 b2) path before) after
    | _, _ => throw "fission: unexpected shape"
  | "fuse" =>
    match sb, sa with
    | .loop i _ _ b _ :: .loop i2 _ _ b2 _ :: _, .loop _ _ _ bf _ :: _ =>
      expect (blockEq' [(i2, i)] [] b2 (bf.drop b.length)) "fused tail is not the second body with the iterator renamed"
      same' (rewriteAt (fuseLoops (bf.drop b.length)) path before) after
    | .ite _ _ _ :: .ite _ _ _ :: _, _ => same' (rewriteAt fuseIfs path before) after
    | _, _ => throw "fuse: unexpected shape"
  | "shift_loop" =>
    match sa with
    | .loop _ nlo _ _ _ :: _ => same' (rewriteAt (shiftLoop nlo) path before) after
    | _ => throw "shift_loop: unexpected shape"
  | "unroll_loop" => same' (rewriteAt unrollLoop path before) after
  | "lift_scope" =>
    -- `path` addresses the INNER statement (the cursor `lift_scope` is given); the rewrite acts on
    -- its parent; the last step says whether the inner statement is in a `then`/loop body or in
    -- an `else` block
    let opath := path.dropLast
    match path.getLast?, getAt opath before with
    | some (.body _), some (.ite _ [.ite _ _ _] _ :: _) =>
      same' (rewriteAt liftIfThen opath before) after
    | some (.orelse _), some (.ite _ _ [.ite _ _ _] :: _) =>
      same' (rewriteAt liftIfElse opath before) after
    | some (.body _), some (.ite _ [.loop _ _ _ _ _] [] :: _) =>
      same' (rewriteAt liftForOutOfIf opath before) after
    | some (.body _), some (.loop _ _ _ [.ite _ _ _] _ :: _) =>
      same' (rewriteAt liftIfOutOfLoop opath before) after
    | some (.body _), some (.loop _ _ _ [.loop _ _ _ _ _] _ :: _) =>
      same' (rewriteAt reorderLoops opath before) after
    | _, _ => throw "lift_scope: unexpected shape"
  | "mult_loops" =>
    match sa with
    | .loop k _ _ _ _ :: _ => same' (rewriteAt (multLoops k) path before) after
    | _ => throw "mult_loops: unexpected shape"
  | "divide_loop_perfect" | "divide_loop_guard" | "divide_loop_cut" | "divide_loop_cut_and_guard" =>
    let tail := match name with
      | "divide_loop_perfect" => 0 | "divide_loop_guard" => 1 | "divide_loop_cut" => 2 | _ => 3
    match sb, sa with
    | .loop _ _ _ b _ :: _, .loop io _ ohi [.loop ii _ _ _ _] _ :: rest =>
      -- the tail loop's iterator and renamed body copy are read off the output
      let (i3, _copy) : Sym × List Stmt := match tail, rest with
        | 2, .loop i3 _ _ b3 _ :: _ => (i3, b3)
        | 3, .ite _ [.loop i3 _ _ b3 _] _ :: _ => (i3, b3)
        | _, _ => (ii, b)
      -- the copy must be the body up to renaming, after undoing the substitution on neither side:
      -- compare the substituted copies instead (same substitution on both)
      same' (rewriteAt (fun ss => match tail with
          | 0 | 1 => divideLoop k tail io ii i3 ohi b ss
          | _ => match ss with
            | .loop i' lo hi b' par :: r =>
              -- build main from the input, tail from the input body (renaming is absorbed by alpha comparison)
              divideLoop k tail io ii i3 ohi b' (.loop i' lo hi b' par :: r)
            | _ => none) path before) after
    | _, _ => throw "divide_loop: unexpected shape"
  | _ => throw s!"no model for {name}"


end Exo.Rw
