/-
  ExoModel.Order — the order model behind C18 (scheduling and compilation are deterministic).

  The run-time causes of nondeterminism of a CPython process are modelled as ADVERSARIAL
  PARAMETERS:

  * the iteration order of a `set` (hash seed, `id()`-based hashes, allocation addresses) is an
    arbitrary permutation: a set is a duplicate-free list, two runs see `l₁ ~ l₂` (`List.Perm`);
  * the numbering of `Sym`s (how many symbols / procedures were created earlier in the process)
    is an arbitrary strictly monotone renumbering `f : Nat → Nat` of the ids.

  Contents
    §0  the schema of the regenerated table `Gen/SortSites.lean` and the decidable check `tableOk`
    §1  Python's stable `sorted(l, key=…)` (= `List.mergeSort` with `¬ key b < key a`) and its
        invariance under permutations of the input when the key is injective on the collection
    §2  duplicate detection (`raise TypeError("multiple procs named …")`) and the other two ways
        distinct keys come about
    §3  the assembly of a compilation unit as `compile_to_strings` does it
    §4  `Sym`: `==`, `<` and sorting commute with order-preserving renumbering
    §5  naming machines (`Compiler.new_varname`, `PrintEnv.get_name`) use only `==` on Syms and
        their names: they commute with every injective renumbering
-/
import ExoModel.Syntax

namespace Exo.Order
open List

/-! ## 0. schema of `Gen/SortSites.lean` -/

inductive Coll | set | taintedList | taintedDict
  deriving DecidableEq, Repr

inductive Role
  /-- iteration through `sorted(…)` -/
  | sorted
  /-- unsorted iteration over a raw set that builds a list / mutates tracked lists (a ROOT) -/
  | producer
  /-- order-sensitive use of a list whose order came from ROOT sites (`origins`) -/
  | consumer
  /-- a use of an unordered value the translator has no rule for (always rejected) -/
  | escape
  deriving DecidableEq, Repr

inductive KeyKind | none | identity | attr | call | concat | other
  deriving DecidableEq, Repr

inductive Distinct
  /-- the consuming loop raises on a repeated key -/
  | raises
  /-- elements are instances of a frozen dataclass having the key as a field -/
  | frozenDataclass
  /-- nothing in the code prevents two elements with the same key -/
  | unenforced
  deriving DecidableEq, Repr

structure Site where
  id : String
  func : String
  line : Nat
  src : String
  coll : Coll
  role : Role
  sorted : Bool
  key : String
  keyKind : KeyKind
  distinct : Distinct
  maxCard : Option Nat
  insensitive : Bool
  contained : Bool
  origins : List String
  how : String
  deriving Repr

/-- the collection has at most one element (one iteration order) -/
def Site.card1 (s : Site) : Bool :=
  match s.maxCard with
  | some n => decide (n ≤ 1)
  | none => false

/-- the site sorts with a key of a recognised shape -/
def Site.sortsWithKey (s : Site) : Bool :=
  s.role == .sorted && s.sorted && s.keyKind != .other && s.keyKind != .none

/-- an order-sensitive use of an order-tainted list is harmless if it sorts, or if every root the
    order came from has at most one element -/
def consumerOk (all : List Site) (c : Site) : Bool :=
  c.sortsWithKey ||
    (!c.origins.isEmpty && c.origins.all (fun o => all.any (fun r => r.id == o && r.card1)))

/-- the per-site obligation (3) of C18 -/
def Site.ok (all : List Site) (s : Site) : Bool :=
  match s.role with
  | .sorted => s.sortsWithKey
  | .producer =>
      s.card1 || s.insensitive ||
        (s.contained && all.all (fun c => !(c.origins.contains s.id) || consumerOk all c))
  | .consumer => consumerOk all s
  | .escape => false

def tableOk (all : List Site) : Bool := all.all (Site.ok all)

/-- sorted sites whose keys the code does not force to be distinct -/
def unenforcedSorted (all : List Site) : List Site :=
  all.filter (fun s => s.role == .sorted && s.distinct == .unenforced)

/-! ## 1. Python's `sorted` -/

/-- a decidable total order on keys (what `<` on `str` is) -/
structure KeyOrder (κ : Type) where
  le : κ → κ → Bool
  trans : ∀ a b c, le a b = true → le b c = true → le a c = true
  total : ∀ a b, (le a b || le b a) = true
  antisymm : ∀ a b, le a b = true → le b a = true → a = b

/-- `str` ordered by code points (Python's `<` on `str`; `String.<` is lexicographic on `Char`) -/
def strOrder : KeyOrder String where
  le a b := decide (a ≤ b)
  trans a b c h₁ h₂ := by
    simp only [decide_eq_true_eq] at *
    exact String.le_trans h₁ h₂
  total a b := by
    simp only [Bool.or_eq_true, decide_eq_true_eq]
    exact String.le_total a b
  antisymm a b h₁ h₂ := by
    simp only [decide_eq_true_eq] at *
    exact String.le_antisymm h₁ h₂

def natOrder : KeyOrder Nat where
  le a b := decide (a ≤ b)
  trans a b c h₁ h₂ := by simp only [decide_eq_true_eq] at *; omega
  total a b := by simp only [Bool.or_eq_true, decide_eq_true_eq]; omega
  antisymm a b h₁ h₂ := by simp only [decide_eq_true_eq] at *; omega

/-- `sorted(l, key=key)`: CPython's sort is stable and compares keys with `<` only;
    `List.mergeSort` is stable, `le a b` is `¬ key b < key a` -/
def pySorted (o : KeyOrder κ) (key : α → κ) (l : List α) : List α :=
  l.mergeSort (fun a b => o.le (key a) (key b))

theorem pySorted_perm (o : KeyOrder κ) (key : α → κ) (l : List α) : pySorted o key l ~ l :=
  mergeSort_perm l _

theorem pySorted_pairwise (o : KeyOrder κ) (key : α → κ) (l : List α) :
    (pySorted o key l).Pairwise (fun a b => o.le (key a) (key b) = true) :=
  pairwise_mergeSort (le := fun a b => o.le (key a) (key b))
    (fun a b c => o.trans (key a) (key b) (key c)) (fun a b => o.total (key a) (key b)) l

theorem pySorted_of_sorted (o : KeyOrder κ) (key : α → κ) (l : List α)
    (h : l.Pairwise (fun a b => o.le (key a) (key b) = true)) : pySorted o key l = l :=
  mergeSort_of_pairwise h

/-- the key is injective on the collection -/
def InjOn (key : α → κ) (l : List α) : Prop := ∀ a ∈ l, ∀ b ∈ l, key a = key b → a = b

/-- (1) for ANY two iteration orders of the same collection, sorting by a key that is injective on
    the collection gives the same list -/
theorem pySorted_eq_of_perm (o : KeyOrder κ) (key : α → κ) {l₁ l₂ : List α}
    (h : l₁ ~ l₂) (inj : InjOn key l₁) : pySorted o key l₁ = pySorted o key l₂ := by
  apply Perm.eq_of_pairwise (le := fun a b => o.le (key a) (key b) = true)
  · intro a b ha hb hab hba
    have ha' : a ∈ l₁ := (pySorted_perm o key l₁).subset ha
    have hb' : b ∈ l₁ := h.symm.subset ((pySorted_perm o key l₂).subset hb)
    exact inj a ha' b hb' (o.antisymm _ _ hab hba)
  · exact pySorted_pairwise o key l₁
  · exact pySorted_pairwise o key l₂
  · exact ((pySorted_perm o key l₁).trans h).trans (pySorted_perm o key l₂).symm

theorem pySorted_map_key (o : KeyOrder κ) (key : α → κ) (l : List α) :
    (pySorted o key l).map key = pySorted o id (l.map key) := by
  unfold pySorted
  exact map_mergeSort (s := fun a b => o.le (id a) (id b)) (fun _ _ _ _ => rfl)

/-- the sequence of KEYS after sorting never depends on the iteration order (also with repeated
    keys): whether and on which name the duplicate check raises is deterministic -/
theorem pySorted_keys_eq_of_perm (o : KeyOrder κ) (key : α → κ) {l₁ l₂ : List α} (h : l₁ ~ l₂) :
    (pySorted o key l₁).map key = (pySorted o key l₂).map key := by
  rw [pySorted_map_key, pySorted_map_key]
  apply Perm.eq_of_pairwise (le := fun a b => o.le a b = true)
  · intro a b _ _ hab hba
    exact o.antisymm _ _ hab hba
  · exact pySorted_pairwise o id _
  · exact pySorted_pairwise o id _
  · exact ((pySorted_perm o id _).trans (h.map key)).trans (pySorted_perm o id _).symm

/-- the text emitted for a sorted site: one block per element, joined by newlines -/
def emitSorted (o : KeyOrder κ) (key : α → κ) (emit : α → String) (l : List α) : String :=
  "\n".intercalate ((pySorted o key l).map emit)

theorem emitSorted_eq_of_perm (o : KeyOrder κ) (key : α → κ) (emit : α → String) {l₁ l₂ : List α}
    (h : l₁ ~ l₂) (inj : InjOn key l₁) : emitSorted o key emit l₁ = emitSorted o key emit l₂ := by
  unfold emitSorted
  rw [pySorted_eq_of_perm o key h inj]

/-- a collection with at most one element has one iteration order -/
theorem eq_of_perm_of_length_le_one {l₁ l₂ : List α} (h : l₁ ~ l₂) (hc : l₁.length ≤ 1) : l₁ = l₂ := by
  match l₁, l₂, h, hc with
  | [], l₂, h, _ => exact (nil_perm.mp h).symm
  | [a], l₂, h, _ => exact singleton_perm.mp h
  | _ :: _ :: _, _, _, hc => simp at hc

/-! ## 2. where distinct keys come from -/

/-- the duplicate check of `compile_to_strings` / `_compile_context_struct`:
    walk the (sorted) names, `raise` on the first one already seen -/
def firstDupAux (seen : List String) : List String → Option String
  | [] => none
  | n :: ns => if seen.contains n then some n else firstDupAux (n :: seen) ns

def firstDup (names : List String) : Option String := firstDupAux [] names

theorem firstDupAux_none {seen ns} (h : firstDupAux seen ns = none) :
    ns.Nodup ∧ ∀ n ∈ ns, n ∉ seen := by
  induction ns generalizing seen with
  | nil => simp
  | cons n ns ih =>
    unfold firstDupAux at h
    split at h
    · simp at h
    · rename_i hn
      have ⟨h₁, h₂⟩ := ih h
      simp only [contains_eq_mem, decide_eq_true_eq] at hn
      refine ⟨?_, ?_⟩
      · rw [nodup_cons]
        refine ⟨fun hmem => ?_, h₁⟩
        exact h₂ n hmem (mem_cons_self)
      · intro m hm
        rcases mem_cons.mp hm with rfl | hm
        · exact hn
        · exact fun hs => h₂ m hm (mem_cons_of_mem _ hs)

/-- no `raise` ⇒ the names are pairwise distinct -/
theorem nodup_of_firstDup_none {ns} (h : firstDup ns = none) : ns.Nodup := (firstDupAux_none h).1

theorem injOn_of_nodup_map (key : α → κ) {l : List α} (h : (l.map key).Nodup) : InjOn key l := by
  induction l with
  | nil => intro a ha; simp at ha
  | cons x xs ih =>
    rw [map_cons, nodup_cons] at h
    intro a ha b hb hab
    rcases mem_cons.mp ha with hax | hax <;> rcases mem_cons.mp hb with hbx | hbx
    · rw [hax, hbx]
    · exfalso; apply h.1; rw [← hax, hab]; exact mem_map_of_mem hbx
    · exfalso; apply h.1; rw [← hbx, ← hab]; exact mem_map_of_mem hax
    · exact ih h.2 a hax b hbx hab

/-- sites with `distinct = raises`: if the check passes in one run, the key is injective -/
theorem injOn_of_check_passes (o : KeyOrder String) (key : α → String) (l : List α)
    (h : firstDup ((pySorted o key l).map key) = none) : InjOn key l := by
  have hn := nodup_of_firstDup_none h
  have hp : (pySorted o key l).map key ~ l.map key := (pySorted_perm o key l).map key
  exact injOn_of_nodup_map key (hp.nodup_iff.mp hn)

/-- sites with `distinct = frozenDataclass`: a set holds no two equal objects; if equal keys force
    equal remaining fields (checked at run time on the real `window_struct`) and an object is
    determined by its fields, the key is injective on every set -/
theorem injOn_of_functional (key : α → κ) (rest : α → ρ) (g : κ → ρ)
    (ext : ∀ a b : α, key a = key b → rest a = rest b → a = b)
    (l : List α) (fn : ∀ a ∈ l, rest a = g (key a)) : InjOn key l := by
  intro a ha b hb hab
  exact ext a b hab (by rw [fn a ha, fn b hb, hab])

/-! ## 3. assembling a compilation unit (`compile_to_strings`) -/

structure Proc where
  name : String
  isInstr : Bool
  isPublic : Bool
  decl : String
  body : String
  instrGlobal : Option String
  deriving DecidableEq, Repr

structure Mem where
  name : String
  global : String
  deriving DecidableEq, Repr

structure Ext where
  name : String
  ctype : String
  globl : String
  deriving DecidableEq, Repr

/-- the key `x[0].name() + x[1]` of `_compile_externs` -/
def Ext.key (e : Ext) : String := e.name ++ e.ctype

structure Cfg where
  name : String
  lines : List String
  deriving DecidableEq, Repr

structure WStruct where
  name : String
  definition : String
  deriving DecidableEq, Repr

/-- what the sets / lists of one `compile_to_strings` call hold; every field except `procs` comes
    out of a Python `set`, `procs` out of a walk over sets -/
structure CUnit where
  procs : List Proc
  mems : List Mem
  exts : List Ext
  cfgs : List Cfg
  structs : List WStruct
  helpers : List String
  deriving Repr

def jl (xs : List String) : String := "\n".intercalate xs

/-- `compile_to_strings`: header and body text, or the exception raised.  `prelude` is the constant
    head of the header template (includes, feature macros), `lib` the library name; `Cfg.lines` is
    the block `_compile_context_struct` appends for one config, `Proc.body` for an instruction is
    its comment block.
    Order of the steps as in the code: procs sorted; context struct (raises on a duplicate config);
    memories; the loop over procs (raises on a duplicate proc); structs; externs; helpers. -/
def compileUnit (prelude lib : String) (u : CUnit) : Except String (String × String) :=
  let procs := pySorted strOrder Proc.name u.procs
  let cfgs := pySorted strOrder Cfg.name u.cfgs
  match firstDup (cfgs.map Cfg.name) with
  | some d => .error s!"multiple configs named {d}"
  | none =>
    let ctxtDef := if cfgs.isEmpty then [] else
      ["typedef struct " ++ lib ++ "_Context { ", ""] ++ cfgs.flatMap Cfg.lines ++ ["} " ++ lib ++ "_Context;"]
    let memoryCode := (pySorted strOrder Mem.name u.mems).map Mem.global
    match firstDup (procs.map Proc.name) with
    | some d => .error s!"multiple procs named {d}"
    | none =>
      let compiled := procs.filter (fun p => !p.isInstr)
      let publicDecls := (compiled.filter (·.isPublic)).map Proc.decl
      let privateDecls := (compiled.filter (fun p => !p.isPublic)).map Proc.decl
      let bodies := procs.map Proc.body
      let instrGlobals := procs.filterMap (fun p => if p.isInstr then p.instrGlobal else none)
      let structDefs := (pySorted strOrder WStruct.name u.structs).map WStruct.definition
      -- `if glb := f.globl(t)`: an empty global is skipped
      let externCode := ((pySorted strOrder Ext.key u.exts).map Ext.globl).filter (fun g => !g.isEmpty)
      let header := prelude ++ jl ctxtDef ++ "\n" ++ jl structDefs ++ "\n" ++ jl publicDecls ++ "\n"
      let parts := [u.helpers, instrGlobals, memoryCode, externCode, privateDecls, bodies]
      let body := jl ((parts.filter (fun x => !x.isEmpty)).map jl) ++ "\n"
      .ok (header, body)

/-- two runs of the same compilation: every collection is seen in some other iteration order -/
structure CUnit.SameUpToOrder (u v : CUnit) : Prop where
  procs : u.procs ~ v.procs
  mems : u.mems ~ v.mems
  exts : u.exts ~ v.exts
  cfgs : u.cfgs ~ v.cfgs
  structs : u.structs ~ v.structs
  helpers : u.helpers ~ v.helpers

/-! ## 4. `Sym`: identity `(name, id)`, order `(name, id) <` -/

/-- `Sym.__lt__`: `(self._nm, self._id) < (rhs._nm, rhs._id)` -/
def symLt (a b : Sym) : Bool := decide (a.name < b.name) || (a.name == b.name && decide (a.id < b.id))

/-- what a stable sort that only uses `<` sees -/
def symLe (a b : Sym) : Bool := !symLt b a

/-- renumbering of symbol ids (a different process history) -/
def renum (f : Nat → Nat) (s : Sym) : Sym := { s with id := f s.id }

def StrictMono (f : Nat → Nat) : Prop := ∀ a b, a < b → f a < f b

theorem StrictMono.lt_iff {f} (h : StrictMono f) (a b : Nat) : f a < f b ↔ a < b := by
  constructor
  · intro hab
    rcases Nat.lt_trichotomy a b with hlt | heq | hgt
    · exact hlt
    · subst heq; omega
    · have := h b a hgt; omega
  · exact h a b

theorem StrictMono.injective {f} (h : StrictMono f) (a b : Nat) (hab : f a = f b) : a = b := by
  rcases Nat.lt_trichotomy a b with hlt | heq | hgt
  · have := h a b hlt; omega
  · exact heq
  · have := h b a hgt; omega

/-! two renumberings used by the examples of Props/C18.lean -/

/-- "1000 more symbols were created before this session" -/
def shift (n : Nat) : Nat := n + 1000
/-- an order-preserving but non-uniform renumbering (other procedures defined in between) -/
def stretch (n : Nat) : Nat := if n < 5 then 2 * n else 3 * n + 40

theorem shift_mono : StrictMono shift := fun a b h => by unfold shift; omega
theorem stretch_mono : StrictMono stretch := fun a b h => by unfold stretch; split <;> split <;> omega

def Injective (f : Nat → Nat) : Prop := ∀ a b, f a = f b → a = b

theorem renum_injective {f} (h : Injective f) (a b : Sym) (hab : renum f a = renum f b) : a = b := by
  cases a; cases b
  simp only [renum, Sym.mk.injEq] at hab ⊢
  exact ⟨hab.1, h _ _ hab.2⟩

/-- `==` on Syms is invariant under injective renumbering -/
theorem renum_beq {f} (h : Injective f) (a b : Sym) : (renum f a == renum f b) = (a == b) := by
  by_cases hab : a = b
  · subst hab; rw [beq_self_eq_true, beq_self_eq_true]
  · have : renum f a ≠ renum f b := fun h' => hab (renum_injective h a b h')
    rw [beq_eq_false_iff_ne.mpr hab, beq_eq_false_iff_ne.mpr this]

/-- `<` on Syms is invariant under order-preserving renumbering -/
theorem symLt_renum {f} (h : StrictMono f) (a b : Sym) : symLt (renum f a) (renum f b) = symLt a b := by
  simp only [symLt, renum]
  congr 2
  exact decide_eq_decide.mpr (h.lt_iff a.id b.id)

theorem symLe_renum {f} (h : StrictMono f) (a b : Sym) : symLe (renum f a) (renum f b) = symLe a b := by
  simp only [symLe, symLt_renum h]

/-- `sorted(syms)` commutes with order-preserving renumbering -/
theorem sort_syms_renum {f} (h : StrictMono f) (l : List Sym) :
    (l.map (renum f)).mergeSort symLe = (l.mergeSort symLe).map (renum f) :=
  (map_mergeSort (f := renum f) (r := symLe) (s := symLe)
    (fun a _ b _ => (symLe_renum h a b).symm)).symm

/-- tuples `(coeff, sym)` as in `sorted(normalization_list)` of `simplify`'s `generate_loopIR`:
    Python compares tuples by the first position where they differ (`==`), then with `<` -/
def termLt (a b : Int × Sym) : Bool :=
  if a.1 != b.1 then decide (a.1 < b.1) else if a.2 != b.2 then symLt a.2 b.2 else false

def termLe (a b : Int × Sym) : Bool := !termLt b a

def renumTerm (f : Nat → Nat) (t : Int × Sym) : Int × Sym := (t.1, renum f t.2)

theorem termLt_renum {f} (h : StrictMono f) (a b : Int × Sym) :
    termLt (renumTerm f a) (renumTerm f b) = termLt a b := by
  have hinj : Injective f := h.injective
  simp only [termLt, renumTerm, bne, renum_beq hinj, symLt_renum h]
  rfl

/-- the term order of `generate_loopIR` commutes with order-preserving renumbering -/
theorem sort_terms_renum {f} (h : StrictMono f) (l : List (Int × Sym)) :
    (l.map (renumTerm f)).mergeSort termLe = (l.mergeSort termLe).map (renumTerm f) :=
  (map_mergeSort (f := renumTerm f) (r := termLe) (s := termLe)
    (fun a _ b _ => by simp only [termLe, termLt_renum h])).symm

/-! ## 5. naming machines

  `Compiler.new_varname` (C names) and `PrintEnv.get_name` (printed names) keep
    * a `ChainMap` from strings to strings / counters (the names taken so far), and
    * a `ChainMap` from `Sym` to the chosen string, looked up with `Sym.__eq__` (hash = `id()`,
      which only decides the bucket, never the result of a lookup).
  Both are instances of one machine whose string state is advanced by a function of the symbol's
  NAME only. -/

inductive Ev
  /-- a binding occurrence (`new_varname` always chooses a fresh string and rebinds) -/
  | bind (s : Sym)
  /-- a use: `self.env[s]` (C; `none` models `KeyError`) / `env.get_name(s)` (printer: binds if unbound) -/
  | use (s : Sym)
  | push
  | pop
  deriving DecidableEq, Repr

def Ev.renum (f : Nat → Nat) : Ev → Ev
  | .bind s => .bind (Order.renum f s)
  | .use s => .use (Order.renum f s)
  | .push => .push
  | .pop => .pop

/-- the string half of a naming machine -/
structure Namer (σ : Type) where
  /-- choose the text for a symbol called `name`; `none` = the code raises -/
  fresh : σ → String → Option (String × σ)
  push : σ → σ
  pop : σ → σ
  /-- does a use of an unbound symbol bind it (printer) or fail (C compiler) -/
  useBinds : Bool

abbrev SymEnv := List (List (Sym × String))

/-- `ChainMap.get`: innermost frame first, within a frame the latest entry wins -/
def lookupSym (s : Sym) : SymEnv → Option String
  | [] => none
  | fr :: rest =>
    match fr.find? (fun p => p.1 == s) with
    | some p => some p.2
    | none => lookupSym s rest

def insertTop (s : Sym) (t : String) : SymEnv → SymEnv
  | [] => [[(s, t)]]
  | fr :: rest => ((s, t) :: fr) :: rest

def renumEnv (f : Nat → Nat) (e : SymEnv) : SymEnv := e.map (·.map (fun p => (renum f p.1, p.2)))

def bindSym (N : Namer σ) (st : σ × SymEnv) (s : Sym) : Option String × (σ × SymEnv) :=
  match N.fresh st.1 s.name with
  | none => (none, st)
  | some (t, st') => (some t, (st', insertTop s t st.2))

def step (N : Namer σ) (st : σ × SymEnv) : Ev → Option String × (σ × SymEnv)
  | .bind s => bindSym N st s
  | .use s =>
    match lookupSym s st.2 with
    | some t => (some t, st)
    | none => if N.useBinds then bindSym N st s else (none, st)
  | .push => (none, (N.push st.1, [] :: st.2))
  | .pop => (none, (N.pop st.1, st.2.tail))

/-- the strings produced by a sequence of events (one `Option String` per event) -/
def run (N : Namer σ) (st : σ × SymEnv) : List Ev → List (Option String)
  | [] => []
  | e :: es => let r := step N st e; r.1 :: run N r.2 es

theorem lookupSym_renum {f} (h : Injective f) (s : Sym) (e : SymEnv) :
    lookupSym (renum f s) (renumEnv f e) = lookupSym s e := by
  induction e with
  | nil => rfl
  | cons fr rest ih =>
    simp only [renumEnv, map_cons, lookupSym] at ih ⊢
    have hfind : ∀ fr : List (Sym × String),
        (fr.map (fun p => (renum f p.1, p.2))).find? (fun p => p.1 == renum f s)
          = (fr.find? (fun p => p.1 == s)).map (fun p => (renum f p.1, p.2)) := by
      intro fr
      induction fr with
      | nil => rfl
      | cons p ps ihp =>
        simp only [map_cons, find?_cons, renum_beq h]
        cases hps : (p.1 == s) <;> simp [ihp]
    rw [hfind fr]
    cases fr.find? (fun p => p.1 == s) with
    | none => simpa [renumEnv] using ih
    | some p => rfl

theorem insertTop_renum (f : Nat → Nat) (s : Sym) (t : String) (e : SymEnv) :
    insertTop (renum f s) t (renumEnv f e) = renumEnv f (insertTop s t e) := by
  cases e <;> rfl

theorem step_renum {f} (h : Injective f) (N : Namer σ) (st : σ) (e : SymEnv) (ev : Ev) :
    step N (st, renumEnv f e) (ev.renum f)
      = ((step N (st, e) ev).1, ((step N (st, e) ev).2.1, renumEnv f (step N (st, e) ev).2.2)) := by
  have hbind : ∀ s, bindSym N (st, renumEnv f e) (renum f s)
      = ((bindSym N (st, e) s).1, ((bindSym N (st, e) s).2.1, renumEnv f (bindSym N (st, e) s).2.2)) := by
    intro s
    simp only [bindSym, renum]
    cases N.fresh st s.name with
    | none => rfl
    | some p => simp only [← insertTop_renum]; rfl
  cases ev with
  | bind s => exact hbind s
  | use s =>
    simp only [step, Ev.renum, lookupSym_renum h]
    cases lookupSym s e with
    | some t => rfl
    | none =>
      cases N.useBinds with
      | true => exact hbind s
      | false => rfl
  | push => rfl
  | pop => simp only [step, Ev.renum, renumEnv, map_tail]

/-- every naming machine produces the same strings after any injective renumbering of ids -/
theorem run_renum {f} (h : Injective f) (N : Namer σ) (st : σ) (e : SymEnv) (evs : List Ev) :
    run N (st, renumEnv f e) (evs.map (Ev.renum f)) = run N (st, e) evs := by
  induction evs generalizing st e with
  | nil => rfl
  | cons ev evs ih =>
    simp only [map_cons, run, step_renum h]
    rw [ih]

/-! ### the two instances -/

abbrev StrMap (β : Type) := List (List (String × β))

def smLookup (k : String) : StrMap β → Option β
  | [] => none
  | fr :: rest =>
    match fr.find? (fun p => p.1 == k) with
    | some p => some p.2
    | none => smLookup k rest

def smSet (k : String) (v : β) : StrMap β → StrMap β
  | [] => [[(k, v)]]
  | fr :: rest => ((k, v) :: fr) :: rest

/-- `re.match(r"^(.*)_([0-9]*)$", s)`: the digits after the last underscore -/
def splitSuffix (s : String) : Option (String × String) :=
  let cs := s.toList.reverse
  let digits := cs.takeWhile Char.isDigit
  match cs.dropWhile Char.isDigit with
  | '_' :: rest => some (String.ofList rest.reverse, String.ofList digits.reverse)
  | _ => none

/-- one round of the `while s in self.names` loop of `new_varname`; `none` = `int("")` raises -/
def bump (s : String) : Option String :=
  match splitSuffix s with
  | none => some (s ++ "_1")
  | some (stem, digits) =>
    if digits.isEmpty then none else some (stem ++ "_" ++ toString (digits.toNat! + 1))

def bumpLoop (names : StrMap String) : Nat → String → Option String
  | 0, _ => none
  | fuel + 1, s =>
    if (smLookup s names).isSome then
      match bump s with
      | none => none
      | some s' => bumpLoop names fuel s'
    else some s

/-- `Compiler.new_varname` (the string half) -/
def cFresh (fuel : Nat) (names : StrMap String) (nm : String) : Option (String × StrMap String) :=
  match smLookup nm names with
  | none => some (nm, smSet nm nm names)
  | some s =>
    match bumpLoop names fuel s with
    | none => none
    | some s' => some (s', smSet s' s' (smSet nm s' names))

def cNamer (fuel : Nat) : Namer (StrMap String) where
  fresh := cFresh fuel
  push := fun m => [] :: m
  pop := fun m => m.tail
  useBinds := false

def printLoop (names : StrMap Nat) (nm : String) : Nat → String → Nat → Option (String × Nat)
  | 0, _, _ => none
  | fuel + 1, cand, num =>
    if (smLookup cand names).isSome then printLoop names nm fuel (nm ++ "_" ++ toString num) (num + 1)
    else some (cand, num)

/-- `PrintEnv.get_name` after the `env.get` miss (the string half) -/
def printFresh (fuel : Nat) (names : StrMap Nat) (nm : String) : Option (String × StrMap Nat) :=
  let num := (smLookup nm names).getD 1
  match printLoop names nm fuel nm num with
  | none => none
  | some (cand, num') => some (cand, smSet nm num' names)

def printNamer (fuel : Nat) : Namer (StrMap Nat) where
  fresh := printFresh fuel
  push := fun m => [] :: m
  pop := fun m => m.tail
  useBinds := true

end Exo.Order
