/-
  ExoModel.RwCheck — correspondence A for the loop-structural rewrites: is the real output
  `after` exactly the model rewrite of `before` (ExoModel.Rewrite) for some choice of the
  parameters the real primitive is free to choose (fresh names, the parsed cut expression, the
  alpha-renamed copy of a duplicated body)?  Parameters are read off `after` and then checked.
-/
import ExoModel.Rewrite

namespace Exo.Rw
open Exo

/-- block suffix starting at the addressed statement -/
def getAt : Path → List Stmt → Option (List Stmt)
  | [], _ => none
  | [st], ss => some (ss.drop st.idx)
  | st :: nxt :: rest, ss =>
    match ss[st.idx]?, nxt with
    | some (.loop _ _ _ b _), .body _ => getAt (nxt :: rest) b
    | some (.ite _ t _), .body _ => getAt (nxt :: rest) t
    | some (.ite _ _ e), .orelse _ => getAt (nxt :: rest) e
    | _, _ => none

def expect (b : Bool) (msg : String) : Except String Unit := if b then pure () else throw msg

def same (model : Option (List Stmt)) (after : List Stmt) : Except String Unit :=
  match model with
  | none => throw "model rewrite does not apply at this path"
  | some m => expect (alphaEqBlocks m after) "real output differs from the model rewrite"

/-- `flag` carries the one boolean some primitives take (guard / where=before) -/
def check (name : String) (path : Path) (k : Nat) (flag : Bool) (before after : List Stmt) :
    Except String Unit := do
  let some sb := getAt path before | throw "path invalid in input"
  let sa := (getAt path after).getD []
  match name with
  | "insert_pass" =>
    same (rewriteAt (if flag then insertPassBefore else insertPassAfter) path before) after
  | "reorder_stmts" => same (rewriteAt reorderStmts path before) after
  | "reorder_loops" => same (rewriteAt reorderLoops path before) after
  | "cut_loop" =>
    match sb, sa with
    | .loop i _ _ b _ :: _, .loop _ _ mid _ _ :: .loop i2 _ _ b2 _ :: _ =>
      expect (blockEq [(i, i2)] b b2) "second loop body is not a renamed copy of the original body"
      same (rewriteAt (cutLoop i2 mid b2) path before) after
    | _, _ => throw "cut_loop: unexpected shape"
  | "join_loops" =>
    match sb with
    | .loop i _ _ b _ :: .loop i2 _ _ b2 _ :: _ =>
      expect (b.length == b2.length) "joined loop bodies have different lengths"
      same (rewriteAt joinLoops path before) after
    | _ => throw "join_loops: unexpected shape"
  | "specialize" =>
    match sb, sa with
    | s :: _, .ite c _ copy :: _ =>
      expect (blockEq [] [s] copy) "else branch is not a copy of the specialised statement"
      same (rewriteAt (specialize c copy) path before) after
    | _, _ => throw "specialize: unexpected shape"
  | "eliminate_dead_code" =>
    match sb with
    | .ite _ t _ :: r =>
      -- which branch was kept is decided by the real analysis; accept either, but exactly one
      let m1 := rewriteAt (deadCode true) path before
      let m2 := rewriteAt (deadCode false) path before
      match m1, m2 with
      | some a, some b =>
        expect (alphaEqBlocks a after || alphaEqBlocks b after) "result is neither branch of the if"
      | _, _ => throw "model rewrite does not apply"
    | _ => same (rewriteAt (deadCode true) path before) after
  | "remove_loop" =>
    let m1 := rewriteAt (removeLoop false) path before
    let m2 := rewriteAt (removeLoop true) path before
    match m1, m2 with
    | some a, some b =>
      expect (alphaEqBlocks a after || alphaEqBlocks b after) "result is neither the body nor the guarded body"
    | _, _ => throw "model rewrite does not apply"
  | "add_loop" =>
    match sa with
    | .loop i _ hi _ _ :: _ => same (rewriteAt (addLoop i hi flag) path before) after
    | _ => throw "add_loop: unexpected shape"
  | "fission" =>
    -- `path` addresses the enclosing loop, `k` = number of statements staying in the first loop
    match sb, sa with
    | .loop i _ _ b _ :: _, .loop _ _ _ _ _ :: .loop i2 _ _ b2 _ :: _ =>
      expect (blockEq [(i, i2)] (b.drop k) b2) "second loop body is not a renamed copy of the tail"
      same (rewriteAt (fissionLoop k i2 b2) path before) after
    | _, _ => throw "fission: unexpected shape"
  | "fuse" =>
    match sb, sa with
    | .loop i _ _ b _ :: .loop i2 _ _ b2 _ :: _, .loop _ _ _ bf _ :: _ =>
      expect (blockEq [(i2, i)] b2 (bf.drop b.length)) "fused tail is not the second body with the iterator renamed"
      same (rewriteAt (fuseLoops (bf.drop b.length)) path before) after
    | .ite _ _ _ :: .ite _ _ _ :: _, _ => same (rewriteAt fuseIfs path before) after
    | _, _ => throw "fuse: unexpected shape"
  | "shift_loop" =>
    match sa with
    | .loop _ nlo _ _ _ :: _ => same (rewriteAt (shiftLoop nlo) path before) after
    | _ => throw "shift_loop: unexpected shape"
  | "unroll_loop" => same (rewriteAt unrollLoop path before) after
  | "divide_loop_perfect" | "divide_loop_guard" | "divide_loop_cut" | "divide_loop_cut_and_guard" =>
    let tail := match name with
      | "divide_loop_perfect" => 0 | "divide_loop_guard" => 1 | "divide_loop_cut" => 2 | _ => 3
    match sb, sa with
    | .loop i _ _ b _ :: _, .loop io _ ohi [.loop ii _ _ _ _] _ :: rest =>
      -- the tail loop's iterator and renamed body copy are read off the output
      let (i3, copy) : Sym × List Stmt := match tail, rest with
        | 2, .loop i3 _ _ b3 _ :: _ => (i3, b3)
        | 3, .ite _ [.loop i3 _ _ b3 _] _ :: _ => (i3, b3)
        | _, _ => (ii, b)
      -- the copy must be the body up to renaming, after undoing the substitution on neither side:
      -- compare the substituted copies instead (same substitution on both)
      same (rewriteAt (fun ss => match tail with
          | 0 | 1 => divideLoop k tail io ii i3 ohi b ss
          | _ => match ss with
            | .loop i' lo hi b' par :: r =>
              -- build main from the input, tail from the input body (renaming is absorbed by alpha comparison)
              divideLoop k tail io ii i3 ohi b' (.loop i' lo hi b' par :: r)
            | _ => none) path before) after
    | _, _ => throw "divide_loop: unexpected shape"
  | _ => throw s!"no model for {name}"

end Exo.Rw
