/-
  ExoModel.Lane — the shape every specification body of src/exo/platforms/x86.py has:

      for i in seq(0, n):            for i in seq(0, n):              for i in seq(0, n):
          dst[i] (=|+=) e(i)             if i < N:                        acc += e(i)
                                             dst[i] (=|+=) e(i)

  with `e` an arithmetic expression over `x[i]`, `x[c + i]`, `x[0]`, scalars, literals and the
  externs `relu` / `select`.  `LaneLoop.toBody` rebuilds the LoopIR of such a loop; the translator
  emits, next to each exported body, the `LaneLoop` it recognised, and Lean checks by `rfl`
  that rebuilding it gives back the exported body literally — so nothing is trusted about the
  recogniser.  ExoModel/Lemmas/Lane.lean proves, once and for every trip count, what such a loop
  computes (the "reflective lane evaluator").
-/
import ExoModel.Sem

namespace Exo.Lane

/-- right-hand sides -/
inductive LExp where
  | lane (x : Sym) (base : Nat)      -- x[i]  (base = 0),  x[base + i]
  | first (x : Sym)                  -- x[0]
  | sc (x : Sym)                     -- scalar x
  | lit (n : Int) (d : Nat)          -- data literal n/d
  | neg (a : LExp)
  | bin (op : BinOp) (a b : LExp)
  | ext1 (f : String) (a : LExp)
  | ext4 (f : String) (a b c d : LExp)
deriving Repr, Inhabited

def laneIdx (i : Sym) : Nat → Expr
  | 0 => .read i []
  | b + 1 => .binop .add (.lit (.int ((b + 1 : Nat) : Int))) (.read i [])

def LExp.toExpr (i : Sym) : LExp → Expr
  | .lane x b => .read x [laneIdx i b]
  | .first x => .read x [.lit (.int 0)]
  | .sc x => .read x []
  | .lit n d => .lit (.data n d)
  | .neg a => .usub (a.toExpr i)
  | .bin op a b => .binop op (a.toExpr i) (b.toExpr i)
  | .ext1 f a => .extern f [a.toExpr i]
  | .ext4 f a b c d => .extern f [a.toExpr i, b.toExpr i, c.toExpr i, d.toExpr i]

structure LaneLoop where
  i : Sym
  n : Nat
  /-- `some N`: the statement is guarded by `if i < N` -/
  guard : Option Sym
  dst : Sym
  /-- `true`: the target is `dst[i]`; `false`: the scalar `dst` -/
  dstLane : Bool
  /-- `true`: `+=`, `false`: `=` -/
  reduce : Bool
  rhs : LExp
deriving Repr, Inhabited

def LaneLoop.stmt (L : LaneLoop) : Stmt :=
  let idx := if L.dstLane then [Expr.read L.i []] else []
  if L.reduce then .reduce L.dst idx (L.rhs.toExpr L.i) else .assign L.dst idx (L.rhs.toExpr L.i)

def LaneLoop.inner (L : LaneLoop) : Stmt :=
  match L.guard with
  | none => L.stmt
  | some N => .ite (.binop .lt (.read L.i []) (.read N [])) [L.stmt] []

def LaneLoop.toBody (L : LaneLoop) : List Stmt :=
  [.loop L.i (.lit (.int 0)) (.lit (.int (L.n : Int))) [L.inner] false]

end Exo.Lane
