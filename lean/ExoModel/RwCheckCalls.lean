/-
  ExoModel.RwCheckCalls — correspondence A for the call primitives (ExoModel.RewriteCalls), same
  scheme and signature as `Rw.check'` / `Rw.checkStorage`.

  Conventions (`path`, `k`, `flag` as sent by the stream):
    inline           path = address of the call statement; k, flag unused
    extract_subproc  path = address of the FIRST statement of the extracted block, k = number of
                     statements of the block (`n` of the stream), flag unused (the assertions are
                     read off the output).  The callee and the actuals are read off the output call
                     node; the check is: the output is the input with the block replaced by that call,
                     AND the block is an instance of the callee's body under the actuals
                     (`checkReplace`, the validator of C05 — the inverse of inlining).

  `checkCalls` answers "is the real output the model rewrite of the input" (comparison up to alpha,
  `alphaEqBlocks'`).  `provedCalls` tells whether the instance also satisfies the decidable side
  conditions of the soundness theorems of Props/C01Calls (`inlineOk` / `extractOk`).
-/
import ExoModel.RwCheck
import ExoModel.AlphaEq
import ExoModel.RewriteCalls

namespace Exo.Rw
open Exo Exo.Inline

def checkCalls (name : String) (path : Path) (k : Nat) (flag : Bool)
    (before after : List Stmt) : Except String Unit := do
  let _ := flag
  let some sb := getAt path before | throw "path invalid in input"
  match name with
  | "inline" =>
    match sb with
    | .call f args :: _ =>
      match inline f args with
      | none => throw "inline: outside the model (an actual that is neither a control expression, a buffer nor a window)"
      | some _ => same' (rewriteAt inlineCall path before) after
    | _ => throw "inline: path does not address a call"
  | "extract_subproc" =>
    match getAt path after with
    | some (.call sub args :: _) =>
      same' (rewriteAt (extractBlock sub args k) path before) after
      expect (checkReplace (sb.take k) sub args)
        "extract_subproc: the extracted block is not the callee's body instantiated with the actuals"
    | _ => throw "extract_subproc: no call at the path in the output"
  | _ => throw s!"no model for {name}"

/-- does the instance satisfy the side conditions of the soundness theorem? (meaningful when
    `checkCalls` succeeded) -/
def provedCalls (name : String) (path : Path) (k : Nat) (before after : List Stmt) : Bool :=
  match name, getAt path before, getAt path after with
  | "inline", some sb, _ => inlineOk sb
  | "extract_subproc", some sb, some (.call sub args :: _) => extractOk sub args k sb
  | _, _, _ => false

/-- why `provedCalls` is false, for the report -/
def unprovedWhy (name : String) (path : Path) (k : Nat) (before after : List Stmt) : String :=
  match name, getAt path before, getAt path after with
  | "inline", some (.call f args :: r), _ =>
    if !inlineWf f args then "inlineWf fails"
    else match inline f args with
      | some B => if (defsOf B).all (fun x => !mentionsL x r) then "" else "a name defined by the inlined block is mentioned by the rest"
      | none => "inline undefined"
  | "extract_subproc", some sb, some (.call sub args :: _) =>
    if !checkReplace (sb.take k) sub args then "checkReplace fails"
    else if !noWinArgs sub args then "a window actual"
    else if !(defsOf (sb.take k)).isEmpty then
      (if extractOkDefs sub args k sb then "the block defines a name at its top level, not mentioned by the rest (extract_defs_in_context applies if the block's context is a tail context)"
       else "the block defines a name at its top level that the rest of the block mentions")
    else ""
  | _, _, _ => "unexpected shape"

end Exo.Rw
