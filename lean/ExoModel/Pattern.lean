/-
  ExoModel.Pattern — executable model of exo's pattern matcher and `find`
  (src/exo/frontend/pattern_match.py: PatternMatch.find / find_expr / find_stmts_in_block /
  match_stmts / match_stmt / match_e / match_name / _children / _add_result; match_pattern's `#n`
  regex; src/exo/API_cursors.py: find (lifting, length-1 blocks, SchedulingError);
  src/exo/API.py: find_loop / find_alloc_or_arg shorthand expansion).

  Names are strings: the matcher compares `str(sym)` (or `repr(sym)` with `use_sym_id`) with the
  pattern's identifier, so the exporter writes exactly the string the real matcher compares.
  Constants are exact rationals `num/den` in lowest terms: Python's `pat.val == e.val` on
  bool/int/float is exact numeric equality, which the exporter's `Fraction(v)` preserves.

  Mirrored literally (see docs/C16.md for the list of quirks): zip-truncation of index / size /
  argument lists, WindowStmt matched by an assignment pattern with no indices, WindowExpr matched
  only by `name[_]`, `stride(x, 0)` behaving like `stride(x, _)` (`not bool(pat.dim)`),
  WriteConfig's swapped `match_name` arguments, a trailing `_` needing at least one statement,
  `_` followed by a look-ahead matching zero or more statements, body patterns matching a *prefix*
  of the body, an absent `else:` pattern matching any `orelse`, Alloc sizes / Call arguments not
  being searched for expressions.

  One deliberate difference: `match_stmt` on an `S_Hole` pattern (only reachable with two adjacent
  `_` statements) raises AssertionError in Python; the model returns `false`.  The harness treats a
  real AssertionError on such patterns as "outside the model" and compares otherwise.
-/
import ExoModel.Nav
namespace Exo.Pattern
open Exo.Nav (Step Path Cursor)

/-- constant value: exact rational in lowest terms (den > 0) -/
structure CVal where
  num : Int
  den : Nat
deriving DecidableEq, Repr, Inhabited

def CVal.neg (v : CVal) : CVal := ⟨-v.num, v.den⟩

/-! ### LoopIR mirror (what the matcher distinguishes) -/

mutual
inductive Expr where
  | read (name : String) (idx : List Expr)
  | const (v : CVal)
  | usub (arg : Expr)
  | binop (op : String) (lhs rhs : Expr)
  | extern (f : String) (args : List Expr)
  | windowExpr (name : String) (idx : List WAcc)
  | strideExpr (name : String) (dim : Int)
  | readConfig (config field : String)
inductive WAcc where
  | interval (lo hi : Expr)
  | point (pt : Expr)
end

instance : Inhabited Expr := ⟨.const ⟨0, 1⟩⟩

inductive Stmt where
  | assign (name : String) (idx : List Expr) (rhs : Expr)
  | reduce (name : String) (idx : List Expr) (rhs : Expr)
  | writeConfig (config field : String) (rhs : Expr)
  | pass
  | if_ (cond : Expr) (body orelse : List Stmt)
  | for_ (iter : String) (lo hi : Expr) (body : List Stmt)
  | alloc (name : String) (hi : Option (List Expr))      -- `some hi` for Tensor types, `none` for scalars
  | call (f : String) (args : List Expr)
  | windowStmt (name : String) (rhs : Expr)

instance : Inhabited Stmt := ⟨.pass⟩

/-! ### PAST mirror -/

inductive PExpr where
  | read (name : String) (idx : List PExpr)
  | strideExpr (name : String) (dim : Option Int)
  | hole
  | const (v : CVal)
  | usub (arg : PExpr)
  | binop (op : String) (lhs rhs : PExpr)
  | extern (f : String) (args : List PExpr)
  | readConfig (config field : String)

instance : Inhabited PExpr := ⟨.hole⟩

inductive PStmt where
  | assign (name : String) (idx : List PExpr) (rhs : PExpr)
  | reduce (name : String) (idx : List PExpr) (rhs : PExpr)
  | pass
  | if_ (cond : PExpr) (body orelse : List PStmt)
  | for_ (iter : String) (lo hi : PExpr) (body : List PStmt)
  | alloc (name : String) (sizes : List PExpr)
  | call (f : String) (args : List PExpr)
  | writeConfig (config field : String)
  | hole

instance : Inhabited PStmt := ⟨.hole⟩

def PStmt.isHole : PStmt → Bool
  | .hole => true
  | _ => false

/-- a parsed pattern: `pyparser.pattern` returns either one expression or a statement list -/
inductive Pat where
  | expr (e : PExpr)
  | stmts (ss : List PStmt)

/-! ### node-level matcher -/

/-- `match_name` -/
def matchName (patNm irSym : String) : Bool := patNm == "_" || patNm == irSym

/-- `not bool(pat.dim)`: `None` and `0` are falsy -/
def dimFalsy : Option Int → Bool
  | none => true
  | some d => d == 0

mutual
  /-- `match_e` -/
  def matchE : PExpr → Expr → Bool
    | .hole, _ => true
    -- special case: pattern `-3` parsed as USub(Const 3) against Const(-3)
    | .usub (.const v), .const w => v.neg == w
    | .read pn pidx, .read n idx => matchName pn n && matchEs pidx idx
    | .read pn pidx, .windowExpr n _ =>
      (match pidx with
       | [.hole] => matchName pn n
       | _ => false)
    | .const v, .const w => v == w
    | .binop pop pl pr, .binop op l r => pop == op && matchE pl l && matchE pr r
    | .usub pa, .usub a => matchE pa a
    | .extern pf pargs, .extern f args => matchName pf f && matchEs pargs args
    | .readConfig pc pf, .readConfig c f => pc == c && pf == f
    | .strideExpr pn pd, .strideExpr n d => matchName pn n && (pd == some d || dimFalsy pd)
    | _, _ => false
  /-- `all(match_e(pi, si) for pi, si in zip(pats, es))` — the shorter list decides -/
  def matchEs : List PExpr → List Expr → Bool
    | p :: ps, e :: es => matchE p e && matchEs ps es
    | _, _ => true
end

mutual
  /-- `match_stmt` (pattern is not a hole; see the header for the hole case) -/
  def matchStmt (pat : PStmt) : Stmt → Bool
    | .assign n idx rhs =>
      (match pat with
       | .assign pn pidx prhs => matchName pn n && matchEs pidx idx && matchE prhs rhs
       | _ => false)
    | .reduce n idx rhs =>
      (match pat with
       | .reduce pn pidx prhs => matchName pn n && matchEs pidx idx && matchE prhs rhs
       | _ => false)
    | .windowStmt n rhs =>
      (match pat with
       | .assign pn pidx prhs => matchName pn n && pidx.isEmpty && matchE prhs rhs
       | _ => false)
    | .pass =>
      (match pat with
       | .pass => true
       | _ => false)
    | .if_ cond body orelse =>
      (match pat with
       | .if_ pc pb po =>
         matchE pc cond && (matchStmtsLoop pb body 0).isSome && (matchStmtsLoop po orelse 0).isSome
       | _ => false)
    | .for_ it lo hi body =>
      (match pat with
       | .for_ pit plo phi pb =>
         matchName pit it && matchE plo lo && matchE phi hi && (matchStmtsLoop pb body 0).isSome
       | _ => false)
    | .alloc n thi =>
      (match pat with
       | .alloc pn psizes =>
         (match thi with
          | some his => matchEs psizes his && matchName pn n
          | none => matchName pn n)
       | _ => false)
    | .call f _ =>
      (match pat with
       | .call pf _ => matchName pf f
       | _ => false)
    | .writeConfig c fld _ =>
      (match pat with
       -- argument order as in the source: match_name(stmt.config.name(), pat.config)
       | .writeConfig pc pf => matchName c pc && matchName fld pf
       | _ => false)
  /-- the `while` loop of `match_stmts`; `j` = statements consumed so far.  Result `some n` = the
      matched portion is `cur[:n]` (a trailing hole returns all of `cur`). -/
  def matchStmtsLoop (pats : List PStmt) : List Stmt → Nat → Option Nat
    | [], j => (match pats with
        | [] => some j
        | _ :: _ => none)
    | s :: ss, j =>
      (match pats with
       | [] => some j
       | [.hole] => some (j + (ss.length + 1))          -- no look-ahead: `return cur`
       | .hole :: p1 :: ps =>
         if matchStmt p1 s then matchStmtsLoop ps ss (j + 1)       -- i += 2
         else matchStmtsLoop (.hole :: p1 :: ps) ss (j + 1)        -- hole swallows `s`
       | p :: ps =>
         if matchStmt p s then matchStmtsLoop ps ss (j + 1) else none)
end

/-- `match_stmts(pats, cur)`: length of the matched prefix block, if any -/
def matchStmts (pats : List PStmt) (cur : List Stmt) : Option Nat := matchStmtsLoop pats cur 0

/-! ### the search state (`_match_no`, `_results`, `_MatchComplete`) -/

structure FindSt (α : Type) where
  matchNo : Option Nat
  results : List α
  done : Bool            -- `_MatchComplete` has been raised: nothing below runs any more

def FindSt.init {α : Type} (matchNo : Option Nat) : FindSt α := ⟨matchNo, [], false⟩

/-- `_add_result` -/
def FindSt.add {α : Type} (st : FindSt α) (r : α) : FindSt α :=
  if st.done then st else
  match st.matchNo with
  | none => { st with results := st.results ++ [r] }
  | some 0 => { st with results := st.results ++ [r], done := true }
  | some (i + 1) => { st with matchNo := some i }

/-! ### `find_expr`: pre-order walk along `_children` -/

/-- what a cursor can point to -/
inductive Any where
  | proc (body : List Stmt)
  | stmt (s : Stmt)
  | expr (e : Expr)
  | wacc (w : WAcc)

/-- generic tree of cursor positions: label + children with the path step leading to each -/
inductive Tree (α : Type) where
  | node (lab : α) (kids : List (Step × Tree α))

def Tree.lab {α : Type} : Tree α → α | .node l _ => l
def Tree.kids {α : Type} : Tree α → List (Step × Tree α) | .node _ k => k

/-! `_children` / `_children_from_attrs`, as a tree: for each node the listed attributes in the
    listed order, list attributes element by element.  Alloc/Pass have no children (so Alloc sizes
    are never searched), Call lists `args`. -/
mutual
  def treeE : Expr → Tree Any
    | .read n idx => .node (.expr (.read n idx)) (treeEs "idx" 0 idx)
    | .const v => .node (.expr (.const v)) []
    | .usub a => .node (.expr (.usub a)) [(("arg", none), treeE a)]
    | .binop op l r => .node (.expr (.binop op l r)) [(("lhs", none), treeE l), (("rhs", none), treeE r)]
    | .extern f args => .node (.expr (.extern f args)) (treeEs "args" 0 args)
    | .windowExpr n idx => .node (.expr (.windowExpr n idx)) (treeWs 0 idx)
    | .strideExpr n d => .node (.expr (.strideExpr n d)) []
    | .readConfig c f => .node (.expr (.readConfig c f)) []
  def treeEs (attr : String) (k : Nat) : List Expr → List (Step × Tree Any)
    | [] => []
    | e :: es => ((attr, some k), treeE e) :: treeEs attr (k + 1) es
  def treeW : WAcc → Tree Any
    | .interval lo hi => .node (.wacc (.interval lo hi)) [(("lo", none), treeE lo), (("hi", none), treeE hi)]
    | .point pt => .node (.wacc (.point pt)) [(("pt", none), treeE pt)]
  def treeWs (k : Nat) : List WAcc → List (Step × Tree Any)
    | [] => []
    | w :: ws => (("idx", some k), treeW w) :: treeWs (k + 1) ws
end

mutual
  def treeS : Stmt → Tree Any
    | .assign n idx rhs => .node (.stmt (.assign n idx rhs)) (treeEs "idx" 0 idx ++ [(("rhs", none), treeE rhs)])
    | .reduce n idx rhs => .node (.stmt (.reduce n idx rhs)) (treeEs "idx" 0 idx ++ [(("rhs", none), treeE rhs)])
    | .writeConfig c f rhs => .node (.stmt (.writeConfig c f rhs)) [(("rhs", none), treeE rhs)]
    | .windowStmt n rhs => .node (.stmt (.windowStmt n rhs)) [(("rhs", none), treeE rhs)]
    | .pass => .node (.stmt .pass) []
    | .alloc n h => .node (.stmt (.alloc n h)) []
    | .if_ c b o => .node (.stmt (.if_ c b o))
        ((("cond", none), treeE c) :: (treeSs "body" 0 b ++ treeSs "orelse" 0 o))
    | .for_ it lo hi b => .node (.stmt (.for_ it lo hi b))
        ((("lo", none), treeE lo) :: (("hi", none), treeE hi) :: treeSs "body" 0 b)
    | .call f args => .node (.stmt (.call f args)) (treeEs "args" 0 args)
  def treeSs (attr : String) (k : Nat) : List Stmt → List (Step × Tree Any)
    | [] => []
    | s :: ss => ((attr, some k), treeS s) :: treeSs attr (k + 1) ss
end

def treeProc (body : List Stmt) : Tree Any := .node (.proc body) (treeSs "body" 0 body)

/-- `match_e(pat, cur._node)` for an arbitrary node: non-expressions never match -/
def matchAny (pat : PExpr) : Any → Bool
  | .expr e => matchE pat e
  | _ => (match pat with
      | .hole => true       -- E_Hole matches anything, but `find` rejects a bare hole before searching
      | _ => false)

mutual
  /-- `find_expr(pat, cur)` with the matcher abstracted to `m` -/
  def findT {α : Type} (m : α → Bool) (path : Path) : Tree α → FindSt Path → FindSt Path
    | .node lab kids => fun st =>
      if st.done then st else
      findKids m path kids (if m lab then st.add path else st)
  def findKids {α : Type} (m : α → Bool) (path : Path) : List (Step × Tree α) → FindSt Path → FindSt Path
    | [] => fun st => st
    | (s, k) :: rest => fun st => findKids m path rest (findT m (path ++ [s]) k st)
end

/-! pre-order positions of a tree -/
mutual
  def preorder {α : Type} (path : Path) : Tree α → List (Path × α)
    | .node lab kids => (path, lab) :: preorderKids path kids
  def preorderKids {α : Type} (path : Path) : List (Step × Tree α) → List (Path × α)
    | [] => []
    | (s, k) :: rest => preorder (path ++ [s]) k ++ preorderKids path rest
end

/-! ### `find_stmts_in_block` -/

/-- a statement-block position: the block `anchor.attr[off:]` whose statements are `suffix` -/
structure BlockPos where
  anchor : Path
  attr : String
  off : Nat
  suffix : List Stmt

/-- result of a statement search: `Block(anchor, attr, range(lo, hi))` -/
structure BlockRes where
  anchor : Path
  attr : String
  lo : Nat
  hi : Nat
deriving DecidableEq, Repr, Inhabited

/-- `if m := self.match_stmts(pats, curs): self._add_result(m)` — `m` is a Block, truthy iff non-empty -/
def tryMatch (pats : List PStmt) (anchor : Path) (attr : String) (off : Nat) (cur : List Stmt) :
    Option BlockRes :=
  match matchStmts pats cur with
  | some j => if j > 0 then some ⟨anchor, attr, off, off + j⟩ else none
  | none => none

mutual
  /-- the "first, look inside the first statement" part of `find_stmts_in_block` -/
  def findInStmt (pats : List PStmt) (path : Path) : Stmt → FindSt BlockRes → FindSt BlockRes
    | .if_ _ b o => fun st =>
      findInBlock pats path "orelse" 0 o (findInBlock pats path "body" 0 b st)
    | .for_ _ _ _ b => fun st => findInBlock pats path "body" 0 b st
    | _ => fun st => st
  /-- `find_stmts_in_block(pats, curs)` where `curs = anchor.attr[off:]` -/
  def findInBlock (pats : List PStmt) (anchor : Path) (attr : String) (off : Nat) :
      List Stmt → FindSt BlockRes → FindSt BlockRes
    | [] => fun st => st
    | s :: rest => fun st =>
      if st.done then st else
      let st1 := match tryMatch pats anchor attr off (s :: rest) with
        | some r => st.add r
        | none => st
      let st2 := findInStmt pats (anchor ++ [(attr, some off)]) s st1
      findInBlock pats anchor attr (off + 1) rest st2
end

mutual
  /-- all statement-block positions in program order: a position, then everything inside its first
      statement (body before orelse), then the rest of the block -/
  def posInStmt (path : Path) : Stmt → List BlockPos
    | .if_ _ b o => posInBlock path "body" 0 b ++ posInBlock path "orelse" 0 o
    | .for_ _ _ _ b => posInBlock path "body" 0 b
    | _ => []
  def posInBlock (anchor : Path) (attr : String) (off : Nat) : List Stmt → List BlockPos
    | [] => []
    | s :: rest =>
      ⟨anchor, attr, off, s :: rest⟩ :: (posInStmt (anchor ++ [(attr, some off)]) s
        ++ posInBlock anchor attr (off + 1) rest)
end

/-- "the pattern matches at this position" -/
def matchesAt (pats : List PStmt) (p : BlockPos) : Option BlockRes :=
  tryMatch pats p.anchor p.attr p.off p.suffix

/-! ### `PatternMatch.find` and the API wrappers -/

inductive FindErr
  | anything        -- PatternMatchError("pattern match on 'anything' unsupported")
  | noMatch         -- SchedulingError("failed to find matches")
deriving DecidableEq, Repr, Inhabited

/-- raw result cursors of `PatternMatch.find` on the procedure root -/
def findRaw (body : List Stmt) (pat : Pat) (matchNo : Option Nat) : Except FindErr (List Cursor) :=
  match pat with
  | .expr .hole => throw .anything
  | .expr pe =>
    pure (((findT (matchAny pe) [] (treeProc body) (FindSt.init matchNo)).results).map Cursor.node)
  | .stmts ps =>
    if ps.all PStmt.isHole then throw .anything
    else pure (((findInBlock ps [] "body" 0 body (FindSt.init matchNo)).results).map
      fun r => Cursor.block r.anchor r.attr r.lo r.hi)

/-- API_cursors.find's post-processing: a length-1 block becomes the node it contains -/
def liftRes : Cursor → Cursor
  | .block a attr lo hi => if hi - lo = 1 then .node (a ++ [(attr, some lo.toNat)]) else .block a attr lo hi
  | c => c

/-- `API_cursors.find(scope=root, pattern, many)`; `hashNo` is the `#n` suffix if the pattern string
    had one -/
def apiFind (body : List Stmt) (pat : Pat) (hashNo : Option Nat) (many : Bool) :
    Except FindErr (List Cursor) := do
  let matchNo := match hashNo with
    | some n => some n
    | none => if many then none else some 0
  let raw ← findRaw body pat matchNo
  let cs := raw.map liftRes
  if cs.isEmpty then throw .noMatch
  else if many then pure cs else pure (cs.take 1)

/-! ### pattern strings: the `#n` suffix and the name shorthands (ASCII) -/

def isDigitC (c : Char) : Bool := '0' ≤ c && c ≤ '9'
def isSpaceC (c : Char) : Bool := c == ' ' || c == '\t' || c == '\n' || c == '\r' || c == '\x0b' || c == '\x0c'
def isIdStartC (c : Char) : Bool := ('a' ≤ c && c ≤ 'z') || ('A' ≤ c && c ≤ 'Z') || c == '_'
def isWordC (c : Char) : Bool := isIdStartC c || isDigitC c

def digitsToNat (ds : List Char) : Nat := ds.foldl (fun acc c => acc * 10 + (c.toNat - '0'.toNat)) 0

/-- `re.search(r"^([^#]+)#(\d+)\s*$", s)` of match_pattern: (pattern text, match number) -/
def splitMatchNo (s : List Char) : List Char × Option Nat :=
  let pre := s.takeWhile (· != '#')
  match s.dropWhile (· != '#') with
  | '#' :: r =>
    let ds := r.takeWhile isDigitC
    let tl := r.dropWhile isDigitC
    if !pre.isEmpty && !ds.isEmpty && tl.all isSpaceC then (pre, some (digitsToNat ds)) else (s, none)
  | _ => (s, none)

/-- `re.search(r"^([a-zA-Z_]\w*)\s*(\#\s*[0-9]+)?$", s)`: (name, count text) -/
def nameCount (s : List Char) : Option (List Char × List Char) :=
  match s with
  | c :: _ =>
    if isIdStartC c then
      let name := s.takeWhile isWordC
      let r := (s.dropWhile isWordC).dropWhile isSpaceC
      match r with
      | [] => some (name, [])
      | '#' :: r2 =>
        let r3 := r2.dropWhile isSpaceC
        let ds := r3.takeWhile isDigitC
        let tl := r3.dropWhile isDigitC
        if !ds.isEmpty && (tl == [] || tl == ['\n']) then
          some (name, '#' :: (r2.takeWhile isSpaceC ++ ds))
        else none
      | _ => none
    else none
  | [] => none

/-- `find_loop`'s rewriting of the pattern string -/
def expandLoop (s : List Char) : List Char :=
  match nameCount s with
  | some (name, count) => "for ".toList ++ name ++ " in _: _".toList ++ count
  | none => s

/-- `find_alloc_or_arg`'s rewriting (when no argument has that name) -/
def expandAlloc (s : List Char) : List Char :=
  match nameCount s with
  | some (name, count) => name ++ ": _".toList ++ count
  | none => s

/-- what `pyparser.pattern` returns for `for NAME in _: _` (checked against the real parser by the
    harness) -/
def forPat (name : String) : List PStmt := [.for_ name .hole .hole [.hole]]

/-- what `pyparser.pattern` returns for `NAME: _` -/
def allocPat (name : String) : List PStmt := [.alloc name []]

end Exo.Pattern
