/-
  ExoModel.SimplifyOracle — a concrete instantiation of the range oracle of `ExoModel.Simplify`,
  used only by the driver (`Drivers/C12.lean`) so that the whole pipeline can be run against the
  real code.  It is a compact mirror of `constant_bound` / `index_range_analysis` /
  `IndexRangeEnvironment.add_loop_iter` / `_check_range` (src/exo/rewrite/range_analysis.py) as far
  as `_DoNormalize` uses them.  The theorems of C12 do not mention this file: they assume an
  arbitrary sound oracle.  (C13 models and proves the range analysis itself; once `ExoModel.Range`
  exists its `checkBound` can replace this stand-in.)
-/
import ExoModel.Simplify

namespace Exo.Simplify
open Exo (Sym)

/-- result of `analyze_range`: a Python `int`, or an `IndexRange` of which only "is the base
    the literal 0" matters to `constant_bound` -/
inductive Rng
  | int (v : Int)
  | rng (baseZero : Bool) (lo hi : Option Int)
deriving Repr, Inhabited

abbrev REnv := List (Sym × (Option Int × Option Int))

def oadd : Option Int → Option Int → Option Int
  | some a, some b => some (a + b)
  | _, _ => none

def Rng.neg : Rng → Rng
  | .int v => .int (- v)
  | .rng b lo hi => .rng b (hi.map (- ·)) (lo.map (- ·))

def Rng.add : Rng → Rng → Rng
  | .int a, .int b => .int (a + b)
  | .rng b lo hi, .int c => .rng b (lo.map (· + c)) (hi.map (· + c))
  | .int c, .rng b lo hi => .rng b (lo.map (· + c)) (hi.map (· + c))
  | .rng b1 lo1 hi1, .rng b2 lo2 hi2 => .rng (b1 && b2) (oadd lo1 lo2) (oadd hi1 hi2)

def Rng.mulInt (b : Bool) (lo hi : Option Int) (c : Int) : Rng :=
  if c = 0 then .int 0
  else if c > 0 then .rng b (lo.map (· * c)) (hi.map (· * c))
  else .rng b (hi.map (· * c)) (lo.map (· * c))

def Rng.mul : Rng → Rng → Option Rng
  | .int a, .int b => some (.int (a * b))
  | .rng b lo hi, .int c => some (Rng.mulInt b lo hi c)
  | .int c, .rng b lo hi => some (Rng.mulInt b lo hi c)
  | .rng .., .rng .. => none

def Rng.div : Rng → Rng → Option Rng
  | .int a, .int c => if c ≤ 0 then none else some (.int (a / c))
  | .rng b lo hi, .int c =>
    if c ≤ 0 then none
    else if b then some (.rng true (lo.map (· / c)) (hi.map (· / c)))
    else
      match lo, hi with
      | some l, some h => some (.rng false (some (l / c)) (some (h / c + 1)))
      | _, _ => some (.rng false none none)
  | _, _ => none

def Rng.mod : Rng → Rng → Option Rng
  | .int a, .int c => if c ≤ 0 then none else some (.int (a % c))
  | .rng b lo hi, .int c =>
    if c ≤ 0 then none
    else
      match b, lo, hi with
      | true, some l, some h =>
        if l / c = h / c then some (.rng true (some (l % c)) (some (h % c)))
        else some (.rng true (some 0) (some (c - 1)))
      | _, _, _ => some (.rng true (some 0) (some (c - 1)))
  | _, _ => none

/-- `index_range_analysis`; `none` = a Python exception (ReadConfig, non-affine product, …) -/
def analyze (env : REnv) : Expr → Option Rng
  | .var s =>
    match env.lookup s with
    | some (lo, hi) => some (.rng true lo hi)
    | none => some (.rng false (some 0) (some 0))
  | .const v => some (.int v)
  | .usub e => (analyze env e).map Rng.neg
  | .bin op l r =>
    match analyze env l, analyze env r with
    | some a, some b =>
      match op with
      | .add => some (a.add b)
      | .sub => some (a.add b.neg)
      | .mul => a.mul b
      | .div => a.div b
      | .mod => a.mod b
      | _ => none
    | _, _ => none
  | _ => none

/-- `constant_bound` -/
def constantBound (env : REnv) (e : Expr) : Option (Option Int × Option Int) :=
  match analyze env e with
  | some (.int v) => some (some v, some v)
  | some (.rng true lo hi) => some (lo, hi)
  | some (.rng false _ _) => some (none, none)
  | none => none

/-- `check_expr_bound(e, "<", c)` / `check_expr_bound(c, "<=", e)` through `_check_range` -/
def rangeOracle (env : REnv) : Oracle := fun e op c =>
  match constantBound env e, op with
  | some (_, some hi), .lt => decide (hi < c)
  | some (some lo, _), .ge => decide (c ≤ lo)
  | _, _ => false

/-- `add_loop_iter` -/
def loopRange (env : REnv) (lo hi : Expr) : Option Int × Option Int :=
  let l := match constantBound env lo with | some (l, _) => l | none => none
  let h := match constantBound env hi with | some (_, h) => h.map (· - 1) | none => none
  match l, h with
  | some a, some b => if a > b then (none, none) else (l, h)
  | _, _ => (l, h)

/-- the environment in a scope: size arguments are `(1, None)`, loop iterators as `add_loop_iter` left them -/
def envOf (sizes : List Sym) : Scope → REnv
  | [] => sizes.map (fun s => (s, (some 1, none)))
  | (i, lo, hi) :: sc =>
    let env := envOf sizes sc
    (i, loopRange env lo hi) :: env

def rangeOracleS (sizes : List Sym) : OracleS := fun sc => rangeOracle (envOf sizes sc)

end Exo.Simplify
